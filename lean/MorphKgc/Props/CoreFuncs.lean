/-
The translated functions (`Gen/CoreFuncs.lean`, regenerated from /repo's Python AST on every run by tools/gen/Core.py) are EQUAL to
the hand-written model functions every property theorem is stated about:

  utils.get_references_in_template            = Model.getReferencesInTemplate
  mapping_partitioner.get_invariant_of_template = Model.getInvariantOfTemplate      (`raise` = `none`)
  materializer._materialize_template (row-wise) = Model.materializeTemplate          (KeyError names the prefixed column)

for all arguments.  So the C01/C02/C03/C05/C08 theorems about the model are theorems about what the source says now; an edit of one of
these functions changes the generated definition and these equalities are re-checked by `lake build` (a broken one is a broken proof
obligation of those properties and starts their failing-input search).

Reading of the vectorised pandas code and the library calls that are mapped to model primitives: see the header of tools/gen/Core.py.
-/
import MorphKgc.Gen.CoreFuncs
import MorphKgc.Gen.Canon
import MorphKgc.Gen.Escape
import MorphKgc.Lemmas.Template
import MorphKgc.Model.Eval
namespace Props.CoreFuncs
open Py Model
open Gen.Core (RML_IRI RML_LITERAL RML_BLANK_NODE RML_TEMPLATE RML_REFERENCE RML_CONSTANT XSD_BOOLEAN XSD_DATETIME XSD_INTEGER
  RML_EXECUTION RML_LANGUAGE_MAP RML_DATATYPE_MAP RML_DEFAULT_GRAPH NQUADS)

theorem aux_eq : Model.auxString = Gen.Core.AUXILIAR_UNIQUE_REPLACING_STRING := by decide

theorem refs_eq (t : Str) : Gen.Core.get_references_in_template t = Model.getReferencesInTemplate t := by
  unfold Gen.Core.get_references_in_template Model.getReferencesInTemplate
  rw [aux_eq]

theorem inv_eq (t : Str) : Gen.Core.get_invariant_of_template t = Model.getInvariantOfTemplate t := by
  unfold Gen.Core.get_invariant_of_template Model.getInvariantOfTemplate
  rw [aux_eq]
  simp only []
  split <;> simp_all

def kindIri : MapType → Str
  | .constant => RML_CONSTANT
  | .template => RML_TEMPLATE
  | .reference => RML_REFERENCE
  | .execution => RML_EXECUTION
  | .quoted => Gen.Core.RML_QUOTED_TRIPLES_MAP
  | .parentTM => "http://w3id.org/rml/parentTriplesMap".toList

def ttIri : Option TermType → Str
  | some .iri => RML_IRI
  | some .bnode => RML_BLANK_NODE
  | some .literal => RML_LITERAL
  | some .star => "http://w3id.org/rml/RDFstarTriple".toList
  | none => []

def primsOf (cfg : TermCfg) (fmt : Str) : Gen.Core.Prims where
  onlyPrintable := cfg.nonPrintable.isSome
  safe := cfg.safe
  removeNonPrintable := fun v => match cfg.nonPrintable with | some np => v.filter (fun c => !np c) | none => v
  outputFormat := fmt
  /- function executions are outside the fragment of `Model.rowTriple` (C14's domain) -/
  fnml := fun _ _ _ _ _ => .error (.keyError [])
  fnmlRefs := fun _ => []
  quotedRefs := fun _ => []
  joinChildRefs := fun _ => []
  joinParentRefs := fun _ => []

def canonD (dt v : Str) : Str := match canonFor Gen.canonSiteTemplate.ladder dt v with | .ok r => r | .error _ => v

structure FromSource (cfg : TermCfg) : Prop where
  chain : cfg.escapeChain = Gen.escapeChainTemplate
  canon : cfg.canon = canonD

theorem strip_tt (tt : Option TermType) : strip (ttIri tt) = ttIri tt := by
  cases tt with
  | none => decide
  | some t => cases t <;> decide

theorem tt_iri (tt : Option TermType) : (ttIri tt = RML_IRI) ↔ tt = some .iri := by
  cases tt with
  | none => decide
  | some t => cases t <;> decide
theorem tt_lit (tt : Option TermType) : (ttIri tt = RML_LITERAL) ↔ tt = some .literal := by
  cases tt with
  | none => decide
  | some t => cases t <;> decide
theorem tt_bn (tt : Option TermType) : (ttIri tt = RML_BLANK_NODE) ↔ tt = some .bnode := by
  cases tt with
  | none => decide
  | some t => cases t <;> decide
theorem kind_tpl (k : MapType) : (kindIri k = RML_TEMPLATE) ↔ k = .template := by cases k <;> decide
theorem kind_ref (k : MapType) : (kindIri k = RML_REFERENCE) ↔ k = .reference := by cases k <;> decide

theorem canonD_eq (dt v : Str) :
    canonD dt v = if dt = XSD_BOOLEAN then asciiLower v else if dt = XSD_DATETIME then replace v " ".toList "T".toList
      else if dt = XSD_INTEGER then stripDotZero v else v := by
  have hl : Gen.canonSiteTemplate.ladder = [(XSD_BOOLEAN, .lowerAll), (XSD_DATETIME, .replaceAll " ".toList "T".toList), (XSD_INTEGER, .stripDotZero)] := rfl
  have b12 : (XSD_BOOLEAN == XSD_DATETIME) = false := by decide
  have b13 : (XSD_BOOLEAN == XSD_INTEGER) = false := by decide
  have b23 : (XSD_DATETIME == XSD_INTEGER) = false := by decide
  have h12 : XSD_BOOLEAN ≠ XSD_DATETIME := by decide
  have h13 : XSD_BOOLEAN ≠ XSD_INTEGER := by decide
  have h23 : XSD_DATETIME ≠ XSD_INTEGER := by decide
  unfold canonD canonFor shapeOf
  rw [hl]
  by_cases h1 : dt = XSD_BOOLEAN
  · subst h1; simp [List.find?, canon]
  · by_cases h2 : dt = XSD_DATETIME
    · subst h2
      simp [List.find?, canon, b12, h12.symm]
    · by_cases h3 : dt = XSD_INTEGER
      · subst h3
        simp [List.find?, canon, b13, b23, h13.symm, h23.symm]
      · have e1 : (XSD_BOOLEAN == dt) = false := by simpa using fun h => h1 h.symm
        have e2 : (XSD_DATETIME == dt) = false := by simpa using fun h => h2 h.symm
        have e3 : (XSD_INTEGER == dt) = false := by simpa using fun h => h3 h.symm
        simp [List.find?, canon, e1, e2, e3, h1, h2, h3]

theorem chain_eq (v : Str) : applyChain Gen.escapeChainTemplate v =
    replace (replace (replace (replace (replace (replace (replace (replace v [Char.ofNat 92] [Char.ofNat 92, Char.ofNat 92]) [Char.ofNat 10] [Char.ofNat 92, Char.ofNat 110]) [Char.ofNat 9] [Char.ofNat 92, Char.ofNat 116]) [Char.ofNat 8] [Char.ofNat 92, Char.ofNat 98]) [Char.ofNat 12] [Char.ofNat 92, Char.ofNat 102]) [Char.ofNat 13] [Char.ofNat 92, Char.ofNat 114]) [Char.ofNat 34] [Char.ofNat 92, Char.ofNat 34]) "'".toList [Char.ofNat 92, Char.ofNat 39] := by
  simp only [applyChain, Gen.escapeChainTemplate, List.foldl]


def npF (cfg : TermCfg) (v : Str) : Str := match cfg.nonPrintable with | some np => v.filter (fun c => !np c) | none => v

theorem np_eq (cfg : TermCfg) (fmt : Str) (v : Str) :
    (if (primsOf cfg fmt).onlyPrintable = true then (primsOf cfg fmt).removeNonPrintable v else v) = npF cfg v := by
  obtain ⟨safe, np, ch, cn⟩ := cfg
  cases np <;> rfl

theorem safe_if (safe w : Str) : (if safe ≠ [] then pctEncode safe w else pctEncode [] w) = pctEncode safe w := by
  by_cases h : safe = [] <;> simp [h]

/-- the per-reference value transformation of the translated loop body is `Model.transformValue` -/
theorem body_eq (cfg : TermCfg) (fmt : Str) (h : FromSource cfg) (kind : MapType)
    (tt : Option TermType) (pos alias datatype : Str) (row : Str → Option Str) (refs : List Str) (r tpl acc rr : Str) (sp : List Str) :
    Gen.Core.materialize_template.body0 (primsOf cfg fmt) row (kindIri kind) pos alias (ttIri tt) datatype refs r tpl acc rr sp
      = match row (alias ++ r) with
        | none => .error (.keyError (alias ++ r))
        | some v =>
          .ok (join (['{'] ++ r ++ ['}']) (split tpl (['{'] ++ r ++ ['}'])).tail,
               acc ++ (split tpl (['{'] ++ r ++ ['}'])).headD [] ++ transformValue cfg (kind = .template) tt datatype v,
               transformValue cfg (kind = .template) tt datatype v, split tpl (['{'] ++ r ++ ['}'])) := by
  unfold Gen.Core.materialize_template.body0 Gen.Core.rowGet
  cases hrow : row (alias ++ r) with
  | none => rfl
  | some v =>
    obtain ⟨hch, hcan⟩ := h
    simp only [bind, Except.bind, pure, Except.pure]
    simp only [np_eq, strip_tt, tt_iri, tt_lit, kind_tpl]
    have hs : (primsOf cfg fmt).safe = cfg.safe := rfl
    rw [hs]
    simp only [safe_if]
    have htv : ∀ b, transformValue cfg b tt datatype v = (match tt with
        | some .iri => if b then pctEncode cfg.safe (npF cfg v) else npF cfg v
        | some .literal => applyChain cfg.escapeChain (cfg.canon datatype (npF cfg v))
        | _ => npF cfg v) := fun b => rfl
    rw [htv, hch, hcan]
    simp only [chain_eq, canonD_eq]
    generalize npF cfg v = w
    cases tt with
    | none => simp
    | some t => cases t <;> by_cases hk : kind = .template <;> simp [hk]


/-- the model names the reference in its `KeyError`, the code the prefixed column (`columns_alias + reference`) -/
def aliasErr (alias : Str) : MatErr → MatErr
  | .keyError r => .keyError (alias ++ r)

theorem loop_eq (cfg : TermCfg) (fmt : Str) (h : FromSource cfg) (kind : MapType) (tt : Option TermType) (pos alias datatype : Str)
    (row : Str → Option Str) (refs0 : List Str) :
    ∀ (refs : List Str) (tpl acc rr : Str) (sp : List Str),
      (Gen.Core.materialize_template.loop0 (primsOf cfg fmt) row (kindIri kind) pos alias (ttIri tt) datatype refs0 refs (tpl, acc, rr, sp)).map
          (fun s => s.2.1 ++ s.1)
        = (templateLoop cfg (kind = .template) tt datatype (fun r => row (alias ++ r)) refs tpl acc).mapError (aliasErr alias) := by
  intro refs
  induction refs with
  | nil => intro tpl acc rr sp; rfl
  | cons r refs ih =>
    intro tpl acc rr sp
    unfold Gen.Core.materialize_template.loop0 templateLoop
    simp only [bind, Except.bind]
    rw [body_eq cfg fmt h]
    cases hrow : row (alias ++ r) with
    | none => rfl
    | some v => exact ih _ _ _ _


theorem wrap_eq (tt : Option TermType) (s : Str) :
    (if ttIri tt = RML_IRI then "<".toList ++ s ++ ">".toList
     else if ttIri tt = RML_BLANK_NODE then "_:".toList ++ s
     else if ttIri tt = RML_LITERAL then [Char.ofNat 34] ++ s ++ [Char.ofNat 34] else s) = wrapTerm tt s := by
  simp only [tt_iri, tt_bn, tt_lit]
  cases tt with
  | none => simp [wrapTerm]
  | some t => cases t <;> simp [wrapTerm]

/-- **`_materialize_template` as translated from the source = `Model.materializeTemplate`**, for every configuration whose escape
    chain / canonicalisation are the generated ones, every term-map kind the function is called with, every term type, template,
    datatype, alias and row. -/
theorem materialize_template_eq (cfg : TermCfg) (fmt : Str) (h : FromSource cfg) (kind : MapType) (value : Str) (tt : Option TermType) (pos alias datatype : Str) (row : Str → Option Str) :
    Gen.Core.materialize_template (primsOf cfg fmt) row value (kindIri kind) pos alias (ttIri tt) datatype
      = (Model.materializeTemplate cfg kind value tt datatype alias row).mapError (aliasErr alias) := by
  unfold Gen.Core.materialize_template Model.materializeTemplate
  simp only [kind_ref, strip_tt, refs_eq]
  have happ : ∀ a t : Str, (if t ≠ [] then a ++ t else a) = a ++ t := by
    intro a t; by_cases ht : t = [] <;> simp [ht]
  have hl := loop_eq cfg fmt h kind tt pos alias datatype row
    (getReferencesInTemplate (if kind = MapType.reference then "{".toList ++ value ++ "}".toList else value))
    (getReferencesInTemplate (if kind = MapType.reference then "{".toList ++ value ++ "}".toList else value))
    (replace (replace (if kind = MapType.reference then "{".toList ++ value ++ "}".toList else value)
                  [Char.ofNat 92, Char.ofNat 123] "{".toList) [Char.ofNat 92, Char.ofNat 125] "}".toList) [] [] []
  revert hl
  generalize Gen.Core.materialize_template.loop0 _ _ _ _ _ _ _ _ _ _ = L
  intro hl
  have hT : templateLoop cfg (decide (kind = MapType.template)) tt datatype (fun r => row (alias ++ r))
          (getReferencesInTemplate (if kind = MapType.reference then ['{'] ++ value ++ ['}'] else value))
          (replace (replace (if kind = MapType.reference then ['{'] ++ value ++ ['}'] else value) ['\\', '{'] ['{'])
            ['\\', '}'] ['}']) [] =
        templateLoop cfg (decide (kind = MapType.template)) tt datatype (fun r => row (alias ++ r))
          (getReferencesInTemplate (if kind = MapType.reference then "{".toList ++ value ++ "}".toList else value))
          (replace (replace (if kind = MapType.reference then "{".toList ++ value ++ "}".toList else value)
                  [Char.ofNat 92, Char.ofNat 123] "{".toList) [Char.ofNat 92, Char.ofNat 125] "}".toList) [] := rfl
  rw [hT]
  revert hl
  generalize templateLoop _ _ _ _ _ _ _ _ = T
  intro hl
  cases L with
  | error e =>
    cases T with
    | error e' =>
      simp only [Except.map, Except.mapError, Except.error.injEq] at hl
      subst hl
      rfl
    | ok s => simp [Except.map, Except.mapError] at hl
  | ok x =>
    cases T with
    | error e' => simp [Except.map, Except.mapError] at hl
    | ok s =>
      simp only [Except.map, Except.mapError, Except.ok.injEq] at hl
      subst hl
      simp only [bind, Except.bind, pure, Except.pure, Except.mapError, happ]
      have := wrap_eq tt (x.2.1 ++ x.1)
      simp only [List.append_assoc] at this ⊢
      rw [← this]


/-- a configuration that satisfies `FromSource` exists (the one the driver and the correspondence use) -/
example : FromSource { escapeChain := Gen.escapeChainTemplate, canon := canonD } := ⟨rfl, rfl⟩

/-- **Transfer.** What `_materialize_template` as written in /repo computes for a template-valued term map with escape-free
    syntax is the substitution of the transformed cell values into the template (the statement of `Lemmas.Template` moved from the
    model to the translated source). -/
theorem translated_template_is_substitution (cfg : TermCfg) (fmt : Str) (h : FromSource cfg) (t : Spec.Tpl) (hw : WFTpl t = true)
    (tt : Option TermType) (pos dt : Str) (row : Str → Option Str) (f : Str → Str) (hrow : ∀ p ∈ t.parts, row p.1 = some (f p.1)) :
    Gen.Core.materialize_template (primsOf cfg fmt) row t.render RML_TEMPLATE pos [] (ttIri tt) dt
      = .ok (wrapTerm tt (t.pre ++ t.parts.flatMap fun p => transformValue cfg true tt dt (f p.1) ++ p.2)) := by
  have := materialize_template_eq cfg fmt h .template t.render tt pos [] dt row
  rw [show kindIri .template = RML_TEMPLATE from rfl] at this
  rw [this, materializeTemplate_template cfg t hw tt dt row f hrow]
  rfl

/-- the partitioner's invariant and the materializer's references as translated agree with the model on a concrete template
    with an escaped brace (executed by the kernel: a test of the translation, not the theorem) -/
example : Gen.Core.get_references_in_template "http://e/\\{x\\}/{a}/{b c}".toList = ["a".toList, "b c".toList] ∧
    Gen.Core.get_invariant_of_template "http://e/\\{x\\}/{a}/{b c}".toList = some "http://e/\\{x\\}/".toList := by
  decide +kernel


/-! ## `_materialize_rml_rule_terms` and the triple assembly of `_materialize_rml_rule` -/

/-- one row of `rml_df` as the translated code reads it, for a model rule whose object map is (`objKind`, `objValue`)
    (`_materialize_rml_rule` overwrites the object map of a referencing rule by the parent's subject map) -/
def pyRuleOf (r : Rule) (objKind : MapType) (objValue : Str) : Gen.Core.PyRule where
  subject_map_type := kindIri r.subjectMapType
  subject_map_value := r.subjectMapValue
  subject_termtype := ttIri (some r.subjectTermtype)
  predicate_map_type := kindIri r.predicateMapType
  predicate_map_value := r.predicateMapValue
  object_map_type := kindIri objKind
  object_map_value := objValue
  object_termtype := ttIri (some r.objectTermtype)
  lang_datatype := match r.langDatatype with | some .languageMap => RML_LANGUAGE_MAP | some .datatypeMap => RML_DATATYPE_MAP | none => []
  lang_datatype_map_type := match r.langDatatypeMapType with | some mt => kindIri mt | none => []
  lang_datatype_map_value := r.langDatatypeMapValue
  graph_map_type := kindIri r.graphMapType
  graph_map_value := r.graphMapValue

def fmtName : OutFmt → Str
  | .nquads => NQUADS
  | .ntriples => "N-TRIPLES".toList

/-- `_materialize_rml_rule_terms` followed by the triple assembly of `_materialize_rml_rule`, as translated -/
def genRowTriple (prims : Gen.Core.Prims) (row : Str → Option Str) (rule : Gen.Core.PyRule) (alias : Str) (nest : Nat) : Except MatErr Str := do
  let (s, p, o) ← Gen.Core.materialize_rml_rule_terms prims row rule alias
  Gen.Core.assemble_triple prims row rule nest s p o

def Plain (k : MapType) : Prop := k = .constant ∨ k = .template ∨ k = .reference

theorem plain_iff (k : MapType) : (kindIri k = RML_TEMPLATE ∨ kindIri k = RML_CONSTANT ∨ kindIri k = RML_REFERENCE) ↔ Plain k := by
  unfold Plain; cases k <;> decide

theorem not_exec (k : MapType) (h : Plain k) : kindIri k ≠ RML_EXECUTION := by
  rcases h with rfl | rfl | rfl <;> decide

/-- rules of the fragment `Model.rowTriple` covers: plain term maps everywhere, a language / datatype map has a kind -/
structure PlainRule (r : Rule) (objKind : MapType) : Prop where
  s : Plain r.subjectMapType
  p : Plain r.predicateMapType
  o : Plain objKind
  g : Plain r.graphMapType
  ld : ∀ x, r.langDatatype = some x → ∃ mt, r.langDatatypeMapType = some mt ∧ Plain mt

theorem toOption_mapError {ε ε' α} (f : ε → ε') (x : Except ε α) : (x.mapError f).toOption = x.toOption := by
  cases x <;> rfl

theorem mt_iri (cfg : TermCfg) (fmt : Str) (h : FromSource cfg) (kind : MapType) (value pos alias dt : Str) (row : Str → Option Str) :
    Gen.Core.materialize_template (primsOf cfg fmt) row value (kindIri kind) pos alias RML_IRI dt
      = (Model.materializeTemplate cfg kind value (some .iri) dt alias row).mapError (aliasErr alias) :=
  materialize_template_eq cfg fmt h kind value (some .iri) pos alias dt row

theorem mt_none (cfg : TermCfg) (fmt : Str) (h : FromSource cfg) (kind : MapType) (value pos alias dt : Str) (row : Str → Option Str) :
    Gen.Core.materialize_template (primsOf cfg fmt) row value (kindIri kind) pos alias [] dt
      = (Model.materializeTemplate cfg kind value none dt alias row).mapError (aliasErr alias) :=
  materialize_template_eq cfg fmt h kind value none pos alias dt row

theorem fmt_nquads (f : OutFmt) : (fmtName f = NQUADS) ↔ f = .nquads := by cases f <;> decide

/-- **The row-level pipeline as translated from the source = `Model.rowTriple`** (same statement, or both fail), for every rule of the
    plain fragment, row, alias and both formats. -/
theorem rowTriple_eq (env : Env) (h : FromSource env.cfg) (hg : env.defaultGraph = RML_DEFAULT_GRAPH) (r : Rule) (objKind : MapType)
    (objValue alias : Str) (hp : PlainRule r objKind) (ρ : SRow) :
    (genRowTriple (primsOf env.cfg (fmtName env.fmt)) (fun c => lookup c ρ) (pyRuleOf r objKind objValue) alias 0).toOption
      = (Model.rowTriple env r objKind objValue alias ρ).toOption := by
  obtain ⟨hs, hpp, ho, hgp, hld⟩ := hp
  have hlm : RML_LANGUAGE_MAP ≠ RML_DATATYPE_MAP := by decide
  have hl0 : ([] : Str) ≠ RML_LANGUAGE_MAP := by decide
  have hd0 : ([] : Str) ≠ RML_DATATYPE_MAP := by decide
  have hout : (primsOf env.cfg (fmtName env.fmt)).outputFormat = fmtName env.fmt := rfl
  have hne := not_exec _ hgp
  unfold genRowTriple Gen.Core.materialize_rml_rule_terms Gen.Core.assemble_triple Model.rowTriple pyRuleOf litDatatype
  cases hL : r.langDatatype with
  | none =>
    simp only [plain_iff, hs, hpp, ho, hgp, if_true, true_and, materialize_template_eq _ _ h, mt_iri _ _ h, hout, fmt_nquads, ← hg,
      hl0, hd0, if_false]
    generalize materializeTemplate env.cfg r.subjectMapType r.subjectMapValue (some r.subjectTermtype) [] [] (fun c => lookup c ρ) = S
    generalize materializeTemplate env.cfg r.predicateMapType r.predicateMapValue (some .iri) [] [] (fun c => lookup c ρ) = P
    generalize materializeTemplate env.cfg objKind objValue (some r.objectTermtype) r.langDatatypeMapValue alias (fun c => lookup c ρ) = O
    generalize materializeTemplate env.cfg r.graphMapType r.graphMapValue (some .iri) [] [] (fun c => lookup c ρ) = G
    cases S <;> cases P <;> cases O <;> cases G <;> cases env.fmt <;>
      by_cases hdg : r.graphMapValue = env.defaultGraph <;>
      simp [Except.mapError, Except.toOption, bind, Except.bind, pure, Except.pure, hdg, hne]
  | some x =>
    obtain ⟨mt, hmt, hpl⟩ := hld x hL
    rw [hmt]
    cases x
    · simp only [plain_iff, hs, hpp, ho, hgp, hpl, if_true, true_and, materialize_template_eq _ _ h, mt_iri _ _ h, mt_none _ _ h, hout,
        fmt_nquads, ← hg]
      generalize materializeTemplate env.cfg r.subjectMapType r.subjectMapValue (some r.subjectTermtype) [] [] (fun c => lookup c ρ) = S
      generalize materializeTemplate env.cfg r.predicateMapType r.predicateMapValue (some .iri) [] [] (fun c => lookup c ρ) = P
      generalize materializeTemplate env.cfg objKind objValue (some r.objectTermtype) r.langDatatypeMapValue alias (fun c => lookup c ρ) = O
      generalize materializeTemplate env.cfg r.graphMapType r.graphMapValue (some .iri) [] [] (fun c => lookup c ρ) = G
      generalize materializeTemplate env.cfg mt r.langDatatypeMapValue none [] [] (fun c => lookup c ρ) = L
      cases S <;> cases P <;> cases O <;> cases L <;> cases G <;> cases env.fmt <;>
        by_cases hdg : r.graphMapValue = env.defaultGraph <;>
        simp [Except.mapError, Except.toOption, bind, Except.bind, pure, Except.pure, hdg, hne]
    · simp only [plain_iff, hs, hpp, ho, hgp, hpl, if_true, true_and, materialize_template_eq _ _ h, mt_iri _ _ h, mt_none _ _ h, hout,
        fmt_nquads, ← hg, hlm.symm, if_false]
      generalize materializeTemplate env.cfg r.subjectMapType r.subjectMapValue (some r.subjectTermtype) [] [] (fun c => lookup c ρ) = S
      generalize materializeTemplate env.cfg r.predicateMapType r.predicateMapValue (some .iri) [] [] (fun c => lookup c ρ) = P
      generalize materializeTemplate env.cfg objKind objValue (some r.objectTermtype) r.langDatatypeMapValue alias (fun c => lookup c ρ) = O
      generalize materializeTemplate env.cfg r.graphMapType r.graphMapValue (some .iri) [] [] (fun c => lookup c ρ) = G
      generalize materializeTemplate env.cfg mt r.langDatatypeMapValue (some .iri) [] [] (fun c => lookup c ρ) = L
      cases S <;> cases P <;> cases O <;> cases L <;> cases G <;> cases env.fmt <;>
        by_cases hdg : r.graphMapValue = env.defaultGraph <;>
        simp [Except.mapError, Except.toOption, bind, Except.bind, pure, Except.pure, hdg, hne]


/-- the hypotheses of `rowTriple_eq` are satisfiable: the default environment with the generated chain, a rule with a template subject,
    a reference object with a constant language tag and a template graph map -/
example : FromSource ({ cfg := { escapeChain := Gen.escapeChainTemplate, canon := canonD } } : Env).cfg ∧
    ({ cfg := { escapeChain := Gen.escapeChainTemplate, canon := canonD } } : Env).defaultGraph = RML_DEFAULT_GRAPH ∧
    PlainRule { subjectMapType := .template, predicateMapType := .constant, objectMapType := .reference, graphMapType := .template,
                langDatatype := some .languageMap, langDatatypeMapType := some .constant } .reference :=
  ⟨⟨rfl, rfl⟩, by decide, ⟨.inr (.inl rfl), .inl rfl, .inr (.inr rfl), .inr (.inl rfl),
    fun x hx => ⟨.constant, rfl, .inl rfl⟩⟩⟩

/-- executed by the kernel on one row (a test of the translation): N-QUADS, template graph map, language tag -/
example :
    genRowTriple (primsOf { escapeChain := Gen.escapeChainTemplate, canon := canonD } NQUADS)
      (fun c => lookup c [("id".toList, "a b".toList), ("n".toList, "x\"y".toList)])
      (pyRuleOf { subjectMapType := .template, subjectMapValue := "http://e/{id}".toList, predicateMapType := .constant,
                  predicateMapValue := "http://e/p".toList, objectTermtype := .literal, graphMapType := .template,
                  graphMapValue := "http://g/{id}".toList, langDatatype := some .languageMap, langDatatypeMapType := some .constant,
                  langDatatypeMapValue := "en".toList } .reference "n".toList) [] 0
      = .ok "<http://e/a%20b> <http://e/p> \"x\\\"y\"@en <http://g/a%20b>".toList := by
  decide +kernel

/-! ## `_get_references_in_rml_rule` -/

theorem kind_exec (k : MapType) : (kindIri k = RML_EXECUTION) ↔ k = .execution := by cases k <;> decide
theorem kind_quoted (k : MapType) : (kindIri k = Gen.Core.RML_QUOTED_TRIPLES_MAP) ↔ k = .quoted := by cases k <;> decide

/-- what one position contributes: the if-ladder of the source is `Model.refsOfMap` (function executions are C14's domain) -/
theorem refs_fragment (k : MapType) (hk : k ≠ .execution) (v : Str) (acc : List Str) (f : Str → List Str) :
    (if kindIri k = RML_TEMPLATE then acc ++ Gen.Core.get_references_in_template v
     else if kindIri k = RML_REFERENCE then acc ++ [v]
     else if kindIri k = RML_EXECUTION then acc ++ f v else acc) = acc ++ refsOfMap k v := by
  simp only [kind_tpl, kind_ref, kind_exec, refs_eq]
  cases k <;> simp_all [refsOfMap]

/-- the join-condition parameters of the translated code for a model rule -/
def joinPrims (r : Rule) (base : Gen.Core.Prims) : Gen.Core.Prims :=
  { base with
    joinChildRefs := fun k => if k = "subject_join_conditions".toList then r.subjectJoin.map (·.1)
                              else if k = "object_join_conditions".toList then r.objectJoin.map (·.1) else [],
    joinParentRefs := fun k => if k = "subject_join_conditions".toList then r.subjectJoin.map (·.2)
                               else if k = "object_join_conditions".toList then r.objectJoin.map (·.2) else [] }

/-- rules without function-valued and quoted term maps (the fragment of `Model.refsOfRule`) -/
structure NoFnQuoted (r : Rule) : Prop where
  s : r.subjectMapType ≠ .execution ∧ r.subjectMapType ≠ .quoted
  p : r.predicateMapType ≠ .execution
  o : r.objectMapType ≠ .execution ∧ r.objectMapType ≠ .quoted
  g : r.graphMapType ≠ .execution
  l : r.langDatatypeMapType ≠ some .execution

/-- what the if-ladder of one position appends -/
def ladderRefs (kI v : Str) (f : Str → List Str) : List Str :=
  if kI = RML_TEMPLATE then Gen.Core.get_references_in_template v else if kI = RML_REFERENCE then [v]
  else if kI = RML_EXECUTION then f v else []

theorem ladder (kI v : Str) (f : Str → List Str) (acc : List Str) :
    (if kI = RML_TEMPLATE then acc ++ Gen.Core.get_references_in_template v else if kI = RML_REFERENCE then acc ++ [v]
     else if kI = RML_EXECUTION then acc ++ f v else acc) = acc ++ ladderRefs kI v f := by
  unfold ladderRefs
  split
  · rfl
  · split
    · rfl
    · split
      · rfl
      · simp

theorem ladderRefs_kind (k : MapType) (hk : k ≠ .execution) (v : Str) (f : Str → List Str) :
    ladderRefs (kindIri k) v f = refsOfMap k v := by
  have := refs_fragment k hk v [] f
  simpa [ladderRefs] using this

theorem ladderRefs_nil (v : Str) (f : Str → List Str) : ladderRefs [] v f = [] := by
  have n1 : ([] : Str) ≠ RML_TEMPLATE := by decide
  have n2 : ([] : Str) ≠ RML_REFERENCE := by decide
  have n3 : ([] : Str) ≠ RML_EXECUTION := by decide
  simp only [ladderRefs, n1, n2, n3, if_false]

/-- **`_get_references_in_rml_rule(rule, …)` as translated from the source = `Model.refsOfRule r`**: the columns a rule is read with
    and NULL-filtered on (C06), in the order subject, predicate, object, graph, language / datatype map, child join columns -/
theorem refs_of_rule_eq (r : Rule) (h : NoFnQuoted r) (base : Gen.Core.Prims) :
    Gen.Core.get_references_in_rml_rule_all (joinPrims r base) (pyRuleOf r r.objectMapType r.objectMapValue) = refsOfRule r false := by
  obtain ⟨⟨hs, hsq⟩, hp, ⟨ho, hoq⟩, hg, hl⟩ := h
  have hqs : ¬ (kindIri r.subjectMapType = Gen.Core.RML_QUOTED_TRIPLES_MAP) := fun e => hsq ((kind_quoted _).mp e)
  have hqo : ¬ (kindIri r.objectMapType = Gen.Core.RML_QUOTED_TRIPLES_MAP) := fun e => hoq ((kind_quoted _).mp e)
  have hj1 : (joinPrims r base).joinChildRefs "subject_join_conditions".toList = r.subjectJoin.map (·.1) := by
    simp only [joinPrims, if_true]
  have hj2 : (joinPrims r base).joinChildRefs "object_join_conditions".toList = r.objectJoin.map (·.1) := by
    have : "object_join_conditions".toList ≠ "subject_join_conditions".toList := by decide
    simp only [joinPrims, if_true, this, if_false]
  unfold Gen.Core.get_references_in_rml_rule_all pyRuleOf refsOfRule
  simp only []
  simp only [ladder, hqs, hqo, false_and, if_false, hj1, hj2]
  rw [ladderRefs_kind _ hs, ladderRefs_kind _ hp, ladderRefs_kind _ ho, ladderRefs_kind _ hg]
  cases hm : r.langDatatypeMapType with
  | none => simp only [ladderRefs_nil, List.nil_append, List.append_nil, List.append_assoc, Bool.false_eq_true, if_false]
  | some mt =>
    have hmt : mt ≠ .execution := fun e => hl (by rw [hm, e])
    simp only [ladderRefs_kind mt hmt, List.nil_append, List.append_assoc, Bool.false_eq_true, if_false]


/-- with `only_subject_map=True` (the parent side of a referencing object map): the references of the subject map only -/
theorem refs_of_rule_subject_eq (r : Rule) (hs : r.subjectMapType ≠ .execution) (hq : r.subjectMapType ≠ .quoted) (hj : r.subjectJoin = [])
    (base : Gen.Core.Prims) :
    Gen.Core.get_references_in_rml_rule_subject (joinPrims r base) (pyRuleOf r r.objectMapType r.objectMapValue) = refsOfRule r true := by
  have hqs : ¬ (kindIri r.subjectMapType = Gen.Core.RML_QUOTED_TRIPLES_MAP) := fun e => hq ((kind_quoted _).mp e)
  have hj1 : (joinPrims r base).joinChildRefs "subject_join_conditions".toList = [] := by
    simp only [joinPrims, if_true, hj, List.map_nil]
  unfold Gen.Core.get_references_in_rml_rule_subject pyRuleOf refsOfRule
  simp only []
  simp only [ladder, hqs, false_and, if_false, hj1]
  rw [ladderRefs_kind _ hs]
  simp only [List.nil_append, List.append_nil, if_true]

end Props.CoreFuncs
