/-
C06 — A NULL suppresses exactly the statements that use it and never becomes a term.

Structure
  1. the generated facts (`Gen/Null.lean`) the proofs rest on, as decidable side conditions;
  2. suppression: a rule's statements are those of the rows none of whose *referenced* cells is NULL — rows with a referenced
     NULL can be deleted, cells outside the references can be changed, without changing the rule's result (plain and referencing
     rules, every table, every `na_values`, both statement orders of `_preprocess_data`);
  3. never a term: FALSE for the statement order `map(str)` → NA replacement (finding C06_F1, XML instance C06_F3): counter-witnesses,
     the `_partial` theorem under `¬ scope_C06_F1`, and the full theorem for the repaired order `keepNullThenNa`;
  4. per source kind, whether a NULL object can reach `_preprocess_data` at all (SQL table: never, from the generated query shape;
     CSV: never; JSON file: never in a referenced column — but rows are lost, finding C06_F2; SQL query, XML, frames, lists, dicts: yes),
     and the XML `KeyError` (finding C06_F5).
-/
import MorphKgc.Lemmas.Null

namespace Props.C06
open Py Model

/-! ## 1. generated facts -/

/-- the statement list of `_preprocess_data` read from /repo is one of the two orders the model covers, namely `Gen.preprocessKind` -/
theorem C06_gen_kind : preKindOf Gen.preprocessSteps = some Gen.preprocessKind := by decide

/-- `remove_null_values_from_dataframe`: guarded, whole-cell match against the tokens, replaced by `None`,
    `dropna(axis=0, how='any', subset=references)` — what `Model.preprocess` implements -/
theorem C06_gen_remove_nulls :
    Gen.removeNullsShape = { guardedByNaValues := true, naMatch := .wholeCell, replaceByNone := true, dropSubset := .references, howAny := true } := by
  decide

/-- the guard `if config.get_na_values()` never fails: `split` returns at least one piece -/
theorem naValuesOf_ne_nil (raw : Str) : naValuesOf raw ≠ [] := by
  unfold naValuesOf
  rw [Ne, dedupFirst_eq_nil]
  unfold split
  cases h : raw.length with
  | zero => simp [splitFuel]
  | succ n => unfold splitFuel; split <;> simp

/-- the default configuration lists the empty string and `nan`, and none of `None`, `<NA>`, `NaT` -/
theorem C06_default_na :
    ([] : Str) ∈ defaultNa ∧ "nan".toList ∈ defaultNa ∧ "None".toList ∉ defaultNa ∧ "<NA>".toList ∉ defaultNa ∧ "NaT".toList ∉ defaultNa := by
  decide

/-- under the order read from /repo today, the C06 model of rule evaluation is the shared engine model `Model.evalRule` -/
theorem C06_evalRuleG_current (h : Gen.preprocessKind = .strThenNa) (env : Env) (rules : List Rule) (r : Rule) :
    evalRuleG Gen.preprocessKind env rules r = evalRule env rules r := by
  rw [h]; rfl

/-! ## 2. suppression -/

/-- **Rows with a referenced NULL can be deleted.** `_preprocess_data` gives the same rows on `t` and on `t` without the rows
    having a NULL (for the engine) in a referenced column. -/
theorem C06_rows_with_null_removed (k : PreKind) (na refs : List Str) (t : Table) (h : Complete refs t = true) :
    preprocessG k na refs t = preprocessG k na refs (t.filter (survivesG k na refs)) := by
  rw [preprocessG_eq k na refs t h, preprocessG_eq k na refs _ (Complete_filter _ h), List.filter_filter]
  simp

/-- **Cells outside the references do not matter.** Two tables that agree, row by row, on the referenced columns are preprocessed
    to the same rows (no completeness assumption: also the `KeyError` behaviour is the same). -/
theorem C06_unreferenced_irrelevant (k : PreKind) (na refs : List Str) (t t' : Table) (h : Forall2 (agreeOn refs) t t') :
    preprocessG k na refs t = preprocessG k na refs t' :=
  preprocessG_congr k na refs h

/-- putting any cell — a NULL, an NA token, a value — into a column the rule does not reference, or deleting that column, row by row,
    changes nothing -/
theorem C06_set_unreferenced_cell (k : PreKind) (na refs : List Str) (t : Table) (c : Str) (hc : c ∉ refs) (v : Row → Cell) :
    preprocessG k na refs (t.map fun ρ => setCell c (v ρ) ρ) = preprocessG k na refs t ∧
    preprocessG k na refs (t.map (dropCell c)) = preprocessG k na refs t :=
  ⟨preprocessG_congr k na refs (forall₂_map_left _ _ t fun ρ => agreeOn_setCell refs c (v ρ) ρ hc),
   preprocessG_congr k na refs (forall₂_map_left _ _ t fun ρ => agreeOn_dropCell refs c ρ hc)⟩

example : preprocessG .strThenNa defaultNa ["id".toList]
    ([[("id".toList, .str "1".toList), ("x".toList, .str "a".toList)]].map fun ρ => setCell "x".toList (.null "None".toList) ρ) =
    .ok [[("id".toList, "1".toList)]] := by decide

theorem evalRuleG_plain_eq (k : PreKind) (env : Env) (rules : List Rule) (r : Rule) (hc : isAllConstant r = false)
    (hp : r.objectMapType ≠ .parentTM) :
    evalRuleG k env rules r =
      (preprocessG k env.na (refsOfRule r) (env.table r)) >>= fun data =>
        data.mapM (rowTriple env r r.objectMapType r.objectMapValue []) := by
  unfold evalRuleG
  simp [hc, hp]

/-- the rows `_preprocess_data` hands to term construction, for a plain rule -/
def dataRows (k : PreKind) (env : Env) (r : Rule) : List SRow :=
  dedupFirst (((env.table r).filter (survivesG k env.na (refsOfRule r))).map (projRow (dedupFirst (refsOfRule r))))

/-- **A plain rule contributes exactly the statements of its surviving rows**: one term-construction attempt per (distinct projection of
    a) row none of whose referenced cells is NULL for the engine, and nothing for any other row. -/
theorem C06_plain_rule_lines (k : PreKind) (env : Env) (rules : List Rule) (r : Rule) (hc : isAllConstant r = false)
    (hp : r.objectMapType ≠ .parentTM) (hcomp : Complete (refsOfRule r) (env.table r) = true) :
    evalRuleG k env rules r = (dataRows k env r).mapM (rowTriple env r r.objectMapType r.objectMapValue []) := by
  rw [evalRuleG_plain_eq k env rules r hc hp, preprocessG_eq _ _ _ _ hcomp]
  rfl

theorem rowTriple_mapTables (env : Env) (g : Table → Table) (r : Rule) (ok : MapType) (ov al : Str) (σ : SRow) :
    rowTriple (env.mapTables g) r ok ov al σ = rowTriple env r ok ov al σ := rfl

/-- **Rule level, rows removed**: a rule without referencing object map gives the same result on the table and on the table without
    the rows having a NULL in one of the rule's references. -/
theorem C06_rule_rows_with_null_removed (k : PreKind) (env : Env) (rules : List Rule) (r : Rule) (hp : r.objectMapType ≠ .parentTM)
    (hcomp : Complete (refsOfRule r) (env.table r) = true) :
    evalRuleG k (env.mapTables fun t => t.filter (survivesG k env.na (refsOfRule r))) rules r = evalRuleG k env rules r := by
  cases hc : isAllConstant r with
  | true => unfold evalRuleG; simp only [hc, ↓reduceIte]; rfl
  | false =>
    rw [evalRuleG_plain_eq k _ rules r hc hp, evalRuleG_plain_eq k env rules r hc hp, Env.table_mapTables _ _ rfl]
    show preprocessG k env.na _ _ >>= _ = _
    rw [← C06_rows_with_null_removed k env.na (refsOfRule r) (env.table r) hcomp]
    rfl

/-- **Rule level, nothing else**: changing the tables row by row in columns the rule does not reference (writing or erasing NULLs,
    tokens, values) does not change the rule's result. -/
theorem C06_rule_unreferenced_irrelevant (k : PreKind) (env : Env) (rules : List Rule) (r : Rule) (hp : r.objectMapType ≠ .parentTM)
    (f : Row → Row) (hf : ∀ ρ, agreeOn (refsOfRule r) (f ρ) ρ) :
    evalRuleG k (env.mapTables (List.map f)) rules r = evalRuleG k env rules r := by
  cases hc : isAllConstant r with
  | true => unfold evalRuleG; simp only [hc, ↓reduceIte]; rfl
  | false =>
    rw [evalRuleG_plain_eq k _ rules r hc hp, evalRuleG_plain_eq k env rules r hc hp, Env.table_mapTables _ _ rfl]
    show preprocessG k env.na _ _ >>= _ = _
    rw [preprocessG_congr k env.na (refsOfRule r) (forall₂_map_left _ f (env.table r) hf)]
    rfl

/-- membership form for the statements: a line is in the rule's result iff it is built from the projection of a surviving row -/
theorem C06_plain_rule_mem (k : PreKind) (env : Env) (rules : List Rule) (r : Rule) (hc : isAllConstant r = false)
    (hp : r.objectMapType ≠ .parentTM) (hcomp : Complete (refsOfRule r) (env.table r) = true)
    (lines : List Str) (hl : evalRuleG k env rules r = .ok lines) (line : Str) :
    line ∈ lines ↔ ∃ ρ ∈ env.table r, survivesG k env.na (refsOfRule r) ρ = true ∧
      rowTriple env r r.objectMapType r.objectMapValue [] (projRow (dedupFirst (refsOfRule r)) ρ) = .ok line := by
  rw [C06_plain_rule_lines k env rules r hc hp hcomp] at hl
  rw [mem_of_mapM_ok _ _ _ hl line]
  simp only [dataRows, mem_dedupFirst, List.mem_map, List.mem_filter]
  constructor
  · rintro ⟨σ, ⟨ρ, ⟨hρ, hs⟩, rfl⟩, hrt⟩; exact ⟨ρ, hρ, hs, hrt⟩
  · rintro ⟨ρ, hρ, hs, hrt⟩; exact ⟨_, ⟨ρ, ⟨hρ, hs⟩, rfl⟩, hrt⟩

/-- membership form: a row of the data frame exists for `σ` iff `σ` is the projection of a row of the table that survives -/
theorem C06_row_survives_iff (k : PreKind) (na refs : List Str) (t : Table) (h : Complete refs t = true) (σ : SRow) :
    (∃ rows, preprocessG k na refs t = .ok rows ∧ σ ∈ rows) ↔
      ∃ ρ ∈ t, survivesG k na refs ρ = true ∧ σ = projRow (dedupFirst refs) ρ := by
  rw [preprocessG_eq k na refs t h]
  constructor
  · rintro ⟨rows, hr, hσ⟩
    have : rows = _ := (Except.ok.inj hr).symm
    subst this
    simp only [mem_dedupFirst, List.mem_map, List.mem_filter] at hσ
    obtain ⟨ρ, ⟨hρ, hs⟩, rfl⟩ := hσ
    exact ⟨ρ, hρ, hs, rfl⟩
  · rintro ⟨ρ, hρ, hs, rfl⟩
    refine ⟨_, rfl, ?_⟩
    simp only [mem_dedupFirst, List.mem_map, List.mem_filter]
    exact ⟨ρ, ⟨hρ, hs⟩, rfl⟩

/-- **Exactly the property's NULLs suppress** — outside the scope of C06_F1 the engine's survival test is the property's:
    the row survives iff no referenced cell is a NULL object or an `na_values` token. -/
theorem C06_suppresses_exactly_partial (k : PreKind) (na refs : List Str) (t : Table)
    (hK : scope_C06_F1 k na refs t = false) (ρ : Row) (hρ : ρ ∈ t) :
    survivesG k na refs ρ = noNullRef na refs ρ := by
  unfold survivesG noNullRef
  rw [Bool.eq_iff_iff]
  simp only [List.all_eq_true]
  have key : ∀ c ∈ refs, (match lookup c ρ with | some cell => !cellNullG k na cell | none => true) =
      (match lookup c ρ with | some cell => !isNullCell na cell | none => true) := by
    intro c hc
    cases hl : lookup c ρ with
    | none => rfl
    | some cell => simp only [cellNullG_eq_isNullCell_of_not_scope hK hρ hc hl]
  constructor
  · intro h c hc; exact (key c hc).symm.trans (h c hc)
  · intro h c hc; exact (key c hc).trans (h c hc)

/-- for the repaired statement order the scope is empty -/
theorem scope_C06_F1_keepNull (na refs : List Str) (t : Table) : scope_C06_F1 .keepNullThenNa na refs t = false := by
  simp [scope_C06_F1]

example : scope_C06_F1 .strThenNa defaultNa ["v".toList] [[("v".toList, .null "nan".toList)], [("v".toList, .str "x".toList)]] = false := by
  decide

/-- **Referencing rules**: both the child rows and the parent rows with a NULL in *their* referenced columns (join columns included)
    can be deleted before the join. -/
theorem C06_referencing_rule_rows_removed (k : PreKind) (env : Env) (rules : List Rule) (r parent : Rule)
    (hc : isAllConstant r = false) (hp : r.objectMapType = .parentTM) (hf : findRule rules r.objectMapValue = some parent)
    (hcc : Complete (refsOfRule r) (env.table r) = true)
    (hcp : Complete (refsOfRule parent true ++ r.objectJoin.map (·.2)) (env.table parent) = true) :
    evalRuleG k env rules r =
      (mergeData
        (dedupFirst (((env.table r).filter (survivesG k env.na (refsOfRule r))).map (projRow (dedupFirst (refsOfRule r)))))
        (dedupFirst (((env.table parent).filter (survivesG k env.na (refsOfRule parent true ++ r.objectJoin.map (·.2)))).map
          (projRow (dedupFirst (refsOfRule parent true ++ r.objectJoin.map (·.2))))))
        r.objectJoin).mapM (rowTriple env r parent.subjectMapType parent.subjectMapValue "parent_".toList) := by
  unfold evalRuleG
  simp only [hc, Bool.false_eq_true, ↓reduceIte, hp, hf]
  rw [preprocessG_eq _ _ _ _ hcc, preprocessG_eq _ _ _ _ hcp]
  rfl

/-! ## 3. never a term -/

/-- every value handed to term construction is a genuine string of the data that is not an NA token -/
def GenuineValues (na refs : List Str) (t : Table) (σ : SRow) : Prop :=
  ∃ ρ ∈ t, σ = projRow (dedupFirst refs) ρ ∧
    ∀ c ∈ refs, ∃ s, lookup c ρ = some (.str s) ∧ s ∉ na ∧ lookup c σ = some s

/-- **Never a term, outside C06_F1**: if no referenced cell is a NULL object whose `str()` escapes `na_values` (always the case for
    the repaired order), every row that reaches term construction carries, in every referenced column, a string that the source
    delivered as a string — no term is built from a NULL. -/
theorem C06_never_a_term_partial (k : PreKind) (na refs : List Str) (t : Table) (hcomp : Complete refs t = true)
    (hK : scope_C06_F1 k na refs t = false) (rows : List SRow) (hr : preprocessG k na refs t = .ok rows) :
    ∀ σ ∈ rows, GenuineValues na refs t σ := by
  intro σ hσ
  obtain ⟨ρ, hρ, hs, rfl⟩ := (C06_row_survives_iff k na refs t hcomp σ).mp ⟨rows, hr, hσ⟩
  refine ⟨ρ, hρ, rfl, fun c hc => ?_⟩
  rw [C06_suppresses_exactly_partial k na refs t hK ρ hρ] at hs
  simp only [noNullRef, List.all_eq_true] at hs
  have h1 := hs c hc
  simp only [Complete, List.all_eq_true] at hcomp
  obtain ⟨cell, hl⟩ := Option.isSome_iff_exists.mp (hcomp ρ hρ c hc)
  simp only [hl] at h1
  cases cell with
  | null r => simp [isNullCell] at h1
  | str s =>
    refine ⟨s, hl, by simpa [isNullCell] using h1, ?_⟩
    rw [lookup_projRow]
    simp [hc, cellStr, hl, pyStr]

/-- **Never a term, full strength, for the repaired statement order** (`Gen.preprocessKind = .keepNullThenNa`: NULL objects survive
    the stringification and are dropped with the NA tokens). Vacuous on the unchanged tree, where `C06_F1_null_object_rendered` holds. -/
theorem C06_never_a_term (h : Gen.preprocessKind = .keepNullThenNa) (na refs : List Str) (t : Table) (hcomp : Complete refs t = true)
    (rows : List SRow) (hr : preprocessG Gen.preprocessKind na refs t = .ok rows) :
    ∀ σ ∈ rows, GenuineValues na refs t σ := by
  rw [h] at hr
  exact C06_never_a_term_partial .keepNullThenNa na refs t hcomp (scope_C06_F1_keepNull na refs t) rows hr

/-- the same at rule level: every statement of a plain rule is built from a row of genuine, non-NA strings -/
theorem C06_rule_never_a_term_partial (k : PreKind) (env : Env) (rules : List Rule) (r : Rule) (hc : isAllConstant r = false)
    (hp : r.objectMapType ≠ .parentTM) (hcomp : Complete (refsOfRule r) (env.table r) = true)
    (hK : scope_C06_F1 k env.na (refsOfRule r) (env.table r) = false)
    (lines : List Str) (hl : evalRuleG k env rules r = .ok lines) :
    ∀ line ∈ lines, ∃ σ, GenuineValues env.na (refsOfRule r) (env.table r) σ ∧
      rowTriple env r r.objectMapType r.objectMapValue [] σ = .ok line := by
  intro line hline
  obtain ⟨ρ, hρ, hs, hrt⟩ := (C06_plain_rule_mem k env rules r hc hp hcomp lines hl line).mp hline
  refine ⟨_, ?_, hrt⟩
  have hr := preprocessG_eq k env.na (refsOfRule r) (env.table r) hcomp
  exact C06_never_a_term_partial k env.na _ _ hcomp hK _ hr _
    (by simp only [mem_dedupFirst, List.mem_map, List.mem_filter]; exact ⟨ρ, ⟨hρ, hs⟩, rfl⟩)

/-! ### counter-witnesses (finding C06_F1) -/

namespace W
def rule : Rule :=
  { sourceName := "DS".toList, tmId := "T".toList, sourceType := .rdb, logicalSourceType := some .query,
    logicalSourceValue := "select id, v from t".toList,
    subjectMapType := .template, subjectMapValue := "http://e/{id}".toList, subjectTermtype := .iri,
    predicateMapType := .constant, predicateMapValue := "http://e/p".toList,
    objectMapType := .reference, objectMapValue := "v".toList, objectTermtype := .literal,
    graphMapType := .constant, graphMapValue := "http://w3id.org/rml/defaultGraph".toList }
/-- the answer of the query: row 1 has a value, row 2 a SQL NULL (Python `None`), row 3 a numeric NULL (`nan`) -/
def table : Table :=
  [[("id".toList, .str "1".toList), ("v".toList, .str "a".toList)],
   [("id".toList, .str "2".toList), ("v".toList, .null "None".toList)],
   [("id".toList, .str "3".toList), ("v".toList, .null "nan".toList)]]
def env : Env := { na := defaultNa, tables := [(("DS".toList, "select id, v from t".toList), table)] }
end W

/-- **C06_F1** on the model of the unchanged code: with the default configuration the SQL NULL of row 2 becomes the literal `"None"`;
    the `nan` of row 3 is caught only because `nan` happens to be a default NA token. -/
theorem C06_F1_null_object_rendered (h : Gen.preprocessKind = .strThenNa) :
    evalRuleG Gen.preprocessKind W.env [W.rule] W.rule =
      .ok ["<http://e/1> <http://e/p> \"a\"".toList, "<http://e/2> <http://e/p> \"None\"".toList] := by
  rw [h]; decide +kernel

/-- the same input under the repaired order: only the row without NULL contributes -/
theorem C06_F1_fixed_behaviour :
    evalRuleG .keepNullThenNa W.env [W.rule] W.rule = .ok ["<http://e/1> <http://e/p> \"a\"".toList] := by
  decide +kernel

/-- `nan` objects are suppressed under the default configuration by either order; remove `nan` from `na_values` and they are rendered too -/
theorem C06_F1_nan_caught_by_default :
    (∀ k, preprocessG k defaultNa ["v".toList] [[("v".toList, .null "nan".toList)]] = .ok []) ∧
    preprocessG .strThenNa [[]] ["v".toList] [[("v".toList, .null "nan".toList)]] = .ok [[("v".toList, "nan".toList)]] := by
  refine ⟨fun k => ?_, ?_⟩
  · cases k <;> decide
  · decide

/-- the suppression half fails with it: the row has a referenced NULL and survives -/
theorem C06_F1_suppression_fails :
    scope_C06_F1 .strThenNa defaultNa ["id".toList, "v".toList] W.table = true ∧
    survivesG .strThenNa defaultNa ["id".toList, "v".toList] [("id".toList, .str "2".toList), ("v".toList, .null "None".toList)] = true ∧
    noNullRef defaultNa ["id".toList, "v".toList] [("id".toList, .str "2".toList), ("v".toList, .null "None".toList)] = false := by
  decide

/-! ## 4. per source kind -/

/-! ### SQL -/

/-- the generated pieces assemble to ``SELECT `c`, … FROM `t` WHERE `c` IS NOT NULL AND …`` -/
def sepComma : Str := [',', ' ']
def sepAnd : Str := [' ', 'A', 'N', 'D', ' ']
def kwSelect : Str := ['S', 'E', 'L', 'E', 'C', 'T', ' ']
def kwFrom : Str := [' ', 'F', 'R', 'O', 'M', ' ']
def kwWhere : Str := [' ', 'W', 'H', 'E', 'R', 'E', ' ']
def kwNotNull : Str := [' ', 'I', 'S', ' ', 'N', 'O', 'T', ' ', 'N', 'U', 'L', 'L']

structure SqlShapeOK (sh : SqlShape) : Prop where
  head : sh.head = kwSelect
  sel : sh.selItem = ⟨['`'], ['.'], ['`', '.', '`'], ['`'] ++ sepComma⟩
  cut1 : sh.cut1 = sepComma.length
  frm : sh.fromItem = ⟨kwFrom ++ ['`'], ['.'], ['`', '.', '`'], ['`'] ++ kwWhere⟩
  whr : sh.whereItem = ⟨['`'], ['.'], ['`', '.', '`'], ['`'] ++ kwNotNull ++ sepAnd⟩
  cut2 : sh.cut2 = sepAnd.length
  pass : sh.queryPassThrough = true
  needs : sh.tableNeedsRefs = true

theorem render_eq (a : SelectAst) :
    a.render = kwSelect ++ join sepComma (a.cols.map quoteIdent) ++ kwFrom ++ quoteIdent a.table ++ kwWhere ++
      join sepAnd (a.notNull.map fun c => quoteIdent c ++ kwNotNull) := by
  have e1 : "SELECT ".toList = kwSelect := by decide
  have e2 : ", ".toList = sepComma := by decide
  have e3 : " FROM ".toList = kwFrom := by decide
  have e4 : " WHERE ".toList = kwWhere := by decide
  have e5 : " AND ".toList = sepAnd := by decide
  have e6 : " IS NOT NULL".toList = kwNotNull := by decide
  unfold SelectAst.render
  rw [e1, e2, e3, e4, e5, e6]

theorem buildTableQuery_eq_render (sh : SqlShape) (hsh : SqlShapeOK sh) (lsv : Str) (refs : List Str) (hr : refs ≠ []) :
    buildTableQuery sh lsv refs = SelectAst.render ⟨refs, lsv, refs⟩ := by
  obtain ⟨h1, h2, h3, h4, h5, h6, _, _⟩ := hsh
  rw [render_eq]
  unfold buildTableQuery
  have e1 : (fun (q r : Str) => q ++ sh.selItem.render r) = fun q r => q ++ (quoteIdent r ++ sepComma) := by
    funext q r; rw [h2]; simp [SqlItem.render, quoteIdent, List.append_assoc]
  have e2 : (fun (q r : Str) => q ++ sh.whereItem.render r) =
      fun q r => q ++ ((quoteIdent r ++ kwNotNull) ++ sepAnd) := by
    funext q r; rw [h5]; simp [SqlItem.render, quoteIdent, List.append_assoc]
  have e3 : sh.fromItem.render lsv = kwFrom ++ quoteIdent lsv ++ kwWhere := by
    rw [h4]; simp [SqlItem.render, quoteIdent, List.append_assoc]
  simp only [e1, e2, e3, h3, h6, h1]
  rw [cut_foldl_join quoteIdent sepComma (by decide) refs hr,
      cut_foldl_join (fun c => quoteIdent c ++ kwNotNull) sepAnd (by decide) refs hr]
  simp only [List.append_assoc]

/-- **The query of a table source carries one `IS NOT NULL` conjunct per reference** (from the shape read off `_build_sql_query`) -/
theorem C06_sql_query_text (lsv : Str) (refs : List Str) (hr : refs ≠ []) :
    buildSqlQuery Gen.sqlShape (some .tableName) lsv refs = some (SelectAst.render ⟨refs, lsv, refs⟩) := by
  have hsh : SqlShapeOK Gen.sqlShape := ⟨by decide, by decide, by decide, by decide, by decide, by decide, by decide, by decide⟩
  have hne : refs.isEmpty = false := by cases refs <;> simp_all
  simp only [buildSqlQuery, hne, Bool.and_false, Bool.false_eq_true, ↓reduceIte]
  rw [buildTableQuery_eq_render _ hsh lsv refs hr]

example : buildSqlQuery Gen.sqlShape (some .tableName) "s.t".toList ["id".toList, "v".toList] =
    some "SELECT `id`, `v` FROM `s`.`t` WHERE `id` IS NOT NULL AND `v` IS NOT NULL".toList := by decide +kernel

/-- **A table source never hands a NULL to `_preprocess_data`**: every cell of every delivered row is a string -/
theorem C06_sql_table_never_null (lsv : Str) (refs : List Str) (t : Table) :
    NoRawNulls (sqlDeliver (some .tableName) lsv refs t) = true := by
  simp only [NoRawNulls, sqlDeliver, execSelect, List.all_eq_true, List.mem_map, List.mem_filter]
  rintro _ ⟨ρ, ⟨_, hnn⟩, rfl⟩ kv hkv
  simp only [List.mem_filterMap] at hkv
  obtain ⟨c, hc, hkv⟩ := hkv
  have := hnn c hc
  cases hl : lookup c ρ with
  | none => simp [hl] at hkv
  | some cell =>
    simp only [hl, Option.map_some, Option.some.injEq] at hkv
    subst hkv
    cases cell with
    | str s => rfl
    | null r => simp [hl] at this

/-- … and it delivers exactly the stored rows without a NULL in a referenced column, projected to the references -/
theorem C06_sql_table_rows (lsv : Str) (refs : List Str) (t : Table) (h : Complete refs t = true) :
    sqlDeliver (some .tableName) lsv refs t =
      (t.filter fun ρ => !rawNullIn refs ρ).map fun ρ => refs.filterMap fun c => (lookup c ρ).map fun cell => (c, cell) := by
  simp only [sqlDeliver, execSelect]
  congr 1
  apply List.filter_congr
  intro ρ hρ
  simp only [Complete, List.all_eq_true] at h
  rw [Bool.eq_iff_iff]
  simp only [rawNullIn, List.all_eq_true, Bool.not_eq_true', List.any_eq_false]
  constructor
  · intro hx c hc
    have := hx c hc
    cases hl : lookup c ρ with
    | none => simp
    | some cell => cases cell <;> simp_all
  · intro hx c hc
    have := hx c hc
    obtain ⟨cell, hl⟩ := Option.isSome_iff_exists.mp (h ρ hρ c hc)
    cases cell <;> simp_all

/-- a query source delivers whatever the user's query answers, NULLs included (`W.table` is such an answer) -/
theorem C06_sql_query_can_deliver_null :
    (∀ q refs t, sqlDeliver (some .query) q refs t = t) ∧ NoRawNulls W.table = false ∧
    buildSqlQuery Gen.sqlShape (some .query) W.rule.logicalSourceValue ["id".toList, "v".toList] = some W.rule.logicalSourceValue := by
  refine ⟨fun _ _ _ => rfl, by decide, by decide⟩

/-! ### CSV / TSV -/

theorem csv_no_null (sh : CsvShape) (h : (sh.naFilter && sh.keepDefaultNa) = false) (rows : List (List (Str × Str))) :
    NoRawNulls (csvDeliver sh rows) = true := by
  simp only [NoRawNulls, csvDeliver, List.all_eq_true, List.mem_map]
  rintro _ ⟨ρ, _, rfl⟩ kv hkv
  simp only [List.mem_map] at hkv
  obtain ⟨p, _, rfl⟩ := hkv
  simp [h]

/-- **CSV/TSV readers deliver strings only** (`na_filter=False`, `keep_default_na=False` in both `read_table` calls): a NULL of a
    CSV source is a string that `na_values` lists -/
theorem C06_csv_never_null (rows : List (List (Str × Str))) : NoRawNulls (csvDeliver Gen.csvShape rows) = true :=
  csv_no_null _ (by decide) rows

/-! ### JSON -/

theorem json_no_null_ref (sh : JsonShape) (h : sh.dropSubset ≠ .noDrop) (refs : List Str) (recs : List JRecord) :
    ∀ ρ ∈ readJson sh refs recs, rawNullIn refs ρ = false := by
  intro ρ hρ
  unfold readJson at hρ
  cases hs : sh.dropSubset with
  | noDrop => exact absurd hs h
  | references =>
    simp only [hs, dropnaBy, List.mem_filter] at hρ
    simpa using hρ.2
  | allColumns =>
    simp only [hs, dropnaBy, List.mem_filter, List.all_eq_true] at hρ
    obtain ⟨_, hall⟩ := hρ
    simp only [rawNullIn, List.any_eq_false]
    intro c _
    cases hl : lookup c ρ with
    | none => simp
    | some cell =>
      have := hall (c, cell) (lookup_mem hl)
      cases cell <;> simp_all [cellIsNull]

/-- **The JSON file reader never delivers a NULL in a referenced column** (its final `dropna` is present, whatever its subset) -/
theorem C06_json_file_never_null (refs : List Str) (recs : List JRecord) :
    ∀ ρ ∈ readJson Gen.jsonFileShape refs recs, rawNullIn refs ρ = false :=
  json_no_null_ref _ (by decide) refs recs

namespace W
/-- two objects with a value for `a.b`; the second has `a.c: null` -/
def recs : List JRecord :=
  [[("id".toList, .scalar (some "1".toList)), ("a".toList, .obj [("b".toList, some "x".toList), ("c".toList, some "y".toList)])],
   [("id".toList, .scalar (some "2".toList)), ("a".toList, .obj [("b".toList, some "x2".toList), ("c".toList, none)])],
   [("id".toList, .scalar (some "3".toList)), ("a".toList, .obj [("b".toList, some "x3".toList)])]]
def refs : List Str := ["id".toList, "a.b".toList]
end W

/-- **C06_F2**: a rule that references `id` and `a.b` only loses the objects whose sibling `a.c` is null or absent, because the final
    `dropna` runs over every flattened column -/
theorem C06_F2_sibling_null_drops_row (h : Gen.jsonFileShape.dropSubset = .allColumns) :
    (readJson Gen.jsonFileShape W.refs W.recs).map (fun ρ => lookup "id".toList ρ) = [some (.str "1".toList)] := by
  have : Gen.jsonFileShape = { Gen.jsonFileShape with dropSubset := .allColumns } := by rw [← h]
  rw [this]; decide +kernel

/-- with `subset=references` (fixes/C06_F2.diff) all three objects are delivered -/
theorem C06_F2_fixed_shape :
    (readJson { Gen.jsonFileShape with dropSubset := .references } W.refs W.recs).map (fun ρ => lookup "id".toList ρ) =
      [some (.str "1".toList), some (.str "2".toList), some (.str "3".toList)] := by
  decide +kernel

/-- an in-memory dict / JSON text delivers `nan` for an absent key (no final `dropna`) -/
theorem C06_json_mem_can_deliver_nan :
    readJson Gen.jsonMemShape ["id".toList, "v".toList]
        [[("id".toList, .scalar (some "1".toList)), ("v".toList, .scalar (some "a".toList))], [("id".toList, .scalar (some "3".toList))]] =
      [[("id".toList, .str "1".toList), ("v".toList, .str "a".toList)], [("id".toList, .str "3".toList), ("v".toList, .null "nan".toList)]] := by
  decide +kernel

/-- an explicit JSON `null` under a referenced key never leaves either JSON reader (the `None in json_object.values()` filter;
    for files also the final `dropna`) -/
theorem C06_json_null_value_filtered :
    readJson Gen.jsonMemShape ["id".toList, "v".toList]
        [[("id".toList, .scalar (some "1".toList)), ("v".toList, .scalar none)], [("id".toList, .scalar (some "2".toList)), ("v".toList, .scalar (some "a".toList))]] =
      [[("id".toList, .str "2".toList), ("v".toList, .str "a".toList)]] ∧
    readJson Gen.jsonFileShape ["id".toList, "v".toList]
        [[("id".toList, .scalar (some "1".toList)), ("v".toList, .scalar none)], [("id".toList, .scalar (some "2".toList)), ("v".toList, .scalar (some "a".toList))]] =
      [[("id".toList, .str "2".toList), ("v".toList, .str "a".toList)]] := by
  decide +kernel

/-! ### XML -/

/-- **C06_F3**: an empty element `<v/>` / `<v></v>` reaches `_preprocess_data` as Python `None` (the `dropna` of the reader runs before
    `explode` and sees a one-element list) -/
theorem C06_F3_xml_empty_element_is_None (h : Gen.xmlShape.dropBeforeExplode = true) :
    readXml Gen.xmlShape ["id".toList, "v".toList]
        [{ children := [{ tag := "id".toList, text := some "2".toList }, { tag := "v".toList, text := none }] }] =
      .ok [[("id".toList, .str "2".toList), ("v".toList, .null "None".toList)]] := by
  have : Gen.xmlShape = { Gen.xmlShape with dropBeforeExplode := true } := by rw [← h]
  rw [this]; decide +kernel

/-- an absent element becomes `nan` (an empty list exploded) -/
theorem C06_xml_absent_element_is_nan (h : Gen.xmlShape.dropBeforeExplode = true) :
    readXml Gen.xmlShape ["id".toList, "v".toList] [{ children := [{ tag := "id".toList, text := some "3".toList }] }] =
      .ok [[("id".toList, .str "3".toList), ("v".toList, .null "nan".toList)]] := by
  have : Gen.xmlShape = { Gen.xmlShape with dropBeforeExplode := true } := by rw [← h]
  rw [this]; decide +kernel

/-- **C06_F5**: a reference `@id` to an attribute of the iterator element raises `KeyError` for an element without it — the NULL
    suppresses every statement of every row of the rule instead of its own -/
theorem C06_F5_xml_missing_attribute_raises (h : Gen.xmlShape.selfAttr = .subscript) :
    readXml Gen.xmlShape ["@id".toList] [{ attrs := [("id".toList, "1".toList)] }, { attrs := [] }] = .error (.keyError "id".toList) := by
  have : Gen.xmlShape = { Gen.xmlShape with selfAttr := .subscript } := by rw [← h]
  rw [this]; decide +kernel

/-- with `e.get(attribute)` (fixes/C06_F5.diff) the missing attribute is a NULL of its row -/
theorem C06_F5_fixed_shape :
    readXml { Gen.xmlShape with selfAttr := .get } ["@id".toList] [{ attrs := [("id".toList, "1".toList)] }, { attrs := [] }] =
      .ok [[("@id".toList, .str "1".toList)], [("@id".toList, .null "None".toList)]] := by
  decide +kernel

/-! ### in-memory objects -/

/-- a DataFrame hands its NULL objects through (`None`, `nan`, `<NA>`, `NaT`) -/
theorem C06_frame_can_deliver_null :
    frameDeliver ["v".toList] [[("v".toList, .null "<NA>".toList), ("w".toList, .str "x".toList)], [("v".toList, .str "a\"b".toList)]] =
      .ok [[("v".toList, .null "<NA>".toList)], [("v".toList, .str "ab".toList)]] := by
  decide

/-- a list of dicts delivers `None` for a `None` value and `nan` for an absent key -/
theorem C06_list_can_deliver_null :
    listDeliver ["id".toList, "v".toList] [[("id".toList, some "1".toList), ("v".toList, none)], [("id".toList, some "2".toList)]] =
      [[("id".toList, .str "1".toList), ("v".toList, .null "None".toList)], [("id".toList, .str "2".toList), ("v".toList, .null "nan".toList)]] := by
  decide

/-! ## non-vacuity of the hypotheses -/

namespace W
/-- a referencing rule over the same query answer: child `id`/`v`, parent subject `http://e/p/{id}`, join `v = v` -/
def parentRule : Rule := { rule with tmId := "P".toList, asserted := false, subjectMapValue := "http://e/p/{id}".toList }
def childRule : Rule :=
  { rule with tmId := "C".toList, objectMapType := .parentTM, objectMapValue := "P".toList, objectTermtype := .iri,
              objectJoin := [("v".toList, "v".toList)] }
end W

/-- plain rule, complete table (hypotheses of `C06_plain_rule_lines`, `C06_plain_rule_mem`, `C06_rule_rows_with_null_removed`) -/
example : isAllConstant W.rule = false ∧ W.rule.objectMapType ≠ .parentTM ∧ Complete (refsOfRule W.rule) (W.env.table W.rule) = true := by
  decide +kernel

/-- referencing rule (hypotheses of `C06_referencing_rule_rows_removed`) -/
example : isAllConstant W.childRule = false ∧ W.childRule.objectMapType = .parentTM ∧
    findRule [W.childRule, W.parentRule] W.childRule.objectMapValue = some W.parentRule ∧
    Complete (refsOfRule W.childRule) (W.env.table W.childRule) = true ∧
    Complete (refsOfRule W.parentRule true ++ W.childRule.objectJoin.map (·.2)) (W.env.table W.parentRule) = true := by
  decide +kernel

/-- the join of the repaired order links only rows whose keys are not NULL; today's order links the two `None` keys as well -/
example : evalRuleG .keepNullThenNa W.env [W.childRule, W.parentRule] W.childRule = .ok ["<http://e/1> <http://e/p> <http://e/p/1>".toList] ∧
    evalRuleG .strThenNa W.env [W.childRule, W.parentRule] W.childRule =
      .ok ["<http://e/1> <http://e/p> <http://e/p/1>".toList, "<http://e/2> <http://e/p> <http://e/p/2>".toList] := by
  decide +kernel

/-- `agreeOn` for a row-wise change of an unreferenced column (hypothesis of `C06_rule_unreferenced_irrelevant`) -/
example : ∀ ρ, agreeOn (refsOfRule W.rule) (setCell "w".toList (.null "None".toList) ρ) ρ :=
  fun ρ => agreeOn_setCell _ _ _ ρ (by decide +kernel)

/-- outside the scope of C06_F1 although NULL objects are present (hypothesis of the `_partial` theorems) -/
example : scope_C06_F1 .strThenNa ("None".toList :: defaultNa) ["id".toList, "v".toList] W.table = false ∧ NoRawNulls W.table = false := by
  decide

/-! ### the tree as it is now (after the `fix:` commits 9c796d5, d3020b6, e27ff10)

The theorems above are stated for both shapes of the code (hypothesis `h` on the generated shape). The following ones have NO such
hypothesis: they hold because the translator reads the repaired shapes from /repo, and they stop checking (naming the shape as the
witness) if the source regresses to the recorded defects C06_F1/F3, C06_F2 or C06_F5. -/

/-- C06_F1 / C06_F3 repaired: `_preprocess_data` keeps NULL objects as NULLs when casting to `str` -/
theorem C06_current_order : Gen.preprocessKind = .keepNullThenNa := by decide

/-- **Never a term, full strength, on the current tree**: every surviving row consists of genuine non-NA string values, for all tables -/
theorem C06_never_a_term_current (na refs : List Str) (t : Table) (hcomp : Complete refs t = true)
    (rows : List SRow) (hr : preprocessG Gen.preprocessKind na refs t = .ok rows) :
    ∀ σ ∈ rows, GenuineValues na refs t σ :=
  C06_never_a_term C06_current_order na refs t hcomp rows hr

/-- C06_F2 repaired: the final `dropna` of `_read_json` is restricted to the rule's references -/
theorem C06_current_json_drop : Gen.jsonFileShape.dropSubset = .references := by decide

/-- … so the objects with a null / absent unreferenced sibling are kept (the witness of C06_F2 on the generated shape itself) -/
theorem C06_F2_current :
    (readJson Gen.jsonFileShape W.refs W.recs).map (fun ρ => lookup "id".toList ρ) =
      [some (.str "1".toList), some (.str "2".toList), some (.str "3".toList)] := by
  decide +kernel

/-- C06_F5 repaired: a missing attribute of the iterator element is a NULL cell, not a KeyError (the witness of C06_F5 on the generated shape) -/
theorem C06_F5_current :
    readXml Gen.xmlShape ["@id".toList] [{ attrs := [("id".toList, "1".toList)] }, { attrs := [] }] =
      .ok [[("@id".toList, .str "1".toList)], [("@id".toList, .null "None".toList)]] := by
  decide +kernel

/-- C06_F3 repaired (through the order of `_preprocess_data`): the `None` an empty XML element is read as is dropped, for the witness rule -/
theorem C06_F1_current :
    evalRuleG Gen.preprocessKind W.env [W.rule] W.rule = .ok ["<http://e/1> <http://e/p> \"a\"".toList] := by
  decide +kernel

end Props.C06
