/-
C09 on the tree as it is now (after the `fix:` commits 54b1f76 — a YARRRML template that starts with its only reference but has
trailing text is a template —, f7c7343 — curly braces of YARRRML literal text are escaped — and a032c47 — the parsing query delivers
referencing and term-valued object maps of one predicate-object map).
-/
import MorphKgc.Props.C09

namespace Props.C09
open Py Model Spec

theorem C09_current_yarrrml_shapes : Gen.yTemplateKind = .escaped ∧ Gen.yAddKind = .wholeRef := by decide

/-- C09_F2 repaired: every safe YARRRML template is translated to the RML template of the same abstract template -/
theorem C09_yarrrml_template_current (t : Tpl) (h : YSafe t) : yTemplateToRml Gen.yTemplateKind t.renderY = t.render :=
  C09_yarrrml_template_partial t h (fun hraw => by rw [C09_current_yarrrml_shapes.1] at hraw; cases hraw)

/-- C09_F1 repaired: a template with references (other than a bare reference) is translated as a template -/
theorem C09_yarrrml_term_current (t : Tpl) (h : YSafe t) (hne : t.parts ≠ []) (hnotref : ¬ ∃ r, t = ⟨[], [(r, [])]⟩) :
    yAddTemplate Gen.yAddKind Gen.yTemplateKind t.renderY = .template (yTemplateToRml Gen.yTemplateKind t.renderY) :=
  C09_yarrrml_term_partial t h hne hnotref (fun hs => by rw [C09_current_yarrrml_shapes.2] at hs; cases hs)

theorem C09_current_object_delivery : Gen.objectDelivery = .union := by decide

/-- C09_F3 repaired: **factoring predicate-object maps never changes the rule table**, for every well-formed document (no `DocNoMix`
    hypothesis: the parsing query now delivers term-valued and referencing object maps alike) -/
theorem C09_pomFactor_current (d : SDoc) (h : DocWF d) : normalizeSurface (splitPoms d) = normalizeSurface d :=
  C09_pomFactor_partial d h (by
    unfold DocNoMix
    intro tm _ pom _ hk
    rw [C09_current_object_delivery] at hk
    cases hk)

end Props.C09
