/-
C11 on the tree as it is now (after the `fix:` commit 236a89a: the quote-stripping `Series.apply` over the object columns of a
DataFrame source, which made pandas re-infer their dtype, is gone).
-/
import MorphKgc.Props.C11

namespace Props.C11
open Py Model

theorem C11_current_frame_strip : Gen.frameStripDtype = .keepsObject := by decide

/-- C11_F2 repaired: DataFrame sources, full strength — the result over the union of two row sets is the union of the results -/
theorem C11_frame_union_current (dtypes : List (Str × Dtype)) (k : PreKind) (env : Env) (rules : List Rule) (r : Rule)
    (hJ : r.objectMapType ≠ .parentTM) (key : Str × Str) (t₁ t₂ : TTable) :
    SetEq (frameOn Gen.frameStripDtype dtypes k env rules r key (t₁ ++ t₂))
      (unionE (frameOn Gen.frameStripDtype dtypes k env rules r key t₁) (frameOn Gen.frameStripDtype dtypes k env rules r key t₂)) :=
  C11_frame_union C11_current_frame_strip dtypes k env rules r hJ key t₁ t₂

end Props.C11
