/-
C09 ∘ C01 — the two normaliser models are linked.

`Model.normalizeSurface : SDoc → List Rule` (Model/Surface.lean, C09) is the rule table the parser builds from a mapping document *as
written*: the fold of the normalisation steps in the GENERATED order, the parsing query, `_preprocess_mappings`.
`Model.normalizeDoc : Spec.Doc → List Rule` (Model/Normalize.lean, C01) is the rule table of an *abstract* mapping document, and
`Props.C01.C01_refinement_partial` proves that evaluating it gives the statements of the generation rules `Spec.evalDoc`.

This file relates them:

  * `ofDoc : Spec.Doc → SDoc` — the expanded-RML spelling of an abstract document: every term map written as a term map (predicate and
    graph maps with kind and value only — what `rr:predicate` / `rr:graph` shortcuts expand to —, subject and object maps with their
    term type, object maps with language / datatype maps), classes as `rr:class`, graph maps where the abstract document has them
    (subject map / predicate-object map), RML vocabulary.
  * `C09_link_set`  : `RuleSetEq (normalizeSurface (ofDoc doc)) (normalizeDoc doc)` for every document of the fragment `LinkOK`
                      (referencing object maps INCLUDED) with pairwise different triples-map ids;
    `C09_link_list` : `normalizeSurface (ofDoc doc) = normalizeDoc doc` as lists when no graph map is repeated within one
                      predicate-object map (`GraphsNodup`); `Ex.docRep` shows order / multiplicity of the rows differ otherwise.
    The fragment (`LinkOK`):  `WFDoc` every predicate-object map has a predicate and an object map (otherwise `normalizeDoc` keeps a
    non-asserted rule for the triples map where the parsing query returns no row);  `NoMixDoc` outside the scope of finding `C09_F3`
    (no condition for the parsing query as it is now, `noMixDoc_of_union`);  `NoDelims` no SQL-delimited identifiers (`normalizeDoc`
    has no `_remove_delimiters_from_mappings`; `plainMap_of_no_quote`: no double quote in the value suffices).
  * `Respelling` — the surface documents reachable from one another by the respelling operations C09 proves invariant (vocabulary,
    shortcut / expanded, class / explicit type, subject graphs / POM graphs, factoring, permutation of triples maps and of
    predicate-object maps, defaults left out / written out), in either direction, composed at will;
    `respelling_rawRules` : respellings have the same parsing-query rows as sets.
  * `C09_C01_end_to_end_partial` — for every `d` with `Respelling (ofDoc doc) d`: `Model.evalAll env (normalizeSurface d)` does not
    raise and has exactly the statements of `Spec.evalDoc senv doc` (hypotheses: those of `C01_refinement_partial`, plus `WFDoc`,
    `NoDelims`, unique ids).  `_partial` because `C01_refinement_partial` is (no referencing object maps in `FragmentOK`).
-/
import MorphKgc.Props.C09
import MorphKgc.Props.C01
import MorphKgc.Lemmas.Grouping

namespace Props.C09Link
open Py Model Spec Props.C09 Props.C01

/-! ### the embedding -/

def ofTermMap (t : TermMap) : STermMap :=
  { kind := t.kind, value := (mapOf t).2, isLit := t.kind = .constant && t.termType = .literal,
    termType := some t.termType, lang := t.lang, datatype := t.datatype, ldExpanded := true }

/-- a predicate map / graph map: only kind and value are read (`rr:predicateMap [ rr:constant v ]` is what the shortcut
    `rr:predicate v` expands to) -/
def ofBare (t : TermMap) : STermMap := { kind := t.kind, value := (mapOf t).2 }

/-- a subject map: kind, value and the term type written out -/
def ofSubj (t : TermMap) : STermMap :=
  { kind := t.kind, value := (mapOf t).2, isLit := t.kind = .constant && t.termType = .literal, termType := some t.termType }

def ofSlot (t : TermMap) : SSlot := .full (ofBare t)

def ofObj : ObjMap → SObj
  | .term t => .slot (.full (ofTermMap t))
  | .ref parent conds => .ref parent conds

def ofPom (pom : Pom) : SPom :=
  { predicates := pom.predicates.map ofSlot, objects := pom.objects.map ofObj, graphs := pom.graphs.map ofSlot }

def ofTm (tm : TriplesMap) : STm :=
  { id := tm.id, sourceName := tm.sourceName, lsv := tm.lsv, subject := .full (ofSubj tm.subject), classes := tm.classes,
    graphs := tm.graphs.map ofSlot, poms := tm.poms.map ofPom }

def ofDoc (doc : Doc) : SDoc := { tms := doc.tms.map ofTm }

/-! ### the normal form of an embedded triples map -/

def nfGraphs (tm : TriplesMap) (own : List TermMap) : List SSlot :=
  if tm.graphs ++ own = [] then [defaultGraphMap] else (tm.graphs ++ own).map ofSlot

def nfClassPom (tm : TriplesMap) (c : Str) : SPom :=
  { predicates := [.full { kind := .constant, value := Gen.Iri.rdfType }],
    objects := [.slot (.full { kind := .constant, value := c, termType := some .iri, ldExpanded := true })],
    graphs := nfGraphs tm [] }

def nfPom (tm : TriplesMap) (pom : Pom) : SPom :=
  { predicates := pom.predicates.map ofSlot, objects := pom.objects.map ofObj, graphs := nfGraphs tm pom.graphs }

def nfTm (tm : TriplesMap) : STm :=
  { id := tm.id, sourceName := tm.sourceName, lsv := tm.lsv, subject := .full (ofSubj tm.subject), classes := [], graphs := [],
    poms := tm.classes.map (nfClassPom tm) ++ tm.poms.map (nfPom tm),
    asserted := !(tm.classes.isEmpty && tm.poms.isEmpty) }

theorem ofSlot_isFull (t : TermMap) : (ofSlot t).isFull = true := rfl

theorem filter_full_ofSlot (l : List TermMap) : (l.map ofSlot).filter (·.isFull) = l.map ofSlot := by
  simp [ofSlot_isFull]

theorem filter_notfull_ofSlot (l : List TermMap) : (l.map ofSlot).filter (!·.isFull) = [] := by
  induction l with
  | nil => rfl
  | cons a t ih => simp [ofSlot_isFull, ih]

theorem any_full_ofSlot (l : List TermMap) : (l.map ofSlot).any (·.isFull) = !l.isEmpty := by
  cases l <;> simp [ofSlot_isFull]

theorem expandObj_ofObj (o : ObjMap) : expandObj true true (ofObj o) = ofObj o := by
  cases o <;> rfl

theorem completeObj_ofObj (o : ObjMap) : completeObj (ofObj o) = ofObj o := by
  cases o <;> rfl

theorem expandSlot_ofSlot (t : TermMap) : expandSlot true (ofSlot t) = ofSlot t := rfl

def mkTm (tm : TriplesMap) (gs : List SSlot) (poms : List SPom) (a : Bool) : STm :=
  { id := tm.id, sourceName := tm.sourceName, lsv := tm.lsv, subject := .full (ofSubj tm.subject), classes := [], graphs := gs,
    poms := poms, asserted := a }

def expPom (pom : SPom) : SPom :=
  { predicates := pom.predicates.map (expandSlot true), objects := pom.objects.map (expandObj true true),
    graphs := pom.graphs.map (expandSlot true) }
def sgPom (gs : List SSlot) (pom : SPom) : SPom := { pom with graphs := gs.filter (·.isFull) ++ pom.graphs }
def dgPom (pom : SPom) : SPom := if pom.graphs.any (·.isFull) then pom else { pom with graphs := pom.graphs ++ [defaultGraphMap] }
def ttPom (pom : SPom) : SPom := { pom with objects := pom.objects.map completeObj }

theorem map_expandSlot_ofSlot (l : List TermMap) : (l.map ofSlot).map (expandSlot true) = l.map ofSlot := by
  rw [List.map_map]; rfl

theorem expPom_ofPom (q : Pom) : expPom (ofPom q) = ofPom q := by
  simp only [expPom, ofPom, List.map_map, Function.comp_def, expandObj_ofObj, expandSlot_ofSlot]

theorem dg_of_graphs (tm : TriplesMap) (own : List TermMap) (ps : List SSlot) (os : List SObj) :
    dgPom { predicates := ps, objects := os, graphs := (tm.graphs ++ own).map ofSlot } =
      { predicates := ps, objects := os, graphs := nfGraphs tm own } := by
  unfold dgPom nfGraphs
  simp only [any_full_ofSlot]
  cases h : tm.graphs ++ own with
  | nil => simp [defaultGraphMap]
  | cons a t => simp

theorem normPom_class (tm : TriplesMap) (c : Str) :
    ttPom (dgPom (sgPom (tm.graphs.map ofSlot) (expPom (classPom c)))) = nfClassPom tm c := by
  have e : sgPom (tm.graphs.map ofSlot) (expPom (classPom c)) =
      { predicates := [.full { kind := .constant, value := Gen.Iri.rdfType }],
        objects := [.slot (.full { kind := .constant, value := c, ldExpanded := true })],
        graphs := (tm.graphs ++ []).map ofSlot } := by
    simp [sgPom, expPom, classPom, filter_full_ofSlot, expandSlot, expandObj, expandLd]
  rw [e, dg_of_graphs]
  rfl

theorem normPom_pom (tm : TriplesMap) (q : Pom) :
    ttPom (dgPom (sgPom (tm.graphs.map ofSlot) (expPom (ofPom q)))) = nfPom tm q := by
  have e : sgPom (tm.graphs.map ofSlot) (expPom (ofPom q)) =
      { predicates := q.predicates.map ofSlot, objects := q.objects.map ofObj, graphs := (tm.graphs ++ q.graphs).map ofSlot } := by
    rw [expPom_ofPom]
    simp [sgPom, ofPom, filter_full_ofSlot]
  rw [e, dg_of_graphs]
  simp only [ttPom, nfPom, List.map_map, Function.comp_def, completeObj_ofObj]

theorem isEmpty_map_append {α β γ} (f : α → γ) (g : β → γ) (l1 : List α) (l2 : List β) :
    (l1.map f ++ l2.map g).isEmpty = (l1.isEmpty && l2.isEmpty) := by
  cases l1 <;> cases l2 <;> rfl

theorem normTm_ofTm (tm : TriplesMap) : normTm (ofTm tm) = nfTm tm := by
  unfold normTm
  rw [stepS_eq shortcutTableOK_holds]
  have e1 : stepTm .classToPom (ofTm tm) = mkTm tm (tm.graphs.map ofSlot) (tm.classes.map classPom ++ tm.poms.map ofPom) true := rfl
  have e2 : ∀ gs ps a, expandShortcutsTm (mkTm tm gs ps a) = mkTm tm (gs.map (expandSlot true)) (ps.map expPom) a := fun _ _ _ => rfl
  have e3 : ∀ gs ps a, stepTm .subjectGraphsToPom (mkTm tm gs ps a) = mkTm tm (gs.filter (!·.isFull)) (ps.map (sgPom gs)) a :=
    fun _ _ _ => rfl
  have e4 : ∀ gs ps a, stepTm .defaultGraph (mkTm tm gs ps a) = mkTm tm gs (ps.map dgPom) a := fun _ _ _ => rfl
  have e5 : ∀ gs ps a, stepTm .termtypes (mkTm tm gs ps a) = mkTm tm gs (ps.map ttPom) a := fun _ _ _ => rfl
  have e6 : ∀ gs ps a, stepTm .tmClass (mkTm tm gs ps a) = mkTm tm gs ps (a && !ps.isEmpty) := fun _ _ _ => rfl
  rw [e1, e2, e3, e4, e5, e6, map_expandSlot_ofSlot, filter_notfull_ofSlot]
  simp only [List.map_append, List.map_map, Function.comp_def, normPom_class, normPom_pom]
  simp [mkTm, nfTm, isEmpty_map_append]

/-! ### the rows of the parsing query for an embedded document -/

def rawGraphs (tm : TriplesMap) (own : List TermMap) : List (MapType × Str) :=
  if tm.graphs ++ own = [] then [(.constant, defaultGraphIri)] else (tm.graphs ++ own).map mapOf

/-- the body of `Model.rulesOfTm`, with the graph maps of a predicate-object map as a parameter -/
def rulesBody (G : List TermMap → List (MapType × Str)) (doc : Doc) (tm : TriplesMap) : List Rule :=
  (tm.classes.flatMap fun c => (G []).map fun g => ruleOf tm classPredTm (classObjTm c) g) ++
  (tm.poms.flatMap fun pom => pom.predicates.flatMap fun p => pom.objects.flatMap fun o =>
    (G pom.graphs).map fun g => pomRule doc tm p o g)

theorem rulesOfTm_body (doc : Doc) (tm : TriplesMap) :
    rulesOfTm doc tm =
      if rulesBody (pomGraphs tm) doc tm = [] then [{ baseRule tm with asserted := false }] else rulesBody (pomGraphs tm) doc tm :=
  rfl

def gOf (g : STermMap) : MapType × Str := (mapTypeOf g.kind, g.value)

theorem gOf_ofTermMap (t : TermMap) : gOf (ofTermMap t) = mapOf t := by
  unfold gOf ofTermMap mapOf mapTypeOf
  cases t.kind <;> rfl

theorem gOf_ofBare (t : TermMap) : gOf (ofBare t) = mapOf t := by
  unfold gOf ofBare mapOf mapTypeOf
  cases t.kind <;> rfl

theorem gOf_ofSubj (t : TermMap) : gOf (ofSubj t) = mapOf t := by
  unfold gOf ofSubj mapOf mapTypeOf
  cases t.kind <;> rfl

theorem names_agree : Gen.Iri.rdfType = rdfTypeIri ∧ Gen.Iri.rmlDefaultGraph = defaultGraphIri ∧
    Gen.Iri.xsdString = xsdNs ++ "string".toList := by decide +kernel

theorem fullMaps_map_full {α} (F : α → STermMap) (l : List α) : fullMaps (l.map fun x => .full (F x)) = l.map F := by
  induction l with
  | nil => rfl
  | cons a t ih => simp only [fullMaps] at ih ⊢; simp [ih]

theorem gOf_nfGraphs (tm : TriplesMap) (own : List TermMap) : (fullMaps (nfGraphs tm own)).map gOf = rawGraphs tm own := by
  unfold nfGraphs rawGraphs
  split
  · simp [fullMaps, defaultGraphMap, gOf, mapTypeOf, names_agree.2.1]
  · have : (tm.graphs ++ own).map ofSlot = (tm.graphs ++ own).map fun x => .full (ofBare x) := rfl
    rw [this, fullMaps_map_full, List.map_map]
    apply List.map_congr_left
    intro t _
    exact gOf_ofBare t

theorem sLangDt_ofTermMap (t : TermMap) : sLangDt (ofTermMap t) = langDt t := by
  unfold sLangDt langDt ofTermMap
  simp only [if_true, names_agree.2.2]
  rcases t.lang with _ | l <;> rcases t.datatype with _ | d <;> rfl

/-- the term type a referencing object map takes from its parent, in the two models -/
def ParentsAgree (nd : SDoc) (doc : Doc) : Prop :=
  ∀ parent, parentTermType nd parent =
    match doc.tms.find? (fun t => t.id = parent) with | some ptm => ptm.subject.termType | none => .iri

theorem objRules_ofObj {nd : SDoc} {doc : Doc} (hpar : ParentsAgree nd doc) (tm : TriplesMap) (p : STermMap) (p' : TermMap)
    (hp : gOf p = mapOf p') (g : STermMap) (o : ObjMap) :
    objRules nd (baseRule tm) p g (ofObj o) = [pomRule doc tm p' o (gOf g)] := by
  simp only [gOf, Prod.ext_iff] at hp
  cases o with
  | term om =>
    have h1 := gOf_ofTermMap om
    simp only [gOf, Prod.ext_iff] at h1
    simp only [ofObj, objRules, pomRule, ruleOf, sLangDt_ofTermMap, hp.1, hp.2, h1.1, h1.2, gOf]
    rfl
  | ref parent conds =>
    simp only [ofObj, objRules, pomRule, hpar parent, hp.1, hp.2, gOf]
    rfl

theorem flatMap_singleton_map {α β γ} (l : List α) (f : α → β) (h : β → γ) : (l.flatMap fun x => [h (f x)]) = (l.map f).map h := by
  induction l with
  | nil => rfl
  | cons a t ih => simp [List.flatMap_cons, ih]

theorem rowsAll_nf {nd : SDoc} {doc : Doc} (hpar : ParentsAgree nd doc) (tm : TriplesMap) (F : TermMap → STermMap)
    (ps : List TermMap) (os : List ObjMap) (own : List TermMap) (hF : ∀ t ∈ ps, gOf (F t) = mapOf t) :
    pomRowsAll nd (baseRule tm) { predicates := ps.map fun t => .full (F t), objects := os.map ofObj, graphs := nfGraphs tm own } =
      ps.flatMap fun p => os.flatMap fun o => (rawGraphs tm own).map fun g => pomRule doc tm p o g := by
  unfold pomRowsAll
  simp only [fullMaps_map_full, List.flatMap_map]
  apply flatMap_congr'
  intro p hp
  apply flatMap_congr'
  intro o _
  simp only [objRules_ofObj hpar tm (F p) p (hF p hp)]
  rw [flatMap_singleton_map, gOf_nfGraphs]

/-! ### the fragment -/

def isTermO : ObjMap → Bool
  | .term _ => true
  | .ref _ _ => false

def isRefO : ObjMap → Bool
  | .term _ => false
  | .ref _ _ => true

/-- the predicate-object map has both a term-valued and a referencing object map (scope of finding `C09_F3`) -/
def pomMixes (pom : Pom) : Bool := pom.objects.any isTermO && pom.objects.any isRefO

/-- outside the scope of `C09_F3` — asked for only while the parsing query has the shape with two consecutive OPTIONAL blocks
    (it has the repaired shape now: `noMixDoc_of_union`) -/
def NoMixDoc (doc : Doc) : Prop :=
  Gen.objectDelivery = .consecutiveOptionals → ∀ tm ∈ doc.tms, ∀ pom ∈ tm.poms, pomMixes pom = false

/-- every predicate-object map has at least one predicate map and one object map (R2RML 6.3) -/
def WFDoc (doc : Doc) : Prop := ∀ tm ∈ doc.tms, ∀ pom ∈ tm.poms, pom.predicates ≠ [] ∧ pom.objects ≠ []

theorem scopeF3_nfPom (tm : TriplesMap) (pom : Pom) : scopeF3 (nfPom tm pom) = pomMixes pom := by
  have h1 : ∀ o, (ofObj o).isSlot = isTermO o := fun o => by cases o <;> rfl
  have h2 : ∀ o, (ofObj o).isRef = isRefO o := fun o => by cases o <;> rfl
  simp only [scopeF3, nfPom, pomMixes, List.any_map, Function.comp_def, h1, h2]

theorem tmNoMix_nfTm {doc : Doc} (h : NoMixDoc doc) {tm : TriplesMap} (htm : tm ∈ doc.tms) : TmNoMix (nfTm tm) := by
  intro pom hp hk
  simp only [nfTm, List.mem_append, List.mem_map] at hp
  rcases hp with ⟨c, _, rfl⟩ | ⟨q, hq, rfl⟩
  · simp [scopeF3, nfClassPom, SObj.isRef]
  · rw [scopeF3_nfPom]
    exact h hk tm htm q hq

theorem flatMap_map_eq {α β γ} (l : List α) (f : α → β) (g : β → List γ) : (l.map f).flatMap g = l.flatMap fun x => g (f x) :=
  List.flatMap_map ..

theorem extractTm_nfTm {nd : SDoc} {doc : Doc} (hpar : ParentsAgree nd doc) (tm : TriplesMap) (hmix : TmNoMix (nfTm tm)) :
    extractTm nd (nfTm tm) =
      if (tm.classes.isEmpty && tm.poms.isEmpty) = true then [{ baseRule tm with asserted := false }]
      else rulesBody (rawGraphs tm) doc tm := by
  have hsub : (nfTm tm).subject = .full (ofSubj tm.subject) := rfl
  have hb : ∀ a, (nfTm tm).asserted = a →
      sBaseRule (nfTm tm) (ofSubj tm.subject) = { baseRule tm with asserted := a } := by
    intro a ha
    have h1 := gOf_ofSubj tm.subject
    simp only [gOf, Prod.ext_iff] at h1
    simp only [sBaseRule, ha, h1.1, h1.2, baseRule_eq]
    rfl
  have hemp : (nfTm tm).poms.isEmpty = (tm.classes.isEmpty && tm.poms.isEmpty) := isEmpty_map_append _ _ _ _
  unfold extractTm
  simp only [hsub, hemp]
  by_cases he : (tm.classes.isEmpty && tm.poms.isEmpty) = true
  · simp only [he, if_true]
    rw [hb false (by simp [nfTm, he])]
  · simp only [he, if_false, Bool.false_eq_true]
    rw [hb true (by simp [nfTm, he])]
    have hbt : ({ baseRule tm with asserted := true } : Rule) = baseRule tm := rfl
    rw [hbt]
    have hrows : ∀ pom ∈ (nfTm tm).poms, pomRows nd (baseRule tm) pom = pomRowsAll nd (baseRule tm) pom :=
      fun pom hp => pomRows_eq_all nd _ (hmix pom hp)
    rw [flatMap_congr' hrows]
    simp only [nfTm, List.flatMap_append, flatMap_map_eq, rulesBody]
    congr 1
    · apply flatMap_congr'
      intro c _
      have := rowsAll_nf hpar tm (fun _ => { kind := .constant, value := Gen.Iri.rdfType }) [classPredTm] [.term (classObjTm c)] []
        (by intro t ht; simp only [List.mem_singleton] at ht; subst ht; simp [gOf, mapTypeOf, classPredTm, mapOf, names_agree.1])
      simp only [List.map_cons, List.map_nil, List.flatMap_cons, List.flatMap_nil, List.append_nil, pomRule] at this
      exact this
    · apply flatMap_congr'
      intro pom _
      exact rowsAll_nf hpar tm ofBare pom.predicates pom.objects pom.graphs (fun t _ => gOf_ofBare t)

theorem normDoc_ofDoc_tms (doc : Doc) : (normDoc (ofDoc doc)).tms = doc.tms.map nfTm := by
  simp only [normDoc, ofDoc, List.map_map]
  apply List.map_congr_left
  intro tm _
  exact normTm_ofTm tm

theorem parentsAgree (doc : Doc) : ParentsAgree (normDoc (ofDoc doc)) doc := by
  intro parent
  unfold parentTermType
  rw [normDoc_ofDoc_tms]
  induction doc.tms with
  | nil => rfl
  | cons a t ih =>
    simp only [List.map_cons, List.find?_cons]
    have : (nfTm a).id = a.id := rfl
    rw [this]
    by_cases h : a.id = parent
    · simp [h, nfTm, ofSubj]
    · simp only [h, decide_false]
      exact ih

/-- the rows of the parsing query for an embedded document, before `_preprocess_mappings` -/
def rawRulesOf (doc : Doc) (tm : TriplesMap) : List Rule :=
  if (tm.classes.isEmpty && tm.poms.isEmpty) = true then [{ baseRule tm with asserted := false }]
  else rulesBody (rawGraphs tm) doc tm

theorem rawRules_ofDoc (doc : Doc) (hmix : NoMixDoc doc) : rawRules (ofDoc doc) = doc.tms.flatMap (rawRulesOf doc) := by
  rw [rawRules_eq, normDoc_ofDoc_tms, flatMap_map_eq]
  apply flatMap_congr'
  intro tm htm
  exact extractTm_nfTm (parentsAgree doc) tm (tmNoMix_nfTm hmix htm)

/-! ### … and the rows `Model.rulesOfTm` gives -/

theorem mem_pomGraphs_raw (tm : TriplesMap) (own : List TermMap) (g : MapType × Str) :
    g ∈ pomGraphs tm own ↔ g ∈ rawGraphs tm own := by
  unfold pomGraphs rawGraphs
  by_cases h : tm.graphs ++ own = []
  · simp [h]
  · have : (tm.graphs ++ own).map mapOf ≠ [] := by simpa using h
    simp only [this, h, if_false, mem_dedupFirst]

theorem rawGraphs_ne_nil (tm : TriplesMap) (own : List TermMap) : rawGraphs tm own ≠ [] := by
  unfold rawGraphs
  split
  · simp
  · simpa using ‹¬ tm.graphs ++ own = []›

theorem pomGraphs_ne_nil (tm : TriplesMap) (own : List TermMap) : pomGraphs tm own ≠ [] := by
  obtain ⟨g, hg⟩ := List.exists_mem_of_ne_nil _ (rawGraphs_ne_nil tm own)
  exact List.ne_nil_of_mem ((mem_pomGraphs_raw tm own g).mpr hg)

/-- the graph maps that apply to each predicate-object map (and to the class declarations) are pairwise different: then
    `Model.normalizeDoc` has no duplicates to drop among them, and the two rule tables are the same *list* -/
def GraphsNodup (doc : Doc) : Prop :=
  ∀ tm ∈ doc.tms, (tm.graphs.map mapOf).Nodup ∧ ∀ pom ∈ tm.poms, ((tm.graphs ++ pom.graphs).map mapOf).Nodup

theorem pomGraphs_eq_raw (tm : TriplesMap) (own : List TermMap) (h : ((tm.graphs ++ own).map mapOf).Nodup) :
    pomGraphs tm own = rawGraphs tm own := by
  unfold pomGraphs rawGraphs
  by_cases he : tm.graphs ++ own = []
  · simp [he]
  · have : (tm.graphs ++ own).map mapOf ≠ [] := by simpa using he
    simp only [this, he, if_false]
    exact dedupFirst_of_nodup _ h

theorem mem_rulesBody_congr {G G' : List TermMap → List (MapType × Str)} (h : ∀ own g, g ∈ G own ↔ g ∈ G' own) (doc : Doc)
    (tm : TriplesMap) (r : Rule) : r ∈ rulesBody G doc tm ↔ r ∈ rulesBody G' doc tm := by
  simp only [rulesBody, List.mem_append, List.mem_flatMap, List.mem_map, h]

theorem rulesBody_eq_nil {G : List TermMap → List (MapType × Str)} (hG : ∀ own, G own ≠ []) (doc : Doc) (tm : TriplesMap)
    (hwf : ∀ pom ∈ tm.poms, pom.predicates ≠ [] ∧ pom.objects ≠ []) :
    rulesBody G doc tm = [] ↔ (tm.classes.isEmpty && tm.poms.isEmpty) = true := by
  constructor
  · intro h
    cases hc : tm.classes with
    | cons c cs =>
      exfalso
      obtain ⟨g, hg⟩ := List.exists_mem_of_ne_nil _ (hG [])
      have : ruleOf tm classPredTm (classObjTm c) g ∈ rulesBody G doc tm := by
        simp only [rulesBody, List.mem_append, List.mem_flatMap, List.mem_map]
        exact .inl ⟨c, by simp [hc], g, hg, rfl⟩
      rw [h] at this
      cases this
    | nil =>
      cases hp : tm.poms with
      | nil => rfl
      | cons pom ps =>
        exfalso
        obtain ⟨h1, h2⟩ := hwf pom (by simp [hp])
        obtain ⟨p, hp'⟩ := List.exists_mem_of_ne_nil _ h1
        obtain ⟨o, ho⟩ := List.exists_mem_of_ne_nil _ h2
        obtain ⟨g, hg⟩ := List.exists_mem_of_ne_nil _ (hG pom.graphs)
        have : pomRule doc tm p o g ∈ rulesBody G doc tm := by
          simp only [rulesBody, List.mem_append, List.mem_flatMap, List.mem_map]
          exact .inr ⟨pom, by simp [hp], p, hp', o, ho, g, hg, rfl⟩
        rw [h] at this
        cases this
  · intro h
    simp only [Bool.and_eq_true, List.isEmpty_iff] at h
    simp [rulesBody, h.1, h.2]

/-- the rows for an embedded triples map and the rules `Model.rulesOfTm` gives for it: the same set … -/
theorem mem_rawRulesOf (doc : Doc) (tm : TriplesMap) (hwf : ∀ pom ∈ tm.poms, pom.predicates ≠ [] ∧ pom.objects ≠ []) (r : Rule) :
    r ∈ rawRulesOf doc tm ↔ r ∈ rulesOfTm doc tm := by
  rw [rulesOfTm_body, rawRulesOf]
  by_cases he : (tm.classes.isEmpty && tm.poms.isEmpty) = true
  · rw [if_pos he, if_pos ((rulesBody_eq_nil (pomGraphs_ne_nil tm) doc tm hwf).mpr he)]
  · rw [if_neg he, if_neg (fun h => he ((rulesBody_eq_nil (pomGraphs_ne_nil tm) doc tm hwf).mp h))]
    exact (mem_rulesBody_congr (mem_pomGraphs_raw tm) doc tm r).symm

/-- … and the same list when no graph map is repeated -/
theorem rawRulesOf_eq (doc : Doc) (tm : TriplesMap) (hwf : ∀ pom ∈ tm.poms, pom.predicates ≠ [] ∧ pom.objects ≠ [])
    (hnd : (tm.graphs.map mapOf).Nodup ∧ ∀ pom ∈ tm.poms, ((tm.graphs ++ pom.graphs).map mapOf).Nodup) :
    rawRulesOf doc tm = rulesOfTm doc tm := by
  have hbody : rulesBody (pomGraphs tm) doc tm = rulesBody (rawGraphs tm) doc tm := by
    unfold rulesBody
    rw [pomGraphs_eq_raw tm [] (by simpa using hnd.1)]
    congr 1
    apply flatMap_congr'
    intro pom hp
    rw [pomGraphs_eq_raw tm pom.graphs (hnd.2 pom hp)]
  rw [rulesOfTm_body, rawRulesOf, hbody]
  by_cases he : (tm.classes.isEmpty && tm.poms.isEmpty) = true
  · rw [if_pos he, if_pos ((rulesBody_eq_nil (rawGraphs_ne_nil tm) doc tm hwf).mpr he)]
  · rw [if_neg he, if_neg (fun h => he ((rulesBody_eq_nil (rawGraphs_ne_nil tm) doc tm hwf).mp h))]

/-! ### delimited identifiers: `Model.normalizeDoc` has no delimiter removal, so the fragment has none to remove -/

/-- the column name / template of the term map has no SQL delimiters for `_remove_delimiters_from_mappings` to remove -/
def plainMap (t : TermMap) : Bool := undelimMap (mapOf t).1 (mapOf t).2 == (mapOf t).2

def plainObj : ObjMap → Bool
  | .term t => plainMap t
  | .ref _ conds => conds.all fun c => undelimIdent c.1 == c.1 && undelimIdent c.2 == c.2

def NoDelims (doc : Doc) : Bool :=
  doc.tms.all fun tm => plainMap tm.subject && tm.graphs.all plainMap &&
    tm.poms.all fun pom => pom.predicates.all plainMap && pom.objects.all plainObj && pom.graphs.all plainMap

/-- a sufficient condition: no double quote in the value -/
theorem plainMap_of_no_quote (t : TermMap) (h : '"' ∉ (mapOf t).2) : plainMap t = true := by
  unfold plainMap
  rw [beq_iff_eq]
  unfold undelimMap
  split
  · unfold undelimTemplate
    rw [Py.replace_of_not_mem (c := '"') (by decide) h, Py.replace_of_not_mem (c := '"') (by decide) h]
  · unfold undelimIdent
    have : (mapOf t).2.head? ≠ some '"' := by
      intro hh
      cases hv : (mapOf t).2 with
      | nil => simp [hv] at hh
      | cons a l => rw [hv] at hh h; simp at hh; subst hh; simp at h
    simp [this]
  · rfl

theorem undelimRule_id (r : Rule) (h1 : r.logicalSourceType ≠ some .tableName)
    (h2 : undelimMap r.subjectMapType r.subjectMapValue = r.subjectMapValue)
    (h3 : undelimMap r.predicateMapType r.predicateMapValue = r.predicateMapValue)
    (h4 : undelimMap r.objectMapType r.objectMapValue = r.objectMapValue)
    (h5 : undelimMap r.graphMapType r.graphMapValue = r.graphMapValue)
    (h6 : r.subjectJoin = [])
    (h7 : (r.objectJoin.map fun p => (undelimIdent p.1, undelimIdent p.2)) = r.objectJoin) : undelimRule r = r := by
  unfold undelimRule
  rw [h2, h3, h4, h5, h7, h6, if_neg h1]
  cases r
  simp only [List.map_nil] at h6 ⊢
  rw [h6]

theorem plain_rawGraphs {tm : TriplesMap} {own : List TermMap} (h : ∀ t ∈ tm.graphs ++ own, plainMap t = true)
    {g : MapType × Str} (hg : g ∈ rawGraphs tm own) : undelimMap g.1 g.2 = g.2 := by
  unfold rawGraphs at hg
  split at hg
  · simp only [List.mem_singleton] at hg; subst hg; rfl
  · simp only [List.mem_map] at hg
    obtain ⟨t, ht, rfl⟩ := hg
    simpa [plainMap] using h t ht

theorem undelim_rawRulesOf {doc : Doc} (hd : NoDelims doc = true) {tm : TriplesMap} (htm : tm ∈ doc.tms) {r : Rule}
    (hr : r ∈ rawRulesOf doc tm) : undelimRule r = r := by
  simp only [NoDelims, List.all_eq_true, Bool.and_eq_true] at hd
  obtain ⟨⟨hs, hgs⟩, hpoms⟩ := hd tm htm
  have hs' : undelimMap (mapOf tm.subject).1 (mapOf tm.subject).2 = (mapOf tm.subject).2 := by simpa [plainMap] using hs
  unfold rawRulesOf at hr
  split at hr
  · simp only [List.mem_singleton] at hr
    subst hr
    exact undelimRule_id _ (by simp [baseRule_eq]) hs' rfl rfl rfl rfl rfl
  · simp only [rulesBody, List.mem_append, List.mem_flatMap, List.mem_map] at hr
    rcases hr with ⟨c, _, g, hg, rfl⟩ | ⟨pom, hpom, p, hp, o, ho, g, hg, rfl⟩
    · have hg' := plain_rawGraphs (tm := tm) (own := []) (by simpa using hgs) hg
      exact undelimRule_id _ (by simp [ruleOf, baseRule_eq]) hs' rfl rfl hg' rfl rfl
    · obtain ⟨⟨hps, hos⟩, hpg⟩ := hpoms pom hpom
      have hg' := plain_rawGraphs (tm := tm) (own := pom.graphs) (by
        intro t ht
        rcases List.mem_append.mp ht with ht | ht
        · exact hgs t ht
        · exact hpg t ht) hg
      have hp' : undelimMap (mapOf p).1 (mapOf p).2 = (mapOf p).2 := by simpa [plainMap] using hps p hp
      cases o with
      | term om =>
        have ho' : undelimMap (mapOf om).1 (mapOf om).2 = (mapOf om).2 := by simpa [plainMap, plainObj] using hos _ ho
        exact undelimRule_id _ (by simp [pomRule, ruleOf, baseRule_eq]) hs' hp' ho' hg' rfl rfl
      | ref parent conds =>
        have hc := hos _ ho
        simp only [plainObj, List.all_eq_true, Bool.and_eq_true, beq_iff_eq] at hc
        refine undelimRule_id _ (by simp [pomRule, baseRule_eq]) hs' hp' rfl hg' rfl ?_
        simp only [pomRule]
        conv => rhs; rw [← List.map_id conds]
        apply List.map_congr_left
        intro c hcm
        obtain ⟨h1, h2⟩ := hc c hcm
        simp [h1, h2]

/-! ### the link -/

/-- the fragment of abstract documents both models cover -/
structure LinkOK (doc : Doc) : Prop where
  /-- every predicate-object map has a predicate map and an object map (R2RML 6.3) -/
  wf : WFDoc doc
  /-- outside the scope of finding `C09_F3` (no condition with the parsing query as it is now: `noMixDoc_of_union`) -/
  noMix : NoMixDoc doc
  /-- no SQL-delimited identifiers (`Model.normalizeDoc` has no delimiter removal) -/
  noDelims : NoDelims doc = true

/-- with the parsing query that delivers term-valued and referencing object maps alike (`Props.C09.C09_current_object_delivery`,
    Props/C09Now.lean) there is no condition -/
theorem noMixDoc_of_union (h : Gen.objectDelivery = .union) (doc : Doc) : NoMixDoc doc := by
  intro hk
  rw [h] at hk
  cases hk

/-- the ids of the triples maps are pairwise different -/
def UniqueDocIds (doc : Doc) : Prop := (doc.tms.map (·.id)).Nodup

theorem uniqueIds_ofDoc {doc : Doc} (h : UniqueDocIds doc) : UniqueIds (ofDoc doc) := by
  simpa [UniqueIds, UniqueDocIds, ofDoc, List.map_map, Function.comp_def, ofTm] using h

/-- `_preprocess_mappings` without delimiter removal — what `Model.normalizeDoc` applies -/
def post0 (rules : List Rule) : List Rule := (dedupFirst rules).map (eliminateSelfJoin (dedupFirst rules))

theorem normalizeDoc_eq_post0 (doc : Doc) : normalizeDoc doc = post0 (doc.tms.flatMap (rulesOfTm doc)) := rfl

theorem post_eq_post0 {a : List Rule} (h : ∀ r ∈ a, undelimRule r = r) : post a = post0 a := by
  have : (dedupFirst a).map undelimRule = dedupFirst a := by
    conv => rhs; rw [← List.map_id (dedupFirst a)]
    apply List.map_congr_left
    intro r hr
    exact h r ((mem_dedupFirst a r).mp hr)
  unfold post post0
  simp only [this]

theorem undelim_rows {doc : Doc} (hd : NoDelims doc = true) : ∀ r ∈ doc.tms.flatMap (rawRulesOf doc), undelimRule r = r := by
  intro r hr
  rw [List.mem_flatMap] at hr
  obtain ⟨tm, htm, hr⟩ := hr
  exact undelim_rawRulesOf hd htm hr

theorem rows_setEq {doc : Doc} (hwf : WFDoc doc) :
    RuleSetEq (doc.tms.flatMap (rawRulesOf doc)) (doc.tms.flatMap (rulesOfTm doc)) := by
  intro r
  simp only [List.mem_flatMap]
  constructor
  · rintro ⟨tm, htm, hr⟩; exact ⟨tm, htm, (mem_rawRulesOf doc tm (hwf tm htm) r).mp hr⟩
  · rintro ⟨tm, htm, hr⟩; exact ⟨tm, htm, (mem_rawRulesOf doc tm (hwf tm htm) r).mpr hr⟩

/-- **The link (rule tables as sets).** The rule table the surface model builds from the expanded-RML spelling of an abstract
    document has exactly the rules of `Model.normalizeDoc` — for every document of the fragment `LinkOK` (referencing object maps
    included) whose triples-map ids are pairwise different.  (Order and multiplicity can differ: `Model.normalizeDoc` drops a
    repeated graph map within one predicate-object map before building the rows, the parser drops repeated rows afterwards.) -/
theorem C09_link_set (doc : Doc) (h : LinkOK doc) (hid : UniqueDocIds doc) :
    RuleSetEq (normalizeSurface (ofDoc doc)) (normalizeDoc doc) := by
  have hA : rawRules (ofDoc doc) = doc.tms.flatMap (rawRulesOf doc) := rawRules_ofDoc doc h.noMix
  have hcoh : Coherent (doc.tms.flatMap (rawRulesOf doc)) := hA ▸ coherent_rawRules (ofDoc doc) (uniqueIds_ofDoc hid)
  have hset := rows_setEq h.wf
  have hB : ∀ r ∈ doc.tms.flatMap (rulesOfTm doc), undelimRule r = r :=
    fun r hr => undelim_rows h.noDelims r ((hset r).mpr hr)
  unfold normalizeSurface
  rw [hA, normalizeDoc_eq_post0, ← post_eq_post0 hB]
  exact post_resp hset hcoh

/-- **The link (rule tables as lists).** When no graph map is repeated within a predicate-object map (`GraphsNodup`), the two rule
    tables are the same list; no condition on the triples-map ids. -/
theorem C09_link_list (doc : Doc) (h : LinkOK doc) (hnd : GraphsNodup doc) : normalizeSurface (ofDoc doc) = normalizeDoc doc := by
  have hA : rawRules (ofDoc doc) = doc.tms.flatMap (rawRulesOf doc) := rawRules_ofDoc doc h.noMix
  have hAB : doc.tms.flatMap (rawRulesOf doc) = doc.tms.flatMap (rulesOfTm doc) :=
    flatMap_congr' fun tm htm => rawRulesOf_eq doc tm (h.wf tm htm) (hnd tm htm)
  unfold normalizeSurface
  rw [hA, post_eq_post0 (undelim_rows h.noDelims), hAB, normalizeDoc_eq_post0]

/-! ### respellings of a surface document -/

theorem rawRules_of_normDoc {d d' : SDoc} (h : normDoc d' = normDoc d) : rawRules d' = rawRules d := by
  rw [rawRules_eq, rawRules_eq, h]

theorem rawRules_vocab (r2rml legacy : Bool) (d : SDoc) : rawRules (respell r2rml legacy d) = rawRules d :=
  rawRules_of_normDoc rfl

theorem rawRules_shortcut (d : SDoc) : rawRules (expandShortcuts d) = rawRules d :=
  rawRules_of_normDoc (by
    simp only [normDoc, expandShortcuts, List.map_map, Function.comp_def, normTm_expandShortcuts shortcutTableOK_holds])

theorem rawRules_class (d : SDoc) : rawRules (classAsPom d) = rawRules d :=
  rawRules_of_normDoc (by simp only [normDoc, classAsPom, List.map_map, Function.comp_def, normTm_classAsPom])

theorem rawRules_subjGraph (d : SDoc) : rawRules (graphsOnPoms (classAsPom d)) = rawRules d :=
  rawRules_of_normDoc (by
    simp only [normDoc, graphsOnPoms, classAsPom, List.map_map, Function.comp_def, normTm_graphsOnPoms shortcutTableOK_holds])

theorem rawRules_factor (d : SDoc) (h : DocWF d) (hF3 : DocNoMix d) : rawRules (splitPoms d) = rawRules d := by
  rw [rawRules_eq, rawRules_eq, rows_splitPoms h hF3]

/-! #### one more respelling: defaults written out

`C09_termtype_explicit_default` says, for one term map, that a term type left out and the default term type written out are completed
to the same term map.  Lifted to documents: writing every constant shortcut as a term map, every language / datatype shortcut as a
map and every default term type out (`writeDefaults`) gives the same normal form. -/

def writeDefaultsTm (tm : STm) : STm := stepTm .termtypes (expandShortcutsTm tm)
def writeDefaults (d : SDoc) : SDoc := { d with tms := d.tms.map writeDefaultsTm }

theorem subj_idem (s : SSlot) :
    completeSlot false (expandSlot true (completeSlot false (expandSlot true s))) = completeSlot false (expandSlot true s) := by
  cases s <;> simp [expandSlot, completeSlot]

theorem obj_idem (o : SObj) :
    completeObj (expandObj true true (completeObj (expandObj true true o))) = completeObj (expandObj true true o) := by
  cases o with
  | ref p j => rfl
  | slot s => cases s <;> simp [expandObj, expandSlot, expandLd, completeObj, completeSlot]

theorem writeDefaults_core (tm : STm) :
    stepTm .termtypes (expandShortcutsTm (stepTm .classToPom (writeDefaultsTm tm))) =
      stepTm .termtypes (expandShortcutsTm (stepTm .classToPom tm)) := by
  simp [writeDefaultsTm, stepTm, expandShortcutsTm, List.map_map, Function.comp_def, subj_idem, obj_idem, expandSlot_idem]

theorem normTm_T_inward (tm : STm) :
    normTm tm = stepTm .tmClass (stepTm .defaultGraph (stepTm .subjectGraphsToPom (stepTm .termtypes
      (expandShortcutsTm (stepTm .classToPom tm))))) := by
  unfold normTm
  rw [stepS_eq shortcutTableOK_holds, ← termtypes_comm_defaultGraph, ← termtypes_comm_subjGraph]

theorem normTm_writeDefaults (tm : STm) : normTm (writeDefaultsTm tm) = normTm tm := by
  rw [normTm_T_inward, normTm_T_inward, writeDefaults_core]

/-- **Defaults.** A document and the document with its shortcuts expanded and its default term types written out have the same
    rule table. -/
theorem C09_writeDefaults (d : SDoc) : normalizeSurface (writeDefaults d) = normalizeSurface d := by
  unfold normalizeSurface
  rw [rawRules_eq, rawRules_eq]
  have : normDoc (writeDefaults d) = normDoc d := by
    simp only [normDoc, writeDefaults, List.map_map, Function.comp_def, normTm_writeDefaults]
  rw [this]

theorem rawRules_writeDefaults (d : SDoc) : rawRules (writeDefaults d) = rawRules d :=
  rawRules_of_normDoc (by simp only [normDoc, writeDefaults, List.map_map, Function.comp_def, normTm_writeDefaults])

/-- **Respellings.** The surface documents reachable from one another by the respelling operations `Props/C09.lean` proves
    invariant — vocabulary (`C09_vocab`), constant shortcuts written as term maps (`C09_shortcut`), `rr:class` written as a
    predicate-object map (`C09_class`), the subject map's graph maps written on every predicate-object map (`C09_subjGraph`),
    multi-valued predicate-object maps factored into single-valued ones (`C09_pomFactor_partial`), the order of the triples maps
    (`C09_perm_tms`) and of the predicate-object maps (`C09_perm_poms`), term types / language and datatype maps left to their
    defaults or written out (`C09_termtype_explicit_default`, lifted to documents: `C09_writeDefaults`) — in either direction and
    in any composition. -/
inductive Respelling : SDoc → SDoc → Prop
  | refl (d : SDoc) : Respelling d d
  | vocab (r2rml legacy : Bool) (d : SDoc) : Respelling d (respell r2rml legacy d)
  | shortcuts (d : SDoc) : Respelling d (expandShortcuts d)
  | classes (d : SDoc) : Respelling d (classAsPom d)
  | subjGraphs (d : SDoc) : Respelling d (graphsOnPoms (classAsPom d))
  | factor (d : SDoc) : DocWF d → DocNoMix d → Respelling d (splitPoms d)
  | permTms (d d' : SDoc) : d.tms.Perm d'.tms → UniqueIds d → Respelling d d'
  | permPoms (d d' : SDoc) : PomPermList d.tms d'.tms → Respelling d d'
  | defaults (d : SDoc) : Respelling d (writeDefaults d)
  | symm {d d' : SDoc} : Respelling d d' → Respelling d' d
  | trans {d d' d'' : SDoc} : Respelling d d' → Respelling d' d'' → Respelling d d''

/-- respellings have the same rows of the parsing query, as a set -/
theorem respelling_rawRules {d d' : SDoc} (h : Respelling d d') : RuleSetEq (rawRules d) (rawRules d') := by
  induction h with
  | refl d => exact RuleSetEq.refl _
  | vocab a b d => exact RuleSetEq.of_eq (rawRules_vocab a b d).symm
  | shortcuts d => exact RuleSetEq.of_eq (rawRules_shortcut d).symm
  | classes d => exact RuleSetEq.of_eq (rawRules_class d).symm
  | subjGraphs d => exact RuleSetEq.of_eq (rawRules_subjGraph d).symm
  | factor d h hF3 => exact RuleSetEq.of_eq (rawRules_factor d h hF3).symm
  | permTms d d' h hid => exact RuleSetEq.of_perm (C09_perm_tms d d' h hid)
  | permPoms d d' h => exact RuleSetEq.of_perm (C09_perm_poms d d' h)
  | defaults d => exact RuleSetEq.of_eq (rawRules_writeDefaults d).symm
  | symm _ ih => exact ih.symm
  | trans _ _ ih1 ih2 => exact ih1.trans ih2

/-- the composition `C09_all_respellings` is about is one of them -/
theorem respelling_all (d : SDoc) (h : DocWF d) (hF3 : DocNoMix d) (r2rml legacy : Bool) :
    Respelling d (respell r2rml legacy (splitPoms (graphsOnPoms (classAsPom (expandShortcuts d))))) := by
  refine .trans (.shortcuts d) (.trans (.subjGraphs _) (.trans (.factor _ ?_ ?_) (.vocab _ _ _)))
  · intro tm htm
    simp only [graphsOnPoms, classAsPom, expandShortcuts, List.map_map, List.mem_map, Function.comp_def] at htm
    obtain ⟨t0, ht0, rfl⟩ := htm
    intro pom hp
    simp only [graphsOnPomsTm, classAsPomTm, expandShortcutsTm, List.mem_map, List.mem_append] at hp
    obtain ⟨q, hq, rfl⟩ := hp
    rcases hq with ⟨c, _, rfl⟩ | ⟨q0, hq0, rfl⟩
    · exact ⟨by simp [classPom], by simp [classPom]⟩
    · obtain ⟨h1, h2⟩ := h t0 ht0 q0 hq0
      exact ⟨by simpa using h1, by simpa using h2⟩
  · intro tm htm
    simp only [graphsOnPoms, classAsPom, expandShortcuts, List.map_map, List.mem_map, Function.comp_def] at htm
    obtain ⟨t0, ht0, rfl⟩ := htm
    intro pom hp
    simp only [graphsOnPomsTm, classAsPomTm, expandShortcutsTm, List.mem_map, List.mem_append] at hp
    obtain ⟨q, hq, rfl⟩ := hp
    rcases hq with ⟨c, _, rfl⟩ | ⟨q0, hq0, rfl⟩
    · intro _; simp [scopeF3, classPom, SObj.isRef]
    · have := hF3 t0 ht0 q0 hq0
      simp only [PomNoMix, scopeF3, any_map_of_inv _ _ (expandObj_isSlot _ _), any_map_of_inv _ _ (expandObj_isRef _ _)]
      exact this

/-! ### end to end: every spelling of an abstract document evaluates to the statements of the generation rules -/

/-- a document of C01's fragment has no referencing object maps, hence nothing in the scope of `C09_F3` -/
theorem noMix_of_noRef {doc : Doc} (h : NoRefObj doc = true) : NoMixDoc doc := by
  intro _ tm htm pom hpom
  simp only [pomMixes, Bool.and_eq_false_iff]
  right
  rw [List.any_eq_false]
  intro o ho
  obtain ⟨om, rfl⟩ := NoRefObj_term h htm hpom ho
  simp [isRefO]

/-- **C09 ∘ C01 (partial, with the hypotheses of `C01_refinement_partial`).** Let `doc` be an abstract mapping document of C01's
    core fragment (`FragmentOK`; tables with the reader guarantees `TablesOK`; outside finding C01_F4: `NoF4`), well-formed
    (`WFDoc`), without SQL-delimited identifiers (`NoDelims`) and with pairwise different triples-map ids.  Then for EVERY surface
    document `d` that is a respelling of its expanded-RML spelling `ofDoc doc`, the engine run on the rule table the parser builds
    from `d` does not raise, and its output has exactly the statements the generation rules prescribe for `doc`. -/
theorem C09_C01_end_to_end_partial {env : Env} {senv : SEnv} (henv : EnvOK env senv) (hn : NamesOK senv) (doc : Doc)
    (hfrag : FragmentOK senv doc = true) (htab : TablesOK senv doc = true) (hF4 : NoF4 senv doc = true)
    (hwf : WFDoc doc) (hnd : NoDelims doc = true) (hid : UniqueDocIds doc)
    (d : SDoc) (hd : Respelling (ofDoc doc) d) :
    ∃ out, evalAll env (normalizeSurface d) = .ok out ∧ ∀ line, line ∈ out ↔ line ∈ evalDoc senv doc := by
  obtain ⟨out0, h0, hm0⟩ := C01_refinement_partial henv hn doc hfrag htab hF4
  have hl : LinkOK doc := ⟨hwf, noMix_of_noRef (FragmentOK_noRef hfrag), hnd⟩
  have hset := C09_link_set doc hl hid
  have hcohS := coherent_normalizeSurface (ofDoc doc) (uniqueIds_ofDoc hid)
  have hcohD : Coherent (normalizeDoc doc) := Coherent.of_setEq hset hcohS
  obtain ⟨out1, h1, hm1⟩ := evalAll_resp env hset.symm hcohD out0 h0
  obtain ⟨out2, h2, hm2⟩ :=
    C09_spelling_invariance env (ofDoc doc) d (uniqueIds_ofDoc hid) (respelling_rawRules hd) out1 h1
  exact ⟨out2, h2, fun line => ((hm2 line).symm.trans ((hm1 line).symm.trans (hm0 line)))⟩

theorem docWF_ofDoc {doc : Doc} (h : WFDoc doc) : DocWF (ofDoc doc) := by
  intro tm htm pom hp
  simp only [ofDoc, List.mem_map] at htm
  obtain ⟨t0, ht0, rfl⟩ := htm
  simp only [ofTm, List.mem_map] at hp
  obtain ⟨q, hq, rfl⟩ := hp
  obtain ⟨h1, h2⟩ := h t0 ht0 q hq
  exact ⟨by simpa [ofPom] using h1, by simpa [ofPom] using h2⟩

theorem docNoMix_ofDoc {doc : Doc} (h : NoMixDoc doc) : DocNoMix (ofDoc doc) := by
  intro tm htm pom hp hk
  simp only [ofDoc, List.mem_map] at htm
  obtain ⟨t0, ht0, rfl⟩ := htm
  simp only [ofTm, List.mem_map] at hp
  obtain ⟨q, hq, rfl⟩ := hp
  have h1 : ∀ o, (ofObj o).isSlot = isTermO o := fun o => by cases o <;> rfl
  have h2 : ∀ o, (ofObj o).isRef = isRefO o := fun o => by cases o <;> rfl
  have : scopeF3 (ofPom q) = pomMixes q := by
    simp only [scopeF3, ofPom, pomMixes, List.any_map, Function.comp_def, h1, h2]
  rw [this]
  exact h hk t0 ht0 q hq

/-- the same for the composition of all the document-level respellings of `C09_all_respellings` -/
theorem C09_C01_all_respellings_partial {env : Env} {senv : SEnv} (henv : EnvOK env senv) (hn : NamesOK senv) (doc : Doc)
    (hfrag : FragmentOK senv doc = true) (htab : TablesOK senv doc = true) (hF4 : NoF4 senv doc = true)
    (hwf : WFDoc doc) (hnd : NoDelims doc = true) (hid : UniqueDocIds doc) (r2rml legacy : Bool) :
    ∃ out, evalAll env (normalizeSurface
        (respell r2rml legacy (splitPoms (graphsOnPoms (classAsPom (expandShortcuts (ofDoc doc))))))) = .ok out ∧
      ∀ line, line ∈ out ↔ line ∈ evalDoc senv doc := by
  apply C09_C01_end_to_end_partial henv hn doc hfrag htab hF4 hwf hnd hid
  exact respelling_all _ (docWF_ofDoc hwf) (docNoMix_ofDoc (noMix_of_noRef (FragmentOK_noRef hfrag))) _ _

/-! ### non-vacuity: a document with a class, a graph map on the subject map and two predicate-object maps -/

/-- the rule table through the normal form (so that an evaluation does not have to run the vocabulary rewrites) -/
theorem normalizeSurface_eq (d : SDoc) : normalizeSurface d = post ((normDoc d).tms.flatMap (extractTm (normDoc d))) := by
  unfold normalizeSurface; rw [rawRules_eq]

namespace Ex
open Props.C01.Ex

/-- the document of `Props.C01.Ex` with the template-valued graph map on the subject map (so the class declaration gets it too) -/
def tm : TriplesMap :=
  { id := "#TM1".toList, sourceName := "src".toList, lsv := "t.csv".toList, subject := subj,
    classes := ["http://ex/C".toList], graphs := [gTpl],
    poms := [⟨[pName], [.term oName], []⟩, ⟨[pLabel], [.term oLabel], []⟩] }

def doc : Doc := ⟨[tm]⟩

theorem fragmentOK : FragmentOK senv doc = true := by decide +kernel
theorem tablesOK : TablesOK senv doc = true := by decide +kernel
theorem noF4 : NoF4 senv doc = true := by decide +kernel
theorem wfDoc : WFDoc doc := by
  intro t ht pom hp
  simp only [doc, List.mem_singleton] at ht
  subst ht
  simp only [tm, List.mem_cons, List.not_mem_nil, or_false] at hp
  rcases hp with rfl | rfl <;> exact ⟨by simp, by simp⟩
theorem noDelims : NoDelims doc = true := by decide +kernel
theorem uniqueDocIds : UniqueDocIds doc := by unfold UniqueDocIds; decide +kernel
theorem linkOK : LinkOK doc := ⟨wfDoc, noMix_of_noRef (FragmentOK_noRef fragmentOK), noDelims⟩
theorem graphsNodup : GraphsNodup doc := by
  intro t ht
  simp only [doc, List.mem_singleton] at ht
  subst ht
  refine ⟨by decide +kernel, fun pom hp => ?_⟩
  simp only [tm, List.mem_cons, List.not_mem_nil, or_false] at hp
  rcases hp with rfl | rfl <;> decide +kernel

/-- the hypotheses of the two link theorems hold for it -/
example : RuleSetEq (normalizeSurface (ofDoc doc)) (normalizeDoc doc) := C09_link_set doc linkOK uniqueDocIds
example : normalizeSurface (ofDoc doc) = normalizeDoc doc := C09_link_list doc linkOK graphsNodup

/-- … and the link is not an equation between empty tables: three rules (class, name, label), all in the graph `http://ex/g/{id}` -/
example : (normalizeDoc doc).length = 3 ∧ (normalizeDoc doc).all (fun r => r.graphMapValue = "http://ex/g/{id}".toList) = true := by
  decide +kernel

/-- the equation of `C09_link_list`, computed: the fold of the generated step order, the parsing query and `_preprocess_mappings`
    on the embedded document give the rule table of `Model.normalizeDoc` -/
example : normalizeSurface (ofDoc doc) = normalizeDoc doc := by rw [normalizeSurface_eq]; decide +kernel

/-- a document where order and multiplicity differ: the same graph map on the subject map and on the predicate-object map.
    `Model.normalizeDoc` drops the repetition, so does the parser (`drop_duplicates`) -/
def docRep : Doc := ⟨[{ tm with poms := [⟨[pName], [.term oName], [gTpl]⟩] }]⟩
example : ¬ GraphsNodup docRep := by
  intro h
  have := (h _ (List.mem_singleton.mpr rfl)).2 ⟨[pName], [.term oName], [gTpl]⟩ (List.mem_singleton.mpr rfl)
  revert this
  decide +kernel
example : (rawRules (ofDoc docRep)).length = 3 ∧ (normalizeSurface (ofDoc docRep)).length = 2 ∧ (normalizeDoc docRep).length = 2 := by
  rw [normalizeSurface_eq, rawRules_eq]; decide +kernel

/-- referencing object maps are inside the fragment of the link: a second triples map with a join on `#TM1` (same logical source,
    `id = id`: `_remove_self_joins_no_condition` replaces it in both models) and one on a missing column pair (kept as a join) -/
def tmB : TriplesMap :=
  { id := "#TM2".toList, sourceName := "src".toList, lsv := "t.csv".toList,
    subject := { kind := .template, tpl := ⟨"http://ex/b/".toList, [("id".toList, [])]⟩ }, classes := [], graphs := [],
    poms := [⟨[pName], [.ref "#TM1".toList [("id".toList, "id".toList)], .ref "#TM1".toList [("name".toList, "id".toList)]], []⟩] }
def docRef : Doc := ⟨[tm, tmB]⟩

theorem linkOK_ref : LinkOK docRef := by
  refine ⟨?_, ?_, by decide +kernel⟩
  · intro t ht pom hp
    simp only [docRef, List.mem_cons, List.not_mem_nil, or_false] at ht
    rcases ht with rfl | rfl <;> simp only [tm, tmB, List.mem_cons, List.not_mem_nil, or_false] at hp
    · rcases hp with rfl | rfl <;> exact ⟨by simp, by simp⟩
    · subst hp; exact ⟨by simp, by simp⟩
  · intro _ t ht pom hp
    simp only [docRef, List.mem_cons, List.not_mem_nil, or_false] at ht
    rcases ht with rfl | rfl <;> simp only [tm, tmB, List.mem_cons, List.not_mem_nil, or_false] at hp
    · rcases hp with rfl | rfl <;> decide +kernel
    · subst hp; decide +kernel

example : RuleSetEq (normalizeSurface (ofDoc docRef)) (normalizeDoc docRef) :=
  C09_link_set docRef linkOK_ref (by unfold UniqueDocIds; decide +kernel)

example : normalizeSurface (ofDoc docRef) = normalizeDoc docRef ∧ (normalizeDoc docRef).length = 5 ∧
    ((normalizeDoc docRef).filter (·.objectMapType = .parentTM)).length = 1 := by
  rw [normalizeSurface_eq]; decide +kernel

/-- the embedded document with the class as a predicate-object map, the graph map repeated on each predicate-object map, the
    label map first, in R2RML vocabulary -/
def moved : SDoc :=
  { needsR2rml := true,
    tms := [{ id := "#TM1".toList, sourceName := "src".toList, lsv := "t.csv".toList, subject := .full (ofSubj subj),
              poms := [ { predicates := [ofSlot pLabel], objects := [ofObj (.term oLabel)], graphs := [ofSlot gTpl] },
                        { predicates := [.short Gen.Iri.rdfType false], objects := [.slot (.short "http://ex/C".toList false)],
                          graphs := [ofSlot gTpl] },
                        { predicates := [ofSlot pName], objects := [ofObj (.term oName)], graphs := [ofSlot gTpl] } ] }] }

theorem moved_respelling : Respelling (ofDoc doc) moved := by
  -- class as a predicate-object map, graphs on the predicate-object maps, R2RML vocabulary …
  refine .trans (.subjGraphs _) (.trans (.vocab true false _) (.permPoms _ _ ?_))
  -- … and the predicate-object maps in another order
  refine .cons ⟨rfl, ?_⟩ .nil
  decide +kernel

/-- a spelling written by hand, as one writes R2RML: `rr:predicate` / `rr:object` shortcuts, `rr:language` / `rr:datatype`
    properties, no term types (`rr:column` objects are literals, templates IRIs, a template with a datatype a literal), the class as
    `rr:predicate rdf:type ; rr:object ex:C`, the graph map on each predicate-object map, the label map first -/
def spelled : SDoc :=
  { needsR2rml := true,
    tms := [{ id := "#TM1".toList, sourceName := "src".toList, lsv := "t.csv".toList,
              subject := .full { kind := .template, value := "http://ex/{id}".toList },
              poms := [ { predicates := [.short "http://ex/label".toList false],
                          objects := [.slot (.full { kind := .template, value := "{name} ({id})".toList,
                                                     datatype := some "http://ex/dt".toList })],
                          graphs := [.full { kind := .template, value := "http://ex/g/{id}".toList }] },
                        { predicates := [.short Gen.Iri.rdfType false], objects := [.slot (.short "http://ex/C".toList false)],
                          graphs := [.full { kind := .template, value := "http://ex/g/{id}".toList }] },
                        { predicates := [.short "http://ex/name".toList false],
                          objects := [.slot (.full { kind := .reference, value := "name".toList, lang := some "en".toList })],
                          graphs := [.full { kind := .template, value := "http://ex/g/{id}".toList }] } ] }] }

theorem spelled_respelling : Respelling (ofDoc doc) spelled := by
  have h : writeDefaults spelled = writeDefaults moved := by decide +kernel
  exact .trans moved_respelling (.trans (.defaults moved) (h ▸ .symm (.defaults spelled)))

example : spelled ≠ moved ∧ moved ≠ ofDoc doc := by decide +kernel

/-- every hypothesis of the end-to-end theorem holds for `doc` and the hand-written spelling -/
example : ∃ out, evalAll env (normalizeSurface spelled) = .ok out ∧ ∀ line, line ∈ out ↔ line ∈ evalDoc senv doc :=
  C09_C01_end_to_end_partial envOK namesOK doc fragmentOK tablesOK noF4 wfDoc noDelims uniqueDocIds spelled spelled_respelling

example (r2rml legacy : Bool) : ∃ out, evalAll env (normalizeSurface
      (respell r2rml legacy (splitPoms (graphsOnPoms (classAsPom (expandShortcuts (ofDoc doc))))))) = .ok out ∧
    ∀ line, line ∈ out ↔ line ∈ evalDoc senv doc :=
  C09_C01_all_respellings_partial envOK namesOK doc fragmentOK tablesOK noF4 wfDoc noDelims uniqueDocIds r2rml legacy

/-- what the engine makes of the hand-written spelling, and what the generation rules prescribe (row 2 has a null `name`) -/
example : evalAll env (normalizeSurface spelled) = .ok
    [ "<http://ex/1> <http://ex/label> \"Ann \\\"A\\\" (1)\"^^<http://ex/dt> <http://ex/g/1>".toList,
      "<http://ex/1> <http://www.w3.org/1999/02/22-rdf-syntax-ns#type> <http://ex/C> <http://ex/g/1>".toList,
      "<http://ex/2> <http://www.w3.org/1999/02/22-rdf-syntax-ns#type> <http://ex/C> <http://ex/g/2>".toList,
      "<http://ex/1> <http://ex/name> \"Ann \\\"A\\\"\"@en <http://ex/g/1>".toList ] := by rw [normalizeSurface_eq]; decide +kernel

end Ex

end Props.C09Link
