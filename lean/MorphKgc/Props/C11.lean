/-
C11 — Each statement depends only on the row that produced it.

Structure
  1. the generated facts (`Gen/RowIndep.lean`, `Gen/Null.lean`, `Gen/GroupSet.lean`) the model rests on, as decidable side conditions: `drop_duplicates` over all
     projected columns, cell-wise stringification before any column-level step, `dropna(how='any', subset=references)`, set-valued sinks, the typing-relevant
     arguments of the readers, the element-wise audit of term construction;
  2. string tables, full strength (all tables, all splits, permutations, duplications; both statement orders of `_preprocess_data`; no completeness
     assumption — the `KeyError` behaviour is covered too): rule evaluation is `RowWise` in the table of a logical source, hence
     `f(t₁ ++ t₂) = f(t₁) ∪ f(t₂)`, permutation invariance, duplicates add nothing, the result depends only on the *set* of rows, and a row renders alone as it
     renders within the table; for referencing rules the same over splits of the child source with the parent fixed, and over splits of the parent source
     with the child fixed; lifted to `materialize_set` (all rules, with and without grouping);
  3. typed tables (`Model.coerceTable`: the column-wise dtype decision of the data layer): permutation / duplication invariance at FULL strength (the dtype depends
     only on the set of cells), the union law FALSE (finding C11_F1) — counter-witnesses, and `C11_typed_partial` under `¬ scope_C11_F1` for the three tables
     involved; text sources (`dtype=str`) and frames with given dtypes at full strength.
-/
import MorphKgc.Lemmas.RowIndep
import MorphKgc.Gen.GroupSet

namespace Props.C11
open Py Model

/-! ## 1. generated facts -/

/-- `_preprocess_data` removes duplicates with `data = data.drop_duplicates(…)` over all projected columns (no proper `subset=`), keeping one copy -/
theorem C11_gen_dedup :
    Gen.dedupShape.present = true ∧ (Gen.dedupShape.subset = .allColumns ∨ Gen.dedupShape.subset = .references) ∧ Gen.dedupShape.keep ≠ .dropAll := by
  decide

/-- `drop_duplicates(subset=[c])` (keep first) on stringified rows — NOT what the code does; it shows why `C11_gen_dedup` is a side condition -/
def dedupOnCol (c : Str) (rows : List SRow) : List SRow :=
  (rows.foldl (fun acc ρ => if acc.any (fun σ => lookup c σ == lookup c ρ) then acc else ρ :: acc) []).reverse

/-- de-duplication on a proper subset of the columns keeps a row that depends on the row order and loses the other one; over all columns both survive -/
theorem C11_dedup_subset_is_order_dependent :
    dedupOnCol "id".toList [[("id".toList, "1".toList), ("v".toList, "a".toList)], [("id".toList, "1".toList), ("v".toList, "b".toList)]] =
      [[("id".toList, "1".toList), ("v".toList, "a".toList)]] ∧
    dedupOnCol "id".toList [[("id".toList, "1".toList), ("v".toList, "b".toList)], [("id".toList, "1".toList), ("v".toList, "a".toList)]] =
      [[("id".toList, "1".toList), ("v".toList, "b".toList)]] ∧
    dedupFirst [[("id".toList, "1".toList), ("v".toList, "a".toList)], [("id".toList, "1".toList), ("v".toList, "b".toList)]] =
      [[("id".toList, "1".toList), ("v".toList, "a".toList)], [("id".toList, "1".toList), ("v".toList, "b".toList)]] := by
  decide

/-- the statement order of `_preprocess_data` is one the model covers (`Model.preprocessG Gen.preprocessKind`): the cell-wise `map(str)` comes first, so that
    `convert_dtypes` only ever sees string columns; NA removal is `dropna(axis=0, how='any', subset=references)` after a whole-cell replacement -/
theorem C11_gen_preprocess_order :
    preKindOf Gen.preprocessSteps = some Gen.preprocessKind ∧
    (Gen.preprocessSteps.head? = some .mapStr ∨ Gen.preprocessSteps.head? = some .mapStrKeepNull) ∧
    Gen.removeNullsShape.howAny = true ∧ Gen.removeNullsShape.dropSubset = .references ∧ Gen.removeNullsShape.naMatch = .wholeCell := by
  decide

/-- both sinks accumulate a Python `set`: order and multiplicity of the rows' statements are not observable -/
theorem C11_gen_sinks_are_sets : Gen.groupAccToSet = .pySet ∧ Gen.groupAccToFile = .pySet := by decide

/-- the readers: SQL through `read_sql_query(coerce_float=False)` without typing arguments; CSV/TSV/Excel/ODS deliver strings only (`dtype=str`, no NA detection);
    columnar files pass the pandas frame through -/
theorem C11_gen_readers :
    Gen.sqlReadShape = { viaReadSqlQuery := true, coerceFloatFalse := true, typingArgs := false } ∧
    Gen.csvReadShape = { dtypeStr := true, keepDefaultNa := false, naFilter := false } ∧
    Gen.excelReadShape = { dtypeStr := true, keepDefaultNa := false, naFilter := false } ∧
    Gen.odsReadShape = { dtypeStr := true, keepDefaultNa := false, naFilter := false } ∧
    Gen.parquetShape = { passThrough := true, dtypeBackendArg := false } ∧
    Gen.featherShape = { passThrough := true, dtypeBackendArg := false } ∧
    Gen.ramShape.listViaDataFrame = true ∧ Gen.ramShape.frameProjects = true := by
  decide

/-- term construction is element-wise: every statement of `_materialize_template`, `_materialize_fnml_execution`, `_materialize_rml_rule_terms` that touches a
    data column is a recognised element-wise form, none looks at a whole column, no control flow depends on the data; between `_get_data` and the sink only the
    join changes the number of rows -/
theorem C11_gen_elementwise :
    Gen.auditTemplate.recognised = true ∧ Gen.auditTemplate.columnOps = 0 ∧ 0 < Gen.auditTemplate.elementwiseOps ∧
    Gen.auditFnml.recognised = true ∧ Gen.auditFnml.columnOps = 0 ∧
    Gen.auditRuleTerms.recognised = true ∧ Gen.auditRuleTerms.columnOps = 0 ∧
    Gen.ruleBodyShape = { getDataThenPreprocess := true, rowPreserving := true, tripleIsConcat := true } ∧
    Gen.rowIndepTranslated = true := by
  decide

/-- under the statement order read from /repo, the shared engine model `Model.evalRule` is `evalRuleG .strThenNa` -/
theorem C11_evalRuleG_strThenNa (env : Env) (rules : List Rule) (r : Rule) : evalRuleG .strThenNa env rules r = evalRule env rules r := rfl

theorem C11_evalAllG_strThenNa (env : Env) (rules : List Rule) : evalAllG .strThenNa env rules = evalAll env rules := rfl

/-! ## 2. string tables: full strength -/

/-- the result of one rule as a function of the table that the logical source `key` delivers -/
def ruleOn (k : PreKind) (env : Env) (rules : List Rule) (r : Rule) (key : Str × Str) (t : Table) : Except MatErr (List Str) :=
  evalRuleG k (env.withTable key t) rules r

/-- the result of the whole rule set (`materialize_set`) as a function of that table -/
def docOn (k : PreKind) (env : Env) (rules : List Rule) (key : Str × Str) (t : Table) : Except MatErr (List Str) :=
  evalAllG k (env.withTable key t) rules

/-- **Rule evaluation is row-wise** in the table of any logical source that the rule does not join with itself — for every table, configuration, rule set and
    both statement orders.  Everything below in this section is a corollary. -/
theorem C11_rule_rowwise (k : PreKind) (env : Env) (rules : List Rule) (r : Rule) (key : Str × Str) (h : ¬ SelfJoinOn key rules r) :
    RowWise (ruleOn k env rules r key) :=
  evalRuleG_rowWise k env rules r key h

theorem not_selfJoin_of_joinFree {key : Str × Str} {rules : List Rule} {r : Rule} (hJ : r.objectMapType ≠ .parentTM) :
    ¬ SelfJoinOn key rules r := fun h => hJ h.1

/-- **C11, union over a split** (join-free rule): the statements over `t₁ ++ t₂` are the statements over `t₁` together with those over `t₂`; one side raises
    iff the whole raises -/
theorem C11_union (k : PreKind) (env : Env) (rules : List Rule) (r : Rule) (hJ : r.objectMapType ≠ .parentTM) (key : Str × Str) (t₁ t₂ : Table) :
    SetEq (ruleOn k env rules r key (t₁ ++ t₂)) (unionE (ruleOn k env rules r key t₁) (ruleOn k env rules r key t₂)) :=
  (C11_rule_rowwise k env rules r key (not_selfJoin_of_joinFree hJ)).union t₁ t₂

/-- **C11, row order is irrelevant** -/
theorem C11_perm (k : PreKind) (env : Env) (rules : List Rule) (r : Rule) (hJ : r.objectMapType ≠ .parentTM) (key : Str × Str) {t t' : Table}
    (hp : t.Perm t') : SetEq (ruleOn k env rules r key t) (ruleOn k env rules r key t') :=
  (C11_rule_rowwise k env rules r key (not_selfJoin_of_joinFree hJ)).perm hp

/-- **C11, duplicate rows add nothing** (any number of copies of rows already present, anywhere after them) -/
theorem C11_dup (k : PreKind) (env : Env) (rules : List Rule) (r : Rule) (hJ : r.objectMapType ≠ .parentTM) (key : Str × Str) (t d : Table)
    (hd : ∀ ρ ∈ d, ρ ∈ t) : SetEq (ruleOn k env rules r key (t ++ d)) (ruleOn k env rules r key t) :=
  (C11_rule_rowwise k env rules r key (not_selfJoin_of_joinFree hJ)).dup t d hd

/-- the three together: **the result depends only on the set of rows** -/
theorem C11_set_ext (k : PreKind) (env : Env) (rules : List Rule) (r : Rule) (hJ : r.objectMapType ≠ .parentTM) (key : Str × Str) {t t' : Table}
    (hs : ∀ ρ, ρ ∈ t ↔ ρ ∈ t') : SetEq (ruleOn k env rules r key t) (ruleOn k env rules r key t') :=
  (C11_rule_rowwise k env rules r key (not_selfJoin_of_joinFree hJ)).setExt hs

/-- **C11, a value renders within the table as it renders alone**: when the table is materialized, every row alone is materialized too, and the statements of the
    table are exactly those of the empty table (an all-constant rule has one) and those each row gives on its own -/
theorem C11_row_alone (k : PreKind) (env : Env) (rules : List Rule) (r : Rule) (hJ : r.objectMapType ≠ .parentTM) (key : Str × Str) (t : Table)
    (lines : List Str) (ht : ruleOn k env rules r key t = .ok lines) :
    (∀ ρ ∈ t, IsOk (ruleOn k env rules r key [ρ])) ∧ IsOk (ruleOn k env rules r key []) ∧
    ∀ l, l ∈ lines ↔ (∃ l0, ruleOn k env rules r key [] = .ok l0 ∧ l ∈ l0) ∨ ∃ ρ ∈ t, ∃ lρ, ruleOn k env rules r key [ρ] = .ok lρ ∧ l ∈ lρ :=
  (C11_rule_rowwise k env rules r key (not_selfJoin_of_joinFree hJ)).alone t lines ht

/-- **joins: only the row and the matching parent rows** — a referencing rule whose parent reads another logical source is row-wise in the child source
    (the parent table fixed): union over child splits, permutations, duplications -/
theorem C11_join_child_union (k : PreKind) (env : Env) (rules : List Rule) (r parent : Rule) (hf : findRule rules r.objectMapValue = some parent)
    (hne : keyOf parent ≠ keyOf r) (t₁ t₂ : Table) :
    SetEq (ruleOn k env rules r (keyOf r) (t₁ ++ t₂)) (unionE (ruleOn k env rules r (keyOf r) t₁) (ruleOn k env rules r (keyOf r) t₂)) := by
  refine (C11_rule_rowwise k env rules r (keyOf r) ?_).union t₁ t₂
  rintro ⟨_, p, hp, _, hk⟩
  rw [hf] at hp
  exact hne ((Option.some.inj hp) ▸ hk)

/-- … and in the parent source, the child table fixed -/
theorem C11_join_parent_union (k : PreKind) (env : Env) (rules : List Rule) (r parent : Rule) (_hf : findRule rules r.objectMapValue = some parent)
    (hne : keyOf parent ≠ keyOf r) (t₁ t₂ : Table) :
    SetEq (ruleOn k env rules r (keyOf parent) (t₁ ++ t₂)) (unionE (ruleOn k env rules r (keyOf parent) t₁) (ruleOn k env rules r (keyOf parent) t₂)) := by
  refine (C11_rule_rowwise k env rules r (keyOf parent) ?_).union t₁ t₂
  rintro ⟨_, _, _, hk, _⟩
  exact hne hk.symm

/-- **documents**: `materialize_set` over all rules is row-wise in every logical source that no asserted rule joins with itself -/
theorem C11_doc_rowwise (k : PreKind) (env : Env) (rules : List Rule) (key : Str × Str)
    (h : ∀ r ∈ rules, r.asserted = true → ¬ SelfJoinOn key rules r) : RowWise (docOn k env rules key) ∧ RowWise (fun t => evalGroupedG k (env.withTable key t) rules) :=
  ⟨evalAllG_rowWise k env rules key h, evalGroupedG_rowWise k env rules key h⟩

theorem C11_doc_union (k : PreKind) (env : Env) (rules : List Rule) (key : Str × Str) (h : ∀ r ∈ rules, r.asserted = true → ¬ SelfJoinOn key rules r)
    (t₁ t₂ : Table) : SetEq (docOn k env rules key (t₁ ++ t₂)) (unionE (docOn k env rules key t₁) (docOn k env rules key t₂)) :=
  (C11_doc_rowwise k env rules key h).1.union t₁ t₂

theorem C11_doc_set_ext (k : PreKind) (env : Env) (rules : List Rule) (key : Str × Str) (h : ∀ r ∈ rules, r.asserted = true → ¬ SelfJoinOn key rules r)
    {t t' : Table} (hs : ∀ ρ, ρ ∈ t ↔ ρ ∈ t') : SetEq (docOn k env rules key t) (docOn k env rules key t') :=
  (C11_doc_rowwise k env rules key h).1.setExt hs

/-- grouping (`mapping_partition`) does not enter: the group-by-group accumulation obeys the same laws -/
theorem C11_doc_grouped_union (k : PreKind) (env : Env) (rules : List Rule) (key : Str × Str)
    (h : ∀ r ∈ rules, r.asserted = true → ¬ SelfJoinOn key rules r) (t₁ t₂ : Table) :
    SetEq (evalGroupedG k (env.withTable key (t₁ ++ t₂)) rules)
      (unionE (evalGroupedG k (env.withTable key t₁) rules) (evalGroupedG k (env.withTable key t₂) rules)) :=
  (C11_doc_rowwise k env rules key h).2.union t₁ t₂

/-! ## 3. typed tables -/

/-- the result of one rule over the frame that a reader builds from the typed rows `tt` -/
def typedOn (k : PreKind) (env : Env) (rules : List Rule) (r : Rule) (key : Str × Str) (tt : TTable) : Except MatErr (List Str) :=
  ruleOn k env rules r key (coerceTable tt)

/-- the same with every cell rendered on its own (no column coerced) -/
def aloneOn (k : PreKind) (env : Env) (rules : List Rule) (r : Rule) (key : Str × Str) (tt : TTable) : Except MatErr (List Str) :=
  ruleOn k env rules r key (aloneTable tt)

/-- **typed tables, full strength: only the set of rows matters** — permutations and duplications of typed rows never change the result, coercion included
    (the dtype of a column is a function of the set of its cells) -/
theorem C11_typed_set_ext (k : PreKind) (env : Env) (rules : List Rule) (r : Rule) (hJ : r.objectMapType ≠ .parentTM) (key : Str × Str) {t t' : TTable}
    (hs : ∀ ρ, ρ ∈ t ↔ ρ ∈ t') : SetEq (typedOn k env rules r key t) (typedOn k env rules r key t') := by
  have hR := (C11_rule_rowwise k env rules r key (not_selfJoin_of_joinFree hJ)).comap (coerceRow t)
  have := hR.setExt hs
  unfold typedOn coerceTable
  rw [← coerceRow_congr hs]
  exact this

theorem C11_typed_perm (k : PreKind) (env : Env) (rules : List Rule) (r : Rule) (hJ : r.objectMapType ≠ .parentTM) (key : Str × Str) {t t' : TTable}
    (hp : t.Perm t') : SetEq (typedOn k env rules r key t) (typedOn k env rules r key t') :=
  C11_typed_set_ext k env rules r hJ key fun _ => hp.mem_iff

theorem C11_typed_dup (k : PreKind) (env : Env) (rules : List Rule) (r : Rule) (hJ : r.objectMapType ≠ .parentTM) (key : Str × Str) (t d : TTable)
    (hd : ∀ ρ ∈ d, ρ ∈ t) : SetEq (typedOn k env rules r key (t ++ d)) (typedOn k env rules r key t) :=
  C11_typed_set_ext k env rules r hJ key fun ρ => by
    rw [List.mem_append]
    exact ⟨fun h => h.elim id (hd ρ), .inl⟩

/-- outside the scope of C11_F1 the coerced frame gives what the rows rendered one by one give -/
theorem C11_typed_eq_alone (k : PreKind) (env : Env) (rules : List Rule) (r : Rule) (hJ : r.objectMapType ≠ .parentTM) (key : Str × Str) (tt : TTable)
    (hK : scope_C11_F1 k (refsOfRule r) tt = false) : typedOn k env rules r key tt = aloneOn k env rules r key tt :=
  evalRuleG_congr_table k env rules r hJ key _ _ (preprocessG_congrK k env.na (refsOfRule r) (coerce_rel_alone k (refsOfRule r) tt hK))

/-- rows rendered one by one: row-wise at full strength -/
theorem C11_alone_rowwise (k : PreKind) (env : Env) (rules : List Rule) (r : Rule) (hJ : r.objectMapType ≠ .parentTM) (key : Str × Str) :
    RowWise (aloneOn k env rules r key) :=
  (C11_rule_rowwise k env rules r key (not_selfJoin_of_joinFree hJ)).comap aloneRow

/-- **typed tables, union over a split, outside C11_F1**: if in none of the three tables a referenced column is coerced to float64 while holding an integer
    (or a rendered `None`), the union law holds.  The hypotheses are exactly `¬ scope_C11_F1` of `t₁`, `t₂` and `t₁ ++ t₂` (the scope is not inherited by
    sub-tables: `C11_F1_scope_not_hereditary`). -/
theorem C11_typed_partial (k : PreKind) (env : Env) (rules : List Rule) (r : Rule) (hJ : r.objectMapType ≠ .parentTM) (key : Str × Str) (t₁ t₂ : TTable)
    (h₁ : scope_C11_F1 k (refsOfRule r) t₁ = false) (h₂ : scope_C11_F1 k (refsOfRule r) t₂ = false)
    (h₁₂ : scope_C11_F1 k (refsOfRule r) (t₁ ++ t₂) = false) :
    SetEq (typedOn k env rules r key (t₁ ++ t₂)) (unionE (typedOn k env rules r key t₁) (typedOn k env rules r key t₂)) := by
  rw [C11_typed_eq_alone k env rules r hJ key _ h₁, C11_typed_eq_alone k env rules r hJ key _ h₂, C11_typed_eq_alone k env rules r hJ key _ h₁₂]
  exact (C11_alone_rowwise k env rules r hJ key).union t₁ t₂

/-- **a typed value renders within the table as it renders alone, outside C11_F1** (the table and the single rows out of scope; a single row is in scope only
    through its own cells) -/
theorem C11_typed_row_alone_partial (k : PreKind) (env : Env) (rules : List Rule) (r : Rule) (hJ : r.objectMapType ≠ .parentTM) (key : Str × Str) (tt : TTable)
    (hK : scope_C11_F1 k (refsOfRule r) tt = false) (hK1 : ∀ ρ ∈ tt, scope_C11_F1 k (refsOfRule r) [ρ] = false)
    (lines : List Str) (ht : typedOn k env rules r key tt = .ok lines) :
    ∀ l, l ∈ lines ↔ (∃ l0, typedOn k env rules r key [] = .ok l0 ∧ l ∈ l0) ∨ ∃ ρ ∈ tt, ∃ lρ, typedOn k env rules r key [ρ] = .ok lρ ∧ l ∈ lρ := by
  rw [C11_typed_eq_alone k env rules r hJ key _ hK] at ht
  have h := ((C11_alone_rowwise k env rules r hJ key).alone tt lines ht).2.2
  intro l
  rw [h l]
  have e0 : typedOn k env rules r key [] = aloneOn k env rules r key [] := rfl
  constructor
  · rintro (a | ⟨ρ, hρ, lρ, e, hl⟩)
    · exact .inl (e0 ▸ a)
    · exact .inr ⟨ρ, hρ, lρ, by rw [C11_typed_eq_alone k env rules r hJ key _ (hK1 ρ hρ)]; exact e, hl⟩
  · rintro (a | ⟨ρ, hρ, lρ, e, hl⟩)
    · exact .inl (e0 ▸ a)
    · exact .inr ⟨ρ, hρ, lρ, by rw [← C11_typed_eq_alone k env rules r hJ key _ (hK1 ρ hρ)]; exact e, hl⟩

/-- **text sources** (CSV / TSV / Excel / ODS as read today: `dtype=str`, no NA detection): no column is typed, so the union law holds at full strength.
    The hypothesis is the generated reader shape. -/
theorem C11_text_union (sh : TextReadShape) (hsh : sh.dtypeStr = true ∧ sh.naFilter = false) (k : PreKind) (env : Env) (rules : List Rule) (r : Rule)
    (hJ : r.objectMapType ≠ .parentTM) (key : Str × Str) (t₁ t₂ : TTable) :
    SetEq (ruleOn k env rules r key (textDeliverT sh (t₁ ++ t₂)))
      (unionE (ruleOn k env rules r key (textDeliverT sh t₁)) (ruleOn k env rules r key (textDeliverT sh t₂))) := by
  have e : ∀ tt, textDeliverT sh tt = aloneTable tt := fun tt => by simp [textDeliverT, hsh.1, hsh.2]
  rw [e, e, e]
  exact (C11_alone_rowwise k env rules r hJ key).union t₁ t₂

theorem C11_csv_union (k : PreKind) (env : Env) (rules : List Rule) (r : Rule) (hJ : r.objectMapType ≠ .parentTM) (key : Str × Str) (t₁ t₂ : TTable) :
    SetEq (ruleOn k env rules r key (textDeliverT Gen.csvReadShape (t₁ ++ t₂)))
      (unionE (ruleOn k env rules r key (textDeliverT Gen.csvReadShape t₁)) (ruleOn k env rules r key (textDeliverT Gen.csvReadShape t₂))) :=
  C11_text_union Gen.csvReadShape (by decide) k env rules r hJ key t₁ t₂

/-! ### a caller's DataFrame, sliced by rows -/

/-- the quote-stripping step of `get_ram_data` has one of the two recognised shapes -/
theorem C11_gen_frame_strip : Gen.frameStripDtype = .applyInfers ∨ Gen.frameStripDtype = .keepsObject := by decide

/-- the result over a (sub-)frame with the caller's dtypes -/
def frameOn (fs : FrameStrip) (dtypes : List (Str × Dtype)) (k : PreKind) (env : Env) (rules : List Rule) (r : Rule) (key : Str × Str) (tt : TTable) :
    Except MatErr (List Str) :=
  ruleOn k env rules r key (frameDeliverT fs dtypes (refsOfRule r) tt)

/-- every row rendered from the row and the caller's dtypes alone: row-wise at full strength -/
theorem C11_frame_alone_rowwise (dtypes : List (Str × Dtype)) (k : PreKind) (env : Env) (rules : List Rule) (r : Rule)
    (hJ : r.objectMapType ≠ .parentTM) (key : Str × Str) :
    RowWise (fun tt : TTable => ruleOn k env rules r key (tt.map (frameAloneRow dtypes (refsOfRule r)))) :=
  (C11_rule_rowwise k env rules r key (not_selfJoin_of_joinFree hJ)).comap _

/-- outside the scope of C11_F2 the frame gives what its rows and the caller's dtypes determine one by one -/
theorem C11_frame_eq_alone (fs : FrameStrip) (dtypes : List (Str × Dtype)) (k : PreKind) (env : Env) (rules : List Rule) (r : Rule)
    (hJ : r.objectMapType ≠ .parentTM) (key : Str × Str) (tt : TTable) (hK : scope_C11_F2 k fs dtypes (refsOfRule r) tt = false) :
    frameOn fs dtypes k env rules r key tt = ruleOn k env rules r key (tt.map (frameAloneRow dtypes (refsOfRule r))) :=
  evalRuleG_congr_table k env rules r hJ key _ _ (preprocessG_congrK k env.na (refsOfRule r) (frame_rel_alone k fs dtypes (refsOfRule r) tt hK))

/-- **DataFrames, union over a split, outside C11_F2**: the dtypes travel with the frame; only an `object` column that the quote-stripping `Series.apply`
    re-infers as float64 can change a rendering -/
theorem C11_frame_partial (fs : FrameStrip) (dtypes : List (Str × Dtype)) (k : PreKind) (env : Env) (rules : List Rule) (r : Rule)
    (hJ : r.objectMapType ≠ .parentTM) (key : Str × Str) (t₁ t₂ : TTable)
    (h₁ : scope_C11_F2 k fs dtypes (refsOfRule r) t₁ = false) (h₂ : scope_C11_F2 k fs dtypes (refsOfRule r) t₂ = false)
    (h₁₂ : scope_C11_F2 k fs dtypes (refsOfRule r) (t₁ ++ t₂) = false) :
    SetEq (frameOn fs dtypes k env rules r key (t₁ ++ t₂)) (unionE (frameOn fs dtypes k env rules r key t₁) (frameOn fs dtypes k env rules r key t₂)) := by
  rw [C11_frame_eq_alone fs dtypes k env rules r hJ key _ h₁, C11_frame_eq_alone fs dtypes k env rules r hJ key _ h₂,
    C11_frame_eq_alone fs dtypes k env rules r hJ key _ h₁₂]
  exact (C11_frame_alone_rowwise dtypes k env rules r hJ key).union t₁ t₂

theorem scope_C11_F2_keepsObject (k : PreKind) (dtypes : List (Str × Dtype)) (refs : List Str) (tt : TTable) :
    scope_C11_F2 k .keepsObject dtypes refs tt = false := by
  simp [scope_C11_F2]

/-- **DataFrames, full strength, for the repaired quote stripping** (`Gen.frameStripDtype = .keepsObject`: the object columns stay columns of Python objects).
    Vacuous while `C11_F2_frame_object_column` holds for the generated shape. -/
theorem C11_frame_union (h : Gen.frameStripDtype = .keepsObject) (dtypes : List (Str × Dtype)) (k : PreKind) (env : Env) (rules : List Rule) (r : Rule)
    (hJ : r.objectMapType ≠ .parentTM) (key : Str × Str) (t₁ t₂ : TTable) :
    SetEq (frameOn Gen.frameStripDtype dtypes k env rules r key (t₁ ++ t₂))
      (unionE (frameOn Gen.frameStripDtype dtypes k env rules r key t₁) (frameOn Gen.frameStripDtype dtypes k env rules r key t₂)) := by
  rw [h]
  exact C11_frame_partial .keepsObject dtypes k env rules r hJ key t₁ t₂ (scope_C11_F2_keepsObject _ _ _ _) (scope_C11_F2_keepsObject _ _ _ _)
    (scope_C11_F2_keepsObject _ _ _ _)

/-- **DataFrames whose referenced columns are typed** (int64 / float64 / bool): full strength under either shape -/
theorem C11_frame_typed_union (fs : FrameStrip) (dtypes : List (Str × Dtype)) (k : PreKind) (env : Env) (rules : List Rule) (r : Rule)
    (hJ : r.objectMapType ≠ .parentTM) (key : Str × Str) (hT : ∀ c ∈ refsOfRule r, (lookup c dtypes).getD .object ≠ .object) (t₁ t₂ : TTable) :
    SetEq (frameOn fs dtypes k env rules r key (t₁ ++ t₂)) (unionE (frameOn fs dtypes k env rules r key t₁) (frameOn fs dtypes k env rules r key t₂)) := by
  have hs : ∀ tt, scope_C11_F2 k fs dtypes (refsOfRule r) tt = false := by
    intro tt
    simp only [scope_C11_F2, Bool.and_eq_false_iff, List.any_eq_false]
    refine .inr fun c hc => ?_
    have := hT c hc
    cases hd : (lookup c dtypes).getD .object <;> simp_all
  exact C11_frame_partial fs dtypes k env rules r hJ key t₁ t₂ (hs _) (hs _) (hs _)

/-- what `rr:tableName` hands to the dtype decision: the referenced columns of the rows without NULL in them -/
def sqlTablePre (refs : List Str) (tt : TTable) : TTable :=
  (tt.filter fun ρ => (dedupFirst refs).all fun c => match lookup c ρ with | some .none => false | some _ => true | none => false).map fun ρ =>
    (dedupFirst refs).filterMap fun c => (lookup c ρ).map fun v => (c, v)

theorem sqlTableDeliverT_eq (refs : List Str) (tt : TTable) : sqlTableDeliverT refs tt = coerceTable (sqlTablePre refs tt) := rfl

/-- **`rr:tableName`, outside C11_F1**: the NULL rows are removed by the generated query before the frame exists, so only the surviving rows count for the scope -/
theorem C11_sql_table_partial (k : PreKind) (env : Env) (rules : List Rule) (r : Rule) (hJ : r.objectMapType ≠ .parentTM) (key : Str × Str) (refs : List Str)
    (t₁ t₂ : TTable)
    (h₁ : scope_C11_F1 k (refsOfRule r) (sqlTablePre refs t₁) = false) (h₂ : scope_C11_F1 k (refsOfRule r) (sqlTablePre refs t₂) = false)
    (h₁₂ : scope_C11_F1 k (refsOfRule r) (sqlTablePre refs (t₁ ++ t₂)) = false) :
    SetEq (ruleOn k env rules r key (sqlTableDeliverT refs (t₁ ++ t₂)))
      (unionE (ruleOn k env rules r key (sqlTableDeliverT refs t₁)) (ruleOn k env rules r key (sqlTableDeliverT refs t₂))) := by
  have e : sqlTablePre refs (t₁ ++ t₂) = sqlTablePre refs t₁ ++ sqlTablePre refs t₂ := by simp [sqlTablePre]
  rw [sqlTableDeliverT_eq, sqlTableDeliverT_eq, sqlTableDeliverT_eq, e]
  rw [e] at h₁₂
  exact C11_typed_partial k env rules r hJ key _ _ h₁ h₂ h₁₂

/-! ### counter-witnesses (finding C11_F1) -/

namespace W
def key : Str × Str := ("DS".toList, "select id, n from t".toList)
def rule : Rule :=
  { sourceName := "DS".toList, tmId := "T".toList, sourceType := .rdb, logicalSourceType := some .query,
    logicalSourceValue := "select id, n from t".toList,
    subjectMapType := .template, subjectMapValue := "http://e/{id}".toList, subjectTermtype := .iri,
    predicateMapType := .constant, predicateMapValue := "http://e/p".toList,
    objectMapType := .reference, objectMapValue := "n".toList, objectTermtype := .literal,
    graphMapType := .constant, graphMapValue := "http://w3id.org/rml/defaultGraph".toList }
def env : Env := { na := defaultNa }
/-- row 1: `n = 10` (INTEGER) -/
def d1 : TTable := [[("id".toList, .str "1".toList), ("n".toList, .int 10)]]
/-- row 2: `n IS NULL` -/
def d2 : TTable := [[("id".toList, .str "2".toList), ("n".toList, .none)]]
/-- row 3: `n = 2.5` -/
def d3 : TTable := [[("id".toList, .str "3".toList), ("n".toList, .float "2.5".toList)]]
def line10 : Str := "<http://e/1> <http://e/p> \"10\"".toList
def line10f : Str := "<http://e/1> <http://e/p> \"10.0\"".toList
def line25 : Str := "<http://e/3> <http://e/p> \"2.5\"".toList
end W

example : W.rule.objectMapType ≠ .parentTM := by decide
example : refsOfRule W.rule = ["id".toList, "n".toList] := by decide

/-- **C11_F1** on the model (`rr:sqlQuery`): `n = 10` is rendered `"10"` when its row is alone and `"10.0"` as soon as another row has `n IS NULL` —
    under both statement orders of `_preprocess_data` -/
theorem C11_F1_null_sibling (k : PreKind) :
    typedOn k W.env [W.rule] W.rule W.key W.d1 = .ok [W.line10] ∧
    typedOn k W.env [W.rule] W.rule W.key (W.d1 ++ W.d2) = .ok [W.line10f] := by
  cases k <;> exact ⟨by decide +kernel, by decide +kernel⟩

/-- the same through a fractional sibling, also with `rr:tableName` (the NULL filter of the generated query does not help) -/
theorem C11_F1_fractional_sibling (k : PreKind) :
    ruleOn k W.env [W.rule] W.rule W.key (sqlTableDeliverT ["id".toList, "n".toList] W.d1) = .ok [W.line10] ∧
    ruleOn k W.env [W.rule] W.rule W.key (sqlTableDeliverT ["id".toList, "n".toList] (W.d1 ++ W.d3)) = .ok [W.line10f, W.line25] := by
  cases k <;> exact ⟨by decide +kernel, by decide +kernel⟩

/-- the union law fails on the typed model: `"10.0"` is in the result over the whole table and in neither part's result -/
theorem C11_F1_union_fails (k : PreKind) :
    ¬ SetEq (typedOn k W.env [W.rule] W.rule W.key (W.d1 ++ W.d2))
      (unionE (typedOn k W.env [W.rule] W.rule W.key W.d1) (typedOn k W.env [W.rule] W.rule W.key W.d2)) := by
  intro h
  have e12 := (C11_F1_null_sibling k).2
  have e1 := (C11_F1_null_sibling k).1
  rw [e12, e1] at h
  cases k with
  | strThenNa =>
    have e2 : typedOn .strThenNa W.env [W.rule] W.rule W.key W.d2 = .ok ["<http://e/2> <http://e/p> \"None\"".toList] := by decide +kernel
    rw [e2] at h
    have := (h W.line10f).mp (by simp)
    revert this
    decide
  | keepNullThenNa =>
    have e2 : typedOn .keepNullThenNa W.env [W.rule] W.rule W.key W.d2 = .ok [] := by decide +kernel
    rw [e2] at h
    have := (h W.line10f).mp (by simp)
    revert this
    decide

/-- the witness lies in the scope of C11_F1 only through the whole table -/
theorem C11_F1_in_scope (k : PreKind) :
    scope_C11_F1 k (refsOfRule W.rule) (W.d1 ++ W.d2) = true ∧ scope_C11_F1 k (refsOfRule W.rule) W.d1 = false ∧
    scope_C11_F1 k (refsOfRule W.rule) (W.d1 ++ W.d3) = true := by
  cases k <;> decide

/-- the scope is not inherited by sub-tables: `[10, 'x', None]` is an `object` column (every cell rendered as it is), its part `[10, None]` is coerced -/
theorem C11_F1_scope_not_hereditary (k : PreKind) :
    unstableCol k [.int 10, .str "x".toList, .none] = false ∧ unstableCol k [.int 10, .none] = true := by
  cases k <;> decide

/-- JSON: a record that lacks the key makes pandas write `nan`, which coerces the integers of the other records (file and in-memory readers alike) -/
theorem C11_F1_json_absent_key :
    jsonFlatDeliverT Gen.jsonFileShape ["id".toList, "n".toList]
      [[("id".toList, .str "1".toList), ("n".toList, .int 10)], [("id".toList, .str "2".toList)]] =
      [[("id".toList, .str "1".toList), ("n".toList, .str "10.0".toList)]] ∧
    jsonFlatDeliverT Gen.jsonFileShape ["id".toList, "n".toList] [[("id".toList, .str "1".toList), ("n".toList, .int 10)]] =
      [[("id".toList, .str "1".toList), ("n".toList, .str "10".toList)]] := by
  decide

/-! ### counter-witness (finding C11_F2): an `object` column of a DataFrame is re-inferred by the quote stripping -/

namespace WF
def key : Str × Str := ("DS".toList, "{src}".toList)
def rule : Rule := { W.rule with sourceType := .memory, logicalSourceType := some .source, logicalSourceValue := "{src}".toList }
def dtypes : List (Str × Dtype) := [("id".toList, .object), ("n".toList, .object)]
/-- the caller's frame holds the Python objects `7`, `None`, `'x'` in the object column `n` -/
def r1 : TTable := [[("id".toList, .str "1".toList), ("n".toList, .int 7)]]
def r2 : TTable := [[("id".toList, .str "2".toList), ("n".toList, .none)]]
def r3 : TTable := [[("id".toList, .str "3".toList), ("n".toList, .str "x".toList)]]
def line7 : Str := "<http://e/1> <http://e/p> \"7\"".toList
def line7f : Str := "<http://e/1> <http://e/p> \"7.0\"".toList
def linex : Str := "<http://e/3> <http://e/p> \"x\"".toList
/-- under the statement order that stringifies NULL objects (C06_F1) the `None` of an object column is rendered -/
def noneLine : PreKind → List Str
  | .strThenNa => ["<http://e/2> <http://e/p> \"None\"".toList]
  | .keepNullThenNa => []
end WF

/-- **C11_F2** on the model of the unchanged code (`Series.apply`): the integer `7` of an object column is rendered `"7"` in the whole frame (a string
    keeps the column `object`), `"7"` alone, and `"7.0"` in the sub-frame of rows 1 and 2 — whose column is still of dtype object for the caller -/
theorem C11_F2_frame_object_column (k : PreKind) :
    frameOn .applyInfers WF.dtypes k W.env [WF.rule] WF.rule WF.key (WF.r1 ++ WF.r2 ++ WF.r3) = .ok ([WF.line7] ++ WF.noneLine k ++ [WF.linex]) ∧
    frameOn .applyInfers WF.dtypes k W.env [WF.rule] WF.rule WF.key WF.r1 = .ok [WF.line7] ∧
    frameOn .applyInfers WF.dtypes k W.env [WF.rule] WF.rule WF.key (WF.r1 ++ WF.r2) = .ok [WF.line7f] := by
  cases k <;> exact ⟨by decide +kernel, by decide +kernel, by decide +kernel⟩

/-- the same input under the repaired shape: the integer stays an integer -/
theorem C11_F2_fixed_behaviour (k : PreKind) :
    frameOn .keepsObject WF.dtypes k W.env [WF.rule] WF.rule WF.key (WF.r1 ++ WF.r2) = .ok ([WF.line7] ++ WF.noneLine k) := by
  cases k <;> decide +kernel

/-- the witness is inside the scope of C11_F2 only through the sub-frame -/
theorem C11_F2_in_scope (k : PreKind) :
    scope_C11_F2 k .applyInfers WF.dtypes (refsOfRule WF.rule) (WF.r1 ++ WF.r2) = true ∧
    scope_C11_F2 k .applyInfers WF.dtypes (refsOfRule WF.rule) (WF.r1 ++ WF.r2 ++ WF.r3) = false ∧
    scope_C11_F2 k .applyInfers WF.dtypes (refsOfRule WF.rule) WF.r1 = false := by
  cases k <;> decide

/-- outside the scope: integers next to a string, booleans with a NULL, floats with a NULL keep their rendering -/
example (k : PreKind) : scope_C11_F1 k ["n".toList]
    [[("n".toList, .int 10)], [("n".toList, .str "x".toList)], [("n".toList, .none)]] = false := by cases k <;> decide
example : scope_C11_F1 .keepNullThenNa ["n".toList] [[("n".toList, .float "1.5".toList)], [("n".toList, .none)]] = false := by decide
example : coerceColumn [.bool true, .none] = [.str "True".toList, .null "None".toList] := by decide
example : coerceColumn [.int 10, .float "2.5".toList] = [.str "10.0".toList, .str "2.5".toList] := by decide

end Props.C11
