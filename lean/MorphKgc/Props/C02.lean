/-
C02 — Mapping partitioning never changes the result.

`Model.evalGrouped` is `materialize_set` as it runs (group by `mapping_partition`, one set per group, union);
`Model.evalAll` is the union over the asserted rules.  The label never enters `Model.evalRule`, so *every*
labelling gives the same outcome (`C02_any_labelling`); what the partitioners must add is that they label every
rule, with a non-null label, without raising (`C02_partitioners_total`) — which the unchanged code does *not*
guarantee for a template without reference (`C02_F1_template_without_reference`).
-/
import MorphKgc.Model.Eval
import MorphKgc.Model.Partition
import MorphKgc.Lemmas.Grouping
import MorphKgc.Lemmas.Str
import MorphKgc.Lemmas.Partition

namespace Props.C02
open Py Model

/-! ### A1: rule evaluation never reads the label -/

/-- the rule with another `mapping_partition` -/
def relabel (r : Rule) (l : Str) : Rule := { r with partition := l }

theorem withLabels_nil_left (ls : List Str) : withLabels [] ls = [] := by simp [withLabels]

theorem withLabels_cons (r : Rule) (rules : List Rule) (l : Str) (ls : List Str) :
    withLabels (r :: rules) (l :: ls) = relabel r l :: withLabels rules ls := by
  simp [withLabels, relabel]

/-- the parent lookup goes by `triples_map_id`: it finds the same rule, relabelled -/
theorem findRule_withLabels (rules : List Rule) (ls : List Str) (hl : ls.length = rules.length) (tm : Str) :
    (findRule rules tm = none ∧ findRule (withLabels rules ls) tm = none) ∨
    (∃ p l, findRule rules tm = some p ∧ findRule (withLabels rules ls) tm = some (relabel p l)) := by
  induction rules generalizing ls with
  | nil => left; simp [findRule, withLabels]
  | cons r rules ih =>
    match ls, hl with
    | l :: ls, hl =>
      rw [withLabels_cons]
      by_cases hr : r.tmId = tm
      · right
        refine ⟨r, l, ?_, ?_⟩
        · simp [findRule, hr]
        · simp [findRule, relabel, hr]
      · have hl' : ls.length = rules.length := by simpa using hl
        have h1 : findRule (r :: rules) tm = findRule rules tm := by
          simp [findRule, hr]
        have h2 : findRule (relabel r l :: withLabels rules ls) tm = findRule (withLabels rules ls) tm := by
          simp [findRule, relabel, hr]
        rw [h1, h2]
        exact ih ls hl'

theorem rowTriple_relabel (env : Env) (r : Rule) (l : Str) (k : MapType) (v a : Str) (ρ : SRow) :
    rowTriple env (relabel r l) k v a ρ = rowTriple env r k v a ρ := rfl

/-- **A1.** `_materialize_rml_rule` gives the same list of statements whatever labels the rules carry. -/
theorem evalRule_relabel (env : Env) (rules : List Rule) (ls : List Str) (hl : ls.length = rules.length)
    (r : Rule) (l : Str) :
    evalRule env (withLabels rules ls) (relabel r l) = evalRule env rules r := by
  unfold evalRule
  have hc : isAllConstant (relabel r l) = isAllConstant r := rfl
  have hm : (relabel r l).objectMapType = r.objectMapType := rfl
  have hv : (relabel r l).objectMapValue = r.objectMapValue := rfl
  have hj : (relabel r l).objectJoin = r.objectJoin := rfl
  have hrefs : refsOfRule (relabel r l) = refsOfRule r := rfl
  have ht : env.table (relabel r l) = env.table r := rfl
  have hrt : rowTriple env (relabel r l) = rowTriple env r := rfl
  simp only [hc, hm, hv, hj, hrefs, ht, hrt]
  split
  · rfl
  · split
    · rcases findRule_withLabels rules ls hl r.objectMapValue with ⟨h1, h2⟩ | ⟨p, l', h1, h2⟩
      · rw [h1, h2]
      · rw [h1, h2]
        rfl
    · rfl

/-! ### A2: the grouped run and the plain union -/

/-- two outcomes are the same: both raise, or both succeed with the same members -/
def SameOutcome : Except MatErr (List Str) → Except MatErr (List Str) → Prop
  | .ok a, .ok b => ∀ x, x ∈ a ↔ x ∈ b
  | .error _, .error _ => True
  | _, _ => False

theorem SameOutcome.refl (a : Except MatErr (List Str)) : SameOutcome a a := by
  cases a <;> simp [SameOutcome]

theorem SameOutcome.symm {a b : Except MatErr (List Str)} (h : SameOutcome a b) : SameOutcome b a := by
  cases a <;> cases b <;> simp_all [SameOutcome]

theorem SameOutcome.trans {a b c : Except MatErr (List Str)} (h : SameOutcome a b) (h' : SameOutcome b c) :
    SameOutcome a c := by
  cases a <;> cases b <;> cases c <;> simp_all [SameOutcome]

/-- every asserted rule evaluates -/
def AllOk (env : Env) (rules : List Rule) : Prop :=
  ∀ r ∈ rules.filter (·.asserted), ∃ out, evalRule env rules r = .ok out

/-- some asserted rule raises -/
def SomeError (env : Env) (rules : List Rule) : Prop :=
  ∃ r ∈ rules.filter (·.asserted), ∃ e, evalRule env rules r = .error e

/-- `x` is produced by some asserted rule -/
def Produced (env : Env) (rules : List Rule) (x : Str) : Prop :=
  ∃ r ∈ rules.filter (·.asserted), ∃ out, evalRule env rules r = .ok out ∧ x ∈ out

theorem allOk_or_someError (env : Env) (rules : List Rule) : AllOk env rules ∨ SomeError env rules :=
  forall_ok_or_exists_error _ _

theorem mem_okVal_iff {f : Rule → Except MatErr (List Str)} {r : Rule} {x : Str} (h : ∃ out, f r = .ok out) :
    x ∈ okVal (f r) ↔ ∃ out, f r = .ok out ∧ x ∈ out := by
  obtain ⟨out, ho⟩ := h
  simp [ho, okVal]

theorem evalAll_ok (env : Env) (rules : List Rule) (h : AllOk env rules) :
    ∃ a, evalAll env rules = .ok a ∧ ∀ x, x ∈ a ↔ Produced env rules x := by
  unfold evalAll
  rw [mapM_ok_of_forall _ _ h]
  refine ⟨_, rfl, ?_⟩
  intro x
  rw [mem_dedupFirst]
  simp only [List.mem_flatten, List.mem_map]
  constructor
  · rintro ⟨_, ⟨r, hr, rfl⟩, hx⟩
    exact ⟨r, hr, (mem_okVal_iff (h r hr)).mp hx⟩
  · rintro ⟨r, hr, hx⟩
    exact ⟨_, ⟨r, hr, rfl⟩, (mem_okVal_iff (h r hr)).mpr hx⟩

theorem evalAll_error (env : Env) (rules : List Rule) (h : SomeError env rules) :
    ∃ e, evalAll env rules = .error e := by
  unfold evalAll
  obtain ⟨e, he⟩ := mapM_error_of_exists _ _ h
  exact ⟨e, by rw [he]; rfl⟩

/-- one group of the grouped run -/
def evalGroup (env : Env) (rules : List Rule) (l : Str) : Except MatErr (List Str) := do
  let parts ← ((rules.filter (·.asserted)).filter (·.partition = l)).mapM (evalRule env rules)
  pure (dedupFirst parts.flatten)

theorem evalGrouped_eq (env : Env) (rules : List Rule) :
    evalGrouped env rules = (do
      let groups ← (dedupFirst ((rules.filter (·.asserted)).map (·.partition))).mapM (evalGroup env rules)
      pure (dedupFirst groups.flatten)) := rfl

theorem evalGroup_ok (env : Env) (rules : List Rule) (h : AllOk env rules) (l : Str) :
    ∃ g, evalGroup env rules l = .ok g ∧
      ∀ x, x ∈ g ↔ ∃ r ∈ rules.filter (·.asserted), r.partition = l ∧ ∃ out, evalRule env rules r = .ok out ∧ x ∈ out := by
  unfold evalGroup
  have h' : ∀ r ∈ (rules.filter (·.asserted)).filter (·.partition = l), ∃ out, evalRule env rules r = .ok out :=
    fun r hr => h r (List.mem_filter.mp hr).1
  rw [mapM_ok_of_forall _ _ h']
  refine ⟨_, rfl, ?_⟩
  intro x
  rw [mem_dedupFirst]
  simp only [List.mem_flatten, List.mem_map]
  constructor
  · rintro ⟨_, ⟨r, hr, rfl⟩, hx⟩
    have hr' := List.mem_filter.mp hr
    exact ⟨r, hr'.1, by simpa using hr'.2, (mem_okVal_iff (h' r hr)).mp hx⟩
  · rintro ⟨r, hr, hl, hx⟩
    have hr' : r ∈ (rules.filter (·.asserted)).filter (·.partition = l) :=
      List.mem_filter.mpr ⟨hr, by simpa using hl⟩
    exact ⟨_, ⟨r, hr', rfl⟩, (mem_okVal_iff (h' r hr')).mpr hx⟩

theorem evalGrouped_ok (env : Env) (rules : List Rule) (h : AllOk env rules) :
    ∃ g, evalGrouped env rules = .ok g ∧ ∀ x, x ∈ g ↔ Produced env rules x := by
  rw [evalGrouped_eq]
  have hg : ∀ l ∈ dedupFirst ((rules.filter (·.asserted)).map (·.partition)), ∃ g, evalGroup env rules l = .ok g :=
    fun l _ => let ⟨g, hg, _⟩ := evalGroup_ok env rules h l; ⟨g, hg⟩
  rw [mapM_ok_of_forall _ _ hg]
  refine ⟨_, rfl, ?_⟩
  intro x
  rw [mem_dedupFirst]
  simp only [List.mem_flatten, List.mem_map]
  constructor
  · rintro ⟨_, ⟨l, _, rfl⟩, hx⟩
    obtain ⟨g, hgl, hmem⟩ := evalGroup_ok env rules h l
    rw [hgl] at hx
    obtain ⟨r, hr, _, hout⟩ := (hmem x).mp hx
    exact ⟨r, hr, hout⟩
  · rintro ⟨r, hr, hout⟩
    obtain ⟨g, hgl, hmem⟩ := evalGroup_ok env rules h r.partition
    refine ⟨_, ⟨r.partition, ?_, rfl⟩, ?_⟩
    · rw [mem_dedupFirst]; exact List.mem_map.mpr ⟨r, hr, rfl⟩
    · rw [hgl]; exact (hmem x).mpr ⟨r, hr, rfl, hout⟩

theorem evalGrouped_error (env : Env) (rules : List Rule) (h : SomeError env rules) :
    ∃ e, evalGrouped env rules = .error e := by
  rw [evalGrouped_eq]
  obtain ⟨r, hr, e, he⟩ := h
  have : ∃ l ∈ dedupFirst ((rules.filter (·.asserted)).map (·.partition)), ∃ e, evalGroup env rules l = .error e := by
    refine ⟨r.partition, ?_, ?_⟩
    · rw [mem_dedupFirst]; exact List.mem_map.mpr ⟨r, hr, rfl⟩
    · unfold evalGroup
      obtain ⟨e', he'⟩ := mapM_error_of_exists (evalRule env rules)
        ((rules.filter (·.asserted)).filter (·.partition = r.partition))
        ⟨r, List.mem_filter.mpr ⟨hr, by simp⟩, e, he⟩
      exact ⟨e', by rw [he']; rfl⟩
  obtain ⟨e', he'⟩ := mapM_error_of_exists _ _ this
  exact ⟨e', by rw [he']; rfl⟩

/-- **A2 (i).** If every asserted rule evaluates, the union over rules and the group-by-group run both succeed
    and have the same members. -/
theorem grouped_eq_all (env : Env) (rules : List Rule)
    (h : ∀ r ∈ rules.filter (·.asserted), ∃ out, evalRule env rules r = .ok out) :
    ∃ a g, evalAll env rules = .ok a ∧ evalGrouped env rules = .ok g ∧ ∀ x, x ∈ g ↔ x ∈ a := by
  obtain ⟨a, ha, hma⟩ := evalAll_ok env rules h
  obtain ⟨g, hg, hmg⟩ := evalGrouped_ok env rules h
  exact ⟨a, g, ha, hg, fun x => (hmg x).trans (hma x).symm⟩

/-- **A2 (ii).** If some asserted rule raises, both runs raise: no statement is lost to an exception in one mode only. -/
theorem grouped_error_iff_all_error (env : Env) (rules : List Rule)
    (h : ∃ r ∈ rules.filter (·.asserted), ∃ e, evalRule env rules r = .error e) :
    (∃ e, evalAll env rules = .error e) ∧ (∃ e, evalGrouped env rules = .error e) :=
  ⟨evalAll_error env rules h, evalGrouped_error env rules h⟩

theorem grouped_sameOutcome_all (env : Env) (rules : List Rule) :
    SameOutcome (evalGrouped env rules) (evalAll env rules) := by
  rcases allOk_or_someError env rules with h | h
  · obtain ⟨a, g, ha, hg, hm⟩ := grouped_eq_all env rules h
    rw [ha, hg]; exact hm
  · obtain ⟨⟨e, he⟩, ⟨e', he'⟩⟩ := grouped_error_iff_all_error env rules h
    rw [he, he']; trivial

/-! ### A3: any two labellings -/

theorem mem_withLabels (rules : List Rule) (ls : List Str) (_hl : ls.length = rules.length) (r' : Rule) :
    r' ∈ withLabels rules ls → ∃ r ∈ rules, ∃ l, r' = relabel r l := by
  intro h
  simp only [withLabels, List.mem_map] at h
  obtain ⟨p, hp, rfl⟩ := h
  exact ⟨p.1, (List.of_mem_zip hp).1, p.2, rfl⟩

theorem exists_mem_withLabels (rules : List Rule) (ls : List Str) (hl : ls.length = rules.length) (r : Rule)
    (hr : r ∈ rules) : ∃ l, relabel r l ∈ withLabels rules ls := by
  induction rules generalizing ls with
  | nil => cases hr
  | cons q rules ih =>
    match ls, hl with
    | l :: ls, hl =>
      rw [withLabels_cons]
      rcases List.mem_cons.mp hr with rfl | hr
      · exact ⟨l, by simp⟩
      · obtain ⟨l', hl'⟩ := ih ls (by simpa using hl) hr
        exact ⟨l', List.mem_cons_of_mem _ hl'⟩

theorem allOk_withLabels (env : Env) (rules : List Rule) (ls : List Str) (hl : ls.length = rules.length) :
    AllOk env (withLabels rules ls) ↔ AllOk env rules := by
  constructor
  · intro h r hr
    have hr' := List.mem_filter.mp hr
    obtain ⟨l, hmem⟩ := exists_mem_withLabels rules ls hl r hr'.1
    have := h (relabel r l) (List.mem_filter.mpr ⟨hmem, hr'.2⟩)
    rwa [evalRule_relabel env rules ls hl] at this
  · intro h r' hr'
    have hr'' := List.mem_filter.mp hr'
    obtain ⟨r, hr, l, rfl⟩ := mem_withLabels rules ls hl r' hr''.1
    rw [evalRule_relabel env rules ls hl]
    exact h r (List.mem_filter.mpr ⟨hr, hr''.2⟩)

theorem someError_withLabels (env : Env) (rules : List Rule) (ls : List Str) (hl : ls.length = rules.length) :
    SomeError env (withLabels rules ls) ↔ SomeError env rules := by
  constructor
  · rintro ⟨r', hr', e, he⟩
    have hr'' := List.mem_filter.mp hr'
    obtain ⟨r, hr, l, rfl⟩ := mem_withLabels rules ls hl r' hr''.1
    rw [evalRule_relabel env rules ls hl] at he
    exact ⟨r, List.mem_filter.mpr ⟨hr, hr''.2⟩, e, he⟩
  · rintro ⟨r, hr, e, he⟩
    have hr' := List.mem_filter.mp hr
    obtain ⟨l, hmem⟩ := exists_mem_withLabels rules ls hl r hr'.1
    exact ⟨relabel r l, List.mem_filter.mpr ⟨hmem, hr'.2⟩, e, by rw [evalRule_relabel env rules ls hl]; exact he⟩

theorem produced_withLabels (env : Env) (rules : List Rule) (ls : List Str) (hl : ls.length = rules.length) (x : Str) :
    Produced env (withLabels rules ls) x ↔ Produced env rules x := by
  constructor
  · rintro ⟨r', hr', out, ho, hx⟩
    have hr'' := List.mem_filter.mp hr'
    obtain ⟨r, hr, l, rfl⟩ := mem_withLabels rules ls hl r' hr''.1
    rw [evalRule_relabel env rules ls hl] at ho
    exact ⟨r, List.mem_filter.mpr ⟨hr, hr''.2⟩, out, ho, hx⟩
  · rintro ⟨r, hr, out, ho, hx⟩
    have hr' := List.mem_filter.mp hr
    obtain ⟨l, hmem⟩ := exists_mem_withLabels rules ls hl r hr'.1
    exact ⟨relabel r l, List.mem_filter.mpr ⟨hmem, hr'.2⟩, out,
      by rw [evalRule_relabel env rules ls hl]; exact ho, hx⟩

/-- the grouped run under any labelling has the outcome of the plain union over the unlabelled rules -/
theorem grouped_withLabels_sameOutcome_all (env : Env) (rules : List Rule) (ls : List Str)
    (hl : ls.length = rules.length) :
    SameOutcome (evalGrouped env (withLabels rules ls)) (evalAll env rules) := by
  rcases allOk_or_someError env rules with h | h
  · obtain ⟨a, ha, hma⟩ := evalAll_ok env rules h
    obtain ⟨g, hg, hmg⟩ := evalGrouped_ok env _ ((allOk_withLabels env rules ls hl).mpr h)
    rw [ha, hg]
    exact fun x => ((hmg x).trans (produced_withLabels env rules ls hl x)).trans (hma x).symm
  · obtain ⟨e, he⟩ := evalAll_error env rules h
    obtain ⟨e', he'⟩ := evalGrouped_error env _ ((someError_withLabels env rules ls hl).mpr h)
    rw [he, he']; trivial

/-- **A3.** For any two labellings of the rules the two grouped runs raise together or succeed together, and when
    they succeed they have the same members. -/
theorem C02_any_labelling (env : Env) (rules : List Rule) (ls ls' : List Str)
    (hl : ls.length = rules.length) (hl' : ls'.length = rules.length) :
    SameOutcome (evalGrouped env (withLabels rules ls)) (evalGrouped env (withLabels rules ls')) :=
  (grouped_withLabels_sameOutcome_all env rules ls hl).trans
    (grouped_withLabels_sameOutcome_all env rules ls' hl').symm

/-- the same, spelt out -/
theorem C02_any_labelling' (env : Env) (rules : List Rule) (ls ls' : List Str)
    (hl : ls.length = rules.length) (hl' : ls'.length = rules.length) :
    ((∃ e, evalGrouped env (withLabels rules ls) = .error e) ↔ (∃ e, evalGrouped env (withLabels rules ls') = .error e)) ∧
    (∀ g g', evalGrouped env (withLabels rules ls) = .ok g → evalGrouped env (withLabels rules ls') = .ok g' →
      ∀ x, x ∈ g ↔ x ∈ g') := by
  have h := C02_any_labelling env rules ls ls' hl hl'
  cases h1 : evalGrouped env (withLabels rules ls) <;> cases h2 : evalGrouped env (withLabels rules ls') <;>
    simp_all [SameOutcome]

/-! ### A4: what the partitioners must add -/

/-- the partitioner's test for "the template has a reference": a `{` is left after `\{` has been masked -/
def hasUnescapedBrace (t : Str) : Bool := isInfix ['{'] (replace t ['\\', '{'] auxString)

theorem getInvariant_isSome (t : Str) : (getInvariantOfTemplate t).isSome = hasUnescapedBrace t := by
  unfold getInvariantOfTemplate hasUnescapedBrace
  dsimp only
  split <;> simp_all

/-! an independent reading of the same test, and its equivalence with the code's masking idiom -/

/-- an independent reading of "the template contains an unescaped `{`": left to right, `\{` is skipped as a unit -/
def hasRefScan : Str → Bool
  | [] => false
  | [c] => c = '{'
  | c :: d :: s =>
    if c = '{' then true else if c = '\\' ∧ d = '{' then hasRefScan s else hasRefScan (d :: s)

def maskScan : Str → Str
  | [] => []
  | [c] => [c]
  | c :: d :: s => if c = '\\' ∧ d = '{' then auxString ++ maskScan s else c :: maskScan (d :: s)

theorem maskScan_cons_of_ne (c : Char) (s : Str) (h : ¬ (c = '\\' ∧ s.head? = some '{')) :
    maskScan (c :: s) = c :: maskScan s := by
  cases s with
  | nil => simp [maskScan]
  | cons d s' =>
    have : ¬ (c = '\\' ∧ d = '{') := by simpa using h
    simp [maskScan, this]

theorem breakOn_mask (s : Str) :
    match breakOn ['\\', '{'] s with
    | none => maskScan s = s
    | some (a, b) => maskScan s = a ++ auxString ++ maskScan b := by
  induction s with
  | nil => simp [breakOn, maskScan]
  | cons c s ih =>
    by_cases h : c = '\\' ∧ s.head? = some '{'
    · obtain ⟨rfl, hs⟩ := h
      cases s with
      | nil => simp at hs
      | cons d s' =>
        simp only [List.head?_cons, Option.some.injEq] at hs
        subst hs
        simp [breakOn, maskScan]
    · have hnp : List.isPrefixOf ['\\', '{'] (c :: s) = false := by
        cases s with
        | nil => simp [List.isPrefixOf]
        | cons d s' =>
          simp only [List.head?_cons, Option.some.injEq, not_and] at h
          by_cases hc : c = '\\'
          · have hd : ¬ d = '{' := h hc
            have hd' : ('{' == d) = false := by simpa using fun e => hd e.symm
            simp [List.isPrefixOf, hd']
          · have hc' : ('\\' == c) = false := by simpa using fun e => hc e.symm
            simp [List.isPrefixOf, hc']
      rw [maskScan_cons_of_ne c s h]
      unfold breakOn
      simp only [hnp, Bool.false_eq_true, ↓reduceIte]
      cases hb : breakOn ['\\', '{'] s with
      | none => simp only [hb] at ih ⊢; rw [ih]
      | some p =>
        obtain ⟨a, b⟩ := p
        simp only [hb] at ih ⊢
        rw [ih]; simp

theorem replaceFuel_mask (n : Nat) (s : Str) (h : s.length ≤ n) : replaceFuel ['\\', '{'] auxString n s = maskScan s := by
  induction n generalizing s with
  | zero =>
    have : s = [] := List.length_eq_zero_iff.mp (by omega)
    subst this; rfl
  | succ n ih =>
    unfold replaceFuel
    have hm := breakOn_mask s
    cases hb : breakOn ['\\', '{'] s with
    | none => simp only [hb] at hm ⊢; exact hm.symm
    | some p =>
      obtain ⟨a, b⟩ := p
      simp only [hb] at hm ⊢
      have := breakOn_length_lt (by simp) hb
      rw [ih b (by omega), hm]

theorem isInfix_single (c : Char) (s : Str) : isInfix [c] s = decide (c ∈ s) := by
  unfold isInfix
  cases hb : breakOn [c] s with
  | none => simp [breakOn_single_none hb]
  | some p =>
    obtain ⟨a, b⟩ := p
    have := breakOn_eq_some hb
    simp [this]

theorem mem_maskScan (s : Str) : '{' ∈ maskScan s ↔ hasRefScan s = true := by
  fun_induction maskScan s with
  | case1 => simp [hasRefScan]
  | case2 c => simp [hasRefScan, eq_comm]
  | case3 c d s h ih =>
    have : '{' ∉ auxString := by decide
    obtain ⟨rfl, rfl⟩ := h
    simp [hasRefScan, this, ih]
  | case4 c d s h ih =>
    unfold hasRefScan
    by_cases hb : c = '{'
    · simp [hb]
    · simp only [hb, h, ↓reduceIte, List.mem_cons, ih]
      constructor
      · rintro (h' | h')
        · exact absurd h'.symm hb
        · exact h'
      · exact Or.inr

/-- the partitioner's masking test is the left-to-right scan: "some `{` is not the second character of a `\\{`" -/
theorem hasUnescapedBrace_eq_scan (t : Str) : hasUnescapedBrace t = hasRefScan t := by
  unfold hasUnescapedBrace replace
  rw [replaceFuel_mask t.length t (Nat.le_refl _), isInfix_single]
  rw [Bool.eq_iff_iff, decide_eq_true_eq]
  exact mem_maskScan t

example : hasRefScan "http://ex/\\{x\\}/{id}".toList = true ∧ hasRefScan "http://ex/\\{x\\}".toList = false ∧
    hasRefScan "http://ex/const".toList = false ∧ hasRefScan "a\\\\{b".toList = false := by decide

/-- a term map has an invariant: it is no template, or its template has an unescaped `{` -/
def mapHasRef (mt : MapType) (v : Str) : Bool := mt != .template || hasUnescapedBrace v

theorem invOf_isOk_iff (mt : MapType) (v : Str) : (∃ i, invOf mt v = .ok i) ↔ mapHasRef mt v = true := by
  unfold invOf mapHasRef
  rw [← getInvariant_isSome]
  cases mt <;> simp
  cases getInvariantOfTemplate v <;> simp

/-- every `.parentTM` object names an existing rule -/
def ParentExists (rules : List Rule) (r : Rule) : Bool :=
  r.objectMapType != .parentTM || (rules.find? (fun q => q.tmId = r.objectMapValue)).isSome

/-- every template-valued subject/predicate/object/graph map, and the subject map of the join parent, contains an
    unescaped `{` -/
def TemplatesHaveRef (rules : List Rule) (r : Rule) : Bool :=
  mapHasRef r.subjectMapType r.subjectMapValue && mapHasRef r.predicateMapType r.predicateMapValue &&
  (match r.objectMapType with
    | .parentTM => match rules.find? (fun q => q.tmId = r.objectMapValue) with
      | some parent => mapHasRef parent.subjectMapType parent.subjectMapValue
      | none => true
    | mt => mapHasRef mt r.objectMapValue) &&
  mapHasRef r.graphMapType r.graphMapValue

theorem objInv_isOk_iff (rules : List Rule) (r : Rule) :
    (∃ i, objInv rules r = .ok i) ↔
      (match r.objectMapType with
        | .parentTM => match rules.find? (fun q => q.tmId = r.objectMapValue) with
          | some parent => mapHasRef parent.subjectMapType parent.subjectMapValue
          | none => true
        | mt => mapHasRef mt r.objectMapValue) = true ∧ ParentExists rules r = true := by
  unfold objInv ParentExists
  cases hm : r.objectMapType
  case parentTM =>
    cases hf : List.find? (fun q => decide (q.tmId = r.objectMapValue)) rules
    · simp
    · simp [invOf_isOk_iff]
  all_goals simp [invOf_isOk_iff]

theorem invRow_isOk_iff (rules : List Rule) (i : Nat) (r : Rule) :
    (∃ pr, invRow rules (i, r) = .ok pr) ↔ (TemplatesHaveRef rules r = true ∧ ParentExists rules r = true) := by
  have h1 := invOf_isOk_iff r.subjectMapType r.subjectMapValue
  have h2 := invOf_isOk_iff r.predicateMapType r.predicateMapValue
  have h3 := objInv_isOk_iff rules r
  have h4 := invOf_isOk_iff r.graphMapType r.graphMapValue
  unfold TemplatesHaveRef
  simp only [Bool.and_eq_true]
  constructor
  · rintro ⟨pr, hpr⟩
    obtain ⟨s, p, o, g, hs, hp, ho, hg, _⟩ := (invRow_ok_iff rules (i, r) pr).mp hpr
    have := h3.mp ⟨o, ho⟩
    exact ⟨⟨⟨⟨h1.mp ⟨s, hs⟩, h2.mp ⟨p, hp⟩⟩, this.1⟩, h4.mp ⟨g, hg⟩⟩, this.2⟩
  · rintro ⟨⟨⟨⟨a, b⟩, c⟩, d⟩, e⟩
    obtain ⟨s, hs⟩ := h1.mpr a
    obtain ⟨p, hp⟩ := h2.mpr b
    obtain ⟨o, ho⟩ := h3.mpr ⟨c, e⟩
    obtain ⟨g, hg⟩ := h4.mpr d
    exact ⟨_, (invRow_ok_iff rules (i, r) _).mpr ⟨s, p, o, g, hs, hp, ho, hg, rfl⟩⟩

/-- `_get_term_invariants` returns iff every template has a reference and every join parent exists -/
theorem termInvariants_isOk_iff_wf (rules : List Rule) :
    (∃ rs, termInvariants rules = .ok rs) ↔
      ∀ r ∈ rules, TemplatesHaveRef rules r = true ∧ ParentExists rules r = true := by
  rw [termInvariants_isOk_iff]
  constructor
  · intro h r hr; exact (invRow_isOk_iff rules 0 r).mp (h r hr 0)
  · intro h r hr i; exact (invRow_isOk_iff rules i r).mpr (h r hr)

theorem partitionLabels_none (rules : List Rule) :
    partitionLabels .none rules = .ok (rules.map fun _ => "0-0-0-0".toList) := rfl

theorem partitionLabels_partial (rules : List Rule) :
    partitionLabels .partialAggregations rules =
      (termInvariants rules).map fun rs => (List.range rules.length).map (componentOf (partialAggregations rs)) := by
  unfold partitionLabels
  cases termInvariants rules <;> rfl

theorem partitionLabels_maximal (rules : List Rule) :
    partitionLabels .maximal rules =
      (termInvariants rules).map fun rs => (List.range rules.length).map (componentOf (maximal rs)) := by
  unfold partitionLabels
  cases termInvariants rules <;> rfl

/-- a label list has one label per rule -/
theorem partitionLabels_length (mode : PartMode) (rules : List Rule) (ls : List Str)
    (h : partitionLabels mode rules = .ok ls) : ls.length = rules.length := by
  cases mode with
  | none => rw [partitionLabels_none] at h; cases h; simp
  | partialAggregations =>
    rw [partitionLabels_partial] at h
    cases ht : termInvariants rules <;> simp [ht, Except.map] at h
    subst h; simp
  | maximal =>
    rw [partitionLabels_maximal] at h
    cases ht : termInvariants rules <;> simp [ht, Except.map] at h
    subst h; simp

/-- the two partitioning algorithms return iff `_get_term_invariants` does -/
theorem partitionLabels_isOk_iff (mode : PartMode) (hm : mode ≠ .none) (rules : List Rule) :
    (∃ ls, partitionLabels mode rules = .ok ls) ↔ (∃ rs, termInvariants rules = .ok rs) := by
  cases mode with
  | none => exact absurd rfl hm
  | partialAggregations =>
    rw [partitionLabels_partial]
    cases termInvariants rules <;> simp [Except.map]
  | maximal =>
    rw [partitionLabels_maximal]
    cases termInvariants rules <;> simp [Except.map]

theorem partialAggregations_spec (rs : List PRule) :
    (partialAggregations rs).map (·.1) = rs.map (·.idx) ∧ ∀ p ∈ partialAggregations rs, 3 ≤ p.2.length := by
  unfold partialAggregations
  dsimp only
  constructor
  · rw [List.map_map]; rfl
  · intro p hp
    obtain ⟨r, _, rfl⟩ := List.mem_map.mp hp
    simp only [List.length_append, List.length_cons, List.length_nil]; omega

/-- every label is a non-empty string (pandas `groupby` drops null keys; an empty label would also be the
    "row not found" value of the model's lookup) -/
theorem partitionLabels_nonempty (mode : PartMode) (rules : List Rule) (ls : List Str)
    (h : partitionLabels mode rules = .ok ls) : ∀ l ∈ ls, l ≠ [] := by
  have key : ∀ (rs : List PRule) (comps : List (Nat × Str)), termInvariants rules = .ok rs →
      (comps.map (·.1)).Perm (rs.map (·.idx)) → (∀ p ∈ comps, 3 ≤ p.2.length) →
      ∀ l ∈ (List.range rules.length).map (componentOf comps), l ≠ [] := by
    intro rs comps ht hperm hlen l hl
    obtain ⟨i, hi, rfl⟩ := List.mem_map.mp hl
    have hidx := (termInvariants_ok rules rs ht).1
    have : i ∈ comps.map (·.1) := by rw [hperm.mem_iff, hidx]; exact hi
    obtain ⟨p, hp, hpi⟩ := List.mem_map.mp this
    obtain ⟨q, hq, _, hc⟩ := componentOf_of_mem ⟨p, hp, hpi⟩
    rw [hc]
    have := hlen q hq
    intro hnil; rw [hnil] at this; simp at this
  cases mode with
  | none =>
    rw [partitionLabels_none] at h; cases h
    intro l hl
    obtain ⟨_, _, rfl⟩ := List.mem_map.mp hl
    decide
  | partialAggregations =>
    rw [partitionLabels_partial] at h
    cases ht : termInvariants rules with
    | error e => simp [ht, Except.map] at h
    | ok rs =>
      simp only [ht, Except.map, Except.ok.injEq] at h
      subst h
      have := partialAggregations_spec rs
      exact key rs _ ht (by rw [this.1]) this.2
  | maximal =>
    rw [partitionLabels_maximal] at h
    cases ht : termInvariants rules with
    | error e => simp [ht, Except.map] at h
    | ok rs =>
      simp only [ht, Except.map, Except.ok.injEq] at h
      subst h
      have := maximal_spec rs
      exact key rs _ ht this.1 this.2

/-- **A4.** With partitioning disabled labelling always succeeds; PARTIAL-AGGREGATIONS and MAXIMAL succeed iff every
    template has a reference and every join parent exists; whenever a mode succeeds it yields one non-empty label
    per rule. -/
theorem C02_partitioners_total (rules : List Rule) :
    (∃ ls, partitionLabels .none rules = .ok ls) ∧
    (∀ mode, mode ≠ .none →
      ((∃ ls, partitionLabels mode rules = .ok ls) ↔
        ∀ r ∈ rules, TemplatesHaveRef rules r = true ∧ ParentExists rules r = true)) ∧
    (∀ mode ls, partitionLabels mode rules = .ok ls → ls.length = rules.length ∧ ∀ l ∈ ls, l ≠ []) :=
  ⟨⟨_, partitionLabels_none rules⟩,
   fun mode hm => (partitionLabels_isOk_iff mode hm rules).trans (termInvariants_isOk_iff_wf rules),
   fun mode ls h => ⟨partitionLabels_length mode rules ls h, partitionLabels_nonempty mode rules ls h⟩⟩

/-! ### A5: the three modes -/

/-- **C02.** For a mapping whose templates all have a reference and whose join parents exist, every mode labels the
    rules, and for any two modes the grouped runs have the same outcome: they raise together, or return the same set
    of statements. `env` is arbitrary: every data, every configuration, both output formats. -/
theorem C02 (env : Env) (rules : List Rule)
    (hwf : ∀ r ∈ rules, TemplatesHaveRef rules r = true ∧ ParentExists rules r = true) (m m' : PartMode) :
    ∃ ls ls', partitionLabels m rules = .ok ls ∧ partitionLabels m' rules = .ok ls' ∧
      SameOutcome (evalGrouped env (withLabels rules ls)) (evalGrouped env (withLabels rules ls')) := by
  have hex : ∀ m, ∃ ls, partitionLabels m rules = .ok ls := by
    intro m
    by_cases hm : m = .none
    · subst hm; exact (C02_partitioners_total rules).1
    · exact ((C02_partitioners_total rules).2.1 m hm).mpr hwf
  obtain ⟨ls, hls⟩ := hex m
  obtain ⟨ls', hls'⟩ := hex m'
  exact ⟨ls, ls', hls, hls', C02_any_labelling env rules ls ls'
    (partitionLabels_length m rules ls hls) (partitionLabels_length m' rules ls' hls')⟩

/-- both output formats, spelt out -/
theorem C02_both_formats (env : Env) (rules : List Rule)
    (hwf : ∀ r ∈ rules, TemplatesHaveRef rules r = true ∧ ParentExists rules r = true) (m m' : PartMode) (fmt : OutFmt) :
    ∃ ls ls', partitionLabels m rules = .ok ls ∧ partitionLabels m' rules = .ok ls' ∧
      SameOutcome (evalGrouped { env with fmt := fmt } (withLabels rules ls))
        (evalGrouped { env with fmt := fmt } (withLabels rules ls')) :=
  C02 { env with fmt := fmt } rules hwf m m'

/-- … and each of them is the plain union over the rules -/
theorem C02_eq_union (env : Env) (rules : List Rule) (m : PartMode) (ls : List Str)
    (h : partitionLabels m rules = .ok ls) :
    SameOutcome (evalGrouped env (withLabels rules ls)) (evalAll env rules) :=
  grouped_withLabels_sameOutcome_all env rules ls (partitionLabels_length m rules ls h)

/-! ### A6: what is not true of the unchanged code -/

/-- one rule whose subject template has no reference -/
def f1Rules : List Rule :=
  [{ tmId := "#TM".toList, subjectMapType := .template, subjectMapValue := "http://ex/const".toList,
     predicateMapValue := "http://ex/p".toList, objectMapValue := "http://ex/o".toList,
     graphMapValue := "http://w3id.org/rml/defaultGraph".toList }]

/-- **C02_F1.** With partitioning disabled the rule is labelled; PARTIAL-AGGREGATIONS (and MAXIMAL) abort the run with
    `Invalid template`. -/
theorem C02_F1_template_without_reference :
    partitionLabels .none f1Rules = .ok ["0-0-0-0".toList] ∧
    partitionLabels .partialAggregations f1Rules = .error (.invalidTemplate "http://ex/const".toList) ∧
    partitionLabels .maximal f1Rules = .error (.invalidTemplate "http://ex/const".toList) := by
  decide +kernel

/-- … while the statement exists: over a one-row source the unpartitioned run returns it -/
theorem C02_F1_result_exists :
    evalGrouped { tables := [(([], []), [[]])] } (withLabels f1Rules ["0-0-0-0".toList]) = .ok ["<http://ex/const> <http://ex/p> <http://ex/o>".toList] := by
  decide +kernel

/-- the witness is exactly outside the hypothesis of `C02` -/
example : TemplatesHaveRef f1Rules f1Rules.head! = false := by decide +kernel

/-! ### non-vacuity -/

/-- a small mapping inside the hypotheses: a template subject, a constant and a template object, a join -/
def exRules : List Rule :=
  [{ tmId := "#A".toList, subjectMapValue := "http://ex/a/{id}".toList, predicateMapValue := "http://ex/p".toList,
     objectMapType := .reference, objectMapValue := "name".toList, objectTermtype := .literal,
     graphMapValue := "http://w3id.org/rml/defaultGraph".toList, logicalSourceValue := "t".toList },
   { tmId := "#B".toList, subjectMapValue := "http://ex/b/{id}".toList, predicateMapValue := "http://ex/q".toList,
     objectMapType := .parentTM, objectMapValue := "#A".toList, objectJoin := [("id".toList, "id".toList)],
     graphMapValue := "http://ex/G".toList, logicalSourceValue := "t".toList }]

def exEnv : Env :=
  { fmt := .nquads, tables := [(([], "t".toList), [[("id".toList, .str "1".toList), ("name".toList, .str "n".toList)]])] }

example : ∀ r ∈ exRules, TemplatesHaveRef exRules r = true ∧ ParentExists exRules r = true := by decide +kernel

/-- the two algorithms split the two rules into two groups; the disabled mode keeps one -/
example : partitionLabels .partialAggregations exRules = .ok ["1-1-2-2".toList, "2-2-1-1".toList] := by decide +kernel
example : partitionLabels .maximal exRules = .ok ["1-1-1-1".toList, "2-1-1-1".toList] := by decide +kernel

/-- all asserted rules evaluate (hypothesis of `grouped_eq_all`), and the result has two statements -/
example : ∀ r ∈ exRules.filter (·.asserted), ∃ out, evalRule exEnv exRules r = .ok out := by
  intro r hr
  have : (evalRule exEnv exRules r).isOk = true := by
    revert r; decide +kernel
  cases h : evalRule exEnv exRules r with
  | ok out => exact ⟨out, rfl⟩
  | error e => simp [h, Except.isOk, Except.toBool] at this

example : evalGrouped exEnv (withLabels exRules ["1-1-2-2".toList, "2-2-1-1".toList]) =
    .ok ["<http://ex/a/1> <http://ex/p> \"n\" ".toList, "<http://ex/b/1> <http://ex/q> <http://ex/a/1> <http://ex/G>".toList] := by
  decide +kernel

/-- the error branch of A2 is inhabited too: a missing column raises in both runs -/
example : ∃ r ∈ exRules.filter (·.asserted), ∃ e, evalRule { exEnv with tables := [(([], "t".toList), [[]])] } exRules r = .error e :=
  ⟨exRules.head!, by decide, .keyError "id".toList, by decide +kernel⟩

end Props.C02
