/-
C02 — Mapping partitioning never changes the result.
(The general theorems — label independence of the grouped evaluation, totality of the partitioners — are in
preparation in a separate file set; this file holds what is already checked.)
-/
import MorphKgc.Model.Partition
import MorphKgc.Model.Eval

namespace Props.C02
open Py Model

/-- with partitioning disabled every rule table is labelled -/
theorem C02_none_total (rules : List Rule) :
    ∃ ls, partitionLabels .none rules = .ok ls ∧ ls.length = rules.length ∧ ∀ l ∈ ls, l ≠ [] := by
  refine ⟨rules.map fun _ => "0-0-0-0".toList, rfl, by simp, ?_⟩
  intro l hl
  simp only [List.mem_map] at hl
  obtain ⟨_, _, rfl⟩ := hl
  decide

def witnessRule : Rule :=
  { tmId := "#TM0".toList, subjectMapType := .template, subjectMapValue := "http://ex/const".toList,
    predicateMapValue := "http://ex/p".toList, objectMapValue := "http://ex/o".toList,
    graphMapValue := "http://w3id.org/rml/defaultGraph".toList }

/-- C02_F1: a template without any reference is materialized with partitioning disabled (one-row table) but makes
    both partitioning algorithms raise `Invalid template` -/
theorem C02_F1_template_without_reference :
    partitionLabels .none [witnessRule] = .ok ["0-0-0-0".toList] ∧
    partitionLabels .partialAggregations [witnessRule] = .error (.invalidTemplate "http://ex/const".toList) ∧
    partitionLabels .maximal [witnessRule] = .error (.invalidTemplate "http://ex/const".toList) ∧
    evalRule { tables := [(([], []), [[]])] } [witnessRule] witnessRule = .ok ["<http://ex/const> <http://ex/p> <http://ex/o>".toList] := by
  decide +kernel

end Props.C02
