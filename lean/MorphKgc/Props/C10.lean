/-
C10 — The same table gives the same statements whatever the source format.

Structure
  1. the generated facts (`Gen/Source.lean`, `Gen/Null.lean`) the proofs rest on, as decidable side conditions: keyword arguments of every
     `pandas` reader call, separator choice, dispatch chain, extension table, call order `file_path` -> source type, statement order of
     `_preprocess_data`;
  2. the round trips that are pure string logic, for ALL inputs: CSV/TSV text (RFC 4180 renderer vs the contract of pandas' C tokenizer),
     JSON string content, XML character data and attribute values, SQL string literals and delimited identifiers;
  3. the reader theorem: for every table of strings with NULLs and every modelled source kind, `_preprocess_data` of what the reader
     delivers for the payload = `_preprocess_data` of the table itself; hence any two kinds agree, and so do the rules evaluated over them.
     `_partial` where a finding's scope is excluded (C10_F1 DataFrame deletes `"`, C10_F2 ODS `#N/A`); the NULL convention of each format
     (empty CSV field / empty or absent XML element with '' in na_values, JSON null, SQL NULL, None in frames / lists) is part of the statement;
  4. counter-witnesses of the findings (C10_F1, C10_F2, C10_F3 one-column CSV record of blanks);
  5. which reader a source gets: `_complete_source_types` on the generated decision chain (extension table, `db_url`, `rml:query`, `{…}`),
     the two ways of naming a file;
  6. SQL dialect quoting of the generated SELECT.
-/
import MorphKgc.Lemmas.SourceHier
import MorphKgc.Lemmas.EscapeRoundTrip
import MorphKgc.Props.C06

namespace Props.C10
open Py Model Spec.Payload Lemmas.Read

/-! ## 1. generated facts -/

/-- the first `pd.read_table` call of `_read_csv` is the one `Csv.parse` is the contract of (C engine, `sep=delimiter`, `dtype=str`,
    `na_filter=False`, `keep_default_na=False`, `index_col=False`, `usecols=references`, no further keyword argument), and the fallback
    call differs only in `sep=None, engine='python'` -/
theorem C10_gen_csv_call :
    Gen.csvCall.contractual = true ∧ Gen.csvFallbackCall.dtypeStr = true ∧ Gen.csvFallbackCall.naFilter = false ∧
    Gen.csvFallbackCall.keepDefaultNa = false ∧ Gen.csvFallbackCall.otherKw = [] ∧
    (Gen.csvShape.naFilter && Gen.csvShape.keepDefaultNa) = false := by decide

/-- `.csv` is read with `,` and `.tsv` with TAB, both separators the round-trip theorem covers -/
theorem C10_gen_delimiter :
    csvSepFor Gen.csvDelimiter "CSV".toList = [','] ∧ csvSepFor Gen.csvDelimiter "TSV".toList = ['\t'] ∧
    Lemmas.Csv.SepOk ',' ∧ Lemmas.Csv.SepOk '\t' := by
  refine ⟨by decide, by decide, ?_, ?_⟩ <;> exact ⟨by decide, by decide, by decide⟩

/-- every file source type has a reader (no `ValueError`), and it is the reader of its format; an `rml:query` goes to the duckdb view first -/
theorem C10_gen_dispatch :
    (Gen.fileSourceTypes.all fun t => (fileReaderFor Gen.fileDispatch false t).isSome) = true ∧
    fileReaderFor Gen.fileDispatch false "CSV".toList = some .csv ∧ fileReaderFor Gen.fileDispatch false "TSV".toList = some .csv ∧
    fileReaderFor Gen.fileDispatch false "JSON".toList = some .json ∧ fileReaderFor Gen.fileDispatch false "XML".toList = some .xml ∧
    fileReaderFor Gen.fileDispatch false "XLSX".toList = some .excel ∧ fileReaderFor Gen.fileDispatch false "ODS".toList = some .ods ∧
    fileReaderFor Gen.fileDispatch false "PARQUET".toList = some .parquet ∧ fileReaderFor Gen.fileDispatch false "FEATHER".toList = some .feather ∧
    fileReaderFor Gen.fileDispatch false "ORC".toList = some .orc ∧ fileReaderFor Gen.fileDispatch false "DTA".toList = some .stata ∧
    (∀ t, fileReaderFor Gen.fileDispatch true t = some .view) := by
  refine ⟨by decide, by decide, by decide, by decide, by decide, by decide, by decide, by decide, by decide, by decide, by decide, fun t => ?_⟩
  rfl

/-- Excel and ODS are read as strings without NA filtering, first sheet, referenced columns only -/
theorem C10_gen_excel :
    Gen.excelCall = { engine := "openpyxl".toList, sheetFirst := true, usecolsRefs := true, dtypeStr := true, keepDefaultNa := false,
                      naFilter := false, otherKw := [] } ∧
    Gen.odsCall = { Gen.excelCall with engine := "odf".toList } := by decide

/-- the columnar readers ask for the referenced columns and pass no converting argument; Stata conversions are all switched off -/
theorem C10_gen_columnar :
    Gen.parquetCall.columnsRefs = true ∧ Gen.featherCall.columnsRefs = true ∧ Gen.orcCall.columnsRefs = true ∧ Gen.stataCall.columnsRefs = true ∧
    Gen.orcCall.kws = [] ∧ Gen.stataCall.kws.all (fun kv => kv.2 = "False".toList) = true := by decide

/-- `file_path` of the configuration replaces `rml:source` BEFORE the source type is derived from the extension -/
theorem C10_gen_order :
    Gen.preprocessMappingSteps.idxOf "_complete_rml_source_with_config_file_paths".toList <
      Gen.preprocessMappingSteps.idxOf "_complete_source_types".toList ∧
    "_complete_source_types".toList ∈ Gen.preprocessMappingSteps := by decide

/-- the reader bodies and `_get_data` are the ones the models were written for; NULL objects are dropped by `_preprocess_data`, not
    stringified; the JSON readers drop on the references only (or not at all) -/
theorem C10_gen_shapes :
    Gen.sourceTranslated = true ∧ Gen.readerBodiesRecognised = true ∧ Gen.getDataDispatchRecognised = true ∧
    Gen.preprocessKind = .keepNullThenNa ∧ Gen.jsonFileShape.dropSubset = .references ∧ Gen.jsonMemShape.dropSubset = .noDrop := by decide

/-! ## 2. string-level round trips -/

/-- **CSV / TSV**: the tokenizer contract reads back exactly the records the RFC 4180 renderer wrote — quotes, separators, line breaks inside
    fields, leading / trailing blanks, empty fields, any Unicode string -/
theorem C10_csv_roundtrip {sep : Char} (hs : Lemmas.Csv.SepOk sep) (recs : List (List Str)) (hne : ∀ r ∈ recs, r ≠ []) :
    Csv.parse sep (renderCsvRecords sep recs) = some recs :=
  Lemmas.Csv.parse_render hs recs hne

/-- the same for a table: header and rows (a NULL is the empty field) -/
theorem C10_csv_table_roundtrip {sep : Char} (hs : Lemmas.Csv.SepOk sep) (T : StrTable) (hwf : T.WF) :
    Csv.parse sep (renderCsv sep T) = some T.records :=
  Lemmas.Csv.parse_render hs T.records (records_ne_nil T hwf)

example : renderCsv ',' ⟨["a".toList, "b".toList], [[some " x\"y".toList, none], [some "1,5".toList, some "l1\r\nl2".toList]]⟩ =
    "a,b\r\n\" x\"\"y\",\r\n\"1,5\",\"l1\r\nl2\"\r\n".toList := by decide

theorem C10_json_string_roundtrip (s : Str) : jsonUnescape (jsonEscape s) = some s := Lemmas.Escape.jsonUnescape_escape s
theorem C10_xml_text_roundtrip (s : Str) : xmlDecodeText (xmlEscapeText s) = some s := Lemmas.Escape.xmlDecode_escapeText s
theorem C10_xml_attr_roundtrip (s : Str) : xmlDecodeText (xmlEscapeAttr s) = some s := Lemmas.Escape.xmlDecode_escapeAttr s
theorem C10_sql_literal_roundtrip (s : Str) : sqlUnquote (sqlLiteral s) = some s := Lemmas.Escape.sqlUnquote_literal s
theorem C10_sql_ident_roundtrip (s : Str) : sqlUnquoteIdent (sqlIdent s) = some s := Lemmas.Escape.sqlUnquoteIdent_ident s

/-- without the escape of CR the XML parser would deliver LF: line-end normalisation is part of the contract -/
example : xmlDecodeText "a\r\nb\rc".toList = some "a\nb\nc".toList ∧ xmlDecodeText (xmlEscapeText "a\r\nb\rc".toList) = some "a\r\nb\rc".toList := by
  decide

/-! ## 3. the reader theorem -/

/-- scope of finding C10_F1: a DataFrame source and a referenced string cell that contains the deleted text -/
def scope_C10_F1 (k : Kind) (T : StrTable) (refs : List Str) : Prop := k = .frame ∧ ¬ NoStrip Gen.frameStrip refs (asCells T)

/-- scope of finding C10_F2: an ODS source and a referenced cell whose text is `#N/A` -/
def scope_C10_F2 (k : Kind) (T : StrTable) (refs : List Str) : Prop := k = .ods ∧ ¬ NoOdsNA refs (asCells T)

/-- formats that cannot tell the empty string from a NULL -/
def emptyIsNull : Kind → Bool
  | .csv | .tsv | .xml => true
  | _ => false

/-- reference names the hierarchical readers take for plain keys / element names: no `.` (JSON nesting) and no `@` (XML attribute) -/
def PlainRefs (refs : List Str) : Prop := ∀ c ∈ refs, '.' ∉ c ∧ '@' ∉ c

theorem ok_bind {α β ε} (x : α) (f : α → Except ε β) : (Except.ok x : Except ε α).bind f = f x := rfl

/-- **Reader theorem.** For every well-formed table of strings with NULLs, every list of references among its columns, every `na_values`,
    and every source kind: `_preprocess_data` (statement order as read from /repo) of what the reader delivers for the payload equals
    `_preprocess_data` of the table itself — outside the scopes of C10_F1 / C10_F2, and with `''` in `na_values` for the formats whose NULL
    is the empty field. -/
theorem C10_reader_partial (k : Kind) (T : StrTable) (hwf : T.WF) (refs : List Str) (hr : ∀ c ∈ refs, c ∈ T.cols) (hp : PlainRefs refs)
    (na : List Str) (he : emptyIsNull k = true → ([] : Str) ∈ na) (hF1 : ¬ scope_C10_F1 k T refs) (hF2 : ¬ scope_C10_F2 k T refs) :
    (deliver k T refs).bind (preprocessG Gen.preprocessKind na refs) = preprocessG Gen.preprocessKind na refs (asCells T) := by
  have hpk : Gen.preprocessKind = .keepNullThenNa := by decide
  have hn : NullsDropped Gen.preprocessKind na := hpk ▸ nullsDropped_keepNull na
  have hc := complete_asCells T hwf refs hr
  have hcsv : (Gen.csvShape.naFilter && Gen.csvShape.keepDefaultNa) = false := by decide
  cases k with
  | csv =>
    simp only [deliver, csvTable_eq Gen.csvShape hcsv C10_gen_delimiter.2.2.1 T hwf]
    exact preprocessG_sim (csvCells_sim hn (he rfl) refs T) hc
  | tsv =>
    simp only [deliver, csvTable_eq Gen.csvShape hcsv C10_gen_delimiter.2.2.2 T hwf]
    exact preprocessG_sim (csvCells_sim hn (he rfl) refs T) hc
  | jsonFile =>
    simp only [deliver, ok_bind]
    exact json_pre hn Gen.jsonFileShape (by decide) T hwf refs hr (fun c hc => (hp c hc).1)
  | jsonMem =>
    simp only [deliver, ok_bind]
    exact json_pre hn Gen.jsonMemShape (by decide) T hwf refs hr (fun c hc => (hp c hc).1)
  | xml =>
    simp only [deliver]
    exact xml_pre hn (he rfl) Gen.xmlShape (by decide) T hwf refs hr (fun c hc => (hp c hc).2)
  | sqlTable =>
    simp only [deliver, ok_bind]
    apply sqlTable_pre refs _ _ hc
    intro ρ _ c _ r _
    rw [hpk]; rfl
  | sqlQuery => rfl
  | frame =>
    simp only [deliver]
    apply frame_pre Gen.frameStrip refs _ hc
    exact Classical.byContradiction fun h => hF1 ⟨rfl, h⟩
  | pyList =>
    simp only [deliver, ok_bind]
    exact preprocessG_sim (listDeliver_sim refs T hwf hr) hc
  | typed =>
    simp only [deliver, typedDeliver]
    exact frame_pre [] refs _ hc (noStrip_nil refs _)
  | ods =>
    simp only [deliver]
    apply ods_pre refs _ hc
    exact Classical.byContradiction fun h => hF2 ⟨rfl, h⟩

/-- non-vacuity: a table with quotes, blanks, a NULL and numeric-looking strings satisfies the hypotheses for CSV with the default `na_values` -/
def W.T : StrTable :=
  ⟨["id".toList, "v".toList], [[some "1".toList, some " 007 ".toList], [some "2".toList, none], [some "3".toList, some "a,\"b\"\r\n".toList],
                               [some "4".toList, some "None".toList]]⟩

example : W.T.WF ∧ (∀ c ∈ ["id".toList, "v".toList], c ∈ W.T.cols) ∧ PlainRefs ["id".toList, "v".toList] ∧ ([] : Str) ∈ defaultNa ∧
    ¬ scope_C10_F1 .csv W.T ["id".toList, "v".toList] ∧ ¬ scope_C10_F2 .csv W.T ["id".toList, "v".toList] := by
  refine ⟨⟨by decide, by decide, by decide⟩, by decide, by unfold PlainRefs; decide, by decide, fun h => ?_, fun h => ?_⟩ <;> exact absurd h.1 (by decide)

/-- the JSON and XML readers on the payload of `W.T` (explicit `null`, absent element, empty element), computed: an instance of
    `C10_reader_partial`, and the rows themselves -/
theorem C10_reader_json_xml_instances :
    ([Kind.jsonFile, Kind.jsonMem, Kind.xml].all fun k =>
      (deliver k W.T ["id".toList, "v".toList]).bind (preprocessG Gen.preprocessKind defaultNa ["id".toList, "v".toList]) ==
        preprocessG Gen.preprocessKind defaultNa ["id".toList, "v".toList] (asCells W.T)) = true ∧
    preprocessG Gen.preprocessKind defaultNa ["id".toList, "v".toList] (asCells W.T) =
      .ok [[("id".toList, "1".toList), ("v".toList, " 007 ".toList)], [("id".toList, "3".toList), ("v".toList, "a,\"b\"\r\n".toList)],
           [("id".toList, "4".toList), ("v".toList, "None".toList)]] := by
  decide +kernel

/-- **Any two source kinds agree** (corollary) -/
theorem C10_kinds_agree_partial (k k' : Kind) (T : StrTable) (hwf : T.WF) (refs : List Str)
    (hr : ∀ c ∈ refs, c ∈ T.cols) (hp : PlainRefs refs) (na : List Str) (he : ([] : Str) ∈ na)
    (hF : ¬ scope_C10_F1 k T refs ∧ ¬ scope_C10_F2 k T refs ∧ ¬ scope_C10_F1 k' T refs ∧ ¬ scope_C10_F2 k' T refs) :
    (deliver k T refs).bind (preprocessG Gen.preprocessKind na refs) = (deliver k' T refs).bind (preprocessG Gen.preprocessKind na refs) := by
  rw [C10_reader_partial k T hwf refs hr hp na (fun _ => he) hF.1 hF.2.1,
      C10_reader_partial k' T hwf refs hr hp na (fun _ => he) hF.2.2.1 hF.2.2.2]

/-- **Rule level**: a rule without referencing object map evaluated over two tables that `_preprocess_data` cannot tell apart (on the
    rule's references) gives the same statements -/
theorem C10_rule_same (pk : PreKind) (env : Env) (rules : List Rule) (r : Rule) (hp : r.objectMapType ≠ .parentTM)
    (ts ts' : List ((Str × Str) × Table))
    (h : preprocessG pk env.na (refsOfRule r) (({ env with tables := ts } : Env).table r) =
         preprocessG pk env.na (refsOfRule r) (({ env with tables := ts' } : Env).table r)) :
    evalRuleG pk { env with tables := ts } rules r = evalRuleG pk { env with tables := ts' } rules r := by
  unfold evalRuleG
  cases hc : isAllConstant r with
  | true => simp only [↓reduceIte]; rfl
  | false =>
    simp only [Bool.false_eq_true, ↓reduceIte, hp]
    show (preprocessG pk env.na _ _ >>= _) = (preprocessG pk env.na _ _ >>= _)
    rw [h]
    rfl

/-- the statements of a rule over the CSV payload and over the list-of-dicts payload of the same table -/
example :
    let r : Rule := { Props.C06.W.rule with sourceType := .file, logicalSourceType := some .source, logicalSourceValue := "t".toList }
    let env : Env := { na := defaultNa }
    ([deliver .csv W.T (refsOfRule r), deliver .pyList W.T (refsOfRule r), deliver .sqlTable W.T (refsOfRule r), deliver .xml W.T (refsOfRule r),
      deliver .jsonFile W.T (refsOfRule r)].all fun t =>
      t.bind (fun tb => evalRuleG Gen.preprocessKind { env with tables := [(("DS".toList, "t".toList), tb)] } [r] r) ==
        .ok ["<http://e/1> <http://e/p> \" 007 \"".toList, "<http://e/3> <http://e/p> \"a,\"b\"\r\n\"".toList,
             "<http://e/4> <http://e/p> \"None\"".toList]) = true := by
  decide +kernel

/-! ## 4. counter-witnesses -/

/-- **C10_F1**: a DataFrame source loses every `"` of its string cells; the same table as CSV keeps them -/
theorem C10_F1_frame_deletes_quote (h : Gen.frameStrip = ['"']) :
    (deliver .frame ⟨["v".toList], [[some "a\"b".toList]]⟩ ["v".toList]).bind (preprocessG Gen.preprocessKind defaultNa ["v".toList]) =
      .ok [[("v".toList, "ab".toList)]] ∧
    (deliver .csv ⟨["v".toList], [[some "a\"b".toList]]⟩ ["v".toList]).bind (preprocessG Gen.preprocessKind defaultNa ["v".toList]) =
      .ok [[("v".toList, "a\"b".toList)]] := by
  simp only [deliver, h]
  decide +kernel

/-- with nothing deleted (fixes/C10_F1.diff: the loop removed, `Gen.frameStrip = []`) the DataFrame source is the identity on string
    cells and `scope_C10_F1` is empty: `C10_reader_partial` is then the full statement for DataFrames (vacuous on the unchanged tree) -/
theorem C10_F1_fixed_shape (h : Gen.frameStrip = []) (k : Kind) (T : StrTable) (refs : List Str) : ¬ scope_C10_F1 k T refs := by
  intro hs
  apply hs.2
  rw [h]
  exact noStrip_nil refs _

/-- **C10_F2**: pandas' ODF reader turns the text `#N/A` into NaN, so the row is dropped although the cell is a string -/
theorem C10_F2_ods_na_text :
    (deliver .ods ⟨["v".toList], [[some "#N/A".toList], [some "x".toList]]⟩ ["v".toList]).bind (preprocessG Gen.preprocessKind defaultNa ["v".toList]) =
      .ok [[("v".toList, "x".toList)]] ∧
    (deliver .typed ⟨["v".toList], [[some "#N/A".toList], [some "x".toList]]⟩ ["v".toList]).bind (preprocessG Gen.preprocessKind defaultNa ["v".toList]) =
      .ok [[("v".toList, "#N/A".toList)], [("v".toList, "x".toList)]] := by
  decide +kernel

/-- **C10_F3**: a one-column CSV file whose record is a single unquoted field of blanks (what an RFC 4180 writer that quotes minimally
    produces, e.g. Python's `csv` module) loses that record: the C tokenizer takes the line for a blank line (`skip_blank_lines`).
    The renderer of `Spec.Payload` quotes such a field, which is why the round trip holds for it. -/
theorem C10_F3_blank_record_skipped :
    Csv.parse ',' "v\r\nx\r\n \r\n  \r\ny\r\n".toList = some [["v".toList], ["x".toList], ["y".toList]] ∧
    Csv.parse ',' (renderCsvRecords ',' [["v".toList], ["x".toList], [" ".toList], ["  ".toList], ["y".toList]]) =
      some [["v".toList], ["x".toList], [" ".toList], ["  ".toList], ["y".toList]] ∧
    Csv.parse ',' "v,w\r\n , \r\n".toList = some [["v".toList, "w".toList], [" ".toList, " ".toList]] := by
  decide +kernel

/-! ## 5. which reader a source gets -/

/-- `completeSourceType` on the chain read from /repo -/
def sourceType (rf : Option Str) (hasDbUrl : Bool) (lst : Option LogicalSourceType) (lsv : Str) : Option Str :=
  completeSourceType Gen.sourceTypeSteps Gen.fileSourceTypes Gen.rmlNamespace rf hasDbUrl lst lsv

/-- **Extension table**: a file named `….<ext>` (lower or upper case), without reference formulation and without `db_url`, is typed by its
    extension, for every file source type -/
theorem C10_extension_table :
    (Gen.fileSourceTypes.all fun e =>
      sourceType none false (some .source) ("/data/d.v1/t.".toList ++ asciiLower e) = some e &&
      sourceType none false (some .source) ("t.".toList ++ e) = some e) = true := by
  decide +kernel

/-- `.tsv` goes to the CSV reader WITH the TAB separator, `.csv` with the comma -/
theorem C10_tsv_reader :
    sourceType none false (some .source) "/data/t.tsv".toList = some "TSV".toList ∧
    fileReaderFor Gen.fileDispatch false "TSV".toList = some .csv ∧ csvSepFor Gen.csvDelimiter "TSV".toList = ['\t'] ∧
    sourceType (some "http://w3id.org/rml/CSV".toList) false (some .source) "/data/t.tsv".toList = some "TSV".toList ∧
    csvSepFor Gen.csvDelimiter "CSV".toList = [','] := by
  decide +kernel

/-- the other branches: `db_url` (or an SQL reference formulation) makes a relational source whatever the name looks like; an `rml:query`
    without `db_url` is a tabular view; `{name}` is an in-memory object; an unknown extension falls back to the reference formulation;
    nothing at all is the exception -/
theorem C10_source_type_branches :
    sourceType none true (some .tableName) "t.csv".toList = some Gen.rdbType ∧
    sourceType (some "http://w3id.org/rml/SQL2008".toList) false (some .query) "select 1".toList = some Gen.rdbType ∧
    sourceType none false (some .query) "SELECT * FROM 't.parquet'".toList = some "CSV".toList ∧
    sourceType none false (some .source) "{src}".toList = some "PYTHON_SOURCE".toList ∧
    sourceType (some "http://w3id.org/rml/JSONPath".toList) false (some .source) "/data/t.dat".toList = some "JSONPATH".toList ∧
    sourceType none false (some .source) "/data/t.dat".toList = none ∧
    sourceType none false (some .source) "/data.d/t".toList = none := by
  decide +kernel

/-- `os.path.splitext` as modelled: last dot of the last path segment, leading dots do not count -/
example : extOf "/a.b/c.tar.gz".toList = ".gz".toList ∧ extOf "/a.b/c".toList = [] ∧ extOf ".bashrc".toList = [] ∧ extOf "..x.csv".toList = ".csv".toList := by
  decide

/-! ## 6. dialect quoting of the generated SELECT -/

def dq (c : Str) : Str := ['"'] ++ c ++ ['"']

/-- the SELECT in standard SQL quoting -/
def ansiSelect (refs : List Str) (tbl : Str) : Str :=
  "SELECT ".toList ++ join ", ".toList (refs.map dq) ++ " FROM ".toList ++ dq tbl ++ " WHERE ".toList ++
    join " AND ".toList (refs.map fun c => dq c ++ " IS NOT NULL".toList)

theorem flatMap_join (f : Char → Str) (sep : Str) (l : List Str) :
    (join sep l).flatMap f = join (sep.flatMap f) (l.map fun x => x.flatMap f) := by
  induction l with
  | nil => rfl
  | cons x l ih =>
    cases l with
    | nil => rfl
    | cons y r =>
      rw [join_cons_cons, List.flatMap_append, List.flatMap_append, ih]
      rfl

theorem quoteIdent_ansi (c : Str) (h1 : '`' ∉ c) (h2 : '.' ∉ c) : (quoteIdent c).flatMap (subst1 '`' ['"']) = dq c := by
  unfold quoteIdent dq
  rw [replace_single, flatMap_subst1_of_not_mem h2]
  simp only [List.flatMap_append, flatMap_subst1_of_not_mem h1]
  rfl

/-- **Dialects with standard quoting** (the `else` branch: SQLite, PostgreSQL, Oracle, …): the generated query selects exactly the
    referenced columns, each with its `IS NOT NULL` conjunct, every identifier enclosed in double quotes — for names without backtick and
    without dot (a dot is read as a schema qualification, issue #89) -/
theorem C10_sql_ansi_text (refs : List Str) (tbl : Str) (h : ∀ c ∈ tbl :: refs, '`' ∉ c ∧ '.' ∉ c) :
    applyStyle (.replaceBy ['"']) (SelectAst.render ⟨refs, tbl, refs⟩) = ansiSelect refs tbl := by
  have hq : ∀ c ∈ tbl :: refs, (quoteIdent c).flatMap (subst1 '`' ['"']) = dq c := fun c hc => quoteIdent_ansi c (h c hc).1 (h c hc).2
  have k1 : "SELECT ".toList.flatMap (subst1 '`' ['"']) = "SELECT ".toList := by decide
  have k2 : ", ".toList.flatMap (subst1 '`' ['"']) = ", ".toList := by decide
  have k3 : " FROM ".toList.flatMap (subst1 '`' ['"']) = " FROM ".toList := by decide
  have k4 : " WHERE ".toList.flatMap (subst1 '`' ['"']) = " WHERE ".toList := by decide
  have k5 : " AND ".toList.flatMap (subst1 '`' ['"']) = " AND ".toList := by decide
  have k6 : " IS NOT NULL".toList.flatMap (subst1 '`' ['"']) = " IS NOT NULL".toList := by decide
  have e1 : (refs.map quoteIdent).map (fun x => x.flatMap (subst1 '`' ['"'])) = refs.map dq := by
    rw [List.map_map]
    exact List.map_congr_left fun c hc => hq c (List.mem_cons_of_mem _ hc)
  have e2 : (refs.map fun c => quoteIdent c ++ " IS NOT NULL".toList).map (fun x => x.flatMap (subst1 '`' ['"'])) =
      refs.map fun c => dq c ++ " IS NOT NULL".toList := by
    rw [List.map_map]
    exact List.map_congr_left fun c hc => by
      simp only [Function.comp, List.flatMap_append, hq c (List.mem_cons_of_mem _ hc), k6]
  show replace (SelectAst.render ⟨refs, tbl, refs⟩) ['`'] ['"'] = _
  rw [replace_single]
  unfold SelectAst.render ansiSelect
  simp only [List.flatMap_append, flatMap_join, k1, k2, k3, k4, k5, e1, e2, hq tbl (by simp)]

/-- which style each dialect gets (as read from /repo): MySQL / MariaDB keep the backticks, SQL Server gets brackets, the others double quotes -/
theorem C10_dialect_styles :
    styleFor Gen.dialectStyles Gen.dialectDefault "SQLITE".toList = .replaceBy ['"'] ∧
    styleFor Gen.dialectStyles Gen.dialectDefault "POSTGRESQL".toList = .replaceBy ['"'] ∧
    styleFor Gen.dialectStyles Gen.dialectDefault "ORACLE".toList = .replaceBy ['"'] ∧
    styleFor Gen.dialectStyles Gen.dialectDefault "MYSQL".toList = .keep ∧ styleFor Gen.dialectStyles Gen.dialectDefault "MARIADB".toList = .keep ∧
    styleFor Gen.dialectStyles Gen.dialectDefault "MSSQL".toList = .brackets := by decide

/-- **The query sent to SQLite / PostgreSQL / Oracle** for a table source, from `_build_sql_query` and
    `_replace_query_enclosing_characters` as read from /repo -/
theorem C10_sql_query_sent (dialect : Str) (hd : styleFor Gen.dialectStyles Gen.dialectDefault dialect = .replaceBy ['"'])
    (refs : List Str) (hne : refs ≠ []) (tbl : Str) (h : ∀ c ∈ tbl :: refs, '`' ∉ c ∧ '.' ∉ c) :
    (buildSqlQuery Gen.sqlShape (some .tableName) tbl refs).map (dialectQuery Gen.dialectStyles Gen.dialectDefault dialect) =
      some (ansiSelect refs tbl) := by
  have e := Props.C06.C06_sql_query_text tbl refs hne
  rw [e, Option.map_some]
  unfold dialectQuery
  rw [hd, C10_sql_ansi_text refs tbl h]

/-- identifiers with blanks, keywords, quotes of the other kind survive: the text between the double quotes is the name -/
theorem C10_sql_ident_survives (c : Str) (h : '"' ∉ c) : sqlUnquoteIdent (dq c) = some c := by
  have : dq c = sqlIdent c := by
    unfold dq sqlIdent
    have : c.flatMap sqlIdEscChar = c := by
      induction c with
      | nil => rfl
      | cons a c ih =>
        simp only [List.mem_cons, not_or] at h
        have ha : a ≠ '"' := fun e => h.1 e.symm
        simp [List.flatMap_cons, sqlIdEscChar, ha, ih h.2]
    rw [this]
  rw [this]
  exact C10_sql_ident_roundtrip c

example : (buildSqlQuery Gen.sqlShape (some .tableName) "my table".toList ["select".toList, "first name".toList]).map
    (dialectQuery Gen.dialectStyles Gen.dialectDefault "SQLITE".toList) =
    some "SELECT \"select\", \"first name\" FROM \"my table\" WHERE \"select\" IS NOT NULL AND \"first name\" IS NOT NULL".toList := by
  decide +kernel

/-- SQL Server: the backticks become brackets alternately -/
example : dialectQuery Gen.dialectStyles Gen.dialectDefault "MSSQL".toList "SELECT `a b`, `c` FROM `t`".toList = "SELECT [a b], [c] FROM [t]".toList := by
  decide +kernel

/-- a name that contains the dialect's closing quote is NOT protected (neither `_build_sql_query` nor the dialect step escapes it): the
    identifier ends early.  Column NAMES are outside the property (it speaks of cell values); recorded here for completeness. -/
example : applyStyle (.replaceBy ['"']) (quoteIdent "a\"b".toList) = "\"a\"b\"".toList ∧ sqlUnquoteIdent "\"a\"b\"".toList = none := by
  decide +kernel

end Props.C10
