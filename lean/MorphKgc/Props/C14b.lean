/-
C14 (continued) — the built-in functions of `fnml/built_in_functions.py`: the registry as read from /repo now, and the documented
contract of each pure string built-in as a theorem over `Py.Str`, for all strings.

Contracts quoted from the GREL function reference (OpenRefine manual, "GREL functions"), the idlab-fn function descriptions and the
comments of built_in_functions.py (the repository has no `docs/` directory).  Python library behaviour that is not modelled is the
abstract parameter `PyLib` (`str.upper/lower/title`, `html.escape`, `datetime.strptime`, `eval`, `repr`, `int`, `round(float)`,
SHA-256, `uuid4`): for those the theorems say which library function is applied to which argument, and the concrete behaviour is
covered by the direct contract oracle and the correspondence of the check only.
-/
import MorphKgc.Gen.Fnml
import MorphKgc.Lemmas.FnmlBuiltins

namespace Props.C14
open Py Model Model.Fnml Lemmas.FnmlBuiltins

/-! ### the registry -/

/-- a call with positional arguments (the `i`-th value goes to the `i`-th parameter of the `def`) -/
def callPos (lib : PyLib) (b : Builtin) (xs : List Atom) : PyVal := applyShape lib b.shape fun i => xs[i]?

/-- **C14_builtin_registry.** The ids under which the built-ins are registered, the shape of each body and the parameter IRIs of the
    decorators, as read from /repo now (`hash_iri` and `toUpperCaseURL` are the subject of `C14_F2` / `C14_F7`). -/
theorem C14_builtin_registry :
    Gen.bif_string_replace.funId = "http://users.ugent.be/~bjdmeest/function/grel.ttl#string_replace".toList ∧
    Gen.bif_string_trim.funId = "http://users.ugent.be/~bjdmeest/function/grel.ttl#string_trim".toList ∧
    Gen.bif_reverse.funId = "http://users.ugent.be/~bjdmeest/function/grel.ttl#reverse".toList ∧
    Gen.bif_string_split.funId = "http://users.ugent.be/~bjdmeest/function/grel.ttl#string_split".toList ∧
    Gen.bif_string_split_explode.funId = "https://github.com/morph-kgc/morph-kgc/function/built-in.ttl#string_split_explode".toList ∧
    Gen.bif_concat.funId = "https://github.com/morph-kgc/morph-kgc/function/built-in.ttl#concat".toList ∧
    Gen.bif_array_get.funId = "http://users.ugent.be/~bjdmeest/function/grel.ttl#array_get".toList ∧
    Gen.bif_array_slice.funId = "http://users.ugent.be/~bjdmeest/function/grel.ttl#array_slice".toList ∧
    Gen.bif_string_indexOf.funId = "http://users.ugent.be/~bjdmeest/function/grel.ttl#string_indexOf".toList ∧
    Gen.bif_string_toString.funId = "http://users.ugent.be/~bjdmeest/function/grel.ttl#string_toString".toList ∧
    Gen.bif_toUpperCase.funId = "http://users.ugent.be/~bjdmeest/function/grel.ttl#toUpperCase".toList ∧
    Gen.bif_toLowerCase.funId = "http://users.ugent.be/~bjdmeest/function/grel.ttl#toLowerCase".toList ∧
    Gen.bif_toTitleCase.funId = "http://users.ugent.be/~bjdmeest/function/grel.ttl#toTitleCase".toList ∧
    Gen.bif_escape.funId = "http://users.ugent.be/~bjdmeest/function/grel.ttl#escape".toList ∧
    Gen.bif_controls_if.funId = "http://users.ugent.be/~bjdmeest/function/grel.ttl#controls_if".toList ∧
    Gen.bif_math_round.funId = "http://users.ugent.be/~bjdmeest/function/grel.ttl#math_round".toList ∧
    Gen.bif_date_toDate.funId = "http://users.ugent.be/~bjdmeest/function/grel.ttl#date_toDate".toList ∧
    Gen.bif_controls_if_cast.funId = "https://github.com/morph-kgc/morph-kgc/function/built-in.ttl#controls_if_cast".toList ∧
    Gen.bif_uuid.funId = "https://github.com/morph-kgc/morph-kgc/function/built-in.ttl#uuid".toList ∧
    Gen.bif_hash.funId = "https://github.com/morph-kgc/morph-kgc/function/built-in.ttl#hash".toList ∧
    Gen.bif_hash_iri.funId = "https://github.com/morph-kgc/morph-kgc/function/built-in.ttl#hash_iri".toList ∧
    Gen.bif_toUpperCaseURL.funId = "http://example.com/idlab/function/toUpperCaseURL".toList ∧
    Gen.bif_string_replace.params = [("string".toList, "http://users.ugent.be/~bjdmeest/function/grel.ttl#valueParam".toList),
      ("old_substring".toList, "http://users.ugent.be/~bjdmeest/function/grel.ttl#param_find".toList),
      ("new_substring".toList, "http://users.ugent.be/~bjdmeest/function/grel.ttl#param_replace".toList)] ∧
    Gen.bif_string_replace.argNames = ["string".toList, "old_substring".toList, "new_substring".toList] ∧
    Gen.bif_concat.params = [("string1".toList, "http://users.ugent.be/~bjdmeest/function/grel.ttl#valueParam1".toList),
      ("string2".toList, "http://users.ugent.be/~bjdmeest/function/grel.ttl#valueParam2".toList),
      ("separator".toList, "http://users.ugent.be/~bjdmeest/function/grel.ttl#param_string_sep".toList)] ∧
    Gen.bif_array_get.params = [("string_list".toList, "http://users.ugent.be/~bjdmeest/function/grel.ttl#param_a".toList),
      ("start".toList, "http://users.ugent.be/~bjdmeest/function/grel.ttl#p_int_i_from".toList),
      ("end".toList, "http://users.ugent.be/~bjdmeest/function/grel.ttl#p_int_i_opt_to".toList)] ∧
    Gen.builtins.length = 22 :=
  ⟨rfl, rfl, rfl, rfl, rfl, rfl, rfl, rfl, rfl, rfl, rfl, rfl, rfl, rfl, rfl, rfl, rfl, rfl, rfl, rfl, rfl, rfl, rfl, rfl, rfl, rfl, rfl⟩

/-! ### `grel:string_replace` — "Returns the string obtained by replacing the find string with the replace string in the inputted
    string" (every occurrence, scanning from the left, occurrences do not overlap) -/

theorem C14_builtin_replace (lib : PyLib) (s old new : Str) :
    callPos lib Gen.bif_string_replace [.str s, .str old, .str new] = pstr (pyReplace s old new) ∧
    (old ≠ [] → breakOn old s = none → pyReplace s old new = s) ∧
    (old ≠ [] → ∀ a b, breakOn old s = some (a, b) → pyReplace s old new = a ++ new ++ pyReplace b old new) ∧
    (old = [] → pyReplace s old new = new ++ s.flatMap fun c => c :: new) := by
  refine ⟨rfl, fun ho h => ?_, fun ho a b h => ?_, fun ho => by simp [pyReplace, ho]⟩
  · simp only [pyReplace, ho, ↓reduceIte]; exact replace_none s old new h
  · simp only [pyReplace, ho, ↓reduceIte]; exact replace_first s old new a b ho h

/-- a one-character find string: EVERY occurrence is replaced (a change to "first occurrence only" contradicts this at `aXbXc`) -/
theorem C14_builtin_replace_char (lib : PyLib) (s : Str) (c : Char) (new : Str) :
    callPos lib Gen.bif_string_replace [.str s, .str [c], .str new] = pstr (s.flatMap fun x => if x = c then new else [x]) := by
  rw [← replace_char]; rfl

example : pyReplace "aXbXc".toList "X".toList "--".toList = "a--b--c".toList := by decide
example : pyReplace "aaa".toList "aa".toList "b".toList = "ba".toList := by decide
example : pyReplace "ab".toList [] "-".toList = "-a-b-".toList := by decide

/-! ### `morph-kgc:string_split_explode`, `grel:string_split` — "Returns the array of strings obtained by splitting s by sep" -/

theorem C14_builtin_split_explode (lib : PyLib) (s sep : Str) :
    (sep ≠ [] → callPos lib Gen.bif_string_split_explode [.str s, .str sep] = .list ((split s sep).map .str)) ∧
    (callPos lib Gen.bif_string_split_explode [.str s, .str []] = .atom (.exc "ValueError".toList)) ∧
    (sep ≠ [] → callPos lib Gen.bif_string_split [.str s, .str sep] = pstr (lib.reprList ((split s sep).map .str))) ∧
    -- the parts joined by the separator give the string back; without the separator the string is the only part
    (sep ≠ [] → join sep (split s sep) = s) ∧
    (breakOn sep s = none → split s sep = [s]) := by
  refine ⟨fun h => ?_, rfl, fun h => ?_, fun h => join_splitFuel sep h s.length s (Nat.le_refl _), split_absent s sep⟩
  · show applyShape lib .splitList _ = _
    simp [applyShape, needStr, pySplit, h]
  · show applyShape lib .splitRepr _ = _
    simp [applyShape, needStr, pySplit, h]

/-- a one-character separator: no part contains it -/
theorem C14_builtin_split_char (s : Str) (c : Char) : (∀ p ∈ split s [c], c ∉ p) ∧ join [c] (split s [c]) = s := split_char s c

example : split "a;b;;c".toList ";".toList = ["a".toList, "b".toList, [], "c".toList] := by decide
example : split "no-sep".toList ";".toList = ["no-sep".toList] := by decide
example : split ([] : Str) ";".toList = [[]] := by decide

/-! ### `morph-kgc:concat` — `string1 + separator + string2`, the separator defaulting to the empty string -/

theorem C14_builtin_concat (lib : PyLib) (a b sep : Str) :
    callPos lib Gen.bif_concat [.str a, .str b, .str sep] = pstr (a ++ sep ++ b) ∧
    callPos lib Gen.bif_concat [.str a, .str b] = pstr (a ++ b) := by
  refine ⟨rfl, ?_⟩
  show applyShape lib .concat3 _ = _
  simp [applyShape, Atom.isExc, strOf, pstr]

/-! ### `grel:string_trim` — "Returns a copy of the string with leading and trailing whitespace removed" (Python `str.strip()`: the
    characters for which `str.isspace` holds: U+0009–000D, U+001C–0020, U+0085, U+00A0, U+1680, U+2000–200A, U+2028, U+2029, U+202F,
    U+205F, U+3000) -/

theorem C14_builtin_trim (lib : PyLib) (s : Str) :
    callPos lib Gen.bif_string_trim [.str s] = pstr (pyStrip s) ∧
    (∃ l r, s = l ++ pyStrip s ++ r ∧ l.all pyIsSpace = true ∧ r.all pyIsSpace = true) ∧
    (∀ c, (pyStrip s).head? = some c → pyIsSpace c = false) ∧
    (∀ c, (pyStrip s).getLast? = some c → pyIsSpace c = false) :=
  ⟨rfl, (strip_spec s).1, (strip_spec s).2.1, (strip_spec s).2.2⟩

example : pyStrip " \t a b\n ".toList = "a b".toList := by decide
example : pyStrip [' ', Char.ofNat 0x1c, 'x', Char.ofNat 0x85, Char.ofNat 0x3000] = ['x'] := by decide
example : pyStrip "\n".toList = [] := by decide

/-! ### `grel:reverse` — "Reverses the characters of s" -/

theorem C14_builtin_reverse (lib : PyLib) (s : Str) :
    callPos lib Gen.bif_reverse [.str s] = pstr s.reverse ∧ s.reverse.reverse = s ∧ s.reverse.length = s.length ∧
    (∀ i (h : i < s.length), s.reverse[i]? = s[s.length - 1 - i]?) :=
  ⟨rfl, List.reverse_reverse s, List.length_reverse, fun i h => by rw [List.getElem?_reverse h]⟩

/-! ### `grel:string_indexOf` — "Returns the first character index of sub as it first occurs in s; or, returns -1 if s does not contain
    sub".  The code returns a Python `int` (see C14_F5) and RAISES when `sub` is absent. -/

theorem C14_builtin_index_of (lib : PyLib) (s sub : Str) (ho : sub ≠ []) :
    (∀ i, pyIndexOf s sub = some i →
      callPos lib Gen.bif_string_indexOf [.str s, .str sub] = .atom (.other (toString i).toList) ∧ ∃ a b, s = a ++ sub ++ b ∧ a.length = i) ∧
    (breakOn sub s = none → callPos lib Gen.bif_string_indexOf [.str s, .str sub] = .atom (.exc "ValueError".toList)) := by
  refine ⟨fun i h => ⟨?_, (indexOf_spec s sub ho).1 i h⟩, fun h => ?_⟩
  · show applyShape lib .indexOf _ = _
    simp [applyShape, needStr, h]
  · have := (indexOf_spec s sub ho).2.mpr h
    show applyShape lib .indexOf _ = _
    simp [applyShape, needStr, this]

/-! ### `grel:array_get`, `grel:array_slice` — "Returns the sub-array of a from index `from` (up to, not including, `to`)"; the array
    arrives as the text of a Python list (what `grel:string_split` returns) and is read back with `eval` -/

theorem C14_builtin_array_get (lib : PyLib) (t st : Str) (l : List Atom) (i : Int)
    (he : lib.evalSeq t = .list l) (hi : lib.parseInt st = some i) :
    callPos lib Gen.bif_array_get [.str t, .str st] =
      (match pyIndex l i with | some x => .atom x | none => .atom (.exc "IndexError".toList)) ∧
    -- composed with `string_split` (for a library in which `eval` reads back the text of a list): the `k`-th part
    (∀ s sep (k : Nat), sep ≠ [] → t = lib.reprList ((split s sep).map .str) → l = (split s sep).map .str → i = (k : Int) →
      callPos lib Gen.bif_array_get [.str t, .str st] =
        (match (split s sep)[k]? with | some p => pstr p | none => .atom (.exc "IndexError".toList))) := by
  have h1 : callPos lib Gen.bif_array_get [.str t, .str st] =
      (match pyIndex l i with | some x => .atom x | none => .atom (.exc "IndexError".toList)) := by
    show applyShape lib .arrayGet _ = _
    simp [applyShape, needStr, needInt, hi, truthy, seqOf, he]
    try rfl
  refine ⟨h1, fun s sep k _ _ hl hk => ?_⟩
  rw [h1, hk, pyIndex_nonneg, hl, List.getElem?_map]
  cases (split s sep)[k]? <;> rfl

theorem C14_builtin_array_slice (lib : PyLib) (t sa sb : Str) (l : List Atom) (a b : Int)
    (he : lib.evalSeq t = .list l) (ha : lib.parseInt sa = some a) (hb : lib.parseInt sb = some b) (hne : sb ≠ []) :
    callPos lib Gen.bif_array_slice [.str t, .str sa, .str sb] = pstr (lib.reprList (pySlice l a (some b))) ∧
    callPos lib Gen.bif_array_slice [.str t, .str sa] = pstr (lib.reprList (pySlice l a none)) ∧
    callPos lib Gen.bif_array_get [.str t, .str sa, .str sb] = pstr (lib.reprList (pySlice l a (some b))) := by
  have hb' : sb.isEmpty = false := by cases sb <;> simp_all
  refine ⟨?_, ?_, ?_⟩
  · show applyShape lib .arraySlice _ = _
    simp [applyShape, needStr, needInt, ha, hb, truthy, hb', seqOf, he, sliceRepr]
  · show applyShape lib .arraySlice _ = _
    simp [applyShape, needStr, needInt, ha, truthy, seqOf, he, sliceRepr]
  · show applyShape lib .arrayGet _ = _
    simp [applyShape, needStr, needInt, ha, hb, truthy, hb', seqOf, he, sliceRepr]

example : pySlice ['a', 'b', 'c', 'd'] 1 (some 3) = ['b', 'c'] ∧ pySlice ['a', 'b', 'c', 'd'] (-2) none = ['c', 'd'] ∧
    pySlice ['a', 'b', 'c', 'd'] 2 (some 1) = [] ∧ pySlice ['a', 'b'] 0 (some 9) = ['a', 'b'] ∧
    pyIndex ['a', 'b', 'c'] (-1) = some 'c' ∧ pyIndex ['a', 'b', 'c'] 3 = none ∧ pyIndex ['a', 'b', 'c'] 0 = some 'a' := by decide

/-! ### `morph-kgc:controls_if_cast`, `grel:controls_if` — "if the boolean is true returns value_true, else value_false" -/

theorem C14_builtin_if_cast (lib : PyLib) (s : Str) (vt vf : Atom) :
    callPos lib Gen.bif_controls_if_cast [.str s, vt, vf] =
      (if ([[], "false".toList, "no".toList, "off".toList, "0".toList] : List Str).contains (lib.lower s) then .atom vf else .atom vt) ∧
    callPos lib Gen.bif_controls_if_cast [.str s, vt] =
      (if ([[], "false".toList, "no".toList, "off".toList, "0".toList] : List Str).contains (lib.lower s) then .atom (.null "None".toList) else .atom vt) :=
  ⟨rfl, rfl⟩

theorem C14_builtin_if (lib : PyLib) (b : Str) (vt vf : Atom) :
    (lib.evalTruthy b = some true → callPos lib Gen.bif_controls_if [.str b, vt, vf] = .atom vt) ∧
    (lib.evalTruthy b = some false → callPos lib Gen.bif_controls_if [.str b, vt, vf] = .atom vf ∧
      callPos lib Gen.bif_controls_if [.str b, vt] = .atom (.null "None".toList)) := by
  refine ⟨fun h => ?_, fun h => ⟨?_, ?_⟩⟩ <;>
  · show applyShape lib .ifEval _ = _
    simp [applyShape, needStr, h, orNone]

/-! ### `grel:escape`, `grel:string_toString`, case mapping, hashes, `grel:math_round` — library behaviour behind `PyLib` -/

theorem C14_builtin_escape (lib : PyLib) (s mode : Str) :
    callPos lib Gen.bif_escape [.str s, .str "html".toList] = pstr (lib.htmlEscape s) ∧
    (mode ≠ "html".toList → callPos lib Gen.bif_escape [.str s, .str mode] = .atom (.null "None".toList)) := by
  refine ⟨rfl, fun h => ?_⟩
  have h' : mode ≠ ['h', 't', 'm', 'l'] := h
  show applyShape lib .escapeHtml _ = _
  simp [applyShape, h']

theorem C14_builtin_to_string (lib : PyLib) (s r : Str) :
    callPos lib Gen.bif_string_toString [.str s] = pstr s ∧ callPos lib Gen.bif_string_toString [.other r] = pstr r := ⟨rfl, rfl⟩

theorem C14_builtin_case (lib : PyLib) (s : Str) :
    callPos lib Gen.bif_toUpperCase [.str s] = pstr (lib.upper s) ∧ callPos lib Gen.bif_toLowerCase [.str s] = pstr (lib.lower s) ∧
    callPos lib Gen.bif_toTitleCase [.str s] = pstr (lib.title s) := ⟨rfl, rfl, rfl⟩

theorem C14_builtin_hash (lib : PyLib) (s : Str) : callPos lib Gen.bif_hash [.str s] = pstr (lib.sha256hex s) := rfl

theorem C14_builtin_round (lib : PyLib) (n : Str) :
    (',' ∉ n → callPos lib Gen.bif_math_round [.str n] = .atom (lib.roundFloat n)) ∧
    (',' ∈ n → '.' ∈ n → callPos lib Gen.bif_math_round [.str n] = .atom (lib.roundFloat (n.filter (· ≠ ',')))) ∧
    (',' ∈ n → '.' ∉ n → callPos lib Gen.bif_math_round [.str n] = .atom (lib.roundFloat (n.map fun c => if c = ',' then '.' else c))) := by
  refine ⟨fun h => ?_, fun h1 h2 => ?_, fun h1 h2 => ?_⟩ <;>
  · show applyShape lib .roundNumber _ = _
    simp_all [applyShape, needStr]

/-! ### C14_F2 — `hash_iri` -/

/-- **C14_F2.** As generated: EITHER the body of `hash_iri` loads the name `sha256`, which is bound nowhere (no parameter, local, import or
    module global), so every call raises `NameError` and the documented function can never yield a term; OR (after the repair) it
    returns `http://example.com/ns#` followed by the SHA-256 hex digest of its argument. -/
theorem C14_F2_hash_iri :
    (∃ n, Gen.bif_hash_iri.shape = .nameError n ∧
      ∀ (lib : PyLib) (xs : List Atom), callPos lib Gen.bif_hash_iri xs = .atom (.exc "NameError".toList)) ∨
    (Gen.bif_hash_iri.shape = .hashIri ∧
      ∀ (lib : PyLib) (s : Str), callPos lib Gen.bif_hash_iri [.str s] = pstr ("http://example.com/ns#".toList ++ lib.sha256hex s)) := by
  first
    | exact Or.inl ⟨_, rfl, fun _ _ => rfl⟩
    | exact Or.inr ⟨rfl, fun _ _ => rfl⟩

/-! ### C14_F7 — `idlab-fn:toUpperCaseURL` -/

/-- **C14_F7.** As generated: EITHER, for a URL with a scheme, the code upper-cases and percent-encodes the SCHEME ITSELF (`url[:8]`,
    `url[:7]`) and drops the rest, so that the result does not depend on anything behind the scheme (`https://HTTPS%3A%2F%2F`);
    OR (after the repair) the scheme is kept and the rest of the URL is upper-cased and encoded.  Without a scheme both prepend
    `http://`. -/
theorem C14_F7_upper_url :
    (Gen.bif_toUpperCaseURL.shape = .upperUrl false ∧
      (∀ (lib : PyLib) (url : Str), startsWith (lib.lower url) sHttps = true →
        callPos lib Gen.bif_toUpperCaseURL [.str url] = pstr (sHttps ++ pctEncode [] (lib.upper (url.take 8))))) ∨
    (Gen.bif_toUpperCaseURL.shape = .upperUrl true ∧
      (∀ (lib : PyLib) (url : Str), startsWith (lib.lower url) sHttps = true →
        callPos lib Gen.bif_toUpperCaseURL [.str url] = pstr (sHttps ++ pctEncode [] (lib.upper (url.drop 8)))) ∧
      (∀ (lib : PyLib) (url : Str), startsWith (lib.lower url) sHttps = false → startsWith (lib.lower url) sHttp = true →
        callPos lib Gen.bif_toUpperCaseURL [.str url] = pstr (sHttp ++ pctEncode [] (lib.upper (url.drop 7))))) := by
  first
    | exact Or.inl ⟨rfl, fun lib url h => by
        show applyShape lib (.upperUrl false) _ = _
        simp [applyShape, needStr, h]⟩
    | exact Or.inr ⟨rfl, fun lib url h => by
        show applyShape lib (.upperUrl true) _ = _
        simp [applyShape, needStr, h], fun lib url h1 h2 => by
        show applyShape lib (.upperUrl true) _ = _
        simp [applyShape, needStr, h1, h2]⟩


/-! ### non-vacuity of the library hypotheses: a library in which `eval` reads `L` as the list `['a', 'b']` and `int('1') = 1` -/

def libEx : PyLib :=
  { lower := id, upper := id, title := id, htmlEscape := id, strptimeDate := fun _ _ => .null [], reprList := fun _ => ['L'],
    evalSeq := fun _ => .list [.str ['a'], .str ['b']], parseInt := fun s => if s = ['1'] then some 1 else none,
    evalTruthy := fun _ => some true, roundFloat := fun _ => .null [], sha256hex := id, uuid4 := [] }

example : libEx.evalSeq ['L'] = .list [.str ['a'], .str ['b']] ∧ libEx.parseInt ['1'] = some 1 ∧
    callPos libEx Gen.bif_array_get [.str ['L'], .str ['1']] = .atom (.str ['b']) ∧
    callPos libEx Gen.bif_array_slice [.str ['L'], .str ['1']] = pstr ['L'] ∧
    callPos libEx Gen.bif_controls_if [.str ['T'], .str ['y'], .str ['n']] = .atom (.str ['y']) := by decide

end Props.C14
