/-
C13, document level — part 1: from the conditions on a *document* to the conditions on its rule table.

`Props/C13Fix.lean` proves termination of `_normalize_rml_star` for a rule table `T` with `Resolves T`, `NamesOK T`,
`AcyclicQuoting T`.  Here these are derived for `T = rulesOfDoc doc` from decidable conditions on the document
(`DocWF`: the triples map names are distinct, every quoted reference names a triples map of the document, no triples map is
named `#TM…`) and the document-level acyclicity `Spec.Star.AcyclicQuoting doc`.

Part 2: the statements of a complete unfolding (`treeTriples`, `treeLines`: a function of the `QTree` alone, given a reading `RuleSem`
of rule-table rows as term maps), the flat reading of a final table (`C13_flatLines_of_tree`) and the document-level reading
(`C13_stmtsOf_of_trees`) in these terms, and their meeting point `C13_spec_flat_eq_doc`.
-/
import MorphKgc.Props.C13Fix

namespace Props.C13Doc
open Py Model Spec Model.Star Spec.Star Props.C13Fix

/-! ### lists -/

theorem length_le_of_nodup_subset {α} [DecidableEq α] : ∀ (l1 l2 : List α), l1.Nodup → (∀ x ∈ l1, x ∈ l2) → l1.length ≤ l2.length
  | [], _, _, _ => Nat.zero_le _
  | a :: l1, l2, hn, hs => by
    have hn' := List.nodup_cons.mp hn
    have ih := length_le_of_nodup_subset l1 (l2.erase a) hn'.2 (fun x hx =>
      (List.mem_erase_of_ne (fun (e : x = a) => hn'.1 (by rw [← e]; exact hx))).mpr (hs x (List.mem_cons_of_mem _ hx)))
    have ha : a ∈ l2 := hs a (by simp)
    have h1 : (l2.erase a).length = l2.length - 1 := List.length_erase_of_mem ha
    have h2 : 0 < l2.length := List.length_pos_of_mem ha
    simp only [List.length_cons]
    omega

theorem eq_of_nodup_map {α β} (f : α → β) : ∀ (l : List α), (l.map f).Nodup → ∀ a ∈ l, ∀ b ∈ l, f a = f b → a = b
  | [], _, _, ha, _, _, _ => by cases ha
  | x :: l, hn, a, ha, b, hb, hab => by
    simp only [List.map_cons, List.nodup_cons] at hn
    rcases List.mem_cons.mp ha with rfl | ha' <;> rcases List.mem_cons.mp hb with rfl | hb'
    · rfl
    · exact absurd (List.mem_map.mpr ⟨b, hb', hab.symm⟩) hn.1
    · exact absurd (List.mem_map.mpr ⟨a, ha', hab⟩) hn.1
    · exact eq_of_nodup_map f l hn.2 a ha' b hb' hab

/-! ### the conditions on a document -/

/-- the triples maps of the document carry distinct names -/
def IdsNodup (doc : SDoc) : Prop := (doc.tms.map (·.id)).Nodup
instance (doc : SDoc) : Decidable (IdsNodup doc) := by unfold IdsNodup; infer_instance

/-- every quoted-map reference names a triples map of the document -/
def DocResolves (doc : SDoc) : Bool := doc.tms.all fun tm => (quotedIds tm).all fun q => (doc.find q).isSome

/-- no triples map is named like an identifier `#TM<k>` of the renumbering -/
def NoTMNames (doc : SDoc) : Bool := doc.tms.all fun tm => !(Gen.Star.idPrefix.isPrefixOf tm.id)

/-- document-level well-formedness -/
def DocWF (doc : SDoc) : Bool := decide (IdsNodup doc) && DocResolves doc && NoTMNames doc

theorem DocWF_parts {doc : SDoc} (h : DocWF doc = true) : IdsNodup doc ∧ DocResolves doc = true ∧ NoTMNames doc = true := by
  simp only [DocWF, Bool.and_eq_true, decide_eq_true_eq] at h
  exact ⟨h.1.1, h.1.2, h.2⟩

theorem find_some {doc : SDoc} {id : Str} {tm : STm} (h : doc.find id = some tm) : tm ∈ doc.tms ∧ tm.id = id :=
  ⟨List.mem_of_find?_eq_some h, by simpa using List.find?_some h⟩

theorem find_none {doc : SDoc} {id : Str} (h : doc.find id = none) : ∀ tm ∈ doc.tms, tm.id ≠ id := by
  intro tm htm
  simpa using List.find?_eq_none.mp h tm htm

theorem find_of_mem {doc : SDoc} (hn : IdsNodup doc) {tm : STm} (htm : tm ∈ doc.tms) : doc.find tm.id = some tm := by
  cases hf : doc.find tm.id with
  | none => exact absurd rfl (find_none hf tm htm)
  | some tm' =>
    obtain ⟨h1, h2⟩ := find_some hf
    rw [eq_of_nodup_map (fun t : STm => t.id) doc.tms hn tm' h1 tm htm h2]

/-! ### the rules of a triples map -/

theorem mapOf_ne_quoted (t : TermMap) : (mapOf t).1 ≠ .quoted := by
  unfold mapOf; cases t.kind <;> simp

theorem mapOf_ne_parent (t : TermMap) : (mapOf t).1 ≠ .parentTM := by
  unfold mapOf; cases t.kind <;> simp

theorem posOf_ne_parent (p : Pos) : (posOf p).1 ≠ .parentTM := by
  cases p with
  | term t => exact mapOf_ne_parent t
  | quoted id conds => simp [posOf]

theorem mem_rulesOfTm_weak {tm : STm} {r : Rule} (h : r ∈ rulesOfTm tm) :
    r.tmId = tm.id ∧ r.subjectMapType = (posOf tm.subject).1 ∧ r.subjectMapValue = (posOf tm.subject).2.1 ∧
    (r.objectMapType = .quoted → ∃ pom ∈ tm.poms, ∃ conds, Pos.quoted r.objectMapValue conds ∈ pom.objects) := by
  unfold Model.Star.rulesOfTm at h
  simp only at h
  split at h
  · simp only [List.mem_singleton] at h
    subst h
    exact ⟨rfl, rfl, rfl, fun hq => by simp [baseRuleS] at hq⟩
  · rcases List.mem_append.mp h with h | h
    · simp only [List.mem_flatMap, List.mem_map] at h
      obtain ⟨c, _, g, _, rfl⟩ := h
      exact ⟨rfl, rfl, rfl, fun hq => by simp at hq⟩
    · simp only [List.mem_flatMap, List.mem_map] at h
      obtain ⟨pom, hpom, p, _, o, ho, g, _, rfl⟩ := h
      cases o with
      | term otm => exact ⟨rfl, rfl, rfl, fun hq => absurd hq (mapOf_ne_quoted otm)⟩
      | quoted id conds => exact ⟨rfl, rfl, rfl, fun _ => ⟨pom, hpom, conds, ho⟩⟩

theorem rulesOfTm_ne_nil (tm : STm) : rulesOfTm tm ≠ [] := by
  unfold Model.Star.rulesOfTm
  simp only
  split
  · simp
  · assumption

theorem mem_rulesOfDoc {doc : SDoc} {r : Rule} : r ∈ rulesOfDoc doc ↔ ∃ tm ∈ doc.tms, r ∈ rulesOfTm tm := by
  simp [rulesOfDoc, List.mem_flatMap]

theorem subj_mem_quotedIds {tm : STm} (h : (posOf tm.subject).1 = .quoted) : (posOf tm.subject).2.1 ∈ quotedIds tm := by
  obtain ⟨id, conds, hs⟩ := posOf_quoted h
  simp [quotedIds, hs, posOf]

theorem obj_mem_quotedIds {tm : STm} {pom : SPom} (hp : pom ∈ tm.poms) {id : Str} {conds : List (Str × Str)}
    (ho : Pos.quoted id conds ∈ pom.objects) : id ∈ quotedIds tm := by
  simp only [quotedIds, List.mem_append, List.mem_flatMap]
  exact .inr ⟨pom, hp, _, ho, by simp⟩

/-- what a rule of the table quotes is among the quoted maps of its triples map -/
theorem quoted_of_rule {tm : STm} {r : Rule} (h : r ∈ rulesOfTm tm) :
    (r.subjectMapType = .quoted → r.subjectMapValue ∈ quotedIds tm) ∧ (r.objectMapType = .quoted → r.objectMapValue ∈ quotedIds tm) := by
  obtain ⟨_, h1, h2, h3⟩ := mem_rulesOfTm_weak h
  refine ⟨fun hq => ?_, fun hq => ?_⟩
  · rw [h2]; exact subj_mem_quotedIds (h1 ▸ hq)
  · obtain ⟨pom, hp, conds, ho⟩ := h3 hq
    exact obj_mem_quotedIds hp ho

/-- every triples map of the document is a name of the rule table -/
theorem id_mem_names {doc : SDoc} {tm : STm} (htm : tm ∈ doc.tms) : tm.id ∈ names (rulesOfDoc doc) := by
  cases hr : rulesOfTm tm with
  | nil => exact absurd hr (rulesOfTm_ne_nil tm)
  | cons r rs =>
    have hmem : r ∈ rulesOfTm tm := by rw [hr]; simp
    exact List.mem_map.mpr ⟨r, mem_rulesOfDoc.mpr ⟨tm, htm, hmem⟩, (mem_rulesOfTm_weak hmem).1⟩

theorem names_sub_ids {doc : SDoc} {v : Str} (h : v ∈ names (rulesOfDoc doc)) : ∃ tm ∈ doc.tms, tm.id = v := by
  obtain ⟨r, hr, rfl⟩ := List.mem_map.mp h
  obtain ⟨tm, htm, hrt⟩ := mem_rulesOfDoc.mp hr
  exact ⟨tm, htm, (mem_rulesOfTm_weak hrt).1.symm⟩

/-! ### `Resolves`, `NamesOK` -/

theorem doc_resolves {doc : SDoc} (h : DocResolves doc = true) : Resolves (rulesOfDoc doc) := by
  simp only [DocResolves, List.all_eq_true] at h
  have key : ∀ tm ∈ doc.tms, ∀ q ∈ quotedIds tm, q ∈ names (rulesOfDoc doc) := by
    intro tm htm q hq
    have := h tm htm q hq
    cases hf : doc.find q with
    | none => simp [hf] at this
    | some tm' =>
      obtain ⟨h1, h2⟩ := find_some hf
      exact h2 ▸ id_mem_names h1
  intro r hr
  obtain ⟨tm, htm, hrt⟩ := mem_rulesOfDoc.mp hr
  obtain ⟨hs, ho⟩ := quoted_of_rule hrt
  exact ⟨fun hq => key tm htm _ (hs hq), fun hq => key tm htm _ (ho hq)⟩

theorem ruleId_prefix (q : Nat) : Gen.Star.idPrefix.isPrefixOf (ruleId q) = true := by
  simp [ruleId]

theorem doc_namesOK {doc : SDoc} (h : NoTMNames doc = true) : NamesOK (rulesOfDoc doc) := by
  simp only [NoTMNames, List.all_eq_true] at h
  intro q _
  apply firstId_not_mem
  intro hmem
  obtain ⟨tm, htm, hid⟩ := names_sub_ids hmem
  have := h tm htm
  rw [hid, ruleId_prefix] at this
  simp at this

/-! ### acyclicity -/

theorem depthLeT_mono (T : List Rule) : ∀ (n : Nat) (t : Str), depthLeT T n t = true → depthLeT T (n + 1) t = true := by
  intro n
  induction n with
  | zero =>
    intro t h
    simp only [depthLeT, List.isEmpty_iff] at h
    simp [depthLeT, h]
  | succ n ih =>
    intro t h
    simp only [depthLeT, List.all_eq_true] at h
    show (quotedNames T t).all (depthLeT T (n + 1)) = true
    rw [List.all_eq_true]
    intro q hq
    exact ih q (h q hq)

theorem depthLeT_mono_le (T : List Rule) (t : Str) {n m : Nat} (hnm : n ≤ m) (h : depthLeT T n t = true) : depthLeT T m t = true := by
  induction hnm with
  | refl => exact h
  | step _ ih => exact depthLeT_mono T _ t ih

theorem depthLeT_of_all (T : List Rule) (t : Str) (k : Nat)
    (h : ∀ q ∈ quotedNames T t, ∃ b, b + 1 ≤ k ∧ depthLeT T b q = true) : depthLeT T k t = true := by
  cases k with
  | zero =>
    simp only [depthLeT, List.isEmpty_iff]
    apply List.eq_nil_iff_forall_not_mem.mpr
    intro q hq
    obtain ⟨b, hb, _⟩ := h q hq
    omega
  | succ k =>
    simp only [depthLeT, List.all_eq_true]
    intro q hq
    obtain ⟨b, hb, hd⟩ := h q hq
    exact depthLeT_mono_le T q (by omega) hd

/-- one step of the fold in `Spec.Star.depthOf` -/
def stepD (f : Str → Option Nat) (acc : Option Nat) (q : Str) : Option Nat :=
  match acc, f q with
  | some a, some b => some (max a (b + 1))
  | _, _ => none

theorem foldl_stepD_none (f : Str → Option Nat) (l : List Str) : l.foldl (stepD f) none = none := by
  induction l with
  | nil => rfl
  | cons a l ih => simpa [List.foldl_cons, stepD] using ih

theorem foldl_stepD_some (f : Str → Option Nat) : ∀ (l : List Str) (a k : Nat), l.foldl (stepD f) (some a) = some k →
    a ≤ k ∧ (∀ q ∈ l, ∃ b, f q = some b ∧ b + 1 ≤ k) ∧ (k = a ∨ ∃ q ∈ l, ∃ b, f q = some b ∧ k = b + 1) := by
  intro l
  induction l with
  | nil =>
    intro a k h
    simp only [List.foldl_nil, Option.some.injEq] at h
    subst h
    exact ⟨Nat.le_refl _, fun q hq => (by cases hq), .inl rfl⟩
  | cons x l ih =>
    intro a k h
    rw [List.foldl_cons] at h
    cases hx : f x with
    | none =>
      simp only [stepD, hx] at h
      rw [foldl_stepD_none] at h
      cases h
    | some b =>
      simp only [stepD, hx] at h
      obtain ⟨h1, h2, h3⟩ := ih _ k h
      refine ⟨by omega, fun q hq => ?_, ?_⟩
      · rcases List.mem_cons.mp hq with rfl | hq
        · exact ⟨b, hx, by omega⟩
        · exact h2 q hq
      · rcases h3 with h3 | ⟨q, hq, b', hb', hk⟩
        · by_cases hab : a ≤ b + 1
          · exact .inr ⟨x, by simp, b, hx, by omega⟩
          · exact .inl (by omega)
        · exact .inr ⟨q, List.mem_cons_of_mem _ hq, b', hb', hk⟩

theorem depthOf_succ (doc : SDoc) (n : Nat) (id : Str) :
    depthOf doc (n + 1) id = match doc.find id with
      | none => some 0
      | some tm => (quotedIds tm).foldl (stepD (depthOf doc n)) (some 0) := rfl

/-- the depth `depthOf` computes with fuel `n` is below `n` -/
theorem depthOf_lt (doc : SDoc) : ∀ (n : Nat) (id : Str) (k : Nat), depthOf doc n id = some k → k < n := by
  intro n
  induction n with
  | zero => intro id k h; simp [depthOf] at h
  | succ n ih =>
    intro id k h
    rw [depthOf_succ] at h
    cases hf : doc.find id with
    | none => simp only [hf, Option.some.injEq] at h; omega
    | some tm =>
      simp only [hf] at h
      obtain ⟨_, _, h3⟩ := foldl_stepD_some _ _ _ _ h
      rcases h3 with rfl | ⟨q, _, b, hb, rfl⟩
      · omega
      · have := ih q b hb; omega

theorem mem_quotedNames {T : List Rule} {t v : Str} : v ∈ quotedNames T t ↔ ∃ r ∈ T, r.tmId = t ∧
    ((r.subjectMapType = .quoted ∧ v = r.subjectMapValue) ∨ (r.objectMapType = .quoted ∧ v = r.objectMapValue)) := by
  simp only [quotedNames, List.mem_flatMap, List.mem_filter, decide_eq_true_eq, List.mem_append]
  constructor
  · rintro ⟨r, ⟨hr, ht⟩, h | h⟩
    · by_cases hq : r.subjectMapType = .quoted
      · simp only [hq, ↓reduceIte, List.mem_singleton] at h; exact ⟨r, hr, ht, .inl ⟨hq, h⟩⟩
      · simp [hq] at h
    · by_cases hq : r.objectMapType = .quoted
      · simp only [hq, ↓reduceIte, List.mem_singleton] at h; exact ⟨r, hr, ht, .inr ⟨hq, h⟩⟩
      · simp [hq] at h
  · rintro ⟨r, hr, ht, ⟨hq, rfl⟩ | ⟨hq, rfl⟩⟩
    · exact ⟨r, ⟨hr, ht⟩, .inl (by simp [hq])⟩
    · exact ⟨r, ⟨hr, ht⟩, .inr (by simp [hq])⟩

/-- the quoting depth of the document bounds the quoting depth in the rule table -/
theorem depthOf_depthLeT {doc : SDoc} (hn : IdsNodup doc) : ∀ (n : Nat) (id : Str) (k : Nat), depthOf doc n id = some k →
    depthLeT (rulesOfDoc doc) k id = true := by
  intro n
  induction n with
  | zero => intro id k h; simp [depthOf] at h
  | succ n ih =>
    intro id k h
    rw [depthOf_succ] at h
    apply depthLeT_of_all
    intro v hv
    obtain ⟨r, hr, ht, hq⟩ := mem_quotedNames.mp hv
    obtain ⟨tm', htm', hrt⟩ := mem_rulesOfDoc.mp hr
    have hid : tm'.id = id := by rw [← (mem_rulesOfTm_weak hrt).1, ht]
    have hf : doc.find id = some tm' := hid ▸ find_of_mem hn htm'
    simp only [hf] at h
    obtain ⟨_, h2, _⟩ := foldl_stepD_some _ _ _ _ h
    have hvq : v ∈ quotedIds tm' := by
      rcases hq with ⟨hq, rfl⟩ | ⟨hq, rfl⟩
      · exact (quoted_of_rule hrt).1 hq
      · exact (quoted_of_rule hrt).2 hq
    obtain ⟨b, hb, hbk⟩ := h2 v hvq
    exact ⟨b, hbk, ih v b hb⟩

/-- **(iii)** acyclic quoting of the document is acyclic quoting of its rule table -/
theorem doc_acyclic {doc : SDoc} (hn : IdsNodup doc) (hac : Spec.Star.AcyclicQuoting doc = true) :
    C13Fix.AcyclicQuoting (rulesOfDoc doc) = true := by
  simp only [Spec.Star.AcyclicQuoting, List.all_eq_true] at hac
  simp only [C13Fix.AcyclicQuoting, List.all_eq_true]
  intro r hr
  obtain ⟨tm, htm, hrt⟩ := mem_rulesOfDoc.mp hr
  rw [(mem_rulesOfTm_weak hrt).1]
  have := hac tm htm
  cases hd : depthOf doc (doc.tms.length + 1) tm.id with
  | none => simp [hd] at this
  | some k =>
    have hk := depthOf_lt doc _ _ _ hd
    have hlen : doc.tms.length ≤ (rulesOfDoc doc).length := by
      have := length_le_of_nodup_subset (doc.tms.map (fun t : STm => t.id)) (names (rulesOfDoc doc)) hn (fun x hx => by
        obtain ⟨tm', htm', rfl⟩ := List.mem_map.mp hx
        exact id_mem_names htm')
      simpa [names] using this
    exact depthLeT_mono_le _ _ (by omega) (depthOf_depthLeT hn _ _ _ hd)


/-! ### (i) the statements of a rule as a function of its complete unfolding -/

/-- what the four term maps of a (stripped) rule generate for a row.  A rule-table row carries its term maps as strings
    (`Model.mapOf`); `RuleSem` is their reading, tied to term maps by `SemAt`. -/
structure RuleSem where
  subj : Rule → Row → List Str
  pred : Rule → Row → List Str
  obj : Rule → Row → List Str
  graph : Rule → Row → List Str

/-- the logical table of a rule -/
def ruleTable (senv : SEnv) (r : Rule) : Table :=
  match senv.tables.find? (fun p => p.1 = (r.sourceName, r.logicalSourceValue)) with
  | some p => p.2
  | none => []

def rootTable (senv : SEnv) : QTree → Table
  | .nil => []
  | .node r _ _ => ruleTable senv r

def pairedT (senv : SEnv) (conds : List (Str × Str)) (ρ : Row) (tbl : Table) : List Row :=
  if conds.isEmpty then [ρ] else joinRows senv.na conds ρ tbl

/-- the terms at a position: the quoted triples of the unfolding below it (for the row itself, or the joined rows), or the terms
    of its own term map -/
def posT (senv : SEnv) (mt : MapType) (conds : List (Str × Str)) (sub : Row → List Str) (tbl : Table) (own : List Str) (ρ : Row) :
    List Str :=
  if mt = .quoted then (pairedT senv conds ρ tbl).flatMap fun ρ' => (sub ρ').map quote else own

/-- the triples `s p o` of a complete unfolding for a row -/
def treeTriples (senv : SEnv) (sem : RuleSem) : QTree → Row → List Str
  | .nil, _ => []
  | .node r s o, ρ =>
    if (sem.graph r ρ).isEmpty then [] else
    (posT senv r.subjectMapType r.subjectJoin (fun ρ' => treeTriples senv sem s ρ') (rootTable senv s) (sem.subj r ρ) ρ).flatMap fun s' =>
      (sem.pred r ρ).flatMap fun p =>
        (posT senv r.objectMapType r.objectJoin (fun ρ' => treeTriples senv sem o ρ') (rootTable senv o) (sem.obj r ρ) ρ).map fun o' =>
          renderTriple s' p o'

/-- the statements of a complete unfolding for a row -/
def treeLines (senv : SEnv) (sem : RuleSem) : QTree → Row → List Str
  | .nil, _ => []
  | .node r s o, ρ =>
    (posT senv r.subjectMapType r.subjectJoin (fun ρ' => treeTriples senv sem s ρ') (rootTable senv s) (sem.subj r ρ) ρ).flatMap fun s' =>
      (sem.pred r ρ).flatMap fun p =>
        (posT senv r.objectMapType r.objectJoin (fun ρ' => treeTriples senv sem o ρ') (rootTable senv o) (sem.obj r ρ) ρ).flatMap fun o' =>
          (sem.graph r ρ).map fun g => renderStmt senv.fmt s' p o' g

/-- `sem` reads the rule-table row of the flat rule `fr` as the term maps of `fr` -/
def SemAt (sem : RuleSem) (senv : SEnv) (fr : FlatRule) : Prop :=
  (∀ tm, fr.subject = .term tm → ∀ ρ, sem.subj (strip (toRule fr)) ρ = (genTerm senv.safe senv.na tm ρ).toList) ∧
  (∀ ρ, sem.pred (strip (toRule fr)) ρ = (genTerm senv.safe senv.na fr.pred ρ).toList) ∧
  (∀ tm, fr.object = .term tm → ∀ ρ, sem.obj (strip (toRule fr)) ρ = (genTerm senv.safe senv.na tm ρ).toList) ∧
  (∀ ρ, sem.graph (strip (toRule fr)) ρ = graphTerms senv [fr.graph] ρ)

/-- the unfoldings at one position, as `unfold` computes them -/
def subList (T : List Rule) (d : Nat) (mt : MapType) (v : Str) : List QTree :=
  if mt = .quoted then (T.filter (·.tmId = v)).flatMap (unfold T d) else [.nil]

theorem unfold_succ (T : List Rule) (d : Nat) (r : Rule) :
    unfold T (d + 1) r = (subList T d r.subjectMapType r.subjectMapValue).flatMap fun s =>
      (subList T d r.objectMapType r.objectMapValue).map fun o => .node (strip r) s o := rfl

theorem filter_id_toRule : ∀ (frs : List FlatRule), (frs.map (·.id)).Nodup → ∀ id q, findFlat frs id = some q →
    (frs.map toRule).filter (·.tmId = id) = [toRule q] := by
  intro frs
  induction frs with
  | nil => intro _ id q h; simp [findFlat] at h
  | cons a frs ih =>
    intro hn id q h
    simp only [List.map_cons, List.nodup_cons] at hn
    simp only [findFlat, List.find?_cons] at h
    by_cases ha : a.id = id
    · simp only [ha, decide_true, Option.some.injEq] at h
      subst h
      have : (frs.map toRule).filter (·.tmId = id) = [] := by
        apply List.filter_eq_nil_iff.mpr
        intro x hx hxv
        obtain ⟨f, hf, rfl⟩ := List.mem_map.mp hx
        exact hn.1 (List.mem_map.mpr ⟨f, hf, by rw [ha]; exact of_decide_eq_true hxv⟩)
      simp [toRule, ha, this]
    · simp only [ha, decide_false] at h
      have := ih hn.2 id q h
      simp only [List.map_cons, List.filter_cons]
      have hne : ¬ (toRule a).tmId = id := ha
      simp only [hne, decide_false, Bool.false_eq_true, ↓reduceIte]
      exact this

theorem posOf_term_ne_quoted (tm : TermMap) : (posOf (.term tm)).1 ≠ .quoted := mapOf_ne_quoted tm

/-- one position of a flat rule, read off the unfolding below it -/
theorem pos_of_tree (senv : SEnv) (sem : RuleSem) (frs : List FlatRule) (hnd : (frs.map (·.id)).Nodup) (d : Nat) (pos : Pos)
    (hq : ∀ id conds, pos = .quoted id conds → ∃ q trq, findFlat frs id = some q ∧ unfold (frs.map toRule) d (toRule q) = [trq] ∧
      rootTable senv trq = senv.tableF q ∧ ∀ ρ, flatTriples senv frs d q ρ = treeTriples senv sem trq ρ) :
    ∃ s, subList (frs.map toRule) d (posOf pos).1 (posOf pos).2.1 = [s] ∧
      ∀ ρ own, (∀ tm, pos = .term tm → own = (genTerm senv.safe senv.na tm ρ).toList) →
        flatPos senv frs d ρ pos = posT senv (posOf pos).1 (posOf pos).2.2.2 (fun ρ' => treeTriples senv sem s ρ') (rootTable senv s) own ρ := by
  cases pos with
  | term tm =>
    refine ⟨.nil, by simp [subList, posOf_term_ne_quoted], fun ρ own hown => ?_⟩
    simp [posT, posOf_term_ne_quoted, flatPos, hown tm rfl]
  | quoted id conds =>
    obtain ⟨q, trq, hfq, hun, htab, htr⟩ := hq id conds rfl
    refine ⟨trq, ?_, fun ρ own _ => ?_⟩
    · show subList (frs.map toRule) d .quoted id = [trq]
      unfold subList
      rw [if_pos rfl, filter_id_toRule frs hnd id q hfq]
      simp [hun]
    · simp only [flatPos, hfq, posT, posOf, ↓reduceIte, htab, htr]
      rfl

/-- **(i) The statements of a final flat rule are a function of its complete unfolding alone.**  In a table of flat rules with
    distinct names (what `_normalize_rml_star` returns: every rule its own triples map), a rule of quoting depth at most `n` has
    exactly ONE complete unfolding at every depth `d + 1 > n`, and the triples and statements the RML-star generation rules prescribe
    for it (`Spec.Star.flatTriples`, `Spec.Star.flatLines`) are `treeTriples`, `treeLines` of that unfolding: they do not depend on the
    names `#TM<i>` nor on the table otherwise. -/
theorem C13_flatLines_of_tree (senv : SEnv) (sem : RuleSem) (frs : List FlatRule) (hnd : (frs.map (·.id)).Nodup)
    (hsem : ∀ fr ∈ frs, SemAt sem senv fr) : ∀ (n : Nat) (fr : FlatRule), fr ∈ frs → depthLe frs n fr = true → ∀ d, n ≤ d →
    ∃ s o, unfold (frs.map toRule) (d + 1) (toRule fr) = [.node (strip (toRule fr)) s o] ∧
      ∀ ρ, flatTriples senv frs (d + 1) fr ρ = treeTriples senv sem (.node (strip (toRule fr)) s o) ρ ∧
        flatLines senv frs d fr ρ = treeLines senv sem (.node (strip (toRule fr)) s o) ρ := by
  -- from the two positions to the rule
  have combine : ∀ (fr : FlatRule) (d : Nat), fr ∈ frs →
      (∀ pos, pos = fr.subject ∨ pos = fr.object → ∀ id conds, pos = .quoted id conds → ∃ q trq, findFlat frs id = some q ∧
        unfold (frs.map toRule) d (toRule q) = [trq] ∧ rootTable senv trq = senv.tableF q ∧
        ∀ ρ, flatTriples senv frs d q ρ = treeTriples senv sem trq ρ) →
      ∃ s o, unfold (frs.map toRule) (d + 1) (toRule fr) = [.node (strip (toRule fr)) s o] ∧
        ∀ ρ, flatTriples senv frs (d + 1) fr ρ = treeTriples senv sem (.node (strip (toRule fr)) s o) ρ ∧
          flatLines senv frs d fr ρ = treeLines senv sem (.node (strip (toRule fr)) s o) ρ := by
    intro fr d hfr hpos
    obtain ⟨s, hs, hsp⟩ := pos_of_tree senv sem frs hnd d fr.subject (hpos _ (.inl rfl))
    obtain ⟨o, ho, hop⟩ := pos_of_tree senv sem frs hnd d fr.object (hpos _ (.inr rfl))
    obtain ⟨h1, h2, h3, h4⟩ := hsem fr hfr
    refine ⟨s, o, ?_, fun ρ => ⟨?_, ?_⟩⟩
    · rw [unfold_succ]
      show (subList _ d (posOf fr.subject).1 (posOf fr.subject).2.1).flatMap _ = _
      rw [hs]
      show ((subList _ d (posOf fr.object).1 (posOf fr.object).2.1).map _) ++ [] = _
      rw [ho]
      rfl
    · rw [flatTriples_succ, hsp ρ (sem.subj (strip (toRule fr)) ρ) (fun tm e => h1 tm e ρ),
        hop ρ (sem.obj (strip (toRule fr)) ρ) (fun tm e => h3 tm e ρ)]
      simp only [treeTriples, h2 ρ, h4 ρ]
      rfl
    · simp only [flatLines]
      rw [hsp ρ (sem.subj (strip (toRule fr)) ρ) (fun tm e => h1 tm e ρ),
        hop ρ (sem.obj (strip (toRule fr)) ρ) (fun tm e => h3 tm e ρ)]
      simp only [treeLines, h2 ρ, h4 ρ]
      rfl
  intro n
  induction n with
  | zero =>
    intro fr hfr hd d _
    obtain ⟨hs, ho⟩ := depthLe_zero_pos hd
    apply combine fr d hfr
    rintro pos (rfl | rfl) id conds e
    · exact absurd e (hs id conds)
    · exact absurd e (ho id conds)
  | succ n ih =>
    intro fr hfr hd d hnd'
    obtain ⟨hs, ho⟩ := depthLe_succ_pos hd
    obtain ⟨d', rfl⟩ : ∃ d', d = d' + 1 := ⟨d - 1, by omega⟩
    have sub : ∀ id q, findFlat frs id = some q → depthLe frs n q = true → ∃ trq, unfold (frs.map toRule) (d' + 1) (toRule q) = [trq] ∧
        rootTable senv trq = senv.tableF q ∧ ∀ ρ, flatTriples senv frs (d' + 1) q ρ = treeTriples senv sem trq ρ := by
      intro id q hfq hqd
      obtain ⟨s, o, hun, hsem'⟩ := ih q (List.mem_of_find?_eq_some hfq) hqd d' (by omega)
      exact ⟨_, hun, rfl, fun ρ => (hsem' ρ).1⟩
    apply combine fr (d' + 1) hfr
    rintro pos (rfl | rfl) id conds e
    · obtain ⟨q, hfq, hqd⟩ := hs id conds e
      obtain ⟨trq, h1, h2, h3⟩ := sub id q hfq hqd
      exact ⟨q, trq, hfq, h1, h2, h3⟩
    · obtain ⟨q, hfq, hqd⟩ := ho id conds e
      obtain ⟨trq, h1, h2, h3⟩ := sub id q hfq hqd
      exact ⟨q, trq, hfq, h1, h2, h3⟩

/-! ### (ii) the same reading of the document-level rules -/

/-- the environment names the default graph and `rdf:type` as the parser does -/
def SEnvStd (senv : SEnv) : Prop := senv.defaultGraph = defaultGraphIri ∧ senv.rdfType = rdfTypeIri
instance (senv : SEnv) : Decidable (SEnvStd senv) := by unfold SEnvStd; infer_instance

def dfltG (senv : SEnv) : TermMap := { kind := .constant, value := senv.defaultGraph, termType := .iri }

/-- the graph maps a combination is expanded to: its own, or the default graph -/
def graphsFor (senv : SEnv) (gs : List TermMap) : List TermMap := if gs = [] then [dfltG senv] else gs

def mkFlat (tm : STm) (p : TermMap) (o : Pos) (g : TermMap) : FlatRule :=
  { id := tm.id, asserted := tm.asserted, sourceName := tm.sourceName, lsv := tm.lsv, subject := tm.subject, pred := p, object := o,
    graph := g }

/-- the flat rules of a triples map: one per combination (`Spec.Star.combos`) and applicable graph map -/
def flatOfTm (senv : SEnv) (tm : STm) : List FlatRule :=
  (combos senv tm).flatMap fun c => (graphsFor senv c.2.2).map fun g => mkFlat tm c.1 c.2.1 g

def docFlat (senv : SEnv) (doc : SDoc) : List FlatRule := doc.tms.flatMap (flatOfTm senv)

/-- every triples map has a class or a predicate-object pair (otherwise `_complete_triples_map_class` types it non-asserted and the
    rule table carries a rule without predicate-object map for it) -/
def NonEmptyTms (senv : SEnv) (doc : SDoc) : Bool := doc.tms.all fun tm => !(combos senv tm).isEmpty

/-- the rules of a triples map before the test `rs = []` -/
def rsOf (tm : STm) : List Rule :=
  let b := baseRuleS tm
  let classRules := tm.classes.flatMap fun c =>
    (graphsOf tm []).map fun g =>
      { b with predicateMapType := .constant, predicateMapValue := rdfTypeIri,
               objectMapType := .constant, objectMapValue := c, objectTermtype := .iri,
               graphMapType := g.1, graphMapValue := g.2 }
  let pomRules := tm.poms.flatMap fun pom =>
    pom.predicates.flatMap fun p => pom.objects.flatMap fun o => (graphsOf tm pom.graphs).map fun g =>
      let (pt, pv) := mapOf p
      match o with
      | .term otm =>
        let (ot, ov) := mapOf otm
        let (ld, ldt, ldv) := langDt otm
        { b with predicateMapType := pt, predicateMapValue := pv, objectMapType := ot, objectMapValue := ov,
                 objectTermtype := otm.termType, langDatatype := ld, langDatatypeMapType := ldt, langDatatypeMapValue := ldv,
                 graphMapType := g.1, graphMapValue := g.2 }
      | .quoted id conds =>
        { b with predicateMapType := pt, predicateMapValue := pv, objectMapType := .quoted, objectMapValue := id,
                 objectTermtype := .star, objectJoin := conds, graphMapType := g.1, graphMapValue := g.2 }
  classRules ++ pomRules

theorem rulesOfTm_eq (tm : STm) :
    Model.Star.rulesOfTm tm = if rsOf tm = [] then [{ baseRuleS tm with asserted := false }] else rsOf tm := rfl

theorem mem_graphsOf {senv : SEnv} (hstd : SEnvStd senv) (tm : STm) (own : List TermMap) (g : MapType × Str) :
    g ∈ graphsOf tm own ↔ ∃ g' ∈ graphsFor senv (tm.graphs ++ own), mapOf g' = g := by
  unfold graphsOf graphsFor
  simp only
  by_cases h : tm.graphs ++ own = []
  · simp only [h, List.map_nil, ↓reduceIte, List.mem_singleton]
    constructor
    · rintro rfl; exact ⟨_, rfl, by simp [dfltG, mapOf, hstd.1]⟩
    · rintro ⟨_, rfl, rfl⟩; simp [dfltG, mapOf, hstd.1]
  · have h' : (tm.graphs ++ own).map mapOf ≠ [] := by simpa using h
    simp only [h, h', ↓reduceIte, Py.mem_dedupFirst, List.mem_map]

theorem toRule_class {senv : SEnv} (hstd : SEnvStd senv) (tm : STm) (c : Str) (g : TermMap) :
    toRule (mkFlat tm (classPred senv) (.term { kind := .constant, value := c, termType := .iri }) g) =
      { baseRuleS tm with predicateMapType := .constant, predicateMapValue := rdfTypeIri, objectMapType := .constant, objectMapValue := c, objectTermtype := .iri, graphMapType := (mapOf g).1, graphMapValue := (mapOf g).2 } := by
  have h : (mapOf (classPred senv)) = (.constant, rdfTypeIri) := by simp [classPred, mapOf, hstd.2]
  show ({ toRule (mkFlat tm (classPred senv) (.term { kind := .constant, value := c, termType := .iri }) g) with
    predicateMapType := (mapOf (classPred senv)).1, predicateMapValue := (mapOf (classPred senv)).2 } : Rule) = _
  rw [h]
  rfl

theorem toRule_pom (tm : STm) (p : TermMap) (o : Pos) (g : TermMap) :
    toRule (mkFlat tm p o g) = (match o with
      | .term otm =>
        { baseRuleS tm with predicateMapType := (mapOf p).1, predicateMapValue := (mapOf p).2, objectMapType := (mapOf otm).1, objectMapValue := (mapOf otm).2, objectTermtype := otm.termType, langDatatype := (langDt otm).1, langDatatypeMapType := (langDt otm).2.1, langDatatypeMapValue := (langDt otm).2.2, graphMapType := (mapOf g).1, graphMapValue := (mapOf g).2 }
      | .quoted id conds =>
        { baseRuleS tm with predicateMapType := (mapOf p).1, predicateMapValue := (mapOf p).2, objectMapType := .quoted, objectMapValue := id, objectTermtype := .star, objectJoin := conds, graphMapType := (mapOf g).1, graphMapValue := (mapOf g).2 }) := by
  cases o <;> rfl

/-- the rules of a triples map are the rule-table rows of its flat rules -/
theorem mem_rsOf {senv : SEnv} (hstd : SEnvStd senv) (tm : STm) (r : Rule) :
    r ∈ rsOf tm ↔ ∃ fr ∈ flatOfTm senv tm, toRule fr = r := by
  simp only [rsOf, flatOfTm, combos, List.mem_append, List.mem_flatMap, List.mem_map, mem_graphsOf hstd]
  constructor
  · rintro (⟨c, hc, g, ⟨g', hg', rfl⟩, rfl⟩ | ⟨pom, hpom, p, hp, o, ho, g, ⟨g', hg', rfl⟩, rfl⟩)
    · refine ⟨_, ⟨(classPred senv, _, tm.graphs), .inl ⟨c, hc, rfl⟩, g', by simpa using hg', rfl⟩, ?_⟩
      exact toRule_class hstd tm c g'
    · refine ⟨_, ⟨(p, o, tm.graphs ++ pom.graphs), .inr ⟨pom, hpom, p, hp, o, ho, rfl⟩, g', hg', rfl⟩, ?_⟩
      rw [toRule_pom]
  · rintro ⟨fr, ⟨c, hc | hc, g', hg', rfl⟩, rfl⟩
    · obtain ⟨c', hc', rfl⟩ := hc
      exact .inl ⟨c', hc', _, ⟨g', by simpa using hg', rfl⟩, (toRule_class hstd tm c' g').symm⟩
    · obtain ⟨pom, hpom, p, hp, o, ho, rfl⟩ := hc
      refine .inr ⟨pom, hpom, p, hp, o, ho, _, ⟨g', hg', rfl⟩, ?_⟩
      rw [toRule_pom]

theorem mem_flatOfTm {senv : SEnv} {tm : STm} {fr : FlatRule} :
    fr ∈ flatOfTm senv tm ↔ ∃ c ∈ combos senv tm, ∃ g ∈ graphsFor senv c.2.2, fr = mkFlat tm c.1 c.2.1 g := by
  simp only [flatOfTm, List.mem_flatMap, List.mem_map]
  constructor
  · rintro ⟨c, hc, g, hg, rfl⟩; exact ⟨c, hc, g, hg, rfl⟩
  · rintro ⟨c, hc, g, hg, rfl⟩; exact ⟨c, hc, g, hg, rfl⟩

theorem graphsFor_ne_nil (senv : SEnv) (gs : List TermMap) : graphsFor senv gs ≠ [] := by
  unfold graphsFor; split <;> simp_all

theorem mem_rulesOfTm_iff {senv : SEnv} (hstd : SEnvStd senv) {tm : STm} (hne : combos senv tm ≠ []) (r : Rule) :
    r ∈ Model.Star.rulesOfTm tm ↔ ∃ fr ∈ flatOfTm senv tm, toRule fr = r := by
  rw [rulesOfTm_eq]
  have hrs : rsOf tm ≠ [] := by
    obtain ⟨c, hc⟩ := List.exists_mem_of_ne_nil _ hne
    obtain ⟨g, hg⟩ := List.exists_mem_of_ne_nil _ (graphsFor_ne_nil senv c.2.2)
    have : toRule (mkFlat tm c.1 c.2.1 g) ∈ rsOf tm := (mem_rsOf hstd tm _).mpr ⟨_, mem_flatOfTm.mpr ⟨c, hc, g, hg, rfl⟩, rfl⟩
    exact List.ne_nil_of_mem this
  rw [if_neg hrs]
  exact mem_rsOf hstd tm r

theorem mem_graphTerms_iff (senv : SEnv) (gs : List TermMap) (ρ : Row) (x : Str) :
    x ∈ graphTerms senv gs ρ ↔ ∃ g ∈ graphsFor senv gs, x ∈ graphTerms senv [g] ρ := by
  unfold graphTerms graphsFor
  by_cases h : gs = []
  · subst h; simp [dfltG, isDefaultGraph]
  · simp only [h, ↓reduceIte, List.mem_filterMap, List.cons_ne_self, List.filterMap_cons, List.filterMap_nil]
    constructor
    · rintro ⟨g, hg, hx⟩; exact ⟨g, hg, by simp [hx]⟩
    · rintro ⟨g, hg, hx⟩
      refine ⟨g, hg, ?_⟩
      split at hx <;> simp_all

theorem rules_of_id {doc : SDoc} (hn : IdsNodup doc) {id : Str} {tm : STm} (hf : doc.find id = some tm) {r : Rule} :
    (r ∈ rulesOfDoc doc ∧ r.tmId = id) ↔ r ∈ Model.Star.rulesOfTm tm := by
  obtain ⟨htm, hid⟩ := find_some hf
  constructor
  · rintro ⟨hr, ht⟩
    obtain ⟨tm', htm', hrt⟩ := mem_rulesOfDoc.mp hr
    have h1 : tm'.id = id := by rw [← (mem_rulesOfTm_weak hrt).1, ht]
    have h2 := find_of_mem hn htm'
    rw [h1, hf] at h2
    cases h2
    exact hrt
  · intro hrt
    exact ⟨mem_rulesOfDoc.mpr ⟨tm, htm, hrt⟩, by rw [(mem_rulesOfTm_weak hrt).1, hid]⟩

theorem root_of_unfold {T : List Rule} {d : Nat} {r : Rule} {tr : QTree} (h : tr ∈ unfold T d r) :
    ∃ s o, tr = .node (strip r) s o := by
  cases d with
  | zero => simp [unfold] at h
  | succ d => obtain ⟨s, o, _, _, rfl⟩ := (mem_unfold_succ T d r tr).mp h; exact ⟨s, o, rfl⟩

theorem mem_treeTriples_node (senv : SEnv) (sem : RuleSem) (r : Rule) (s o : QTree) (ρ : Row) (t : Str) :
    t ∈ treeTriples senv sem (.node r s o) ρ ↔ sem.graph r ρ ≠ [] ∧
      ∃ s' ∈ posT senv r.subjectMapType r.subjectJoin (fun ρ' => treeTriples senv sem s ρ') (rootTable senv s) (sem.subj r ρ) ρ,
      ∃ p ∈ sem.pred r ρ,
      ∃ o' ∈ posT senv r.objectMapType r.objectJoin (fun ρ' => treeTriples senv sem o ρ') (rootTable senv o) (sem.obj r ρ) ρ,
        t = renderTriple s' p o' := by
  simp only [treeTriples]
  split
  · rename_i h; simp [List.isEmpty_iff.mp h]
  · rename_i h
    have : sem.graph r ρ ≠ [] := fun e => h (by simp [e])
    simp only [List.mem_flatMap, List.mem_map, this, ne_eq, not_false_eq_true, true_and]
    constructor
    · rintro ⟨s', hs', p, hp, o', ho', rfl⟩; exact ⟨s', hs', p, hp, o', ho', rfl⟩
    · rintro ⟨s', hs', p, hp, o', ho', rfl⟩; exact ⟨s', hs', p, hp, o', ho', rfl⟩

theorem mem_treeLines_node (senv : SEnv) (sem : RuleSem) (r : Rule) (s o : QTree) (ρ : Row) (line : Str) :
    line ∈ treeLines senv sem (.node r s o) ρ ↔
      ∃ s' ∈ posT senv r.subjectMapType r.subjectJoin (fun ρ' => treeTriples senv sem s ρ') (rootTable senv s) (sem.subj r ρ) ρ,
      ∃ p ∈ sem.pred r ρ,
      ∃ o' ∈ posT senv r.objectMapType r.objectJoin (fun ρ' => treeTriples senv sem o ρ') (rootTable senv o) (sem.obj r ρ) ρ,
      ∃ g ∈ sem.graph r ρ, line = renderStmt senv.fmt s' p o' g := by
  simp only [treeLines, List.mem_flatMap, List.mem_map]
  constructor
  · rintro ⟨s', hs', p, hp, o', ho', g, hg, rfl⟩; exact ⟨s', hs', p, hp, o', ho', g, hg, rfl⟩
  · rintro ⟨s', hs', p, hp, o', ho', g, hg, rfl⟩; exact ⟨s', hs', p, hp, o', ho', g, hg, rfl⟩

theorem triplesOf_succ (senv : SEnv) (doc : SDoc) (d : Nat) (tm : STm) (ρ : Row) :
    triplesOf senv doc (d + 1) tm ρ = (combos senv tm).flatMap fun c =>
      if (graphTerms senv c.2.2 ρ).isEmpty then [] else
      (posTerms senv doc d ρ tm.subject).flatMap fun s =>
        (genTerm senv.safe senv.na c.1 ρ).toList.flatMap fun p =>
          (posTerms senv doc d ρ c.2.1).map fun o => renderTriple s p o := by
  simp only [triplesOf, posTerms]

theorem mem_triplesOf_succ (senv : SEnv) (doc : SDoc) (d : Nat) (tm : STm) (ρ : Row) (t : Str) :
    t ∈ triplesOf senv doc (d + 1) tm ρ ↔ ∃ c ∈ combos senv tm, graphTerms senv c.2.2 ρ ≠ [] ∧
      ∃ s' ∈ posTerms senv doc d ρ tm.subject, ∃ p ∈ (genTerm senv.safe senv.na c.1 ρ).toList,
      ∃ o' ∈ posTerms senv doc d ρ c.2.1, t = renderTriple s' p o' := by
  rw [triplesOf_succ]
  simp only [List.mem_flatMap]
  constructor
  · rintro ⟨c, hc, h⟩
    split at h
    · cases h
    · rename_i hg
      simp only [List.mem_flatMap, List.mem_map] at h
      obtain ⟨s', hs', p, hp, o', ho', rfl⟩ := h
      exact ⟨c, hc, fun e => hg (by simp [e]), s', hs', p, hp, o', ho', rfl⟩
  · rintro ⟨c, hc, hg, s', hs', p, hp, o', ho', rfl⟩
    refine ⟨c, hc, ?_⟩
    have : (graphTerms senv c.2.2 ρ).isEmpty = false := by simpa [List.isEmpty_iff] using hg
    simp only [this, Bool.false_eq_true, ↓reduceIte, List.mem_flatMap, List.mem_map]
    exact ⟨s', hs', p, hp, o', ho', rfl⟩

theorem mem_stmtsOf (senv : SEnv) (doc : SDoc) (d : Nat) (tm : STm) (ρ : Row) (line : Str) :
    line ∈ stmtsOf senv doc d tm ρ ↔ ∃ c ∈ combos senv tm,
      ∃ s' ∈ posTerms senv doc d ρ tm.subject, ∃ p ∈ (genTerm senv.safe senv.na c.1 ρ).toList,
      ∃ o' ∈ posTerms senv doc d ρ c.2.1, ∃ g ∈ graphTerms senv c.2.2 ρ, line = renderStmt senv.fmt s' p o' g := by
  simp only [stmtsOf, List.mem_flatMap, List.mem_map]
  constructor
  · rintro ⟨c, hc, s', hs', p, hp, o', ho', g, hg, rfl⟩; exact ⟨c, hc, s', hs', p, hp, o', ho', g, hg, rfl⟩
  · rintro ⟨c, hc, s', hs', p, hp, o', ho', g, hg, rfl⟩; exact ⟨c, hc, s', hs', p, hp, o', ho', g, hg, rfl⟩

/-- the hypotheses of the document-level reading -/
structure DocSem (senv : SEnv) (sem : RuleSem) (doc : SDoc) : Prop where
  nodup : IdsNodup doc
  std : SEnvStd senv
  nonempty : NonEmptyTms senv doc = true
  sem : ∀ fr ∈ docFlat senv doc, SemAt sem senv fr

theorem DocSem.combos_ne {senv : SEnv} {sem : RuleSem} {doc : SDoc} (h : DocSem senv sem doc) {tm : STm} (htm : tm ∈ doc.tms) :
    combos senv tm ≠ [] := by
  have := h.nonempty
  simp only [NonEmptyTms, List.all_eq_true] at this
  have := this tm htm
  intro e
  simp [e] at this

theorem toRule_mem_doc {senv : SEnv} {sem : RuleSem} {doc : SDoc} (h : DocSem senv sem doc) {tm : STm} (htm : tm ∈ doc.tms)
    {fr : FlatRule} (hfr : fr ∈ flatOfTm senv tm) : toRule fr ∈ rulesOfDoc doc ∧ (toRule fr).tmId = tm.id := by
  have hr : toRule fr ∈ Model.Star.rulesOfTm tm := (mem_rulesOfTm_iff h.std (h.combos_ne htm) _).mpr ⟨fr, hfr, rfl⟩
  exact ⟨mem_rulesOfDoc.mpr ⟨tm, htm, hr⟩, (mem_rulesOfTm_weak hr).1⟩

theorem ruleTable_flat {senv : SEnv} {tm : STm} {fr : FlatRule} (hfr : fr ∈ flatOfTm senv tm) :
    ruleTable senv (strip (toRule fr)) = senv.tableS tm := by
  obtain ⟨c, _, g, _, rfl⟩ := mem_flatOfTm.mp hfr
  rfl

/-- one position of a triples map, read off the unfoldings below it -/
theorem doc_pos {senv : SEnv} {sem : RuleSem} {doc : SDoc} (h : DocSem senv sem doc) (d : Nat)
    (Hd : ∀ tm ∈ doc.tms, ∀ ρ t, t ∈ triplesOf senv doc d tm ρ ↔
      ∃ fr ∈ flatOfTm senv tm, ∃ tr ∈ unfold (rulesOfDoc doc) d (toRule fr), t ∈ treeTriples senv sem tr ρ)
    (pos : Pos) (ρ : Row) (own : List Str) (hown : ∀ tm', pos = .term tm' → own = (genTerm senv.safe senv.na tm' ρ).toList) (x : Str) :
    x ∈ posTerms senv doc d ρ pos ↔ ∃ s, subOK (rulesOfDoc doc) d (posOf pos).1 (posOf pos).2.1 s ∧
      x ∈ posT senv (posOf pos).1 (posOf pos).2.2.2 (fun ρ' => treeTriples senv sem s ρ') (rootTable senv s) own ρ := by
  cases pos with
  | term tm' =>
    simp only [posTerms, subOK, posT, posOf_term_ne_quoted, ↓reduceIte, hown tm' rfl]
    constructor
    · intro hx; exact ⟨.nil, rfl, hx⟩
    · rintro ⟨_, _, hx⟩; exact hx
  | quoted id conds =>
    show x ∈ posTerms senv doc d ρ (.quoted id conds) ↔ ∃ s, subOK (rulesOfDoc doc) d .quoted id s ∧
      x ∈ posT senv .quoted conds (fun ρ' => treeTriples senv sem s ρ') (rootTable senv s) own ρ
    simp only [posTerms, subOK, posT, ↓reduceIte]
    cases hf : doc.find id with
    | none =>
      simp only [List.not_mem_nil, false_iff]
      rintro ⟨s, ⟨q, hq, hqid, _⟩, _⟩
      obtain ⟨tm', htm', hrt⟩ := mem_rulesOfDoc.mp hq
      exact find_none hf tm' htm' (by rw [← (mem_rulesOfTm_weak hrt).1, hqid])
    | some qtm =>
      obtain ⟨hqtm, hqid⟩ := find_some hf
      simp only [List.mem_flatMap, List.mem_map]
      constructor
      · rintro ⟨ρ', hρ', t, ht, rfl⟩
        obtain ⟨fr, hfr, tr, htr, htt⟩ := (Hd qtm hqtm ρ' t).mp ht
        obtain ⟨hT, hTid⟩ := toRule_mem_doc h hqtm hfr
        obtain ⟨s1, o1, rfl⟩ := root_of_unfold htr
        refine ⟨_, ⟨toRule fr, hT, by rw [hTid, hqid], htr⟩, ρ', ?_, t, htt, rfl⟩
        show ρ' ∈ pairedT senv conds ρ (ruleTable senv (strip (toRule fr)))
        rw [ruleTable_flat hfr]
        exact hρ'
      · rintro ⟨s, ⟨q, hq, hqid', hs⟩, ρ', hρ', t, ht, rfl⟩
        have hqr := (rules_of_id h.nodup hf).mp ⟨hq, hqid'⟩
        obtain ⟨fr, hfr, rfl⟩ := (mem_rulesOfTm_iff h.std (h.combos_ne hqtm) q).mp hqr
        obtain ⟨s1, o1, rfl⟩ := root_of_unfold hs
        refine ⟨ρ', ?_, t, (Hd qtm hqtm ρ' t).mpr ⟨fr, hfr, _, hs, ht⟩, rfl⟩
        have : ρ' ∈ pairedT senv conds ρ (ruleTable senv (strip (toRule fr))) := hρ'
        rw [ruleTable_flat hfr] at this
        exact this

/-- one flat rule of the document: its unfoldings one level up, in terms of the terms at its two positions -/
theorem doc_rule {senv : SEnv} {sem : RuleSem} {doc : SDoc} (h : DocSem senv sem doc) (d : Nat)
    (Hd : ∀ tm ∈ doc.tms, ∀ ρ t, t ∈ triplesOf senv doc d tm ρ ↔
      ∃ fr ∈ flatOfTm senv tm, ∃ tr ∈ unfold (rulesOfDoc doc) d (toRule fr), t ∈ treeTriples senv sem tr ρ)
    {tm : STm} (htm : tm ∈ doc.tms) (c : TermMap × Pos × List TermMap) (hc : c ∈ combos senv tm) (g : TermMap)
    (hg : g ∈ graphsFor senv c.2.2) (ρ : Row) :
    (∀ t, (∃ tr ∈ unfold (rulesOfDoc doc) (d + 1) (toRule (mkFlat tm c.1 c.2.1 g)), t ∈ treeTriples senv sem tr ρ) ↔
      graphTerms senv [g] ρ ≠ [] ∧ ∃ s' ∈ posTerms senv doc d ρ tm.subject, ∃ p ∈ (genTerm senv.safe senv.na c.1 ρ).toList,
        ∃ o' ∈ posTerms senv doc d ρ c.2.1, t = renderTriple s' p o') ∧
    (∀ line, (∃ tr ∈ unfold (rulesOfDoc doc) (d + 1) (toRule (mkFlat tm c.1 c.2.1 g)), line ∈ treeLines senv sem tr ρ) ↔
      ∃ s' ∈ posTerms senv doc d ρ tm.subject, ∃ p ∈ (genTerm senv.safe senv.na c.1 ρ).toList,
        ∃ o' ∈ posTerms senv doc d ρ c.2.1, ∃ x ∈ graphTerms senv [g] ρ, line = renderStmt senv.fmt s' p o' x) := by
  have hfr : mkFlat tm c.1 c.2.1 g ∈ flatOfTm senv tm := mem_flatOfTm.mpr ⟨c, hc, g, hg, rfl⟩
  obtain ⟨h1, h2, h3, h4⟩ := h.sem _ (List.mem_flatMap.mpr ⟨tm, htm, hfr⟩)
  have hS := doc_pos h d Hd tm.subject ρ (sem.subj (strip (toRule (mkFlat tm c.1 c.2.1 g))) ρ) (fun tm' e => h1 tm' e ρ)
  have hO := doc_pos h d Hd c.2.1 ρ (sem.obj (strip (toRule (mkFlat tm c.1 c.2.1 g))) ρ) (fun tm' e => h3 tm' e ρ)
  constructor
  · intro t
    constructor
    · rintro ⟨tr, htr, ht⟩
      obtain ⟨s, o, hs, ho, rfl⟩ := (mem_unfold_succ _ d _ tr).mp htr
      obtain ⟨hgne, s', hs', p, hp, o', ho', rfl⟩ := (mem_treeTriples_node senv sem _ s o ρ t).mp ht
      rw [h4] at hgne
      rw [h2] at hp
      exact ⟨hgne, s', (hS s').mpr ⟨s, hs, hs'⟩, p, hp, o', (hO o').mpr ⟨o, ho, ho'⟩, rfl⟩
    · rintro ⟨hgne, s', hs', p, hp, o', ho', rfl⟩
      obtain ⟨s, hs, hs''⟩ := (hS s').mp hs'
      obtain ⟨o, ho, ho''⟩ := (hO o').mp ho'
      refine ⟨.node (strip (toRule (mkFlat tm c.1 c.2.1 g))) s o, (mem_unfold_succ _ d _ _).mpr ⟨s, o, hs, ho, rfl⟩, ?_⟩
      refine (mem_treeTriples_node senv sem _ s o ρ _).mpr ⟨by rw [h4]; exact hgne, s', hs'', p, by rw [h2]; exact hp, o', ho'', rfl⟩
  · intro line
    constructor
    · rintro ⟨tr, htr, ht⟩
      obtain ⟨s, o, hs, ho, rfl⟩ := (mem_unfold_succ _ d _ tr).mp htr
      obtain ⟨s', hs', p, hp, o', ho', x, hx, rfl⟩ := (mem_treeLines_node senv sem _ s o ρ line).mp ht
      rw [h4] at hx
      rw [h2] at hp
      exact ⟨s', (hS s').mpr ⟨s, hs, hs'⟩, p, hp, o', (hO o').mpr ⟨o, ho, ho'⟩, x, hx, rfl⟩
    · rintro ⟨s', hs', p, hp, o', ho', x, hx, rfl⟩
      obtain ⟨s, hs, hs''⟩ := (hS s').mp hs'
      obtain ⟨o, ho, ho''⟩ := (hO o').mp ho'
      refine ⟨.node (strip (toRule (mkFlat tm c.1 c.2.1 g))) s o, (mem_unfold_succ _ d _ _).mpr ⟨s, o, hs, ho, rfl⟩, ?_⟩
      refine (mem_treeLines_node senv sem _ s o ρ _).mpr ⟨s', hs'', p, by rw [h2]; exact hp, o', ho'', x, by rw [h4]; exact hx, rfl⟩

/-- the triples a triples map generates for a row, to quoting depth `d`: those of the complete unfoldings (to depth `d`) of its rules in
    the rule table of the document -/
theorem doc_triples_of_trees {senv : SEnv} {sem : RuleSem} {doc : SDoc} (h : DocSem senv sem doc) : ∀ (d : Nat),
    ∀ tm ∈ doc.tms, ∀ ρ t, t ∈ triplesOf senv doc d tm ρ ↔
      ∃ fr ∈ flatOfTm senv tm, ∃ tr ∈ unfold (rulesOfDoc doc) d (toRule fr), t ∈ treeTriples senv sem tr ρ
  | 0 => by intro tm _ ρ t; simp [triplesOf, unfold]
  | d + 1 => by
    intro tm htm ρ t
    have Hd := doc_triples_of_trees h d
    rw [mem_triplesOf_succ]
    constructor
    · rintro ⟨c, hc, hgne, rest⟩
      obtain ⟨x, hx⟩ := List.exists_mem_of_ne_nil _ hgne
      obtain ⟨g, hg, hxg⟩ := (mem_graphTerms_iff senv c.2.2 ρ x).mp hx
      exact ⟨mkFlat tm c.1 c.2.1 g, mem_flatOfTm.mpr ⟨c, hc, g, hg, rfl⟩,
        ((doc_rule h d Hd htm c hc g hg ρ).1 t).mpr ⟨List.ne_nil_of_mem hxg, rest⟩⟩
    · rintro ⟨fr, hfr, htr⟩
      obtain ⟨c, hc, g, hg, rfl⟩ := mem_flatOfTm.mp hfr
      obtain ⟨hgne, rest⟩ := ((doc_rule h d Hd htm c hc g hg ρ).1 t).mp htr
      obtain ⟨x, hx⟩ := List.exists_mem_of_ne_nil _ hgne
      exact ⟨c, hc, List.ne_nil_of_mem ((mem_graphTerms_iff senv c.2.2 ρ x).mpr ⟨g, hg, hx⟩), rest⟩

/-- **(ii) The statements of a triples map are those of the complete unfoldings of its rules.**  The statements the RML-star generation
    rules prescribe for a triples map and a row (`Spec.Star.stmtsOf`, quoting followed to depth `d`) are exactly the statements
    (`treeLines`) of the complete unfoldings, to depth `d + 1`, of the rules of the triples map in the rule table of the document — the
    reading `C13_flatLines_of_tree` gives of the final table. -/
theorem C13_stmtsOf_of_trees {senv : SEnv} {sem : RuleSem} {doc : SDoc} (h : DocSem senv sem doc) (d : Nat) {tm : STm}
    (htm : tm ∈ doc.tms) (ρ : Row) (line : Str) :
    line ∈ stmtsOf senv doc d tm ρ ↔
      ∃ fr ∈ flatOfTm senv tm, ∃ tr ∈ unfold (rulesOfDoc doc) (d + 1) (toRule fr), line ∈ treeLines senv sem tr ρ := by
  have Hd := doc_triples_of_trees h d
  rw [mem_stmtsOf]
  constructor
  · rintro ⟨c, hc, s', hs', p, hp, o', ho', x, hx, rfl⟩
    obtain ⟨g, hg, hxg⟩ := (mem_graphTerms_iff senv c.2.2 ρ x).mp hx
    exact ⟨mkFlat tm c.1 c.2.1 g, mem_flatOfTm.mpr ⟨c, hc, g, hg, rfl⟩,
      ((doc_rule h d Hd htm c hc g hg ρ).2 _).mpr ⟨s', hs', p, hp, o', ho', x, hxg, rfl⟩⟩
  · rintro ⟨fr, hfr, htr⟩
    obtain ⟨c, hc, g, hg, rfl⟩ := mem_flatOfTm.mp hfr
    obtain ⟨s', hs', p, hp, o', ho', x, hx, rfl⟩ := ((doc_rule h d Hd htm c hc g hg ρ).2 _).mp htr
    exact ⟨c, hc, s', hs', p, hp, o', ho', x, (mem_graphTerms_iff senv c.2.2 ρ x).mpr ⟨g, hg, hx⟩, rfl⟩

/-! ### the two readings meet in the forest of complete unfoldings -/

def rootAsserted : QTree → Bool
  | .nil => false
  | .node r _ _ => r.asserted

/-- the statements of a forest of complete unfoldings: those of the trees whose root rule is asserted, over the rows of the root
    rule's logical table -/
def forestLines (senv : SEnv) (sem : RuleSem) (trees : List QTree) (line : Str) : Prop :=
  ∃ tr ∈ trees, rootAsserted tr = true ∧ ∃ ρ ∈ rootTable senv tr, line ∈ treeLines senv sem tr ρ

theorem flat_asserted {senv : SEnv} {tm : STm} {fr : FlatRule} (hfr : fr ∈ flatOfTm senv tm) :
    (strip (toRule fr)).asserted = tm.asserted := by
  obtain ⟨c, _, g, _, rfl⟩ := mem_flatOfTm.mp hfr
  rfl

/-- the document-level rules, read over the complete unfoldings of the rule table of the document -/
theorem evalDoc_forest {senv : SEnv} {sem : RuleSem} {doc : SDoc} (h : DocSem senv sem doc) (d : Nat) (line : Str) :
    line ∈ Spec.Star.evalDoc senv doc d ↔ forestLines senv sem (allUnfold (rulesOfDoc doc) (d + 1)) line := by
  simp only [Spec.Star.evalDoc, List.mem_flatMap, List.mem_filter, forestLines, allUnfold]
  constructor
  · rintro ⟨tm, ⟨htm, ha⟩, ρ, hρ, hl⟩
    obtain ⟨fr, hfr, tr, htr, hline⟩ := (C13_stmtsOf_of_trees h d htm ρ line).mp hl
    obtain ⟨s, o, rfl⟩ := root_of_unfold htr
    refine ⟨_, ⟨toRule fr, (toRule_mem_doc h htm hfr).1, htr⟩, ?_, ρ, ?_, hline⟩
    · show (strip (toRule fr)).asserted = true
      rw [flat_asserted hfr]; exact ha
    · show ρ ∈ ruleTable senv (strip (toRule fr))
      rw [ruleTable_flat hfr]; exact hρ
  · rintro ⟨tr, ⟨r, hr, htr⟩, ha, ρ, hρ, hline⟩
    obtain ⟨tm, htm, hrt⟩ := mem_rulesOfDoc.mp hr
    obtain ⟨fr, hfr, rfl⟩ := (mem_rulesOfTm_iff h.std (h.combos_ne htm) r).mp hrt
    obtain ⟨s, o, rfl⟩ := root_of_unfold htr
    have ha' : (strip (toRule fr)).asserted = true := ha
    have hρ' : ρ ∈ ruleTable senv (strip (toRule fr)) := hρ
    rw [flat_asserted hfr] at ha'
    rw [ruleTable_flat hfr] at hρ'
    exact ⟨tm, ⟨htm, ha'⟩, ρ, hρ', (C13_stmtsOf_of_trees h d htm ρ line).mpr ⟨fr, hfr, _, htr, hline⟩⟩

/-- the flat reading of a final table, over its complete unfoldings -/
theorem evalFlat_forest (senv : SEnv) (sem : RuleSem) (frs : List FlatRule) (hnd : (frs.map (·.id)).Nodup)
    (hsem : ∀ fr ∈ frs, SemAt sem senv fr) (d : Nat) (hd : ∀ fr ∈ frs, depthLe frs d fr = true) (line : Str) :
    line ∈ evalFlat senv frs d ↔ forestLines senv sem (allUnfold (frs.map toRule) (d + 1)) line := by
  simp only [evalFlat, List.mem_flatMap, List.mem_filter, forestLines, allUnfold, List.mem_map]
  constructor
  · rintro ⟨fr, ⟨hfr, ha⟩, ρ, hρ, hl⟩
    obtain ⟨s, o, hun, hs⟩ := C13_flatLines_of_tree senv sem frs hnd hsem d fr hfr (hd fr hfr) d (Nat.le_refl _)
    exact ⟨.node (strip (toRule fr)) s o, ⟨toRule fr, ⟨fr, hfr, rfl⟩, by rw [hun]; simp⟩, ha, ρ, hρ, by rw [← (hs ρ).2]; exact hl⟩
  · rintro ⟨tr, ⟨_, ⟨fr, hfr, rfl⟩, htr⟩, ha, ρ, hρ, hl⟩
    obtain ⟨s, o, hun, hs⟩ := C13_flatLines_of_tree senv sem frs hnd hsem d fr hfr (hd fr hfr) d (Nat.le_refl _)
    rw [hun, List.mem_singleton] at htr
    subst htr
    exact ⟨fr, ⟨hfr, ha⟩, ρ, hρ, by rw [(hs ρ).2]; exact hl⟩

/-- **The specification side of the document-level statement.**  Whenever a table of flat rules `frs` (distinct names, quoting depth
    at most `d`) has the complete unfoldings of the rule table of the document — what `C13_doc_terminates` says of the table
    `_normalize_rml_star` returns —, the flat reading of `frs` (the right-hand side of `Props.C13.C13_quoted_partial`, rule by rule) and
    the document-level reading of the RML-star rules prescribe the same statements. -/
theorem C13_spec_flat_eq_doc {senv : SEnv} {sem : RuleSem} {doc : SDoc} (h : DocSem senv sem doc) (frs : List FlatRule)
    (hnd : (frs.map (·.id)).Nodup) (hsem : ∀ fr ∈ frs, SemAt sem senv fr) (d : Nat) (hd : ∀ fr ∈ frs, depthLe frs d fr = true)
    (hun : ∀ tr, tr ∈ allUnfold (frs.map toRule) (d + 1) ↔ tr ∈ allUnfold (rulesOfDoc doc) (d + 1)) (line : Str) :
    line ∈ evalFlat senv frs d ↔ line ∈ Spec.Star.evalDoc senv doc d := by
  rw [evalFlat_forest senv sem frs hnd hsem d hd, evalDoc_forest h d]
  simp only [forestLines, hun]

/-! ### a reading `RuleSem` from a finite set of flat rules -/

def termOfPos : Pos → Option TermMap
  | .term t => some t
  | .quoted _ _ => none

def posTermsOwn (senv : SEnv) (p : Pos) (ρ : Row) : List Str :=
  match p with
  | .term t => (genTerm senv.safe senv.na t ρ).toList
  | .quoted _ _ => []

/-- rule-table rows are read as the term maps of the first flat rule of `cands` with that row (modulo names) -/
def semOf (senv : SEnv) (cands : List FlatRule) : RuleSem :=
  { subj := fun r ρ => match cands.find? (fun f => strip (toRule f) = r) with
      | some f => posTermsOwn senv f.subject ρ | none => []
    pred := fun r ρ => match cands.find? (fun f => strip (toRule f) = r) with
      | some f => (genTerm senv.safe senv.na f.pred ρ).toList | none => []
    obj := fun r ρ => match cands.find? (fun f => strip (toRule f) = r) with
      | some f => posTermsOwn senv f.object ρ | none => []
    graph := fun r ρ => match cands.find? (fun f => strip (toRule f) = r) with
      | some f => graphTerms senv [f.graph] ρ | none => [] }

/-- flat rules with the same rule-table row (modulo names) carry the same term maps: `toRule` loses nothing the rules read
    (true of term maps of the C01 fragment; decidable on a given document) -/
def SemInj (cands : List FlatRule) : Bool :=
  cands.all fun f => cands.all fun g => strip (toRule f) != strip (toRule g) ||
    (termOfPos f.subject == termOfPos g.subject && f.pred == g.pred && termOfPos f.object == termOfPos g.object && f.graph == g.graph)

theorem semOf_ok (senv : SEnv) (cands : List FlatRule) (hinj : SemInj cands = true) : ∀ fr ∈ cands, SemAt (semOf senv cands) senv fr := by
  intro fr hfr
  simp only [SemInj, List.all_eq_true, Bool.or_eq_true, bne_iff_ne, ne_eq, Bool.and_eq_true, beq_iff_eq] at hinj
  cases hf : cands.find? (fun f => strip (toRule f) = strip (toRule fr)) with
  | none =>
    have := List.find?_eq_none.mp hf fr hfr
    simp at this
  | some f' =>
    have hm := List.mem_of_find?_eq_some hf
    have hp : strip (toRule f') = strip (toRule fr) := by simpa using List.find?_some hf
    rcases hinj f' hm fr hfr with hne | ⟨⟨⟨e1, e2⟩, e3⟩, e4⟩
    · exact absurd hp hne
    · refine ⟨fun tm e ρ => ?_, fun ρ => ?_, fun tm e ρ => ?_, fun ρ => ?_⟩
      · simp only [semOf, hf]
        rw [e] at e1
        cases hs : f'.subject with
        | term t => simp only [hs, termOfPos, Option.some.injEq] at e1; subst e1; rfl
        | quoted _ _ => simp [hs, termOfPos] at e1
      · simp only [semOf, hf, e2]
      · simp only [semOf, hf]
        rw [e] at e3
        cases hs : f'.object with
        | term t => simp only [hs, termOfPos, Option.some.injEq] at e3; subst e3; rfl
        | quoted _ _ => simp [hs, termOfPos] at e3
      · simp only [semOf, hf, e4]

end Props.C13Doc
