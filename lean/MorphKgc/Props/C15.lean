/-
C15 — Typed literals keep their lexical form; canonicalisation never changes a value.

Every theorem quantifies over `Gen.canonSites`: the two `datatype == XSD_…` ladders (`_materialize_template`,
`_materialize_fnml_execution`) as the translator reads them from /repo NOW, with their keys (values of
`morph_kgc.constants`), their position relative to the literal escape chain and that chain itself.
All statements hold for every string of every length; there is no bound on digit strings.

Scope notes (stated, not hidden):
* `str.lower()` is modelled by `Py.asciiLower` (ASCII letters only).  Python's Unicode case mapping is outside
  the model; the check compares the engine with Python's own `str.lower` on non-ASCII input and verifies, over
  all code points, that no non-ASCII character lower-cases into a letter of `true`/`false`.
* `.str.replace(' ', 'T', regex=False)` replaces EVERY space (`C15_dateTime.2.2`).  This cannot change a valid
  dateTime: a valid lexical has no space (`C15_dateTime_valid`); an ill-typed value such as `"a b c"` becomes
  `"aTbTc"`, which is the documented canonicalisation applied to a value that denotes nothing.
* In a template-valued literal map (`"{a}-{b}"`) the ladder is applied to every reference value separately.

Counter-witnesses for the shape before the `fix:` (`.viaFloatInt` = `.astype(float).astype(int).astype(str)`),
observed on the real engine (tools/props/C15.py replays them; no float model is needed because `canon .viaFloatInt`
is `unsupportedShape`, so `sites_ok` below fails by `decide` whenever that shape is generated):
    "9007199254740993"                ↦ "9007199254740992"          (float64 rounding: a digit altered)
    "1.7"                             ↦ "1"                         (truncation)
    "123456789012345678901234567890"  ↦ "-9223372036854775808"      (int64 saturation)
    "abc", "" ↦ ValueError;  "inf" ↦ OverflowError                  (the whole run aborts)
-/
import MorphKgc.Gen.Canon
import MorphKgc.Spec.Lexical
import MorphKgc.Lemmas.Canon
import MorphKgc.Lemmas.Config

namespace Props.C15
open Py Model Spec Lemmas.Canon

/-! ### side conditions on the generated data (decided against what /repo says now) -/

/-- the ladder keys xsd:integer / xsd:boolean / xsd:dateTime with the repaired, documented shapes and touches no
    other datatype -/
def LadderOK (L : List (Str × CanonShape)) : Bool :=
  shapeOf L xsdInteger == .stripDotZero &&
  shapeOf L xsdBoolean == .lowerAll &&
  shapeOf L xsdDateTime == .replaceAll [' '] ['T'] &&
  L.all fun kv => kv.1 == xsdInteger || (kv.1 == xsdBoolean || (kv.1 == xsdDateTime || kv.2 == .none))

def SiteOK (s : CanonSite) : Bool :=
  LadderOK s.ladder && s.order == .canonThenEscape && s.underLiteral && ChainOK s.escapeChain

/-- both sites, as generated -/
theorem sites_ok : ∀ s ∈ Gen.canonSites, SiteOK s = true := by decide +kernel

theorem translated : Gen.canonTranslated = true := by decide

private theorem ladderOK_of {s : CanonSite} (h : SiteOK s = true) :
    shapeOf s.ladder xsdInteger = .stripDotZero ∧ shapeOf s.ladder xsdBoolean = .lowerAll ∧
    shapeOf s.ladder xsdDateTime = .replaceAll [' '] ['T'] ∧
    (∀ kv ∈ s.ladder, kv.1 = xsdInteger ∨ kv.1 = xsdBoolean ∨ kv.1 = xsdDateTime ∨ kv.2 = .none) := by
  simp only [SiteOK, LadderOK, Bool.and_eq_true, beq_iff_eq, List.all_eq_true, Bool.or_eq_true] at h
  exact ⟨h.1.1.1.1.1.1, h.1.1.1.1.1.2, h.1.1.1.1.2, h.1.1.1.2⟩

private theorem shapeOf_other {L : List (Str × CanonShape)}
    (hall : ∀ kv ∈ L, kv.1 = xsdInteger ∨ kv.1 = xsdBoolean ∨ kv.1 = xsdDateTime ∨ kv.2 = .none)
    {dt : Str} (hb : dt ≠ xsdBoolean) (hd : dt ≠ xsdDateTime) (hi : dt ≠ xsdInteger) : shapeOf L dt = .none := by
  unfold shapeOf
  cases hf : L.find? (fun kv => kv.1 == dt) with
  | none => rfl
  | some kv =>
    have hk : kv.1 = dt := by simpa using List.find?_some hf
    rcases hall kv (List.mem_of_find?_eq_some hf) with h | h | h | h
    · exact absurd (hk ▸ h) hi
    · exact absurd (hk ▸ h) hb
    · exact absurd (hk ▸ h) hd
    · exact h

/-! ### C15_identity — every other datatype: the lexical form is exactly `escape v` -/

theorem C15_identity : ∀ s ∈ Gen.canonSites, ∀ (dt v : Str),
    dt ≠ xsdBoolean → dt ≠ xsdDateTime → dt ≠ xsdInteger →
    canonFor s.ladder dt v = .ok v ∧ literalLex s dt v = .ok (applyChain s.escapeChain v) := by
  intro s hs dt v hb hd hi
  have h := ladderOK_of (sites_ok s hs)
  have ho : s.order = .canonThenEscape := by
    have := sites_ok s hs; simp only [SiteOK, Bool.and_eq_true, beq_iff_eq] at this; exact this.1.1.2
  have : canonFor s.ladder dt v = .ok v := by simp [canonFor, shapeOf_other h.2.2.2 hb hd hi, canon]
  exact ⟨this, by simp [literalLex, literalLexWith, ho, this, Except.map]⟩

-- non-vacuity: xsd:decimal, xsd:double, xsd:date, xsd:string and the empty datatype are such datatypes
example : "http://www.w3.org/2001/XMLSchema#decimal".toList ≠ xsdBoolean ∧
    "http://www.w3.org/2001/XMLSchema#decimal".toList ≠ xsdDateTime ∧
    "http://www.w3.org/2001/XMLSchema#decimal".toList ≠ xsdInteger ∧ ([] : Str) ≠ xsdInteger := by decide
example : canonFor Gen.canonSiteTemplate.ladder "http://www.w3.org/2001/XMLSchema#decimal".toList "1.0".toList
    = .ok "1.0".toList := by decide +kernel

/-! ### C15_integer — no digit altered, `N.0 ↦ N`, everything else untouched -/

theorem C15_integer : ∀ s ∈ Gen.canonSites,
    -- (a) identity on the whole lexical space: any magnitude, signs and leading zeros kept
    (∀ v : Str, IsIntegerLexical v → canonFor s.ladder xsdInteger v = .ok v) ∧
    -- (b) `w.0 ↦ w` exactly; the result is an integer lexical denoting the same integer as `w`
    (∀ w : Str, IsIntegerLexical w →
        canonFor s.ladder xsdInteger (w ++ ['.', '0']) = .ok w ∧
        (∀ r, canonFor s.ladder xsdInteger (w ++ ['.', '0']) = .ok r →
            IsIntegerLexical r ∧ intValue r = intValue w ∧ (intValue r).isSome = true)) ∧
    -- (c) ill-typed values (decimals, exponents, text, inf, the empty string, …) pass through unchanged
    (∀ v : Str, ¬ IsIntegerLexical v → ¬ IsIntegerDotZero v → canonFor s.ladder xsdInteger v = .ok v) := by
  intro s hs
  have h := (ladderOK_of (sites_ok s hs)).1
  refine ⟨fun v hv => ?_, fun w hw => ?_, fun v _ hv => ?_⟩
  · simp [canonFor, h, canon, stripDotZero_other (lexical_not_dotZero hv)]
  · have : canonFor s.ladder xsdInteger (w ++ ['.', '0']) = .ok w := by
      simp [canonFor, h, canon, stripDotZero_dotZero hw]
    refine ⟨this, fun r hr => ?_⟩
    have : r = w := by rw [this] at hr; exact (Except.ok.inj hr).symm
    subst this
    exact ⟨hw, rfl, (intValue_isSome_iff r).mpr hw⟩
  · simp [canonFor, h, canon, stripDotZero_other hv]

/-- the three cases of `C15_integer` are exhaustive and exclusive: the two predicates never overlap -/
theorem C15_integer_cases_disjoint (v : Str) : ¬ (IsIntegerLexical v ∧ IsIntegerDotZero v) :=
  fun h => lexical_not_dotZero h.1 h.2

-- non-vacuity and the counter-witness inputs of the old shape, now exact
example : IsIntegerLexical "9007199254740993".toList := by decide
example : IsIntegerLexical "-00012".toList ∧ IsIntegerLexical "+7".toList := by decide
example : IsIntegerLexical "123456789012345678901234567890123456789012345678901234567890".toList := by decide
example : intValue "9007199254740993".toList = some 9007199254740993 := by decide +kernel
example : intValue "-00012".toList = some (-12) := by decide +kernel
example : IsIntegerDotZero "12.0".toList := ⟨"12".toList, by decide, by decide⟩
example : canonFor Gen.canonSiteTemplate.ladder xsdInteger "9007199254740993".toList = .ok "9007199254740993".toList := by
  decide +kernel
example : canonFor Gen.canonSiteFnml.ladder xsdInteger "123456789012345678901234567890.0".toList
    = .ok "123456789012345678901234567890".toList := by decide +kernel
example : ¬ IsIntegerLexical "1.7".toList ∧ ¬ IsIntegerDotZero "1.7".toList := by decide
example : ¬ IsIntegerLexical "abc".toList ∧ ¬ IsIntegerDotZero "abc".toList ∧ ¬ IsIntegerLexical ([] : Str) ∧
    ¬ IsIntegerDotZero ([] : Str) ∧ ¬ IsIntegerDotZero "1.00".toList ∧ ¬ IsIntegerDotZero "1e5.0".toList ∧
    ¬ IsIntegerDotZero "abc.0".toList ∧ ¬ IsIntegerDotZero "12.0\n".toList ∧ ¬ IsIntegerDotZero ".0".toList ∧
    ¬ IsIntegerDotZero "+.0".toList := by decide
example : canonFor Gen.canonSiteTemplate.ladder xsdInteger "1.7".toList = .ok "1.7".toList := by decide +kernel

/-! ### C15_no_abort — no value of no datatype ends the run -/

theorem C15_no_abort : ∀ s ∈ Gen.canonSites, ∀ (dt v : Str), ∃ r, canonFor s.ladder dt v = .ok r := by
  intro s hs dt v
  have h := ladderOK_of (sites_ok s hs)
  by_cases hi : dt = xsdInteger
  · subst hi; exact ⟨stripDotZero v, by simp [canonFor, h.1, canon]⟩
  by_cases hb : dt = xsdBoolean
  · subst hb; exact ⟨asciiLower v, by simp [canonFor, h.2.1, canon]⟩
  by_cases hd : dt = xsdDateTime
  · subst hd; exact ⟨replace v [' '] ['T'], by simp [canonFor, h.2.2.1, canon]⟩
  exact ⟨v, by simp [canonFor, shapeOf_other h.2.2.2 hb hd hi, canon]⟩

/-- … and so the whole lexical form is always defined -/
theorem C15_no_abort_literal : ∀ s ∈ Gen.canonSites, ∀ (dt v : Str), ∃ r, literalLex s dt v = .ok r := by
  intro s hs dt v
  obtain ⟨r, hr⟩ := C15_no_abort s hs dt v
  have ho : s.order = .canonThenEscape := by
    have := sites_ok s hs; simp only [SiteOK, Bool.and_eq_true, beq_iff_eq] at this; exact this.1.1.2
  exact ⟨applyChain s.escapeChain r, by simp [literalLex, literalLexWith, ho, hr, Except.map]⟩

/-! ### C15_boolean — lower-casing (ASCII in the model) never changes the denoted truth value -/

theorem C15_boolean : ∀ s ∈ Gen.canonSites,
    -- the branch is `asciiLower` on every value (Unicode case mapping: outside the model, see header)
    (∀ v : Str, canonFor s.ladder xsdBoolean v = .ok (asciiLower v)) ∧
    -- documented canonicalisation: TRUE/True/FALSE/… denote what their lower-case form denotes
    (∀ v : Str, IsBooleanLexical (asciiLower v) → ∀ r, canonFor s.ladder xsdBoolean v = .ok r →
        r = asciiLower v ∧ IsBooleanLexical r ∧ boolValue r = boolValue (asciiLower v)) ∧
    -- a valid lexical form is kept exactly
    (∀ v : Str, IsBooleanLexical v → canonFor s.ladder xsdBoolean v = .ok v) := by
  intro s hs
  have h := (ladderOK_of (sites_ok s hs)).2.1
  have hc : ∀ v : Str, canonFor s.ladder xsdBoolean v = .ok (asciiLower v) := fun v => by simp [canonFor, h, canon]
  refine ⟨hc, fun v hv r hr => ?_, fun v hv => ?_⟩
  · have : r = asciiLower v := by rw [hc v] at hr; exact (Except.ok.inj hr).symm
    subst this; exact ⟨rfl, hv, rfl⟩
  · rw [hc v]
    rcases booleanLexical_cases hv with rfl | rfl | rfl | rfl <;> decide

example : IsBooleanLexical (asciiLower "TRUE".toList) ∧ IsBooleanLexical (asciiLower "False".toList) ∧
    IsBooleanLexical (asciiLower "1".toList) ∧ boolValue (asciiLower "TRUE".toList) = some true ∧
    boolValue (asciiLower "fAlSe".toList) = some false := by decide
example : ¬ IsBooleanLexical (asciiLower "yes".toList) ∧ ¬ IsBooleanLexical ([] : Str) := by decide

/-! ### C15_dateTime — the SQL separator becomes `T`; valid lexical forms are untouched -/

theorem C15_dateTime : ∀ s ∈ Gen.canonSites,
    -- one space between a date part and a time part that contain none
    (∀ d t : Str, ' ' ∉ d → ' ' ∉ t → canonFor s.ladder xsdDateTime (d ++ [' '] ++ t) = .ok (d ++ ['T'] ++ t)) ∧
    -- no space: unchanged
    (∀ v : Str, ' ' ∉ v → canonFor s.ladder xsdDateTime v = .ok v) ∧
    -- in general EVERY space is replaced (several spaces: all of them)
    (∀ v : Str, canonFor s.ladder xsdDateTime v = .ok (v.map fun c => if c = ' ' then 'T' else c)) := by
  intro s hs
  have h := (ladderOK_of (sites_ok s hs)).2.2.1
  have hc : ∀ v : Str, canonFor s.ladder xsdDateTime v = .ok (v.map fun c => if c = ' ' then 'T' else c) :=
    fun v => by simp [canonFor, h, canon, replace_char_char]
  refine ⟨fun d t hd ht => ?_, fun v hv => ?_, hc⟩
  · rw [hc]; simp [map_subst_of_not_mem ' ' 'T' d hd, map_subst_of_not_mem ' ' 'T' t ht]
  · rw [hc, map_subst_of_not_mem ' ' 'T' v hv]

/-- valid dateTime lexical forms have no space, so they are kept exactly; and a value that is valid up to the
    documented canonicalisation (`date time` for `dateTtime`) becomes that valid form -/
theorem C15_dateTime_valid : ∀ s ∈ Gen.canonSites,
    (∀ v : Str, IsDateTimeLexical v → canonFor s.ladder xsdDateTime v = .ok v) ∧
    (∀ d t : Str, IsDateTimeLexical (d ++ ['T'] ++ t) →
        canonFor s.ladder xsdDateTime (d ++ [' '] ++ t) = .ok (d ++ ['T'] ++ t)) := by
  intro s hs
  obtain ⟨h1, h2, _⟩ := C15_dateTime s hs
  refine ⟨fun v hv => h2 v (dateTimeLexical_no_space hv), fun d t hv => ?_⟩
  have := dateTimeLexical_no_space hv
  exact h1 d t (fun h => this (by simp [h])) (fun h => this (by simp [h]))

example : IsDateTimeLexical "2024-02-29T13:45:00".toList ∧ IsDateTimeLexical "-12024-12-31T23:59:59.123+05:30".toList ∧
    IsDateTimeLexical "2024-02-29T13:45:00Z".toList := by decide
example : ¬ IsDateTimeLexical "2024-02-29 13:45:00".toList ∧ ¬ IsDateTimeLexical "2024-13-01T00:00:00".toList ∧
    ¬ IsDateTimeLexical "2024-02-29".toList := by decide
example : ' ' ∉ "2024-02-29".toList ∧ ' ' ∉ "13:45:00".toList := by decide
example : canonFor Gen.canonSiteTemplate.ladder xsdDateTime "2024-02-29 13:45:00".toList = .ok "2024-02-29T13:45:00".toList := by
  decide +kernel
-- several spaces: all replaced (ill-typed before, ill-typed after)
example : canonFor Gen.canonSiteTemplate.ladder xsdDateTime "2024-02-29  13:45:00 x".toList
    = .ok "2024-02-29TT13:45:00Tx".toList := by decide +kernel

/-! ### C15_canon_before_escape — the order, and the escape chain leaves canonical forms alone -/

theorem C15_canon_before_escape : ∀ s ∈ Gen.canonSites,
    s.order = .canonThenEscape ∧ s.underLiteral = true ∧
    -- the lexical form is `escape (canon v)`, for the generated chain and for any other escape function
    (∀ (escape : Str → Str) (dt v : Str),
        literalLexWith s.order s.ladder escape dt v = (canonFor s.ladder dt v).map escape) ∧
    -- the generated chain is the identity on strings free of `\`, `"`, `'` and control characters
    EscapeIdOnPlain (applyChain s.escapeChain) ∧
    -- for every escape function with that property (in particular the generated chain):
    (∀ escape : Str → Str, EscapeIdOnPlain escape →
      (∀ w : Str, IsIntegerLexical w →
          literalLexWith s.order s.ladder escape xsdInteger (w ++ ['.', '0']) = .ok w ∧
          literalLexWith s.order s.ladder escape xsdInteger w = .ok w) ∧
      (∀ v : Str, IsBooleanLexical (asciiLower v) →
          literalLexWith s.order s.ladder escape xsdBoolean v = .ok (asciiLower v)) ∧
      (∀ d t : Str, IsDateTimeLexical (d ++ ['T'] ++ t) →
          literalLexWith s.order s.ladder escape xsdDateTime (d ++ [' '] ++ t) = .ok (d ++ ['T'] ++ t))) := by
  intro s hs
  have hok := sites_ok s hs
  have ho : s.order = .canonThenEscape ∧ s.underLiteral = true ∧ ChainOK s.escapeChain = true := by
    simp only [SiteOK, Bool.and_eq_true, beq_iff_eq] at hok; exact ⟨hok.1.1.2, hok.1.2, hok.2⟩
  refine ⟨ho.1, ho.2.1, fun escape dt v => by simp [literalLexWith, ho.1], applyChain_idOnPlain _ ho.2.2,
    fun escape he => ⟨fun w hw => ?_, fun v hv => ?_, fun d t hv => ?_⟩⟩
  · obtain ⟨ha, hb, _⟩ := C15_integer s hs
    simp [literalLexWith, ho.1, (hb w hw).1, ha w hw, Except.map, he w (integerLexical_plain hw)]
  · obtain ⟨ha, _, _⟩ := C15_boolean s hs
    have hp : ∀ c ∈ asciiLower v, needsEscape c = false := by
      rcases booleanLexical_cases hv with h | h | h | h <;> (rw [h]; decide)
    simp [literalLexWith, ho.1, ha v, Except.map, he _ hp]
  · obtain ⟨_, hb⟩ := C15_dateTime_valid s hs
    simp only [literalLexWith, ho.1, hb d t hv, Except.map]
    rw [he _ (dateTimeLexical_plain hv)]

/-- the same for the lexical form the site writes (its own chain) -/
theorem C15_literal : ∀ s ∈ Gen.canonSites,
    (∀ w : Str, IsIntegerLexical w → literalLex s xsdInteger (w ++ ['.', '0']) = .ok w ∧ literalLex s xsdInteger w = .ok w) ∧
    (∀ v : Str, IsBooleanLexical (asciiLower v) → literalLex s xsdBoolean v = .ok (asciiLower v)) ∧
    (∀ d t : Str, IsDateTimeLexical (d ++ ['T'] ++ t) → literalLex s xsdDateTime (d ++ [' '] ++ t) = .ok (d ++ ['T'] ++ t)) := by
  intro s hs
  obtain ⟨_, _, _, hid, h⟩ := C15_canon_before_escape s hs
  exact h _ hid

-- non-vacuity of `EscapeIdOnPlain`: the generated chains satisfy it, and they do rewrite other strings
example : applyChain Gen.canonSiteTemplate.escapeChain "a\"b\\c\n".toList = "a\\\"b\\\\c\\n".toList := by decide +kernel
example : literalLex Gen.canonSiteTemplate xsdInteger "-0042.0".toList = .ok "-0042".toList := by decide +kernel
example : literalLex Gen.canonSiteFnml xsdBoolean "TRUE".toList = .ok "true".toList := by decide +kernel
example : literalLex Gen.canonSiteFnml "http://www.w3.org/2001/XMLSchema#string".toList "It's 1.0".toList
    = .ok "It\\'s 1.0".toList := by decide +kernel


/-! ### C15_idempotent — a canonicalised value is a fixed point: canonicalising twice is canonicalising once

This is what lets a canonical form flow through the engine again (a function result that is canonicalised by
`_materialize_fnml_execution` after the argument was canonicalised by `_materialize_template`, or the output of one run used as the
data of another) without a further change: for EVERY datatype and EVERY value, well-typed or not. -/

theorem C15_idempotent : ∀ s ∈ Gen.canonSites, ∀ (dt v r : Str),
    canonFor s.ladder dt v = .ok r → canonFor s.ladder dt r = .ok r := by
  intro s hs dt v r hr
  have h := ladderOK_of (sites_ok s hs)
  by_cases hi : dt = xsdInteger
  · subst hi
    simp only [canonFor, h.1, canon] at hr ⊢
    have hr' : r = stripDotZero v := (Except.ok.inj hr).symm
    subst hr'
    by_cases hd : IsIntegerDotZero v
    · obtain ⟨w, hw, rfl⟩ := hd
      rw [stripDotZero_dotZero hw, stripDotZero_other (lexical_not_dotZero hw)]
    · rw [stripDotZero_other hd, stripDotZero_other hd]
  · by_cases hb : dt = xsdBoolean
    · subst hb
      simp only [canonFor, h.2.1, canon] at hr ⊢
      have hr' : r = asciiLower v := (Except.ok.inj hr).symm
      subst hr'; rw [Lemmas.Config.asciiLower_idem]
    · by_cases hd : dt = xsdDateTime
      · subst hd
        have hc := (C15_dateTime s hs).2.2
        rw [hc] at hr ⊢
        have hr' : r = v.map fun c => if c = ' ' then 'T' else c := (Except.ok.inj hr).symm
        subst hr'
        congr 1
        rw [List.map_map]
        apply List.map_congr_left
        intro c _
        by_cases hc' : c = ' ' <;> simp [hc']
      · have := (C15_identity s hs dt v hb hd hi).1
        rw [this] at hr
        have hr' : r = v := (Except.ok.inj hr).symm
        subst hr'; exact this

-- non-vacuity: the three canonicalised datatypes on values that DO change, and an ill-typed one
example : canonFor Gen.canonSiteTemplate.ladder xsdInteger "-0042.0".toList = .ok "-0042".toList ∧
    canonFor Gen.canonSiteTemplate.ladder xsdInteger "-0042".toList = .ok "-0042".toList := by decide +kernel
example : canonFor Gen.canonSiteFnml.ladder xsdBoolean "TrUe".toList = .ok "true".toList ∧
    canonFor Gen.canonSiteFnml.ladder xsdBoolean "true".toList = .ok "true".toList := by decide +kernel
-- `N.0.0` is ill-typed and untouched (the pattern is anchored at both ends), so it is NOT a case where two passes differ
example : canonFor Gen.canonSiteTemplate.ladder xsdInteger "7.0.0".toList = .ok "7.0.0".toList := by decide +kernel

/-! ### C15_only_documented — the three documented canonicalisations are the ONLY ways a value can change

If the canonicalised form differs from the source form, then the datatype is one of the three documented ones and the source form is
of the documented kind: an integer followed by `.0`, a value with an ASCII upper-case letter, a value with a space. -/

theorem C15_only_documented : ∀ s ∈ Gen.canonSites, ∀ (dt v r : Str),
    canonFor s.ladder dt v = .ok r → r ≠ v →
      (dt = xsdInteger ∧ IsIntegerDotZero v ∧ v = r ++ ['.', '0']) ∨
      (dt = xsdBoolean ∧ r = asciiLower v ∧ ∃ c ∈ v, c.isUpper = true) ∨
      (dt = xsdDateTime ∧ ' ' ∈ v ∧ r.length = v.length) := by
  intro s hs dt v r hr hne
  have h := ladderOK_of (sites_ok s hs)
  by_cases hi : dt = xsdInteger
  · subst hi
    left
    simp only [canonFor, h.1, canon] at hr
    have hr' : r = stripDotZero v := (Except.ok.inj hr).symm
    subst hr'
    by_cases hd : IsIntegerDotZero v
    · obtain ⟨w, hw, rfl⟩ := hd
      exact ⟨rfl, ⟨w, hw, rfl⟩, by rw [stripDotZero_dotZero hw]⟩
    · exact absurd (stripDotZero_other hd) hne
  · by_cases hb : dt = xsdBoolean
    · subst hb
      right; left
      simp only [canonFor, h.2.1, canon] at hr
      have hr' : r = asciiLower v := (Except.ok.inj hr).symm
      subst hr'
      refine ⟨rfl, rfl, ?_⟩
      apply Classical.byContradiction
      intro hno
      apply hne
      simp only [asciiLower]
      conv => rhs; rw [← List.map_id v]
      apply List.map_congr_left
      intro c hc
      have : ¬ c.isUpper = true := fun hu => hno ⟨c, hc, hu⟩
      simp [asciiLowerC, this]
    · by_cases hd : dt = xsdDateTime
      · subst hd
        right; right
        have hc := (C15_dateTime s hs)
        refine ⟨rfl, ?_, ?_⟩
        · apply Classical.byContradiction
          intro hno
          rw [hc.2.1 v hno] at hr
          exact hne (Except.ok.inj hr).symm
        · rw [hc.2.2] at hr
          have hr' := (Except.ok.inj hr).symm
          subst hr'; simp
      · have := (C15_identity s hs dt v hb hd hi).1
        rw [this] at hr
        exact absurd (Except.ok.inj hr).symm hne

end Props.C15
