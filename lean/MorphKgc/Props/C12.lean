/-
C12 — A mapping document means the union of its triples maps.

Objects.  `Spec.Doc` is the abstract mapping document; `Model.normalizeDoc` + `Model.evalAll` is the engine on ONE document
(shared with C01, validated by I6/I7); `Model.Sections.parseMappings` is `MappingParser.parse_mappings` on a whole
configuration (several sections × several mapping files), interpreting the call sequences `Gen.parseOrder` /
`Gen.preprocessOrder` that the translator reads from the source on every run.

Statements (all for every document / configuration / table, no size bound):
  * `C12_union`, `C12_union_parts`   closed parts with different identifiers: result(whole) = ⋃ result(part)
  * `C12_unrelated(_statements)`     adding / removing a part nobody references leaves the rules and statements of the rest
  * `C12_perm`, `C12_pom_perm`        reordering triples maps / the predicate-object maps of a triples map
  * `C12_files`                       how the triples maps of a section are spread over its files is irrelevant
  * `C12_renumbering`                 the `#TMi` renumbering does not change any statement
  * `C12_pipeline_partial`, `C12_sections_partial`   `parse_mappings` on sections = the document semantics = the union of
                                      the sections; hypotheses = the complements of the scopes of C12_F1 / C12_F2
  * `C12_dup_rejected_when_validated_first`, `C12_validate_never_fires_after_renumbering`, `C12_no_false_rejection`,
    `C12_F1_or_fixed`                 the duplicate-identifier check against the GENERATED call order
-/
import MorphKgc.Lemmas.SectionsPipeline
import MorphKgc.Lemmas.SectionsPerm
import MorphKgc.Gen.ParseOrder
import MorphKgc.Gen.Escape

namespace Props.C12
open Py Model Spec Model.Sections

/-! ### parts of a document -/

/-- the rule table of two closed parts with different identifiers is the concatenation of their rule tables -/
theorem C12_normalize_append (d₁ d₂ : Doc) (hc₁ : Closed d₁) (hc₂ : Closed d₂) (hd : DisjointIds d₁ d₂) :
    normalizeDoc (d₁ ++ d₂) = normalizeDoc d₁ ++ normalizeDoc d₂ := normalizeDoc_append hc₁ hc₂ hd

/-- **Union.** For closed parts with different identifiers the document yields exactly the statements of the parts
    (and raises exactly when one of the parts raises). -/
theorem C12_union (env : Env) (d₁ d₂ : Doc) (hc₁ : Closed d₁) (hc₂ : Closed d₂) (hd : DisjointIds d₁ d₂) :
    UnionOf (evalAll env (normalizeDoc d₁)) (evalAll env (normalizeDoc d₂)) (evalAll env (normalizeDoc (d₁ ++ d₂))) := by
  rw [normalizeDoc_append hc₁ hc₂ hd]
  apply evalAll_append
  · intro r hr
    exact evalRule_normalizeDoc_append hc₁ _ hr
  · intro r hr
    apply evalRule_congr
    intro hp
    apply find_tmId_append_right
    intro r₁ hr₁ he
    have h1 := tmId_mem_normalizeDoc hr₁
    rw [he] at h1
    exact hd _ h1 (parent_mem_ids hc₂ hr hp)

/-- **Union over any number of parts** (pairwise different identifiers, each closed). -/
theorem C12_union_parts (env : Env) (parts : List Doc) (hc : ∀ d ∈ parts, Closed d) (hd : parts.Pairwise DisjointIds)
    (hok : ∀ d ∈ parts, ∃ o, evalAll env (normalizeDoc d) = .ok o) :
    ∃ o, evalAll env (normalizeDoc (joinDocs parts)) = .ok o ∧
      ∀ l, l ∈ o ↔ ∃ d ∈ parts, ∃ od, evalAll env (normalizeDoc d) = .ok od ∧ l ∈ od := by
  induction parts with
  | nil => exact ⟨[], rfl, fun l => by simp⟩
  | cons d ds ih =>
    obtain ⟨hd1, hd2⟩ := List.pairwise_cons.mp hd
    obtain ⟨o₂, ho₂, hm₂⟩ := ih (fun d' h => hc d' (List.mem_cons_of_mem _ h)) hd2 (fun d' h => hok d' (List.mem_cons_of_mem _ h))
    obtain ⟨o₁, ho₁⟩ := hok d (by simp)
    have hdis : DisjointIds d (joinDocs ds) := by
      intro x hx hx'
      obtain ⟨d', hd', hxd'⟩ := (ids_joinDocs ds x).mp hx'
      exact hd1 d' hd' x hx hxd'
    have hu := C12_union env d (joinDocs ds) (hc d (by simp)) (closed_joinDocs fun d' h => hc d' (List.mem_cons_of_mem _ h)) hdis
    rw [ho₁, ho₂] at hu
    obtain ⟨c, hc', hmem⟩ := hu
    refine ⟨c, hc', fun l => ?_⟩
    rw [hmem, hm₂]
    constructor
    · rintro (h | ⟨d', hd', od, hod, hl⟩)
      · exact ⟨d, by simp, o₁, ho₁, h⟩
      · exact ⟨d', List.mem_cons_of_mem _ hd', od, hod, hl⟩
    · rintro ⟨d', hd', od, hod, hl⟩
      rcases List.mem_cons.mp hd' with rfl | h
      · rw [ho₁] at hod; cases hod; exact .inl hl
      · exact .inr ⟨d', h, od, hod, hl⟩

/-- **Unrelated additions / removals.** Whatever is appended to a closed document under other identifiers (it may reference
    the document; the document cannot reference it), the flat rules of the document stay as they are, and each of them
    evaluates to the same statements. Read from right to left: removing triples maps nobody references. -/
theorem C12_unrelated (env : Env) (d x : Doc) (hc : Closed d) (hd : DisjointIds d x) :
    ∃ X, normalizeDoc (d ++ x) = normalizeDoc d ++ X ∧ (∀ r ∈ X, r.tmId ∈ ids x) ∧
      ∀ r ∈ normalizeDoc d, evalRule env (normalizeDoc (d ++ x)) r = evalRule env (normalizeDoc d) r := by
  obtain ⟨X, hX, hid⟩ := normalizeDoc_append_left hc hd
  refine ⟨X, hX, hid, fun r hr => ?_⟩
  rw [hX]
  exact evalRule_normalizeDoc_append hc X hr

/-- … so no statement contributed by the others is lost -/
theorem C12_unrelated_statements (env : Env) (d x : Doc) (hc : Closed d) (hd : DisjointIds d x) :
    match evalAll env (normalizeDoc (d ++ x)) with
    | .ok c => ∃ a, evalAll env (normalizeDoc d) = .ok a ∧ ∀ l ∈ a, l ∈ c
    | .error _ => True := by
  obtain ⟨X, hX, _, _⟩ := C12_unrelated env d x hc hd
  rw [hX]
  exact evalAll_append_left env _ X fun r hr => evalRule_normalizeDoc_append hc X hr

/-- **Reordering.** A document whose triples maps have different identifiers yields the same statements (or raises all the
    same) in whatever order the triples maps are listed — e.g. an unrelated triples map may be inserted at any position,
    and the files of a section may be listed in any order. -/
theorem C12_perm (env : Env) (d d' : Doc) (hperm : d.tms.Perm d'.tms) (hn : (ids d).Nodup) :
    SameSet (evalAll env (normalizeDoc d)) (evalAll env (normalizeDoc d')) := evalAll_perm env hperm hn

/-- **Reordering predicate-object maps.** The predicate-object maps of any triples map of a document (unique identifiers)
    may be listed in any order. -/
theorem C12_pom_perm (env : Env) (before after : List TriplesMap) (tm : TriplesMap) (poms' : List Pom) (hp : tm.poms.Perm poms')
    (hn : (ids ⟨before ++ tm :: after⟩).Nodup) :
    SameSet (evalAll env (normalizeDoc ⟨before ++ tm :: after⟩))
            (evalAll env (normalizeDoc ⟨before ++ { tm with poms := poms' } :: after⟩)) :=
  evalAll_pom_perm env before after tm hp hn

/-- the same flat rules, the same statements: whatever rearrangement of a document (unique identifiers) leaves the set of
    its flat rules unchanged leaves the result unchanged -/
theorem C12_same_rules (env : Env) (d d' : Doc) (hraw : ∀ r, r ∈ rawOf d ↔ r ∈ rawOf d') (hn : (ids d).Nodup) :
    SameSet (evalAll env (normalizeDoc d)) (evalAll env (normalizeDoc d')) := evalAll_same_raw env hraw hn

/-! ### files of a section -/

theorem rawRules_congr {cfg cfg' : Config}
    (h : cfg.map (fun s => (s.name, s.files.flatten)) = cfg'.map (fun s => (s.name, s.files.flatten))) : rawRules cfg = rawRules cfg' := by
  have key : ∀ c : Config, rawRules c = (c.map (fun s => (s.name, s.files.flatten))).flatMap
      (fun p => secRules ⟨p.1, [p.2]⟩) := by
    intro c
    unfold rawRules
    rw [List.flatMap_map]
    apply flatMap_congr'
    intro s _
    simp only [secRules, secDoc, List.flatten_cons, List.flatten_nil, List.append_nil]
  rw [key, key, h]

theorem runSteps_congr (g : Bool) (porder : List PStep) {cfg cfg' : Config} (h : rawRules cfg = rawRules cfg') (order : List Step)
    (rs : List Rule) : runSteps g porder cfg order rs = runSteps g porder cfg' order rs := by
  induction order generalizing rs with
  | nil => rfl
  | cons s ss ih =>
    cases s <;> simp only [runSteps, runStep, h, ih]

/-- **Files.** How the triples maps of a section are spread over its mapping files does not matter: two configurations whose
    sections have the same names and, file after file, the same triples maps, give the same rule table (for any call order). -/
theorem C12_files (g : Bool) (order : List Step) (porder : List PStep) (cfg cfg' : Config)
    (h : cfg.map (fun s => (s.name, s.files.flatten)) = cfg'.map (fun s => (s.name, s.files.flatten))) :
    parseMappings g order porder cfg = parseMappings g order porder cfg' :=
  runSteps_congr g porder (rawRules_congr h) order []

/-- e.g. one file per triples map, or everything in one file -/
example (n : Str) (a b : MFile) (g : Bool) (o : List Step) (p : List PStep) :
    parseMappings g o p [⟨n, [a, b]⟩] = parseMappings g o p [⟨n, [a ++ b]⟩] :=
  C12_files g o p _ _ (by simp)

/-! ### the renumbering -/

/-- **Renumbering.** Giving every rule the fresh identifier `#TM<position>` and naming parents by the identifier of their
    first rule changes no statement (nor the order, nor an error), before and after self-join elimination — provided every
    parent reference resolves and no other value is mistaken for an identifier (`Stable`, implied by `valueClash = false`). -/
theorem C12_renumbering (env : Env) (g : Bool) (R : List Rule) (hres : Resolves R) (hst : Stable g R) (hsub : SubjNoRef R) :
    evalAll env (renumber g R) = evalAll env R ∧
    evalAll env ((renumber g R).map (eliminateSelfJoin (renumber g R))) = evalAll env (R.map (eliminateSelfJoin R)) :=
  ⟨evalAll_renumber env g R hres hst hsub, evalAll_renumber_elim env g R hres hst hsub⟩

/-! ### the duplicate-identifier check against the generated call order -/

/-- `parse_mappings` with the call sequences read from the source -/
def parseNow (cfg : Config) : Except ParseErr (List Rule) :=
  parseMappings Gen.expandStarGuarded Gen.parseOrder Gen.preprocessOrder cfg

/-- side conditions on the generated data (re-checked on every build) -/
theorem gen_porder_std : Gen.preprocessOrder.filter relevantP = porderStd := by decide
theorem gen_order_known :
    Gen.parseOrder.filter relevantStep = orderAsIs ∨ Gen.parseOrder.filter relevantStep = orderFixed := by decide

/-- With `validate_mappings` called after `_preprocess_mappings`, NO configuration is ever rejected: the identifiers it
    compares are the fresh `#TMi`. -/
theorem C12_validate_never_fires_after_renumbering (g : Bool) (order : List Step) (porder : List PStep)
    (ho : order.filter relevantStep = orderAsIs) (hp : porder.filter relevantP = porderStd) (cfg : Config) :
    parseMappings g order porder cfg = .ok (pre g (rawRules cfg)) := by
  rw [parse_asIs g order porder ho hp, dupIds_pre]
  rfl

theorem mem_rawRules {cfg : Config} {r : Rule} (h : r ∈ rawRules cfg) :
    ∃ s ∈ cfg, r.sourceName = s.name ∧ r.tmId ∈ secIds s := by
  simp only [rawRules, List.mem_flatMap] at h
  obtain ⟨s, hs, hr⟩ := h
  simp only [secRules, List.mem_flatMap] at hr
  obtain ⟨tm, htm, hr⟩ := hr
  have hf := fromTm_of_mem hr
  simp only [secDoc, List.mem_map] at htm
  obtain ⟨tm₀, htm₀, rfl⟩ := htm
  exact ⟨s, hs, hf.sourceName, by rw [hf.tmId]; exact List.mem_map.mpr ⟨tm₀, htm₀, rfl⟩⟩

theorem exists_rawRule {cfg : Config} {s : Sec} (hs : s ∈ cfg) {i : Str} (hi : i ∈ secIds s) :
    ∃ r ∈ rawRules cfg, r.tmId = i ∧ r.sourceName = s.name := by
  simp only [secIds, List.mem_map] at hi
  obtain ⟨tm₀, htm₀, rfl⟩ := hi
  obtain ⟨r, hr⟩ := List.exists_mem_of_ne_nil _ (rulesOfTm_ne_nil (secDoc s) { tm₀ with sourceName := s.name })
  have hf := fromTm_of_mem hr
  refine ⟨r, ?_, hf.tmId, hf.sourceName⟩
  simp only [rawRules, List.mem_flatMap]
  refine ⟨s, hs, ?_⟩
  simp only [secRules, List.mem_flatMap]
  exact ⟨_, by simp only [secDoc, List.mem_map]; exact ⟨tm₀, htm₀, rfl⟩, hr⟩

theorem hasDupId_iff (cfg : Config) :
    hasDupId cfg = true ↔ ∃ s₁ ∈ cfg, ∃ s₂ ∈ cfg, s₁.name ≠ s₂.name ∧ ∃ i, i ∈ secIds s₁ ∧ i ∈ secIds s₂ := by
  simp only [hasDupId, List.any_eq_true, Bool.and_eq_true, bne_iff_ne, ne_eq, List.contains_iff_mem]

theorem dupIds_raw_iff (cfg : Config) : dupIds (rawRules cfg) ≠ [] ↔ hasDupId cfg = true := by
  rw [dupIds_ne_nil_iff, hasDupId_iff]
  constructor
  · rintro ⟨r₁, h₁, r₂, h₂, hid, hs⟩
    obtain ⟨s₁, hs₁, e₁, i₁⟩ := mem_rawRules h₁
    obtain ⟨s₂, hs₂, e₂, i₂⟩ := mem_rawRules h₂
    exact ⟨s₁, hs₁, s₂, hs₂, by rw [← e₁, ← e₂]; exact hs, r₁.tmId, i₁, by rw [hid]; exact i₂⟩
  · rintro ⟨s₁, hs₁, s₂, hs₂, hn, i, hi₁, hi₂⟩
    obtain ⟨r₁, h₁, e₁, n₁⟩ := exists_rawRule hs₁ hi₁
    obtain ⟨r₂, h₂, e₂, n₂⟩ := exists_rawRule hs₂ hi₂
    exact ⟨r₁, h₁, r₂, h₂, by rw [e₁, e₂], by rw [n₁, n₂]; exact hn⟩

/-- **What the property demands.** With `validate_mappings` called before the renumbering, every configuration in which an
    identifier is declared by two sections is rejected … -/
theorem C12_dup_rejected_when_validated_first (g : Bool) (order : List Step) (porder : List PStep)
    (ho : order.filter relevantStep = orderFixed) (hp : porder.filter relevantP = porderStd) (cfg : Config)
    (h : hasDupId cfg = true) : ∃ ids, parseMappings g order porder cfg = .error (.dupTriplesMap ids) := by
  rw [parse_fixed g order porder ho hp, if_neg ((dupIds_raw_iff cfg).mpr h)]
  exact ⟨_, rfl⟩

/-- … and no other configuration is (identifiers with common prefixes, identical rules under different identifiers, …). -/
theorem C12_no_false_rejection (g : Bool) (order : List Step) (porder : List PStep)
    (ho : order.filter relevantStep = orderFixed) (hp : porder.filter relevantP = porderStd) (cfg : Config)
    (h : hasDupId cfg = false) : parseMappings g order porder cfg = .ok (pre g (rawRules cfg)) := by
  have : dupIds (rawRules cfg) = [] := by
    apply Classical.byContradiction
    intro hne
    rw [(dupIds_raw_iff cfg).mp hne] at h
    cases h
  rw [parse_fixed g order porder ho hp, if_pos this]

/-- **C12_F1 or its repair**, decided by the call order the translator has just read from `parse_mappings`:
    either the validation comes after the renumbering and then NOTHING is ever rejected (the finding), or it comes before
    and then exactly the configurations with an identifier in two sections are rejected (the repaired behaviour). -/
theorem C12_F1_or_fixed :
    (Gen.parseOrder.filter relevantStep = orderAsIs ∧
      ∀ cfg, parseNow cfg = .ok (pre Gen.expandStarGuarded (rawRules cfg))) ∨
    (Gen.parseOrder.filter relevantStep = orderFixed ∧
      ∀ cfg, (hasDupId cfg = true → ∃ ids, parseNow cfg = .error (.dupTriplesMap ids)) ∧
             (hasDupId cfg = false → parseNow cfg = .ok (pre Gen.expandStarGuarded (rawRules cfg)))) := by
  rcases gen_order_known with ho | ho
  · exact .inl ⟨ho, fun cfg => C12_validate_never_fires_after_renumbering _ _ _ ho gen_porder_std cfg⟩
  · exact .inr ⟨ho, fun cfg => ⟨C12_dup_rejected_when_validated_first _ _ _ ho gen_porder_std cfg,
                                 C12_no_false_rejection _ _ _ ho gen_porder_std cfg⟩⟩

/-! ### `parse_mappings` on sections = the document = the union of the sections -/

theorem ids_secDoc (s : Sec) : ids (secDoc s) = secIds s := by
  simp [ids, secDoc, secIds, List.map_map, Function.comp_def]

theorem pairwise_disjoint {cfg : Config} (hnames : (cfg.map (·.name)).Nodup) (hF1 : hasDupId cfg = false) :
    (cfg.map secDoc).Pairwise DisjointIds := by
  rw [List.pairwise_map]
  have hn : cfg.Pairwise (fun a b => a.name ≠ b.name) := by
    have := hnames
    rw [List.Nodup, List.pairwise_map] at this
    exact this
  refine List.Pairwise.imp_of_mem ?_ hn
  intro a b ha hb hne x hx hx'
  rw [ids_secDoc] at hx hx'
  have : hasDupId cfg = true := (hasDupId_iff cfg).mpr ⟨a, ha, b, hb, hne, x, hx, hx'⟩
  rw [this] at hF1
  cases hF1

theorem resolves_raw {d : Doc} (hc : Closed d) : Resolves (dedupFirst (rawOf d)) := by
  intro r hr hp
  have hr' : r ∈ rawOf d := (mem_dedupFirst _ _).mp hr
  simp only [rawOf, List.mem_flatMap] at hr'
  obtain ⟨tm, htm, hrtm⟩ := hr'
  obtain ⟨q, hq, he⟩ := exists_rule_of_id (d := d) (hc tm htm _ (parent_of_mem hrtm hp))
  exact ⟨q, (mem_dedupFirst _ _).mpr hq, he⟩

/-- **C12 for configurations (partial).** For every configuration whose sections have different names and are closed, in
    which no identifier is declared by two sections (complement of the scope of C12_F1) and no plain value equals an
    identifier (complement of the scope of C12_F2): `parse_mappings`, with the call sequences read from the source, accepts
    the configuration, and its rule table evaluates — statement for statement, error for error — like the normalised
    document made of all the triples maps of all files of all sections. -/
theorem C12_pipeline_partial (env : Env) (cfg : Config) (hnames : (cfg.map (·.name)).Nodup)
    (hclosed : ∀ s ∈ cfg, Closed (secDoc s)) (hF1 : hasDupId cfg = false)
    (hF2 : valueClash (dedupFirst (rawRules cfg)) = false) :
    ∃ rs, parseNow cfg = .ok rs ∧ evalAll env rs = evalAll env (normalizeDoc (cfgDoc cfg)) := by
  have hparts : ∀ d ∈ cfg.map secDoc, Closed d := by
    intro d hd
    obtain ⟨s, hs, rfl⟩ := List.mem_map.mp hd
    exact hclosed s hs
  have hraw : rawRules cfg = rawOf (cfgDoc cfg) := by
    rw [rawRules_eq, cfgDoc_eq, rawOf_joinDocs _ hparts (pairwise_disjoint hnames hF1)]
  have hcl : Closed (cfgDoc cfg) := by rw [cfgDoc_eq]; exact closed_joinDocs hparts
  have hparse : parseNow cfg = .ok (pre Gen.expandStarGuarded (rawRules cfg)) := by
    rcases C12_F1_or_fixed with ⟨_, h⟩ | ⟨_, h⟩
    · exact h cfg
    · exact (h cfg).2 hF1
  refine ⟨_, hparse, ?_⟩
  rw [normalizeDoc_eq, ← hraw]
  unfold pre
  apply evalAll_renumber_elim
  · rw [hraw]; exact resolves_raw hcl
  · exact stable_of_noClash _ _ hF2
  · rw [hraw]; exact fun r hr => subjectMapType_ne_parentTM_of_raw hr

/-- **Sections (partial).** … and these statements are exactly those of the sections taken one by one. -/
theorem C12_sections_partial (env : Env) (cfg : Config) (hnames : (cfg.map (·.name)).Nodup)
    (hclosed : ∀ s ∈ cfg, Closed (secDoc s)) (hF1 : hasDupId cfg = false)
    (hF2 : valueClash (dedupFirst (rawRules cfg)) = false)
    (hok : ∀ s ∈ cfg, ∃ o, evalAll env (normalizeDoc (secDoc s)) = .ok o) :
    ∃ rs o, parseNow cfg = .ok rs ∧ evalAll env rs = .ok o ∧
      ∀ l, l ∈ o ↔ ∃ s ∈ cfg, ∃ os, evalAll env (normalizeDoc (secDoc s)) = .ok os ∧ l ∈ os := by
  obtain ⟨rs, hrs, he⟩ := C12_pipeline_partial env cfg hnames hclosed hF1 hF2
  have hparts : ∀ d ∈ cfg.map secDoc, Closed d := by
    intro d hd
    obtain ⟨s, hs, rfl⟩ := List.mem_map.mp hd
    exact hclosed s hs
  obtain ⟨o, ho, hm⟩ := C12_union_parts env (cfg.map secDoc) hparts (pairwise_disjoint hnames hF1) (by
    intro d hd
    obtain ⟨s, hs, rfl⟩ := List.mem_map.mp hd
    exact hok s hs)
  refine ⟨rs, o, hrs, by rw [he, cfgDoc_eq, ho], fun l => ?_⟩
  rw [hm]
  constructor
  · rintro ⟨d, hd, od, hod, hl⟩
    obtain ⟨s, hs, rfl⟩ := List.mem_map.mp hd
    exact ⟨s, hs, od, hod, hl⟩
  · rintro ⟨s, hs, os, hos, hl⟩
    exact ⟨secDoc s, List.mem_map.mpr ⟨s, hs, rfl⟩, os, hos, hl⟩

/-! ### decidable forms of the hypotheses, witnesses, non-vacuity -/

def closedB (d : Doc) : Bool := d.tms.all fun tm => (parentsOfTm tm).all fun p => (ids d).contains p
def disjointB (d₁ d₂ : Doc) : Bool := (ids d₁).all fun x => !(ids d₂).contains x

theorem closed_of_closedB {d : Doc} (h : closedB d = true) : Closed d := by
  simp only [closedB, List.all_eq_true, List.contains_iff_mem] at h
  exact h

theorem disjoint_of_disjointB {d₁ d₂ : Doc} (h : disjointB d₁ d₂ = true) : DisjointIds d₁ d₂ := by
  simp only [disjointB, List.all_eq_true, Bool.not_eq_true'] at h
  intro x hx hx'
  have := h x hx
  rw [List.contains_iff_mem.mpr hx'] at this
  cases this

namespace Wit
def tpl (pre col : String) : TermMap := { kind := .template, tpl := ⟨pre.toList, [(col.toList, [])]⟩, termType := .iri }
def const (v : String) : TermMap := { kind := .constant, value := v.toList, termType := .iri }
def emp (id src : String) : TriplesMap :=
  { id := id.toList, sourceName := [], lsv := src.toList, subject := tpl "http://ex.org/emp/" "id", classes := [], graphs := [],
    poms := [⟨[const "http://ex.org/dept"], [.ref "http://ex.org/tm/Dept".toList [("dept".toList, "dept".toList)]], []⟩] }
def dept (src : String) : TriplesMap :=
  { id := "http://ex.org/tm/Dept".toList, sourceName := [], lsv := src.toList, subject := tpl "http://ex.org/dept/" "dname", classes := [], graphs := [],
    poms := [⟨[const "http://ex.org/name"], [.term { kind := .reference, value := "dname".toList, termType := .literal }], []⟩] }
/-- two sections declaring the same two triples maps (employee → department join), each over its own files -/
def secA : Sec := ⟨"A".toList, [[emp "http://ex.org/tm/Emp" "ea.csv", dept "da.csv"]]⟩
def secB : Sec := ⟨"B".toList, [[emp "http://ex.org/tm/Emp" "eb.csv", dept "db.csv"]]⟩
def cfg : Config := [secB, secA]
def row (kv : List (String × String)) : Row := kv.map fun p => (p.1.toList, Cell.str p.2.toList)
def tables : List ((Str × Str) × Table) :=
  [ (("A".toList, "ea.csv".toList), [row [("id", "1"), ("dept", "d1")]]), (("A".toList, "da.csv".toList), [row [("dept", "d1"), ("dname", "Sales")]]),
    (("B".toList, "eb.csv".toList), [row [("id", "7"), ("dept", "d9")]]), (("B".toList, "db.csv".toList), [row [("dept", "d9"), ("dname", "Ops")]]) ]
def env : Env := { cfg := { escapeChain := Gen.escapeChainTemplate }, tables := tables }

/-- a constant object that is the IRI of another triples map -/
def tm0 : TriplesMap :=
  { id := "http://ex.org/tm/TM0".toList, sourceName := [], lsv := "t.csv".toList, subject := tpl "http://ex.org/" "id", classes := [], graphs := [],
    poms := [⟨[const "http://ex.org/from"], [.term (const "http://ex.org/tm/TM1")], []⟩] }
def tm1 : TriplesMap :=
  { id := "http://ex.org/tm/TM1".toList, sourceName := [], lsv := "t.csv".toList, subject := tpl "http://ex.org/x/" "id", classes := [], graphs := [],
    poms := [⟨[const "http://ex.org/n"], [.term { kind := .reference, value := "name".toList, termType := .literal }], []⟩] }
def cfg2 : Config := [⟨"DS".toList, [[tm0, tm1]]⟩]
def env2 : Env := { cfg := { escapeChain := Gen.escapeChainTemplate },
                    tables := [(("DS".toList, "t.csv".toList), [row [("id", "1"), ("name", "a")]])] }

/-- a configuration inside the hypotheses of the partial theorems: the join in section A, an independent map in section B,
    the triples maps of A in two files (the parent in the other file) -/
def okCfg : Config :=
  [⟨"A".toList, [[emp "http://ex.org/tm/Emp" "ea.csv"], [dept "da.csv"]]⟩,
   ⟨"B".toList, [[{ dept "db.csv" with id := "http://ex.org/tm/Dept2".toList }]]⟩]
end Wit

/-- **C12_F1 (witness, model of the code as it is).** The identifiers `Emp`, `Dept` are declared by both sections; the
    table that `_preprocess_mappings` produces is accepted by the duplicate check (`dupIds … = []`, cf.
    `C12_validate_never_fires_after_renumbering`) and evaluates to three statements … -/
theorem C12_F1_witness_silently_merged :
    hasDupId Wit.cfg = true ∧ dupIds (pre false (rawRules Wit.cfg)) = [] ∧
    evalAll Wit.env (pre false (rawRules Wit.cfg)) = .ok
      [ "<http://ex.org/emp/7> <http://ex.org/dept> <http://ex.org/dept/Ops>".toList,
        "<http://ex.org/dept/Ops> <http://ex.org/name> \"Ops\"".toList,
        "<http://ex.org/dept/Sales> <http://ex.org/name> \"Sales\"".toList ] := by
  refine ⟨by decide +kernel, dupIds_pre _ _, by decide +kernel⟩

/-- … while section `A` alone yields the link `emp/1 → dept/Sales`, which the merged run has lost: the referencing object
    map of `A` was joined with the `Dept` rule of `B`, the first one carrying that identifier. -/
theorem C12_F1_witness_statement_lost :
    evalAll Wit.env (normalizeDoc (secDoc Wit.secA)) = .ok
      [ "<http://ex.org/emp/1> <http://ex.org/dept> <http://ex.org/dept/Sales>".toList,
        "<http://ex.org/dept/Sales> <http://ex.org/name> \"Sales\"".toList ] ∧
    "<http://ex.org/emp/1> <http://ex.org/dept> <http://ex.org/dept/Sales>".toList ∉
      (evalAll Wit.env (pre false (rawRules Wit.cfg))).toOption.getD [] := by
  refine ⟨by decide +kernel, by decide +kernel⟩

/-- **C12_F2 (witness, model of the code as it is: `guarded = false`).** `rr:object <http://ex.org/tm/TM1>` comes out as
    `<#TM1>` once a triples map with that IRI is in the configuration; the document semantics (and the guarded rewriting)
    keep the constant. -/
theorem C12_F2_witness :
    valueClash (dedupFirst (rawRules Wit.cfg2)) = true ∧
    evalAll Wit.env2 (pre false (rawRules Wit.cfg2)) = .ok
      [ "<http://ex.org/1> <http://ex.org/from> <#TM1>".toList, "<http://ex.org/x/1> <http://ex.org/n> \"a\"".toList ] ∧
    evalAll Wit.env2 (normalizeDoc (cfgDoc Wit.cfg2)) = .ok
      [ "<http://ex.org/1> <http://ex.org/from> <http://ex.org/tm/TM1>".toList, "<http://ex.org/x/1> <http://ex.org/n> \"a\"".toList ] ∧
    evalAll Wit.env2 (pre true (rawRules Wit.cfg2)) = evalAll Wit.env2 (normalizeDoc (cfgDoc Wit.cfg2)) := by
  refine ⟨by decide +kernel, by decide +kernel, by decide +kernel, by decide +kernel⟩

/-- with the rewriting restricted to referencing / quoted maps every table of the fragment is stable -/
theorem stable_guarded (R : List Rule)
    (h : ∀ r ∈ R, r.subjectMapType ≠ .quoted ∧ r.subjectMapType ≠ .parentTM ∧ r.objectMapType ≠ .quoted) : Stable true R := by
  intro r hr
  obtain ⟨h1, h2, h3⟩ := h r hr
  constructor
  · unfold mapVal
    simp [h1, h2]
  · intro hp
    unfold mapVal
    simp [h3, hp]

/-- **C12_F2 or its repair**, decided by the shape of `_expand_rml_star` the translator has just read: either every value is
    sent through `tm_to_id_dict` (then the witness above is what the code does), or only the values of referencing / quoted
    maps are (then the hypothesis `valueClash = false` of the partial theorems is not needed: `Stable` holds outright). -/
theorem C12_F2_or_fixed :
    (Gen.expandStarGuarded = false ∧
      evalAll Wit.env2 (pre Gen.expandStarGuarded (rawRules Wit.cfg2)) ≠ evalAll Wit.env2 (normalizeDoc (cfgDoc Wit.cfg2))) ∨
    (Gen.expandStarGuarded = true ∧
      ∀ R : List Rule, (∀ r ∈ R, r.subjectMapType ≠ .quoted ∧ r.subjectMapType ≠ .parentTM ∧ r.objectMapType ≠ .quoted) →
        Stable Gen.expandStarGuarded R) := by
  by_cases hg : Gen.expandStarGuarded = true
  · exact .inr ⟨hg, fun R h => by rw [hg]; exact stable_guarded R h⟩
  · have hg' : Gen.expandStarGuarded = false := by simpa using hg
    refine .inl ⟨hg', ?_⟩
    rw [hg', C12_F2_witness.2.1, C12_F2_witness.2.2.1]
    decide +kernel

/-! #### non-vacuity of the hypotheses -/

example : (Wit.okCfg.map (·.name)).Nodup := by decide +kernel
example : ∀ s ∈ Wit.okCfg, Closed (secDoc s) := by
  intro s hs
  apply closed_of_closedB
  revert s
  decide +kernel
example : hasDupId Wit.okCfg = false := by decide +kernel
example : valueClash (dedupFirst (rawRules Wit.okCfg)) = false := by decide +kernel
/-- a file alone need not be closed (the parent of `Emp` is in the other file of section A); the section is -/
example : closedB ⟨[Wit.emp "http://ex.org/tm/Emp" "ea.csv"]⟩ = false := by decide +kernel
/-- what the pipeline yields on it: the join statement, the two department names -/
example : (parseNow Wit.okCfg).toOption.map (evalAll Wit.env) = some (.ok
    [ "<http://ex.org/emp/1> <http://ex.org/dept> <http://ex.org/dept/Sales>".toList,
      "<http://ex.org/dept/Sales> <http://ex.org/name> \"Sales\"".toList,
      "<http://ex.org/dept/Ops> <http://ex.org/name> \"Ops\"".toList ]) := by decide +kernel
/-- `C12_union` / `C12_unrelated`: closed parts with different identifiers -/
example : Closed (secDoc Wit.secA) ∧ DisjointIds (secDoc Wit.secA) ⟨[Wit.tm1]⟩ ∧ Closed ⟨[Wit.tm1]⟩ :=
  ⟨closed_of_closedB (by decide +kernel), disjoint_of_disjointB (by decide +kernel), closed_of_closedB (by decide +kernel)⟩
/-- `C12_perm` -/
example : (ids (secDoc Wit.secA)).Nodup ∧ (secDoc Wit.secA).tms.Perm (secDoc Wit.secA).tms.reverse :=
  ⟨by decide +kernel, (List.reverse_perm _).symm⟩
/-- `C12_renumbering`: its hypotheses on the raw table of the witness configuration of C12_F1 restricted to one section -/
example : Resolves (dedupFirst (rawOf (secDoc Wit.secA))) := resolves_raw (closed_of_closedB (by decide +kernel))

/-! ### the tree as it is now (after the `fix:` commits 987e1d4 and 6d1a128)

No hypothesis on the generated shape: these hold because the translator reads the repaired call order / the guarded rewriting from
/repo, and stop checking — with the order / the flag as witness — if the source regresses to C12_F1 or C12_F2. -/

/-- C12_F1 repaired: `validate_mappings` runs before `_preprocess_mappings` renumbers the rules -/
theorem C12_current_order : Gen.parseOrder.filter relevantStep = orderFixed := by decide

/-- … so an identifier declared in two sections IS rejected, and nothing else is, for every configuration -/
theorem C12_dup_rejected_current (cfg : Config) :
    (hasDupId cfg = true → ∃ ids, parseNow cfg = .error (.dupTriplesMap ids)) ∧
    (hasDupId cfg = false → parseNow cfg = .ok (pre Gen.expandStarGuarded (rawRules cfg))) := by
  rcases C12_F1_or_fixed with ⟨ho, _⟩ | ⟨_, h⟩
  · rw [C12_current_order] at ho; exact absurd ho (by decide)
  · exact h cfg

/-- C12_F2 repaired: only the values of referencing / quoted maps are sent through `tm_to_id_dict` -/
theorem C12_current_guard : Gen.expandStarGuarded = true := by decide

/-- … so the renumbering is stable for every rule table of the fragment, whatever constants equal a triples-map identifier -/
theorem C12_stable_current (R : List Rule)
    (h : ∀ r ∈ R, r.subjectMapType ≠ .quoted ∧ r.subjectMapType ≠ .parentTM ∧ r.objectMapType ≠ .quoted) :
    Stable Gen.expandStarGuarded R := by
  rcases C12_F2_or_fixed with ⟨hg, _⟩ | ⟨_, hs⟩
  · rw [C12_current_guard] at hg; exact absurd hg (by decide)
  · exact hs R h

end Props.C12
