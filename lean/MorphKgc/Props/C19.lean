/-
C19 — Every configuration is honoured or rejected, never silently misread.

The model (`Model/Config.lean`) is parametric; `Model/ConfigEngine.lean` instantiates it with the tables, the
order of the validation blocks, the defaulting loops, the getter kinds and the loader step sequences that the
translator regenerates from config.py / constants.py / args_parser.py into `Gen/Config.lean`.  Every theorem
below is about those generated definitions and quantifies over ALL values (arbitrary strings, any letter
case) and ALL configurations; the facts needed about the generated data are decidable side conditions
proved by `decide`, so a harmless edit of /repo re-proves and a harmful one stops the build.
-/
import MorphKgc.Model.ConfigEngine
import MorphKgc.Spec.ConfigDoc
import MorphKgc.Lemmas.Config

namespace Props.C19
open Py Model Model.Config Lemmas.Config
open Gen.Config (OUTPUT_FORMAT OUTPUT_FILE NA_VALUES MAPPING_PARTITIONING LOGGING_LEVEL ONLY_PRINTABLE_CHARS
  SAFE_PERCENT_ENCODING NUMBER_OF_PROCESSES INFER_SQL_DATATYPES)

/-! ### side conditions on the generated data (re-decided on every build) -/

/-- every option is defaulted by exactly one entry of exactly one table -/
theorem sc_entries_nodup : (entries.map (·.2.1)).Nodup := by decide +kernel

/-- every validation block upper-cases, writes back and raises -/
theorem sc_checks_strict : Gen.Config.enumChecks.all strict = true := by decide +kernel

theorem sc_checks_nodup : (Gen.Config.enumChecks.map (·.option)).Nodup := by decide +kernel

/-- the validated options are exactly the documented enumerated options -/
theorem sc_enum_options : (∀ o ∈ Spec.ConfigDoc.enumOptions, o ∈ enumOptions) ∧ (∀ o ∈ enumOptions, o ∈ Spec.ConfigDoc.enumOptions) := by
  decide +kernel

theorem sc_validValues : ∀ e ∈ Gen.Config.enumChecks, validValues e.option = e.valid := by decide +kernel

/-- every validated option has a default, so validation after defaulting never meets a missing option -/
theorem sc_enum_defaulted : ∀ o ∈ enumOptions, (entryOf o).isSome = true := by decide +kernel

/-- `_parse_config` is "defaults, then validation" on each of the three loaders -/
theorem sc_loader_steps :
    (Gen.Config.loaderFileSteps.filter fun s => s = .completeDefaults ∨ s = .validate) = [.completeDefaults, .validate] ∧
    (Gen.Config.loaderStringSteps.filter fun s => s = .completeDefaults ∨ s = .validate) = [.completeDefaults, .validate] ∧
    (Gen.Config.loaderCliSteps.filter fun s => s = .completeDefaults ∨ s = .validate) = [.completeDefaults, .validate] := by
  decide +kernel

theorem sc_bool_nodup : (Gen.Config.booleanStates.map (·.1)).Nodup := by decide +kernel

/-- the interpreter's truth table is the documented one -/
theorem sc_bool_table :
    (Gen.Config.booleanStates.all fun kb => decide (kb.1 ∈ Spec.ConfigDoc.truthTable kb.2)) = true ∧
    (∀ b : Bool, ((Spec.ConfigDoc.truthTable b).all fun k => decide ((k, b) ∈ Gen.Config.booleanStates)) = true) := by
  decide +kernel

theorem sc_getter_kinds :
    getterOf "only_write_printable_characters" = some (.getboolean, ONLY_PRINTABLE_CHARS) ∧
    getterOf "infer_sql_datatypes" = some (.getboolean, INFER_SQL_DATATYPES) ∧
    getterOf "get_number_of_processes" = some (.getint, NUMBER_OF_PROCESSES) ∧
    getterOf "get_na_values" = some (.naList, NA_VALUES) ∧
    getterOf "get_safe_percent_encoding" = some (.get, SAFE_PERCENT_ENCODING) ∧
    getterOf "get_output_format" = some (.get, OUTPUT_FORMAT) := by decide +kernel

theorem sc_na_sep : Gen.Config.naShape.sep = Spec.ConfigDoc.naSeparator := by decide +kernel

/-! ### C19_enum — enumerated options: accepted iff the upper-cased value is listed, for EVERY string -/

theorem passes_iff (e : EnumCheck) (he : e ∈ Gen.Config.enumChecks) (c : Cfg) :
    Passes e c ↔ ∃ v, cfgGet c e.option = some v ∧ asciiUpper v ∈ validValues e.option := by
  unfold Passes
  rw [sc_validValues e he]

/-- Whole configuration: validation accepts iff every enumerated option holds a value whose upper-casing is
    listed. -/
theorem C19_enum_all (c : Cfg) :
    (∃ c', validate c = .ok c') ↔ ∀ o ∈ enumOptions, ∃ v, cfgGet c o = some v ∧ asciiUpper v ∈ validValues o := by
  unfold validate
  rw [validateWith_ok_iff _ sc_checks_strict sc_checks_nodup]
  constructor
  · intro h o ho
    obtain ⟨e, he, rfl⟩ := List.mem_map.mp ho
    exact (passes_iff e he c).mp (h e he)
  · intro h e he
    exact (passes_iff e he c).mpr (h e.option (List.mem_map_of_mem he))

/-- What is stored when validation accepts: each enumerated option holds the UPPER-CASED value (this is what
    the consumers compare with `==`), every other option is untouched. -/
theorem C19_enum_stored (c c' : Cfg) (h : validate c = .ok c') (o : Str) :
    cfgGet c' o = if o ∈ enumOptions then (cfgGet c o).map asciiUpper else cfgGet c o :=
  validateWith_ok_get _ sc_checks_strict sc_checks_nodup c c' h o

/-- One option, every string `v`: in a configuration whose *other* enumerated options are acceptable, writing
    `o = v` is accepted iff `asciiUpper v` is in the list of `o`; then the stored value is `asciiUpper v`;
    otherwise the result is the `ValueError` of `o`. -/
theorem C19_enum (o : Str) (ho : o ∈ Spec.ConfigDoc.enumOptions) (v : Str) (c : Cfg)
    (hc : ∀ o' ∈ Spec.ConfigDoc.enumOptions, o' ≠ o → ∃ w, cfgGet c o' = some w ∧ asciiUpper w ∈ validValues o') :
    (asciiUpper v ∈ validValues o →
        ∃ c', validate (cfgSet c o v) = .ok c' ∧ cfgGet c' o = some (asciiUpper v)) ∧
    (asciiUpper v ∉ validValues o → validate (cfgSet c o v) = .error (.valueError o)) := by
  have hoG : o ∈ enumOptions := sc_enum_options.1 o ho
  have hothers : ∀ o' ∈ enumOptions, o' ≠ o →
      ∃ w, cfgGet (cfgSet c o v) o' = some w ∧ asciiUpper w ∈ validValues o' := by
    intro o' ho' hne
    rw [cfgGet_cfgSet_ne c v hne]
    exact hc o' (sc_enum_options.2 o' ho') hne
  constructor
  · intro hv
    have hall : ∀ o' ∈ enumOptions, ∃ w, cfgGet (cfgSet c o v) o' = some w ∧ asciiUpper w ∈ validValues o' := by
      intro o' ho'
      by_cases hne : o' = o
      · subst hne; exact ⟨v, cfgGet_cfgSet_eq c _ v, hv⟩
      · exact hothers o' ho' hne
    obtain ⟨c', hc'⟩ := (C19_enum_all _).mpr hall
    refine ⟨c', hc', ?_⟩
    rw [C19_enum_stored _ _ hc' o]
    simp [hoG, cfgGet_cfgSet_eq]
  · intro hv
    cases hval : validate (cfgSet c o v) with
    | ok c' =>
      exfalso
      obtain ⟨w, hw, hww⟩ := (C19_enum_all _).mp ⟨c', hval⟩ o hoG
      rw [cfgGet_cfgSet_eq] at hw
      cases hw
      exact hv hww
    | error err =>
      obtain ⟨pre, e, post, heq, _, hfail⟩ :=
        validateWith_error _ sc_checks_strict sc_checks_nodup _ err hval
      have he : e ∈ Gen.Config.enumChecks := by rw [heq]; simp
      have heo : e.option = o := by
        by_cases hne : e.option = o
        · exact hne
        · exfalso
          obtain ⟨w, hw, hww⟩ := hothers e.option (List.mem_map_of_mem he) hne
          rw [sc_validValues e he] at hww
          rcases hfail with ⟨hnone, _⟩ | ⟨w', hw', hbad, _⟩
          · rw [hnone] at hw; cases hw
          · rw [hw'] at hw; cases hw; exact hbad hww
      rcases hfail with ⟨hnone, _⟩ | ⟨_, _, _, herr⟩
      · rw [heo, cfgGet_cfgSet_eq] at hnone; cases hnone
      · rw [herr, heo]

/-- Case-insensitivity as a theorem over all strings: acceptance of `o = v` depends on `v` only through
    `asciiUpper v` — two spellings that differ in letter case are both accepted (with the same stored value) or
    both rejected. -/
theorem C19_enum_case (o : Str) (ho : o ∈ Spec.ConfigDoc.enumOptions) (v w : Str) (hvw : asciiUpper v = asciiUpper w) (c : Cfg)
    (hc : ∀ o' ∈ Spec.ConfigDoc.enumOptions, o' ≠ o → ∃ x, cfgGet c o' = some x ∧ asciiUpper x ∈ validValues o') :
    ((∃ c', validate (cfgSet c o v) = .ok c') ↔ (∃ c', validate (cfgSet c o w) = .ok c')) := by
  have hv := C19_enum o ho v c hc
  have hw := C19_enum o ho w c hc
  by_cases h : asciiUpper v ∈ validValues o
  · obtain ⟨c1, h1, _⟩ := hv.1 h
    obtain ⟨c2, h2, _⟩ := hw.1 (hvw ▸ h)
    exact ⟨fun _ => ⟨c2, h2⟩, fun _ => ⟨c1, h1⟩⟩
  · have h1 := hv.2 h
    have h2 := hw.2 (hvw ▸ h)
    constructor
    · rintro ⟨c', hc'⟩; rw [h1] at hc'; cases hc'
    · rintro ⟨c', hc'⟩; rw [h2] at hc'; cases hc'

def sameSet (a b : List Str) : Bool := a.all (fun x => decide (x ∈ b)) && b.all (fun x => decide (x ∈ a))

theorem sameSet_iff {a b : List Str} (h : sameSet a b = true) (x : Str) : x ∈ a ↔ x ∈ b := by
  simp only [sameSet, Bool.and_eq_true, List.all_eq_true, decide_eq_true_eq] at h
  exact ⟨h.1 x, h.2 x⟩

/-- The lists the code tests against are the documented ones (as sets), for each enumerated option; and
    every documented spelling is its own upper-casing. -/
theorem C19_enum_documented :
    ∀ o ∈ Spec.ConfigDoc.enumOptions, sameSet (validValues o) (Spec.ConfigDoc.documentedValues o) = true ∧
      ∀ d ∈ Spec.ConfigDoc.documentedValues o, asciiUpper d = d := by decide +kernel

/-- Documentation form of `C19_enum`: `o = v` is accepted iff `v` is a letter-case variant of a documented
    value. -/
theorem C19_enum_doc (o : Str) (ho : o ∈ Spec.ConfigDoc.enumOptions) (v : Str) (c : Cfg)
    (hc : ∀ o' ∈ Spec.ConfigDoc.enumOptions, o' ≠ o → ∃ w, cfgGet c o' = some w ∧ asciiUpper w ∈ validValues o') :
    (∃ c', validate (cfgSet c o v) = .ok c') ↔ ∃ d ∈ Spec.ConfigDoc.documentedValues o, asciiUpper v = asciiUpper d := by
  have hdoc := C19_enum_documented o ho
  have hE := C19_enum o ho v c hc
  constructor
  · rintro ⟨c', hc'⟩
    by_cases h : asciiUpper v ∈ validValues o
    · have hd := (sameSet_iff hdoc.1 _).mp h
      exact ⟨asciiUpper v, hd, (hdoc.2 _ hd).symm⟩
    · rw [hE.2 h] at hc'; cases hc'
  · rintro ⟨d, hd, hvd⟩
    have : asciiUpper v ∈ validValues o := by
      rw [hvd, hdoc.2 d hd]; exact (sameSet_iff hdoc.1 _).mpr hd
    obtain ⟨c', h1, _⟩ := hE.1 this
    exact ⟨c', h1⟩

/-! ### C19_defaults — absent and empty options -/

theorem entryOf_mem {o : Str} {ev : Bool} {d : DefaultVal} (h : entryOf o = some (ev, d)) : (ev, o, d) ∈ entries := by
  unfold entryOf at h
  cases hf : entries.find? (fun e => e.2.1 = o) with
  | none => simp [hf] at h
  | some e =>
    simp only [hf, Option.map_some, Option.some.injEq, Prod.mk.injEq] at h
    have hm := List.mem_of_find?_eq_some hf
    have hp := List.find?_some hf
    simp only [decide_eq_true_eq] at hp
    obtain ⟨a, b, c⟩ := e
    simp only at h hp
    obtain ⟨rfl, rfl⟩ := h
    subst hp
    exact hm

theorem entryOf_of_mem {o : Str} {ev : Bool} {d : DefaultVal} (h : (ev, o, d) ∈ entries) : entryOf o = some (ev, d) := by
  cases hE : entryOf o with
  | none =>
    exfalso
    unfold entryOf at hE
    simp only [Option.map_eq_none_iff, List.find?_eq_none, decide_eq_true_eq] at hE
    exact hE _ h rfl
  | some p =>
    obtain ⟨ev', d'⟩ := p
    have hm := entryOf_mem hE
    -- two entries with the same option name coincide because names are pairwise distinct
    have key : ∀ (es : List (Bool × Str × DefaultVal)), (es.map (·.2.1)).Nodup →
        ∀ a b : Bool × Str × DefaultVal, a ∈ es → b ∈ es → a.2.1 = b.2.1 → a = b := by
      intro es hnd a b ha hb hab
      induction es with
      | nil => simp at ha
      | cons x xs ih =>
        simp only [List.map_cons, List.nodup_cons] at hnd
        rcases List.mem_cons.mp ha with rfl | ha' <;> rcases List.mem_cons.mp hb with rfl | hb'
        · rfl
        · exact absurd (hab ▸ List.mem_map_of_mem hb') hnd.1
        · exact absurd (hab ▸ List.mem_map_of_mem ha') hnd.1
        · exact ih hnd.2 ha' hb'
    have := key entries sc_entries_nodup _ _ hm h rfl
    simp only [Prod.mk.injEq, true_and] at this
    rw [this.1, this.2]

/-- The value of EVERY option after `complete_configuration_with_defaults`, as a function of what was written
    for that option alone. -/
theorem C19_completed_value (cpu : Nat) (c : Cfg) (o : Str) :
    cfgGet (completeDefaults cpu c) o = completedValue cpu o (cfgGet c o) := by
  have hcd : completeDefaults cpu c = entries.foldl (completeEntry cpu) c := rfl
  rw [hcd]
  unfold completedValue
  cases hE : entryOf o with
  | none =>
    have : o ∉ entries.map (·.2.1) := by
      unfold entryOf at hE
      simp only [Option.map_eq_none_iff, List.find?_eq_none, decide_eq_true_eq] at hE
      intro hm
      obtain ⟨e, he, heq⟩ := List.mem_map.mp hm
      exact hE e he heq
    exact foldl_complete_get_notin cpu entries c this
  | some p =>
    obtain ⟨ev, d⟩ := p
    have := foldl_complete_get_mem cpu entries c sc_entries_nodup (entryOf_mem hE)
    simpa using this

/-- absent option → the generated default (both tables) -/
theorem C19_defaults_absent (cpu : Nat) (c : Cfg) (ev : Bool) (o : Str) (d : DefaultVal)
    (h : (ev, o, d) ∈ entries) (habs : cfgGet c o = none) :
    cfgGet (completeDefaults cpu c) o = some (d.eval cpu) := by
  rw [C19_completed_value, completedValue, entryOf_of_mem h, habs]; rfl

/-- empty value, option in `CONFIGURATION_OPTIONS_EMPTY_NON_VALID` → the default -/
theorem C19_defaults_empty_nonvalid (cpu : Nat) (c : Cfg) (o : Str) (d : DefaultVal)
    (h : (false, o, d) ∈ entries) (hemp : cfgGet c o = some []) :
    cfgGet (completeDefaults cpu c) o = some (d.eval cpu) := by
  rw [C19_completed_value, completedValue, entryOf_of_mem h, hemp]; simp [finalOf]

/-- empty value, option in `CONFIGURATION_OPTIONS_EMPTY_VALID` → stays empty (exactly what the code does) -/
theorem C19_defaults_empty_valid (cpu : Nat) (c : Cfg) (o : Str) (d : DefaultVal)
    (h : (true, o, d) ∈ entries) (hemp : cfgGet c o = some []) :
    cfgGet (completeDefaults cpu c) o = some [] := by
  rw [C19_completed_value, completedValue, entryOf_of_mem h, hemp]; simp [finalOf]

/-- a non-empty value is never replaced -/
theorem C19_defaults_provided (cpu : Nat) (c : Cfg) (o v : Str) (hv : cfgGet c o = some v) (hne : v ≠ []) :
    cfgGet (completeDefaults cpu c) o = some v := by
  rw [C19_completed_value, completedValue, hv]
  cases entryOf o with
  | none => rfl
  | some p => simp [finalOf, hne]

/-- `_parse_config` never fails for want of an option, and its result holds, for EVERY option `o`, a value
    determined by what was written for `o` alone: the given value (upper-cased for the three enumerated
    options), or the default.  No option influences another (frame). -/
theorem C19_parse_value (cpu : Nat) (c c' : Cfg) (h : parseConfig cpu c = .ok c') (o : Str) :
    cfgGet c' o = finalValue cpu o (cfgGet c o) := by
  unfold parseConfig parseConfigWith at h
  have := C19_enum_stored _ _ h o
  rw [this]
  unfold finalValue
  have hcv := C19_completed_value cpu c o
  unfold completeDefaults at hcv
  rw [hcv]

/-- the only way `_parse_config` fails is the `ValueError` of an enumerated option -/
theorem C19_parse_error (cpu : Nat) (c : Cfg) (err : CfgErr) (h : parseConfig cpu c = .error err) :
    ∃ o ∈ enumOptions, err = .valueError o ∧
      ∃ v, completedValue cpu o (cfgGet c o) = some v ∧ asciiUpper v ∉ validValues o := by
  unfold parseConfig parseConfigWith at h
  obtain ⟨pre, e, post, heq, _, hfail⟩ := validateWith_error _ sc_checks_strict sc_checks_nodup _ err h
  have he : e ∈ Gen.Config.enumChecks := by rw [heq]; simp
  have hcv := C19_completed_value cpu c e.option
  unfold completeDefaults at hcv
  refine ⟨e.option, List.mem_map_of_mem he, ?_⟩
  rcases hfail with ⟨hnone, _⟩ | ⟨v, hv, hbad, herr⟩
  · exfalso
    rw [hcv] at hnone
    have hs := sc_enum_defaulted e.option (List.mem_map_of_mem he)
    unfold completedValue at hnone
    cases hE : entryOf e.option with
    | none => simp [hE] at hs
    | some p => simp [hE] at hnone
  · refine ⟨herr, v, ?_, ?_⟩
    · rw [← hcv]; exact hv
    · rw [sc_validValues e he]; exact hbad

/-! #### agreement of the code's defaults with the documented ones -/

/-- the default `output_file` names the file that is written: the stored name gets the extension of the
    default output format (`Path.with_suffix` in `get_output_file_path`) -/
def defaultExtension : Str :=
  match genDefault OUTPUT_FORMAT with
  | some (.lit f) => ((Gen.Config.OUTPUT_FORMAT_FILE_EXTENSION.find? (fun p => p.1 = f)).map (·.2)).getD []
  | _ => []

def agrees (o : Str) : DefaultVal → Spec.ConfigDoc.DocDefault → Bool
  | .twiceCpu, .twiceCpuCount => true
  | .lit s, .value t => (if o = OUTPUT_FILE then withSuffix s defaultExtension else s) = t.toList
  | _, _ => false

/-- the code's default of a documented option is the documented default -/
def defaultAgrees (o : Str) : Bool :=
  match genDefault o, Spec.ConfigDoc.documentedDefault o with
  | some g, some d => agrees o g d
  | _, _ => false

/-- finding C19_F2: the default of `na_values` -/
def scope_C19_F2 (o : Str) : Bool := o = NA_VALUES

/-- FULL statement (false on the unchanged tree, see `C19_F2_witness`):
    `∀ o ∈ Spec.ConfigDoc.documentedOptions, defaultAgrees o = true`. -/
def C19_defaults_documented_full : Prop := ∀ o ∈ Spec.ConfigDoc.documentedOptions, defaultAgrees o = true

/-- counter-witness C19_F2: `default_config.ini` L4 documents thirteen NA tokens, the code's default is `,nan`
    (the scope of the recorded finding is exactly this default) -/
theorem C19_F2_witness :
    ¬ C19_defaults_documented_full ∧ genDefault NA_VALUES = some (.lit ",nan".toList) := by
  refine ⟨fun h => ?_, by decide +kernel⟩
  exact absurd (h "na_values".toList (by decide +kernel)) (by decide +kernel)

theorem C19_defaults_documented_partial :
    ∀ o ∈ Spec.ConfigDoc.documentedOptions, ¬ scope_C19_F2 o = true → defaultAgrees o = true := by decide +kernel

/-- does an explicitly empty `o=` behave like an absent `o`?  (cpu-free, decidable) -/
def emptyTakesDefault (o : Str) : Bool :=
  match entryOf o with
  | some (ev, d) => !ev || d = .lit []
  | none => false

theorem emptyTakesDefault_sound (cpu : Nat) (o : Str) (h : emptyTakesDefault o = true) :
    completedValue cpu o (some []) = completedValue cpu o none := by
  unfold emptyTakesDefault at h
  unfold completedValue
  cases hE : entryOf o with
  | none => simp [hE] at h
  | some p =>
    obtain ⟨ev, d⟩ := p
    simp only [hE, Bool.or_eq_true, Bool.not_eq_true', decide_eq_true_eq] at h
    rcases h with h | h
    · simp [finalOf, h]
    · subst h; cases ev <;> simp [finalOf, DefaultVal.eval]

/-- finding C19_F3: `mapping_partitioning=` (finding C19_F1, `output_file=`, was repaired by /repo commit 8e4f7f8:
    its scope predicate is gone and `C19_F1_fixed` below states the repaired behaviour) -/
def scope_C19_F3 (o : Str) : Bool := o = MAPPING_PARTITIONING
/-- `output_file=` keeps its empty *completed* value (it is an EMPTY_VALID option); what the documentation promises
    is about the *effective* value, the path `get_output_file_path` returns, and that is settled by `C19_F1_fixed`
    below rather than by `emptyTakesDefault` -/
def effectiveViaPath (o : Str) : Bool := o = OUTPUT_FILE

/-- FULL statement (false on the unchanged tree): every documented option for which the documentation gives
    the empty value no meaning of its own takes its default when left empty. -/
def C19_empty_full : Prop :=
  ∀ o ∈ Spec.ConfigDoc.documentedOptions, Spec.ConfigDoc.emptyTakesDefault o = true → emptyTakesDefault o = true

theorem C19_empty_partial :
    ∀ o ∈ Spec.ConfigDoc.documentedOptions, Spec.ConfigDoc.emptyTakesDefault o = true →
      ¬ effectiveViaPath o = true → ¬ scope_C19_F3 o = true → emptyTakesDefault o = true := by decide +kernel

/-- where the documentation gives the empty value a meaning of its own (`na_values=`: the one-token list) the
    empty value is kept, not defaulted -/
theorem C19_empty_value_kept :
    ∀ o ∈ Spec.ConfigDoc.documentedOptions, Spec.ConfigDoc.emptyTakesDefault o = false →
      (entryOf o).map (·.1) = some true ∧ ∀ cpu, completedValue cpu o (some []) = some [] := by
  intro o ho he
  have h : (entryOf o).map (·.1) = some true := by
    revert o; decide +kernel
  refine ⟨h, fun cpu => ?_⟩
  unfold completedValue
  cases hE : entryOf o with
  | none => simp [hE] at h
  | some p =>
    obtain ⟨ev, d⟩ := p
    simp only [hE, Option.map_some, Option.some.injEq] at h
    subst h
    simp [finalOf]

theorem C19_empty_full_fails : ¬ C19_empty_full := by
  intro h
  exact absurd (h "mapping_partitioning".toList (by decide +kernel) (by decide +kernel)) (by decide +kernel)

/-- former finding C19_F1, repaired by /repo commit 8e4f7f8 (`file_name = DEFAULT_OUTPUT_FILE` in the last branch of
    `get_output_file_path`): `output_file=` is accepted and the file that will be written is the documented default,
    exactly what an absent `output_file` gives. If the defect returns, this theorem no longer checks. -/
theorem C19_F1_fixed :
    (parseConfig 1 [(OUTPUT_FILE, [])]).toOption.bind outputFilePath = some "knowledge-graph.nt".toList ∧
    (parseConfig 1 []).toOption.bind outputFilePath = some "knowledge-graph.nt".toList := by decide +kernel

/-- counter-witness C19_F3 on the model: `mapping_partitioning=` is listed among the options whose empty value
    is valid, is therefore not defaulted, and is then rejected by the validation -/
theorem C19_F3_witness :
    parseConfig 1 [(MAPPING_PARTITIONING, [])] = .error (.valueError MAPPING_PARTITIONING) ∧
    emptyTakesDefault MAPPING_PARTITIONING = false := by decide +kernel

/-! ### C19_bool — configparser booleans: the truth table, case-insensitively, anything else is an error -/

theorem find_map_iff (states : List (Str × Bool)) (hnd : (states.map (·.1)).Nodup) (k : Str) (b : Bool) :
    (states.find? (fun kb => kb.1 = k)).map (·.2) = some b ↔ (k, b) ∈ states := by
  induction states with
  | nil => simp
  | cons x xs ih =>
    obtain ⟨k', b'⟩ := x
    simp only [List.map_cons, List.nodup_cons] at hnd
    by_cases hk : k' = k
    · subst hk
      simp only [List.find?_cons, decide_true, Option.map_some, Option.some.injEq, List.mem_cons, Prod.mk.injEq, true_and]
      constructor
      · exact Or.inl ∘ Eq.symm
      · rintro (h | h)
        · exact h.symm
        · exact absurd (List.mem_map_of_mem (f := (·.1)) h) hnd.1
    · have hk' : ¬ k = k' := fun e => hk e.symm
      simp only [List.find?_cons, hk, decide_false, List.mem_cons, Prod.mk.injEq, hk', false_and, false_or]
      exact ih hnd.2

theorem C19_bool (v : Str) (b : Bool) : parseBool v = some b ↔ asciiLower v ∈ Spec.ConfigDoc.truthTable b := by
  unfold parseBool parseBoolWith
  rw [find_map_iff _ sc_bool_nodup]
  have h1 := sc_bool_table.1
  have h2 := sc_bool_table.2 b
  simp only [List.all_eq_true, decide_eq_true_eq] at h1 h2
  exact ⟨fun h => h1 _ h, fun h => h2 _ h⟩

/-- never silently `False`: a value outside both columns of the truth table is an error at the getter -/
theorem C19_bool_reject (c : Cfg) (o v : Str) (hv : cfgGet c o = some v)
    (h : asciiLower v ∉ Spec.ConfigDoc.truthTable true ∧ asciiLower v ∉ Spec.ConfigDoc.truthTable false) :
    getBool Gen.Config.booleanStates c o = .error (.valueError o) := by
  unfold getBool
  rw [hv]
  have : parseBool v = none := by
    cases hp : parseBool v with
    | none => rfl
    | some b =>
      have := (C19_bool v b).mp hp
      cases b
      · exact absurd this h.2
      · exact absurd this h.1
  unfold parseBool at this
  simp [this]

/-- `int(value)`: a value containing any character that is not a digit, `_`, a sign or surrounding white
    space is an error (never silently a number) -/
theorem C19_int_reject (v : Str) (ch : Char) (hch : ch ∈ strip v)
    (hbad : ch.isDigit = false ∧ ch ≠ '_' ∧ ch ≠ '+' ∧ ch ≠ '-') : parseInt v = none := by
  have key : ∀ r : Str, ch ∈ r → parseNatU r = none := by
    intro r hr
    unfold parseNatU
    have hall : (r.all fun c => c.isDigit || c = '_') = false := by
      apply Bool.eq_false_iff.mpr
      intro h
      have := List.all_eq_true.mp h ch hr
      simp [hbad.1, hbad.2.1] at this
    simp only [hall]
    split
    · rfl
    · split
      · rfl
      · split <;> simp
  unfold parseInt
  split
  · next r heq =>
    rw [heq] at hch
    rcases List.mem_cons.mp hch with h | h
    · exact absurd h hbad.2.2.2
    · simp [key r h]
  · next r heq =>
    rw [heq] at hch
    rcases List.mem_cons.mp hch with h | h
    · exact absurd h hbad.2.2.1
    · simp [key r h]
  · simp [key _ hch]

/-! ### C19_idempotent — loading an already loaded configuration changes nothing -/

theorem C19_idempotent_defaults (cpu : Nat) (c : Cfg) :
    completeDefaults cpu (completeDefaults cpu c) = completeDefaults cpu c :=
  completeWith_idem _ cpu c sc_entries_nodup

theorem C19_idempotent_validate (c c' : Cfg) (h : validate c = .ok c') : validate c' = .ok c' :=
  validateWith_idem _ sc_checks_strict sc_checks_nodup c c' h

theorem C19_idempotent_parse (cpu : Nat) (c c' : Cfg) (h : parseConfig cpu c = .ok c') : parseConfig cpu c' = .ok c' := by
  have hval : validate c' = .ok c' := C19_idempotent_validate _ _ h
  have hfix : completeDefaults cpu c' = c' := by
    unfold completeDefaults completeWith
    apply foldl_complete_fix
    intro e he
    have hE := entryOf_of_mem (o := e.2.1) (ev := e.1) (d := e.2.2) he
    have hg := C19_parse_value cpu c c' h e.2.1
    have hfv : ∃ x, cfgGet c' e.2.1 = some x ∧ ((x = [] ∧ e.1 = false) → x = e.2.2.eval cpu) := by
      unfold finalValue completedValue at hg
      rw [hE] at hg
      have hfix := finalOf_fix cpu e.1 e.2.2 (cfgGet c e.2.1)
      by_cases hen : e.2.1 ∈ enumOptions
      · simp only [hen, if_true, Option.map_some] at hg
        refine ⟨_, hg, ?_⟩
        rintro ⟨h0, h1⟩
        have h0' := asciiUpper_eq_nil.mp h0
        have := hfix ⟨h0', h1⟩
        rw [← this, h0']; rfl
      · simp only [hen, if_false] at hg
        exact ⟨_, hg, hfix⟩
    obtain ⟨x, hx, hxx⟩ := hfv
    exact completeEntry_fix cpu c' e hx hxx
  unfold parseConfig parseConfigWith
  unfold completeDefaults at hfix
  rw [hfix]
  exact hval

/-! ### C19_file_vs_string — the three loaders apply the same `_parse_config` -/

/-- `load_config_from_argument(<path>)`, `load_config_from_argument(<text>)` and the command line treat the
    option set handed over by configparser identically: defaults, then validation (the reading itself —
    `read` vs `read_string` — is configparser's and is compared by the correspondence harness). -/
theorem C19_file_vs_string (cpu : Nat) (c : Cfg) :
    loadFromFile cpu c = loadFromString cpu c ∧ loadFromString cpu c = parseConfig cpu c ∧
    loadFromCli cpu c = parseConfig cpu c := by
  have hp : ∀ c, runSteps Gen.Config.completeSteps Gen.Config.enumChecks cpu [.completeDefaults, .validate] c
      = parseConfig cpu c := by
    intro c
    simp only [runSteps, runStep, parseConfig, parseConfigWith]
    cases validateWith Gen.Config.enumChecks (completeWith Gen.Config.completeSteps cpu c) <;> rfl
  unfold loadFromFile loadFromString loadFromCli
  rw [runSteps_filter _ _ _ Gen.Config.loaderFileSteps, runSteps_filter _ _ _ Gen.Config.loaderStringSteps,
    runSteps_filter _ _ _ Gen.Config.loaderCliSteps, sc_loader_steps.1, sc_loader_steps.2.1, sc_loader_steps.2.2, hp]
  exact ⟨rfl, rfl, rfl⟩

/-! ### behavioural options reach exactly the component they document -/

/-- `na_values`: a cell is NULL iff it EQUALS one of the comma-separated tokens (documented separator); being
    a substring of a token, or containing one, does not count -/
theorem C19_na (value cell : Str) :
    isNaCell Gen.Config.naShape value cell = true ↔ cell ∈ split value Spec.ConfigDoc.naSeparator := by
  unfold isNaCell naValuesWith
  rw [← sc_na_sep]
  cases Gen.Config.naShape.dedup
  · simp
  · simp [mem_dedup]

/-- `output_format`: an accepted configuration holds a documented format in its documented (upper-case)
    spelling — the spelling the materializer compares with `== NQUADS` — and the extension of the output file
    is the documented one of that format -/
theorem C19_format (cpu : Nat) (c c' : Cfg) (h : parseConfig cpu c = .ok c') :
    ∃ f ∈ Spec.ConfigDoc.documentedValues OUTPUT_FORMAT,
      cfgGet c' OUTPUT_FORMAT = some f ∧ outputExtension c' = Spec.ConfigDoc.extensionOf f ∧ (outputExtension c').isSome := by
  have hall := (C19_enum_all _).mp ⟨c', C19_idempotent_validate _ _ h⟩ OUTPUT_FORMAT (by decide +kernel)
  obtain ⟨v, hv, hvv⟩ := hall
  have hst := C19_enum_stored _ _ (C19_idempotent_validate _ _ h) OUTPUT_FORMAT
  have hin : OUTPUT_FORMAT ∈ enumOptions := by decide +kernel
  simp only [hin, if_true, hv, Option.map_some, Option.some.injEq] at hst
  rw [← hst] at hvv
  have hdoc := (sameSet_iff (C19_enum_documented OUTPUT_FORMAT (by decide +kernel)).1 v).mp hvv
  refine ⟨v, hdoc, hv, ?_⟩
  have hext : ∀ f ∈ validValues OUTPUT_FORMAT,
      (Gen.Config.OUTPUT_FORMAT_FILE_EXTENSION.find? (fun p => p.1 = f)).map (·.2) = Spec.ConfigDoc.extensionOf f ∧
      (Spec.ConfigDoc.extensionOf f).isSome = true := by decide +kernel
  unfold outputExtension
  rw [hv]
  simp only [Option.bind_some]
  rw [(hext v hvv).1]
  exact ⟨rfl, (hext v hvv).2⟩

/-- options whose written value is stored verbatim whatever it is: not validated as an enumeration, and an
    empty value is either kept or replaced by an empty default -/
def verbatim (o : Str) : Bool :=
  !(decide (o ∈ enumOptions)) && match entryOf o with
    | some (ev, d) => ev || d = .lit []
    | none => true

theorem C19_verbatim (cpu : Nat) (o : Str) (ho : verbatim o = true) (c c' : Cfg) (h : parseConfig cpu c = .ok c') (v : Str)
    (hv : cfgGet c o = some v) : cfgGet c' o = some v := by
  rw [C19_parse_value cpu c c' h, hv]
  simp only [verbatim, Bool.and_eq_true, Bool.not_eq_true', decide_eq_false_iff_not] at ho
  simp only [finalValue, ho.1, if_false, completedValue]
  cases hE : entryOf o with
  | none => rfl
  | some p =>
    obtain ⟨ev, d⟩ := p
    have h2 := ho.2
    simp only [hE, Bool.or_eq_true, decide_eq_true_eq] at h2
    simp only [finalOf, Option.some.injEq]
    by_cases hvv : v = [] ∧ ev = false
    · simp only [hvv, and_self, if_true]
      rcases h2 with h2 | h2
      · simp [hvv.2] at h2
      · subst h2; simp [DefaultVal.eval]
    · simp [hvv]

/-- `safe_percent_encoding` (the set of characters `quote(x, safe=…)` leaves alone) is stored verbatim: no
    case mapping, no defaulting -/
theorem C19_safe_verbatim (cpu : Nat) (c c' : Cfg) (h : parseConfig cpu c = .ok c') (v : Str)
    (hv : cfgGet c SAFE_PERCENT_ENCODING = some v) : cfgGet c' SAFE_PERCENT_ENCODING = some v :=
  C19_verbatim cpu _ (by decide +kernel) c c' h v hv

/-! ### C19_missing_mapping — a mapping path that does not exist raises -/

def Missing (fs : Str → PathKind) (p : Str) : Prop := fs p = .missing ∧ startsWith p "http".toList = false

theorem mappings_fold_error (fs : Str → PathKind) (ps : List Str) (e : CfgErr) :
    ps.foldl (mappingsStep fs) (.error e) = .error e := by
  induction ps with
  | nil => rfl
  | cons p ps ih => simpa [mappingsStep] using ih

/-- `get_mappings_files`: if some listed path is neither a file, nor a directory, nor starts with `http`, the
    call raises `FileNotFoundError` for a path with that property (the first one) -/
theorem C19_missing_mapping (fs : Str → PathKind) (value : Str) :
    (∃ p ∈ split value Gen.Config.mappingsSep, Missing fs p) ↔
    (∃ q ∈ split value Gen.Config.mappingsSep, Missing fs q ∧
        mappingsFiles fs Gen.Config.mappingsSep value = .error (.fileNotFound q)) := by
  constructor
  · rintro ⟨p, hp, hmiss⟩
    unfold mappingsFiles
    generalize split value Gen.Config.mappingsSep = ps at hp
    suffices H : ∀ (acc : List Str), ∃ q ∈ ps, Missing fs q ∧
        ps.foldl (mappingsStep fs) (.ok acc) = .error (.fileNotFound q) from H []
    induction ps with
    | nil => simp at hp
    | cons x xs ih =>
      intro acc
      simp only [List.foldl_cons]
      by_cases hx : Missing fs x
      · refine ⟨x, List.mem_cons_self .., hx, ?_⟩
        simp only [mappingsStep, hx.1, hx.2, Bool.false_eq_true, if_false]
        exact mappings_fold_error fs xs _
      · have hp' : p ∈ xs := by
          rcases List.mem_cons.mp hp with rfl | h
          · exact absurd hmiss hx
          · exact h
        have hstep : ∃ acc', mappingsStep fs (.ok acc) x = .ok acc' := by
          unfold mappingsStep
          cases hfs : fs x with
          | file => exact ⟨_, rfl⟩
          | dir es => exact ⟨_, rfl⟩
          | missing =>
            have : startsWith x "http".toList = true := by
              cases hh : startsWith x "http".toList
              · exact absurd ⟨hfs, hh⟩ hx
              · rfl
            simp only [this, if_true]
            exact ⟨_, rfl⟩
        obtain ⟨acc', hacc⟩ := hstep
        rw [hacc]
        obtain ⟨q, hq, hqm, hqe⟩ := ih hp' acc'
        exact ⟨q, List.mem_cons_of_mem _ hq, hqm, hqe⟩
  · rintro ⟨q, hq, hm, _⟩
    exact ⟨q, hq, hm⟩

/-! ### non-vacuity: concrete instances of the hypotheses and of both sides -/

/-- the all-defaults configuration satisfies the "other enumerated options are acceptable" hypothesis of `C19_enum` -/
example : ∀ o' ∈ Spec.ConfigDoc.enumOptions, o' ≠ OUTPUT_FORMAT →
    ∃ w, cfgGet (completeDefaults 4 []) o' = some w ∧ asciiUpper w ∈ validValues o' := by decide +kernel

example : (validate (cfgSet (completeDefaults 4 []) OUTPUT_FORMAT "n-QuAdS".toList)).toOption.bind (cfgGet · OUTPUT_FORMAT)
    = some "N-QUADS".toList := by decide +kernel
example : validate (cfgSet (completeDefaults 4 []) OUTPUT_FORMAT "ntriples".toList) = .error (.valueError OUTPUT_FORMAT) := by
  decide +kernel
example : validate (cfgSet (completeDefaults 4 []) LOGGING_LEVEL "infoo".toList) = .error (.valueError LOGGING_LEVEL) := by
  decide +kernel
example : (parseConfig 4 (cfgOfRaw [("Mapping_Partitioning".toList, "  maximal ".toList)])).toOption.bind (cfgGet · MAPPING_PARTITIONING)
    = some "MAXIMAL".toList := by decide +kernel
/-- defaults: absent and empty `number_of_processes` on a 4-CPU machine -/
example : cfgGet (completeDefaults 4 []) NUMBER_OF_PROCESSES = some "8".toList := by decide +kernel
example : cfgGet (completeDefaults 4 [(NUMBER_OF_PROCESSES, [])]) NUMBER_OF_PROCESSES = some "8".toList := by decide +kernel
example : (false, NUMBER_OF_PROCESSES, DefaultVal.twiceCpu) ∈ entries := by decide +kernel
example : (entryOf NA_VALUES).map (·.1) = some true := by decide +kernel
example : naValues ",nan".toList = [[], "nan".toList] := by decide +kernel
example : naValues [] = [[]] := by decide +kernel
example : parseBool "YeS".toList = some true ∧ parseBool "maybe".toList = none ∧ parseBool [] = none := by decide +kernel
example : parseInt " 1_0".toList = some 10 ∧ parseInt "abc".toList = none ∧ parseInt "-3".toList = some (-3)
    ∧ parseInt "1__0".toList = none ∧ parseInt [] = none := by decide +kernel
example : 'a' ∈ strip "1a".toList ∧ ('a'.isDigit = false ∧ 'a' ≠ '_' ∧ 'a' ≠ '+' ∧ 'a' ≠ '-') := by decide +kernel
example : withSuffix "out/kg.v1.ttl".toList ".nq".toList = "out/kg.v1.nq".toList ∧ withSuffix ".hidden".toList ".nt".toList = ".hidden.nt".toList := by
  decide +kernel
example : Missing (fun p => if p = "a.ttl".toList then .file else .missing) "b.ttl".toList ∧
    mappingsFiles (fun p => if p = "a.ttl".toList then .file else .missing) Gen.Config.mappingsSep "a.ttl,b.ttl".toList
      = .error (.fileNotFound "b.ttl".toList) := by
  constructor
  · constructor <;> decide +kernel
  · decide +kernel

end Props.C19
