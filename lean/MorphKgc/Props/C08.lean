/-
C08 — Statements land in exactly the graphs their graph maps name.

Stated on the generation rules (`Spec.evalDoc`) and transferred to the engine (`Model.evalAll ∘ Model.normalizeDoc`) by
the refinement theorem `C01_refinement_partial`, for both output formats.
-/
import MorphKgc.Props.C01

namespace Props.C08
open Py Model Spec Props.C01

/-! ### which graphs a statement is placed in -/

/-- The graph terms of a statement (`[]` renders the default graph): the default graph iff there is no graph map at all or
    one of them is `rr:defaultGraph`; one named graph per graph map whose value is non-null for the row; nothing for a
    graph map whose value is NULL. -/
theorem C08_graph_terms (senv : SEnv) (gs : List TermMap) (ρ : Row) (g : Str) :
    g ∈ graphTerms senv gs ρ ↔
      (gs = [] ∧ g = []) ∨
      (∃ gm ∈ gs, isDefaultGraph senv.defaultGraph gm = true ∧ g = []) ∨
      (∃ gm ∈ gs, isDefaultGraph senv.defaultGraph gm = false ∧ genTerm senv.safe senv.na gm ρ = some g) := by
  unfold graphTerms
  by_cases hgs : gs = []
  · subst hgs; simp
  · simp only [hgs, ↓reduceIte, List.mem_filterMap, false_and, false_or]
    constructor
    · rintro ⟨gm, hgm, h⟩
      by_cases hd : isDefaultGraph senv.defaultGraph gm = true
      · simp only [hd, ↓reduceIte, Option.some.injEq] at h
        exact .inl ⟨gm, hgm, hd, h.symm⟩
      · simp only [hd, Bool.false_eq_true, ↓reduceIte] at h
        exact .inr ⟨gm, hgm, by simpa using hd, h⟩
    · rintro (⟨gm, hgm, hd, rfl⟩ | ⟨gm, hgm, hd, h⟩)
      · exact ⟨gm, hgm, by simp [hd]⟩
      · exact ⟨gm, hgm, by simp [hd, h]⟩

/-- a NULL graph value places nothing; it does not fall back to the default graph -/
theorem C08_null_graph_places_nothing (senv : SEnv) (gm : TermMap) (ρ : Row)
    (hd : isDefaultGraph senv.defaultGraph gm = false) (hnull : genTerm senv.safe senv.na gm ρ = none) :
    graphTerms senv [gm] ρ = [] := by
  simp [graphTerms, hd, hnull]

/-- the default graph is used iff no graph map applies or `rr:defaultGraph` is among them -/
theorem C08_default_graph_iff (senv : SEnv) (gs : List TermMap) (ρ : Row)
    (hne : ∀ gm ∈ gs, ∀ v, genTerm senv.safe senv.na gm ρ = some v → v ≠ []) :
    [] ∈ graphTerms senv gs ρ ↔ gs = [] ∨ ∃ gm ∈ gs, isDefaultGraph senv.defaultGraph gm = true := by
  rw [C08_graph_terms]
  constructor
  · rintro (⟨h, _⟩ | ⟨gm, hgm, hd, _⟩ | ⟨gm, hgm, _, h⟩)
    · exact .inl h
    · exact .inr ⟨gm, hgm, hd⟩
    · exact absurd rfl (hne gm hgm [] h)
  · rintro (h | ⟨gm, hgm, hd⟩)
    · exact .inl ⟨h, rfl⟩
    · exact .inr (.inl ⟨gm, hgm, hd, rfl⟩)

/-! ### subject graph maps and predicate-object graph maps: union, order-independent, no default graph unless named -/

/-- a predicate-object combination of a triples map whose subject map AND predicate-object map both carry graph maps is placed
    in the graphs of the subject map followed by those of the predicate-object map — one placement per graph map -/
theorem C08_graph_terms_append (senv : SEnv) (gs₁ gs₂ : List TermMap) (ρ : Row) (h₁ : gs₁ ≠ []) (h₂ : gs₂ ≠ []) :
    graphTerms senv (gs₁ ++ gs₂) ρ = graphTerms senv gs₁ ρ ++ graphTerms senv gs₂ ρ := by
  unfold graphTerms
  simp [h₁, h₂, List.filterMap_append]

/-- with graph maps on only one of the two, the other contributes nothing: in particular NO default-graph placement is
    added for the side that has no graph map -/
theorem C08_graph_terms_one_side (senv : SEnv) (gs : List TermMap) (ρ : Row) :
    graphTerms senv ([] ++ gs) ρ = graphTerms senv gs ρ ∧ graphTerms senv (gs ++ []) ρ = graphTerms senv gs ρ := by
  simp

/-- the SET of graphs does not depend on whether a graph map is written on the subject map or on the predicate-object map,
    nor on the order of the graph maps -/
theorem C08_graph_terms_comm (senv : SEnv) (gs₁ gs₂ : List TermMap) (ρ : Row) (g : Str) :
    g ∈ graphTerms senv (gs₁ ++ gs₂) ρ ↔ g ∈ graphTerms senv (gs₂ ++ gs₁) ρ := by
  rw [C08_graph_terms, C08_graph_terms]
  simp only [List.append_eq_nil_iff, List.mem_append]
  constructor <;>
  · rintro (⟨⟨ha, hb⟩, hg⟩ | ⟨gm, hgm, h⟩ | ⟨gm, hgm, h⟩)
    · exact .inl ⟨⟨hb, ha⟩, hg⟩
    · exact .inr (.inl ⟨gm, hgm.symm, h⟩)
    · exact .inr (.inr ⟨gm, hgm.symm, h⟩)

/-- more generally: graph-map lists with the same members give the same set of graphs (duplicates and order are irrelevant) -/
theorem C08_graph_terms_congr (senv : SEnv) (gs gs' : List TermMap) (ρ : Row) (h : ∀ gm, gm ∈ gs ↔ gm ∈ gs') (g : Str) :
    g ∈ graphTerms senv gs ρ ↔ g ∈ graphTerms senv gs' ρ := by
  rw [C08_graph_terms, C08_graph_terms]
  have hnil : gs = [] ↔ gs' = [] := by
    constructor
    · intro e; subst e
      cases gs' with
      | nil => rfl
      | cons a t => exact absurd ((h a).mpr (by simp)) (by simp)
    · intro e; subst e
      cases gs with
      | nil => rfl
      | cons a t => exact absurd ((h a).mp (by simp)) (by simp)
  simp only [hnil, h]

/-- the number of placements of one statement is bounded by the number of graph maps (one when there is none): no graph map
    ever places a statement twice -/
theorem C08_graph_terms_length (senv : SEnv) (gs : List TermMap) (ρ : Row) :
    (graphTerms senv gs ρ).length ≤ max 1 gs.length := by
  unfold graphTerms
  split
  · exact Nat.le_max_left _ _
  · exact Nat.le_trans (List.length_filterMap_le _ _) (Nat.le_max_right _ _)

/-! ### N-TRIPLES is the graph-less projection of N-QUADS -/

/-- the statements of one predicate-object combination as (triple text, graph term) pairs -/
def pairsFor (env : SEnv) (doc : Doc) (tm : TriplesMap) (ρ : Row) (gs : List TermMap) (p : TermMap) (o : ObjMap) : List (Str × Str) :=
  match genTerm env.safe env.na tm.subject ρ, genTerm env.safe env.na p ρ with
  | some s, some pt =>
    let objs : List Str := match o with
      | .term otm => (genTerm env.safe env.na otm ρ).toList
      | .ref parentId conds =>
        match doc.tms.find? (fun t => t.id = parentId) with
        | none => []
        | some ptm => (joinRows env.na conds ρ (env.table ptm)).filterMap fun pr => genTerm env.safe env.na ptm.subject pr
    objs.flatMap fun ot => (graphTerms env gs ρ).map fun g => (s ++ [' '] ++ pt ++ [' '] ++ ot, g)
  | _, _ => []

/-- the quads of a document: (triple text, graph term) -/
def quadsOf (env : SEnv) (doc : Doc) : List (Str × Str) :=
  doc.tms.flatMap fun tm =>
    (env.table tm).flatMap fun ρ =>
      (tm.classes.flatMap fun c => pairsFor env doc tm ρ tm.graphs (classPred env) (classObj c)) ++
      (tm.poms.flatMap fun pom =>
        pom.predicates.flatMap fun p => pom.objects.flatMap fun o =>
          pairsFor env doc tm ρ (tm.graphs ++ pom.graphs) p o)

def renderPair (fmt : OutFmt) (q : Str × Str) : Str :=
  match fmt with
  | .ntriples => q.1
  | .nquads => q.1 ++ [' '] ++ q.2

theorem stmtsFor_eq_pairs (env : SEnv) (doc : Doc) (tm : TriplesMap) (ρ : Row) (gs : List TermMap) (p : TermMap) (o : ObjMap) :
    stmtsFor env doc tm ρ gs p o = (pairsFor env doc tm ρ gs p o).map (renderPair env.fmt) := by
  unfold stmtsFor pairsFor
  cases hs : genTerm env.safe env.na tm.subject ρ with
  | none => simp
  | some s =>
    cases hp : genTerm env.safe env.na p ρ with
    | none => simp
    | some pt =>
      simp only [List.map_flatMap, List.map_map]
      congr 1

theorem table_fmt (env : SEnv) (f : OutFmt) (tm : TriplesMap) : ({ env with fmt := f } : SEnv).table tm = env.table tm := rfl

theorem pairsFor_fmt (env : SEnv) (f : OutFmt) (doc : Doc) (tm : TriplesMap) (ρ : Row) (gs : List TermMap) (p : TermMap) (o : ObjMap) :
    pairsFor { env with fmt := f } doc tm ρ gs p o = pairsFor env doc tm ρ gs p o := rfl

/-- **Projection, on the generation rules.** There is one list of quads such that the N-QUADS result renders every quad
    with its graph and the N-TRIPLES result renders the same quads without it. -/
theorem C08_projection_spec (env : SEnv) (doc : Doc) (f : OutFmt) :
    evalDoc { env with fmt := f } doc = (quadsOf env doc).map (renderPair f) := by
  unfold evalDoc quadsOf
  simp only [List.map_flatMap, List.map_append, stmtsFor_eq_pairs, table_fmt, pairsFor_fmt]
  rfl

/-- **Projection, on the engine** (documents and tables of the C01 fragment): the members of the N-TRIPLES result are exactly
    the triple parts of the quads whose rendering with graph makes up the N-QUADS result. -/
theorem C08_projection (envT envQ : Env) (senv : SEnv) (hn : NamesOK senv) (doc : Doc)
    (hT : EnvOK envT { senv with fmt := .ntriples }) (hQ : EnvOK envQ { senv with fmt := .nquads })
    (hfragT : FragmentOK { senv with fmt := .ntriples } doc = true) (hfragQ : FragmentOK { senv with fmt := .nquads } doc = true)
    (htabT : TablesOK { senv with fmt := .ntriples } doc = true) (htabQ : TablesOK { senv with fmt := .nquads } doc = true)
    (hF4T : NoF4 { senv with fmt := .ntriples } doc = true) (hF4Q : NoF4 { senv with fmt := .nquads } doc = true) :
    ∃ outT outQ, evalAll envT (normalizeDoc doc) = .ok outT ∧ evalAll envQ (normalizeDoc doc) = .ok outQ ∧
      (∀ line, line ∈ outT ↔ ∃ q ∈ quadsOf senv doc, line = q.1) ∧
      (∀ line, line ∈ outQ ↔ ∃ q ∈ quadsOf senv doc, line = q.1 ++ [' '] ++ q.2) := by
  obtain ⟨outT, hoT, hmT⟩ := C01_refinement_partial hT ⟨hn.dg, hn.ty⟩ doc hfragT htabT hF4T
  obtain ⟨outQ, hoQ, hmQ⟩ := C01_refinement_partial hQ ⟨hn.dg, hn.ty⟩ doc hfragQ htabQ hF4Q
  refine ⟨outT, outQ, hoT, hoQ, ?_, ?_⟩
  · intro line
    rw [hmT, C08_projection_spec senv doc .ntriples]
    simp [renderPair, eq_comm]
  · intro line
    rw [hmQ, C08_projection_spec senv doc .nquads]
    simp [renderPair, eq_comm]

/-- class declarations get the subject map's graphs (class → predicate-object map happens before graph propagation) -/
theorem C08_class_gets_subject_graphs (env : SEnv) (doc : Doc) (tm : TriplesMap) (htm : tm ∈ doc.tms) (ρ : Row) (hρ : ρ ∈ env.table tm)
    (c : Str) (hc : c ∈ tm.classes) (q : Str × Str) (hq : q ∈ pairsFor env doc tm ρ tm.graphs (classPred env) (classObj c)) :
    q ∈ quadsOf env doc ∧ q.2 ∈ graphTerms env tm.graphs ρ := by
  constructor
  · unfold quadsOf
    simp only [List.mem_flatMap, List.mem_append]
    exact ⟨tm, htm, ρ, hρ, .inl ⟨c, hc, hq⟩⟩
  · unfold pairsFor at hq
    split at hq
    · simp only [List.mem_flatMap, List.mem_map] at hq
      obtain ⟨_, _, g, hg, rfl⟩ := hq
      exact hg
    · simp at hq

end Props.C08
