/-
C17 — Output files hold exactly the current run's statements.

`Model.cliRun` (Model/FS.lean) is the command-line run as /repo defines it now: the output paths are the translated
`Gen.getOutputFilePath`, the removal scope / makedirs / open mode / line suffix / call order are the generated shape
constants of `Gen/Output.lean`.  Every theorem below is therefore re-checked against the present source by `lake build`.

Reading fixed in DESIGN.md: *targeted files = the files the run writes* (`Model.targets`).  The stronger reading for
output_dir mode ("the union of all group files in the directory is the result") is stated separately:
`C17_dir_union_partial` (with the hypothesis the proof needs), and its failure on the unchanged code
`C17_F1_stale_group_file` / `C17_F1_union_fails`.
-/
import MorphKgc.Lemmas.FS

namespace Props.C17
open Py Model

/-! ### what the proofs need from the generated shape (decided on the generated data) -/

/-- `__main__` prepares before writing, `triples_to_file` appends, the single output file is removed, and in
    output_dir mode the file of every group that is written is removed. -/
theorem C17_generated_shape :
    Gen.prepareBeforeWrite = true ∧ Gen.openMode = .append ∧ Gen.prepareShape.fileRemove = true ∧
    Gen.prepareShape.dirRemove ≠ .none ∧ Gen.prepareShape.fileCreateDirs = true ∧ Gen.prepareShape.dirMakedirs = true ∧
    Gen.outputTranslated = true := by decide

/-! ### the translated `get_output_file_path` -/

theorem bind_ok_iff {ε α β} (x : Except ε α) (f : α → Except ε β) (b : β) :
    (x >>= f) = .ok b ↔ ∃ a, x = .ok a ∧ f a = .ok b := by
  cases x with
  | error e => simp [bind, Except.bind]
  | ok a => simp [bind, Except.bind]

/-- without `output_dir` the path does not depend on the mapping group -/
theorem path_file_mode (r : RunCfg) (h : r.dirMode = false) (g : Option Str) : r.path g = r.path none := by
  simp only [RunCfg.dirMode] at h
  simp only [RunCfg.path, Gen.getOutputFilePath, h]
  rfl

/-- with `output_dir` it is `Path(output_dir, group).with_suffix(ext).as_posix()` -/
theorem path_dir_mode (r : RunCfg) (h : r.dirMode = true) (g : Str) :
    r.path (some g) = (dictGet Gen.outputFormatFileExtension r.format >>= fun e =>
      withSuffix (pathOfSegments [r.dir, g]) e >>= fun q => pure (pathStr q)) := by
  simp only [RunCfg.dirMode] at h
  simp only [RunCfg.path, Gen.getOutputFilePath, h]
  simp [mkPath]
  rfl

/-- every output path is `something.with_suffix(extension of the format)` -/
theorem path_shape (r : RunCfg) (g : Option Str) (p : Path) (h : r.path g = .ok p) :
    ∃ e, dictGet Gen.outputFormatFileExtension r.format = .ok e ∧ ∃ pp q, withSuffix pp e = .ok q ∧ p = pathStr q := by
  simp only [RunCfg.path, Gen.getOutputFilePath] at h
  obtain ⟨e, he, h⟩ := (bind_ok_iff _ _ _).mp h
  refine ⟨e, he, ?_⟩
  have key : ∀ (x : Except PyErr PurePath),
      (x >>= fun l => withSuffix l e >>= fun q => pure (pathStr q)) = .ok p → ∃ pp q, withSuffix pp e = .ok q ∧ p = pathStr q := by
    intro x hx
    obtain ⟨pp, _, hx⟩ := (bind_ok_iff _ _ _).mp hx
    obtain ⟨q, hq, hx⟩ := (bind_ok_iff _ _ _).mp hx
    refine ⟨pp, q, hq, ?_⟩
    simpa [pure, Except.pure] using hx.symm
  repeat' split at h
  all_goals exact key _ h

theorem pathStr_withSuffix {pp q : PurePath} {e : Str} (h : withSuffix pp e = .ok q) : ∃ s, pathStr q = s ++ e := by
  unfold withSuffix at h
  split at h
  · simp at h
  · split at h
    · simp at h
    · split at h
      · simp at h
      · rename_i name hn
        simp at h
        subst h
        simp only [pathStr]
        split
        · rename_i hnil
          simp only [joinSlash_snoc, List.append_eq_nil_iff] at hnil
          refine ⟨['.'], ?_⟩
          simp [hnil.2.2.2]
        · exact ⟨pp.root ++ (if pp.parts.dropLast = [] then [] else joinSlash pp.parts.dropLast ++ ['/']) ++ (splitSuffix name).1, by
            simp [joinSlash_snoc]⟩

/-- **C17 (extension).** Every path the engine writes to ends with the extension that the generated table
    `OUTPUT_FORMAT_FILE_EXTENSION` gives for the output format. -/
theorem C17_extension (r : RunCfg) (g : Option Str) (p : Path) (h : r.path g = .ok p) :
    ∃ e, dictGet Gen.outputFormatFileExtension r.format = .ok e ∧ ∃ stem, p = stem ++ e := by
  obtain ⟨e, he, pp, q, hq, hp⟩ := path_shape r g p h
  obtain ⟨s, hs⟩ := pathStr_withSuffix hq
  exact ⟨e, he, s, hp ▸ hs⟩

/-! ### one run: prepare clears every targeted path, then the groups are appended -/

theorem prepare_clears (sh : Gen.PrepareShape) (strips : Bool) (fs : FS) (r : RunCfg)
    (hfile : sh.fileRemove = true) (hdir : sh.dirRemove ≠ .none)
    (h : (prepare sh strips fs r).err = none) (p : Path) (hp : p ∈ targets r) :
    (prepare sh strips fs r).fs.files p = none := by
  obtain ⟨g, hg, hgp⟩ := mem_targets.mp hp
  unfold prepare at h ⊢
  cases hm : r.dirMode with
  | false =>
    rw [path_file_mode r hm (some g.1)] at hgp
    simp only [hm, hgp, hfile] at h ⊢
    simp [FS.remove]
  | true =>
    simp only [hm, if_true] at h ⊢
    rw [removeEach_files _ _ _ h]
    have hmem : g.1 ∈ removalScope sh.dirRemove r := by
      cases hs : sh.dirRemove with
      | allRuleGroups => simp only [removalScope, List.mem_append, List.mem_map]; exact Or.inl ⟨g, hg, rfl⟩
      | assertedGroups => simp only [removalScope, List.mem_map]; exact ⟨g, hg, rfl⟩
      | none => exact absurd hs hdir
    have : (removalScope sh.dirRemove r).any (fun g' => r.goesTo g' p) = true := by
      simp only [List.any_eq_true]
      exact ⟨g.1, hmem, by simp [RunCfg.goesTo, hgp]⟩
    simp [this]

theorem run_generic (sh : Gen.PrepareShape) (strips : Bool) (fs : FS) (r : RunCfg)
    (hfile : sh.fileRemove = true) (hdir : sh.dirRemove ≠ .none)
    (h : (cliRunWith sh strips .append true fs r).err = none) (p : Path) (hp : p ∈ targets r) :
    (cliRunWith sh strips .append true fs r).fs.files p = some (stmtsFor r p) := by
  unfold cliRunWith at h ⊢
  simp only [if_true] at h ⊢
  cases he : (prepare sh strips fs r).err with
  | some e => simp [he] at h
  | none =>
    simp only [he] at h ⊢
    rw [writeGroups_append_files r r.groups _ h p (any_goesTo_of_mem_targets hp),
      prepare_clears sh strips fs r hfile hdir he p hp]
    simp [stmtsFor]

theorem cliRun_eq (fs : FS) (r : RunCfg) :
    cliRun fs r = cliRunWith Gen.prepareShape Gen.createDirsStrips .append true fs r := by
  have h := C17_generated_shape
  unfold cliRun
  rw [h.1, h.2.1]

/-- **C17 (one run, any earlier state).** Whatever the file system looked like before (left-overs of earlier runs,
    files appended to, junk), after a run that completes every file the run writes holds exactly the lines of that
    run that belong into it — in the model even in the order written. -/
theorem C17_run (fs : FS) (r : RunCfg) (h : (cliRun fs r).err = none) (p : Path) (hp : p ∈ targets r) :
    (cliRun fs r).fs.files p = some (stmtsFor r p) := by
  rw [cliRun_eq] at h ⊢
  exact run_generic _ _ fs r C17_generated_shape.2.2.1 C17_generated_shape.2.2.2.1 h p hp

theorem history_snoc (fs₀ : FS) (l : List RunCfg) (r : RunCfg) :
    history fs₀ (l ++ [r]) = (cliRun (history fs₀ l) r).fs := by
  simp [history, List.foldl_append]

/-- **C17 (histories).** For every initial file system and every sequence of runs (same or different mappings,
    formats, partitioning modes, output options), after the k-th run every file targeted by run k holds exactly (as a
    multiset) the statements of run k for that file: nothing left over, nothing appended from earlier runs. -/
theorem C17_history (fs₀ : FS) (runs : List RunCfg) (k : Nat) (hk : k < runs.length)
    (hok : (cliRun (history fs₀ (runs.take k)) runs[k]).err = none) :
    ∀ p ∈ targets runs[k], ∃ ls, (history fs₀ (runs.take (k + 1))).files p = some ls ∧ ls.Perm (stmtsFor runs[k] p) := by
  intro p hp
  rw [List.take_succ_eq_append_getElem hk, history_snoc]
  exact ⟨_, C17_run _ _ hok p hp, List.Perm.refl _⟩

/-- the content of the targeted files after a run does not depend on the history at all -/
theorem C17_history_independent (fs fs' : FS) (r : RunCfg) (h : (cliRun fs r).err = none) (h' : (cliRun fs' r).err = none) :
    ∀ p ∈ targets r, (cliRun fs r).fs.files p = (cliRun fs' r).fs.files p := by
  intro p hp
  rw [C17_run fs r h p hp, C17_run fs' r h' p hp]

/-- **frame.** A run — even one that crashes half-way — never changes a file that is not one of its output paths. -/
theorem C17_frame (fs : FS) (r : RunCfg) (q : Path) (hq : ∀ g : Option Str, r.path g ≠ .ok q) :
    (cliRun fs r).fs.files q = fs.files q := by
  have hcd : ∀ strips p, (createDirsInPath strips fs p).files = fs.files := by
    intro strips p
    simp only [createDirsInPath]
    split <;> split <;> rfl
  have hprep : ∀ sh strips, (prepare sh strips fs r).fs.files q = fs.files q := by
    intro sh strips
    unfold prepare
    split
    · rw [removeEach_frame r _ _ q hq]
      split <;> rfl
    · split
      · rfl
      · rename_i p hp
        have hne : q ≠ p := fun e => hq none (e ▸ hp)
        split <;> split <;> simp [FS.remove, hne, hcd]
  rw [cliRun_eq]
  unfold cliRunWith
  simp only [if_true]
  cases he : (prepare Gen.prepareShape Gen.createDirsStrips fs r).err with
  | some e => exact hprep _ _
  | none =>
    show (writeGroups _ r _ r.groups).fs.files q = fs.files q
    rw [writeGroups_frame _ _ _ _ q hq]
    exact hprep _ _

/-- a run whose single output path is rejected (`ValueError` of `with_suffix`, unknown format) touches no file -/
theorem C17_rejected_file_mode_untouched (fs : FS) (r : RunCfg) (hm : r.dirMode = false) (e : PyErr)
    (he : r.path none = .error e) : (cliRun fs r).err = some (.py e) ∧ (cliRun fs r).fs.files = fs.files := by
  have h := C17_generated_shape
  simp [cliRun, cliRunWith, h.1, prepare, hm, he]

/-! ### one file per mapping group -/

theorem pathOfSegments_simple (d g : Str) (hg : SimpleName g) :
    pathOfSegments [d, g] = { root := (pathOfSegments [d]).root, parts := (pathOfSegments [d]).parts ++ [g] } := by
  have hh : g.head? ≠ some '/' := by
    obtain ⟨_, hs, _⟩ := hg
    cases g with
    | nil => simp
    | cons c g =>
      simp only [List.head?_cons, ne_eq, Option.some.injEq]
      exact fun e => hs (e ▸ List.mem_cons_self ..)
  simp [pathOfSegments, hh, parsePath_simple hg]

/-- in output_dir mode a simple label `g` goes to `<dir>/<g><ext>` -/
theorem path_dir_simple (r : RunCfg) (hm : r.dirMode = true) (g : Str) (hg : SimpleName g) (p : Path)
    (h : r.path (some g) = .ok p) :
    ∃ e, dictGet Gen.outputFormatFileExtension r.format = .ok e ∧ '/' ∉ e ∧
      p = pathStr { root := (pathOfSegments [r.dir]).root, parts := (pathOfSegments [r.dir]).parts ++ [g ++ e] } := by
  rw [path_dir_mode r hm g] at h
  obtain ⟨e, he, h⟩ := (bind_ok_iff _ _ _).mp h
  obtain ⟨q, hq, h⟩ := (bind_ok_iff _ _ _).mp h
  refine ⟨e, he, ?_⟩
  have hp : p = pathStr q := by simpa [pure, Except.pure] using h.symm
  rw [pathOfSegments_simple _ _ hg] at hq
  unfold withSuffix at hq
  split at hq
  · simp at hq
  · rename_i hslash
    refine ⟨by simpa using hslash, ?_⟩
    split at hq
    · simp at hq
    · simp only [List.getLast?_append, List.getLast?_singleton, Option.some_or] at hq
      simp only [Except.ok.injEq] at hq
      subst hq
      rw [hp]
      simp [splitSuffix_no_dot hg.2.2]

theorem pathStr_snoc_inj (root : Str) (ps : List Str) (x y : Str) (hx : x ≠ []) (hy : y ≠ [])
    (h : pathStr { root := root, parts := ps ++ [x] } = pathStr { root := root, parts := ps ++ [y] }) : x = y := by
  simp only [pathStr, joinSlash_snoc] at h
  have nx : ¬ (root ++ ((if ps = [] then [] else joinSlash ps ++ ['/']) ++ x) = []) := by simp [hx]
  have ny : ¬ (root ++ ((if ps = [] then [] else joinSlash ps ++ ['/']) ++ y) = []) := by simp [hy]
  rw [if_neg nx, if_neg ny] at h
  exact List.append_cancel_left (List.append_cancel_left h)

/-- **C17 (one file per mapping group).** In output_dir mode two different simple labels (non-empty, no `/`, no `.`;
    the engine's labels are digits and dashes) are written to two different files. -/
theorem C17_one_file_per_group (r : RunCfg) (hm : r.dirMode = true) (g₁ g₂ : Str) (h₁ : SimpleName g₁) (h₂ : SimpleName g₂)
    (p₁ p₂ : Path) (hp₁ : r.path (some g₁) = .ok p₁) (hp₂ : r.path (some g₂) = .ok p₂) (hne : g₁ ≠ g₂) : p₁ ≠ p₂ := by
  obtain ⟨e, he, _, e₁⟩ := path_dir_simple r hm g₁ h₁ p₁ hp₁
  obtain ⟨e', he', _, e₂⟩ := path_dir_simple r hm g₂ h₂ p₂ hp₂
  have : e' = e := by rw [he] at he'; exact (Except.ok.inj he').symm
  subst this
  intro hpp
  rw [e₁, e₂] at hpp
  have := pathStr_snoc_inj _ _ _ _ (by simp [h₁.1]) (by simp [h₂.1]) hpp
  exact hne (List.append_cancel_right this)

def runDots : RunCfg := { format := "N-TRIPLES".toList, outputDir := some "out".toList, outputFile := none, groups := [] }

/-- the hypothesis "no dot" is needed: labels that differ only after a dot would share one file -/
theorem C17_group_names_with_dots_collide :
    runDots.path (some "a.x".toList) = .ok "out/a.nt".toList ∧ runDots.path (some "a.y".toList) = .ok "out/a.nt".toList := by
  decide +kernel

theorem filter_unique {α} (l : List α) (f : α → Str) (pr : α → Bool) (g : α) (hg : g ∈ l)
    (hnd : (l.map f).Nodup) (hpr : ∀ x ∈ l, pr x = true ↔ f x = f g) : l.filter pr = [g] := by
  induction l with
  | nil => simp at hg
  | cons a l ih =>
    simp only [List.map_cons, List.nodup_cons] at hnd
    rcases List.mem_cons.mp hg with rfl | hgl
    · have ha : pr g = true := (hpr g (List.mem_cons_self ..)).mpr rfl
      have hrest : l.filter pr = [] := by
        simp only [List.filter_eq_nil_iff]
        intro x hx hpx
        have := (hpr x (List.mem_cons_of_mem _ hx)).mp hpx
        exact hnd.1 (this ▸ List.mem_map_of_mem hx)
      simp [ha, hrest]
    · have ha : ¬ pr a = true := by
        intro hpa
        have := (hpr a (List.mem_cons_self ..)).mp hpa
        exact hnd.1 (this ▸ List.mem_map_of_mem hgl)
      simp only [List.filter_cons, ha]
      exact ih hgl hnd.2 (fun x hx => hpr x (List.mem_cons_of_mem _ hx))

/-- **C17 (each group in its own file).** In output_dir mode, when the labels are simple and pairwise different (they
    are the keys of a `groupby`), after a run that completes the file of every group holds exactly that group's lines. -/
theorem C17_group_file_contents (fs : FS) (r : RunCfg) (hm : r.dirMode = true)
    (hsimple : ∀ g ∈ r.groups, SimpleName g.1) (hnd : (r.groups.map (·.1)).Nodup)
    (h : (cliRun fs r).err = none) (g : Str × List Str) (hg : g ∈ r.groups) :
    ∃ p, r.path (some g.1) = .ok p ∧ (cliRun fs r).fs.files p = some (g.2.map lineOf) := by
  -- the path of `g` exists because the run completed
  have hpath : ∃ p, r.path (some g.1) = .ok p := by
    cases hp : r.path (some g.1) with
    | ok p => exact ⟨p, rfl⟩
    | error e =>
      exfalso
      rw [cliRun_eq] at h
      unfold cliRunWith at h
      simp only [if_true] at h
      cases he : (prepare Gen.prepareShape Gen.createDirsStrips fs r).err with
      | some e' => simp [he] at h
      | none =>
        simp only [he] at h
        -- the write loop reaches g and fails
        have : ∀ (gs : List (Str × List Str)) (fs' : FS), g ∈ gs → (writeGroups .append r fs' gs).err ≠ none := by
          intro gs
          induction gs with
          | nil => intro _ hmem; simp at hmem
          | cons a gs ih =>
            intro fs' hmem
            simp only [writeGroups]
            rcases List.mem_cons.mp hmem with rfl | hmem'
            · simp [hp]
            · split
              · simp
              · split
                · simp
                · exact ih _ hmem'
        exact this _ _ hg h
  obtain ⟨p, hp⟩ := hpath
  refine ⟨p, hp, ?_⟩
  rw [C17_run fs r h p (mem_targets.mpr ⟨g, hg, hp⟩)]
  have : r.groups.filter (fun g' => r.goesTo g'.1 p) = [g] := by
    apply filter_unique r.groups (·.1) _ g hg hnd
    intro x hx
    constructor
    · intro hgo
      by_cases hne : x.1 = g.1
      · exact hne
      exfalso
      simp only [RunCfg.goesTo] at hgo
      split at hgo
      · rename_i q hq
        have hqp : q = p := by simpa using hgo
        subst hqp
        exact C17_one_file_per_group r hm x.1 g.1 (hsimple x hx) (hsimple g hg) q q hq hp hne rfl
      · simp at hgo
    · intro e
      simp [RunCfg.goesTo, e, hp]
  simp [stmtsFor, stmtsOf, this]

/-! ### directories -/

theorem mem_ancestorsOrSelf_self (pp : PurePath) (h : pp.parts ≠ []) : pathStr pp ∈ ancestorsOrSelf pp := by
  simp only [ancestorsOrSelf, List.mem_map, List.mem_range]
  refine ⟨pp.parts.length - 1, ?_, ?_⟩
  · have : 0 < pp.parts.length := List.length_pos_iff.mpr h
    omega
  · have : 0 < pp.parts.length := List.length_pos_iff.mpr h
    have e : pp.parts.length - 1 + 1 = pp.parts.length := by omega
    rw [e, List.take_length]

theorem dirExists_makedirs (fs : FS) (raw : Str) : (fs.makedirs raw).dirExists (parsePath raw) = true := by
  simp only [FS.dirExists, FS.makedirs]
  cases hp : (parsePath raw).parts with
  | nil => simp
  | cons a l =>
    have := mem_ancestorsOrSelf_self (parsePath raw) (by simp [hp])
    simp [this]

/-- **C17 (directories, output_file mode).** If the output path has no leading or trailing white space (see
    `C17_F3_leading_space_directory` for what happens otherwise), the run cannot fail because of a missing directory:
    it completes and the directory of the output file exists afterwards, whatever existed before. -/
theorem C17_dirs_created_file_mode (fs : FS) (r : RunCfg) (hm : r.dirMode = false) (p : Path)
    (hp : r.path none = .ok p) (hstrip : pyStrip p = p) :
    (cliRun fs r).err = none ∧ (cliRun fs r).fs.dirExists (parsePath (dirname p)) = true := by
  have hsh := C17_generated_shape
  -- state after prepare
  have hprep : prepare Gen.prepareShape Gen.createDirsStrips fs r =
      ⟨(createDirsInPath Gen.createDirsStrips fs p).remove p, none⟩ := by
    simp [prepare, hm, hp, hsh.2.2.1, hsh.2.2.2.2.1]
  have hdir : ((createDirsInPath Gen.createDirsStrips fs p).remove p).dirExists (parsePath (dirname p)) = true := by
    have : (createDirsInPath Gen.createDirsStrips fs p).dirExists (parsePath (dirname p)) = true := by
      simp only [createDirsInPath, hstrip, ite_self]
      split
      · rename_i hd
        have : dirname p = [] := by simpa using hd
        simp [this, FS.dirExists, parsePath, splitRoot, splitSlash]
      · exact dirExists_makedirs _ _
    simpa [FS.dirExists, FS.remove] using this
  have hw : (writeGroups .append r ((createDirsInPath Gen.createDirsStrips fs p).remove p) r.groups).err = none := by
    apply writeGroups_ok
    intro g _
    exact ⟨p, by rw [path_file_mode r hm]; exact hp, hdir⟩
  rw [cliRun_eq]
  unfold cliRunWith
  simp only [if_true, hprep]
  refine ⟨hw, ?_⟩
  simp only [FS.dirExists, writeGroups_dirs] at hdir ⊢
  exact hdir

/-- **C17 (directories, output_dir mode).** After a run in output_dir mode the output directory exists, whatever
    existed before and whether or not the run completed. -/
theorem C17_dirs_created_dir_mode (fs : FS) (r : RunCfg) (hm : r.dirMode = true) :
    (cliRun fs r).fs.dirExists (parsePath r.dir) = true := by
  have hsh := C17_generated_shape
  have hprep : (prepare Gen.prepareShape Gen.createDirsStrips fs r).fs.dirExists (parsePath r.dir) = true := by
    simp only [prepare, hm, if_true, hsh.2.2.2.2.2.1, FS.dirExists, removeEach_dirs]
    exact dirExists_makedirs fs r.dir
  rw [cliRun_eq]
  unfold cliRunWith
  simp only [if_true]
  split
  · exact hprep
  · simpa [FS.dirExists, writeGroups_dirs] using hprep

theorem pathOfSegments_one (d : Str) : pathOfSegments [d] = parsePath d := by
  simp only [pathOfSegments, List.foldl_cons, List.foldl_nil]
  split
  · rfl
  · rename_i hh
    have : (parsePath d).root = [] := by simp [parsePath, splitRoot_of_not_slash d hh]
    cases hp : parsePath d with
    | mk root parts => simp [hp] at this ⊢; exact this

/-- in output_dir mode the directory of a group file is the output directory -/
theorem parent_of_group_path (r : RunCfg) (hm : r.dirMode = true) (g : Str) (hg : SimpleName g) (p : Path)
    (hp : r.path (some g) = .ok p) : parsePath (dirname p) = parsePath r.dir := by
  obtain ⟨e, _, hse, rfl⟩ := path_dir_simple r hm g hg p hp
  rw [pathOfSegments_one]
  obtain ⟨hr, hw⟩ := parsePath_wf r.dir
  have hx : '/' ∉ g ++ e := by
    intro hmem
    rcases List.mem_append.mp hmem with h | h
    · exact hg.2.1 h
    · exact hse h
  have hne : g ++ e ≠ [] := by simp [hg.1]
  have hstr : pathStr { root := (parsePath r.dir).root, parts := (parsePath r.dir).parts ++ [g ++ e] } =
      (parsePath r.dir).root ++ joinSlash ((parsePath r.dir).parts ++ [g ++ e]) := by
    simp [pathStr, joinSlash_snoc, hne]
  rw [hstr, dirname_root_join_snoc _ _ _ hr hw hx, parsePath_root_join _ _ hr hw]

/-- **C17 (directories, output_dir mode, per file).** After a run in output_dir mode the parent directory of every
    group file is the output directory, it exists, and the run cannot have failed because of a missing directory
    (labels simple, as the engine's are). -/
theorem C17_parent_dir_exists_dir_mode (fs : FS) (r : RunCfg) (hm : r.dirMode = true)
    (hsimple : ∀ g ∈ r.groups, SimpleName g.1) :
    (∀ g ∈ r.groups, ∀ p, r.path (some g.1) = .ok p → (cliRun fs r).fs.dirExists (parsePath (dirname p)) = true) ∧
    (cliRun fs r).err ≠ some .fileNotFound := by
  constructor
  · intro g hg p hp
    rw [parent_of_group_path r hm g.1 (hsimple g hg) p hp]
    exact C17_dirs_created_dir_mode fs r hm
  · have hsh := C17_generated_shape
    have hprepd : (prepare Gen.prepareShape Gen.createDirsStrips fs r).fs.dirExists (parsePath r.dir) = true := by
      simp only [prepare, hm, if_true, hsh.2.2.2.2.2.1, FS.dirExists, removeEach_dirs]
      exact dirExists_makedirs fs r.dir
    have hpreperr : (prepare Gen.prepareShape Gen.createDirsStrips fs r).err ≠ some .fileNotFound := by
      simp only [prepare, hm, if_true]
      generalize (if Gen.prepareShape.dirMakedirs = true then fs.makedirs r.dir else fs) = fs1
      generalize removalScope Gen.prepareShape.dirRemove r = gs
      induction gs generalizing fs1 with
      | nil => simp [removeEach]
      | cons a gs ih =>
        simp only [removeEach]
        split
        · simp
        · exact ih _
    rw [cliRun_eq]
    unfold cliRunWith
    simp only [if_true]
    cases he : (prepare Gen.prepareShape Gen.createDirsStrips fs r).err with
    | some e =>
      show (prepare Gen.prepareShape Gen.createDirsStrips fs r).err ≠ _
      exact hpreperr
    | none =>
      show (writeGroups _ r _ r.groups).err ≠ _
      apply writeGroups_no_fnf
      intro g hg p hp
      rw [parent_of_group_path r hm g.1 (hsimple g hg) p hp]
      exact hprepd

/-! ### the stronger reading for output_dir mode: "the union of the group files in the directory is the result" -/

theorem flatMap_perm_of_perm {α β} {l₁ l₂ : List α} (f : α → List β) (h : l₁.Perm l₂) :
    (l₁.flatMap f).Perm (l₂.flatMap f) := by
  induction h with
  | nil => exact List.Perm.refl _
  | cons x _ ih => simpa [List.flatMap_cons] using List.Perm.append_left _ ih
  | swap x y l =>
    simp only [List.flatMap_cons, ← List.append_assoc]
    exact List.Perm.append_right _ List.perm_append_comm
  | trans _ _ ih₁ ih₂ => exact ih₁.trans ih₂

/-- the targets of the groups, one per group, in group order -/
theorem targets_flatMap (fs : FS) (r : RunCfg) (hm : r.dirMode = true)
    (hsimple : ∀ g ∈ r.groups, SimpleName g.1) (hnd : (r.groups.map (·.1)).Nodup) (h : (cliRun fs r).err = none) :
    (targets r).Nodup ∧ (targets r).flatMap (fun p => ((cliRun fs r).fs.files p).getD []) = resultLines r := by
  -- every group has a path
  have hall : ∀ g ∈ r.groups, ∃ p, r.path (some g.1) = .ok p ∧ (cliRun fs r).fs.files p = some (g.2.map lineOf) :=
    fun g hg => C17_group_file_contents fs r hm hsimple hnd h g hg
  have hinj : ∀ g₁ ∈ r.groups, ∀ g₂ ∈ r.groups, ∀ p, r.path (some g₁.1) = .ok p → r.path (some g₂.1) = .ok p → g₁.1 = g₂.1 := by
    intro g₁ h₁ g₂ h₂ p hp₁ hp₂
    by_cases hne : g₁.1 = g₂.1
    · exact hne
    exfalso
    exact C17_one_file_per_group r hm g₁.1 g₂.1 (hsimple g₁ h₁) (hsimple g₂ h₂) p p hp₁ hp₂ hne rfl
  -- generalise over the list of groups
  have key : ∀ (gs : List (Str × List Str)), (∀ g ∈ gs, g ∈ r.groups) → (gs.map (·.1)).Nodup →
      let ts := gs.filterMap fun g => match r.path (some g.1) with | .ok p => some p | .error _ => none
      ts.Nodup ∧ ts.flatMap (fun p => ((cliRun fs r).fs.files p).getD []) = gs.flatMap (fun g => g.2.map lineOf) ∧
      ∀ p ∈ ts, ∃ g ∈ gs, r.path (some g.1) = .ok p := by
    intro gs
    induction gs with
    | nil => intro _ _; simp
    | cons a gs ih =>
      intro hsub hnd'
      simp only [List.map_cons, List.nodup_cons] at hnd'
      obtain ⟨ihn, ihf, ihm⟩ := ih (fun g hg => hsub g (List.mem_cons_of_mem _ hg)) hnd'.2
      obtain ⟨p, hp, hfp⟩ := hall a (hsub a (List.mem_cons_self ..))
      simp only [List.filterMap_cons, hp]
      refine ⟨?_, ?_, ?_⟩
      · refine List.nodup_cons.mpr ⟨?_, ihn⟩
        intro hmem
        obtain ⟨g, hg, hgp⟩ := ihm p hmem
        have := hinj a (hsub a (List.mem_cons_self ..)) g (hsub g (List.mem_cons_of_mem _ hg)) p hp hgp
        exact hnd'.1 (this ▸ List.mem_map_of_mem hg)
      · simp only [List.flatMap_cons, hfp, Option.getD_some]
        rw [ihf]
      · intro q hq
        rcases List.mem_cons.mp hq with rfl | hq'
        · exact ⟨a, List.mem_cons_self .., hp⟩
        · obtain ⟨g, hg, hgq⟩ := ihm q hq'
          exact ⟨g, List.mem_cons_of_mem _ hg, hgq⟩
  obtain ⟨h1, h2, _⟩ := key r.groups (fun _ h => h) hnd
  exact ⟨h1, h2⟩

theorem any_goesTo_false_of_not_target {r : RunCfg} {p : Path} (h : p ∉ targets r) :
    r.groups.any (fun g => r.goesTo g.1 p) = false := by
  cases hany : r.groups.any (fun g => r.goesTo g.1 p) with
  | false => rfl
  | true =>
    exfalso
    obtain ⟨g, hg, hgo⟩ := List.any_eq_true.mp hany
    apply h
    apply mem_targets.mpr
    refine ⟨g, hg, ?_⟩
    simp only [RunCfg.goesTo] at hgo
    split at hgo
    · rename_i q hq
      have : q = p := by simpa using hgo
      rw [hq, this]
    · simp at hgo

/-- a file that is present after a completed output_dir run and is not one of its targets was there before -/
theorem present_before_of_not_target (fs : FS) (r : RunCfg) (hm : r.dirMode = true) (h : (cliRun fs r).err = none)
    (p : Path) (hnt : p ∉ targets r) (hsome : ((cliRun fs r).fs.files p).isSome = true) : (fs.files p).isSome = true := by
  rw [cliRun_eq] at h hsome
  unfold cliRunWith at h hsome
  simp only [if_true] at h hsome
  cases he : (prepare Gen.prepareShape Gen.createDirsStrips fs r).err with
  | some e => simp [he] at h
  | none =>
    simp only [he] at h hsome
    rw [writeGroups_untouched _ _ _ _ _ (any_goesTo_false_of_not_target hnt)] at hsome
    unfold prepare at he hsome
    simp only [hm, if_true] at he hsome
    rw [removeEach_files _ _ _ he] at hsome
    split at hsome
    · simp at hsome
    · split at hsome <;> simpa [FS.makedirs] using hsome

/-- **C17 (stronger reading, partial).** Let `S` be any set of paths that contains the run's targets (e.g. "the files
    of the output directory with the extension of the format").  If no *non-targeted* file of `S` exists before the run
    — this hypothesis is exactly the negation of the scope of finding `C17_F1` — then after a run that completes, the
    files present in `S` are exactly the group files and their union is the result of the run. -/
theorem C17_dir_union_partial (fs : FS) (r : RunCfg) (hm : r.dirMode = true)
    (hsimple : ∀ g ∈ r.groups, SimpleName g.1) (hnd : (r.groups.map (·.1)).Nodup)
    (S : Path → Prop) (hS : ∀ p ∈ targets r, S p)
    (hclean : ∀ p, S p → (fs.files p).isSome = true → p ∈ targets r)
    (h : (cliRun fs r).err = none)
    (listing : List Path) (hlnd : listing.Nodup)
    (hl : ∀ p, p ∈ listing ↔ (S p ∧ ((cliRun fs r).fs.files p).isSome = true)) :
    (listing.flatMap fun p => ((cliRun fs r).fs.files p).getD []).Perm (resultLines r) := by
  obtain ⟨htn, htf⟩ := targets_flatMap fs r hm hsimple hnd h
  have hperm : listing.Perm (targets r) := by
    apply (List.perm_ext_iff_of_nodup hlnd htn).mpr
    intro p
    rw [hl p]
    constructor
    · rintro ⟨hs, hsome⟩
      by_cases hnt : p ∈ targets r
      · exact hnt
      exact absurd (hclean p hs (present_before_of_not_target fs r hm h p hnt hsome)) hnt
    · intro hp
      refine ⟨hS p hp, ?_⟩
      rw [C17_run fs r h p hp]; rfl
  rw [← htf]
  exact flatMap_perm_of_perm _ hperm

/-! ### counter-witnesses and the names used when `output_file` is absent / empty -/

def t₁ : Str := "<http://ex/a> <http://ex/p> <http://ex/b>".toList
def t₂ : Str := "<http://ex/a> <http://ex/p> <http://ex/c>".toList

/-- a run over `output_dir=out` whose only group has the label `1-1-1-1` -/
def runOld : RunCfg :=
  { format := "N-TRIPLES".toList, outputDir := some "out".toList, outputFile := none, groups := [("1-1-1-1".toList, [t₁])] }
/-- a later run over the same directory whose only group has the label `0-0-0-0` (e.g. partitioning switched off) -/
def runNew : RunCfg :=
  { format := "N-TRIPLES".toList, outputDir := some "out".toList, outputFile := none, groups := [("0-0-0-0".toList, [t₂])] }

/-- **finding C17_F1 (stronger reading).** Two runs over one `output_dir` with different group labels: both complete,
    the second run's own file is exact, but the group file of the first run is still in the directory with its old
    statements, and it is not a target of the second run. -/
theorem C17_F1_stale_group_file :
    (cliRun emptyFS runOld).err = none ∧ (cliRun (history emptyFS [runOld]) runNew).err = none ∧
    targets runNew = ["out/0-0-0-0.nt".toList] ∧
    (history emptyFS [runOld, runNew]).files "out/0-0-0-0.nt".toList = some [lineOf t₂] ∧
    (history emptyFS [runOld, runNew]).files "out/1-1-1-1.nt".toList = some [lineOf t₁] := by
  decide +kernel

/-- the hypothesis `hclean` of `C17_dir_union_partial` cannot be dropped: after `runOld`, the run `runNew` satisfies
    every other hypothesis for `S` = the two `.nt` files of `out/`, yet the union of the files present in `S` is not
    the result of `runNew`. -/
theorem C17_F1_union_fails :
    ∃ (fs : FS) (r : RunCfg) (S : Path → Prop) (listing : List Path),
      r.dirMode = true ∧ (∀ g ∈ r.groups, SimpleName g.1) ∧ (r.groups.map (·.1)).Nodup ∧ (∀ p ∈ targets r, S p) ∧
      (cliRun fs r).err = none ∧ listing.Nodup ∧
      (∀ p, p ∈ listing ↔ (S p ∧ ((cliRun fs r).fs.files p).isSome = true)) ∧
      ¬ (listing.flatMap fun p => ((cliRun fs r).fs.files p).getD []).Perm (resultLines r) := by
  refine ⟨history emptyFS [runOld], runNew, (· ∈ ["out/0-0-0-0.nt".toList, "out/1-1-1-1.nt".toList]),
    ["out/0-0-0-0.nt".toList, "out/1-1-1-1.nt".toList], by decide +kernel, by decide +kernel, by decide +kernel,
    by decide +kernel, by decide +kernel, by decide +kernel, ?_, ?_⟩
  · intro p
    constructor
    · intro hp
      refine ⟨hp, ?_⟩
      have h2 : ∀ q ∈ ["out/0-0-0-0.nt".toList, "out/1-1-1-1.nt".toList],
          ((cliRun (history emptyFS [runOld]) runNew).fs.files q).isSome = true := by decide +kernel
      exact h2 p hp
    · exact fun h => h.1
  · intro h
    have := h.length_eq
    revert this
    decide +kernel

def runDefault (fmt : Str) (dir file : Option Str) : RunCfg := { format := fmt, outputDir := dir, outputFile := file, groups := [] }

/-- **C17 (default name).** Without `output_file` (and without `output_dir`, or with an empty one) the result goes to
    `DEFAULT_OUTPUT_FILE` + the extension of the format (`knowledge-graph.nt`, `knowledge-graph.nq`). -/
theorem C17_default_name_absent : ∀ kv ∈ Gen.outputFormatFileExtension,
    (runDefault kv.1 none none).path none = .ok (Gen.defaultOutputFile ++ kv.2) ∧
    (runDefault kv.1 (some []) none).path (some "0-0-0-0".toList) = .ok (Gen.defaultOutputFile ++ kv.2) := by
  decide +kernel

/-- **former finding C17_F2 (= C19_F1), repaired by /repo commit 8e4f7f8.** With `output_file=` (present, empty) the third
    branch of `get_output_file_path` now uses `DEFAULT_OUTPUT_FILE`: the result goes to `knowledge-graph.nt` / `.nq`, as for
    an absent option. If the option name is used again, this theorem no longer checks. -/
theorem C17_default_name_empty : ∀ kv ∈ Gen.outputFormatFileExtension,
    (runDefault kv.1 none (some [])).path none = .ok (Gen.defaultOutputFile ++ kv.2) := by
  decide +kernel

/-- `output_file=./ d/kg`: the normalised path is `" d/kg.nt"` -/
def runSpace : RunCfg :=
  { format := "N-TRIPLES".toList, outputDir := none, outputFile := some "./ d/kg".toList, groups := [("0-0-0-0".toList, [t₁])] }

/-- **finding C17_F3.** The hypothesis `pyStrip p = p` of `C17_dirs_created_file_mode` is needed: `create_dirs_in_path`
    strips the path before taking its directory, so for an output path that starts with a blank the directory `d` is
    made instead of `" d"` and the run dies with `FileNotFoundError`. -/
theorem C17_F3_leading_space_directory :
    runSpace.path none = .ok " d/kg.nt".toList ∧ (cliRun emptyFS runSpace).err = some .fileNotFound ∧
    (cliRun emptyFS runSpace).fs.dirs "d".toList = true ∧ (cliRun emptyFS runSpace).fs.dirs " d".toList = false := by
  decide +kernel

/-! ### non-vacuity -/

/-- a history of three runs over one directory whose last run completes and has a target with statements -/
example : (cliRun (history emptyFS ([runOld, runNew, runOld].take 2)) [runOld, runNew, runOld][2]).err = none ∧
    targets ([runOld, runNew, runOld][2]) = ["out/1-1-1-1.nt".toList] ∧
    stmtsFor runOld "out/1-1-1-1.nt".toList = [lineOf t₁] := by decide +kernel

/-- a pre-existing junk target is replaced, an unrelated file is kept (instance of `C17_run` and `C17_frame`) -/
example :
    let fs := FS.ofLists [("out/1-1-1-1.nt".toList, ["junk".toList]), ("out/readme.txt".toList, ["keep".toList])] ["out".toList]
    (cliRun fs runOld).err = none ∧ (cliRun fs runOld).fs.files "out/1-1-1-1.nt".toList = some [lineOf t₁] ∧
    (cliRun fs runOld).fs.files "out/readme.txt".toList = some ["keep".toList] := by decide +kernel

def runTwo : RunCfg :=
  { format := "N-QUADS".toList, outputDir := some "deep/er/out/".toList, outputFile := some "ignored.nt".toList,
    groups := [("1-1-1-1".toList, [t₁]), ("1-2-1-1".toList, [t₂, t₁])], otherGroups := ["1-3-1-1".toList] }

/-- the hypotheses of `C17_one_file_per_group`, `C17_group_file_contents`, `C17_dir_union_partial` hold for a run with
    two groups into a missing nested directory -/
example : runTwo.dirMode = true ∧ (∀ g ∈ runTwo.groups, SimpleName g.1) ∧ (runTwo.groups.map (·.1)).Nodup ∧
    (cliRun emptyFS runTwo).err = none ∧
    targets runTwo = ["deep/er/out/1-1-1-1.nq".toList, "deep/er/out/1-2-1-1.nq".toList] := by decide +kernel

def runFile : RunCfg :=
  { format := "N-TRIPLES".toList, outputDir := none, outputFile := some "a/b/kg.ttl".toList,
    groups := [("1-1-1-1".toList, [t₁]), ("1-2-1-1".toList, [t₂])] }

/-- the hypotheses of `C17_dirs_created_file_mode` hold for `output_file=a/b/kg.ttl` (suffix replaced, two groups into
    one file) -/
example : runFile.dirMode = false ∧ runFile.path none = .ok "a/b/kg.nt".toList ∧ pyStrip "a/b/kg.nt".toList = "a/b/kg.nt".toList ∧
    (cliRun emptyFS runFile).fs.files "a/b/kg.nt".toList = some [lineOf t₁, lineOf t₂] := by decide +kernel

/-- a rejected run (instance of `C17_rejected_file_mode_untouched`): `output_file=.` has an empty name -/
example : (runDefault "N-TRIPLES".toList none (some ".".toList)).path none = .error .valueError := by decide +kernel

end Props.C17
