/-
C14 — Function-valued term maps yield the function applied to each row.

Model: `Model/Fnml.lean` (`execute_fnml`, `_materialize_fnml_execution`, rules with function-valued term maps),
`Model/FnmlBuiltins.lean` (meaning of the recognised built-in bodies).  Specification: `Spec/Fnml.lean` (one row at a time).
Everything that is a statement order, a keyword argument, a registry entry or a body shape comes from `Gen/Fnml.lean`, which the
translator rewrites from /repo on every run; the theorems below mention those generated definitions (`gen_ok`, `C14_generated`,
`C14_builtin_*`), so an edit of the source re-checks them.

All theorems are for every function environment (`FunEnv`: signatures + functions, built-in or user-defined), every FNML table,
every frame, every nesting depth.

Findings of the unchanged tree (counter-witness theorems below; `known_findings.json` has the replays):
  C14_F1  NULL removal runs BEFORE `explode`: `[]` and `['a', None]` leave NaN/None in the exploded column (a float `nan` in the result
          set; `AttributeError` for IRIs), an NA token inside a list becomes a term.
  C14_F2  built-in `hash_iri` loads `sha256` that is bound nowhere: `NameError` on every input.
  C14_F3  the result column is assigned from a plain list: on a frame WITHOUT ROWS its dtype is float64 and the term construction raises.
  C14_F4  a function-valued language map goes through the literal branch: `"v"@"en"`.
  C14_F5  a result that is not a `str` (the built-in `string_indexOf` returns an `int`) aborts the run / leaves `nan`.
  C14_F6  the parent's function of a referencing object map is evaluated on the CHILD's columns.
  C14_F7  `toUpperCaseURL` upper-cases and encodes the scheme (`url[:8]`) instead of the rest of the URL.
-/
import MorphKgc.Gen.Fnml
import MorphKgc.Gen.Canon
import MorphKgc.Gen.Null
import MorphKgc.Lemmas.Fnml
import MorphKgc.Lemmas.FnmlGroup
import MorphKgc.Lemmas.FnmlBuiltins
import MorphKgc.Props.C02
import MorphKgc.Props.C15

namespace Props.C14
open Py Model Model.Fnml Spec.Fnml Lemmas.Fnml

/-! ### side conditions on the generated data -/

/-- what the translator must have found in /repo for the theorems below to be about the code: a recognised statement order of
    `execute_fnml`; `_materialize_fnml_template`, `get_references_in_fnml_execution`, the two decorators and `load_udfs` in their
    recognised form; whole-cell NA replacement by `None`; no column alias at the function site; `.strip()` in the IRI branch -/
theorem gen_ok :
    (execKindOf Gen.executeSteps).isSome = true ∧ Gen.fnmlTemplateRecognised = true ∧ Gen.refsInExecutionRecognised = true ∧
    Gen.registriesRecognised = true ∧ Gen.removeNullsShape.replaceByNone = true ∧ Gen.removeNullsShape.naMatch = .wholeCell ∧
    Gen.siteShape.aliasAware = false ∧ Gen.siteShape.iriStrip = true ∧ Gen.siteShape.defaultTermtype = some .literal ∧
    Gen.fnmlTranslated = true := by decide

/-! ### C14_frame_is_rowwise — the frame-level pipeline is a per-row function, for either statement order -/

theorem C14_frame_is_rowwise (env : FunEnv) (ord : NullOrder) (na : List Str) (df : FnmlDf) (n : Nat) (id : Str) (fr : Frame) :
    executeFnml env ord na df n id fr = fr.flatMap (execRowWith bindArgs (finishRow ord na) env df n id) :=
  executeFnml_rowwise env ord na df n id fr

/-! ### C14_apply — one call level -/

/-- what a result contributes, spelt out -/
theorem resultAtoms_cases (na : List Str) :
    (∀ r, resultAtoms na (.atom (.null r)) = []) ∧
    (∀ s, s ∉ na → resultAtoms na (.atom (.str s)) = [.str s]) ∧
    (∀ s, s ∈ na → resultAtoms na (.atom (.str s)) = []) ∧
    (∀ xs, resultAtoms na (.list xs) = xs.filter fun a => !nullish na a) := by
  refine ⟨fun r => by simp [resultAtoms, nullish], fun s h => by simp [resultAtoms, nullish, h],
    fun s h => by simp [resultAtoms, nullish, h], fun xs => rfl⟩

/-- **C14_apply.** With `explode` before the NULL removal: for every function environment, every execution (its rows `rows` of the FNML
    table, the signature `sig` of its function `fn`) and every frame on which the inner executions have run, the frame after the
    call level is the `flatMap` over the rows of: the function applied to the row's bound arguments — a NULL result gives nothing, a
    list one row per non-NULL element, any other result one row. -/
theorem C14_apply (env : FunEnv) (na : List Str) (id fn : Str) (rows : List FRow) (sig : Sig) (fr : Frame) :
    finish .explodeThenDropna na id (callLevel env rows sig fn fr) =
      fr.flatMap fun σ => (resultAtoms na (callOn env fn (bindArgs sig rows) σ)).map (setCol σ id) := by
  unfold callLevel
  rw [finish_eq]
  simp only [finishRow_explodeThenDropna]

/-- **C14_apply_partial.** With the NULL removal before `explode` (the code as it is) the same holds on every frame none of whose rows
    gets a `BadList` (an empty list, or a list with a NULL element): exactly `¬ scope_C14_F1` at this level. -/
theorem C14_apply_partial (env : FunEnv) (na : List Str) (id fn : Str) (rows : List FRow) (sig : Sig) (fr : Frame)
    (h : ∀ σ ∈ fr, BadList na (callOn env fn (bindArgs sig rows) σ) = false) :
    finish .dropnaThenExplode na id (callLevel env rows sig fn fr) =
      fr.flatMap fun σ => (resultAtoms na (callOn env fn (bindArgs sig rows) σ)).map (setCol σ id) := by
  unfold callLevel
  rw [finish_eq]
  exact flatMap_congr' fun σ hσ => by rw [finishRow_dropnaThenExplode na _ (h σ hσ)]

-- non-vacuity: a frame of two rows, one function returning a string for the first and a two-element list for the second
example :
    let env : FunEnv := { sigs := fun _ => some [("x".toList, "p".toList)],
                          call := fun _ args => match args with
                            | [(_, .str ['a'])] => .atom (.str "A".toList)
                            | _ => .list [.str "B".toList, .str "C".toList] }
    let rows : List FRow := [{ exec := "e".toList, fn := "f".toList, param := "p".toList, vtype := .reference, value := "c".toList }]
    finish .dropnaThenExplode [[]] "e".toList (callLevel env rows [("x".toList, "p".toList)] "f".toList
        [[("c".toList, .str ['a'])], [("c".toList, .str ['b'])]])
      = [[("e".toList, .str "A".toList), ("c".toList, .str ['a'])], [("e".toList, .str "B".toList), ("c".toList, .str ['b'])],
         [("e".toList, .str "C".toList), ("c".toList, .str ['b'])]] := by decide

/-! ### C14_bind_by_iri — arguments are bound by parameter IRI -/

theorem lookup_iff_mem {β} (l : List (Str × β)) (h : (l.map Prod.fst).Nodup) (k : Str) (v : β) :
    lookup k l = some v ↔ (k, v) ∈ l := by
  induction l with
  | nil => simp [lookup]
  | cons p l ih =>
    obtain ⟨a, b⟩ := p
    simp only [List.map_cons, List.nodup_cons] at h
    simp only [lookup, List.mem_cons, Prod.mk.injEq]
    by_cases hk : a = k
    · subst hk
      simp only [↓reduceIte, Option.some.injEq, true_and]
      constructor
      · exact fun e => Or.inl e.symm
      · rintro (e | hm)
        · exact e.symm
        · exact absurd (List.mem_map.mpr ⟨(a, v), hm, rfl⟩) h.1
    · simp only [hk, ↓reduceIte]
      rw [ih h.2]
      constructor
      · exact fun hm => Or.inr hm
      · rintro (⟨e, _⟩ | hm)
        · exact absurd e.symm hk
        · exact hm

theorem lookupLast_eq_lookup {β} (l : List (Str × β)) (h : (l.map Prod.fst).Nodup) (k : Str) :
    lookupLast k l = lookup k l := by
  have hr : (l.reverse.map Prod.fst).Nodup := by rw [List.map_reverse]; exact (List.reverse_perm _).nodup_iff.mpr h
  unfold lookupLast
  apply Option.ext
  intro v
  rw [lookup_iff_mem _ hr, lookup_iff_mem _ h, List.mem_reverse]

theorem lookup_map_rows {β} (f : FRow → β) (rows : List FRow) (k : Str) :
    lookup k (rows.map fun r => (r.param, f r)) = (rows.find? fun r => r.param = k).map f := by
  induction rows with
  | nil => rfl
  | cons r rs ih =>
    simp only [List.map_cons, lookup, List.find?_cons]
    by_cases h : r.param = k <;> simp [h, ih]

theorem argOf_eq_argValue (σ : FR) (r : FRow) : argOf σ r.vtype r.value = argValue σ r := by
  unfold argOf argValue
  cases r.vtype <;> rfl

/-- **C14_bind_by_iri.** When an execution names each parameter at most once, the dictionary-based binding of the code is binding by
    parameter IRI: Python parameter `k` gets the value of the input whose `rml:parameter` is the IRI declared for `k`; the order of
    the inputs and the order of the decorator's keyword arguments do not enter. -/
theorem C14_bind_by_iri (sig : Sig) (rows : List FRow) (h : (rows.map (·.param)).Nodup) (σ : FR) :
    bindArgs sig rows σ = bindByIri sig rows σ ∧
    (∀ k iri, (k, iri) ∈ sig → ∀ r ∈ rows, r.param = iri → (k, argValue σ r) ∈ bindByIri sig rows σ) ∧
    (∀ k a, (k, a) ∈ bindByIri sig rows σ → ∃ iri, (k, iri) ∈ sig ∧ ∃ r ∈ rows, r.param = iri ∧ a = argValue σ r) := by
  have hT : ((rows.map fun r => (r.param, r.vtype)).map Prod.fst).Nodup := by simpa [List.map_map, Function.comp_def] using h
  have hV : ((rows.map fun r => (r.param, r.value)).map Prod.fst).Nodup := by simpa [List.map_map, Function.comp_def] using h
  refine ⟨?_, ?_, ?_⟩
  · unfold bindArgs bindByIri
    show List.filterMap _ sig = List.filterMap _ sig
    congr 1
    funext kv
    rw [lookupLast_eq_lookup _ hT, lookupLast_eq_lookup _ hV, lookup_map_rows, lookup_map_rows]
    cases hf : rows.find? (fun r => r.param = kv.2) with
    | none => rfl
    | some r => simp [argOf_eq_argValue]
  · intro k iri hk r hr hp
    unfold bindByIri
    rw [List.mem_filterMap]
    refine ⟨(k, iri), hk, ?_⟩
    -- the first input with that parameter is `r`, because parameters are distinct
    have : rows.find? (fun r' => r'.param = iri) = some r := by
      have hl : lookup iri (rows.map fun r => (r.param, r)) = some r :=
        (lookup_iff_mem _ (by simpa [List.map_map, Function.comp_def] using h) iri r).mpr
          (List.mem_map.mpr ⟨r, hr, by rw [hp]⟩)
      rw [lookup_map_rows] at hl
      simpa using hl
    simp [this]
  · intro k a hm
    unfold bindByIri at hm
    rw [List.mem_filterMap] at hm
    obtain ⟨kv, hkv, he⟩ := hm
    cases hf : rows.find? (fun r => r.param = kv.2) with
    | none => simp [hf] at he
    | some r =>
      simp only [hf, Option.map_some, Option.some.injEq, Prod.mk.injEq] at he
      obtain ⟨rfl, rfl⟩ := he
      exact ⟨kv.2, hkv, r, List.mem_of_find?_eq_some hf, by simpa using List.find?_some hf, rfl⟩

-- non-vacuity: a non-commutative function whose decorator lists (b, a) while the mapping lists pa first, then pb
example :
    let sig : Sig := [("b".toList, "pb".toList), ("a".toList, "pa".toList)]
    let rows : List FRow := [{ exec := [], fn := [], param := "pa".toList, vtype := .reference, value := "v".toList },
                             { exec := [], fn := [], param := "pb".toList, vtype := .constant, value := "K".toList }]
    (rows.map (·.param)).Nodup ∧
    bindArgs sig rows [("v".toList, .str "x".toList)] = [("b".toList, .str "K".toList), ("a".toList, .str "x".toList)] := by decide

/-! ### C14_nested — inner executions first, each from the same row only; induction on the nesting depth -/

theorem execRowWith_bind (fin : PyVal → List Atom) (env : FunEnv) (df : FnmlDf) (hd : ParamsDistinct df) :
    ∀ (n : Nat) (id : Str) (σ : FR), execRowWith bindArgs fin env df n id σ = execRowWith bindByIri fin env df n id σ := by
  intro n
  induction n with
  | zero => intro id σ; simp only [execRowWith]
  | succ n ih =>
    intro id σ
    have hrec : execRowWith bindArgs fin env df n = execRowWith bindByIri fin env df n :=
      funext fun id => funext fun σ => ih id σ
    rw [execRowWith, execRowWith]
    cases hr : rowsOf df id with
    | nil => rfl
    | cons r0 rs =>
      have hnd : ((r0 :: rs).map (·.param)).Nodup := by have := hd id; rw [hr] at this; exact this
      simp only [hrec]
      cases hs : env.sigs r0.fn with
      | none => rfl
      | some sig =>
        simp only
        have : bindArgs sig (r0 :: rs) = bindByIri sig (r0 :: rs) := funext fun σ => (C14_bind_by_iri sig _ hnd σ).1
        rw [this]

/-- **C14_nested.** With `explode` before the NULL removal and every execution naming each parameter at most once, `execute_fnml` on a
    frame is, for every nesting depth, the `flatMap` over the rows of the specification `Spec.Fnml.execRow`: the nested executions
    of the inputs are evaluated first, one after the other, each on the rows produced so far FOR THIS ROW ONLY, and the function is
    then applied to arguments bound by parameter IRI; NULL results vanish, lists are spread. -/
theorem C14_nested (env : FunEnv) (na : List Str) (df : FnmlDf) (hd : ParamsDistinct df) (n : Nat) (id : Str) (fr : Frame) :
    executeFnml env .explodeThenDropna na df n id fr = fr.flatMap (execRow env na df n id) := by
  rw [executeFnml_rowwise]
  have hf : finishRow .explodeThenDropna na = resultAtoms na := funext (finishRow_explodeThenDropna na)
  rw [hf]
  exact flatMap_congr' fun σ _ => execRowWith_bind _ env df hd n id σ

/-- inputs that are not executions do nothing in the inner phase -/
theorem innerRow_filter (rec : Str → FR → Frame) (rows : List FRow) (acc : Frame) :
    innerRow rec rows acc = innerRow rec (rows.filter fun r => r.vtype = .execution) acc := by
  induction rows generalizing acc with
  | nil => rfl
  | cons r rs ih =>
    by_cases h : r.vtype = .execution
    · simp only [innerRow, h, ↓reduceIte, List.filter_cons, decide_true]
      exact ih _
    · simp only [innerRow, h, ↓reduceIte, List.filter_cons, decide_false, Bool.false_eq_true]
      exact ih _

/-- **C14_leaf.** An execution none of whose inputs is an execution: the function applied to the row's arguments (constants, references,
    templates), bound by parameter IRI; NULL → no row, list → one row per non-NULL element. -/
theorem C14_leaf (env : FunEnv) (na : List Str) (df : FnmlDf) (n : Nat) (id : Str) (σ : FR) (r0 : FRow) (rs : List FRow) (sig : Sig)
    (hr : rowsOf df id = r0 :: rs) (hs : env.sigs r0.fn = some sig) (hleaf : ∀ r ∈ r0 :: rs, r.vtype ≠ .execution) :
    execRow env na df (n + 1) id σ = (resultAtoms na (callOn env r0.fn (bindByIri sig (r0 :: rs)) σ)).map (setCol σ id) := by
  unfold execRow
  rw [execRowWith]
  simp only [hr, hs]
  rw [innerRow_filter]
  have : (r0 :: rs).filter (fun r => r.vtype = .execution) = [] :=
    List.filter_eq_nil_iff.mpr fun r hm => by simpa using hleaf r hm
  rw [this]
  simp [innerRow]

/-- **C14_nested_one.** `f(…, g(…), …)` with exactly one nested input `r` (the execution `r.value`): the rows that `g` yields FOR THIS ROW are
    computed first, and `f` is applied once to each of them (its other arguments still come from the same row). -/
theorem C14_nested_one (env : FunEnv) (na : List Str) (df : FnmlDf) (n : Nat) (id : Str) (σ : FR) (r0 : FRow) (rs : List FRow)
    (sig : Sig) (r : FRow) (hr : rowsOf df id = r0 :: rs) (hs : env.sigs r0.fn = some sig)
    (hone : (r0 :: rs).filter (fun x => x.vtype = .execution) = [r]) :
    execRow env na df (n + 1) id σ =
      (execRow env na df n r.value σ).flatMap fun σ' =>
        (resultAtoms na (callOn env r0.fn (bindByIri sig (r0 :: rs)) σ')).map (setCol σ' id) := by
  have hv : r.vtype = .execution := by
    have : r ∈ (r0 :: rs).filter (fun x => x.vtype = .execution) := by rw [hone]; simp
    simpa using (List.mem_filter.mp this).2
  unfold execRow
  rw [execRowWith]
  simp only [hr, hs]
  rw [innerRow_filter, hone]
  simp [innerRow, hv]

theorem execRowWith_scope_free (env : FunEnv) (na : List Str) (df : FnmlDf) :
    ∀ (n : Nat) (id : Str) (σ : FR), scopeF1Row bindArgs env na df n id σ = false →
      execRowWith bindArgs (finishRow .dropnaThenExplode na) env df n id σ = execRowWith bindArgs (resultAtoms na) env df n id σ := by
  intro n
  induction n with
  | zero => intro id σ _; simp only [execRowWith]
  | succ n ih =>
    intro id σ hs
    rw [execRowWith, execRowWith]
    rw [scopeF1Row] at hs
    cases hr : rowsOf df id with
    | nil => rfl
    | cons r0 rs =>
      simp only [hr, Bool.or_eq_false_iff] at hs ⊢
      have hin := innerRow_congr (execRowWith bindArgs (finishRow .dropnaThenExplode na) env df n)
        (execRowWith bindArgs (resultAtoms na) env df n) (scopeF1Row bindArgs env na df n) ih (r0 :: rs) [σ] hs.1
      rw [hin]
      cases hsig : env.sigs r0.fn with
      | none => rfl
      | some sig =>
        have h2 := hs.2
        simp only [hsig, List.any_eq_false] at h2
        exact flatMap_congr' fun σ' hσ' => by
          rw [finishRow_dropnaThenExplode na _ (by simpa using h2 σ' hσ')]

/-- **C14_nested_partial.** The code as it is (NULL removal before `explode`): the same statement for every frame none of whose rows
    lies in `scope_C14_F1` (some call made while evaluating the execution on that row returns an empty list or a list with a NULL
    element). -/
theorem C14_nested_partial (env : FunEnv) (na : List Str) (df : FnmlDf) (hd : ParamsDistinct df) (n : Nat) (id : Str) (fr : Frame)
    (h : ∀ σ ∈ fr, scopeF1Row bindArgs env na df n id σ = false) :
    executeFnml env .dropnaThenExplode na df n id fr = fr.flatMap (execRow env na df n id) := by
  rw [executeFnml_rowwise]
  exact flatMap_congr' fun σ hσ => by
    rw [execRowWith_scope_free env na df n id σ (h σ hσ)]
    exact execRowWith_bind _ env df hd n id σ

/-- **C14_generated.** For the statement order the translator reads from /repo NOW: it is a recognised one; the frame-level pipeline is
    row-wise; and either `explode` comes first and every result is treated as specified, or the NULL removal comes first, the results
    that are not a `BadList` are treated as specified, and `[]` is not (it leaves a NaN cell). -/
theorem C14_generated :
    ∃ ord, execKindOf Gen.executeSteps = some ord ∧
      (∀ env na df n id fr, executeFnml env ord na df n id fr = fr.flatMap (execRowWith bindArgs (finishRow ord na) env df n id)) ∧
      ((ord = .explodeThenDropna ∧ ∀ na v, finishRow ord na v = resultAtoms na v) ∨
       (ord = .dropnaThenExplode ∧ (∀ na v, BadList na v = false → finishRow ord na v = resultAtoms na v) ∧
          finishRow ord [[]] (.list []) = [.null "nan".toList] ∧ resultAtoms [[]] (.list []) = [])) := by
  first
    | exact ⟨.dropnaThenExplode, by decide, fun env na df n id fr => executeFnml_rowwise env _ na df n id fr,
        Or.inr ⟨rfl, finishRow_dropnaThenExplode, by decide, by decide⟩⟩
    | exact ⟨.explodeThenDropna, by decide, fun env na df n id fr => executeFnml_rowwise env _ na df n id fr,
        Or.inl ⟨rfl, finishRow_explodeThenDropna⟩⟩

/-! ### C14_row_local — the result for a row does not depend on the other rows -/

/-- **C14_row_local.** For either statement order (the defect C14_F1 included): `execute_fnml` distributes over the concatenation of
    frames, and its result is the concatenation of its results on the one-row frames. -/
theorem C14_row_local (env : FunEnv) (ord : NullOrder) (na : List Str) (df : FnmlDf) (n : Nat) (id : Str) :
    (∀ a b : Frame, executeFnml env ord na df n id (a ++ b) = executeFnml env ord na df n id a ++ executeFnml env ord na df n id b) ∧
    (∀ fr : Frame, executeFnml env ord na df n id fr = fr.flatMap fun σ => executeFnml env ord na df n id [σ]) := by
  refine ⟨fun a b => ?_, fun fr => ?_⟩
  · simp only [executeFnml_rowwise, List.flatMap_append]
  · simp only [executeFnml_rowwise, List.flatMap_cons, List.flatMap_nil, List.append_nil]

/-! ### C14_row_local_rule — a rule with function-valued term maps, row by row -/

/-- a step of the rule pipeline that, unless it raises the frame-level abort of C14_F3, rewrites the frame by an additive function -/
def StepOK (f : RuleState → RuleState) (g : Frame → Frame) : Prop :=
  (∀ a b, g (a ++ b) = g a ++ g b) ∧ ∀ st, (f st).abort = none → st.abort = none ∧ (f st).frame = g st.frame

theorem StepOK.comp {f1 f2 : RuleState → RuleState} {g1 g2 : Frame → Frame} (h1 : StepOK f1 g1) (h2 : StepOK f2 g2) :
    StepOK (fun st => f2 (f1 st)) (fun fr => g2 (g1 fr)) := by
  refine ⟨fun a b => by simp only [h1.1, h2.1], fun st h => ?_⟩
  obtain ⟨ha, hf⟩ := h2.2 (f1 st) h
  obtain ⟨ha', hf'⟩ := h1.2 st ha
  exact ⟨ha', by rw [hf, hf']⟩

theorem stepOK_id : StepOK (fun st => st) (fun fr => fr) := ⟨fun _ _ => rfl, fun _ h => ⟨h, rfl⟩⟩

theorem stepOK_mapFrame (k : FR → FR) : StepOK (mapFrame k) (List.map k) :=
  ⟨fun _ _ => List.map_append, fun _ h => ⟨h, rfl⟩⟩

theorem posFrame_append (E : FEnv) (env : Env) (pos : Str) (kind : MapType) (value : Str) (tt : Option TermType) (dt alias : Str)
    (a b : Frame) :
    posFrame E env pos kind value tt dt alias (a ++ b) =
      posFrame E env pos kind value tt dt alias a ++ posFrame E env pos kind value tt dt alias b := by
  unfold posFrame
  cases kind <;> simp only [List.map_append, (C14_row_local _ _ _ _ _ _).1]

theorem stepOK_position (E : FEnv) (env : Env) (pos : Str) (kind : MapType) (value : Str) (tt : Option TermType) (dt alias : Str) :
    StepOK (positionStep E env pos kind value tt dt alias) (posFrame E env pos kind value tt dt alias) := by
  refine ⟨posFrame_append E env pos kind value tt dt alias, fun st h => ?_⟩
  unfold positionStep at h ⊢
  by_cases h1 : st.abort.isSome = true
  · simp only [h1, ↓reduceIte] at h; simp [h] at h1
  · simp only [h1] at h ⊢
    by_cases h2 : posAborts E env kind value tt dt st.frame = true
    · simp [h2] at h
    · simp only [h2]
      exact ⟨by simpa using h1, rfl⟩

/-- **C14_row_local_rule.** For every rule (functions in any position), every function environment and every output format there is a
    frame function `g`, additive over the concatenation of frames (`g (a ++ b) = g a ++ g b`, i.e. `g` works row by row), such that
    whenever the run does not hit the frame-level abort of C14_F3 the frame of the rule is `g` of the input frame.  With the result
    column assigned as an object Series (the repaired shape) that abort does not exist. -/
theorem C14_row_local_rule (E : FEnv) (env : Env) (r : Rule) (objKind : MapType) (objValue alias : Str) :
    ∃ g : Frame → Frame, (∀ a b, g (a ++ b) = g a ++ g b) ∧
      (∀ fr, (ruleFrame E env r objKind objValue alias fr).abort = none → (ruleFrame E env r objKind objValue alias fr).frame = g fr) ∧
      (E.assign = .objectSeries → ∀ fr, (ruleFrame E env r objKind objValue alias fr).abort = none) := by
  -- the pipeline as a composition of steps
  have key : ∃ (f : RuleState → RuleState) (g : Frame → Frame), StepOK f g ∧
      (∀ fr, ruleFrame E env r objKind objValue alias fr = f { frame := fr }) ∧
      (E.assign = .objectSeries → ∀ st, st.abort = none → (f st).abort = none) := by
    have pos_noabort : E.assign = .objectSeries → ∀ pos kind value tt dt al (st : RuleState), st.abort = none →
        (positionStep E env pos kind value tt dt al st).abort = none := by
      intro hA pos kind value tt dt al st hst
      unfold positionStep posAborts
      simp [hst, hA]
    have s1 := stepOK_position E env sSubject r.subjectMapType r.subjectMapValue (some r.subjectTermtype) [] []
    have s2 := stepOK_position E env sPredicate r.predicateMapType r.predicateMapValue (some .iri) [] []
    have s3 := stepOK_position E env sObject objKind objValue (some r.objectTermtype) (litDatatype r) alias
    have s123 := (s1.comp s2).comp s3
    -- language / datatype map
    obtain ⟨fL, gL, hL, hLdef, hLa⟩ : ∃ (f : RuleState → RuleState) (g : Frame → Frame), StepOK f g ∧
        (∀ st, f st = (match r.langDatatype, r.langDatatypeMapType with
          | some .languageMap, some mt =>
            mapFrame (fun σ => setCol σ sObject (concatCells [getCol σ sObject, .str ['@'], getCol σ sLangDt]))
              (positionStep E env sLangDt mt r.langDatatypeMapValue
                (if mt = MapType.execution then E.shape.langTermtype else none) [] [] st)
          | some .datatypeMap, some mt =>
            mapFrame (fun σ => setCol σ sObject (concatCells [getCol σ sObject, .str ['^', '^'], getCol σ sLangDt]))
              (positionStep E env sLangDt mt r.langDatatypeMapValue (some .iri) [] [] st)
          | _, _ => st)) ∧
        (E.assign = .objectSeries → ∀ st, st.abort = none → (f st).abort = none) := by
      cases hl : r.langDatatype with
      | none => exact ⟨_, _, stepOK_id, fun st => rfl, fun _ st h => h⟩
      | some ld =>
        cases hm : r.langDatatypeMapType with
        | none => cases ld <;> exact ⟨_, _, stepOK_id, fun st => rfl, fun _ st h => h⟩
        | some mt =>
          cases ld with
          | languageMap =>
            exact ⟨_, _, (stepOK_position E env sLangDt mt r.langDatatypeMapValue
              (if mt = MapType.execution then E.shape.langTermtype else none) [] []).comp (stepOK_mapFrame _), fun st => rfl,
              fun hA st h => pos_noabort hA _ _ _ _ _ _ st h⟩
          | datatypeMap =>
            exact ⟨_, _, (stepOK_position E env sLangDt mt r.langDatatypeMapValue (some .iri) [] []).comp (stepOK_mapFrame _),
              fun st => rfl, fun hA st h => pos_noabort hA _ _ _ _ _ _ st h⟩
    have sT := stepOK_mapFrame (fun σ => setCol σ sTriple
      (concatCells [getCol σ sSubject, .str [' '], getCol σ sPredicate, .str [' '], getCol σ sObject]))
    have s1234 := (s123.comp hL).comp sT
    have na1234 : E.assign = .objectSeries → ∀ st : RuleState, st.abort = none →
        (mapFrame (fun σ => setCol σ sTriple
          (concatCells [getCol σ sSubject, .str [' '], getCol σ sPredicate, .str [' '], getCol σ sObject]))
          (fL (positionStep E env sObject objKind objValue (some r.objectTermtype) (litDatatype r) alias
            (positionStep E env sPredicate r.predicateMapType r.predicateMapValue (some .iri) [] []
              (positionStep E env sSubject r.subjectMapType r.subjectMapValue (some r.subjectTermtype) [] [] st))))).abort = none :=
      fun hA st h => hLa hA _ (pos_noabort hA _ _ _ _ _ _ _ (pos_noabort hA _ _ _ _ _ _ _ (pos_noabort hA _ _ _ _ _ _ st h)))
    cases hf : env.fmt with
    | ntriples =>
      refine ⟨_, _, s1234, fun fr => ?_, fun hA st h => na1234 hA st h⟩
      unfold ruleFrame
      simp only [hf, hLdef]
      try rfl
    | nquads =>
      by_cases hg : r.graphMapType = MapType.execution
      · have sG := stepOK_position E env sGraph MapType.execution r.graphMapValue (some .iri) [] []
        have sQ := stepOK_mapFrame (fun σ => setCol σ sTriple (concatCells [getCol σ sTriple, .str [' '], getCol σ sGraph]))
        refine ⟨_, _, (s1234.comp sG).comp sQ, fun fr => ?_, fun hA st h => pos_noabort hA _ _ _ _ _ _ _ (na1234 hA st h)⟩
        unfold ruleFrame
        simp only [hf, hLdef, hg, ↓reduceIte]
        try rfl
      · by_cases hd : r.graphMapValue ≠ env.defaultGraph
        · have sG := stepOK_position E env sGraph r.graphMapType r.graphMapValue (some .iri) [] []
          have sQ := stepOK_mapFrame (fun σ => setCol σ sTriple (concatCells [getCol σ sTriple, .str [' '], getCol σ sGraph]))
          refine ⟨_, _, (s1234.comp sG).comp sQ, fun fr => ?_, fun hA st h => pos_noabort hA _ _ _ _ _ _ _ (na1234 hA st h)⟩
          unfold ruleFrame
          simp only [hf, hLdef, hg, ↓reduceIte]
          rw [if_pos hd]
          try rfl
        · have sG := stepOK_mapFrame (fun σ => setCol σ sGraph (.str []))
          have sQ := stepOK_mapFrame (fun σ => setCol σ sTriple (concatCells [getCol σ sTriple, .str [' '], getCol σ sGraph]))
          refine ⟨_, _, (s1234.comp sG).comp sQ, fun fr => ?_, fun hA st h => na1234 hA st h⟩
          unfold ruleFrame
          simp only [hf, hLdef, hg, ↓reduceIte]
          rw [if_neg hd]
          try rfl
  obtain ⟨f, g, hfg, hdef, hna⟩ := key
  refine ⟨g, hfg.1, fun fr h => ?_, fun hA fr => ?_⟩
  · rw [hdef] at h ⊢
    exact (hfg.2 _ h).2
  · rw [hdef]; exact hna hA _ rfl

/-! ### C14_other_rules_indep — the outcome does not depend on the other rules of the mapping -/

/- How result columns are named: `data[fnml_execution] = exec_res` (step `assignResult`), i.e. by the id of the execution node
   (`?function_execution` of `FNML_PARSING_QUERY`).  Two executions share a column iff they are the same node; an execution is
   looked up by that id alone (`get_fnml_execution`).  So rows of the FNML table that belong to other execution ids never enter. -/

theorem rowsOf_append_fresh (df extra : FnmlDf) (id : Str) (h : ∀ r ∈ extra, r.exec ≠ id) : rowsOf (df ++ extra) id = rowsOf df id := by
  unfold rowsOf
  rw [List.filter_append]
  have : extra.filter (fun r => decide (r.exec = id)) = [] := List.filter_eq_nil_iff.mpr fun r hr => by simpa using h r hr
  rw [this, List.append_nil]

theorem innerPhase_congr (f g : Str → Frame → Frame) (rows : List FRow)
    (h : ∀ r ∈ rows, r.vtype = .execution → ∀ fr, f r.value fr = g r.value fr) (fr : Frame) :
    innerPhase f rows fr = innerPhase g rows fr := by
  induction rows generalizing fr with
  | nil => rfl
  | cons r rs ih =>
    simp only [innerPhase]
    by_cases hv : r.vtype = .execution
    · simp only [hv, ↓reduceIte]
      rw [h r (by simp) hv]
      exact ih (fun r' hr' => h r' (List.mem_cons_of_mem _ hr')) _
    · simp only [hv, ↓reduceIte]
      exact ih (fun r' hr' => h r' (List.mem_cons_of_mem _ hr')) _

theorem mem_mentioned_of_row {df : FnmlDf} {id : Str} {r : FRow} (hr : r ∈ rowsOf df id) (hv : r.vtype = .execution) :
    r.value ∈ mentioned df := by
  unfold mentioned
  rw [List.mem_flatMap]
  exact ⟨r, (List.mem_filter.mp hr).1, by simp [hv]⟩

/-- **C14_other_rules_indep.** Adding to the FNML table the inputs of OTHER executions (other rules of the mapping, other function
    maps of the same rule) — executions whose ids are not mentioned by the table — does not change what an execution of the table
    yields, for any function environment, statement order, nesting depth and frame. -/
theorem C14_other_rules_indep (env : FunEnv) (ord : NullOrder) (na : List Str) (df extra : FnmlDf)
    (hx : ∀ r ∈ extra, r.exec ∉ mentioned df) (n : Nat) (id : Str) (hid : ∀ r ∈ extra, r.exec ≠ id) (fr : Frame) :
    executeFnml env ord na (df ++ extra) n id fr = executeFnml env ord na df n id fr := by
  induction n generalizing id fr with
  | zero => simp only [executeFnml]
  | succ n ih =>
    rw [executeFnml, executeFnml, rowsOf_append_fresh df extra id hid]
    cases hr : rowsOf df id with
    | nil => rfl
    | cons r0 rs =>
      simp only
      have hin : ∀ fr, innerPhase (executeFnml env ord na (df ++ extra) n) (r0 :: rs) fr =
          innerPhase (executeFnml env ord na df n) (r0 :: rs) fr :=
        innerPhase_congr _ _ _ fun r hrm hv fr =>
          ih r.value (fun x hxm e => hx x hxm (e ▸ mem_mentioned_of_row (hr ▸ hrm) hv)) fr
      rw [hin]

/-- **C14_other_rules_indep_rule.** A rule that is not a referencing object map is evaluated without looking at the rule table at all:
    the other rules of the mapping cannot change its statements. -/
theorem C14_other_rules_indep_rule (E : FEnv) (env : Env) (rules rules' : List Rule) (r : Rule) (h : r.objectMapType ≠ .parentTM) :
    evalRuleF E env rules r = evalRuleF E env rules' r := by
  unfold evalRuleF
  simp only [h, ↓reduceIte]

-- non-vacuity: the hypotheses hold for a table with one execution and an unrelated second one
example :
    let df : FnmlDf := [{ exec := "e1".toList, fn := "f".toList, param := "p".toList, vtype := .reference, value := "c".toList }]
    let extra : FnmlDf := [{ exec := "e2".toList, fn := "f".toList, param := "p".toList, vtype := .constant, value := "k".toList }]
    (∀ r ∈ extra, r.exec ∉ mentioned df) ∧ (∀ r ∈ extra, r.exec ≠ "e1".toList) := by decide

/-! ### C14_partition_indep — corollary of C02: no partition mode changes the result -/

open Props.C02 in
theorem evalRuleF_relabel (E : FEnv) (env : Env) (rules : List Rule) (ls : List Str) (hl : ls.length = rules.length)
    (r : Rule) (l : Str) :
    evalRuleF E env (withLabels rules ls) (relabel r l) = evalRuleF E env rules r := by
  unfold evalRuleF
  have hc : isAllConstant (relabel r l) = isAllConstant r := rfl
  have hm : (relabel r l).objectMapType = r.objectMapType := rfl
  have hv : (relabel r l).objectMapValue = r.objectMapValue := rfl
  have hj : (relabel r l).objectJoin = r.objectJoin := rfl
  have hrefs : refsOfRuleF E (relabel r l) = refsOfRuleF E r := rfl
  have ht : env.table (relabel r l) = env.table r := rfl
  have hrun : runRule E env (relabel r l) = runRule E env r := rfl
  simp only [hc, hm, hv, hj, hrefs, ht, hrun]
  split
  · rfl
  · split
    · rcases findRule_withLabels rules ls hl r.objectMapValue with ⟨h1, h2⟩ | ⟨p, l', h1, h2⟩
      · rw [h1, h2]
      · rw [h1, h2]
        rfl
    · rfl

open Lemmas.FnmlGroup Props.C02 in
/-- **C14_partition_indep.** For mappings with function-valued term maps: whatever labels the partitioner attaches to the rules (NO,
    PARTIAL-AGGREGATIONS, MAXIMAL or any other labelling), the group-by-group run of `materialize_set` raises iff the plain union
    over the rules raises, and otherwise has the same members.  Hence any two partition modes give the same result. -/
theorem C14_partition_indep (E : FEnv) (env : Env) (rules : List Rule) (ls ls' : List Str)
    (hl : ls.length = rules.length) (hl' : ls'.length = rules.length) :
    Same (evalGroupedF E env (withLabels rules ls)) (evalAllF E env rules) ∧
    Same (evalGroupedF E env (withLabels rules ls)) (evalGroupedF E env (withLabels rules ls')) := by
  have one : ∀ ls : List Str, ls.length = rules.length →
      Same (evalGroupedF E env (withLabels rules ls)) (evalAllF E env rules) := by
    intro ls hl
    have hg : evalGroupedF E env (withLabels rules ls) =
        unionGrouped (fun r => (evalRuleF E env (withLabels rules ls) r).toExcept) (withLabels rules ls) := rfl
    have ha : evalAllF E env rules = unionAll (fun r => (evalRuleF E env rules r).toExcept) rules := rfl
    rw [hg, ha]
    refine (grouped_same_all _ _).trans (unionAll_same_of_corr _ _ _ _ ?_ ?_)
    · intro r' hr'
      have hr'' := List.mem_filter.mp hr'
      obtain ⟨r, hr, l, rfl⟩ := mem_withLabels rules ls hl r' hr''.1
      exact ⟨r, List.mem_filter.mpr ⟨hr, hr''.2⟩, by rw [evalRuleF_relabel E env rules ls hl]⟩
    · intro r hr
      have hr' := List.mem_filter.mp hr
      obtain ⟨l, hmem⟩ := exists_mem_withLabels rules ls hl r hr'.1
      exact ⟨relabel r l, List.mem_filter.mpr ⟨hmem, hr'.2⟩, by rw [evalRuleF_relabel E env rules ls hl]⟩
  exact ⟨one ls hl, (one ls hl).trans (one ls' hl').symm⟩

/-! ### C14_term — the term built from a function result -/

/-- **C14_term.** For a `str` result `s`, at the FNML site as generated: IRI `<s.strip()>`, blank node `_:s`, literal `"…"` around the
    escaped canonical lexical form, which always exists (C15) and, for every datatype other than xsd:boolean / dateTime / integer, is the
    generated escape chain applied to `s`. -/
theorem C14_term (s dt : Str) :
    fnmlTerm Gen.canonSiteFnml Gen.siteShape.rawElse (some .iri) dt (.str s) = .str (['<'] ++ pyStrip s ++ ['>']) ∧
    fnmlTerm Gen.canonSiteFnml Gen.siteShape.rawElse (some .bnode) dt (.str s) = .str (['_', ':'] ++ s) ∧
    (∃ l, literalLex Gen.canonSiteFnml dt s = .ok l ∧ fnmlTerm Gen.canonSiteFnml Gen.siteShape.rawElse (some .literal) dt (.str s) = .str (quoteLit l)) ∧
    (dt ≠ Spec.xsdBoolean → dt ≠ Spec.xsdDateTime → dt ≠ Spec.xsdInteger →
      fnmlTerm Gen.canonSiteFnml Gen.siteShape.rawElse (some .literal) dt (.str s) = .str (quoteLit (applyChain Gen.canonSiteFnml.escapeChain s))) := by
  have hm : Gen.canonSiteFnml ∈ Gen.canonSites := by simp [Gen.canonSites]
  refine ⟨rfl, rfl, ?_, fun hb hd hi => ?_⟩
  · obtain ⟨l, hl⟩ := Props.C15.C15_no_abort_literal _ hm dt s
    exact ⟨l, hl, by simp [fnmlTerm, hl]⟩
  · have := (Props.C15.C15_identity _ hm dt s hb hd hi).2
    simp [fnmlTerm, this]

/-! ### counter-witnesses for the code as it is -/

/-- a function environment whose every call returns `v` (zero-argument function) -/
def constEnv (v : PyVal) : FunEnv := { sigs := fun _ => some [], call := fun _ _ => v }

def dfE : FnmlDf := [{ exec := "e".toList, fn := "f".toList, param := "None".toList, vtype := .other, value := "None".toList }]
def rowX : FR := [("c".toList, .str "x".toList)]
def naDefault : List Str := [[], "nan".toList]

/-- **C14_F1** (empty list).  NULL removal before `explode`: a row whose function returns `[]` survives with a NaN cell, where the
    specification yields nothing for it.  (UDF `return []`; replay in known_findings.json.) -/
theorem C14_F1_empty_list :
    executeFnml (constEnv (.list [])) .dropnaThenExplode naDefault dfE 1 "e".toList [rowX]
      = [[("e".toList, .null "nan".toList), ("c".toList, .str "x".toList)]] ∧
    [rowX].flatMap (execRow (constEnv (.list [])) naDefault dfE 1 "e".toList) = [] ∧
    executeFnml (constEnv (.list [])) .explodeThenDropna naDefault dfE 1 "e".toList [rowX] = [] := by decide

/-- **C14_F1** (list with `None`, NA token in a list): `['a', None]` leaves a `None` cell; `['a', '']` keeps the NA token `''` as a value -/
theorem C14_F1_list_with_none :
    executeFnml (constEnv (.list [.str "a".toList, .null "None".toList])) .dropnaThenExplode naDefault dfE 1 "e".toList [rowX]
      = [[("e".toList, .str "a".toList), ("c".toList, .str "x".toList)], [("e".toList, .null "None".toList), ("c".toList, .str "x".toList)]] ∧
    [rowX].flatMap (execRow (constEnv (.list [.str "a".toList, .null "None".toList])) naDefault dfE 1 "e".toList)
      = [[("e".toList, .str "a".toList), ("c".toList, .str "x".toList)]] ∧
    (executeFnml (constEnv (.list [.str "a".toList, .str []])) .dropnaThenExplode naDefault dfE 1 "e".toList [rowX]).length = 2 ∧
    ([rowX].flatMap (execRow (constEnv (.list [.str "a".toList, .str []])) naDefault dfE 1 "e".toList)).length = 1 := by decide

/-- **C14_F1** (what the NULL cell becomes): a float `nan` member of the result set for literals and blank nodes, `AttributeError` for
    IRIs, the text `nan` under xsd:integer -/
theorem C14_F1_iri_aborts :
    fnmlTerm Gen.canonSiteFnml Gen.siteShape.rawElse (some .iri) [] (.null "nan".toList) = .exc "AttributeError".toList ∧
    fnmlTerm Gen.canonSiteFnml Gen.siteShape.rawElse (some .literal) [] (.null "nan".toList) = .null "nan".toList ∧
    fnmlTerm Gen.canonSiteFnml Gen.siteShape.rawElse (some .bnode) [] (.null "nan".toList) = .null "nan".toList ∧
    fnmlTerm Gen.canonSiteFnml Gen.siteShape.rawElse (some .literal) Spec.xsdInteger (.null "nan".toList) = .str "\"nan\"".toList := by decide +kernel


/-! ### C14_F3 … C14_F6 -/

def strEnv : FunEnv := constEnv (.atom (.str "v".toList))

/-- a rule `<http://s> <http://p> f()` whose object map is the execution `e` (literal, no datatype) -/
def ruleObjFn : Rule :=
  { subjectMapType := .constant, subjectMapValue := "http://s".toList, predicateMapType := .constant, predicateMapValue := "http://p".toList,
    objectMapType := .execution, objectMapValue := "e".toList, objectTermtype := .literal, graphMapValue := "http://w3id.org/rml/defaultGraph".toList }

def fenvOf (assign : AssignShape) (env : FunEnv) : FEnv :=
  { fun_ := env, ord := .dropnaThenExplode, assign := assign, df := dfE, site := Gen.canonSiteFnml, shape := Gen.siteShape, fuel := 4 }

/-- **C14_F3.** A rule with a function-valued term map evaluated on a frame WITHOUT ROWS (empty source, every row NULL in a referenced
    column, or every row removed by an earlier NULL function result): with the result column assigned from a plain list the run
    aborts (float64 column, `.str` accessor / string concatenation raise); with an object Series it yields no statement, as the
    row-by-row reading demands.  `Gen.assignShape` says which of the two the tree has now. -/
theorem C14_F3_empty_frame :
    runRule (fenvOf .plainList strEnv) {} ruleObjFn .execution "e".toList [] [] = .abort "emptyFrame".toList ∧
    runRule (fenvOf .objectSeries strEnv) {} ruleObjFn .execution "e".toList [] [] = .ok [] ∧
    runRule (fenvOf .plainList strEnv) {} ruleObjFn .execution "e".toList [] [rowX] = .ok [some "<http://s> <http://p> \"v\"".toList] ∧
    -- an earlier NULL result empties the frame too: the subject function returns None for the only row
    runRule (fenvOf .plainList (constEnv (.atom (.null "None".toList)))) {}
      { ruleObjFn with subjectMapType := .execution, subjectMapValue := "e".toList } .constant "o".toList [] [rowX] = .ok [] ∧
    (Gen.assignShape = .plainList ∨ Gen.assignShape = .objectSeries) := by
  refine ⟨by decide +kernel, by decide +kernel, by decide +kernel, by decide +kernel, by decide⟩

/-- **C14_F4.** A function-valued LANGUAGE map.  As generated: EITHER `_materialize_fnml_execution` is called without `termtype`, whose
    default is the literal one, so the tag is escaped and wrapped in quotes and the object becomes `"v"@"en"` (not a literal of any
    RDF syntax); OR (after the repair) the call passes `termtype=''`, the ladder has an `else` branch that takes the value as it
    is, and the object is `"v"@en`. -/
theorem C14_F4_language_map :
    (Gen.siteShape.langTermtype = some .literal ∧
      fnmlTerm Gen.canonSiteFnml Gen.siteShape.rawElse Gen.siteShape.langTermtype [] (.str "en".toList) = .str "\"en\"".toList ∧
      concatCells [.str "\"v\"".toList, .str ['@'],
        fnmlTerm Gen.canonSiteFnml Gen.siteShape.rawElse Gen.siteShape.langTermtype [] (.str "en".toList)] = .str "\"v\"@\"en\"".toList) ∨
    (Gen.siteShape.langTermtype = none ∧ Gen.siteShape.rawElse = true ∧
      ∀ tag : Str, concatCells [.str "\"v\"".toList, .str ['@'],
        fnmlTerm Gen.canonSiteFnml Gen.siteShape.rawElse Gen.siteShape.langTermtype [] (.str tag)] = .str ("\"v\"@".toList ++ tag)) := by
  first
    | exact Or.inl ⟨by decide, by decide +kernel, by decide +kernel⟩
    | exact Or.inr ⟨by decide, by decide, fun tag => by simp [fnmlTerm, concatCells, Atom.isExc, Gen.siteShape]⟩

/-- **C14_F5.** A result that is not a `str` (an `int`, `float`, `bool`, …): every branch of the term construction raises or produces NaN
    except the literal branch under xsd:integer, whose ladder entry starts with `.astype(str)`.  The built-in `grel:string_indexOf`
    returns such a value (`C14_builtin_index_of`). -/
theorem C14_F5_non_str :
    fnmlTerm Gen.canonSiteFnml Gen.siteShape.rawElse (some .literal) [] (.other "3".toList) = .exc "nonStr".toList ∧
    fnmlTerm Gen.canonSiteFnml Gen.siteShape.rawElse (some .iri) [] (.other "3".toList) = .exc "nonStr".toList ∧
    fnmlTerm Gen.canonSiteFnml Gen.siteShape.rawElse (some .bnode) [] (.other "3".toList) = .exc "nonStr".toList ∧
    fnmlTerm Gen.canonSiteFnml Gen.siteShape.rawElse (some .literal) Spec.xsdInteger (.other "3".toList) = .str "\"3\"".toList := by decide +kernel

/-- the function environment of `C14_F6`: one function `f(x)` returning `http://ex/` followed by its argument -/
def identEnv : FunEnv :=
  { sigs := fun _ => some [("x".toList, "px".toList)],
    call := fun _ args => match args with | [(_, .str s)] => .atom (.str ("http://ex/".toList ++ s)) | _ => .atom (.exc "TypeError".toList) }

def dfIdent : FnmlDf := [{ exec := "e".toList, fn := "f".toList, param := "px".toList, vtype := .reference, value := "v".toList }]

def childRule : Rule :=
  { sourceName := "DS".toList, tmId := "child".toList, logicalSourceValue := "c.csv".toList,
    subjectMapType := .constant, subjectMapValue := "http://s".toList, predicateMapType := .constant, predicateMapValue := "http://p".toList,
    objectMapType := .parentTM, objectMapValue := "parent".toList, objectTermtype := .iri, objectJoin := [("v".toList, "k".toList)],
    graphMapValue := "http://w3id.org/rml/defaultGraph".toList }

def parentRule : Rule :=
  { sourceName := "DS".toList, tmId := "parent".toList, logicalSourceValue := "p.csv".toList, asserted := false,
    subjectMapType := .execution, subjectMapValue := "e".toList, subjectTermtype := .iri }

def joinEnv : Env :=
  { tables := [(("DS".toList, "c.csv".toList), [[("v".toList, .str "1".toList)]]),
               (("DS".toList, "p.csv".toList), [[("k".toList, .str "1".toList), ("v".toList, .str "PARENT".toList)]])] }

/-- **C14_F6.** Referencing object map whose parent triples map has a function-valued subject map: `_materialize_fnml_execution` takes no
    column alias (`Gen.siteShape.aliasAware = false`), so the parent's function `f(v)` reads the CHILD's column `v` (here `1`, the join
    key) where the parent's row holds `PARENT`: the object is `<http://ex/1>` instead of `<http://ex/PARENT>`. -/
theorem C14_F6_parent_function_reads_child :
    Gen.siteShape.aliasAware = false ∧
    evalRuleF { fun_ := identEnv, ord := .explodeThenDropna, assign := .objectSeries, df := dfIdent, site := Gen.canonSiteFnml,
                shape := Gen.siteShape, fuel := 4 } joinEnv [childRule, parentRule] childRule
      = .ok [some "<http://s> <http://p> <http://ex/1>".toList] := by
  refine ⟨by decide, by decide +kernel⟩

/-! ### non-vacuity of the hypotheses -/

/-- `ParamsDistinct` only concerns the execution ids that occur in the table: it is decidable -/
theorem paramsDistinct_iff (df : FnmlDf) :
    ParamsDistinct df ↔ ∀ id ∈ df.map (·.exec), ((rowsOf df id).map (·.param)).Nodup := by
  constructor
  · exact fun h id _ => h id
  · intro h id
    by_cases hm : id ∈ df.map (·.exec)
    · exact h id hm
    · have : rowsOf df id = [] := by
        unfold rowsOf
        exact List.filter_eq_nil_iff.mpr fun r hr => by
          simp only [decide_eq_true_eq]
          intro e
          exact hm (List.mem_map.mpr ⟨r, hr, e⟩)
      rw [this]; exact List.nodup_nil

/-- `f(px := g(px := v), py := c)`: a two-level table whose two executions use the same parameter IRI `px` -/
def df2 : FnmlDf :=
  [{ exec := "e1".toList, fn := "f".toList, param := "px".toList, vtype := .execution, value := "e2".toList },
   { exec := "e1".toList, fn := "f".toList, param := "py".toList, vtype := .constant, value := "K".toList },
   { exec := "e2".toList, fn := "g".toList, param := "px".toList, vtype := .reference, value := "c".toList }]

/-- `g` splits its argument into its characters (a list result), `f(x, y)` is `x ++ "-" ++ y` -/
def env2 : FunEnv :=
  { sigs := fun f => if f = "f".toList then some [("y".toList, "py".toList), ("x".toList, "px".toList)] else some [("x".toList, "px".toList)],
    call := fun f args =>
      if f = "g".toList then (match args with | [(_, .str s)] => .list (s.map fun c => .str [c]) | _ => .atom (.exc "TypeError".toList))
      else match lookup "x".toList args, lookup "y".toList args with
        | some (.str x), some (.str y) => .atom (.str (x ++ ['-'] ++ y))
        | _, _ => .atom (.exc "TypeError".toList) }

example : ParamsDistinct df2 := by rw [paramsDistinct_iff]; decide
example : scopeF1Row bindArgs env2 naDefault df2 2 "e1".toList [("c".toList, .str "ab".toList)] = false := by decide
-- the nested list is spread first, `f` is applied to each element together with the constant of the same row
example : (executeFnml env2 .dropnaThenExplode naDefault df2 2 "e1".toList [[("c".toList, .str "ab".toList)]]).map (fun σ => getCol σ "e1".toList)
    = [.str "a-K".toList, .str "b-K".toList] := by decide
example : vals env2 naDefault df2 2 "e1".toList [("c".toList, .str "ab".toList)] = [.str "a-K".toList, .str "b-K".toList] := by decide
-- hypotheses of C14_leaf / C14_nested_one on this table
example : rowsOf df2 "e2".toList = [df2[2]] ∧ (∀ r ∈ [df2[2]], r.vtype ≠ .execution) := by decide
example : (rowsOf df2 "e1".toList).filter (fun x => x.vtype = .execution) = [df2[0]] := by decide
-- hypothesis of C14_other_rules_indep: a further execution `e3` of the same function `g`
example : ∀ r ∈ ([{ exec := "e3".toList, fn := "g".toList, param := "px".toList, vtype := .constant, value := "zz".toList }] : FnmlDf),
    r.exec ∉ mentioned df2 ∧ r.exec ≠ "e1".toList := by decide

end Props.C14
