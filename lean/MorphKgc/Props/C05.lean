/-
C05 — Every emitted line is valid N-Triples/N-Quads(-star) and round-trips the data.

The escape chains are regenerated from materializer.py on every run (`Gen/Escape.lean`): the side
condition `ChainOK` is decided on what the code says now, and the round-trip theorem holds for *any*
chain satisfying it — for every Unicode string of every length.
-/
import MorphKgc.Gen.Escape
import MorphKgc.Lemmas.Escape
import MorphKgc.Lemmas.Pct
import MorphKgc.Lemmas.SpecNQ
import MorphKgc.Props.C01

namespace Props.C05
open Py Model Spec

/-! ### literals -/

/-- side condition on the generated chains, decided completely -/
theorem chainOK_template : ChainOK Gen.escapeChainTemplate = true := by decide +kernel
theorem chainOK_fnml : ChainOK Gen.escapeChainFnml = true := by decide +kernel

/-- Parsing an escaped literal body back yields the source value character for character, and the body is a
    valid `STRING_LITERAL_QUOTE` body (`lexBody` rejects raw quotes, backslashes, LF and CR). -/
theorem C05_escape_roundtrip (v : Str) : lexBody (applyChain Gen.escapeChainTemplate v) = some v :=
  chainOK_roundtrip chainOK_template v

theorem C05_escape_roundtrip_fnml (v : Str) : lexBody (applyChain Gen.escapeChainFnml v) = some v :=
  chainOK_roundtrip chainOK_fnml v

/-- both sites escape identically -/
theorem C05_sites_agree : Gen.escapeChainFnml = Gen.escapeChainTemplate := by decide +kernel

/-- the literal term built by `_materialize_template` for a reference-valued literal map: delimiters from the
    generated ladder around the escaped value; its body decodes to the value -/
theorem C05_literal_term (cfg : TermCfg) (hcfg : cfg.escapeChain = Gen.escapeChainTemplate)
    (hnp : cfg.nonPrintable = none) (hcanon : ∀ d v, cfg.canon d v = v) (v dt : Str) :
    ∃ body, wrapTerm (some .literal) (transformValue cfg false (some .literal) dt v) = ['"'] ++ body ++ ['"']
      ∧ lexBody body = some v := by
  refine ⟨applyChain Gen.escapeChainTemplate v, ?_, C05_escape_roundtrip v⟩
  simp [wrapTerm, transformValue, hcfg, hnp, hcanon]

/-- the delimiters the code uses are those of the grammar -/
theorem C05_delims : Gen.delim_iri = (['<'], ['>']) ∧ Gen.delim_bnode = (['_', ':'], []) ∧ Gen.delim_literal = (['"'], ['"']) := by
  decide +kernel

/-- counter-witness kept as documentation of what `ChainOK` excludes: quotes escaped before backslashes -/
example : ChainOK [(['"'], ['\\', '"']), (['\\'], ['\\', '\\']), (['\n'], ['\\', 'n']), (['\r'], ['\\', 'r'])] = false := by
  decide +kernel
example : lexBody (applyChain [(['"'], ['\\', '"']), (['\\'], ['\\', '\\'])] ['"']) ≠ some ['"'] := by decide +kernel

/-! ### template-valued IRIs -/

/-- percent-decoding the encoded value gives the source value, for every string, whenever `%` is not configured
    as safe -/
theorem C05_pct_roundtrip (safe : Str) (hs : safe.contains '%' = false) (v : Str) :
    pctDecode (pctEncode safe v) = some v := pctDecode_pctEncode safe hs v

/-- only RFC 3986 unreserved characters plus the configured safe set stay unencoded -/
theorem C05_pct_alphabet (safe v : Str) :
    ∀ c ∈ pctEncode safe v, isUnreserved c = true ∨ safe.contains c = true ∨ c = '%' ∨ ("0123456789ABCDEF".toList.contains c) = true :=
  pctEncode_alphabet safe v

/-- the encoded value can never break out of `<…>` -/
theorem C05_pct_valid_iri (safe : Str) (hsafe : safe.all isIriChar = true) (v : Str) :
    IsIriBody (pctEncode safe v) = true := pctEncode_isIriBody safe hsafe v

/-- non-vacuity: a value with every kind of dangerous character -/
example : pctDecode (pctEncode [] "a b>\"é{".toList) = some "a b>\"é{".toList := C05_pct_roundtrip [] (by decide) _
example : pctEncode [] "a b>".toList = "a%20b%3E".toList := by decide +kernel


/-! ### whole lines: every emitted statement is in the grammar and is read back (all documents of the scope, all tables)

`Spec.GrammarOK` (decidable, `Lemmas/SpecNQ.lean`) is the scope: it excludes exactly the recorded findings C05_F1
(reference-valued IRIs), C05_F2 (data-derived blank-node labels), RDF-star term maps, and mappings whose own constants,
language tags or datatype IRIs are outside the grammar.  `NQ.parseLine` is the verified N-Quads(-star) lexer of
`Spec/NQuads.lean`; `term` is the terminator a writer or loader appends (`.` or ` .`). -/

/-- **Generation rules.** Every string the rules produce for a document of the scope, closed by the terminator, is a line
    of the N-Triples / N-Quads grammar, and parsing it returns a well-formed statement whose engine-shaped rendering is
    that string (so two different statements never share a line and no line denotes two statements). -/
theorem C05_rules_lines_valid (senv : SEnv) (doc : Doc) (hok : GrammarOK senv doc = true) (line : Str)
    (hl : line ∈ evalDoc senv doc) {term : Str} (hterm : NQ.TermOK term) :
    ∃ st : NQ.Stmt, NQ.wfStmt st = true ∧ NQ.parseLine (line ++ term) = some st ∧
      line = NQ.renderStmtBody (shapeOf senv.fmt) st := by
  obtain ⟨st, hwf, hg, rfl⟩ := evalDoc_wf senv doc hok line hl
  exact ⟨st, hwf, NQ.parseLine_body _ st hwf hg hterm, rfl⟩

/-- **Engine.** For every document of the core fragment (C01) inside the grammar scope and all tables satisfying the reader
    guarantees, the engine does not raise and every line it emits is valid and is read back. -/
theorem C05_engine_lines_valid_partial {env : Env} {senv : SEnv} (henv : EnvOK env senv) (hn : NamesOK senv) (doc : Doc)
    (hfrag : Props.C01.FragmentOK senv doc = true) (htab : Props.C01.TablesOK senv doc = true)
    (hF4 : Props.C01.NoF4 senv doc = true) (hok : GrammarOK senv doc = true) {term : Str} (hterm : NQ.TermOK term) :
    ∃ out, evalAll env (normalizeDoc doc) = .ok out ∧
      ∀ line ∈ out, ∃ st : NQ.Stmt, NQ.wfStmt st = true ∧ NQ.parseLine (line ++ term) = some st ∧
        line = NQ.renderStmtBody (shapeOf senv.fmt) st := by
  obtain ⟨out, hout, hiff⟩ := Props.C01.C01_refinement_partial henv hn doc hfrag htab hF4
  exact ⟨out, hout, fun line hl => C05_rules_lines_valid senv doc hok line ((hiff line).mp hl) hterm⟩

/-- distinct statements print distinct lines (the renderer is injective on well-formed statements of one shape) -/
theorem C05_lines_injective (sh : NQ.Shape) (st st' : NQ.Stmt) (hw : NQ.wfStmt st = true) (hw' : NQ.wfStmt st' = true)
    (hg : sh = .triple → st.g = none) (hg' : sh = .triple → st'.g = none)
    (h : NQ.renderStmtBody sh st = NQ.renderStmtBody sh st') : st = st' := by
  have a := NQ.parseLine_body sh st hw hg (Or.inl rfl)
  have b := NQ.parseLine_body sh st' hw' hg' (Or.inl rfl)
  rw [h, b] at a
  exact (Option.some.inj a).symm

/-- **Round trip of the data (literals).** For a reference-valued literal object map, the parsed object of every
    generated statement is a literal whose lexical form is the cell, character for character, with the declared
    language tag or datatype. -/
theorem C05_literal_is_cell (senv : SEnv) (doc : Doc) (hdoc : ∀ t ∈ doc.tms, SubjGOK senv.safe t.subject = true)
    (tm : TriplesMap) (ρ : Row) (gs : List TermMap) (p om : TermMap)
    (hs : SubjGOK senv.safe tm.subject = true) (hp : PredGOK senv.safe p = true) (ho : TMGrammarOK senv.safe om = true)
    (hgs : gs.all (GraphGOK senv.safe senv.defaultGraph) = true)
    (hk : om.kind = .reference) (hlit : om.termType = .literal)
    (line : Str) (hl : line ∈ stmtsFor senv doc tm ρ gs p (.term om)) {term : Str} (hterm : NQ.TermOK term) :
    ∃ st : NQ.Stmt, NQ.parseLine (line ++ term) = some st ∧
      ∃ v, valueOf senv.na ρ om.value = some v ∧ st.o = .lit v (litKindOf om) := by
  obtain ⟨st, hwf, hg, rfl, _, _, hobj⟩ := stmtsFor_wf senv doc hdoc tm ρ gs p (.term om) hs hp (by simpa [ObjGOK] using ho) hgs line hl
  refine ⟨st, NQ.parseLine_body _ st hwf hg hterm, ?_⟩
  obtain ⟨v, hv, hst⟩ := hobj
  refine ⟨v, ?_, by simpa [toNQ, hlit] using hst⟩
  simpa [genValue, hk] using hv

/-- **Round trip of the data (template IRIs).** For a subject template `pre{c}suf` of term type IRI, the parsed subject
    of every generated statement is the IRI `pre ++ enc ++ suf` where `enc` percent-decodes to the cell. -/
theorem C05_template_iri_decodes (senv : SEnv) (hsafe : senv.safe.contains '%' = false) (doc : Doc)
    (hdoc : ∀ t ∈ doc.tms, SubjGOK senv.safe t.subject = true)
    (tm : TriplesMap) (ρ : Row) (gs : List TermMap) (p : TermMap) (o : ObjMap) (pre c suf : Str)
    (hsub : tm.subject = { kind := .template, tpl := ⟨pre, [(c, suf)]⟩, termType := .iri })
    (hs : SubjGOK senv.safe tm.subject = true) (hp : PredGOK senv.safe p = true) (ho : ObjGOK senv.safe o = true)
    (hgs : gs.all (GraphGOK senv.safe senv.defaultGraph) = true)
    (line : Str) (hl : line ∈ stmtsFor senv doc tm ρ gs p o) {term : Str} (hterm : NQ.TermOK term) :
    ∃ st : NQ.Stmt, NQ.parseLine (line ++ term) = some st ∧
      ∃ v enc, valueOf senv.na ρ c = some v ∧ st.s = .iri (pre ++ enc ++ suf) ∧ pctDecode enc = some v := by
  obtain ⟨st, hwf, hg, rfl, ⟨sv, hsv, hst⟩, _, _⟩ := stmtsFor_wf senv doc hdoc tm ρ gs p o hs hp ho hgs line hl
  refine ⟨st, NQ.parseLine_body _ st hwf hg hterm, ?_⟩
  rw [hsub] at hsv hst
  simp only [genValue, List.foldl_cons, List.foldl_nil, if_true] at hsv
  cases hv : valueOf senv.na ρ c with
  | none => simp [hv] at hsv
  | some v =>
    simp only [hv, Option.some.injEq] at hsv
    subst hsv
    exact ⟨v, pctEncode senv.safe v, rfl, by simpa [toNQ] using hst, pctDecode_pctEncode senv.safe hsafe v⟩

/-- non-vacuity: the example document of C01 (template IRIs, a language-tagged reference literal with quotes in the data, a
    typed template literal, a template graph map, a class) lies inside the scope, and its lines are read back -/
example : GrammarOK Props.C01.Ex.senv Props.C01.Ex.doc = true := by decide +kernel
example : ∃ out, evalAll Props.C01.Ex.env (normalizeDoc Props.C01.Ex.doc) = .ok out ∧
    ∀ line ∈ out, ∃ st : NQ.Stmt, NQ.wfStmt st = true ∧ NQ.parseLine (line ++ ['.']) = some st ∧
      line = NQ.renderStmtBody (shapeOf Props.C01.Ex.senv.fmt) st :=
  C05_engine_lines_valid_partial Props.C01.Ex.envOK Props.C01.Ex.namesOK _ Props.C01.Ex.fragmentOK Props.C01.Ex.tablesOK
    Props.C01.Ex.noF4 (by decide +kernel) (Or.inl rfl)

/-- what the scope excludes, on the rules' side: a reference-valued IRI whose cell holds `>` leaves the grammar -/
theorem C05_F1_line_not_parsed :
    NQ.parseLine ("<a>b> <http://ex/p> <http://ex/o>".toList ++ ['.']) = none := by decide +kernel

/-! ### what is *not* true of the unchanged code (counter-witness theorems; see known_findings.json) -/

/-- C05_F1: a reference-valued IRI is emitted verbatim: the value `a>b` yields `<a>b>` -/
theorem C05_F1_reference_iri_not_encoded :
    materializeTemplate {} .reference ['c'] (some .iri) [] [] (fun _ => some ['a', '>', 'b'])
      = .ok ['<', 'a', '>', 'b', '>'] := by
  decide +kernel

/-- … whereas the same value through a template is encoded -/
theorem C05_template_iri_encoded :
    materializeTemplate {} .template ['{', 'c', '}'] (some .iri) [] [] (fun _ => some ['a', '>', 'b'])
      = .ok "<a%3Eb>".toList := by
  decide +kernel

/-- C05_F2: blank-node labels are `_:` followed by the raw value -/
theorem C05_F2_bnode_label_raw :
    materializeTemplate {} .template ['b', '{', 'c', '}'] (some .bnode) [] [] (fun _ => some ['x', ' ', 'y'])
      = .ok "_:bx y".toList := by
  decide +kernel

end Props.C05
