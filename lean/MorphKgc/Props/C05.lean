/-
C05 — Every emitted line is valid N-Triples/N-Quads(-star) and round-trips the data.

The escape chains are regenerated from materializer.py on every run (`Gen/Escape.lean`): the side
condition `ChainOK` is decided on what the code says now, and the round-trip theorem holds for *any*
chain satisfying it — for every Unicode string of every length.
-/
import MorphKgc.Gen.Escape
import MorphKgc.Lemmas.Escape
import MorphKgc.Lemmas.Pct

namespace Props.C05
open Py Model Spec

/-! ### literals -/

/-- side condition on the generated chains, decided completely -/
theorem chainOK_template : ChainOK Gen.escapeChainTemplate = true := by decide +kernel
theorem chainOK_fnml : ChainOK Gen.escapeChainFnml = true := by decide +kernel

/-- Parsing an escaped literal body back yields the source value character for character, and the body is a
    valid `STRING_LITERAL_QUOTE` body (`lexBody` rejects raw quotes, backslashes, LF and CR). -/
theorem C05_escape_roundtrip (v : Str) : lexBody (applyChain Gen.escapeChainTemplate v) = some v :=
  chainOK_roundtrip chainOK_template v

theorem C05_escape_roundtrip_fnml (v : Str) : lexBody (applyChain Gen.escapeChainFnml v) = some v :=
  chainOK_roundtrip chainOK_fnml v

/-- both sites escape identically -/
theorem C05_sites_agree : Gen.escapeChainFnml = Gen.escapeChainTemplate := by decide +kernel

/-- the literal term built by `_materialize_template` for a reference-valued literal map: delimiters from the
    generated ladder around the escaped value; its body decodes to the value -/
theorem C05_literal_term (cfg : TermCfg) (hcfg : cfg.escapeChain = Gen.escapeChainTemplate)
    (hnp : cfg.nonPrintable = none) (hcanon : ∀ d v, cfg.canon d v = v) (v dt : Str) :
    ∃ body, wrapTerm (some .literal) (transformValue cfg false (some .literal) dt v) = ['"'] ++ body ++ ['"']
      ∧ lexBody body = some v := by
  refine ⟨applyChain Gen.escapeChainTemplate v, ?_, C05_escape_roundtrip v⟩
  simp [wrapTerm, transformValue, hcfg, hnp, hcanon]

/-- the delimiters the code uses are those of the grammar -/
theorem C05_delims : Gen.delim_iri = (['<'], ['>']) ∧ Gen.delim_bnode = (['_', ':'], []) ∧ Gen.delim_literal = (['"'], ['"']) := by
  decide +kernel

/-- counter-witness kept as documentation of what `ChainOK` excludes: quotes escaped before backslashes -/
example : ChainOK [(['"'], ['\\', '"']), (['\\'], ['\\', '\\']), (['\n'], ['\\', 'n']), (['\r'], ['\\', 'r'])] = false := by
  decide +kernel
example : lexBody (applyChain [(['"'], ['\\', '"']), (['\\'], ['\\', '\\'])] ['"']) ≠ some ['"'] := by decide +kernel

/-! ### template-valued IRIs -/

/-- percent-decoding the encoded value gives the source value, for every string, whenever `%` is not configured
    as safe -/
theorem C05_pct_roundtrip (safe : Str) (hs : safe.contains '%' = false) (v : Str) :
    pctDecode (pctEncode safe v) = some v := pctDecode_pctEncode safe hs v

/-- only RFC 3986 unreserved characters plus the configured safe set stay unencoded -/
theorem C05_pct_alphabet (safe v : Str) :
    ∀ c ∈ pctEncode safe v, isUnreserved c = true ∨ safe.contains c = true ∨ c = '%' ∨ ("0123456789ABCDEF".toList.contains c) = true :=
  pctEncode_alphabet safe v

/-- the encoded value can never break out of `<…>` -/
theorem C05_pct_valid_iri (safe : Str) (hsafe : safe.all isIriChar = true) (v : Str) :
    IsIriBody (pctEncode safe v) = true := pctEncode_isIriBody safe hsafe v

/-- non-vacuity: a value with every kind of dangerous character -/
example : pctDecode (pctEncode [] "a b>\"é{".toList) = some "a b>\"é{".toList := C05_pct_roundtrip [] (by decide) _
example : pctEncode [] "a b>".toList = "a%20b%3E".toList := by decide +kernel

/-! ### what is *not* true of the unchanged code (counter-witness theorems; see known_findings.json) -/

/-- C05_F1: a reference-valued IRI is emitted verbatim: the value `a>b` yields `<a>b>` -/
theorem C05_F1_reference_iri_not_encoded :
    materializeTemplate {} .reference ['c'] (some .iri) [] [] (fun _ => some ['a', '>', 'b'])
      = .ok ['<', 'a', '>', 'b', '>'] := by
  decide +kernel

/-- … whereas the same value through a template is encoded -/
theorem C05_template_iri_encoded :
    materializeTemplate {} .template ['{', 'c', '}'] (some .iri) [] [] (fun _ => some ['a', '>', 'b'])
      = .ok "<a%3Eb>".toList := by
  decide +kernel

/-- C05_F2: blank-node labels are `_:` followed by the raw value -/
theorem C05_F2_bnode_label_raw :
    materializeTemplate {} .template ['b', '{', 'c', '}'] (some .bnode) [] [] (fun _ => some ['x', ' ', 'y'])
      = .ok "_:bx y".toList := by
  decide +kernel

end Props.C05
