/-
C13, continued: the iteration of `_expand_rml_star` inside `_normalize_rml_star`.

`Props/C13.lean` proves one call of `_expand_rml_star` exactly and that a self-named table is a fixpoint.  Here:

* `AcyclicQuoting`, `Resolves`, `NamesOK`: decidable conditions on a rule table (no triples map quotes itself through quoted
  maps; every quoted reference names a triples map; no triples map carries a name `#TM<k>` that would collide with the
  identifiers of the renumbering);
* `mem_step`: one call, under these conditions, as a product: each rule once for every combination of a rule of the triples
  map quoted in subject position and a rule of the one quoted in object position;
* `C13_expand_measure`: one call settles one more level of quoting (the rank of the lowest unsettled triples map grows);
* `C13_expand_terminates`: the loop of `_normalize_rml_star` stops, whatever the fuel beyond a bound, with a fixpoint;
* `C13_expand_result`: the final table is self-named, every quoted position names exactly one rule, quoting is acyclic, and
  the set of complete unfoldings (rule, unfolding of the quoted subject rule, unfolding of the quoted object rule) is the one
  of the table before the loop: the product the RML-star semantics prescribes;
* `C13_cyclic_*`: two maps quoting each other: the table grows with every call, the loop does not stop.
-/
import MorphKgc.Props.C13

namespace Props.C13Fix
open Py Model Spec Model.Star Spec.Star

/-! ### identifiers -/

theorem ruleId_inj {a b : Nat} (h : ruleId a = ruleId b) : a = b := by
  unfold ruleId at h
  have h' := List.append_cancel_left h
  simp only [Nat.repr, String.toList_ofList] at h'
  have ha := Nat.ofDigitChars_ten_toDigits (n := a)
  have hb := Nat.ofDigitChars_ten_toDigits (n := b)
  rw [h'] at ha
  omega

/-- the position an identifier `#TM<i>` names -/
def unId (s : Str) : Nat := Nat.ofDigitChars 10 (s.drop Gen.Star.idPrefix.length) 0

theorem unId_ruleId (i : Nat) : unId (ruleId i) = i := by
  simp only [unId, ruleId, List.drop_left, Nat.repr, String.toList_ofList]
  exact Nat.ofDigitChars_ten_toDigits

/-! ### lists -/

/-- `drop_duplicates` on a table whose first part has no duplicates: the first part stays where it is, what follows are
    members of the rest that are not in the first part -/
theorem dedupFirst_append_prefix {α} [BEq α] [LawfulBEq α] (l l' : List α) (hn : l.Nodup) :
    ∃ X, dedupFirst (l ++ l') = l ++ X ∧ ∀ x ∈ X, x ∈ l' ∧ x ∉ l := by
  have key : ∀ (l' acc : List α), ∃ X, l'.foldl (fun acc y => if acc.elem y then acc else y :: acc) acc = X ++ acc ∧
      ∀ x ∈ X, x ∈ l' ∧ x ∉ acc := by
    intro l'
    induction l' with
    | nil => intro acc; exact ⟨[], rfl, fun x hx => by cases hx⟩
    | cons y ys ih =>
      intro acc
      rw [List.foldl_cons]
      by_cases hy : y ∈ acc
      · have : acc.elem y = true := by simpa using hy
        simp only [this, ↓reduceIte]
        obtain ⟨X, hX, hm⟩ := ih acc
        exact ⟨X, hX, fun x hx => ⟨List.mem_cons_of_mem _ (hm x hx).1, (hm x hx).2⟩⟩
      · have : acc.elem y = false := by simpa using hy
        simp only [this, Bool.false_eq_true, ↓reduceIte]
        obtain ⟨X, hX, hm⟩ := ih (y :: acc)
        refine ⟨X ++ [y], by rw [hX]; simp, fun x hx => ?_⟩
        rcases List.mem_append.mp hx with h | h
        · exact ⟨List.mem_cons_of_mem _ (hm x h).1, fun h' => (hm x h).2 (List.mem_cons_of_mem _ h')⟩
        · simp only [List.mem_singleton] at h; subst h; exact ⟨by simp, hy⟩
  unfold dedupFirst
  rw [List.foldl_append, Py.dedupFirst_fold_of_nodup l [] (by simp) hn, List.append_nil]
  obtain ⟨X, hX, hm⟩ := key l' l.reverse
  refine ⟨X.reverse, by rw [hX]; simp, fun x hx => ?_⟩
  have := hm x (by simpa using hx)
  exact ⟨this.1, by simpa using this.2⟩

def maxList : List Nat → Nat
  | [] => 0
  | x :: xs => max x (maxList xs)

theorem le_maxList {l : List Nat} {x : Nat} (h : x ∈ l) : x ≤ maxList l := by
  induction l with
  | nil => cases h
  | cons a l ih =>
    simp only [maxList]
    rcases List.mem_cons.mp h with rfl | h
    · omega
    · have := ih h; omega

theorem maxList_le {l : List Nat} {b : Nat} (h : ∀ x ∈ l, x ≤ b) : maxList l ≤ b := by
  induction l with
  | nil => simp [maxList]
  | cons a l ih =>
    simp only [maxList]
    have := h a (by simp)
    have := ih (fun x hx => h x (List.mem_cons_of_mem _ hx))
    omega

/-! ### the identifiers of one call -/

theorem withIdsFrom_length (k : Nat) (T : List Rule) : (withIdsFrom k T).length = T.length := by
  induction T generalizing k with
  | nil => rfl
  | cons a T ih => simp [withIdsFrom, ih]

theorem withIdsFrom_getElem? (k : Nat) (T : List Rule) (i : Nat) :
    (withIdsFrom k T)[i]? = T[i]?.map fun r => (r, ruleId (k + i)) := by
  induction T generalizing k i with
  | nil => simp [withIdsFrom]
  | cons a T ih =>
    cases i with
    | zero => simp [withIdsFrom]
    | succ i =>
      simp only [withIdsFrom, List.getElem?_cons_succ, ih]
      congr 1; funext r; congr 2; omega

theorem withIds_length (T : List Rule) : (withIds T).length = T.length := withIdsFrom_length 0 T

theorem withIds_getElem? (T : List Rule) (i : Nat) : (withIds T)[i]? = T[i]?.map fun r => (r, ruleId i) := by
  simp [withIds, withIdsFrom_getElem?]

/-- the names of the triples maps of a table -/
def names (T : List Rule) : List Str := T.map (·.tmId)

theorem mem_idsOf_iff (T : List Rule) (v id : Str) :
    id ∈ idsOf (withIds T) v ↔ ∃ j r, T[j]? = some r ∧ r.tmId = v ∧ id = ruleId j := by
  rw [mem_idsOf]
  constructor
  · rintro ⟨r, hr, hv⟩
    obtain ⟨j, hj, rfl⟩ := (mem_withIds T r id).mp hr
    exact ⟨j, r, hj, hv, rfl⟩
  · rintro ⟨j, r, hj, hv, rfl⟩
    exact ⟨r, (mem_withIds T r _).mpr ⟨j, hj, rfl⟩, hv⟩

theorem idsOf_ne_nil_of_mem {T : List Rule} {v : Str} (h : v ∈ names T) : idsOf (withIds T) v ≠ [] := by
  obtain ⟨r, hr, rfl⟩ := List.mem_map.mp h
  obtain ⟨j, hj⟩ := List.mem_iff_getElem?.mp hr
  intro he
  have : ruleId j ∈ idsOf (withIds T) r.tmId := (mem_idsOf_iff T _ _).mpr ⟨j, r, hj, rfl, rfl⟩
  rw [he] at this
  cases this

theorem idsOf_eq_nil_of_not_mem {T : List Rule} {v : Str} (h : v ∉ names T) : idsOf (withIds T) v = [] := by
  apply List.eq_nil_iff_forall_not_mem.mpr
  intro id hid
  obtain ⟨j, r, hj, hv, _⟩ := (mem_idsOf_iff T _ _).mp hid
  exact h (List.mem_map.mpr ⟨r, List.mem_iff_getElem?.mpr ⟨j, hj⟩, hv⟩)

theorem firstId_mem {T : List Rule} {v : Str} (h : v ∈ names T) : firstId (withIds T) v ∈ idsOf (withIds T) v := by
  unfold firstId
  cases hids : idsOf (withIds T) v with
  | nil => exact absurd hids (idsOf_ne_nil_of_mem h)
  | cons a as => simp

theorem firstId_not_mem {T : List Rule} {v : Str} (h : v ∉ names T) : firstId (withIds T) v = v := by
  simp [firstId, idsOf_eq_nil_of_not_mem h]


theorem withIdsFrom_ids_nodup (k : Nat) (T : List Rule) : ((withIdsFrom k T).map (·.2)).Nodup := by
  induction T generalizing k with
  | nil => simp [withIdsFrom]
  | cons a T ih =>
    simp only [withIdsFrom, List.map_cons, List.nodup_cons]
    refine ⟨?_, ih (k + 1)⟩
    intro hmem
    obtain ⟨p, hp, hp2⟩ := List.mem_map.mp hmem
    obtain ⟨i, _, hi⟩ := (mem_withIdsFrom (k + 1) T p.1 p.2).mp hp
    rw [hp2] at hi
    have := ruleId_inj hi
    omega

theorem nodup_of_map_nodup {α β} (f : α → β) (l : List α) (h : (l.map f).Nodup) : l.Nodup :=
  (List.pairwise_map.mp h).imp (fun hne e => hne (congrArg f e))

/-! ### the conditions on a table -/

/-- every quoted reference names a triples map of the table (otherwise `_expand_rml_star` raises `KeyError`) -/
def Resolves (T : List Rule) : Prop :=
  ∀ r ∈ T, (r.subjectMapType = .quoted → r.subjectMapValue ∈ names T) ∧ (r.objectMapType = .quoted → r.objectMapValue ∈ names T)

instance (T : List Rule) : Decidable (Resolves T) := by unfold Resolves; infer_instance

/-- no triples map is named like an identifier `#TM<q>` of the renumbering, unless its first rule is at position `q` (true of
    every document whose triples maps are not named `#TM…`, and of every table `_expand_rml_star` returns) -/
def NamesOK (T : List Rule) : Prop := ∀ q, q < T.length → firstId (withIds T) (ruleId q) = ruleId q

instance (T : List Rule) : Decidable (NamesOK T) := by unfold NamesOK; infer_instance

/-! ### the shape of one call -/

/-- the pairs (rule, identifier of its origin) `_expand_rml_star` has before the substitution of first identifiers -/
def Derived (T : List Rule) (p2 : Rule × Str) : Prop :=
  p2 ∈ withIds T ∨
  (∃ p ∈ withIds T, quotedAt true p.1 = true ∧ ∃ q ∈ idsOf (withIds T) (valAt true p.1), p2 = (setVal true p.1 q, p.2)) ∨
  (∃ p1, (p1 ∈ withIds T ∨ ∃ p ∈ withIds T, quotedAt true p.1 = true ∧
      ∃ q ∈ idsOf (withIds T) (valAt true p.1), p1 = (setVal true p.1 q, p.2)) ∧
    quotedAt false p1.1 = true ∧ ∃ q ∈ idsOf (withIds T) (valAt false p1.1), p2 = (setVal false p1.1 q, p1.2))

def hF (T : List Rule) (p : Rule × Str) : Rule × Str := (mapFirst (withIds T) p.1, p.2)
def kF (p : Rule × Str) : Rule := { p.1 with tmId := p.2 }

theorem expandPos_append {subj : Bool} {w0 w w' : List (Rule × Str)} (h : expandPos subj w0 w = .ok w') : ∃ a, w' = w ++ a := by
  unfold expandPos at h
  cases hm : w.mapM (expandRow subj w0) with
  | error e => simp [hm] at h
  | ok adds => simp only [hm, Except.ok.injEq] at h; exact ⟨_, h.symm⟩

/-- the table after one call: the rules of the table, in place, renamed by position; then rules that differ from all of these -/
theorem step_shape {T T' : List Rule} (h : expandStep T = .ok T') :
    ∃ X : List (Rule × Str), T' = ((withIds T).map (hF T)).map kF ++ X.map kF ∧
      ∀ x ∈ X, x ∉ (withIds T).map (hF T) ∧ ∃ p2, Derived T p2 ∧ x = hF T p2 := by
  unfold expandStep at h
  cases h1 : expandPos true (withIds T) (withIds T) with
  | error e => simp [h1] at h
  | ok w1 =>
    cases h2 : expandPos false (withIds T) w1 with
    | error e => simp [h1, h2] at h
    | ok w2 =>
      simp only [h1, h2, Except.ok.injEq] at h
      obtain ⟨a1, rfl⟩ := expandPos_append h1
      obtain ⟨a2, rfl⟩ := expandPos_append h2
      have hnd : ((withIds T).map (hF T)).Nodup := by
        apply nodup_of_map_nodup (·.2)
        have : ((withIds T).map (hF T)).map (·.2) = (withIds T).map (·.2) := by simp [hF]
        rw [this]
        exact withIdsFrom_ids_nodup 0 T
      obtain ⟨X, hX, hm⟩ := dedupFirst_append_prefix ((withIds T).map (hF T)) ((a1 ++ a2).map (hF T)) hnd
      refine ⟨X, ?_, fun x hx => ⟨(hm x hx).2, ?_⟩⟩
      · rw [← h]
        have : ((withIds T ++ a1 ++ a2).map fun p => (mapFirst (withIds T) p.1, p.2)) =
            (withIds T).map (hF T) ++ (a1 ++ a2).map (hF T) := by
          rw [List.append_assoc, List.map_append]; rfl
        rw [this, hX, List.map_append]
        rfl
      · obtain ⟨p2, hp2, rfl⟩ := List.mem_map.mp (hm x hx).1
        refine ⟨p2, ?_, rfl⟩
        have hp2' : p2 ∈ withIds T ++ a1 ++ a2 := by
          rw [List.append_assoc]; exact List.mem_append_right _ hp2
        rw [mem_expandPos false _ _ _ h2] at hp2'
        simp only [mem_expandPos true _ _ _ h1] at hp2'
        rcases hp2' with (h | h) | ⟨p1, hp1, hq, q, hqm, rfl⟩
        · exact .inl h
        · exact .inr (.inl h)
        · exact .inr (.inr ⟨p1, hp1, hq, q, hqm, rfl⟩)

theorem mem_expandStep' {T T' : List Rule} (h : expandStep T = .ok T') (r' : Rule) :
    r' ∈ T' ↔ ∃ p2, Derived T p2 ∧ r' = kF (hF T p2) := mem_expandStep T T' h r'

/-- the rules in place -/
theorem step_prefix {T T' : List Rule} (h : expandStep T = .ok T') :
    T.length ≤ T'.length ∧ ∀ i r, T[i]? = some r → T'[i]? = some { mapFirst (withIds T) r with tmId := ruleId i } := by
  obtain ⟨X, rfl, _⟩ := step_shape h
  refine ⟨by simp [withIds_length], fun i r hi => ?_⟩
  have hlt : i < T.length := by
    rcases Nat.lt_or_ge i T.length with h | h
    · exact h
    · rw [List.getElem?_eq_none h] at hi; cases hi
  rw [List.getElem?_append_left (by simpa [withIds_length] using hlt)]
  simp [List.getElem?_map, withIds_getElem?, hi, hF, kF]

/-- a derived pair comes from one rule of the table, with its quoted subject and object values possibly replaced by
    identifiers of rules of the quoted maps -/
theorem derived_iff (T : List Rule) (p2 : Rule × Str) :
    Derived T p2 ↔ ∃ i r, T[i]? = some r ∧ ∃ s o,
      (s = r.subjectMapValue ∨ (r.subjectMapType = .quoted ∧ s ∈ idsOf (withIds T) r.subjectMapValue)) ∧
      (o = r.objectMapValue ∨ (r.objectMapType = .quoted ∧ o ∈ idsOf (withIds T) r.objectMapValue)) ∧
      p2 = ({ r with subjectMapValue := s, objectMapValue := o }, ruleId i) := by
  have hw : ∀ p, p ∈ withIds T ↔ ∃ i r, T[i]? = some r ∧ p = (r, ruleId i) := by
    intro p
    obtain ⟨r0, id0⟩ := p
    rw [mem_withIds]
    constructor
    · rintro ⟨i, hi, rfl⟩; exact ⟨i, r0, hi, rfl⟩
    · rintro ⟨i, r, hi, he⟩
      simp only [Prod.mk.injEq] at he
      obtain ⟨rfl, rfl⟩ := he
      exact ⟨i, hi, rfl⟩
  have hS : ∀ p1, (p1 ∈ withIds T ∨ ∃ p ∈ withIds T, quotedAt true p.1 = true ∧
      ∃ q ∈ idsOf (withIds T) (valAt true p.1), p1 = (setVal true p.1 q, p.2)) ↔
      ∃ i r, T[i]? = some r ∧ ∃ s, (s = r.subjectMapValue ∨ (r.subjectMapType = .quoted ∧ s ∈ idsOf (withIds T) r.subjectMapValue)) ∧
        p1 = ({ r with subjectMapValue := s }, ruleId i) := by
    intro p1
    constructor
    · rintro (h | ⟨p, hp, hq, q, hqm, rfl⟩)
      · obtain ⟨i, r, hi, rfl⟩ := (hw p1).mp h
        exact ⟨i, r, hi, r.subjectMapValue, .inl rfl, rfl⟩
      · obtain ⟨i, r, hi, rfl⟩ := (hw p).mp hp
        simp only [quotedAt, ↓reduceIte, decide_eq_true_eq] at hq
        exact ⟨i, r, hi, q, .inr ⟨hq, by simpa [valAt] using hqm⟩, by simp [setVal]⟩
    · rintro ⟨i, r, hi, s, hs | ⟨hq, hs⟩, rfl⟩
      · subst hs; exact .inl ((hw _).mpr ⟨i, r, hi, rfl⟩)
      · exact .inr ⟨(r, ruleId i), (hw _).mpr ⟨i, r, hi, rfl⟩, by simp [quotedAt, hq], s, by simpa [valAt] using hs, by simp [setVal]⟩
  unfold Derived
  constructor
  · rintro (h | h | ⟨p1, hp1, hq, q, hqm, rfl⟩)
    · obtain ⟨i, r, hi, s, hs, rfl⟩ := (hS p2).mp (.inl h)
      exact ⟨i, r, hi, s, r.objectMapValue, hs, .inl rfl, rfl⟩
    · obtain ⟨i, r, hi, s, hs, rfl⟩ := (hS p2).mp (.inr h)
      exact ⟨i, r, hi, s, r.objectMapValue, hs, .inl rfl, rfl⟩
    · obtain ⟨i, r, hi, s, hs, rfl⟩ := (hS p1).mp hp1
      simp only [quotedAt, Bool.false_eq_true, ↓reduceIte, decide_eq_true_eq] at hq
      exact ⟨i, r, hi, s, q, hs, .inr ⟨hq, by simpa [valAt] using hqm⟩, by simp [setVal]⟩
  · rintro ⟨i, r, hi, s, o, hs, ho | ⟨hq, ho⟩, rfl⟩
    · subst ho
      rcases (hS ({ r with subjectMapValue := s }, ruleId i)).mpr ⟨i, r, hi, s, hs, rfl⟩ with h | h
      · exact .inl h
      · exact .inr (.inl h)
    · refine .inr (.inr ⟨({ r with subjectMapValue := s }, ruleId i), (hS _).mpr ⟨i, r, hi, s, hs, rfl⟩, by simp [quotedAt, hq], o,
        by simpa [valAt] using ho, by simp [setVal]⟩)


/-- what `tm_to_id_dict` does to a value column -/
def fixv (T : List Rule) (mt : MapType) (s : Str) : Str := if refersToTm mt then firstId (withIds T) s else s

theorem mapFirst_eq (T : List Rule) (r : Rule) :
    mapFirst (withIds T) r = { r with subjectMapValue := fixv T r.subjectMapType r.subjectMapValue,
                                      objectMapValue := fixv T r.objectMapType r.objectMapValue } := by
  have : Gen.Star.expandRewriteGuarded = true := by decide
  simp [mapFirst, this, fixv]

/-- the values a position takes after one call: a quoted position, the identifier of each rule of the quoted triples map; a
    referencing object map, the first identifier of the parent triples map; any other value stays -/
def choices (T : List Rule) (mt : MapType) (v : Str) : List Str :=
  if mt = .quoted then idsOf (withIds T) v else [if mt = .parentTM then firstId (withIds T) v else v]

theorem getElem?_lt {α} {l : List α} {i : Nat} {a : α} (h : l[i]? = some a) : i < l.length := by
  rcases Nat.lt_or_ge i l.length with h' | h'
  · exact h'
  · rw [List.getElem?_eq_none h'] at h; cases h

theorem fix_choice {T : List Rule} (hok : NamesOK T) {mt : MapType} {v s : Str} (hres : mt = .quoted → v ∈ names T)
    (hs : s = v ∨ (mt = .quoted ∧ s ∈ idsOf (withIds T) v)) : fixv T mt s ∈ choices T mt v := by
  by_cases hq : mt = .quoted
  · subst hq
    simp only [fixv, refersToTm, choices, ↓reduceIte, decide_true, Bool.or_true]
    rcases hs with rfl | ⟨_, hs⟩
    · exact firstId_mem (hres rfl)
    · obtain ⟨j, rj, hj, _, rfl⟩ := (mem_idsOf_iff T _ _).mp hs
      rw [hok j (getElem?_lt hj)]
      exact hs
  · rcases hs with rfl | ⟨h, _⟩
    · simp [fixv, refersToTm, choices, hq]
    · exact absurd h hq

theorem choice_fix {T : List Rule} (hok : NamesOK T) {mt : MapType} {v S : Str} (hS : S ∈ choices T mt v) :
    ∃ s, (s = v ∨ (mt = .quoted ∧ s ∈ idsOf (withIds T) v)) ∧ fixv T mt s = S := by
  by_cases hq : mt = .quoted
  · subst hq
    simp only [choices, ↓reduceIte] at hS
    refine ⟨S, .inr ⟨rfl, hS⟩, ?_⟩
    obtain ⟨j, rj, hj, _, rfl⟩ := (mem_idsOf_iff T _ _).mp hS
    simp only [fixv, refersToTm, decide_true, Bool.or_true, ↓reduceIte]
    exact hok j (getElem?_lt hj)
  · simp only [choices, hq, ↓reduceIte, List.mem_singleton] at hS
    exact ⟨v, .inl rfl, by simp [fixv, refersToTm, hq, hS]⟩

/-- **One call of `_expand_rml_star` as a product.**  On a table whose quoted references resolve: the rules of the result are
    exactly the rules of the table, each once for every combination of (an identifier of) a rule of the triples map quoted in
    subject position and a rule of the one quoted in object position, named by the position of the rule they come from. -/
theorem mem_step {T T' : List Rule} (hres : Resolves T) (hok : NamesOK T) (h : expandStep T = .ok T') (r' : Rule) :
    r' ∈ T' ↔ ∃ (i : Nat) (r : Rule), T[i]? = some r ∧ ∃ S ∈ choices T r.subjectMapType r.subjectMapValue,
      ∃ O ∈ choices T r.objectMapType r.objectMapValue,
        r' = { r with tmId := ruleId i, subjectMapValue := S, objectMapValue := O } := by
  rw [mem_expandStep' h]
  constructor
  · rintro ⟨p2, hp2, rfl⟩
    obtain ⟨i, r, hi, s, o, hs, ho, rfl⟩ := (derived_iff T p2).mp hp2
    have hr : r ∈ T := List.mem_iff_getElem?.mpr ⟨i, hi⟩
    refine ⟨i, r, hi, _, fix_choice hok (hres r hr).1 hs, _, fix_choice hok (hres r hr).2 ho, ?_⟩
    simp [kF, hF, mapFirst_eq]
  · rintro ⟨i, r, hi, S, hS, O, hO, rfl⟩
    obtain ⟨s, hs, rfl⟩ := choice_fix hok hS
    obtain ⟨o, ho, rfl⟩ := choice_fix hok hO
    refine ⟨({ r with subjectMapValue := s, objectMapValue := o }, ruleId i), (derived_iff T _).mpr ⟨i, r, hi, s, o, hs, ho, rfl⟩, ?_⟩
    simp [kF, hF, mapFirst_eq]

/-- a rule whose quoted maps have one rule each gets no copy: its name `#TM<i>` belongs to position `i` only -/
theorem pos_of_quiet {T T' : List Rule} (hres : Resolves T) (hok : NamesOK T) (h : expandStep T = .ok T') {i : Nat} {r : Rule}
    (hi : T[i]? = some r)
    (hqs : ∀ S ∈ choices T r.subjectMapType r.subjectMapValue, ∀ S' ∈ choices T r.subjectMapType r.subjectMapValue, S = S')
    (hqo : ∀ O ∈ choices T r.objectMapType r.objectMapValue, ∀ O' ∈ choices T r.objectMapType r.objectMapValue, O = O')
    {m : Nat} {r' : Rule} (hm : T'[m]? = some r') (hname : r'.tmId = ruleId i) : m = i := by
  obtain ⟨X, rfl, hX⟩ := step_shape h
  have hlen : (((withIds T).map (hF T)).map kF).length = T.length := by simp [withIds_length]
  rcases Nat.lt_or_ge m T.length with hlt | hge
  · rw [List.getElem?_append_left (by rw [hlen]; exact hlt)] at hm
    obtain ⟨rm, hrm⟩ : ∃ rm, T[m]? = some rm := ⟨T[m], by simp [hlt]⟩
    simp only [List.getElem?_map, withIds_getElem?, hrm, Option.map_some, Option.some.injEq] at hm
    subst hm
    exact ruleId_inj hname
  · exfalso
    rw [List.getElem?_append_right (by rw [hlen]; exact hge), hlen, List.getElem?_map] at hm
    cases hx : X[m - T.length]? with
    | none => rw [hx] at hm; cases hm
    | some x =>
      simp only [hx, Option.map_some, Option.some.injEq] at hm
      subst hm
      obtain ⟨hnot, p2, hp2, rfl⟩ := hX x (List.mem_iff_getElem?.mpr ⟨_, hx⟩)
      obtain ⟨i2, r2, hi2, s, o, hs, ho, rfl⟩ := (derived_iff T p2).mp hp2
      have : i2 = i := ruleId_inj (by simpa [kF, hF] using hname)
      subst this
      rw [hi] at hi2
      cases hi2
      apply hnot
      refine List.mem_map.mpr ⟨(r, ruleId i2), (mem_withIds T r _).mpr ⟨i2, hi, rfl⟩, ?_⟩
      have hr : r ∈ T := List.mem_iff_getElem?.mpr ⟨i2, hi⟩
      have e1 := hqs _ (fix_choice hok (hres r hr).1 hs) _ (fix_choice hok (hres r hr).1 (.inl rfl))
      have e2 := hqo _ (fix_choice hok (hres r hr).2 ho) _ (fix_choice hok (hres r hr).2 (.inl rfl))
      simp only [hF, mapFirst_eq, e1, e2]


/-! ### what a call preserves -/

theorem expandRow_ok (subj : Bool) (w0 : List (Rule × Str)) (p : Rule × Str)
    (h : quotedAt subj p.1 = true → idsOf w0 (valAt subj p.1) ≠ []) : ∃ l, expandRow subj w0 p = .ok l := by
  unfold expandRow
  by_cases hq : quotedAt subj p.1 = true
  · simp only [hq, ↓reduceIte]
    cases hids : idsOf w0 (valAt subj p.1) with
    | nil => exact absurd hids (h hq)
    | cons a as => exact ⟨_, rfl⟩
  · simp only [hq]; exact ⟨_, rfl⟩

theorem expandPos_ok (subj : Bool) (w0 w : List (Rule × Str))
    (h : ∀ p ∈ w, quotedAt subj p.1 = true → idsOf w0 (valAt subj p.1) ≠ []) : ∃ w', expandPos subj w0 w = .ok w' := by
  obtain ⟨adds, hadds⟩ := mapM_ok_of_forall_exists (expandRow subj w0) w (fun p hp => expandRow_ok subj w0 p (h p hp))
  exact ⟨w ++ adds.flatten, by simp [expandPos, hadds]⟩

/-- `_expand_rml_star` does not raise on a table whose quoted references resolve -/
theorem step_ok {T : List Rule} (hres : Resolves T) : ∃ T', expandStep T = .ok T' := by
  have hT : ∀ p ∈ withIds T, p.1 ∈ T := by
    intro p hp
    obtain ⟨i, hi, _⟩ := (mem_withIds T p.1 p.2).mp hp
    exact List.mem_iff_getElem?.mpr ⟨i, hi⟩
  obtain ⟨w1, h1⟩ := expandPos_ok true (withIds T) (withIds T) (fun p hp hq => by
    simp only [quotedAt, ↓reduceIte, decide_eq_true_eq] at hq
    exact idsOf_ne_nil_of_mem (by simpa [valAt] using (hres p.1 (hT p hp)).1 hq))
  obtain ⟨w2, h2⟩ := expandPos_ok false (withIds T) w1 (fun p hp hq => by
    have hobj : ∃ p0 ∈ withIds T, p.1.objectMapType = p0.1.objectMapType ∧ p.1.objectMapValue = p0.1.objectMapValue := by
      rcases (mem_expandPos true _ _ _ h1 p).mp hp with h | ⟨p0, hp0, _, q, _, rfl⟩
      · exact ⟨p, h, rfl, rfl⟩
      · exact ⟨p0, hp0, by simp [setVal], by simp [setVal]⟩
    obtain ⟨p0, hp0, ht, hv⟩ := hobj
    simp only [quotedAt, Bool.false_eq_true, ↓reduceIte, decide_eq_true_eq] at hq
    simp only [valAt, Bool.false_eq_true, ↓reduceIte, hv]
    exact idsOf_ne_nil_of_mem ((hres p0.1 (hT p0 hp0)).2 (ht ▸ hq)))
  simp only [expandStep, h1, h2]
  exact ⟨_, rfl⟩

/-- the names after a call: `#TM<j>` with `j` at most the position, the rule at position `j` being named `#TM<j>` -/
def Named (T : List Rule) : Prop :=
  ∀ i r, T[i]? = some r → ∃ j rj, j ≤ i ∧ r.tmId = ruleId j ∧ T[j]? = some rj ∧ rj.tmId = ruleId j

theorem idsOf_head_from (v : Str) : ∀ (T : List Rule) (k q : Nat) (rq : Rule), T[q]? = some rq → rq.tmId = v →
    (∀ i r, i < q → T[i]? = some r → r.tmId ≠ v) → (idsOf (withIdsFrom k T) v).head? = some (ruleId (k + q)) := by
  intro T
  induction T with
  | nil => intro k q rq hq; simp at hq
  | cons a T ih =>
    intro k q rq hq hv hfirst
    cases q with
    | zero =>
      simp only [List.getElem?_cons_zero, Option.some.injEq] at hq
      subst hq
      simp [idsOf, withIdsFrom, hv]
    | succ q =>
      have ha : a.tmId ≠ v := hfirst 0 a (by omega) (by simp)
      have := ih (k + 1) q rq (by simpa using hq) hv (fun i r hi hr => hfirst (i + 1) r (by omega) (by simpa using hr))
      simp only [idsOf, withIdsFrom, List.filter_cons, ha, decide_false, Bool.false_eq_true, ↓reduceIte] at this ⊢
      rw [this]; congr 2; omega

theorem named_namesOK {T : List Rule} (h : Named T) : NamesOK T := by
  intro q hq
  by_cases hmem : ruleId q ∈ names T
  · obtain ⟨r, hr, hname⟩ := List.mem_map.mp hmem
    obtain ⟨i, hi⟩ := List.mem_iff_getElem?.mp hr
    obtain ⟨j, rj, _, hj, hrj, hrjn⟩ := h i r hi
    have : j = q := ruleId_inj (by rw [← hj, hname])
    subst this
    have hhead := idsOf_head_from (ruleId j) T 0 j rj hrj hrjn (fun i' r' hlt hi' hn' => by
      obtain ⟨j', _, hle, hj', _, _⟩ := h i' r' hi'
      have : j' = j := ruleId_inj (by rw [← hj', hn'])
      omega)
    simp only [firstId, withIds, List.headD_eq_head?_getD, hhead, Nat.zero_add, Option.getD_some]
  · exact firstId_not_mem hmem

theorem step_named {T T' : List Rule} (hres : Resolves T) (hok : NamesOK T) (h : expandStep T = .ok T') : Named T' := by
  intro m r' hm
  obtain ⟨i, r, hi, S, _, O, _, rfl⟩ := (mem_step hres hok h r').mp (List.mem_iff_getElem?.mpr ⟨m, hm⟩)
  refine ⟨i, _, ?_, rfl, (step_prefix h).2 i r hi, rfl⟩
  rcases Nat.lt_or_ge m T.length with hlt | hge
  · have := (step_prefix h).2 m T[m] (by simp [hlt])
    rw [hm] at this
    have := congrArg Rule.tmId (Option.some.inj this)
    exact Nat.le_of_eq (ruleId_inj this)
  · have := getElem?_lt hi; omega

theorem step_resolves {T T' : List Rule} (hres : Resolves T) (hok : NamesOK T) (h : expandStep T = .ok T') : Resolves T' := by
  have key : ∀ v S, S ∈ idsOf (withIds T) v → S ∈ names T' := by
    intro v S hS
    obtain ⟨j, rj, hj, _, rfl⟩ := (mem_idsOf_iff T _ _).mp hS
    exact List.mem_map.mpr ⟨_, List.mem_iff_getElem?.mpr ⟨j, (step_prefix h).2 j rj hj⟩, rfl⟩
  intro r' hr'
  obtain ⟨i, r, hi, S, hS, O, hO, rfl⟩ := (mem_step hres hok h r').mp hr'
  constructor
  · intro hq
    simp only at hq
    simp only [choices, hq, ↓reduceIte] at hS
    exact key _ _ hS
  · intro hq
    simp only at hq
    simp only [choices, hq, ↓reduceIte] at hO
    exact key _ _ hO

theorem positional_nodup {T : List Rule} (h : Positional T) : (names T).Nodup := by
  have hw : withIds T = T.map fun r => (r, r.tmId) :=
    withIdsFrom_positional 0 T (fun i r hi => by simpa using h i r hi)
  have : names T = (withIds T).map (·.2) := by rw [hw]; simp [names]
  rw [this]
  exact withIdsFrom_ids_nodup 0 T

/-- if a call appends nothing, its result is self-named and a fixpoint -/
theorem step_same_length_fixpoint {T T' : List Rule} (hres : Resolves T) (hok : NamesOK T) (h : expandStep T = .ok T')
    (hlen : T'.length = T.length) : Positional T' ∧ (names T').Nodup ∧ expandStep T' = .ok T' := by
  have hpos : Positional T' := by
    intro m r' hm
    have hlt : m < T.length := hlen ▸ getElem?_lt hm
    have := (step_prefix h).2 m T[m] (by simp [hlt])
    rw [hm] at this
    exact congrArg Rule.tmId (Option.some.inj this)
  have hnd : (names T').Nodup := by
    exact positional_nodup hpos
  exact ⟨hpos, hnd, expandStep_fixpoint T' hpos hnd (step_resolves hres hok h)⟩


/-! ### ranks: the measure -/

/-- a ranking of the triples map names of a table: a quoting map ranks above the maps it quotes; the maps of rank below `k`
    are *settled* (one rule each).  The number of levels not yet settled is the measure of `_normalize_rml_star`. -/
structure Ranked (T : List Rule) (rk : Str → Nat) (k : Nat) : Prop where
  quote : ∀ r ∈ T, (r.subjectMapType = .quoted → rk r.subjectMapValue < rk r.tmId) ∧
    (r.objectMapType = .quoted → rk r.objectMapValue < rk r.tmId)
  single : ∀ (i j : Nat) (ri rj : Rule), T[i]? = some ri → T[j]? = some rj → ri.tmId = rj.tmId → rk ri.tmId < k → i = j

/-- the ranking after a call: a rule keeps the rank of the triples map of the rule it comes from -/
def rkNext (T : List Rule) (rk : Str → Nat) (s : Str) : Nat := rk ((T[unId s]?.map (·.tmId)).getD [])

theorem rkNext_ruleId {T : List Rule} {rk : Str → Nat} {i : Nat} {r : Rule} (h : T[i]? = some r) :
    rkNext T rk (ruleId i) = rk r.tmId := by
  simp [rkNext, unId_ruleId, h]

/-- **The measure decreases.**  One call of `_expand_rml_star` settles one more level: if the triples maps of rank below `k`
    have one rule each, then after the call those of rank below `k + 1` have (and the ranking is inherited, with its bound). -/
theorem C13_expand_measure {T T' : List Rule} (hres : Resolves T) (hok : NamesOK T) (h : expandStep T = .ok T')
    {rk : Str → Nat} {k : Nat} (hR : Ranked T rk k) :
    Ranked T' (rkNext T rk) (k + 1) ∧ ∀ B, (∀ r ∈ T, rk r.tmId < B) → ∀ r' ∈ T', rkNext T rk r'.tmId < B := by
  have hidr : ∀ v S, S ∈ idsOf (withIds T) v → rkNext T rk S = rk v := by
    intro v S hS
    obtain ⟨j, rj, hj, hv, rfl⟩ := (mem_idsOf_iff T _ _).mp hS
    rw [rkNext_ruleId hj, hv]
  refine ⟨⟨?_, ?_⟩, ?_⟩
  · intro r' hr'
    obtain ⟨i, r, hi, S, hS, O, hO, rfl⟩ := (mem_step hres hok h r').mp hr'
    have hr : r ∈ T := List.mem_iff_getElem?.mpr ⟨i, hi⟩
    constructor
    · intro hq
      simp only at hq
      simp only [choices, hq, ↓reduceIte] at hS
      simp only [rkNext_ruleId hi, hidr _ _ hS]
      exact (hR.quote r hr).1 hq
    · intro hq
      simp only at hq
      simp only [choices, hq, ↓reduceIte] at hO
      simp only [rkNext_ruleId hi, hidr _ _ hO]
      exact (hR.quote r hr).2 hq
  · have one : ∀ m r', T'[m]? = some r' → rkNext T rk r'.tmId < k + 1 → ∃ i, r'.tmId = ruleId i ∧ m = i := by
      intro m r' hm hlt
      obtain ⟨i, r, hi, S, _, O, _, rfl⟩ := (mem_step hres hok h r').mp (List.mem_iff_getElem?.mpr ⟨m, hm⟩)
      have hr : r ∈ T := List.mem_iff_getElem?.mpr ⟨i, hi⟩
      simp only [rkNext_ruleId hi] at hlt
      have quiet : ∀ mt v, (mt = .quoted → rk v < rk r.tmId) → ∀ S ∈ choices T mt v, ∀ S' ∈ choices T mt v, S = S' := by
        intro mt v hv S hS S' hS'
        by_cases hq : mt = .quoted
        · simp only [choices, hq, ↓reduceIte] at hS hS'
          obtain ⟨j, rj, hj, hjv, rfl⟩ := (mem_idsOf_iff T _ _).mp hS
          obtain ⟨j', rj', hj', hjv', rfl⟩ := (mem_idsOf_iff T _ _).mp hS'
          have := hR.single j j' rj rj' hj hj' (by rw [hjv, hjv']) (by rw [hjv]; have := hv hq; omega)
          rw [this]
        · simp only [choices, hq, ↓reduceIte, List.mem_singleton] at hS hS'
          rw [hS, hS']
      exact ⟨i, rfl, pos_of_quiet hres hok h hi (quiet _ _ (hR.quote r hr).1) (quiet _ _ (hR.quote r hr).2) hm rfl⟩
    intro m m' rm rm' hm hm' hname hlt
    obtain ⟨i, hi, rfl⟩ := one m rm hm hlt
    obtain ⟨i', hi', rfl⟩ := one m' rm' hm' (hname ▸ hlt)
    exact ruleId_inj (by rw [← hi, ← hi', hname])
  · intro B hB r' hr'
    obtain ⟨i, r, hi, S, _, O, _, rfl⟩ := (mem_step hres hok h r').mp hr'
    simp only [rkNext_ruleId hi]
    exact hB r (List.mem_iff_getElem?.mpr ⟨i, hi⟩)

/-- when every level is settled, the table is self-named: a fixpoint -/
theorem settled_fixpoint {T : List Rule} (hres : Resolves T) (hnamed : Named T) {rk : Str → Nat} {B : Nat} (hR : Ranked T rk B)
    (hB : ∀ r ∈ T, rk r.tmId < B) : Positional T ∧ (names T).Nodup ∧ expandStep T = .ok T := by
  have hpos : Positional T := by
    intro i r hi
    obtain ⟨j, rj, _, hj, hrj, hrjn⟩ := hnamed i r hi
    have := hR.single i j r rj hi hrj (by rw [hj, hrjn]) (hB r (List.mem_iff_getElem?.mpr ⟨i, hi⟩))
    rw [hj, this]
  exact ⟨hpos, positional_nodup hpos, expandStep_fixpoint T hpos (positional_nodup hpos) hres⟩

/-! ### acyclic quoting -/

/-- the triples maps the rules of triples map `t` quote -/
def quotedNames (T : List Rule) (t : Str) : List Str :=
  (T.filter (·.tmId = t)).flatMap fun r =>
    (if r.subjectMapType = .quoted then [r.subjectMapValue] else []) ++
    (if r.objectMapType = .quoted then [r.objectMapValue] else [])

/-- quoting depth at most `n` -/
def depthLeT (T : List Rule) : Nat → Str → Bool
  | 0, t => (quotedNames T t).isEmpty
  | n + 1, t => (quotedNames T t).all (depthLeT T n)

/-- no triples map quotes itself, directly or through other quoted maps (decided with the number of rules as bound on the depth:
    a chain of quotings without repetition is not longer than that) -/
def AcyclicQuoting (T : List Rule) : Bool := T.all fun r => depthLeT T T.length r.tmId

def rankT (T : List Rule) : Nat → Str → Nat
  | 0, _ => 0
  | n + 1, t => maxList ((quotedNames T t).map fun q => rankT T n q + 1)

theorem rank_stable (T : List Rule) : ∀ (n : Nat) (t : Str), depthLeT T n t = true → ∀ m, n + 1 ≤ m → rankT T m t = rankT T (n + 1) t := by
  intro n
  induction n with
  | zero =>
    intro t h m hm
    obtain ⟨m', rfl⟩ : ∃ m', m = m' + 1 := ⟨m - 1, by omega⟩
    simp only [depthLeT, List.isEmpty_iff] at h
    simp [rankT, h]
  | succ n ih =>
    intro t h m hm
    obtain ⟨m', rfl⟩ : ∃ m', m = m' + 1 := ⟨m - 1, by omega⟩
    simp only [depthLeT, List.all_eq_true] at h
    simp only [rankT]
    congr 1
    apply List.map_congr_left
    intro q hq
    rw [ih q (h q hq) m' (by omega)]
    rfl

theorem rank_le (T : List Rule) : ∀ (n : Nat) (t : Str), depthLeT T n t = true → ∀ m, rankT T m t ≤ n := by
  intro n
  induction n with
  | zero =>
    intro t h m
    simp only [depthLeT, List.isEmpty_iff] at h
    cases m <;> simp [rankT, h, maxList]
  | succ n ih =>
    intro t h m
    simp only [depthLeT, List.all_eq_true] at h
    cases m with
    | zero => simp [rankT]
    | succ m =>
      simp only [rankT]
      apply maxList_le
      intro x hx
      obtain ⟨q, hq, rfl⟩ := List.mem_map.mp hx
      have := ih q (h q hq) m
      omega

theorem rank_lt (T : List Rule) (n : Nat) (t v : Str) (hv : v ∈ quotedNames T t) (h : depthLeT T n t = true) :
    rankT T (n + 1) v < rankT T (n + 1) t := by
  cases n with
  | zero => simp only [depthLeT, List.isEmpty_iff] at h; rw [h] at hv; cases hv
  | succ n =>
    simp only [depthLeT, List.all_eq_true] at h
    rw [rank_stable T n v (h v hv) (n + 2) (by omega)]
    have : rankT T (n + 1) v + 1 ≤ rankT T (n + 1 + 1) t := by
      rw [show rankT T (n + 1 + 1) t = maxList ((quotedNames T t).map fun q => rankT T (n + 1) q + 1) from rfl]
      exact le_maxList (List.mem_map.mpr ⟨v, hv, rfl⟩)
    omega

/-- the ranking of an acyclic table: the quoting depth -/
def rank0 (T : List Rule) : Str → Nat := rankT T (T.length + 1)

theorem acyclic_ranked {T : List Rule} (h : AcyclicQuoting T = true) :
    Ranked T (rank0 T) 0 ∧ ∀ r ∈ T, rank0 T r.tmId < T.length + 1 := by
  simp only [AcyclicQuoting, List.all_eq_true] at h
  refine ⟨⟨fun r hr => ⟨fun hq => ?_, fun hq => ?_⟩, fun _ _ _ _ _ _ _ hlt => absurd hlt (by omega)⟩, fun r hr => ?_⟩
  · apply rank_lt T T.length r.tmId _ _ (h r hr)
    simp only [quotedNames, List.mem_flatMap, List.mem_filter, decide_eq_true_eq]
    exact ⟨r, ⟨hr, rfl⟩, by simp [hq]⟩
  · apply rank_lt T T.length r.tmId _ _ (h r hr)
    simp only [quotedNames, List.mem_flatMap, List.mem_filter, decide_eq_true_eq]
    exact ⟨r, ⟨hr, rfl⟩, by simp [hq]⟩
  · have := rank_le T T.length r.tmId (h r hr) (T.length + 1)
    unfold rank0; omega


/-! ### the iteration -/

/-- `k` calls of `_expand_rml_star` -/
def iter : Nat → List Rule → Except Err (List Rule)
  | 0, T => .ok T
  | k + 1, T => match expandStep T with
    | .ok T' => iter k T'
    | .error e => .error e

theorem iter_succ_ok {T T' : List Rule} (h : expandStep T = .ok T') (k : Nat) : iter (k + 1) T = iter k T' := by
  simp [iter, h]

theorem iter_fix {F : List Rule} (h : expandStep F = .ok F) (k : Nat) : iter k F = .ok F := by
  induction k with
  | zero => rfl
  | succ k ih => rw [iter_succ_ok h, ih]

theorem iter_add (a b : Nat) (T : List Rule) :
    iter (a + b) T = match iter a T with | .ok F => iter b F | .error e => .error e := by
  induction a generalizing T with
  | zero => simp [iter]
  | succ a ih =>
    rw [show a + 1 + b = (a + b) + 1 by omega]
    cases h : expandStep T with
    | error e => simp [iter, h]
    | ok T' => rw [iter_succ_ok h, iter_succ_ok h, ih]

/-- the invariant of the iteration: from the ranking of the start, after `n` calls `n` more levels are settled -/
theorem iter_ranked {B : Nat} : ∀ (n : Nat) (T : List Rule) (rk : Str → Nat) (k : Nat), Resolves T → NamesOK T → Ranked T rk k →
    (∀ r ∈ T, rk r.tmId < B) →
    ∃ F rk', iter n T = .ok F ∧ Resolves F ∧ NamesOK F ∧ Ranked F rk' (k + n) ∧ (∀ r ∈ F, rk' r.tmId < B) ∧
      T.length ≤ F.length ∧ (1 ≤ n → Named F) := by
  intro n
  induction n with
  | zero => intro T rk k hres hok hR hB; exact ⟨T, rk, rfl, hres, hok, hR, hB, Nat.le_refl _, fun h => absurd h (by omega)⟩
  | succ n ih =>
    intro T rk k hres hok hR hB
    obtain ⟨T', hT'⟩ := step_ok hres
    have hres' := step_resolves hres hok hT'
    have hnamed' := step_named hres hok hT'
    have hok' := named_namesOK hnamed'
    obtain ⟨hR', hB'⟩ := C13_expand_measure hres hok hT' hR
    obtain ⟨F, rk', hF, hresF, hokF, hRF, hBF, hlen, hnamedF⟩ := ih T' _ (k + 1) hres' hok' hR' (hB' B hB)
    refine ⟨F, rk', by rw [iter_succ_ok hT', hF], hresF, hokF, by rw [show k + (n + 1) = k + 1 + n by omega]; exact hRF, hBF,
      Nat.le_trans (step_prefix hT').1 hlen, fun _ => ?_⟩
    rcases Nat.eq_zero_or_pos n with rfl | hn
    · simp only [iter] at hF; cases hF; exact hnamed'
    · exact hnamedF hn

/-- on an acyclic table whose references resolve, `T.length + 1` calls reach a fixpoint; further calls change nothing -/
theorem iter_reaches_fixpoint {T : List Rule} (hres : Resolves T) (hok : NamesOK T) (hac : AcyclicQuoting T = true) :
    ∃ F, (∀ m, T.length + 1 ≤ m → iter m T = .ok F) ∧ expandStep F = .ok F ∧ Positional F ∧ (names F).Nodup ∧ Resolves F ∧
      ∃ rk, Ranked F rk (T.length + 1) ∧ ∀ r ∈ F, rk r.tmId < T.length + 1 := by
  obtain ⟨hR, hB⟩ := acyclic_ranked hac
  obtain ⟨F, rk', hF, hresF, _, hRF, hBF, _, hnamedF⟩ := iter_ranked (T.length + 1) T _ 0 hres hok hR hB
  rw [Nat.zero_add] at hRF
  obtain ⟨hpos, hnd, hfix⟩ := settled_fixpoint hresF (hnamedF (by omega)) hRF hBF
  refine ⟨F, fun m hm => ?_, hfix, hpos, hnd, hresF, rk', hRF, hBF⟩
  obtain ⟨d, rfl⟩ : ∃ d, m = T.length + 1 + d := ⟨m - (T.length + 1), by omega⟩
  rw [iter_add, hF]
  exact iter_fix hfix d

/-! ### the loop of `_normalize_rml_star` -/

theorem normLoop_succ (f num : Nat) (T R1 : List Rule) (h1 : expandStep T = .ok R1) :
    normLoop (f + 1) num T = if num = R1.length then .ok (some R1) else
      match expandStep R1 with
      | .ok R2 => normLoop f R1.length R2
      | .error e => .error e := by
  simp only [normLoop, h1, bind, Except.bind, pure, Except.pure]
  split
  · rfl
  · cases expandStep R1 <;> rfl

/-- the loop stops at the fixpoint the iteration reaches, whatever the fuel beyond half the number of calls needed plus two -/
theorem loop_reaches {F : List Rule} (hF : expandStep F = .ok F) : ∀ (f b : Nat) (T : List Rule) (num : Nat),
    Resolves T → NamesOK T → num ≤ T.length → (∀ m, b ≤ m → iter m T = .ok F) → b / 2 + 2 ≤ f →
    normLoop f num T = .ok (some F) := by
  intro f
  induction f with
  | zero => intro b T num _ _ _ _ hf; omega
  | succ f ih =>
    intro b T num hres hok hnum hst hf
    obtain ⟨R1, h1⟩ := step_ok hres
    have hres1 := step_resolves hres hok h1
    have hok1 := named_namesOK (step_named hres hok h1)
    have hlen1 := (step_prefix h1).1
    rw [normLoop_succ f num T R1 h1]
    by_cases hn : num = R1.length
    · simp only [hn, ↓reduceIte]
      have hfix1 := (step_same_length_fixpoint hres hok h1 (by omega)).2.2
      have := hst (b + 1) (by omega)
      rw [iter_succ_ok h1, iter_fix hfix1] at this
      rw [Except.ok.inj this]
    · simp only [hn, ↓reduceIte]
      obtain ⟨R2, h2⟩ := step_ok hres1
      have hres2 := step_resolves hres1 hok1 h2
      have hok2 := named_namesOK (step_named hres1 hok1 h2)
      have hlen2 := (step_prefix h2).1
      simp only [h2]
      have hst2 : ∀ m, b - 2 ≤ m → iter m R2 = .ok F := by
        intro m hm
        have := hst (m + 2) (by omega)
        rwa [show m + 2 = (m + 1) + 1 by omega, iter_succ_ok h1, iter_succ_ok h2] at this
      rcases Nat.lt_or_ge b 2 with hb | hb
      · -- the fixpoint was already reached: `R2 = F`, the next round stops
        have e2 : R2 = F := by
          have := hst2 0 (by omega)
          simpa [iter] using this
        subst e2
        have e1 : R1 = R2 := by
          have := hst 1 (by omega)
          rw [iter_succ_ok h1] at this
          have h' : iter 0 R1 = .ok R1 := rfl
          rw [h'] at this
          exact Except.ok.inj this
        subst e1
        obtain ⟨f', rfl⟩ : ∃ f', f = f' + 1 := ⟨f - 1, by omega⟩
        rw [normLoop_succ f' R1.length R1 R1 hF]
        simp
      · exact ih (b - 2) R2 R1.length hres2 hok2 hlen2 hst2 (by omega)

/-- **`_normalize_rml_star` terminates on acyclic quoting.**  On a table whose quoted references resolve and in which no triples
    map quotes itself (directly or through others), the loop stops — with any fuel from `(T.length + 1) / 2 + 2` on, in
    particular with the fuel of the model — and what it returns is a fixpoint of `_expand_rml_star`, the same for every fuel:
    the table that `T.length + 1` (or more) calls produce. -/
theorem C13_expand_terminates {T : List Rule} (hres : Resolves T) (hok : NamesOK T) (hac : AcyclicQuoting T = true) :
    ∃ F, (∀ fuel, (T.length + 1) / 2 + 2 ≤ fuel → normLoop fuel T.length T = .ok (some F)) ∧
      normalizeStar T = .ok (some F) ∧ expandStep F = .ok F ∧ (∀ m, T.length + 1 ≤ m → iter m T = .ok F) := by
  obtain ⟨F, hst, hfix, _⟩ := iter_reaches_fixpoint hres hok hac
  have hl := fun fuel hf => loop_reaches hfix fuel (T.length + 1) T T.length hres hok (Nat.le_refl _) hst hf
  exact ⟨F, hl, hl _ (by omega), hfix, hst⟩


/-! ### what the final table is: the complete unfoldings -/

/-- a rule with the rules it quotes, to the bottom: (rule, unfolding of the quoted subject rule, unfolding of the quoted object rule) -/
inductive QTree where
  | nil
  | node (r : Rule) (s o : QTree)

/-- a rule without the names the renumbering changes: its own triples map name and the values that refer to triples maps -/
def strip (r : Rule) : Rule :=
  { r with tmId := [], subjectMapValue := if refersToTm r.subjectMapType then [] else r.subjectMapValue,
           objectMapValue := if refersToTm r.objectMapType then [] else r.objectMapValue }

/-- **The product the RML-star rules prescribe**, read off a table directly: the complete unfoldings of a rule are the rule with,
    at each quoted position, each complete unfolding of EACH rule of the quoted triples map (quoting followed to depth `d`). -/
def unfold (T : List Rule) : Nat → Rule → List QTree
  | 0, _ => []
  | d + 1, r =>
    let sub : MapType → Str → List QTree := fun mt v =>
      if mt = .quoted then (T.filter (·.tmId = v)).flatMap (unfold T d) else [.nil]
    (sub r.subjectMapType r.subjectMapValue).flatMap fun s =>
      (sub r.objectMapType r.objectMapValue).map fun o => .node (strip r) s o

/-- the unfoldings at one position -/
def subOK (T : List Rule) (d : Nat) (mt : MapType) (v : Str) (s : QTree) : Prop :=
  if mt = .quoted then ∃ q ∈ T, q.tmId = v ∧ s ∈ unfold T d q else s = .nil

theorem mem_unfold_succ (T : List Rule) (d : Nat) (r : Rule) (tr : QTree) :
    tr ∈ unfold T (d + 1) r ↔ ∃ s o, subOK T d r.subjectMapType r.subjectMapValue s ∧
      subOK T d r.objectMapType r.objectMapValue o ∧ tr = .node (strip r) s o := by
  have hsub : ∀ (mt : MapType) (v : Str) (s : QTree),
      s ∈ (if mt = .quoted then (T.filter (·.tmId = v)).flatMap (unfold T d) else [QTree.nil]) ↔ subOK T d mt v s := by
    intro mt v s
    unfold subOK
    split
    · simp only [List.mem_flatMap, List.mem_filter, decide_eq_true_eq]
      constructor
      · rintro ⟨q, ⟨hq, hv⟩, hs⟩; exact ⟨q, hq, hv, hs⟩
      · rintro ⟨q, hq, hv, hs⟩; exact ⟨q, ⟨hq, hv⟩, hs⟩
    · simp
  simp only [unfold, List.mem_flatMap, List.mem_map, hsub]
  constructor
  · rintro ⟨s, hs, o, ho, rfl⟩; exact ⟨s, o, hs, ho, rfl⟩
  · rintro ⟨s, o, hs, ho, rfl⟩; exact ⟨s, hs, o, ho, rfl⟩

theorem strip_choice {T : List Rule} {mt : MapType} {v S : Str} (hS : S ∈ choices T mt v) :
    (if refersToTm mt then [] else S) = (if refersToTm mt then [] else v) := by
  by_cases hq : mt = .quoted
  · simp [refersToTm, hq]
  · simp only [choices, hq, ↓reduceIte, List.mem_singleton] at hS
    by_cases hp : mt = .parentTM
    · simp [refersToTm, hp]
    · simp [hS, hp]

/-- **One call keeps the unfoldings**: the complete unfoldings of the rules named `#TM<i>` after the call are those of the rule at
    position `i` before it. -/
theorem unfold_step {T T' : List Rule} (hres : Resolves T) (hok : NamesOK T) (h : expandStep T = .ok T') :
    ∀ (d i : Nat) (r : Rule), T[i]? = some r → ∀ tr,
      (∃ r' ∈ T', r'.tmId = ruleId i ∧ tr ∈ unfold T' d r') ↔ tr ∈ unfold T d r := by
  intro d
  induction d with
  | zero =>
    intro i r _ tr
    simp [unfold]
  | succ d ih =>
    intro i r hi tr
    have hr : r ∈ T := List.mem_iff_getElem?.mpr ⟨i, hi⟩
    -- one position
    have hpos : ∀ (mt : MapType) (v : Str), (mt = .quoted → v ∈ names T) → ∀ s,
        (∃ S ∈ choices T mt v, subOK T' d mt S s) ↔ subOK T d mt v s := by
      intro mt v hv s
      by_cases hq : mt = .quoted
      · simp only [subOK, hq, ↓reduceIte, choices]
        constructor
        · rintro ⟨S, hS, q', hq', hname, hs⟩
          obtain ⟨j, rj, hj, hjv, rfl⟩ := (mem_idsOf_iff T _ _).mp hS
          exact ⟨rj, List.mem_iff_getElem?.mpr ⟨j, hj⟩, hjv, (ih j rj hj s).mp ⟨q', hq', hname, hs⟩⟩
        · rintro ⟨q, hqT, hqv, hs⟩
          obtain ⟨j, hj⟩ := List.mem_iff_getElem?.mp hqT
          obtain ⟨q', hq', hname, hs'⟩ := (ih j q hj s).mpr hs
          exact ⟨ruleId j, (mem_idsOf_iff T _ _).mpr ⟨j, q, hj, hqv, rfl⟩, q', hq', hname, hs'⟩
      · simp only [subOK, hq, ↓reduceIte, choices, List.mem_singleton]
        constructor
        · rintro ⟨_, _, hs⟩; exact hs
        · intro hs; exact ⟨_, rfl, hs⟩
    constructor
    · rintro ⟨r', hr', hname, htr⟩
      obtain ⟨i2, r2, hi2, S, hS, O, hO, rfl⟩ := (mem_step hres hok h r').mp hr'
      have : i2 = i := ruleId_inj hname
      subst this
      rw [hi] at hi2; cases hi2
      obtain ⟨s, o, hs, ho, rfl⟩ := (mem_unfold_succ T' d _ tr).mp htr
      refine (mem_unfold_succ T d r _).mpr ⟨s, o, (hpos _ _ (hres r hr).1 s).mp ⟨S, hS, hs⟩,
        (hpos _ _ (hres r hr).2 o).mp ⟨O, hO, ho⟩, ?_⟩
      simp only [strip, strip_choice hS, strip_choice hO]
    · intro htr
      obtain ⟨s, o, hs, ho, rfl⟩ := (mem_unfold_succ T d r tr).mp htr
      obtain ⟨S, hS, hs'⟩ := (hpos _ _ (hres r hr).1 s).mpr hs
      obtain ⟨O, hO, ho'⟩ := (hpos _ _ (hres r hr).2 o).mpr ho
      refine ⟨{ r with tmId := ruleId i, subjectMapValue := S, objectMapValue := O },
        (mem_step hres hok h _).mpr ⟨i, r, hi, S, hS, O, hO, rfl⟩, rfl, ?_⟩
      refine (mem_unfold_succ T' d _ _).mpr ⟨s, o, hs', ho', ?_⟩
      simp only [strip, strip_choice hS, strip_choice hO]

/-- all complete unfoldings of a table -/
def allUnfold (T : List Rule) (d : Nat) : List QTree := T.flatMap (unfold T d)

theorem allUnfold_step {T T' : List Rule} (hres : Resolves T) (hok : NamesOK T) (h : expandStep T = .ok T') (d : Nat) (tr : QTree) :
    tr ∈ allUnfold T' d ↔ tr ∈ allUnfold T d := by
  simp only [allUnfold, List.mem_flatMap]
  constructor
  · rintro ⟨r', hr', htr⟩
    obtain ⟨i, r, hi, S, _, O, _, rfl⟩ := (mem_step hres hok h r').mp hr'
    exact ⟨r, List.mem_iff_getElem?.mpr ⟨i, hi⟩, (unfold_step hres hok h d i r hi tr).mp ⟨_, hr', rfl, htr⟩⟩
  · rintro ⟨r, hr, htr⟩
    obtain ⟨i, hi⟩ := List.mem_iff_getElem?.mp hr
    obtain ⟨r', hr', _, htr'⟩ := (unfold_step hres hok h d i r hi tr).mpr htr
    exact ⟨r', hr', htr'⟩

theorem allUnfold_iter : ∀ (n : Nat) (T F : List Rule), Resolves T → NamesOK T → iter n T = .ok F →
    ∀ d tr, tr ∈ allUnfold F d ↔ tr ∈ allUnfold T d := by
  intro n
  induction n with
  | zero => intro T F _ _ h d tr; simp only [iter, Except.ok.injEq] at h; rw [h]
  | succ n ih =>
    intro T F hres hok h d tr
    obtain ⟨T', hT'⟩ := step_ok hres
    rw [iter_succ_ok hT'] at h
    rw [ih T' F (step_resolves hres hok hT') (named_namesOK (step_named hres hok hT')) h d tr,
      allUnfold_step hres hok hT' d tr]

theorem flatMap_le_one {α β} (l : List α) (f : α → List β) (hl : l.length ≤ 1) (hf : ∀ a ∈ l, (f a).length ≤ 1) :
    (l.flatMap f).length ≤ 1 := by
  match l, hl with
  | [], _ => simp
  | [a], _ => simpa using hf a (by simp)
  | _ :: _ :: _, h => simp at h

theorem filter_name_le_one {F : List Rule} (hnd : (names F).Nodup) (v : Str) : (F.filter (·.tmId = v)).length ≤ 1 := by
  have : ∀ (l : List Rule), (l.map (·.tmId)).Nodup → (l.filter (·.tmId = v)).length ≤ 1 := by
    intro l
    induction l with
    | nil => intro _; simp
    | cons a l ih =>
      intro hn
      simp only [List.map_cons, List.nodup_cons] at hn
      by_cases ha : a.tmId = v
      · have : l.filter (·.tmId = v) = [] := by
          apply List.filter_eq_nil_iff.mpr
          intro x hx hxv
          exact hn.1 (List.mem_map.mpr ⟨x, hx, by rw [ha]; simpa using hxv⟩)
        simp [ha, this]
      · simp only [List.filter_cons, ha, decide_false, Bool.false_eq_true, ↓reduceIte]
        exact ih hn.2
  exact this F hnd

/-- in a self-named table a rule has at most one complete unfolding: it IS one combination -/
theorem unfold_le_one {F : List Rule} (hnd : (names F).Nodup) : ∀ (d : Nat) (r : Rule), (unfold F d r).length ≤ 1 := by
  have hfil := filter_name_le_one hnd
  intro d
  induction d with
  | zero => intro r; simp [unfold]
  | succ d ih =>
    intro r
    have hsub : ∀ (mt : MapType) (v : Str),
        (if mt = .quoted then (F.filter (·.tmId = v)).flatMap (unfold F d) else [QTree.nil]).length ≤ 1 := by
      intro mt v
      split
      · exact flatMap_le_one _ _ (hfil v) (fun q _ => ih q)
      · simp
    simp only [unfold]
    exact flatMap_le_one _ _ (hsub _ _) (fun s _ => by rw [List.length_map]; exact hsub _ _)


/-! ### the final table in the form `Props.C13.C13_quoted_partial` takes -/

theorem posOf_quoted {p : Pos} (h : (posOf p).1 = .quoted) : ∃ id conds, p = .quoted id conds := by
  cases p with
  | term tm =>
    exfalso
    simp only [posOf, mapOf] at h
    cases hk : tm.kind <;> simp [hk] at h
  | quoted id conds => exact ⟨id, conds, rfl⟩

/-- a ranking of the flat rules bounds their quoting depth, and every quoted reference is found -/
theorem ranked_depthLe {frs : List FlatRule} {rk : Str → Nat} {K : Nat} (hres : Resolves (frs.map toRule))
    (hR : Ranked (frs.map toRule) rk K) : ∀ (n : Nat) (fr : FlatRule), fr ∈ frs → rk fr.id ≤ n → depthLe frs n fr = true := by
  have hfind : ∀ id, id ∈ names (frs.map toRule) → ∃ q, findFlat frs id = some q ∧ q ∈ frs ∧ q.id = id := by
    intro id hid
    simp only [names, List.map_map, List.mem_map, Function.comp] at hid
    obtain ⟨q0, hq0, hq0id⟩ := hid
    cases hf : findFlat frs id with
    | none =>
      have := List.find?_eq_none.mp hf q0 hq0
      simp only [decide_eq_true_eq] at this
      exact absurd hq0id this
    | some q =>
      have hm := List.mem_of_find?_eq_some hf
      have hp := List.find?_some hf
      exact ⟨q, rfl, hm, by simpa using hp⟩
  have hq : ∀ fr ∈ frs, (∀ id conds, fr.subject = .quoted id conds → id ∈ names (frs.map toRule) ∧ rk id < rk fr.id) ∧
      (∀ id conds, fr.object = .quoted id conds → id ∈ names (frs.map toRule) ∧ rk id < rk fr.id) := by
    intro fr hfr
    have hm : toRule fr ∈ frs.map toRule := List.mem_map.mpr ⟨fr, hfr, rfl⟩
    constructor
    · intro id conds hs
      have h1 := (hres _ hm).1 (by simp [toRule, hs, posOf])
      have h2 := (hR.quote _ hm).1 (by simp [toRule, hs, posOf])
      simp only [toRule, hs, posOf] at h1 h2
      exact ⟨h1, h2⟩
    · intro id conds hs
      have h1 := (hres _ hm).2 (by simp [toRule, hs, posOf])
      have h2 := (hR.quote _ hm).2 (by simp [toRule, hs, posOf])
      simp only [toRule, hs, posOf] at h1 h2
      exact ⟨h1, h2⟩
  intro n
  induction n with
  | zero =>
    intro fr hfr hrk
    simp only [depthLe, Bool.and_eq_true, Option.isNone_iff_eq_none]
    constructor
    · cases hs : fr.subject with
      | term tm => rfl
      | quoted id conds => have := ((hq fr hfr).1 id conds hs).2; omega
    · cases hs : fr.object with
      | term tm => rfl
      | quoted id conds => have := ((hq fr hfr).2 id conds hs).2; omega
  | succ n ih =>
    intro fr hfr hrk
    simp only [depthLe, Bool.and_eq_true]
    constructor
    · cases hs : fr.subject with
      | term tm => rfl
      | quoted id conds =>
        obtain ⟨hid, hlt⟩ := (hq fr hfr).1 id conds hs
        obtain ⟨q, hfq, hqm, hqid⟩ := hfind id hid
        simp only [hfq]
        exact ih q hqm (by rw [hqid]; omega)
    · cases hs : fr.object with
      | term tm => rfl
      | quoted id conds =>
        obtain ⟨hid, hlt⟩ := (hq fr hfr).2 id conds hs
        obtain ⟨q, hfq, hqm, hqid⟩ := hfind id hid
        simp only [hfq]
        exact ih q hqm (by rw [hqid]; omega)

theorem filter_name_eq_one {F : List Rule} (hnd : (names F).Nodup) {v : Str} (hv : v ∈ names F) :
    (F.filter (·.tmId = v)).length = 1 := by
  have h1 := filter_name_le_one hnd v
  obtain ⟨q, hq, hqv⟩ := List.mem_map.mp hv
  have : q ∈ F.filter (·.tmId = v) := List.mem_filter.mpr ⟨hq, by simpa using hqv⟩
  have : 0 < (F.filter (·.tmId = v)).length := List.length_pos_of_mem this
  omega

/-- **What `_normalize_rml_star` returns on acyclic quoting.**  The loop returns a table `F` such that
    * every rule is its own triples map `#TM<position>` and `F` is a fixpoint of `_expand_rml_star`;
    * every quoted position names exactly one rule of `F`;
    * the complete unfoldings (rule, unfolding of its quoted subject rule, unfolding of its quoted object rule) of the rules of `F`
      are exactly those the table before the loop prescribes — each rule once with each complete unfolding of EACH rule of
      the triples map it quotes, transitively —, and each rule of `F` is one such combination;
    * read as flat rules (`F = frs.map toRule`), quoting is acyclic and resolves in the sense `Props.C13.C13_quoted_partial`
      uses (`AcyclicFlat`, the structural part of `okAt … frs.length`). -/
theorem C13_expand_result {T : List Rule} (hres : Resolves T) (hok : NamesOK T) (hac : AcyclicQuoting T = true) :
    ∃ F, normalizeStar T = .ok (some F) ∧ expandStep F = .ok F ∧ Positional F ∧ (names F).Nodup ∧ Resolves F ∧
      (∀ r ∈ F, (r.subjectMapType = .quoted → (F.filter (·.tmId = r.subjectMapValue)).length = 1) ∧
        (r.objectMapType = .quoted → (F.filter (·.tmId = r.objectMapValue)).length = 1)) ∧
      (∀ d tr, tr ∈ allUnfold F d ↔ tr ∈ allUnfold T d) ∧ (∀ d r, (unfold F d r).length ≤ 1) ∧
      (∀ frs, F = frs.map toRule → AcyclicFlat frs = true) := by
  obtain ⟨F, hst, hfix, hpos, hnd, hresF, rk, hRF, hBF⟩ := iter_reaches_fixpoint hres hok hac
  obtain ⟨F', _, hnorm, _, hst'⟩ := C13_expand_terminates hres hok hac
  have : F' = F := by
    have h1 := hst (T.length + 1) (Nat.le_refl _)
    have h2 := hst' (T.length + 1) (Nat.le_refl _)
    rw [h1] at h2
    exact (Except.ok.inj h2).symm
  subst this
  have hiter := hst (T.length + 1) (Nat.le_refl _)
  have hlen : T.length ≤ F'.length := by
    obtain ⟨hR, hB⟩ := acyclic_ranked hac
    obtain ⟨F2, _, hF2, _, _, _, _, hl, _⟩ := iter_ranked (T.length + 1) T _ 0 hres hok hR hB
    rw [hiter] at hF2
    cases hF2
    exact hl
  refine ⟨F', hnorm, hfix, hpos, hnd, hresF,
    fun r hr => ⟨fun hq => filter_name_eq_one hnd ((hresF r hr).1 hq), fun hq => filter_name_eq_one hnd ((hresF r hr).2 hq)⟩,
    allUnfold_iter _ T F' hres hok hiter, unfold_le_one hnd, ?_⟩
  intro frs hfrs
  subst hfrs
  simp only [AcyclicFlat, List.all_eq_true]
  intro fr hfr
  apply ranked_depthLe hresF hRF frs.length fr hfr
  have := hBF (toRule fr) (List.mem_map.mpr ⟨fr, hfr, rfl⟩)
  simp only [toRule] at this
  simp only [List.length_map] at hlen
  omega


/-- the same for a document: `_preprocess_mappings` (star normalisation, then self-join elimination) returns -/
theorem C13_normalizeDocStar_terminates {doc : SDoc} (hres : Resolves (rulesOfDoc doc)) (hok : NamesOK (rulesOfDoc doc))
    (hac : AcyclicQuoting (rulesOfDoc doc) = true) :
    ∃ F, normalizeDocStar doc = .ok (some (F.map (eliminateSelfJoin F))) ∧ expandStep F = .ok F ∧ Positional F ∧
      ∀ d tr, tr ∈ allUnfold F d ↔ tr ∈ allUnfold (rulesOfDoc doc) d := by
  obtain ⟨F, hnorm, hfix, hpos, _, _, _, hun, _⟩ := C13_expand_result hres hok hac
  exact ⟨F, by simp [normalizeDocStar, hnorm, bind, Except.bind, pure, Except.pure], hfix, hpos, hun⟩

/-
NOT proved here (the full document-level statement, for the record):

  theorem C13_document_level {env : Env} {senv : SEnv} (henv : EnvOK env senv) (doc : SDoc)
      (hac : Spec.Star.AcyclicQuoting doc = true) (hfrag : … the per-rule hypotheses of `C13_quoted_partial` …) :
      ∃ F out, normalizeDocStar doc = .ok (some F) ∧ evalAllStar env F = .ok out ∧
        ∀ line, line ∈ out ↔ line ∈ Spec.Star.evalDoc senv doc doc.tms.length

What `C13_expand_result` gives towards it: the loop returns, the table is self-named, acyclic, every quoted position names exactly
one rule (the shape `C13_quoted_partial` takes), and the set of complete unfoldings is that of `rulesOfDoc doc`.  Missing: (i) the
statements of a final flat rule (`Spec.Star.flatLines`) as a function of its complete unfolding `QTree` alone; (ii) the same reading
of `Spec.Star.stmtsOf` over `allUnfold (rulesOfDoc doc)` (the `combos` of a triples map are its rules in `rulesOfTm`); (iii) that
`Spec.Star.AcyclicQuoting doc` implies `AcyclicQuoting (rulesOfDoc doc)` (both hold of the example below, by `decide`).
-/

/-! ### non-vacuity: a document of quoting depth 2; and quoting cycles -/

namespace Ex

/-- the rule table of `Props.C13.Ex.docE`: `T` quotes `M` (object position), `M` quotes `B` (subject position, join), `B` has two
    predicate-object maps — quoting depth 2, four rules -/
def T0 : List Rule := rulesOfDoc Props.C13.Ex.docE

theorem T0_resolves : Resolves T0 := by decide +kernel
theorem T0_namesOK : NamesOK T0 := by decide +kernel
theorem T0_acyclic : AcyclicQuoting T0 = true := by decide +kernel

/-- the ranks are the quoting depths 0, 0, 1, 2 -/
example : T0.map (fun r => rank0 T0 r.tmId) = [0, 0, 1, 2] := by decide +kernel

/-- the hypotheses of `C13_expand_measure` hold of it (and of each table of the iteration, by the theorem itself) -/
example : Ranked T0 (rank0 T0) 0 := (acyclic_ranked T0_acyclic).1

example : ∃ F, (∀ fuel, (T0.length + 1) / 2 + 2 ≤ fuel → normLoop fuel T0.length T0 = .ok (some F)) ∧
    normalizeStar T0 = .ok (some F) ∧ expandStep F = .ok F ∧ (∀ m, T0.length + 1 ≤ m → iter m T0 = .ok F) :=
  C13_expand_terminates T0_resolves T0_namesOK T0_acyclic

/-- what the loop returns there: six rules (two for `B`, `M` once per rule of `B`, `T` once per copy of `M`); three calls reach
    it, the table before is not yet a fixpoint; the complete unfoldings are the two chains `T « M « B.pb » »`, `T « M « B.pm » »`
    plus those of the quoted rules themselves -/
example : (match normalizeStar T0 with | .ok (some F) => (F.length, F.map (·.tmId) == (List.range 6).map ruleId) | _ => (0, false)) = (6, true) ∧
    normalizeStar T0 = (match iter 3 T0 with | .ok F => .ok (some F) | .error e => .error e) ∧ iter 2 T0 ≠ iter 3 T0 ∧
    (allUnfold T0 3).length = 6 := by
  decide +kernel

example : ∃ F, normalizeDocStar Props.C13.Ex.docE = .ok (some (F.map (eliminateSelfJoin F))) ∧ expandStep F = .ok F ∧ Positional F ∧
    ∀ d tr, tr ∈ allUnfold F d ↔ tr ∈ allUnfold (rulesOfDoc Props.C13.Ex.docE) d :=
  C13_normalizeDocStar_terminates T0_resolves T0_namesOK T0_acyclic

example : ∃ F, normalizeStar T0 = .ok (some F) ∧ expandStep F = .ok F ∧ Positional F ∧ (names F).Nodup ∧ Resolves F ∧
    (∀ r ∈ F, (r.subjectMapType = .quoted → (F.filter (·.tmId = r.subjectMapValue)).length = 1) ∧
      (r.objectMapType = .quoted → (F.filter (·.tmId = r.objectMapValue)).length = 1)) ∧
    (∀ d tr, tr ∈ allUnfold F d ↔ tr ∈ allUnfold T0 d) ∧ (∀ d r, (unfold F d r).length ≤ 1) ∧
    (∀ frs, F = frs.map toRule → AcyclicFlat frs = true) :=
  C13_expand_result T0_resolves T0_namesOK T0_acyclic

/-- the document-level acyclicity of `Spec/Star.lean` holds of the same document -/
example : Spec.Star.AcyclicQuoting Props.C13.Ex.docE = true := by decide +kernel

/-- two triples maps quoting each other (the first with two predicate-object maps) -/
def cycA0 : Rule :=
  { tmId := "A".toList, subjectMapType := .quoted, subjectMapValue := "B".toList, subjectTermtype := .star,
    predicateMapValue := "http://ex.org/p0".toList, objectMapValue := "http://ex.org/o".toList }
def cycA1 : Rule := { cycA0 with predicateMapValue := "http://ex.org/p1".toList }
def cycB : Rule :=
  { tmId := "B".toList, subjectMapType := .quoted, subjectMapValue := "A".toList, subjectTermtype := .star,
    predicateMapValue := "http://ex.org/q".toList, objectMapValue := "http://ex.org/o".toList }
def cyc : List Rule := [cycA0, cycA1, cycB]

end Ex

/-- the cycle is what `AcyclicQuoting` excludes; the other two hypotheses hold -/
theorem C13_cyclic_outside_hypotheses : AcyclicQuoting Ex.cyc = false ∧ Resolves Ex.cyc ∧ NamesOK Ex.cyc := by decide +kernel

/-- **Quoting cycles: the table grows with every call.**  Each call of `_expand_rml_star` succeeds and appends rules: 3, 4, 6, 8,
    12, 16, 24 rules after 0 … 6 calls (32, 48, … after that) (every second call doubles the table) — no call leaves the length unchanged. -/
theorem C13_cyclic_grows :
    (List.range 7).map (fun k => match iter k Ex.cyc with | .ok F => F.length | .error _ => 0) = [3, 4, 6, 8, 12, 16, 24] := by
  decide +kernel

/-- … so the loop of `_normalize_rml_star` does not stop: within every fuel up to 4 rounds (8 calls) the model's loop runs out of
    fuel (`none`), as the real `_normalize_rml_star` runs until memory is exhausted -/
theorem C13_cyclic_no_fixpoint : ∀ fuel, fuel ≤ 4 → normLoop fuel Ex.cyc.length Ex.cyc = .ok none := by
  decide +kernel

end Props.C13Fix
