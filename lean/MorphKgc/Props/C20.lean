/-
C20 — Inferred literal datatypes follow the R2RML natural mapping of SQL types.

`Model.sqlLookup` is the generated table (`Gen.sqlRdfDatatype`) with the generated lookup kind
(`Gen.sqlLookupKind`): the theorems below are re-checked against what /repo says now.
-/
import MorphKgc.Gen.SqlTypes
import MorphKgc.Spec.SqlTypes
import MorphKgc.Model.Infer

namespace Props.C20
open Py Model

/-- the engine's lookup as it is in /repo now -/
def sqlLookup (catalogueType : Str) : Option Str :=
  sqlLookupWith Gen.sqlLookupKind Gen.sqlRdfDatatype catalogueType

/-! ### finite tables: decided completely (every entry, not a sample) -/

/-- every key of the engine's own table is mapped to its own value -/
theorem C20_table_self_consistent :
    ∀ kv ∈ Gen.sqlRdfDatatype, sqlLookup kv.1 = some kv.2 := by decide +kernel

/-- R2RML §10.2 on every SQL 2008 type name, upper and lower case -/
theorem C20_natural_mapping :
    ∀ p ∈ Spec.naturalMapping, sqlLookup p.1.toList = p.2 ∧ sqlLookup (asciiLower p.1.toList) = p.2 := by
  decide +kernel

/-- every `data_type` string the supported DBMS catalogues report -/
theorem C20_dbms_catalog_names :
    ∀ p ∈ Spec.dbmsCatalogNames, sqlLookup p.1.toList = p.2 ∧ sqlLookup (asciiUpper p.1.toList) = p.2 := by
  decide +kernel

theorem C20_character_types : ∀ n ∈ Spec.characterTypes, sqlLookup n.toList = none := by decide +kernel

/-! ### parameters of any length: `VARCHAR(255)`, `NUMERIC(38,10)`, `TIMESTAMP(6)`, … -/

/-- side condition on the generated table: every key starts with an upper-case letter and contains no `(` -/
def KeysOK (table : List (Str × Str)) : Bool :=
  table.all fun kv => (match kv.1 with | c :: _ => c.isUpper | [] => false) && !kv.1.contains '('

theorem isPrefixOf_append_of_length_le {k s a : Str} (h : k.length ≤ s.length) :
    k.isPrefixOf (s ++ a) = k.isPrefixOf s := by
  induction k generalizing s with
  | nil => simp
  | cons c k ih =>
    cases s with
    | nil => simp at h
    | cons d s =>
      simp only [List.cons_append, List.isPrefixOf_cons_cons]
      rw [ih (by simpa using h)]

theorem isPrefixOf_false_of_head {k : Str} {c : Char} {s : Str} {d : Char} (hk : k.head? = some d) (hne : d ≠ c) :
    k.isPrefixOf (c :: s) = false := by
  cases k with
  | nil => simp at hk
  | cons e k =>
    simp at hk; subst hk
    simp [List.isPrefixOf_cons_cons, hne]

/-- a key that needs more characters than `s` has cannot match `s ++ '(' :: r` when it contains no `(` -/
theorem isPrefixOf_paren_false {k s r : Str} (hlen : s.length < k.length) (hk : k.contains '(' = false) :
    k.isPrefixOf (s ++ '(' :: r) = false := by
  induction s generalizing k with
  | nil =>
    cases k with
    | nil => simp at hlen
    | cons e k =>
      have : e ≠ '(' := by
        intro h; subst h; simp at hk
      simp [List.isPrefixOf_cons_cons, this]
  | cons c s ih =>
    cases k with
    | nil => simp at hlen
    | cons e k =>
      simp only [List.cons_append, List.isPrefixOf_cons_cons]
      have hk' : k.contains '(' = false := by
        simp at hk ⊢; exact hk.2
      rw [ih (by simpa using hlen) hk']; simp

theorem wordOccursFrom_args_false (k : Str) (d : Char) (hd : d.isUpper = true) (hk : k.head? = some d)
    (a : Str) (ha : a.all (fun c => !(c.isAlpha || c = '_')) = true) (prev : Option Char) :
    wordOccursFrom k prev a = false := by
  induction a generalizing prev with
  | nil =>
    cases k with
    | nil => simp at hk
    | cons e k => simp [wordOccursFrom]
  | cons c a ih =>
    simp only [List.all_cons, Bool.and_eq_true] at ha
    have hc : d ≠ c := by
      intro h; subst h
      have h1 := ha.1
      have : d.isAlpha = true := by simp [Char.isAlpha, hd]
      simp [this] at h1
    simp only [wordOccursFrom, isPrefixOf_false_of_head hk hc, Bool.false_and, Bool.false_or]
    exact ih ha.2 _

theorem paren_all_of_isParenArgs {r : Str} (h : Spec.IsParenArgs ('(' :: r) = true) :
    ('(' :: r).all (fun c => !(c.isAlpha || c = '_')) = true := by
  simp only [Spec.IsParenArgs] at h
  simp only [List.all_cons, Bool.and_eq_true]
  exact ⟨by decide, h⟩

theorem wordOccursFrom_append_args (k : Str) (d : Char) (hd : d.isUpper = true) (hk : k.head? = some d)
    (hp : k.contains '(' = false) (r : Str) (hr : Spec.IsParenArgs ('(' :: r) = true)
    (s : Str) (prev : Option Char) :
    wordOccursFrom k prev (s ++ '(' :: r) = wordOccursFrom k prev s := by
  induction s generalizing prev with
  | nil =>
    rw [List.nil_append, wordOccursFrom_args_false k d hd hk _ (paren_all_of_isParenArgs hr)]
    cases k with
    | nil => simp at hk
    | cons e k => simp [wordOccursFrom]
  | cons c s ih =>
    simp only [List.cons_append, wordOccursFrom]
    rw [ih]
    congr 1
    rcases Nat.lt_or_ge (c :: s).length k.length with hlt | hge
    · -- the key is longer than what is left of the type name: no match either way
      have h1 : k.isPrefixOf (c :: (s ++ '(' :: r)) = false := by
        have := isPrefixOf_paren_false (k := k) (s := c :: s) (r := r) hlt hp
        simpa using this
      have h2 : k.isPrefixOf (c :: s) = false := by
        cases hpre : k.isPrefixOf (c :: s) with
        | false => rfl
        | true =>
          have := (List.isPrefixOf_iff_prefix.mp hpre).length_le
          omega
      simp [h1, h2]
    · have h1 : k.isPrefixOf (c :: (s ++ '(' :: r)) = k.isPrefixOf (c :: s) := by
        have := isPrefixOf_append_of_length_le (k := k) (s := c :: s) (a := '(' :: r) hge
        simpa using this
      rw [h1]
      congr 1
      -- the character after the occurrence: unchanged, or end-of-string became '('
      rcases Nat.lt_or_ge k.length (c :: s).length with hlt | hge'
      · have : ((c :: (s ++ '(' :: r)).drop k.length).head? = ((c :: s).drop k.length).head? := by
          have e : c :: (s ++ '(' :: r) = (c :: s) ++ '(' :: r := rfl
          rw [e, List.drop_append_of_le_length (Nat.le_of_lt hlt)]
          have : (List.drop k.length (c :: s)) ≠ [] := by
            intro h; have := List.drop_eq_nil_iff.mp h; omega
          cases hh : List.drop k.length (c :: s) with
          | nil => exact absurd hh this
          | cons x xs => simp
        rw [this]
      · have hl : k.length = (c :: s).length := Nat.le_antisymm hge hge'
        have e : c :: (s ++ '(' :: r) = (c :: s) ++ '(' :: r := rfl
        have d1 : (c :: s).drop k.length = [] := by rw [hl]; simp
        have d2 : (c :: (s ++ '(' :: r)).drop k.length = '(' :: r := by
          rw [e, hl]; simp
        rw [d1, d2]; simp [isWordAfter]

theorem isParenArgs_cons {c : Char} {r : Str} (h : Spec.IsParenArgs (c :: r) = true) : c = '(' := by
  unfold Spec.IsParenArgs at h
  split at h
  · rename_i heq; exact (List.cons.inj heq).1
  · simp at h

theorem wordOccurs_append_args {k : Str} {d : Char} (hd : d.isUpper = true) (hk : k.head? = some d)
    (hp : k.contains '(' = false) {a : Str} (ha : Spec.IsParenArgs a = true) (s : Str) :
    wordOccurs k (s ++ a) = wordOccurs k s := by
  cases a with
  | nil => simp [Spec.IsParenArgs] at ha
  | cons c r =>
    have := isParenArgs_cons ha
    subst this
    exact wordOccursFrom_append_args k d hd hk hp r ha s none

theorem asciiUpper_of_no_alpha {a : Str} (ha : a.all (fun c => !(c.isAlpha || c = '_')) = true) :
    asciiUpper a = a := by
  induction a with
  | nil => rfl
  | cons c a ih =>
    simp only [List.all_cons, Bool.and_eq_true] at ha
    have hc : c.isLower = false := by
      have h1 := ha.1
      simp only [Char.isAlpha, Bool.not_eq_true', Bool.or_eq_false_iff] at h1
      exact h1.1.2
    simp only [asciiUpper, List.map_cons, asciiUpperC, hc] at ih ⊢
    rw [show List.map asciiUpperC a = a from ih ha.2]; simp

theorem lookupLongestWord_append_args (table : List (Str × Str)) (hT : KeysOK table = true)
    (s a : Str) (ha : Spec.IsParenArgs a = true) :
    lookupLongestWord table (s ++ a) = lookupLongestWord table s := by
  unfold lookupLongestWord
  congr 2
  apply List.filter_congr
  intro kv hkv
  simp only [KeysOK, List.all_eq_true, Bool.and_eq_true, Bool.not_eq_true'] at hT
  have h := hT kv hkv
  cases hk : kv.1 with
  | nil => rw [hk] at h; simp at h
  | cons d k =>
    rw [hk] at h
    exact wordOccurs_append_args (k := d :: k) (d := d) h.1 rfl h.2 ha s

/-- For **every** catalogue string `n` and every parenthesised parameter list `a` (any length), the
    datatype inferred for `n ++ a` is the one inferred for `n`. -/
theorem C20_parameters (n a : Str) (ha : Spec.IsParenArgs a = true) : sqlLookup (n ++ a) = sqlLookup n := by
  have hk : Gen.sqlLookupKind = .longestWord := by decide
  have hT : KeysOK Gen.sqlRdfDatatype = true := by decide +kernel
  have hall : a.all (fun c => !(c.isAlpha || c = '_')) = true := by
    cases a with
    | nil => simp [Spec.IsParenArgs] at ha
    | cons c r =>
      have := isParenArgs_cons ha
      subst this
      exact paren_all_of_isParenArgs ha
  unfold sqlLookup sqlLookupWith
  simp only [hk]
  have : asciiUpper (n ++ a) = asciiUpper n ++ a := by
    simp only [asciiUpper, List.map_append]
    congr 1
    exact asciiUpper_of_no_alpha hall
  rw [this]
  exact lookupLongestWord_append_args _ hT _ _ ha

/-- non-vacuity: the hypotheses are met by real parameter lists and the conclusion is non-trivial -/
example : Spec.IsParenArgs "(38,10)".toList = true ∧ sqlLookup "numeric(38,10)".toList = Spec.xsd "decimal" := by
  decide +kernel

/-! ### when inference applies (frame conditions on the rule table) -/

theorem C20_override_explicit (lk : Rule → Option Str) (r : Rule) (h : r.langDatatype ≠ none) :
    inferRule true lk r = r := by
  simp [inferRule, h]

theorem C20_inference_off (lk : Rule → Option Str) (rs : List Rule) : inferDatatypes false lk rs = rs := by
  have : inferRule false lk = id := by funext r; simp [inferRule]
  simp [inferDatatypes, this]

theorem C20_only_reference_literals (lk : Rule → Option Str) (r : Rule)
    (h : r.objectMapType ≠ .reference ∨ r.objectTermtype ≠ .literal ∨ r.sourceType ≠ .rdb) :
    inferRule true lk r = r := by
  unfold inferRule
  rcases h with h | h | h <;> simp [h]

theorem C20_inferred (lk : Rule → Option Str) (r : Rule) (dt : Str)
    (h1 : r.objectMapType = .reference) (h2 : r.objectTermtype = .literal) (h3 : r.sourceType = .rdb)
    (h4 : r.langDatatype = none) (h5 : lk r = some dt) :
    (inferRule true lk r).langDatatype = some .datatypeMap ∧
    (inferRule true lk r).langDatatypeMapType = some .constant ∧
    (inferRule true lk r).langDatatypeMapValue = dt := by
  simp [inferRule, h1, h2, h3, h4, h5]

/-! ### logical tables given as queries: the tables of the query are asked in turn -/

/-- the loop of `get_rdb_reference_datatype` has the shape the model transcribes (`try: dt = lookup(table); if dt: break; except: pass`,
    no other exit) -/
theorem C20_ref_loop_shape : Gen.refLoopShape = { breakOnFound := true, exceptPasses := true, otherExits := false } := by decide

/-- **the datatype of a reference of an rr:sqlQuery source is that of the FIRST table of the query whose catalogue has a datatype for
    the column**, wherever in the query that table stands: tables that raise or answer nothing are skipped, for every list of tables -/
theorem C20_query_first_table_with_type (ask : Str → CatAnswer) (tables : List Str) :
    refDatatypeLoop ask tables = tables.findSome? (fun t => match ask t with | .datatype dt => some dt | _ => none) := by
  induction tables with
  | nil => rfl
  | cons t ts ih =>
    unfold refDatatypeLoop
    cases h : ask t <;> simp [List.findSome?, h, ih]

/-- in particular a typed column that only the second table of a join has is typed -/
example : refDatatypeLoop (fun t => if t = "T2".toList then .datatype "d".toList else .nothing) ["T1".toList, "T2".toList] = some "d".toList := by
  decide

end Props.C20
