/-
C18 — RDFLib graph and Oxigraph store hold exactly the generated statements.

`Gen.loaderRdflib` / `Gen.loaderOxigraph` are regenerated from `materialize` / `materialize_oxigraph` of
`src/morph_kgc/__init__.py` on every run (separator, terminator, guard, format string, input expression, target).
The theorems are stated for every `LoaderShape` that satisfies the decidable side conditions `FramingOK` /
`NQuadsFormat` / …, and `C18_gen_shapes` re-checks (by `decide`) that what /repo says *now* satisfies them; the
`…_gen` theorems are the instantiations.

What is proved (for statement lists of any length, any terms, nesting of `<< >>` of any depth):
* `C18_framing_lines`  — the framing alone: the lines of the text handed to the parser are exactly `l ++ "."`, one per element,
  in order (nothing merged, nothing lost, the last one terminated) — for any strings without a raw line feed;
* `C18_framing_parse`  — the specification parser (`Spec.NQ.parseDoc`, the reading of the W3C grammar) reads the framed text
  back as exactly the statements that were rendered: same number, same terms, same graph;
* `C18_empty`, `C18_unguarded_counterwitness` — the empty set: parser not called, empty result; without the guard the text `.` is not a document;
* `C18_exact_upto` / `C18_exact` / `C18_exact_partial` — given the contract that the third-party parser + store agrees with
  `Spec.NQ.parseDoc` on documents the latter accepts (up to the store's own normalisation `N` of terms), the returned graph / store
  holds exactly (the `N`-image of) the statements of the set; `N = id` is the full statement, `N st = st` on the set is ¬scope of
  findings C18_F2 / C18_F3 (both real stores rewrite the lexical forms of some typed literals);
* `C18_graph_object_view` — the reading "through the returned `Graph` object" (finding C18_F1).

Grammar productions covered by the round trip (`parse ∘ render = id`): IRIREF without UCHAR (the parser itself also decodes UCHAR),
BLANK_NODE_LABEL (including a label directly followed by the final dot), STRING_LITERAL_QUOTE with every ECHAR (the engine's escape
chain; the parser also decodes UCHAR), LANGTAG, `^^` IRIREF, quotedTriple (any nesting), optional graph label, both statement shapes.
-/
import MorphKgc.Gen.Loader
import MorphKgc.Lemmas.NQuads

namespace Props.C18
open Py Model Spec.NQ

/-! ### side conditions on the generated loader description -/

/-- the terminator is `.` or ` .`, and the separator is the terminator followed by one line feed -/
def FramingOK (sh : LoaderShape) : Bool :=
  (sh.term == ['.'] || sh.term == [' ', '.']) && sh.sep == sh.term ++ ['\n']

/-- format strings that select the N-Quads parser: rdflib `format='nquads'`, Oxigraph media type `application/n-quads` -/
def NQuadsFormat (f : Str) : Bool := f == "nquads".toList || f == "application/n-quads".toList

/-- everything the theorems need from /repo's two entry points, decided on the regenerated description -/
theorem C18_gen_shapes :
    Gen.loaderTranslated = true ∧
    FramingOK Gen.loaderRdflib = true ∧ FramingOK Gen.loaderOxigraph = true ∧
    Gen.loaderRdflib.guard = .truthy ∧ Gen.loaderOxigraph.guard = .truthy ∧
    Gen.loaderRdflib.sameArgs = true ∧ Gen.loaderOxigraph.sameArgs = true ∧
    Gen.loaderRdflib.format = "nquads".toList ∧ Gen.loaderOxigraph.format = "application/n-quads".toList ∧
    Gen.loaderRdflib.target = "Graph".toList ∧ Gen.loaderOxigraph.target = "Store".toList := by decide

theorem termOK_of_framingOK {sh : LoaderShape} (h : FramingOK sh = true) : TermOK sh.term ∧ sh.sep = sh.term ++ ['\n'] := by
  simp only [FramingOK, Bool.and_eq_true, Bool.or_eq_true, beq_iff_eq] at h
  exact ⟨h.1, h.2⟩

/-! ### the framing alone -/

/-- no element contains a raw line feed -/
def LineFree (ls : List Str) : Prop := ∀ l ∈ ls, '\n' ∉ l

/-- **Framing, line level.**  For every non-empty list of strings without a raw line feed, the lines of the text
    `sep.join(ls) + term` (split at `'\n'` as Python does) are exactly `l + term`, one per element, in order. -/
theorem C18_framing_lines (sh : LoaderShape) (hsh : FramingOK sh = true) (ls : List Str) (hne : ls ≠ []) (hl : LineFree ls) :
    Py.split (joinForLoader sh.sep sh.term ls) ['\n'] = ls.map (· ++ sh.term) := by
  obtain ⟨ht, hs⟩ := termOK_of_framingOK hsh
  unfold joinForLoader
  rw [hs, Py.join_append_term sh.term ['\n'] ls hne]
  apply Py.split_join_single (by simpa using hne)
  intro l hl'
  simp only [List.mem_map] at hl'
  obtain ⟨x, hx, rfl⟩ := hl'
  have h1 := hl x hx
  rcases ht with e | e <;> rw [e] <;> simp [h1]

/-- the framed text has exactly as many lines as there are statements and its `i`-th line is the `i`-th string plus the terminator -/
theorem C18_framing_lines_nth (sh : LoaderShape) (hsh : FramingOK sh = true) (ls : List Str) (hne : ls ≠ []) (hl : LineFree ls) :
    (Py.split (joinForLoader sh.sep sh.term ls) ['\n']).length = ls.length ∧
    ∀ i : Nat, (Py.split (joinForLoader sh.sep sh.term ls) ['\n'])[i]? = (ls[i]?).map (· ++ sh.term) := by
  rw [C18_framing_lines sh hsh ls hne hl]
  exact ⟨by simp, fun i => by simp⟩

/-- instantiation at what /repo says now: both loaders, terminator `.` -/
theorem C18_framing_lines_gen (ls : List Str) (hne : ls ≠ []) (hl : LineFree ls) :
    Py.split (joinForLoader Gen.loaderRdflib.sep Gen.loaderRdflib.term ls) ['\n'] = ls.map (· ++ Gen.loaderRdflib.term) ∧
    Py.split (joinForLoader Gen.loaderOxigraph.sep Gen.loaderOxigraph.term ls) ['\n'] = ls.map (· ++ Gen.loaderOxigraph.term) :=
  ⟨C18_framing_lines _ C18_gen_shapes.2.1 ls hne hl, C18_framing_lines _ C18_gen_shapes.2.2.1 ls hne hl⟩

/-! ### the framing against the N-Quads(-star) grammar -/

/-- the strings of the set: each one is the engine's rendering of a well-formed statement in one of its two shapes
    (N-TRIPLES `s p o`; N-QUADS `s p o g` / `s p o ` with a trailing space) -/
def Emitted (sts : List (Shape × Stmt)) : Prop :=
  ∀ x ∈ sts, wfStmt x.2 = true ∧ (x.1 = .triple → x.2.g = none)

instance (sts : List (Shape × Stmt)) : Decidable (Emitted sts) := by unfold Emitted; infer_instance

def bodies (sts : List (Shape × Stmt)) : List Str := sts.map fun x => renderStmtBody x.1 x.2

/-- **Framing, grammar level.**  The framed text parses, as an N-Quads(-star) document, to exactly the rendered
    statements: same number, same terms, same graph, in order. -/
theorem C18_framing_parse (sh : LoaderShape) (hsh : FramingOK sh = true) (sts : List (Shape × Stmt)) (hne : sts ≠ [])
    (hw : Emitted sts) :
    parseDoc (joinForLoader sh.sep sh.term (bodies sts)) = some (sts.map (·.2)) := by
  obtain ⟨ht, hs⟩ := termOK_of_framingOK hsh
  unfold joinForLoader bodies
  rw [hs]
  exact parseDoc_framed ht sts hne hw

theorem C18_framing_parse_gen (sts : List (Shape × Stmt)) (hne : sts ≠ []) (hw : Emitted sts) :
    parseDoc (joinForLoader Gen.loaderRdflib.sep Gen.loaderRdflib.term (bodies sts)) = some (sts.map (·.2)) ∧
    parseDoc (joinForLoader Gen.loaderOxigraph.sep Gen.loaderOxigraph.term (bodies sts)) = some (sts.map (·.2)) :=
  ⟨C18_framing_parse _ C18_gen_shapes.2.1 sts hne hw, C18_framing_parse _ C18_gen_shapes.2.2.1 sts hne hw⟩

/-- every emitted string is free of raw line feeds, so the line-level theorem applies to it as well -/
theorem emitted_lineFree (sts : List (Shape × Stmt)) (hw : Emitted sts) : LineFree (bodies sts) := by
  intro l hl
  simp only [bodies, List.mem_map] at hl
  obtain ⟨x, hx, rfl⟩ := hl
  have h := noEol_renderStmtBody x.1 x.2 (hw x hx).1
  intro hm
  simp only [noEol, List.all_eq_true] at h
  exact absurd (h _ hm) (by decide)

/-- the canonical serialisation round-trips as well (used by the driver's self test) -/
theorem C18_canonical_roundtrip (st : Stmt) (hw : wfStmt st = true) : parseLine (renderStmt st) = some st :=
  parseLine_renderStmt st hw

/-! ### the empty result -/

/-- **Empty set.**  The parser is not invoked and the returned graph / store is the fresh, empty one — whatever the parser does. -/
theorem C18_empty {α} (P : Str → Str → Option (List α)) :
    loaderAction Gen.loaderRdflib [] = .skip ∧ loaderAction Gen.loaderOxigraph [] = .skip ∧
    loaderResult P Gen.loaderRdflib [] = some [] ∧ loaderResult P Gen.loaderOxigraph [] = some [] := by
  have h1 : loaderAction Gen.loaderRdflib [] = .skip := by decide
  have h2 : loaderAction Gen.loaderOxigraph [] = .skip := by decide
  simp [loaderResult, h1, h2]

/-- counter-witness for the unguarded variant: the text built from the empty set is the bare terminator (`.`), which is not an
    N-Quads document -/
theorem C18_unguarded_counterwitness :
    joinForLoader Gen.loaderRdflib.sep Gen.loaderRdflib.term [] = Gen.loaderRdflib.term ∧
    parseDoc (joinForLoader Gen.loaderRdflib.sep Gen.loaderRdflib.term []) = none ∧
    parseDoc (joinForLoader Gen.loaderOxigraph.sep Gen.loaderOxigraph.term []) = none ∧
    loaderAction { Gen.loaderRdflib with guard := .always } [] = .parse Gen.loaderRdflib.term Gen.loaderRdflib.format := by decide

/-! ### exactness, given the parser contract -/

/-- The third-party N-Quads parsers together with their stores (rdflib `format='nquads'` into a `Graph`, Oxigraph
    `application/n-quads` into a `Store`), as a function `P format text` returning the quads held afterwards by the
    (previously empty) graph / store, or `none` when the parser raises.
    Contract: whenever the specification parser accepts a document, the third-party loader selected by an N-Quads format string
    holds the statements `N st` for the parsed `st`, where `N` is the store's own normalisation of terms
    (`N = id` for a store that keeps terms as written; blank node labels up to the per-document renaming both libraries apply).
    Not verified here; validated by correspondence on every run (tools/props/C18.py). -/
structure ParserContract (P : Str → Str → Option (List Stmt)) (N : Stmt → Stmt) : Prop where
  agrees : ∀ fmt doc sts, NQuadsFormat fmt = true → parseDoc doc = some sts → P fmt doc = some (sts.map N)

theorem loaderResult_exact (P : Str → Str → Option (List Stmt)) (N : Stmt → Stmt) (hP : ParserContract P N)
    (sh : LoaderShape) (hsh : FramingOK sh = true) (hfmt : NQuadsFormat sh.format = true) (hg : sh.guard = .truthy)
    (sts : List (Shape × Stmt)) (hw : Emitted sts) :
    loaderResult P sh (bodies sts) = some (sts.map fun x => N x.2) := by
  cases sts with
  | nil => simp [loaderResult, loaderAction, hg, bodies]
  | cons x r =>
    have h := C18_framing_parse sh hsh (x :: r) (by simp) hw
    have ha : loaderAction sh (bodies (x :: r)) = .parse (joinForLoader sh.sep sh.term (bodies (x :: r))) sh.format := by
      simp [loaderAction, bodies]
    simp only [loaderResult, ha]
    rw [hP.agrees _ _ _ hfmt h, List.map_map]
    rfl

/-- **Exactness up to the store's normalisation.**  For every set of emitted strings (empty or not), the graph returned by
    `materialize` and the store returned by `materialize_oxigraph` hold, statement for statement, the store's image of the
    statements the strings denote — nothing lost, nothing merged by the framing, graphs kept. -/
theorem C18_exact_upto (P : Str → Str → Option (List Stmt)) (N : Stmt → Stmt) (hP : ParserContract P N)
    (sts : List (Shape × Stmt)) (hw : Emitted sts) :
    loaderResult P Gen.loaderRdflib (bodies sts) = some (sts.map fun x => N x.2) ∧
    loaderResult P Gen.loaderOxigraph (bodies sts) = some (sts.map fun x => N x.2) := by
  have g := C18_gen_shapes
  refine ⟨loaderResult_exact P N hP _ g.2.1 ?_ g.2.2.2.1 sts hw, loaderResult_exact P N hP _ g.2.2.1 ?_ g.2.2.2.2.1 sts hw⟩
  · rw [g.2.2.2.2.2.2.2.1]; decide
  · rw [g.2.2.2.2.2.2.2.2.1]; decide

/-- **Exactness (full statement).**  With a term-preserving store (`N = id`) the graph / store holds exactly the statements of the set. -/
theorem C18_exact (P : Str → Str → Option (List Stmt)) (hP : ParserContract P id) (sts : List (Shape × Stmt)) (hw : Emitted sts) :
    loaderResult P Gen.loaderRdflib (bodies sts) = some (sts.map (·.2)) ∧
    loaderResult P Gen.loaderOxigraph (bodies sts) = some (sts.map (·.2)) := by
  simpa using C18_exact_upto P id hP sts hw

/-- **Exactness outside the scope of findings C18_F2 / C18_F3.**  The real stores normalise the lexical forms of some typed
    literals (`N ≠ id`); for sets none of whose statements is changed by `N` (= ¬ scope) the result is exact. -/
theorem C18_exact_partial (P : Str → Str → Option (List Stmt)) (N : Stmt → Stmt) (hP : ParserContract P N)
    (sts : List (Shape × Stmt)) (hw : Emitted sts) (hscope : ∀ x ∈ sts, N x.2 = x.2) :
    loaderResult P Gen.loaderRdflib (bodies sts) = some (sts.map (·.2)) ∧
    loaderResult P Gen.loaderOxigraph (bodies sts) = some (sts.map (·.2)) := by
  have h := C18_exact_upto P N hP sts hw
  have e : (sts.map fun x => N x.2) = sts.map (·.2) := List.map_congr_left hscope
  rwa [e] at h

/-- counter-witness scheme for C18_F2 / C18_F3: as soon as the store changes one emitted statement, the full statement fails
    on the one-element set containing it (the concrete instances — `"1.50"^^xsd:decimal` in Oxigraph, `"1"^^xsd:boolean` in
    rdflib — are third-party behaviour and are reproduced on the real engine by the check) -/
theorem C18_exact_fails_if_normalising (P : Str → Str → Option (List Stmt)) (N : Stmt → Stmt) (hP : ParserContract P N)
    (x : Shape × Stmt) (hw : Emitted [x]) (hN : N x.2 ≠ x.2) :
    loaderResult P Gen.loaderOxigraph (bodies [x]) ≠ some ([x].map (·.2)) := by
  rw [(C18_exact_upto P N hP [x] hw).2]
  simpa using hN

/-- the contract is satisfiable: the specification parser itself fulfils it with `N = id` (so `C18_exact` is not vacuous) -/
theorem C18_contract_inhabited : ParserContract (fun _ doc => parseDoc doc) id := ⟨fun _ _ _ _ h => by simpa using h⟩

/-! ### the reading "through the returned `Graph` object" (finding C18_F1) -/

/-- what iterating an `rdflib.Graph` shows of the quads in its store: those of its own (default) context -/
def graphObjectView (quads : List Stmt) : List Stmt := quads.filter fun st => st.g.isNone

/-- the returned `Graph` object shows every statement iff no statement has a named graph; otherwise the named-graph
    statements are only reachable through `graph.store` -/
theorem C18_graph_object_view (quads : List Stmt) :
    graphObjectView quads = quads ↔ ∀ st ∈ quads, st.g = none := by
  simp [graphObjectView, List.filter_eq_self, Option.isNone_iff_eq_none]

/-- counter-witness for C18_F1: one emitted N-QUADS statement with a named graph is not shown by the Graph object -/
theorem C18_graph_object_view_counterwitness :
    ∃ st, wfStmt st = true ∧ graphObjectView [st] = [] ∧ parseLine (renderStmtBody .quad st ++ ['.']) = some st :=
  ⟨⟨.iri "http://ex/s".toList, .iri "http://ex/p".toList, .lit "x".toList .plain, some (.iri "http://ex/g".toList)⟩,
   by decide, by decide, by decide +kernel⟩

/-! ### non-vacuity -/

section Examples

def exS : Term := .iri "http://ex/s/1".toList
def exP : Term := .iri "http://ex/p".toList
def exLit : Term := .lit ['q', '"', '\\', '\n', '\t', 'é', Char.ofNat 0x1F600] (.lang "en-US".toList)
def exTyped : Term := .lit "5".toList (.typed "http://www.w3.org/2001/XMLSchema#integer".toList)
def exB : Term := .bnode "b1".toList
def exQ : Term := .quoted exB exP (.quoted exS exP exTyped)
def exG : Term := .iri "http://ex/g".toList

def exStmts : List (Shape × Stmt) :=
  [(.triple, ⟨exS, exP, exB, none⟩),                 -- `… _:b1` + `.` : label directly followed by the dot
   (.triple, ⟨exS, exP, exLit, none⟩),
   (.quad, ⟨exS, exP, exLit, none⟩),                  -- trailing space
   (.quad, ⟨exB, exP, exTyped, some exG⟩),
   (.quad, ⟨exQ, exP, exQ, some exB⟩)]                -- RDF-star, nested, blank node graph

example : Emitted exStmts := by decide
example : LineFree (bodies exStmts) := emitted_lineFree _ (by decide)
example : bodies exStmts ≠ [] := by decide
example : renderStmtBody .triple ⟨exS, exP, exB, none⟩ = "<http://ex/s/1> <http://ex/p> _:b1".toList := by decide
example : renderStmtBody .quad ⟨exS, exP, exTyped, none⟩ =
    "<http://ex/s/1> <http://ex/p> \"5\"^^<http://www.w3.org/2001/XMLSchema#integer> ".toList := by decide
/-- the theorem's conclusion, recomputed directly on the example (the executable parser really returns the five statements) -/
example : parseDoc (joinForLoader Gen.loaderRdflib.sep Gen.loaderRdflib.term (bodies exStmts)) = some (exStmts.map (·.2)) := by
  decide +kernel
/-- what the proved facts exclude: with `'\n'` as separator (no dot) two statements are not a document … -/
example : parseDoc (joinForLoader ['\n'] ['.'] (bodies (exStmts.take 2))) = none := by decide +kernel
/-- … without the final terminator the last statement is lost as well (parse error) … -/
example : parseDoc (joinForLoader ['.', '\n'] [] (bodies (exStmts.take 2))) = none := by decide +kernel
/-- … and a raw line feed inside a string breaks the line-level statement (hypothesis `LineFree` is needed) -/
example : Py.split (joinForLoader ['.', '\n'] ['.'] [['a', '\n', 'b']]) ['\n'] ≠ [['a', '\n', 'b', '.']] := by decide
/-- the parser decodes UCHAR and every ECHAR (beyond what the serialiser emits) -/
example : parseLine "<http://a/\\u00e9> <p> \"\\u00E9\\U0001F600\\t\\b\\n\\r\\f\\\"\\'\\\\\" .".toList =
    some ⟨.iri ['h', 't', 't', 'p', ':', '/', '/', 'a', '/', 'é'], .iri ['p'],
          .lit ['é', Char.ofNat 0x1F600, '\t', Char.ofNat 8, '\n', '\r', Char.ofNat 12, '"', '\'', '\\'] .plain, none⟩ := by
  decide +kernel
/-- positions are checked: literal subject, literal graph, non-IRI predicate, missing dot are rejected -/
example : parseLine "\"x\" <p> <o> .".toList = none ∧ parseLine "<s> <p> <o> \"g\" .".toList = none ∧
    parseLine "<s> _:p <o> .".toList = none ∧ parseLine "<s> <p> <o>".toList = none := by decide +kernel

end Examples

end Props.C18
