/-
C07_F6 (open): the term type of a referencing object map is completed from the subject map of the parent triples map by a query
over the mapping graph of ONE configuration section (`_complete_termtypes`, called per section by
`_parse_data_source_mapping_files`).  When the parent triples map is declared in ANOTHER section the query finds nothing and the
object keeps the default term type IRI: a blank-node parent subject `_:Pb` comes out as `<Pb>`.  `Model.Sections.secRules` models
exactly this (parent lookups see the section's own document); the document-level reading (`normalizeDoc` of the whole configuration,
which the generation rules and `C07_doc_refinement` speak about) gives the parent's term type.
-/
import MorphKgc.Model.Sections
import MorphKgc.Props.C07Doc

namespace Props.C07Sec
open Py Model Spec Model.Sections

def subjC : TermMap := { kind := .template, tpl := ⟨"http://ex/C/".toList, [("k".toList, [])]⟩ }
/-- a blank-node subject map `P{k}` -/
def subjP : TermMap := { kind := .template, tpl := ⟨"P".toList, [("k".toList, [])]⟩, termType := .bnode }
def pred : TermMap := { kind := .constant, value := "http://ex/p".toList }

def child : TriplesMap :=
  { id := "http://ex/tm/C".toList, sourceName := [], lsv := "t".toList, subject := subjC, classes := [], graphs := [],
    poms := [⟨[pred], [.ref "http://ex/tm/P".toList [("k".toList, "k".toList)]], []⟩] }
def parent : TriplesMap :=
  { id := "http://ex/tm/P".toList, sourceName := [], lsv := "t".toList, subject := subjP, classes := [], graphs := [],
    poms := [⟨[{ kind := .constant, value := "http://ex/q".toList }], [.term { kind := .reference, value := "k".toList, termType := .literal }], []⟩] }

/-- child in section `A`, parent in section `B` -/
def cfgX : Config := [⟨"A".toList, [[child]]⟩, ⟨"B".toList, [[parent]]⟩]
/-- both in one section -/
def cfg1 : Config := [⟨"A".toList, [[child, parent]]⟩]

/-- the engine (per-section term type completion): the referencing rule's object is typed IRI -/
theorem C07_F6_cross_section_parent_termtype :
    ((rawRules cfgX).filter (·.objectMapType = .parentTM)).map (·.objectTermtype) = [.iri] := by decide +kernel

/-- the document-level reading of the same configuration: the parent's term type, a blank node -/
theorem C07_F6_document_reading :
    (((cfgDoc cfgX).tms.flatMap (rulesOfTm (cfgDoc cfgX))).filter (·.objectMapType = .parentTM)).map (·.objectTermtype) = [.bnode] := by
  decide +kernel

/-- inside one section the engine agrees with the document-level reading -/
theorem C07_F6_same_section_agrees :
    ((rawRules cfg1).filter (·.objectMapType = .parentTM)).map (·.objectTermtype) = [.bnode] := by decide +kernel

end Props.C07Sec
