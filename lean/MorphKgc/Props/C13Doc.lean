/-
C13, document level.

* `C13_doc_terminates` (piece iii): `_normalize_rml_star` stops on every well-formed document with acyclic quoting — the hypotheses
  are decidable conditions on the *document* (`DocWF`, `Spec.Star.AcyclicQuoting`), no longer on its rule table;
  `C13_doc_dup_names_counter`: distinct names are needed.
* `C13_flatLines_of_tree` (piece i, in `C13DocLemmas`): the statements of a rule of a final (self-named, acyclic) flat table are a
  function (`treeLines`) of its complete unfolding `QTree` alone.
* `C13_stmtsOf_of_trees` (piece ii, in `C13DocLemmas`): `Spec.Star.stmtsOf` is `treeLines` over the complete unfoldings of the rules of
  the triples map in `rulesOfDoc doc`; `C13_spec_flat_eq_doc`: the two readings agree when the unfoldings do.
* `C13_document_spec_partial`, `C13_document_level_partial`: the composition, with the final table read as flat rules given.

The full statement (NOT reached):

  theorem C13_document_level {env : Env} {senv : SEnv} (henv : EnvOK env senv) (doc : SDoc)
      (hac : Spec.Star.AcyclicQuoting doc = true) (hfrag : … the per-rule hypotheses of `C13_quoted_partial`, on the document …) :
      ∃ F out, normalizeDocStar doc = .ok (some F) ∧ evalAllStar env F = .ok out ∧
        ∀ line, line ∈ out ↔ line ∈ Spec.Star.evalDoc senv doc doc.tms.length

What `C13_document_level_partial` still assumes beyond it:
  (a) the returned table read back as flat rules, `frs` with `normalizeStar (rulesOfDoc doc) = .ok (some (frs.map toRule))`, and a reading
      `sem` of rule-table rows as term maps valid for the document and for `frs` (`DocSem`, `SemAt`).  Both exist whenever `toRule` loses
      nothing the rules read (`SemInj`, decidable; to be proved from the C01 fragment `FlatWF`: `Tpl.render` is injective on `WFTpl`), by
      the invariant "every rule of the table is `toRule` of a flat rule of the document up to names" along `C13Fix.iter` (`mem_step`);
      `Ex.unRule` / `semOf` compute them for a given document (`Ex.frsE`, `Ex.semEE`).
  (b) `hfrag` is stated on the flat rules of the returned table, and every ASSERTED rule must quote (`isStar`): asserted rules without a
      quoted map go through `Model.evalRule` (C01), not through `C13_quoted_partial`.
  (c) quoting is followed to depth `frs.length` instead of `doc.tms.length` (both exceed the quoting depth; `C13_spec_depth_stable` is the
      flat-side stability, the document side is not proved).
  (d) `DocWF` (distinct names — needed, see the counter-witness —, resolving references, no name `#TM…`), `NonEmptyTms` (every triples
      map has a class or predicate-object pair) and `SEnvStd`.
-/
import MorphKgc.Props.C13DocLemmas

namespace Props.C13Doc
open Py Model Spec Model.Star Spec.Star Props.C13Fix

/-! ### (iii) termination, stated on documents -/

/-- **`_normalize_rml_star` terminates on well-formed documents with acyclic quoting.**  For every document whose triples maps
    carry distinct names, none of them named `#TM…`, whose quoted-map references name triples maps of the document, and in which no
    triples map quotes itself directly or through others: `_preprocess_mappings` returns (the loop stops within the fuel of the model,
    no `KeyError`), the table is a fixpoint of `_expand_rml_star`, every rule is its own triples map `#TM<position>`, and its complete
    unfoldings are those of the rule table of the document. -/
theorem C13_doc_terminates {doc : SDoc} (hwf : DocWF doc = true) (hac : Spec.Star.AcyclicQuoting doc = true) :
    ∃ F, normalizeDocStar doc = .ok (some (F.map (eliminateSelfJoin F))) ∧ expandStep F = .ok F ∧ Positional F ∧
      ∀ d tr, tr ∈ allUnfold F d ↔ tr ∈ allUnfold (rulesOfDoc doc) d := by
  obtain ⟨hn, hres, hnames⟩ := DocWF_parts hwf
  exact C13_normalizeDocStar_terminates (doc_resolves hres) (doc_namesOK hnames) (doc_acyclic hn hac)

/-- the hypotheses hold of the document of quoting depth 2 -/
theorem docE_wf : DocWF Props.C13.Ex.docE = true := by decide +kernel
theorem docE_acyclic : Spec.Star.AcyclicQuoting Props.C13.Ex.docE = true := by decide +kernel

example : ∃ F, normalizeDocStar Props.C13.Ex.docE = .ok (some (F.map (eliminateSelfJoin F))) ∧ expandStep F = .ok F ∧ Positional F ∧
    ∀ d tr, tr ∈ allUnfold F d ↔ tr ∈ allUnfold (rulesOfDoc Props.C13.Ex.docE) d :=
  C13_doc_terminates docE_wf docE_acyclic

/-- the three conditions on the rule table follow from the two on the document -/
theorem C13_doc_conditions {doc : SDoc} (hwf : DocWF doc = true) (hac : Spec.Star.AcyclicQuoting doc = true) :
    Resolves (rulesOfDoc doc) ∧ NamesOK (rulesOfDoc doc) ∧ C13Fix.AcyclicQuoting (rulesOfDoc doc) = true := by
  obtain ⟨hn, hres, hnames⟩ := DocWF_parts hwf
  exact ⟨doc_resolves hres, doc_namesOK hnames, doc_acyclic hn hac⟩

example : Resolves (rulesOfDoc Props.C13.Ex.docE) ∧ NamesOK (rulesOfDoc Props.C13.Ex.docE) ∧
    C13Fix.AcyclicQuoting (rulesOfDoc Props.C13.Ex.docE) = true := C13_doc_conditions docE_wf docE_acyclic

namespace Ex
open Props.C13.Ex

/-- two triples maps with the SAME name: the first quotes nothing, the second quotes "itself" (the name) -/
def docDup : SDoc := ⟨[
  { id := "http://ex.org/tm/A".toList, sourceName := "DS".toList, lsv := "t0.csv".toList,
    subject := .term (tpl "http://ex.org/a/" "id"), classes := [], graphs := [],
    poms := [⟨[iri "http://ex.org/p"], [.term (lit "k2")], []⟩] },
  { id := "http://ex.org/tm/A".toList, sourceName := "DS".toList, lsv := "t0.csv".toList,
    subject := .quoted "http://ex.org/tm/A".toList [], classes := [], graphs := [],
    poms := [⟨[iri "http://ex.org/q"], [.term (lit "k")], []⟩] }]⟩

end Ex

/-- **The names must be distinct.**  `Spec.Star.AcyclicQuoting` follows the FIRST triples map of a name; with a second triples map of
    the same name that quotes the name, the document passes `Spec.Star.AcyclicQuoting` (and the other two conditions of `DocWF`), the
    rule table quotes cyclically, and the loop of `_normalize_rml_star` does not stop within the fuel. -/
theorem C13_doc_dup_names_counter :
    Spec.Star.AcyclicQuoting Ex.docDup = true ∧ DocResolves Ex.docDup = true ∧ NoTMNames Ex.docDup = true ∧ ¬ IdsNodup Ex.docDup ∧
    C13Fix.AcyclicQuoting (rulesOfDoc Ex.docDup) = false ∧ normalizeDocStar Ex.docDup = .ok none := by
  decide +kernel

/-! ### (i), (ii): non-vacuity -/

namespace Ex
open Props.C13.Ex

theorem frs_inj : SemInj Props.C13.Ex.frs = true := by decide +kernel

/-- (i) on the flat table of quoting depth 2 of `Props.C13.Ex`: the rule `top` has one complete unfolding, and its triples and
    statements are those of the unfolding -/
example : ∃ s o, unfold (Props.C13.Ex.frs.map toRule) 3 (toRule top) = [.node (strip (toRule top)) s o] ∧
    ∀ ρ, flatTriples senv Props.C13.Ex.frs 3 top ρ = treeTriples senv (semOf senv Props.C13.Ex.frs) (.node (strip (toRule top)) s o) ρ ∧
      flatLines senv Props.C13.Ex.frs 2 top ρ = treeLines senv (semOf senv Props.C13.Ex.frs) (.node (strip (toRule top)) s o) ρ :=
  C13_flatLines_of_tree senv (semOf senv Props.C13.Ex.frs) Props.C13.Ex.frs (by decide +kernel)
    (semOf_ok senv Props.C13.Ex.frs frs_inj) 2 top (by decide +kernel) (by decide +kernel) 2 (Nat.le_refl _)

/-- the reading of the rule-table rows of `docE` -/
def semE : RuleSem := semOf senv (docFlat senv docE)

/-- the hypotheses of (ii) hold of `docE` (quoting depth 2) -/
theorem docE_sem : DocSem senv semE docE :=
  ⟨by decide +kernel, by decide +kernel, by decide +kernel, semOf_ok senv _ (by decide +kernel)⟩

example (tm : STm) (htm : tm ∈ docE.tms) (ρ : Row) (line : Str) :
    line ∈ stmtsOf senv docE 2 tm ρ ↔
      ∃ fr ∈ flatOfTm senv tm, ∃ tr ∈ unfold (rulesOfDoc docE) 3 (toRule fr), line ∈ treeLines senv semE tr ρ :=
  C13_stmtsOf_of_trees docE_sem 2 htm ρ line

example (line : Str) : line ∈ Spec.Star.evalDoc senv docE 2 ↔ forestLines senv semE (allUnfold (rulesOfDoc docE) 3) line :=
  evalDoc_forest docE_sem 2 line

end Ex

/-! ### composition -/

theorem elim_id (frs : List FlatRule) : (frs.map toRule).map (eliminateSelfJoin (frs.map toRule)) = frs.map toRule := by
  rw [List.map_map]
  apply List.map_congr_left
  intro fr _
  have : (toRule fr).objectMapType ≠ .parentTM := posOf_ne_parent fr.object
  simp [eliminateSelfJoin, this]

/-- **C13 at document level, specification side (partial).**  For a well-formed document with acyclic quoting, `_preprocess_mappings`
    returns; if `frs` is the returned table read as flat rules (`normalizeStar (rulesOfDoc doc) = .ok (some (frs.map toRule))`) and
    `sem` reads the rule-table rows of the document and of `frs` as their term maps, then the table is acyclic in the sense
    `Props.C13.C13_quoted_partial` takes, and what the flat reading prescribes for it is exactly what the RML-star generation rules
    prescribe for the document (quoting followed to any depth the table allows). -/
theorem C13_document_spec_partial {senv : SEnv} {sem : RuleSem} {doc : SDoc} (hwf : DocWF doc = true)
    (hac : Spec.Star.AcyclicQuoting doc = true) (h : DocSem senv sem doc) (frs : List FlatRule)
    (hF : normalizeStar (rulesOfDoc doc) = .ok (some (frs.map toRule))) (hsem : ∀ fr ∈ frs, SemAt sem senv fr) :
    normalizeDocStar doc = .ok (some (frs.map toRule)) ∧ AcyclicFlat frs = true ∧ (frs.map (·.id)).Nodup ∧
      ∀ line, line ∈ evalFlat senv frs frs.length ↔ line ∈ Spec.Star.evalDoc senv doc frs.length := by
  obtain ⟨hres, hok, hacT⟩ := C13_doc_conditions hwf hac
  obtain ⟨F, hnorm, _, _, hnd, _, _, hun, _, hflat⟩ := C13_expand_result hres hok hacT
  rw [hF] at hnorm
  have hFe : frs.map toRule = F := by simpa using hnorm
  subst hFe
  have hacF := hflat frs rfl
  have hnd' : (frs.map (·.id)).Nodup := by
    have := hnd
    simp only [names, List.map_map] at this
    exact this
  have hdoc : normalizeDocStar doc = .ok (some (frs.map toRule)) := by
    unfold normalizeDocStar
    rw [hF]
    exact congrArg (fun x => Except.ok (some x)) (elim_id frs)
  refine ⟨hdoc, hacF, hnd', fun line => ?_⟩
  simp only [AcyclicFlat, List.all_eq_true] at hacF
  exact C13_spec_flat_eq_doc h frs hnd' hsem frs.length hacF (hun (frs.length + 1)) line

/-- **C13 at document level (partial).**  For a well-formed document with acyclic quoting: `_preprocess_mappings` returns a table `F`,
    and if — reading `F` as flat rules `frs` — every asserted rule of `F` quotes and satisfies the hypotheses of
    `Props.C13.C13_quoted_partial` (C01 fragment along the rules it quotes, complement of the scopes of C13_F1, C13_F2, C13_F3, complete
    sources without raw nulls), then `materialize_set` does not raise and returns exactly the statements the RML-star generation rules
    prescribe for the DOCUMENT: for every asserted triples map and row, each statement embeds, at each quoted position, the triple
    EACH predicate-object map / class of the quoted triples map generates for the same (or the joined) row, nested to any depth. -/
theorem C13_document_level_partial {env : Env} {senv : SEnv} (henv : EnvOK env senv) {sem : RuleSem} {doc : SDoc}
    (hwf : DocWF doc = true) (hac : Spec.Star.AcyclicQuoting doc = true) (h : DocSem senv sem doc) (frs : List FlatRule)
    (hF : normalizeStar (rulesOfDoc doc) = .ok (some (frs.map toRule))) (hsem : ∀ fr ∈ frs, SemAt sem senv fr)
    (hfrag : ∀ fr ∈ frs, fr.asserted = true → isStar (toRule fr) = true ∧ okAt senv frs frs.length fr = true ∧
      NoRawNulls (senv.tableF fr) = true ∧ Complete (frefs frs (frs.length + 1) fr) (senv.tableF fr) = true) :
    ∃ F out, normalizeDocStar doc = .ok (some F) ∧ evalAllStar env F = .ok out ∧
      ∀ line, line ∈ out ↔ line ∈ Spec.Star.evalDoc senv doc frs.length := by
  obtain ⟨hdoc, _, _, hspec⟩ := C13_document_spec_partial hwf hac h frs hF hsem
  have hall : ∀ r ∈ (frs.map toRule).filter (·.asserted), ∃ out, evalRuleStar env (frs.map toRule) r = .ok out := by
    intro r hr
    obtain ⟨hr1, hr2⟩ := List.mem_filter.mp hr
    obtain ⟨fr, hfr, rfl⟩ := List.mem_map.mp hr1
    obtain ⟨h1, h2, h3, h4⟩ := hfrag fr hfr hr2
    obtain ⟨lines, hl, _⟩ := Props.C13.C13_quoted_partial henv frs fr h1 h2 h3 h4
    exact ⟨lines, hl⟩
  obtain ⟨parts, hparts⟩ := mapM_ok_of_forall_exists _ _ hall
  have hout : evalAllStar env (frs.map toRule) = .ok (dedupFirst parts.flatten) := by
    unfold evalAllStar
    rw [hparts]
    rfl
  refine ⟨_, _, hdoc, hout, fun line => ?_⟩
  rw [Props.C13.C13_nonasserted env _ _ hout line, ← hspec line]
  simp only [evalFlat, List.mem_flatMap, List.mem_filter]
  constructor
  · rintro ⟨r, hr, ha, lines, hl, hline⟩
    obtain ⟨fr, hfr, rfl⟩ := List.mem_map.mp hr
    obtain ⟨h1, h2, h3, h4⟩ := hfrag fr hfr ha
    obtain ⟨lines', hl', hm⟩ := Props.C13.C13_quoted_partial henv frs fr h1 h2 h3 h4
    rw [hl] at hl'
    cases hl'
    obtain ⟨ρ, hρ, hx⟩ := (hm line).mp hline
    exact ⟨fr, ⟨hfr, ha⟩, ρ, hρ, hx⟩
  · rintro ⟨fr, ⟨hfr, ha⟩, ρ, hρ, hx⟩
    obtain ⟨h1, h2, h3, h4⟩ := hfrag fr hfr ha
    obtain ⟨lines', hl', hm⟩ := Props.C13.C13_quoted_partial henv frs fr h1 h2 h3 h4
    exact ⟨toRule fr, List.mem_map.mpr ⟨fr, hfr, rfl⟩, ha, lines', hl', (hm line).mpr ⟨ρ, hρ, hx⟩⟩

namespace Ex
open Props.C13.Ex

def reId : Pos → Str → Pos
  | .term t, _ => .term t
  | .quoted _ conds, v => .quoted v conds

/-- a rule-table row read back as a flat rule: the term maps of the flat rule of `cands` with the same row (modulo names) -/
def unRule (cands : List FlatRule) (r : Rule) : Option FlatRule :=
  (cands.find? (fun f => strip (toRule f) = strip r)).map fun f =>
    { f with id := r.tmId, subject := reId f.subject r.subjectMapValue, object := reId f.object r.objectMapValue }

/-- the table `_normalize_rml_star` returns for `docE`, read as flat rules (six rules) -/
def frsE : List FlatRule :=
  match normalizeStar (rulesOfDoc docE) with
  | .ok (some F) => F.filterMap (unRule (docFlat senv docE))
  | _ => []

theorem frsE_norm : normalizeStar (rulesOfDoc docE) = .ok (some (frsE.map toRule)) ∧ frsE.length = 6 := by decide +kernel

/-- one reading for the rows of the document and of the final table -/
def semEE : RuleSem := semOf senv (docFlat senv docE ++ frsE)

theorem semEE_ok : ∀ fr ∈ docFlat senv docE ++ frsE, SemAt semEE senv fr := semOf_ok senv _ (by decide +kernel)

theorem docE_semEE : DocSem senv semEE docE :=
  ⟨by decide +kernel, by decide +kernel, by decide +kernel, fun fr hfr => semEE_ok fr (List.mem_append_left _ hfr)⟩

example : normalizeDocStar docE = .ok (some (frsE.map toRule)) ∧ AcyclicFlat frsE = true ∧ (frsE.map (·.id)).Nodup ∧
    ∀ line, line ∈ evalFlat senv frsE frsE.length ↔ line ∈ Spec.Star.evalDoc senv docE frsE.length :=
  C13_document_spec_partial docE_wf docE_acyclic docE_semEE frsE frsE_norm.1 (fun fr hfr => semEE_ok fr (List.mem_append_right _ hfr))

/-- the final table of `docE` has the complete unfoldings of its rule table (from `C13_expand_result`) -/
theorem frsE_unfold (d : Nat) (tr : QTree) : tr ∈ allUnfold (frsE.map toRule) d ↔ tr ∈ allUnfold (rulesOfDoc docE) d := by
  obtain ⟨hres, hok, hacT⟩ := C13_doc_conditions docE_wf docE_acyclic
  obtain ⟨F, hnorm, _, _, _, _, _, hun, _, _⟩ := C13_expand_result hres hok hacT
  rw [frsE_norm.1] at hnorm
  have hFe : frsE.map toRule = F := by simpa using hnorm
  rw [hFe]
  exact hun d tr

theorem frsE_nodup : (frsE.map (·.id)).Nodup := by decide +kernel
theorem frsE_depth : ∀ fr ∈ frsE, depthLe frsE 6 fr = true := by decide +kernel

/-- the hypotheses of `C13_spec_flat_eq_doc` and of `evalFlat_forest` hold of `docE` and its final table -/
example (line : Str) : line ∈ evalFlat senv frsE 6 ↔ line ∈ Spec.Star.evalDoc senv docE 6 :=
  C13_spec_flat_eq_doc docE_semEE frsE frsE_nodup (fun fr hfr => semEE_ok fr (List.mem_append_right _ hfr)) 6
    frsE_depth (frsE_unfold 7) line

example (line : Str) : line ∈ evalFlat senv frsE 6 ↔ forestLines senv semEE (allUnfold (frsE.map toRule) 7) line :=
  evalFlat_forest senv semEE frsE frsE_nodup (fun fr hfr => semEE_ok fr (List.mem_append_right _ hfr)) 6 frsE_depth line

theorem frsE_frag : ∀ fr ∈ frsE, fr.asserted = true → isStar (toRule fr) = true ∧ okAt senv frsE frsE.length fr = true ∧
    NoRawNulls (senv.tableF fr) = true ∧ Complete (frefs frsE (frsE.length + 1) fr) (senv.tableF fr) = true := by
  decide +kernel

/-- the hypotheses of `C13_document_level_partial` hold of `docE`: quoting depth 2, the quoted map with two predicate-object maps, a
    join with duplicate and NULL keys, a NULL inside a quoted triple -/
example : ∃ F out, normalizeDocStar docE = .ok (some F) ∧ evalAllStar env F = .ok out ∧
    ∀ line, line ∈ out ↔ line ∈ Spec.Star.evalDoc senv docE frsE.length :=
  C13_document_level_partial envOK docE_wf docE_acyclic docE_semEE frsE frsE_norm.1
    (fun fr hfr => semEE_ok fr (List.mem_append_right _ hfr)) frsE_frag

end Ex

end Props.C13Doc
