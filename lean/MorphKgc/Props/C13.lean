/-
C13 — RDF-star statements quote exactly the triples their quoted maps generate.

`Model.Star.evalStar` is the RDF-star branch of `materializer._materialize_rml_rule` (transcribed branch by branch, with
the data frames' column names; `Gen/Star.lean` carries the constants and shapes read from the Python source),
`Model.Star.expandStep` / `normalizeStar` are `mapping_parser._expand_rml_star` / `_normalize_rml_star`;
`Spec.Star` is the independent statement of the RML-star generation rules.  Validated against the real parser and
materializer on every run (I6, I6x, I7).
-/
import MorphKgc.Lemmas.StarInduction
import MorphKgc.Lemmas.StarExpand
import MorphKgc.Lemmas.StarRelabel

namespace Props.C13
open Py Model Spec Model.Star Spec.Star

/-- the shapes the translator read out of the Python source are the ones the model and the theorems below assume -/
theorem gen_shape :
    Gen.Star.translated = true ∧ Gen.Star.quoteOpen = "<< ".toList ∧ Gen.Star.quoteClose = " >>".toList ∧
    Gen.Star.quoteSitesAgree = true ∧ Gen.Star.nestIncrement = 1 ∧ Gen.Star.keepKeyPerLevel = true ∧
    Gen.Star.subjectRestored = true ∧ Gen.Star.parentPrefix = "parent_".toList ∧
    Gen.Star.joinHow = ["inner".toList, "inner".toList] ∧ Gen.Star.singleConditionUsesJoin = true ∧
    Gen.Star.graphAtNestZeroOnly = true ∧ Gen.Star.recursionArguments = true ∧ Gen.Star.branchOrder = true ∧
    Gen.Star.assertedFilter = [true, true] ∧ Gen.Star.idPrefix = "#TM".toList ∧ Gen.Star.expandWholeList = true ∧
    Gen.Star.normalizeLoop = true ∧ Gen.Star.termtypeCompletion = true ∧ Gen.Star.classCompletion = true := by
  decide

/-! ### the refinement: every quoting depth, every table -/

theorem mem_triples (F : Frame) (line : Str) : line ∈ F.triples ↔ ∃ p ∈ F.rows, p.triple = some line := by
  simp [Frame.triples, List.mem_filterMap]

/-- **C13 (partial): one rule.**  For every flat rule table, every rule `fr` with a quoted map in subject or object position
    and every table of its logical source: if along the rules it quotes (to any depth; `okAt … frs.length` also bounds the
    depth by the number of rules, i.e. quoting is acyclic) the term maps are of the C01 fragment, no quoted rule is
    all-constant (complement of the scope of C13_F1), no data frame goes through `_merge_data` twice (complement of the
    scopes of C13_F2 and C13_F3), no referenced column carries the `parent_` prefix, and the logical sources deliver the
    referenced columns and no raw null objects, then the engine does not raise and the statements it returns for `fr` are
    exactly those the RML-star generation rules prescribe: for each row (or joined row pair) the quoted triple « s p o » of
    the triple the quoted rule generates for it, nested to the depth of the quoting, no other, none missing — NULLs inside
    the quoted triple included (they leave nothing to quote).  The fuel `rules.length + 1` of the model suffices. -/
theorem C13_quoted_partial {env : Env} {senv : SEnv} (henv : EnvOK env senv) (frs : List FlatRule) (fr : FlatRule)
    (hstar : isStar (toRule fr) = true) (hok : okAt senv frs frs.length fr = true)
    (hnn : NoRawNulls (senv.tableF fr) = true) (hcomp : Complete (frefs frs (frs.length + 1) fr) (senv.tableF fr) = true) :
    ∃ lines, evalRuleStar env (frs.map toRule) (toRule fr) = .ok lines ∧
      ∀ line, line ∈ lines ↔ ∃ ρ ∈ senv.tableF fr, line ∈ flatLines senv frs frs.length fr ρ := by
  obtain ⟨P, hP, hFA, hFB, _, _⟩ := fresh_all henv frs frs.length fr hok [] 0 hnn (by simpa using hcomp) (fun _ h => by cases h)
  refine ⟨P.triples, ?_, fun line => ?_⟩
  · simp only [evalRuleStar, hstar, ↓reduceIte, fuelFor, List.length_map, hP]
    rfl
  · rw [mem_triples]
    constructor
    · rintro ⟨p, hp, hpt⟩
      obtain ⟨ρ, hρ, _, t, ht, hmem⟩ := hFA p hp
      rw [hpt] at ht
      cases ht
      exact ⟨ρ, hρ, by simpa [flatAt] using hmem⟩
    · rintro ⟨ρ, hρ, hmem⟩
      obtain ⟨p, hp, _, hpt⟩ := hFB ρ hρ (fun _ h => by cases h) line (by simpa [flatAt] using hmem)
      exact ⟨p, hp, hpt⟩

/-- the fuel of the model is enough whenever the hypotheses of `C13_quoted_partial` hold: the engine's recursion does not
    run out of it (no `Err.fuel`) -/
theorem C13_fuel_sufficient {env : Env} {senv : SEnv} (henv : EnvOK env senv) (frs : List FlatRule) (fr : FlatRule)
    (hstar : isStar (toRule fr) = true) (hok : okAt senv frs frs.length fr = true)
    (hnn : NoRawNulls (senv.tableF fr) = true) (hcomp : Complete (frefs frs (frs.length + 1) fr) (senv.tableF fr) = true) :
    evalRuleStar env (frs.map toRule) (toRule fr) ≠ .error .fuel := by
  obtain ⟨lines, h, _⟩ := C13_quoted_partial henv frs fr hstar hok hnn hcomp
  rw [h]; intro h'; cases h'

/-- **What a statement with a quoted subject embeds.**  In the words of the property: the statements the rules prescribe for
    a rule whose subject map refers to the quoted rule `q` are, for each row `ρ` and each row `ρ'` paired with it (`ρ` itself
    without join condition, the rows of `q`'s logical source satisfying the join conditions otherwise), the statements whose
    subject is « t » for a triple `t` that `q` generates for `ρ'`. -/
theorem C13_quoted_embeds_quoted_map_triple (senv : SEnv) (frs : List FlatRule) (d : Nat) (fr q : FlatRule) (id : Str)
    (conds : List (Str × Str)) (hs : fr.subject = .quoted id conds) (hq : findFlat frs id = some q) (ρ : Row) (line : Str) :
    line ∈ flatLines senv frs d fr ρ ↔
      ∃ ρ' ∈ flatPaired senv conds ρ q, ∃ t ∈ flatTriples senv frs d q ρ', ∃ p, genTerm senv.safe senv.na fr.pred ρ = some p ∧
        ∃ o ∈ flatPos senv frs d ρ fr.object, ∃ g ∈ graphTerms senv [fr.graph] ρ, line = renderStmt senv.fmt (quote t) p o g := by
  simp only [flatLines, List.mem_flatMap, List.mem_map, Option.mem_toList, hs,
    mem_flatPos_quoted senv frs d ρ id conds q hq]
  constructor
  · rintro ⟨s, ⟨ρ', hρ', t, ht, rfl⟩, p, hp, o, ho, g, hg, rfl⟩
    exact ⟨ρ', hρ', t, ht, p, hp, o, ho, g, hg, rfl⟩
  · rintro ⟨ρ', hρ', t, ht, p, hp, o, ho, g, hg, rfl⟩
    exact ⟨_, ⟨ρ', hρ', t, ht, rfl⟩, p, hp, o, ho, g, hg, rfl⟩

/-! ### asserted and non-asserted maps -/

/-- **Non-asserted maps contribute no statement of their own.**  The result of `materialize_set` consists exactly of the
    statements of the rules typed `rml:TriplesMap`: a rule of a non-asserted map appears only inside the quoted triples of
    others. -/
theorem C13_nonasserted (env : Env) (rules : List Rule) (out : List Str) (h : evalAllStar env rules = .ok out) (line : Str) :
    line ∈ out ↔ ∃ r ∈ rules, r.asserted = true ∧ ∃ lines, evalRuleStar env rules r = .ok lines ∧ line ∈ lines := by
  unfold evalAllStar at h
  cases hm : (rules.filter (·.asserted)).mapM (evalRuleStar env rules) with
  | error e => simp [hm, bind, Except.bind] at h
  | ok parts =>
    simp only [hm, bind, Except.bind, pure, Except.pure, Except.ok.injEq] at h
    subst h
    rw [mem_dedupFirst, List.mem_flatten]
    constructor
    · rintro ⟨l, hl, hline⟩
      obtain ⟨r, hr, hrl⟩ := (mem_of_mapM_ok _ _ _ hm l).mp hl
      simp only [List.mem_filter] at hr
      exact ⟨r, hr.1, hr.2, l, hrl, hline⟩
    · rintro ⟨r, hr, ha, l, hrl, hline⟩
      exact ⟨l, (mem_of_mapM_ok _ _ _ hm l).mpr ⟨r, by simp [List.mem_filter, hr, ha], hrl⟩, hline⟩

/-- **Asserted maps contribute both**: the statements of an asserted rule are in the result whether or not another rule
    quotes it (being quoted does not consume them). -/
theorem C13_asserted_both (env : Env) (rules : List Rule) (out : List Str) (h : evalAllStar env rules = .ok out)
    (r : Rule) (hr : r ∈ rules) (ha : r.asserted = true) (lines : List Str) (hl : evalRuleStar env rules r = .ok lines) :
    ∀ line ∈ lines, line ∈ out :=
  fun line hline => (C13_nonasserted env rules out h line).mpr ⟨r, hr, ha, lines, hl, hline⟩

/-! ### partitioning modes -/

/-- one group of the grouped run -/
def evalGroupStar (env : Env) (rules : List Rule) (l : Str) : Except Err (List Str) := do
  let parts ← ((rules.filter (·.asserted)).filter (·.partition = l)).mapM (evalRuleStar env rules)
  pure (dedupFirst parts.flatten)

theorem evalGroupedStar_eq (env : Env) (rules : List Rule) :
    evalGroupedStar env rules = (do
      let groups ← (dedupFirst ((rules.filter (·.asserted)).map (·.partition))).mapM (evalGroupStar env rules)
      pure (dedupFirst groups.flatten)) := rfl

theorem mem_okVal {f : Rule → Except Err (List Str)} {r : Rule} {x : Str} (h : ∃ out, f r = .ok out) :
    x ∈ okVal (f r) ↔ ∃ out, f r = .ok out ∧ x ∈ out := by
  obtain ⟨out, ho⟩ := h
  simp [ho, okVal]

/-- **The partitioning mode does not matter.**  Whatever labels `mapping_partition` carries (NO, PARTIAL-AGGREGATIONS,
    MAXIMAL or any other labelling), the group-by-group run of `materialize_set` returns the statements of the union over
    the asserted rules: the labels are never read by `_materialize_rml_rule`, and quoted rules are looked up in the whole
    table, not in the group. -/
theorem C13_partition_independent (env : Env) (rules : List Rule)
    (h : ∀ r ∈ rules.filter (·.asserted), ∃ out, evalRuleStar env rules r = .ok out) :
    ∃ a g, evalAllStar env rules = .ok a ∧ evalGroupedStar env rules = .ok g ∧ ∀ x, x ∈ g ↔ x ∈ a := by
  have hall : ∃ a, evalAllStar env rules = .ok a ∧ ∀ x, x ∈ a ↔
      ∃ r ∈ rules.filter (·.asserted), ∃ out, evalRuleStar env rules r = .ok out ∧ x ∈ out := by
    unfold evalAllStar
    rw [Py.mapM_ok_of_forall _ _ h]
    refine ⟨_, rfl, fun x => ?_⟩
    rw [mem_dedupFirst]
    simp only [List.mem_flatten, List.mem_map]
    constructor
    · rintro ⟨_, ⟨r, hr, rfl⟩, hx⟩
      exact ⟨r, hr, (mem_okVal (h r hr)).mp hx⟩
    · rintro ⟨r, hr, hx⟩
      exact ⟨_, ⟨r, hr, rfl⟩, (mem_okVal (h r hr)).mpr hx⟩
  have hgroup : ∀ l, ∃ g, evalGroupStar env rules l = .ok g ∧ ∀ x, x ∈ g ↔
      ∃ r ∈ rules.filter (·.asserted), r.partition = l ∧ ∃ out, evalRuleStar env rules r = .ok out ∧ x ∈ out := by
    intro l
    unfold evalGroupStar
    have h' : ∀ r ∈ (rules.filter (·.asserted)).filter (·.partition = l), ∃ out, evalRuleStar env rules r = .ok out :=
      fun r hr => h r (List.mem_filter.mp hr).1
    rw [Py.mapM_ok_of_forall _ _ h']
    refine ⟨_, rfl, fun x => ?_⟩
    rw [mem_dedupFirst]
    simp only [List.mem_flatten, List.mem_map]
    constructor
    · rintro ⟨_, ⟨r, hr, rfl⟩, hx⟩
      have hr' := List.mem_filter.mp hr
      exact ⟨r, hr'.1, by simpa using hr'.2, (mem_okVal (h' r hr)).mp hx⟩
    · rintro ⟨r, hr, hl, hx⟩
      have hr' : r ∈ (rules.filter (·.asserted)).filter (·.partition = l) := List.mem_filter.mpr ⟨hr, by simpa using hl⟩
      exact ⟨_, ⟨r, hr', rfl⟩, (mem_okVal (h' r hr')).mpr hx⟩
  obtain ⟨a, ha, hma⟩ := hall
  have hg : evalGroupedStar env rules = .ok (dedupFirst ((dedupFirst ((rules.filter (·.asserted)).map (·.partition))).map
      fun l => okVal (evalGroupStar env rules l)).flatten) := by
    rw [evalGroupedStar_eq, Py.mapM_ok_of_forall _ _ (fun l _ => let ⟨g, hg, _⟩ := hgroup l; ⟨g, hg⟩)]
    rfl
  refine ⟨a, _, ha, hg, ?_⟩
  · intro x
    rw [hma, mem_dedupFirst]
    simp only [List.mem_flatten, List.mem_map]
    constructor
    · rintro ⟨_, ⟨l, _, rfl⟩, hx⟩
      obtain ⟨g, hgl, hmem⟩ := hgroup l
      rw [hgl] at hx
      obtain ⟨r, hr, _, hout⟩ := (hmem x).mp hx
      exact ⟨r, hr, hout⟩
    · rintro ⟨r, hr, hout⟩
      obtain ⟨g, hgl, hmem⟩ := hgroup r.partition
      refine ⟨_, ⟨r.partition, ?_, rfl⟩, ?_⟩
      · rw [mem_dedupFirst]; exact List.mem_map.mpr ⟨r, hr, rfl⟩
      · rw [hgl]; exact (hmem x).mpr ⟨r, hr, rfl, hout⟩

/-- **Any two labellings.**  `_materialize_rml_rule` never reads `mapping_partition` (`Model.Star.evalStar_relabel`): whatever
    two partitioners (or modes) label the rules with, the two group-by-group runs succeed together and return the same
    statements — those of the ungrouped run over the unlabelled table. -/
theorem C13_any_labelling (env : Env) (rules : List Rule) (f g : Rule → Str)
    (h : ∀ r ∈ rules.filter (·.asserted), ∃ out, evalRuleStar env rules r = .ok out) :
    ∃ a b, evalGroupedStar env (relabelAll f rules) = .ok a ∧ evalGroupedStar env (relabelAll g rules) = .ok b ∧
      ∀ x, x ∈ a ↔ x ∈ b := by
  have hk : ∀ k : Rule → Str, ∃ a c, evalAllStar env rules = .ok a ∧ evalGroupedStar env (relabelAll k rules) = .ok c ∧
      ∀ x, x ∈ c ↔ x ∈ a := by
    intro k
    have hk' : ∀ r' ∈ (relabelAll k rules).filter (·.asserted), ∃ out, evalRuleStar env (relabelAll k rules) r' = .ok out := by
      intro r' hr'
      rw [filter_asserted_relabelAll] at hr'
      obtain ⟨r, hr, rfl⟩ := List.mem_map.mp hr'
      rw [evalRuleStar_relabel]
      exact h r hr
    obtain ⟨a, c, ha, hc, hm⟩ := C13_partition_independent env (relabelAll k rules) hk'
    rw [evalAllStar_relabel] at ha
    exact ⟨a, c, ha, hc, hm⟩
  obtain ⟨a, c, ha, hc, hm⟩ := hk f
  obtain ⟨a', c', ha', hc', hm'⟩ := hk g
  rw [ha] at ha'
  cases ha'
  exact ⟨c, c', hc, hc', fun x => (hm x).trans (hm' x).symm⟩

/-! ### the specification does not depend on the depth bound once it exceeds the quoting depth -/

theorem C13_spec_depth_stable (senv : SEnv) (frs : List FlatRule) : ∀ (n : Nat) (fr : FlatRule), depthLe frs n fr = true →
    ∀ (d d' : Nat), n + 1 ≤ d → n + 1 ≤ d' → ∀ ρ, flatTriples senv frs d fr ρ = flatTriples senv frs d' fr ρ := by
  intro n
  induction n with
  | zero =>
    intro fr h d d' hd hd' ρ
    obtain ⟨hs, ho⟩ := depthLe_zero_pos h
    obtain ⟨e, rfl⟩ : ∃ e, d = e + 1 := ⟨d - 1, by omega⟩
    obtain ⟨e', rfl⟩ : ∃ e', d' = e' + 1 := ⟨d' - 1, by omega⟩
    rw [flatTriples_succ, flatTriples_succ]
    have hp : ∀ pos : Pos, (∀ id conds, pos ≠ .quoted id conds) → flatPos senv frs e ρ pos = flatPos senv frs e' ρ pos := by
      intro pos hpos
      cases pos with
      | term tm => rfl
      | quoted id conds => exact absurd rfl (hpos id conds)
    rw [hp _ hs, hp _ ho]
  | succ n ih =>
    intro fr h d d' hd hd' ρ
    obtain ⟨hs, ho⟩ := depthLe_succ_pos h
    obtain ⟨e, rfl⟩ : ∃ e, d = e + 1 := ⟨d - 1, by omega⟩
    obtain ⟨e', rfl⟩ : ∃ e', d' = e' + 1 := ⟨d' - 1, by omega⟩
    rw [flatTriples_succ, flatTriples_succ]
    have hp : ∀ pos : Pos, (∀ id conds, pos = .quoted id conds → ∃ q, findFlat frs id = some q ∧ depthLe frs n q = true) →
        flatPos senv frs e ρ pos = flatPos senv frs e' ρ pos := by
      intro pos hpos
      cases pos with
      | term tm => rfl
      | quoted id conds =>
        obtain ⟨q, hq, hqd⟩ := hpos id conds rfl
        simp only [flatPos, hq]
        congr 1
        funext ρ'
        rw [ih q hqd e e' (by omega) (by omega) ρ']
    rw [hp _ hs, hp _ ho]

/-! ### `_expand_rml_star` / `_normalize_rml_star` -/

/-- **One call of `_expand_rml_star`, exactly.**  The rules of the result are: every rule of the table; every rule with a
    quoted subject once for EACH rule of the quoted triples map (value replaced by that rule's id `#TM<position>`); every one
    of these (and every original) with a quoted object once for each rule of the quoted triples map — each with the first id
    substituted for triples map names in both value columns, and named by the id of the rule it comes from.  Nothing else. -/
theorem C13_expand_step (rules out : List Rule) (h : expandStep rules = .ok out) (r' : Rule) :
    r' ∈ out ↔ ∃ p2, (p2 ∈ withIds rules ∨
        (∃ p ∈ withIds rules, quotedAt true p.1 = true ∧ ∃ q ∈ idsOf (withIds rules) (valAt true p.1), p2 = (setVal true p.1 q, p.2)) ∨
        (∃ p1, (p1 ∈ withIds rules ∨ ∃ p ∈ withIds rules, quotedAt true p.1 = true ∧
            ∃ q ∈ idsOf (withIds rules) (valAt true p.1), p1 = (setVal true p.1 q, p.2)) ∧
          quotedAt false p1.1 = true ∧ ∃ q ∈ idsOf (withIds rules) (valAt false p1.1), p2 = (setVal false p1.1 q, p1.2))) ∧
      r' = { mapFirst (withIds rules) p2.1 with tmId := p2.2 } :=
  mem_expandStep rules out h r'

/-- **One rule per rule of the quoted triples map.**  If the rule at position `i` quotes (subject position) the triples map
    `v`, then for every rule at a position `j` that belongs to `v` the result has the rule at `i` with `#TM<j>` in place of `v`
    (all predicate-object maps and classes of the quoted map, not only the first). -/
theorem C13_expand_one_rule_per_quoted_rule (rules out : List Rule) (h : expandStep rules = .ok out) (i j : Nat) (r q : Rule)
    (hr : rules[i]? = some r) (hq : rules[j]? = some q) (hsq : r.subjectMapType = .quoted) (hv : q.tmId = r.subjectMapValue) :
    { mapFirst (withIds rules) { r with subjectMapValue := ruleId j } with tmId := ruleId i } ∈ out := by
  rw [mem_expandStep rules out h]
  refine ⟨({ r with subjectMapValue := ruleId j }, ruleId i), .inr (.inl ⟨(r, ruleId i), ?_, ?_, ruleId j, ?_, rfl⟩), rfl⟩
  · exact (mem_withIds rules r _).mpr ⟨i, hr, rfl⟩
  · simp [quotedAt, hsq]
  · rw [mem_idsOf]
    exact ⟨q, (mem_withIds rules q _).mpr ⟨j, hq, rfl⟩, by simpa [valAt] using hv⟩

/-- the same for the object position, on top of any choice already made for the subject -/
theorem C13_expand_one_rule_per_quoted_object (rules out : List Rule) (h : expandStep rules = .ok out) (i k : Nat) (r q : Rule)
    (hr : rules[i]? = some r) (hq : rules[k]? = some q) (hoq : r.objectMapType = .quoted) (hv : q.tmId = r.objectMapValue) :
    { mapFirst (withIds rules) { r with objectMapValue := ruleId k } with tmId := ruleId i } ∈ out := by
  rw [mem_expandStep rules out h]
  refine ⟨({ r with objectMapValue := ruleId k }, ruleId i),
    .inr (.inr ⟨(r, ruleId i), .inl ((mem_withIds rules r _).mpr ⟨i, hr, rfl⟩), ?_, ruleId k, ?_, rfl⟩), rfl⟩
  · simp [quotedAt, hoq]
  · rw [mem_idsOf]
    exact ⟨q, (mem_withIds rules q _).mpr ⟨k, hq, rfl⟩, by simpa [valAt] using hv⟩

theorem C13_expand_one_rule_per_pair (rules out : List Rule) (h : expandStep rules = .ok out) (i j k : Nat) (r qs qo : Rule)
    (hr : rules[i]? = some r) (hqs : rules[j]? = some qs) (hqo : rules[k]? = some qo)
    (hsq : r.subjectMapType = .quoted) (hvs : qs.tmId = r.subjectMapValue)
    (hoq : r.objectMapType = .quoted) (hvo : qo.tmId = r.objectMapValue) :
    { mapFirst (withIds rules) { r with subjectMapValue := ruleId j, objectMapValue := ruleId k } with tmId := ruleId i } ∈ out := by
  rw [mem_expandStep rules out h]
  refine ⟨({ r with subjectMapValue := ruleId j, objectMapValue := ruleId k }, ruleId i),
    .inr (.inr ⟨({ r with subjectMapValue := ruleId j }, ruleId i),
      .inr ⟨(r, ruleId i), (mem_withIds rules r _).mpr ⟨i, hr, rfl⟩, by simp [quotedAt, hsq], ruleId j, ?_, rfl⟩,
      by simp [quotedAt, hoq], ruleId k, ?_, rfl⟩), rfl⟩
  · rw [mem_idsOf]
    exact ⟨qs, (mem_withIds rules qs _).mpr ⟨j, hqs, rfl⟩, by simpa [valAt] using hvs⟩
  · rw [mem_idsOf]
    exact ⟨qo, (mem_withIds rules qo _).mpr ⟨k, hqo, rfl⟩, by simpa [valAt] using hvo⟩

/-- **Where the normalisation stops.**  A table in which every rule is its own triples map `#TM<position>` and every quoted
    reference names a rule is a fixpoint of `_expand_rml_star`, and `_normalize_rml_star` returns it after one call. -/
theorem C13_expand_fixpoint (rules : List Rule) (hpos : Positional rules) (hn : (rules.map (·.tmId)).Nodup)
    (hres : ∀ r ∈ rules, (r.subjectMapType = .quoted → r.subjectMapValue ∈ rules.map (·.tmId)) ∧
      (r.objectMapType = .quoted → r.objectMapValue ∈ rules.map (·.tmId))) :
    expandStep rules = .ok rules ∧ normalizeStar rules = .ok (some rules) := by
  have h := expandStep_fixpoint rules hpos hn hres
  refine ⟨h, ?_⟩
  simp [normalizeStar, normLoop, h, bind, Except.bind, pure, Except.pure]

/-! ### non-vacuity, and the counter-witnesses on the unchanged code (see known_findings.json) -/

namespace Ex

def t0 : Table :=
  [ [("id".toList, .str "1".toList), ("k".toList, .str "K1".toList), ("k2".toList, .str "a".toList)],
    [("id".toList, .str "2".toList), ("k".toList, .str "K2".toList), ("k2".toList, .str "b".toList)],
    [("id".toList, .str "3".toList), ("k".toList, .str "K1".toList), ("k2".toList, .str "b".toList)],
    [("id".toList, .str "4".toList), ("k".toList, .str [] ), ("k2".toList, .str "a".toList)] ]   -- NULL join key

def t1 : Table :=
  [ [("bid".toList, .str "10".toList), ("v".toList, .str "u".toList), ("k".toList, .str "K1".toList), ("m".toList, .str "a".toList)],
    [("bid".toList, .str "11".toList), ("v".toList, .str "w".toList), ("k".toList, .str "K1".toList), ("m".toList, .str "b".toList)],
    [("bid".toList, .str "12".toList), ("v".toList, .str [] ), ("k".toList, .str "K2".toList), ("m".toList, .str "b".toList)] ]  -- NULL inside the quoted triple

def tablesE : List ((Str × Str) × Table) := [(("DS".toList, "t0.csv".toList), t0), (("DS".toList, "t1.csv".toList), t1)]

def senv : SEnv := { fmt := .nquads, tables := tablesE }
def env : Env := { cfg := { escapeChain := Gen.escapeChainTemplate }, fmt := .nquads, tables := tablesE }
theorem envOK : EnvOK env senv := ⟨⟨rfl, rfl, fun _ _ => rfl, rfl⟩, rfl, rfl, rfl, rfl⟩

def iri (s : String) : TermMap := { kind := .constant, value := s.toList, termType := .iri }
def tpl (pre col : String) : TermMap := { kind := .template, tpl := ⟨pre.toList, [(col.toList, [])]⟩, termType := .iri }
def lit (col : String) : TermMap := { kind := .reference, value := col.toList, termType := .literal }
def dflt : TermMap := { kind := .constant, value := "http://w3id.org/rml/defaultGraph".toList, termType := .iri }

/-- an elementary rule over `t1` (non-asserted) -/
def elemB : FlatRule :=
  { id := "#TM0".toList, asserted := false, sourceName := "DS".toList, lsv := "t1.csv".toList,
    subject := .term (tpl "http://ex.org/b/" "bid"), pred := iri "http://ex.org/pb", object := .term (lit "v"), graph := dflt }
/-- quotes `elemB` through a join on `k` (duplicate keys on both sides, a NULL key, a NULL inside the quoted triple) -/
def mid : FlatRule :=
  { id := "#TM1".toList, asserted := false, sourceName := "DS".toList, lsv := "t0.csv".toList,
    subject := .quoted "#TM0".toList [("k".toList, "k".toList)], pred := iri "http://ex.org/q1", object := .term (lit "k2"), graph := dflt }
/-- quotes `mid` on the same rows, in object position, and places the statement in a named graph: depth 2 -/
def top : FlatRule :=
  { id := "#TM2".toList, sourceName := "DS".toList, lsv := "t0.csv".toList,
    subject := .term (tpl "http://ex.org/a/" "id"), pred := iri "http://ex.org/q2", object := .quoted "#TM1".toList [],
    graph := iri "http://ex.org/g" }

def frs : List FlatRule := [elemB, mid, top]

theorem top_star : isStar (toRule top) = true := by decide
theorem top_ok : okAt senv frs frs.length top = true := by decide +kernel
theorem top_nn : NoRawNulls (senv.tableF top) = true := by decide +kernel
theorem top_complete : Complete (frefs frs (frs.length + 1) top) (senv.tableF top) = true := by decide +kernel

/-- the hypotheses of `C13_quoted_partial` are satisfiable: depth 2, a join with duplicate and NULL keys, a NULL inside the
    quoted triple, a named graph outside and none inside -/
example : ∃ lines, evalRuleStar env (frs.map toRule) (toRule top) = .ok lines ∧
    ∀ line, line ∈ lines ↔ ∃ ρ ∈ senv.tableF top, line ∈ flatLines senv frs frs.length top ρ :=
  C13_quoted_partial envOK frs top top_star top_ok top_nn top_complete

/-- what the engine returns there -/
example : evalRuleStar env (frs.map toRule) (toRule top) = .ok
    [ "<http://ex.org/a/1> <http://ex.org/q2> << << <http://ex.org/b/10> <http://ex.org/pb> \"u\" >> <http://ex.org/q1> \"a\" >> <http://ex.org/g>".toList,
      "<http://ex.org/a/1> <http://ex.org/q2> << << <http://ex.org/b/11> <http://ex.org/pb> \"w\" >> <http://ex.org/q1> \"a\" >> <http://ex.org/g>".toList,
      "<http://ex.org/a/3> <http://ex.org/q2> << << <http://ex.org/b/10> <http://ex.org/pb> \"u\" >> <http://ex.org/q1> \"b\" >> <http://ex.org/g>".toList,
      "<http://ex.org/a/3> <http://ex.org/q2> << << <http://ex.org/b/11> <http://ex.org/pb> \"w\" >> <http://ex.org/q1> \"b\" >> <http://ex.org/g>".toList ] := by
  decide +kernel

/-- the table `frs.map toRule` is normalised: `_normalize_rml_star` leaves it as it is -/
example : normalizeStar (frs.map toRule) = .ok (some (frs.map toRule)) := by decide +kernel

/-- a document with the same maps (the elementary map with two predicate-object maps): the loop of `_normalize_rml_star`
    terminates, the rule quoting the elementary map is there once per rule of it, the rule quoting that one once per copy -/
def docE : SDoc := ⟨[
  { id := "http://ex.org/tm/B".toList, sourceName := "DS".toList, lsv := "t1.csv".toList, asserted := false,
    subject := .term (tpl "http://ex.org/b/" "bid"), classes := [], graphs := [],
    poms := [⟨[iri "http://ex.org/pb"], [.term (lit "v")], []⟩, ⟨[iri "http://ex.org/pm"], [.term (lit "m")], []⟩] },
  { id := "http://ex.org/tm/M".toList, sourceName := "DS".toList, lsv := "t0.csv".toList, asserted := false,
    subject := .quoted "http://ex.org/tm/B".toList [("k".toList, "k".toList)], classes := [], graphs := [],
    poms := [⟨[iri "http://ex.org/q1"], [.term (lit "k2")], []⟩] },
  { id := "http://ex.org/tm/T".toList, sourceName := "DS".toList, lsv := "t0.csv".toList,
    subject := .term (tpl "http://ex.org/a/" "id"), classes := [], graphs := [iri "http://ex.org/g"],
    poms := [⟨[iri "http://ex.org/q2"], [.quoted "http://ex.org/tm/M".toList []], []⟩] }]⟩

example : (match normalizeDocStar docE with | .ok (some rs) => rs.length | _ => 0) = 6 := by decide +kernel
example : AcyclicQuoting docE = true := by decide +kernel

def sameMembers (a b : List Str) : Bool := a.all (b.contains ·) && b.all (a.contains ·)

/-- the engine on the normalised table of that document and the document-level reading of the rules have the same statements
    (nine: rows 1 and 3 of `t0` pair with rows 10 and 11 of `t1`, two triples each; row 2 pairs with row 12, whose `v` is NULL: only the `pm` triple is there to quote) -/
example : sameMembers (match normalizeDocStar docE with
    | .ok (some rs) => (match evalAllStar env rs with | .ok ls => ls | .error _ => [])
    | _ => []) (Spec.Star.evalDoc senv docE 3) = true ∧ (dedupFirst (Spec.Star.evalDoc senv docE 3)).length = 9 := by
  decide +kernel

/-- only the asserted rule contributes statements of its own -/
example : evalAllStar env (frs.map toRule) = evalRuleStar env (frs.map toRule) (toRule top) := by decide +kernel

/-! #### C13_F1: a quoted rule whose four term maps are constants -/

def constA : FlatRule :=
  { id := "#TM0".toList, asserted := false, sourceName := "DS".toList, lsv := "t0.csv".toList,
    subject := .term (iri "http://ex.org/s"), pred := iri "http://ex.org/p", object := .term (iri "http://ex.org/o"), graph := dflt }
def quotesConst : FlatRule :=
  { id := "#TM1".toList, sourceName := "DS".toList, lsv := "t0.csv".toList,
    subject := .quoted "#TM0".toList [], pred := iri "http://ex.org/q", object := .term (lit "id"), graph := dflt }

end Ex

/-- C13_F1: the recursion into an all-constant quoted rule REPLACES the quoting rule's frame by the one-row placeholder
    frame; the quoting rule then raises `KeyError` on its own reference.  (Stated for the shape of the all-constant branch
    that the translator finds in the source: `Gen.Star.allConstKeepsFrame = false` is the code as it is.) -/
theorem C13_F1_placeholder_frame_replaces_rows : Gen.Star.allConstKeepsFrame = false →
    evalRuleStar Ex.env ([Ex.constA, Ex.quotesConst].map toRule) (toRule Ex.quotesConst) = .error (.keyError "id".toList) := by
  decide +kernel

/-- … and with the repaired shape (fixes/C13_F1.diff) the engine returns what the rules prescribe (`C13_F1_spec`) -/
theorem C13_F1_fixed : Gen.Star.allConstKeepsFrame = true →
    evalRuleStar Ex.env ([Ex.constA, Ex.quotesConst].map toRule) (toRule Ex.quotesConst) =
      .ok ((Ex.senv.tableF Ex.quotesConst).flatMap (flatLines Ex.senv [Ex.constA, Ex.quotesConst] 2 Ex.quotesConst)) := by
  decide +kernel

/-- what the generation rules prescribe there: the constant triple quoted once per row -/
theorem C13_F1_spec :
    (Ex.senv.tableF Ex.quotesConst).flatMap (flatLines Ex.senv [Ex.constA, Ex.quotesConst] 2 Ex.quotesConst) =
      [ "<< <http://ex.org/s> <http://ex.org/p> <http://ex.org/o> >> <http://ex.org/q> \"1\" ".toList,
        "<< <http://ex.org/s> <http://ex.org/p> <http://ex.org/o> >> <http://ex.org/q> \"2\" ".toList,
        "<< <http://ex.org/s> <http://ex.org/p> <http://ex.org/o> >> <http://ex.org/q> \"3\" ".toList,
        "<< <http://ex.org/s> <http://ex.org/p> <http://ex.org/o> >> <http://ex.org/q> \"4\" ".toList ] := by
  decide +kernel

/-- the scope of C13_F1 is what `okAt` excludes with `!isAllConstant` -/
theorem C13_F1_outside_hypotheses : okAt Ex.senv [Ex.constA, Ex.quotesConst] 2 Ex.quotesConst = false := by decide +kernel

namespace Ex
/-! #### C13_F2 / C13_F3: two `_merge_data` calls on one frame -/
def bothJoin1 : FlatRule :=
  { id := "#TM1".toList, sourceName := "DS".toList, lsv := "t0.csv".toList,
    subject := .quoted "#TM0".toList [("k".toList, "k".toList)], pred := iri "http://ex.org/q",
    object := .quoted "#TM0".toList [("k".toList, "k".toList)], graph := dflt }
def bothJoin2 : FlatRule :=
  { id := "#TM1".toList, sourceName := "DS".toList, lsv := "t0.csv".toList,
    subject := .quoted "#TM0".toList [("k".toList, "k".toList)], pred := iri "http://ex.org/q",
    object := .quoted "#TM0".toList [("k".toList, "k".toList), ("k2".toList, "m".toList)], graph := dflt }
end Ex

/-- C13_F2: the second `_merge_data` on the frame has one condition: `DataFrame.join` refuses the `parent_…` columns the
    first one left (`columns overlap but no suffix specified`).  (`Gen.Star.joinSuffixed = false` is the code as it is.) -/
theorem C13_F2_second_merge_overlaps : Gen.Star.joinSuffixed = false →
    evalRuleStar Ex.env ([Ex.elemB, Ex.bothJoin1].map toRule) (toRule Ex.bothJoin1) =
      .error (.overlap ["parent_bid".toList, "parent_v".toList, "parent_k".toList, "parent_reference_results".toList]) := by
  decide +kernel

/-- … and with the repaired shape (fixes/C13_F2.diff) the engine returns the statements the rules prescribe, in both cases -/
theorem C13_F2_F3_fixed : Gen.Star.joinSuffixed = true →
    (match evalRuleStar Ex.env ([Ex.elemB, Ex.bothJoin1].map toRule) (toRule Ex.bothJoin1) with
     | .ok ls => Ex.sameMembers ls ((Ex.senv.tableF Ex.bothJoin1).flatMap (flatLines Ex.senv [Ex.elemB, Ex.bothJoin1] 2 Ex.bothJoin1))
     | .error _ => false) = true ∧
    (match evalRuleStar Ex.env ([Ex.elemB, Ex.bothJoin2].map toRule) (toRule Ex.bothJoin2) with
     | .ok ls => Ex.sameMembers ls ((Ex.senv.tableF Ex.bothJoin2).flatMap (flatLines Ex.senv [Ex.elemB, Ex.bothJoin2] 2 Ex.bothJoin2))
     | .error _ => false) = true := by
  decide +kernel

/-- what the generation rules prescribe there (rows 1 and 3 pair with parent rows 10 and 11 on either side) -/
theorem C13_F2_spec :
    ((Ex.senv.tableF Ex.bothJoin1).flatMap (flatLines Ex.senv [Ex.elemB, Ex.bothJoin1] 2 Ex.bothJoin1)).length = 8 := by
  decide +kernel

/-- C13_F3: the first `_merge_data` (one condition) leaves its key as index name; the second one (two conditions, the same
    child key) raises `'k' is both an index level and a column label` -/
theorem C13_F3_index_name_ambiguous : Gen.Star.joinSuffixed = false →
    evalRuleStar Ex.env ([Ex.elemB, Ex.bothJoin2].map toRule) (toRule Ex.bothJoin2) = .error (.ambiguous "k".toList) := by
  decide +kernel

/-- both are what `okAt` excludes with `merges … ≤ 1` -/
theorem C13_F2_F3_outside_hypotheses :
    okAt Ex.senv [Ex.elemB, Ex.bothJoin1] 2 Ex.bothJoin1 = false ∧ okAt Ex.senv [Ex.elemB, Ex.bothJoin2] 2 Ex.bothJoin2 = false := by
  decide +kernel

end Props.C13
