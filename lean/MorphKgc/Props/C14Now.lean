/-
C14 on the tree as it is now (after the `fix:` commits 5747f6e — NULL removal after `explode` —, 8ff6df7 — the result column is an
object Series —, 253ace3 — `hash_iri` imports sha256 —, 69ee0b8 — `toUpperCaseURL` upper-cases the part after the scheme —,
16827d0 — a function-valued language map is not quoted).  C14_F5 and C14_F6 remain open.
-/
import MorphKgc.Props.C14
import MorphKgc.Props.C14b

namespace Props.C14
open Py Model Model.Fnml Spec.Fnml Lemmas.Fnml Lemmas.FnmlBuiltins

theorem C14_current_order : execKindOf Gen.executeSteps = some .explodeThenDropna := by decide

/-- **C14_apply on the current tree, full strength**: `execute_fnml` as the source has it now yields, for every function table, FNML
    table, nesting depth and frame, exactly the non-null atoms of the function applied to each row — no `BadList` hypothesis -/
theorem C14_apply_current :
    (∀ env na df n id fr, executeFnml env .explodeThenDropna na df n id fr =
        fr.flatMap (execRowWith bindArgs (finishRow .explodeThenDropna na) env df n id)) ∧
    (∀ na v, finishRow .explodeThenDropna na v = resultAtoms na v) := by
  obtain ⟨ord, hord, hrow, h⟩ := C14_generated
  have : ord = .explodeThenDropna := by
    rw [C14_current_order] at hord; exact (Option.some.inj hord).symm
  subst this
  rcases h with ⟨_, hfin⟩ | ⟨habs, _⟩
  · exact ⟨hrow, hfin⟩
  · exact absurd habs (by decide)

theorem C14_current_assign : Gen.assignShape = .objectSeries := by decide

theorem C14_current_lang_termtype : Gen.siteShape.langTermtype = none ∧ Gen.siteShape.rawElse = true := by decide

/-- C14_F4 repaired: the tag a function-valued language map produces is appended as it is -/
theorem C14_F4_current (tag : Str) :
    concatCells [.str "\"v\"".toList, .str ['@'],
      fnmlTerm Gen.canonSiteFnml Gen.siteShape.rawElse Gen.siteShape.langTermtype [] (.str tag)] = .str ("\"v\"@".toList ++ tag) := by
  rcases C14_F4_language_map with ⟨h, _⟩ | ⟨_, _, h⟩
  · rw [C14_current_lang_termtype.1] at h; exact absurd h (by decide)
  · exact h tag

/-- C14_F2 repaired: `hash_iri` yields the documented IRI for every string -/
theorem C14_F2_current (lib : PyLib) (s : Str) :
    callPos lib Gen.bif_hash_iri [.str s] = pstr ("http://example.com/ns#".toList ++ lib.sha256hex s) := by
  rcases C14_F2_hash_iri with ⟨n, hn, _⟩ | ⟨_, h⟩
  · have : Gen.bif_hash_iri.shape = .hashIri := by decide
    rw [this] at hn; cases hn
  · exact h lib s

end Props.C14
