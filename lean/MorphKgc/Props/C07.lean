/-
C07 — Referencing object maps implement the relational inner equi-join.

Structure
  1. generated facts (`Gen/Join.lean`, regenerated from /repo on every run) as decidable side conditions: the shape of
     `_merge_data` (prefix, branch, `set_index` sides, `how=` of `join` and `merge`, `left_on`/`right_on`), the route of
     `rml:child` / `rml:parent` into the two reference lists, the referencing branch of `_materialize_rml_rule`, the tests of
     `_remove_self_joins_no_condition`;
  2. `_merge_data` (both code paths, pandas contracts `Model.indexJoin` / `Model.mergeOn`) = `Spec.innerJoin` (nested loop) — as
     LISTS, order and multiplicities included, for all frames and all non-empty condition lists;
  3. the referencing branch transcribed line by line = the shared engine model `Model.evalRule`; its lines are those of the pairs
     of `Spec.joinTables` (NULL keys never match, many-to-many pairs all present) — any term maps; for term maps of the C01
     fragment the lines are exactly the statements of the generation rules (`Spec.stmtsFor … (.ref …)`, `Spec.refStmts`);
  4. self-join elimination: counter-witnesses C07_F1 (many-to-many join replaced by the identity pairing) and C07_F2 (a row with a
     NULL join key yields a statement) for the shape found in /repo, the soundness theorem under exactly the two missing
     conditions (`ElimOK.subjInJoin`, `ElimOK.joinInRefs`), and the theorem that the repaired shape (`fixes/C07_F1.diff`)
     tests them;
  5. C07_F3 (section 2): a child column named `parent_<parent column>` makes the index path raise (`columns overlap`);
     C07_F4 (section 5): a referencing object map next to a term-valued object map in one predicate-object map never reaches the
     rule table (two consecutive OPTIONAL blocks of `RML_PARSING_QUERY` on one variable; repair: UNION, `fixes/C07_F4.diff`).

What stays outside: pandas itself (contracts `Model.indexJoin` / `Model.mergeOn`, compared with the real `_merge_data` on generated
frames on every run), the SPARQL engine behind the parsing queries, iterators, value formatting across source formats.
-/
import MorphKgc.Lemmas.JoinRefine
import MorphKgc.Lemmas.JoinElimSound
import MorphKgc.Gen.Join
import MorphKgc.Gen.Escape

namespace Props.C07
open Py Model Spec

/-! ## 1. generated facts -/

/-- `_merge_data` as read from /repo: prefix `parent_` on frame and references, index path for exactly one condition with the
    child frame indexed by the child references and the parent frame by the parent references, `how='inner'` on both paths,
    `left_on` = child references, `right_on` = parent references -/
theorem C07_gen_merge_shape : Gen.mergeShape = MergeShape.expected := by decide

/-- `rml:child` values reach the first list of `get_references_in_join_condition`, `rml:parent` values the second -/
theorem C07_gen_join_cond_route : Gen.joinCondShape.OK = true := by decide

/-- the referencing branch: parent references = parent SUBJECT references + parent join columns, alias `parent_`, object term from
    the parent's subject map -/
theorem C07_gen_ref_branch : Gen.refBranchShape = RefBranchShape.expected := by decide

/-- the elimination tests source, iterator and column equality (both for the code as found and for the repair) -/
theorem C07_gen_elim_tests :
    Gen.elimShape.sameSource = true ∧ Gen.elimShape.sameIterator = true ∧ Gen.elimShape.sameColumns = true := by decide

/-- the translator recognised every construct -/
theorem C07_gen_translated : Gen.joinTranslated = true := by decide

/-! ## 2. `_merge_data` is the inner equi-join -/

/-- **`_merge_data` = relational inner equi-join**, for the source as it is now: for all frames (any number of rows, duplicate
    keys on either side) whose labels contain the join columns and do not clash, and every non-empty list of conditions, the
    merged frame consists of the rows `c ++ parent_p` for exactly the pairs `(c, p)` of the nested-loop join, in nested-loop
    order, each as often as the pair occurs. -/
theorem C07_merge_is_join (data parent : Frame) (conds : List (Str × Str)) (hne : conds ≠ [])
    (hrows : data.RowsHave) (hc : ∀ cp ∈ conds, cp.1 ∈ data.cols) (hp : ∀ cp ∈ conds, cp.2 ∈ parent.cols)
    (hno : NoClash "parent_".toList data.cols parent.cols) :
    mergeFrames Gen.mergeShape data parent conds =
      .ok ⟨data.cols ++ parent.cols.map ("parent_".toList ++ ·),
           (innerJoin srowVal srowVal conds data.rows parent.rows).map fun cp => cp.1 ++ prefixRow "parent_".toList cp.2⟩ := by
  rw [C07_gen_merge_shape, mergeFrames_eq_mergeData data parent conds hne hrows hc hp hno, mergeData_eq_innerJoin]

/-- the pairs of the join: every pair of rows that agree, with non-NULL values, on every condition — nothing else -/
theorem C07_join_pairs {α β} (cval : α → Str → Option Str) (pval : β → Str → Option Str) (conds : List (Str × Str))
    (child : List α) (parent : List β) (c : α) (p : β) :
    (c, p) ∈ innerJoin cval pval conds child parent ↔
      c ∈ child ∧ p ∈ parent ∧ ∀ cp ∈ conds, ∃ v, cval c cp.1 = some v ∧ pval p cp.2 = some v := by
  rw [mem_innerJoin, keysMatch_iff]

theorem count_pairs {α β} [DecidableEq α] [DecidableEq β] (f : β → Bool) (a : α) (p : β) (parent : List β) (hp : f p = true) :
    ((parent.filter f).map fun p' => (a, p')).count (a, p) = parent.count p := by
  induction parent with
  | nil => simp
  | cons q parent ih =>
    by_cases hq : f q = true
    · simp only [List.filter_cons, hq, ↓reduceIte, List.map_cons, List.count_cons, ih]
      by_cases hqp : q = p <;> simp [hqp]
    · have hqp : q ≠ p := fun e => hq (e ▸ hp)
      simp only [List.filter_cons, hq, Bool.false_eq_true, ↓reduceIte, ih, List.count_cons, beq_iff_eq, hqp]
      simp

/-- multiplicities: a child row occurring `m` times and a matching parent row occurring `n` times give `m * n` pairs -/
theorem C07_join_count {α β} [DecidableEq α] [DecidableEq β] (cval : α → Str → Option Str) (pval : β → Str → Option Str)
    (conds : List (Str × Str)) (child : List α) (parent : List β) (c : α) (p : β)
    (hk : keysMatch (cval c) (pval p) conds = true) :
    (innerJoin cval pval conds child parent).count (c, p) = child.count c * parent.count p := by
  unfold innerJoin
  induction child with
  | nil => simp
  | cons a child ih =>
    rw [List.flatMap_cons, List.count_append, ih, List.count_cons]
    by_cases hac : a = c
    · subst hac
      rw [count_pairs _ a p parent hk]
      simp [Nat.add_mul, Nat.add_comm]
    · have h0 : ((parent.filter fun p' => keysMatch (cval a) (pval p') conds).map fun p' => (a, p')).count (c, p) = 0 := by
        rw [List.count_eq_zero]
        intro hm
        obtain ⟨p', _, hp'⟩ := List.mem_map.mp hm
        exact hac (by cases hp'; rfl)
      have : ¬ (a == c) = true := by simpa using hac
      simp [h0, this]

/-- a NULL on either side of a condition: the pair is not in the join -/
theorem C07_null_never_matches {α β} (cval : α → Str → Option Str) (pval : β → Str → Option Str) (conds : List (Str × Str))
    (child : List α) (parent : List β) (c : α) (p : β) (cp : Str × Str) (hcp : cp ∈ conds)
    (hnull : cval c cp.1 = none ∨ pval p cp.2 = none) : (c, p) ∉ innerJoin cval pval conds child parent := by
  rw [C07_join_pairs]
  rintro ⟨_, _, h⟩
  obtain ⟨v, h1, h2⟩ := h cp hcp
  rcases hnull with h' | h' <;> simp_all

/-- C07_F3 (counter-witness): a child column called `parent_k` next to a parent column `k` makes the index path raise
    (`ValueError: columns overlap but no suffix specified`) instead of joining -/
theorem C07_F3_prefix_clash_raises :
    mergeFrames MergeShape.expected
      ⟨["parent_k".toList], [[("parent_k".toList, "1".toList)]]⟩ ⟨["k".toList], [[("k".toList, "1".toList)]]⟩
      [("parent_k".toList, "k".toList)] = .error (.overlap ["parent_k".toList]) := by decide +kernel

/-- non-vacuity of `C07_merge_is_join`: two conditions (merge path), duplicate keys on both sides, shared column names -/
example :
    mergeFrames Gen.mergeShape
      ⟨["id".toList, "k".toList], [[("id".toList, "1".toList), ("k".toList, "x".toList)], [("id".toList, "2".toList), ("k".toList, "x".toList)]]⟩
      ⟨["id".toList, "k".toList], [[("id".toList, "7".toList), ("k".toList, "x".toList)], [("id".toList, "8".toList), ("k".toList, "x".toList)]]⟩
      [("k".toList, "k".toList), ("k".toList, "k".toList)] =
    .ok ⟨["id".toList, "k".toList, "parent_id".toList, "parent_k".toList],
      [[("id".toList, "1".toList), ("k".toList, "x".toList), ("parent_id".toList, "7".toList), ("parent_k".toList, "x".toList)],
       [("id".toList, "1".toList), ("k".toList, "x".toList), ("parent_id".toList, "8".toList), ("parent_k".toList, "x".toList)],
       [("id".toList, "2".toList), ("k".toList, "x".toList), ("parent_id".toList, "7".toList), ("parent_k".toList, "x".toList)],
       [("id".toList, "2".toList), ("k".toList, "x".toList), ("parent_id".toList, "8".toList), ("parent_k".toList, "x".toList)]]⟩ := by
  decide +kernel

/-! ## 3. the referencing rule -/

/-- **The join branch of `_materialize_rml_rule`, with the generated shapes, is the shared engine model.** -/
theorem C07_branch_is_evalRule (env : Env) (rules : List Rule) (r parent : Rule) (hpt : r.objectMapType = .parentTM)
    (hfind : findRule rules r.objectMapValue = some parent) (hne : r.objectJoin ≠ []) (hno : RuleNoClash r parent) :
    evalRefRule Gen.mergeShape Gen.refBranchShape env rules r = liftMat (evalRule env rules r) := by
  rw [C07_gen_merge_shape, C07_gen_ref_branch]
  exact evalRefRule_eq_evalRule env rules r parent hpt hfind hne hno

/-- **The lines of a referencing rule are those of the pairs of the relational inner equi-join** of the two logical tables on all
    conditions — for EVERY rule (any term maps), all tables having the referenced columns and no raw null objects, any number
    of conditions, duplicate keys on either side: a pair contributes iff it is in the join and none of the columns the rule /
    the parent subject refers to is NULL; the line is built from the merged row. -/
theorem C07_rule_is_join (env : Env) (rules : List Rule) (r parent : Rule) (hpt : r.objectMapType = .parentTM)
    (hfind : findRule rules r.objectMapValue = some parent)
    (hcomp : Complete (refsOfRule r) (env.table r) = true)
    (hcompP : Complete (parentRefsOf r parent) (env.table parent) = true)
    (hnn : NoRawNulls (env.table r) = true) (hnnP : NoRawNulls (env.table parent) = true)
    (lines : List Str) (hl : evalRule env rules r = .ok lines) (line : Str) :
    line ∈ lines ↔ ∃ cp ∈ joinTables env.na r.objectJoin (env.table r) (env.table parent),
      (∀ c ∈ refsOfRule r, valueOf env.na cp.1 c ≠ none) ∧ (∀ c ∈ refsOfRule parent true, valueOf env.na cp.2 c ≠ none) ∧
      rowTriple env r parent.subjectMapType parent.subjectMapValue "parent_".toList (joinedRow r parent cp.1 cp.2) = .ok line := by
  rw [mem_evalRule_ref env rules r parent hpt hfind hcomp hcompP lines hl line]
  simp only [Complete, List.all_eq_true] at hcomp hcompP
  simp only [NoRawNulls] at hnn hnnP
  have hvc : ∀ ρ ∈ env.table r, ∀ c ∈ refsOfRule r,
      valueOf env.na ρ c = if cellStr ρ c ∈ env.na then none else some (cellStr ρ c) := fun ρ hρ c hc =>
    valueOf_eq env.na ρ c (hcomp ρ hρ c hc) (List.all_eq_true.mp hnn ρ hρ)
  have hvp : ∀ ρ ∈ env.table parent, ∀ c ∈ parentRefsOf r parent,
      valueOf env.na ρ c = if cellStr ρ c ∈ env.na then none else some (cellStr ρ c) := fun ρ hρ c hc =>
    valueOf_eq env.na ρ c (hcompP ρ hρ c hc) (List.all_eq_true.mp hnnP ρ hρ)
  have hcj : ∀ cp ∈ r.objectJoin, cp.1 ∈ refsOfRule r := fun cp hcp =>
    join_children_subset r _ (List.mem_map.mpr ⟨cp, hcp, rfl⟩)
  have hpj : ∀ cp ∈ r.objectJoin, cp.2 ∈ parentRefsOf r parent := fun cp hcp =>
    List.mem_append.mpr (.inr (List.mem_map.mpr ⟨cp, hcp, rfl⟩))
  constructor
  · rintro ⟨ρc, hρc, ρp, hρp, hc, hp, hk, hrt⟩
    refine ⟨(ρc, ρp), (mem_joinTables _ _ _ _ _ _).mpr ⟨hρc, hρp, ?_⟩, ?_, ?_, hrt⟩
    · rw [keysMatch_iff]
      intro cp hcp
      refine ⟨cellStr ρc cp.1, ?_, ?_⟩
      · rw [hvc ρc hρc _ (hcj cp hcp)]; simp [hc _ (hcj cp hcp)]
      · rw [hvp ρp hρp _ (hpj cp hcp), ← hk cp hcp]
        have := hp _ (hpj cp hcp)
        rw [← hk cp hcp] at this
        simp [this]
    · intro c hcm; rw [hvc ρc hρc c hcm]; simp [hc c hcm]
    · intro c hcm
      have hcm' : c ∈ parentRefsOf r parent := List.mem_append.mpr (.inl hcm)
      rw [hvp ρp hρp c hcm']; simp [hp c hcm']
  · rintro ⟨⟨ρc, ρp⟩, hm, hc, hp, hrt⟩
    obtain ⟨hρc, hρp, hk⟩ := (mem_joinTables _ _ _ _ _ _).mp hm
    rw [keysMatch_iff] at hk
    refine ⟨ρc, hρc, ρp, hρp, ?_, ?_, ?_, hrt⟩
    · intro c hcm hna
      exact hc c hcm (by rw [hvc ρc hρc c hcm]; simp [hna])
    · intro c hcm hna
      rcases List.mem_append.mp hcm with hcm' | hcm'
      · exact hp c hcm' (by rw [hvp ρp hρp c hcm]; simp [hna])
      · obtain ⟨cp, hcp, rfl⟩ := List.mem_map.mp hcm'
        obtain ⟨v, _, hv⟩ := hk cp hcp
        rw [hvp ρp hρp _ hcm] at hv
        simp [hna] at hv
    · intro cp hcp
      obtain ⟨v, hv1, hv2⟩ := hk cp hcp
      rw [hvc ρc hρc _ (hcj cp hcp)] at hv1
      rw [hvp ρp hρp _ (hpj cp hcp)] at hv2
      split at hv1
      · cases hv1
      · split at hv2
        · cases hv2
        · simp only [Option.some.injEq] at hv1 hv2
          rw [hv1, hv2]

/-- **C07 (rule level, generation rules).** For a referencing object map whose child subject map, predicate map, graph map and
    parent subject map are in the fragment of C01, all pairs of complete tables without raw null objects (duplicate keys on either
    side, NULL keys, no matches), any list of join conditions: the engine does not raise and emits exactly
    `{ S_child(c) P(c) S_parent(p) G(c) | (c, p) ∈ child ⋈ parent }` (`Spec.refStmts`), no statement missing, no other. -/
theorem C07_refobj {env : Env} {senv : SEnv} (henv : EnvOK env senv) (doc : Doc) (rules : List Rule)
    (tm ptm : TriplesMap) (pm gm : TermMap) (conds : List (Str × Str)) (prule : Rule)
    (hr : RefRuleOK senv.defaultGraph tm ptm pm gm) (hl : ParentLink env senv doc rules ptm prule)
    (hno : RuleNoClash (refRuleOf doc tm pm ptm.id conds (mapOf gm)) prule)
    (hcomp : Complete (refsOfRule (refRuleOf doc tm pm ptm.id conds (mapOf gm))) (senv.table tm) = true)
    (hcompP : Complete (parentRefsOf (refRuleOf doc tm pm ptm.id conds (mapOf gm)) prule) (senv.table ptm) = true)
    (hnn : NoRawNulls (senv.table tm) = true) (hnnP : NoRawNulls (senv.table ptm) = true) :
    ∃ lines, evalRule env rules (refRuleOf doc tm pm ptm.id conds (mapOf gm)) = .ok lines ∧
      ∀ line, line ∈ lines ↔ line ∈ refStmts senv tm ptm conds [gm] pm :=
  ref_rule_refinement henv doc rules tm ptm pm gm conds prule hr hl hno hcomp hcompP hnn hnnP

/-- the same against the generation rules of `Spec/Rules.lean` (C01's specification), row by row of the child table -/
theorem C07_refobj_generation_rules {env : Env} {senv : SEnv} (henv : EnvOK env senv) (doc : Doc) (rules : List Rule)
    (tm ptm : TriplesMap) (pm gm : TermMap) (conds : List (Str × Str)) (prule : Rule)
    (hr : RefRuleOK senv.defaultGraph tm ptm pm gm) (hl : ParentLink env senv doc rules ptm prule)
    (hno : RuleNoClash (refRuleOf doc tm pm ptm.id conds (mapOf gm)) prule)
    (hcomp : Complete (refsOfRule (refRuleOf doc tm pm ptm.id conds (mapOf gm))) (senv.table tm) = true)
    (hcompP : Complete (parentRefsOf (refRuleOf doc tm pm ptm.id conds (mapOf gm)) prule) (senv.table ptm) = true)
    (hnn : NoRawNulls (senv.table tm) = true) (hnnP : NoRawNulls (senv.table ptm) = true) :
    ∃ lines, evalRule env rules (refRuleOf doc tm pm ptm.id conds (mapOf gm)) = .ok lines ∧
      ∀ line, line ∈ lines ↔ ∃ ρ ∈ senv.table tm, line ∈ stmtsFor senv doc tm ρ [gm] pm (.ref ptm.id conds) := by
  obtain ⟨lines, h1, h2⟩ := C07_refobj henv doc rules tm ptm pm gm conds prule hr hl hno hcomp hcompP hnn hnnP
  exact ⟨lines, h1, fun line => by rw [h2, mem_refStmts senv doc tm ptm [gm] pm conds hl.doc]⟩

/-- the rule is what the normaliser produces for the referencing object map -/
theorem C07_rule_of_normalizer (doc : Doc) (tm : TriplesMap) (pm : TermMap) (pid : Str) (conds : List (Str × Str)) (g : MapType × Str) :
    refRuleOf doc tm pm pid conds g = pomRule doc tm pm (.ref pid conds) g := rfl

/-! ## 4. self-join elimination -/

/-- the shape found in /repo before the repair is what the shared normaliser model implements -/
theorem elimTests_found (r parent : Rule) :
    elimTests ElimShape.found r parent =
      (decide (r.logicalSourceValue = parent.logicalSourceValue) && decide (r.iterator = parent.iterator) &&
        r.objectJoin.all (fun cp => cp.1 = cp.2)) := by
  simp [elimTests, ElimShape.found]

/-- the shape after the first repair (fix commit of C07_F1 / C07_F2, still without the test of the section: finding C07_F5) -/
theorem elimTests_repaired (r parent : Rule) :
    elimTests ElimShape.repaired r parent =
      (decide (r.logicalSourceValue = parent.logicalSourceValue) && decide (r.iterator = parent.iterator) &&
        r.objectJoin.all (fun cp => cp.1 = cp.2) && subjRefsAreJoinCols r parent) := by
  simp [elimTests, ElimShape.repaired, ElimShape.found, subjRefsAreJoinCols, sameSet]

/-- the current shape (both repairs: C07_F1 / C07_F2 and C07_F5) is what the shared normaliser model implements -/
theorem elimTests_current (r parent : Rule) :
    elimTests ElimShape.current r parent =
      (decide (r.sourceName = parent.sourceName) && decide (r.logicalSourceValue = parent.logicalSourceValue) &&
        decide (r.iterator = parent.iterator) && r.objectJoin.all (fun cp => cp.1 = cp.2) && subjRefsAreJoinCols r parent) := by
  simp [elimTests, ElimShape.current, ElimShape.repaired, ElimShape.found, subjRefsAreJoinCols, sameSet]

/-- the current tests are the tests of the first repair plus the test of the section -/
theorem elimTests_current_eq (r parent : Rule) :
    elimTests ElimShape.current r parent = (decide (r.sourceName = parent.sourceName) && elimTests ElimShape.repaired r parent) := by
  rw [elimTests_current, elimTests_repaired]; simp only [Bool.and_assoc]

theorem C07_elim_current_is_shared (rules : List Rule) (r : Rule) :
    eliminateSelfJoinG ElimShape.current rules r = eliminateSelfJoin rules r := by
  unfold eliminateSelfJoinG eliminateSelfJoin
  by_cases hpt : r.objectMapType = .parentTM
  · simp only [hpt, ↓reduceIte]
    cases hf : rules.find? (fun p => p.tmId = r.objectMapValue) with
    | none => rfl
    | some parent => simp only [elimTests_current]
  · simp only [hpt, ↓reduceIte]

/-- **the tests of the section and of the logical source value imply that both rules read the same rows** (tables are keyed by
    section and logical source value; iterators are outside the model).  Without the test of the section this fails: C07_F5. -/
theorem C07_tests_same_table (sh : ElimShape) (h1 : sh.sameSection = true) (h2 : sh.sameSource = true) (env : Env) (r parent : Rule)
    (ht : elimTests sh r parent = true) : env.table r = env.table parent := by
  simp only [elimTests, h1, h2, Bool.not_true, Bool.false_or, Bool.and_eq_true, decide_eq_true_eq] at ht
  unfold Env.table
  rw [ht.1.1.1.1, ht.1.1.1.2]

/-- the rewriting either leaves the rule alone or replaces the object map by the parent's subject map -/
theorem C07_elim_result (sh : ElimShape) (rules : List Rule) (r parent : Rule) (hpt : r.objectMapType = .parentTM)
    (hfind : findRule rules r.objectMapValue = some parent) :
    eliminateSelfJoinG sh rules r = if elimTests sh r parent then eliminated r parent else r := by
  unfold findRule at hfind
  unfold eliminateSelfJoinG
  simp only [hpt, ↓reduceIte, hfind]
  rfl

/-- **C07_elimination_sound.** Replacing a referencing object map by the parent's subject map evaluated on the row itself leaves
    the result unchanged — both raise or both yield the same set of statements — whenever the two triples maps read the same
    rows, every condition compares a column with itself, **the parent subject map refers to join columns only** and **every join
    column is still referenced afterwards**.  The last two are what `_remove_self_joins_no_condition` does not test. -/
theorem C07_elimination_sound (env : Env) (rules : List Rule) (r parent : Rule) (h : ElimOK env rules r parent) :
    SameOutcome (evalRule env rules (eliminated r parent)) (evalRule env rules r) :=
  elimination_sameOutcome env rules r parent h

/-- **C07_elimination (partial), code as found**: outside the scopes of C07_F1 and C07_F2 the rewriting performed by
    `_remove_self_joins_no_condition` is sound.  The extra hypotheses are exactly `¬ scope_C07_F1`, `¬ scope_C07_F2`. -/
theorem C07_elimination_partial (env : Env) (rules : List Rule) (r parent : Rule)
    (hpt : r.objectMapType = .parentTM) (hfind : findRule rules r.objectMapValue = some parent)
    (htests : elimTests ElimShape.found r parent = true)
    (hF1 : scope_C07_F1 r parent = false) (hF2 : scope_C07_F2 r parent = false)
    (hrows : env.table r = env.table parent) (htt : r.objectTermtype = parent.subjectTermtype)
    (hsk : parent.subjectMapType ≠ .parentTM) (hnc : isAllConstant (eliminated r parent) = false)
    (hex : ∀ m ∈ ownMaps r, RefsExact m) (hexs : RefsExact (parent.subjectMapType, parent.subjectMapValue))
    (hno : RuleNoClash r parent) (hcomp : Complete (refsOfRule r) (env.table r) = true) :
    SameOutcome (evalRule env rules (eliminateSelfJoinG ElimShape.found rules r)) (evalRule env rules r) := by
  rw [C07_elim_result _ rules r parent hpt hfind, htests]
  simp only [↓reduceIte]
  apply elimination_sameOutcome
  simp only [elimTests, ElimShape.found, Bool.not_true, Bool.false_or, Bool.and_true, Bool.and_eq_true, decide_eq_true_eq,
    List.all_eq_true] at htests
  simp only [scope_C07_F1, scope_C07_F2, Bool.not_eq_false', List.all_eq_true, List.contains_eq_mem, decide_eq_true_eq] at hF1 hF2
  exact ⟨hpt, hfind, hrows, htests.2, hF1, hF2, htt, hsk, hnc, hex, hexs, hno, hcomp⟩

theorem sameSet_iff (a b : List Str) : sameSet a b = true ↔ (∀ x ∈ a, x ∈ b) ∧ (∀ x ∈ b, x ∈ a) := by
  simp [sameSet, List.all_eq_true]

/-- **The repaired tests imply the two conditions.** With `subjRefs = .eqJoinCols` (fixes/C07_F1.diff) a join with at least one
    condition is rewritten only if the parent subject map is constant/template/reference-valued and its references are, as a set,
    the join columns. -/
theorem C07_repaired_tests (sh : ElimShape) (hs : sh.subjRefs = .eqJoinCols) (hc : sh.sameColumns = true) (r parent : Rule)
    (hne : r.objectJoin ≠ []) (ht : elimTests sh r parent = true) :
    (∀ cp ∈ r.objectJoin, cp.1 = cp.2) ∧ scope_C07_F1 r parent = false ∧ scope_C07_F2 r parent = false ∧
      parent.subjectMapType ≠ .parentTM := by
  have hne' : r.objectJoin.isEmpty = false := by cases h : r.objectJoin <;> simp_all
  simp only [elimTests, hs, hc, Bool.not_true, Bool.false_or, hne', Bool.and_eq_true, Bool.or_eq_true, decide_eq_true_eq,
    List.all_eq_true, sameSet_iff] at ht
  obtain ⟨⟨_, hcols⟩, hkind, h1, h2⟩ := ht
  have hrefs : refsOfRule parent true = refsOfMap parent.subjectMapType parent.subjectMapValue := by simp [refsOfRule]
  rw [hrefs] at h1 h2
  refine ⟨hcols, ?_, ?_, ?_⟩
  · simp only [scope_C07_F1, Bool.not_eq_false', List.all_eq_true, List.contains_eq_mem, decide_eq_true_eq]
    exact h1
  · simp only [scope_C07_F2, Bool.not_eq_false', List.all_eq_true, List.contains_eq_mem, decide_eq_true_eq]
    exact fun c hc => (mem_refsOfRule_eliminated r parent c).mpr (.inr (h2 c hc))
  · rcases hkind with (h | h) | h <;> simp [h]

/-- **C07_elimination, repaired code**: when the translator reads the repaired shape from /repo, every rewriting the normaliser
    performs on a join with conditions is sound (no scope excluded). -/
theorem C07_elimination_repaired (hs : Gen.elimShape.subjRefs = .eqJoinCols) (env : Env) (rules : List Rule) (r parent : Rule)
    (hpt : r.objectMapType = .parentTM) (hfind : findRule rules r.objectMapValue = some parent) (hne : r.objectJoin ≠ [])
    (hrows : elimTests Gen.elimShape r parent = true → env.table r = env.table parent)
    (htt : r.objectTermtype = parent.subjectTermtype) (hnc : isAllConstant (eliminated r parent) = false)
    (hex : ∀ m ∈ ownMaps r, RefsExact m) (hexs : RefsExact (parent.subjectMapType, parent.subjectMapValue))
    (hno : RuleNoClash r parent) (hcomp : Complete (refsOfRule r) (env.table r) = true) :
    SameOutcome (evalRule env rules (eliminateSelfJoinG Gen.elimShape rules r)) (evalRule env rules r) := by
  rw [C07_elim_result _ rules r parent hpt hfind]
  by_cases ht : elimTests Gen.elimShape r parent = true
  · simp only [ht, ↓reduceIte]
    obtain ⟨hcols, hF1, hF2, hsk⟩ := C07_repaired_tests Gen.elimShape hs C07_gen_elim_tests.2.2 r parent hne ht
    simp only [scope_C07_F1, scope_C07_F2, Bool.not_eq_false', List.all_eq_true, List.contains_eq_mem, decide_eq_true_eq] at hF1 hF2
    exact elimination_sameOutcome env rules r parent
      ⟨hpt, hfind, hrows ht, hcols, hF1, hF2, htt, hsk, hnc, hex, hexs, hno, hcomp⟩
  · simp only [ht, Bool.false_eq_true, ↓reduceIte]
    exact ⟨fun l1 h => ⟨l1, h, fun _ => Iff.rfl⟩, fun l2 h => ⟨l2, h⟩⟩

/-! ### counter-witnesses (code as found) and the repaired behaviour, on concrete documents -/

namespace Cw

def t1 : Table :=
  [ [("id".toList, .str "1".toList), ("k".toList, .str "x".toList), ("v".toList, .str "p".toList)],
    [("id".toList, .str "2".toList), ("k".toList, .str "x".toList), ("v".toList, .str "q".toList)],
    [("id".toList, .str "3".toList), ("k".toList, .str []), ("v".toList, .str "r".toList)],
    [("id".toList, .str "4".toList), ("k".toList, .str "z".toList), ("v".toList, .str [])] ]

def tables : List ((Str × Str) × Table) := [(("DS".toList, "t.csv".toList), t1)]
def senv : SEnv := { tables := tables }
def env : Env := { cfg := { escapeChain := Gen.escapeChainTemplate }, tables := tables }

def pred : TermMap := { kind := .constant, value := "http://ex/p".toList }
def subjC : TermMap := { kind := .template, tpl := ⟨"http://ex/C/".toList, [("id".toList, [])]⟩ }
def subjPid : TermMap := { kind := .template, tpl := ⟨"http://ex/P/".toList, [("id".toList, [])]⟩ }
def subjPk : TermMap := { kind := .template, tpl := ⟨"http://ex/P/".toList, [("k".toList, [])]⟩ }

def docOf (psubj : TermMap) (conds : List (Str × Str)) : Doc :=
  ⟨[{ id := "#TM0".toList, sourceName := "DS".toList, lsv := "t.csv".toList, subject := subjC, classes := [], graphs := [],
      poms := [⟨[pred], [.ref "#TM1".toList conds], []⟩] },
    { id := "#TM1".toList, sourceName := "DS".toList, lsv := "t.csv".toList, subject := psubj, classes := [], graphs := [], poms := [] }]⟩

/-- many-to-many self-join on `k`, parent subject built from `id` -/
def docF1 : Doc := docOf subjPid [("k".toList, "k".toList)]
/-- self-join on `k` and `v`, parent subject built from `k` only -/
def docF2 : Doc := docOf subjPk [("k".toList, "k".toList), ("v".toList, "v".toList)]

/-- what the generation rules prescribe for the many-to-many self-join: the four pairs of rows 1 and 2; rows 3 (NULL key) and 4
    (no partner but itself) … row 4 joins with itself -/
theorem F1_spec : dedupFirst (evalDoc senv docF1) =
    [ "<http://ex/C/1> <http://ex/p> <http://ex/P/1>".toList, "<http://ex/C/1> <http://ex/p> <http://ex/P/2>".toList,
      "<http://ex/C/2> <http://ex/p> <http://ex/P/1>".toList, "<http://ex/C/2> <http://ex/p> <http://ex/P/2>".toList,
      "<http://ex/C/4> <http://ex/p> <http://ex/P/4>".toList ] := by decide +kernel

theorem F2_spec : dedupFirst (evalDoc senv docF2) =
    [ "<http://ex/C/1> <http://ex/p> <http://ex/P/x>".toList, "<http://ex/C/2> <http://ex/p> <http://ex/P/x>".toList ] := by
  decide +kernel

end Cw

/-- **C07_F1 (counter-witness, code as found).** The self-join on the non-unique column `k` is replaced by the identity pairing:
    `C/1→P/2` and `C/2→P/1` are missing, and `C/3→P/3` (NULL key) appears. -/
theorem C07_F1_identity_pairing (h : Gen.elimShape = ElimShape.found) :
    evalAll Cw.env (normalizeDocG Gen.elimShape Cw.docF1) = .ok
      [ "<http://ex/C/1> <http://ex/p> <http://ex/P/1>".toList, "<http://ex/C/2> <http://ex/p> <http://ex/P/2>".toList,
        "<http://ex/C/3> <http://ex/p> <http://ex/P/3>".toList, "<http://ex/C/4> <http://ex/p> <http://ex/P/4>".toList ] := by
  rw [h]; decide +kernel

/-- **C07_F2 (counter-witness, code as found).** Join on `k` and `v`, parent subject from `k`: row 4 has a NULL `v`, matches nothing
    in the join, and yet yields `C/4→P/z`. -/
theorem C07_F2_null_key_linked (h : Gen.elimShape = ElimShape.found) :
    evalAll Cw.env (normalizeDocG Gen.elimShape Cw.docF2) = .ok
      [ "<http://ex/C/1> <http://ex/p> <http://ex/P/x>".toList, "<http://ex/C/2> <http://ex/p> <http://ex/P/x>".toList,
        "<http://ex/C/4> <http://ex/p> <http://ex/P/z>".toList ] := by
  rw [h]; decide +kernel

/-- with the repaired tests both documents are evaluated through the join and give what the generation rules prescribe -/
theorem C07_F1_F2_repaired_behaviour :
    evalAll Cw.env (normalizeDocG ElimShape.repaired Cw.docF1) = .ok (dedupFirst (evalDoc Cw.senv Cw.docF1)) ∧
    evalAll Cw.env (normalizeDocG ElimShape.repaired Cw.docF2) = .ok (dedupFirst (evalDoc Cw.senv Cw.docF2)) := by
  decide +kernel

/-- … while a self-join whose parent subject is built from exactly the join columns is still eliminated, soundly -/
theorem C07_repaired_still_eliminates :
    (normalizeDocG ElimShape.repaired (Cw.docOf Cw.subjPk [("k".toList, "k".toList)])).all (fun r => r.objectMapType != .parentTM) = true ∧
    evalAll Cw.env (normalizeDocG ElimShape.repaired (Cw.docOf Cw.subjPk [("k".toList, "k".toList)])) =
      .ok (dedupFirst (evalDoc Cw.senv (Cw.docOf Cw.subjPk [("k".toList, "k".toList)]))) := by
  decide +kernel

/-- the scopes on the two witnesses -/
example : scope_C07_F1 { objectMapType := .parentTM, objectJoin := [("k".toList, "k".toList)] }
    { subjectMapValue := "http://ex/P/{id}".toList } = true := by decide +kernel
def cwRuleF2 : Rule :=
  { subjectMapValue := "http://ex/C/{id}".toList, objectMapType := .parentTM,
    objectJoin := [("k".toList, "k".toList), ("v".toList, "v".toList)] }
example : scope_C07_F2 cwRuleF2 { subjectMapValue := "http://ex/P/{k}".toList } = true := by decide +kernel

/-! ## 5. a referencing object map next to a term-valued object map (C07_F4) -/

/-- the object-map part of `RML_PARSING_QUERY` is one of the two recognised shapes -/
theorem C07_gen_object_query : Gen.objectQueryShape = .twoOptionals ∨ Gen.objectQueryShape = .union := by decide

/-- **C07_F4 (counter-witness, query as found).** The referencing object map of a predicate-object map that also has a term-valued
    object map never reaches the rule table: no join statement is generated for it. -/
theorem C07_F4_referencing_map_lost (h : Gen.objectQueryShape = .twoOptionals) (om : TermMap) (pid : Str) (conds : List (Str × Str)) :
    objectsSeen Gen.objectQueryShape [.term om, .ref pid conds] = [.term om] := by
  rw [h]; rfl

/-- outside the scope every object map is delivered, whatever the shape; with the UNION shape always -/
theorem C07_objects_seen_partial (sh : ObjectQueryShape) (objs : List ObjMap) (h : scope_C07_F4 objs = false) :
    objectsSeen sh objs = objs := by
  cases sh
  · unfold objectsSeen
    simp only
    split
    · rename_i ht
      simp only [scope_C07_F4, ht, Bool.true_and, List.any_eq_false, Bool.not_eq_true'] at h
      exact List.filter_eq_self.mpr fun a ha => by simpa using h a ha
    · rfl
  · rfl

theorem C07_F4_repaired_query (objs : List ObjMap) : objectsSeen .union objs = objs := rfl

/-! ## non-vacuity: concrete instances of the hypotheses -/

namespace Ex

def child : Table :=
  [ [("id".toList, .str "1".toList), ("k".toList, .str "x".toList), ("k2".toList, .str "a".toList)],
    [("id".toList, .str "2".toList), ("k".toList, .str "x".toList), ("k2".toList, .str "a".toList)],
    [("id".toList, .str "3".toList), ("k".toList, .str []), ("k2".toList, .str "a".toList)],
    [("id".toList, .str "4".toList), ("k".toList, .str "q".toList), ("k2".toList, .str "a".toList)] ]
def parent : Table :=
  [ [("id".toList, .str "7".toList), ("k".toList, .str "x".toList), ("j".toList, .str "a".toList)],
    [("id".toList, .str "8".toList), ("k".toList, .str "x".toList), ("j".toList, .str "a".toList)],
    [("id".toList, .str "9".toList), ("k".toList, .str "nan".toList), ("j".toList, .str "a".toList)],
    [("id".toList, .str "7".toList), ("k".toList, .str "x".toList), ("j".toList, .str "b".toList)] ]

def tables : List ((Str × Str) × Table) := [(("DS".toList, "c.csv".toList), child), (("DS".toList, "p.csv".toList), parent)]
def senv : SEnv := { fmt := .nquads, tables := tables }
def env : Env := { cfg := { escapeChain := Gen.escapeChainTemplate }, fmt := .nquads, tables := tables }

def gm : TermMap := { kind := .template, tpl := ⟨"http://ex/g/".toList, [("id".toList, [])]⟩ }
def conds : List (Str × Str) := [("k".toList, "k".toList), ("k2".toList, "j".toList)]
def tm : TriplesMap :=
  { id := "#TM0".toList, sourceName := "DS".toList, lsv := "c.csv".toList, subject := Cw.subjC, classes := [], graphs := [],
    poms := [⟨[Cw.pred], [.ref "#TM1".toList conds], [gm]⟩] }
def ptm : TriplesMap :=
  { id := "#TM1".toList, sourceName := "DS".toList, lsv := "p.csv".toList, subject := Cw.subjPid, classes := [], graphs := [], poms := [] }
def doc : Doc := ⟨[tm, ptm]⟩
def rules : List Rule := normalizeDocG Gen.elimShape doc
def prule : Rule := { baseRule ptm with asserted := false }
def rule : Rule := refRuleOf doc tm Cw.pred ptm.id conds (mapOf gm)

theorem envOK : EnvOK env senv := ⟨⟨rfl, rfl, fun _ _ => rfl, rfl⟩, rfl, rfl, rfl, rfl⟩
theorem ruleOK : RefRuleOK senv.defaultGraph tm ptm Cw.pred gm :=
  ⟨by decide +kernel, by decide +kernel, by decide +kernel, by decide +kernel⟩
theorem link : ParentLink env senv doc rules ptm prule :=
  ⟨by decide +kernel, by decide +kernel, by decide +kernel, by decide +kernel, by decide +kernel⟩
theorem rule_mem : rule ∈ rules := by decide +kernel
theorem noClash : RuleNoClash rule prule := by
  intro c hc k hk
  have h1 : refsOfRule rule = ["id".toList, "id".toList, "k".toList, "k2".toList] := by decide +kernel
  have h2 : refsOfRule prule true ++ rule.objectJoin.map (·.2) = ["id".toList, "k".toList, "j".toList] := by decide +kernel
  rw [h1] at hc; rw [h2] at hk
  simp only [List.mem_cons, List.not_mem_nil, or_false] at hc hk
  rcases hc with rfl | rfl | rfl | rfl <;> rcases hk with rfl | rfl | rfl <;> decide

example : Complete (refsOfRule rule) (senv.table tm) = true ∧ Complete (parentRefsOf rule prule) (senv.table ptm) = true ∧
    NoRawNulls (senv.table tm) = true ∧ NoRawNulls (senv.table ptm) = true := by decide +kernel

/-- the engine's output for this rule: many-to-many on `k = x`, the NULL keys (`''` in the child, `nan` in the parent) match nothing,
    row 4 has no partner, the second condition removes the parent row with `j = b` -/
example : evalRule env rules rule = .ok
    [ "<http://ex/C/1> <http://ex/p> <http://ex/P/7> <http://ex/g/1>".toList, "<http://ex/C/1> <http://ex/p> <http://ex/P/8> <http://ex/g/1>".toList,
      "<http://ex/C/2> <http://ex/p> <http://ex/P/7> <http://ex/g/2>".toList, "<http://ex/C/2> <http://ex/p> <http://ex/P/8> <http://ex/g/2>".toList ] := by
  decide +kernel

example : ∃ lines, evalRule env rules rule = .ok lines ∧ ∀ line, line ∈ lines ↔ line ∈ refStmts senv tm ptm conds [gm] Cw.pred :=
  C07_refobj envOK doc rules tm ptm Cw.pred gm conds prule ruleOK link noClash (by decide +kernel) (by decide +kernel)
    (by decide +kernel) (by decide +kernel)

/-- the line-by-line branch with both `_merge_data` paths gives the same (here: the merge path, two conditions) -/
example : evalRefRule Gen.mergeShape Gen.refBranchShape env rules rule = liftMat (evalRule env rules rule) :=
  C07_branch_is_evalRule env rules rule prule rfl link.find (by decide) noClash

/-- an instance of `ElimOK`: self-join on `k`, parent subject built from `k` -/
def selfDoc : Doc := Cw.docOf Cw.subjPk [("k".toList, "k".toList)]
def selfRules : List Rule := dedupFirst (selfDoc.tms.flatMap (rulesOfTm selfDoc))
def selfRule : Rule := refRuleOf selfDoc (selfDoc.tms.headD tm) Cw.pred "#TM1".toList [("k".toList, "k".toList)] (.constant, defaultGraphIri)
def selfParent : Rule := { baseRule (selfDoc.tms.getD 1 ptm) with asserted := false }

theorem selfNoClash : RuleNoClash selfRule selfParent := by
  intro c hc k hk
  have h1 : refsOfRule selfRule = ["id".toList, "k".toList] := by decide +kernel
  have h2 : refsOfRule selfParent true ++ selfRule.objectJoin.map (·.2) = ["k".toList, "k".toList] := by decide +kernel
  rw [h1] at hc; rw [h2] at hk
  simp only [List.mem_cons, List.not_mem_nil, or_false] at hc hk
  rcases hc with rfl | rfl <;> rcases hk with rfl | rfl <;> decide

theorem selfElimOK : ElimOK Cw.env selfRules selfRule selfParent where
  isRef := rfl
  find := by decide +kernel
  sameRows := by decide +kernel
  sameCols := by decide +kernel
  subjInJoin := by decide +kernel
  joinInRefs := by decide +kernel
  termtype := rfl
  subjKind := by decide
  notConst := by decide +kernel
  exactOwn := by
    intro m hm
    have : ownMaps selfRule = [(.template, "http://ex/C/{id}".toList), (.constant, "http://ex/p".toList), (.constant, defaultGraphIri)] := by
      decide +kernel
    rw [this] at hm
    simp only [List.mem_cons, List.not_mem_nil, or_false] at hm
    rcases hm with rfl | rfl | rfl <;> (unfold RefsExact; decide +kernel)
  exactSubj := by unfold RefsExact; decide +kernel
  noClash := selfNoClash
  complete := by decide +kernel

example : SameOutcome (evalRule Cw.env selfRules (eliminated selfRule selfParent)) (evalRule Cw.env selfRules selfRule) :=
  C07_elimination_sound _ _ _ _ selfElimOK

end Ex

end Props.C07
