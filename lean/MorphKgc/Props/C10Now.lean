/-
C10 on the tree as it is now (after the `fix:` commit 236a89a: a DataFrame source no longer deletes double quotes).
-/
import MorphKgc.Props.C10

namespace Props.C10
open Py Model Spec.Payload Lemmas.Read

theorem C10_current_frame_strip : Gen.frameStrip = [] := by decide

/-- C10_F1 repaired: no table of strings is in the scope of the finding any more, for every kind and reference list -/
theorem C10_F1_current (k : Kind) (T : StrTable) (refs : List Str) : ¬ scope_C10_F1 k T refs :=
  C10_F1_fixed_shape C10_current_frame_strip k T refs

end Props.C10
