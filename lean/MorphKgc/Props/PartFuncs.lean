/-
The loop bodies of `mapping_partitioner.py`, translated from /repo's Python AST on every run (tools/gen/Part.py → Gen/PartFuncs.lean),
are EQUAL to the model the C02 / C03 theorems are about:

  the four PARTIAL-AGGREGATIONS loops and the four MAXIMAL loops  = Model.scanStep (after Model's group-boundary reset for MAXIMAL)
  the `by=[…]` keys of every sort, the initial scalars, the `set(df[col]) == {RML_CONSTANT}` tests = Pos.keys, `{}` : Scan, enforceFor
  the loop body of `_get_term_invariants`                          = Model.invOf per position (parent's subject map for referencing maps)

for all states and rows.  An edit of a loop (`startswith` ↔ `==`, a reset added or dropped, another sort key, blank nodes no longer
pooled in group 0, …) changes the generated definition, and these equalities — obligations of C02 and C03 — are re-checked by `lake build`.
-/
import MorphKgc.Gen.PartFuncs
namespace Props.PartFuncs
open Py Model
open Gen.Part (RML_BLANK_NODE RML_LITERAL RML_CONSTANT RML_TEMPLATE RML_PARENT_TRIPLES_MAP AUXILIAR_UNIQUE_REPLACING_STRING)

/-- one row of the rule table with its auxiliary columns, as the translated loops read it -/
def pyPRuleOf (r : PRule) : Gen.Part.PyPRule where
  subject_termtype := termTypeIri r.rule.subjectTermtype
  object_termtype := termTypeIri r.rule.objectTermtype
  subject_invariant := r.sInv
  predicate_invariant := r.pInv
  object_invariant := r.oInv
  graph_invariant := r.gInv
  literal_type := r.litType
  mapping_partition := r.label

theorem aux_eq : auxString = AUXILIAR_UNIQUE_REPLACING_STRING := by decide
theorem tt_bnode (t : TermType) : (termTypeIri t = RML_BLANK_NODE) ↔ t = .bnode := by cases t <;> decide
theorem tt_lit (t : TermType) : (termTypeIri t = RML_LITERAL) ↔ t = .literal := by cases t <;> decide
theorem pyStrOpt_eq (o : Option Str) : Gen.Part.pyStrOpt o = (match o with | some s => s | none => "nan".toList) := by cases o <;> rfl

theorem partial_S_eq (g : Nat) (inv l gl : Str) (r : PRule) :
    Gen.Part.partial_S g inv (pyPRuleOf r) =
      (let cs := scanStep .S false { group := g, inv := inv, lit := l, global := gl } r
       (cs.2.group, cs.2.inv, cs.1)) := by
  unfold Gen.Part.partial_S scanStep pyPRuleOf
  simp only [tt_bnode]
  by_cases h1 : r.rule.subjectTermtype = .bnode
  · simp [h1]
  · by_cases h2 : startsWith r.sInv inv = true <;> simp [h1, h2]

theorem partial_P_eq (g : Nat) (inv l gl : Str) (e : Bool) (r : PRule) :
    Gen.Part.partial_P g inv e (pyPRuleOf r) =
      (let cs := scanStep .P e { group := g, inv := inv, lit := l, global := gl } r
       (cs.2.group, cs.2.inv, cs.1)) := by
  unfold Gen.Part.partial_P scanStep pyPRuleOf
  cases e
  · by_cases h2 : startsWith r.pInv inv = true <;> simp [h2]
  · by_cases h1 : r.pInv = inv <;> simp [h1]

theorem partial_G_eq (g : Nat) (inv l gl : Str) (e : Bool) (r : PRule) :
    Gen.Part.partial_G g inv e (pyPRuleOf r) =
      (let cs := scanStep .G e { group := g, inv := inv, lit := l, global := gl } r
       (cs.2.group, cs.2.inv, cs.1)) := by
  unfold Gen.Part.partial_G scanStep pyPRuleOf
  cases e
  · by_cases h2 : startsWith r.gInv inv = true <;> simp [h2]
  · by_cases h1 : r.gInv = inv <;> simp [h1]

theorem partial_O_eq (g : Nat) (inv l gl : Str) (r : PRule) :
    Gen.Part.partial_O g inv l (pyPRuleOf r) =
      (let cs := scanStep .O false { group := g, inv := inv, lit := l, global := gl } r
       (cs.2.group, cs.2.inv, cs.2.lit, cs.1)) := by
  unfold Gen.Part.partial_O scanStep pyPRuleOf
  simp only [tt_bnode, tt_lit, pyStrOpt_eq]
  by_cases h1 : r.rule.objectTermtype = .bnode
  · simp [h1]
  · by_cases h2 : r.rule.objectTermtype = .literal
    · obtain ⟨idx, rule, sI, pI, oI, gI, lt, lab⟩ := r
      cases lt with
      | none => by_cases h3 : ['n', 'a', 'n'] = l <;> simp_all
      | some t => by_cases h3 : t = l <;> simp_all
    · by_cases h3 : startsWith r.oInv inv = true <;> simp [h1, h2, h3]


/-- the group-boundary reset of the MAXIMAL passes (`if current_global_group != rml_rule['mapping_partition']`) -/
def resetAt (st : Scan) (label : Str) : Scan :=
  if st.global ≠ label then { st with group := 0, inv := auxString, global := label } else st

theorem maximal_S_eq (g : Nat) (inv l gl : Str) (r : PRule) :
    Gen.Part.maximal_S gl g inv (pyPRuleOf r) =
      (let cs := scanStep .S false (resetAt { group := g, inv := inv, lit := l, global := gl } r.label) r
       (cs.2.global, cs.2.group, cs.2.inv, r.label ++ ['-'] ++ cs.1)) := by
  unfold Gen.Part.maximal_S scanStep resetAt pyPRuleOf
  rw [aux_eq]
  simp only [tt_bnode]
  by_cases h0 : gl = r.label <;> by_cases h1 : r.rule.subjectTermtype = .bnode
  · simp [h0, h1]
  · by_cases h2 : startsWith r.sInv inv = true <;> simp [h0, h1, h2]
  · simp [h0, h1]
  · by_cases h2 : startsWith r.sInv AUXILIAR_UNIQUE_REPLACING_STRING = true <;> simp [h0, h1, h2]

theorem maximal_P_eq (g : Nat) (inv l gl : Str) (e : Bool) (r : PRule) :
    Gen.Part.maximal_P gl g inv e (pyPRuleOf r) =
      (let cs := scanStep .P e (resetAt { group := g, inv := inv, lit := l, global := gl } r.label) r
       (cs.2.global, cs.2.group, cs.2.inv, r.label ++ ['-'] ++ cs.1)) := by
  unfold Gen.Part.maximal_P scanStep resetAt pyPRuleOf
  rw [aux_eq]
  by_cases h0 : gl = r.label <;> cases e
  · by_cases h2 : startsWith r.pInv inv = true <;> simp [h0, h2]
  · by_cases h1 : r.pInv = inv <;> simp [h0, h1]
  · by_cases h2 : startsWith r.pInv AUXILIAR_UNIQUE_REPLACING_STRING = true <;> simp [h0, h2]
  · by_cases h1 : r.pInv = AUXILIAR_UNIQUE_REPLACING_STRING <;> simp [h0, h1]

theorem maximal_G_eq (g : Nat) (inv l gl : Str) (e : Bool) (r : PRule) :
    Gen.Part.maximal_G gl g inv e (pyPRuleOf r) =
      (let cs := scanStep .G e (resetAt { group := g, inv := inv, lit := l, global := gl } r.label) r
       (cs.2.global, cs.2.group, cs.2.inv, r.label ++ ['-'] ++ cs.1)) := by
  unfold Gen.Part.maximal_G scanStep resetAt pyPRuleOf
  rw [aux_eq]
  by_cases h0 : gl = r.label <;> cases e
  · by_cases h2 : startsWith r.gInv inv = true <;> simp [h0, h2]
  · by_cases h1 : r.gInv = inv <;> simp [h0, h1]
  · by_cases h2 : startsWith r.gInv AUXILIAR_UNIQUE_REPLACING_STRING = true <;> simp [h0, h2]
  · by_cases h1 : r.gInv = AUXILIAR_UNIQUE_REPLACING_STRING <;> simp [h0, h1]

/-- the object pass: note that `current_literal_type` is NOT reset at a group boundary (in the source and in the model) -/
theorem maximal_O_eq (g : Nat) (inv l gl : Str) (r : PRule) :
    Gen.Part.maximal_O gl g inv l (pyPRuleOf r) =
      (let cs := scanStep .O false (resetAt { group := g, inv := inv, lit := l, global := gl } r.label) r
       (cs.2.global, cs.2.group, cs.2.inv, cs.2.lit, r.label ++ ['-'] ++ cs.1)) := by
  unfold Gen.Part.maximal_O scanStep resetAt pyPRuleOf
  rw [aux_eq]
  simp only [tt_bnode, tt_lit, pyStrOpt_eq]
  obtain ⟨idx, rule, sI, pI, oI, gI, lt, lab⟩ := r
  by_cases h0 : gl = lab <;> by_cases h1 : rule.objectTermtype = .bnode
  · simp [h0, h1]
  · by_cases h2 : rule.objectTermtype = .literal
    · cases lt with
      | none => by_cases h3 : ['n', 'a', 'n'] = l <;> simp_all
      | some t => by_cases h3 : t = l <;> simp_all
    · by_cases h3 : startsWith oI inv = true <;> simp [h0, h1, h2, h3]
  · simp [h0, h1]
  · by_cases h2 : rule.objectTermtype = .literal
    · cases lt with
      | none => by_cases h3 : ['n', 'a', 'n'] = l <;> simp_all
      | some t => by_cases h3 : t = l <;> simp_all
    · by_cases h3 : startsWith oI AUXILIAR_UNIQUE_REPLACING_STRING = true <;> simp [h0, h1, h2, h3]


/-- `Model.maximalPass` is the fold of `resetAt` followed by `scanStep` — the two functions the translated loop bodies are equal to -/
theorem maximalPass_eq (pos : Pos) (rs : List PRule) :
    maximalPass pos rs =
      ((sortBy (fun a b => ltKeys (some a.label :: pos.keys a) (some b.label :: pos.keys b)) rs).foldl
        (fun (acc : List PRule × Scan) r =>
          let cs := scanStep pos (enforceFor pos rs) (resetAt acc.2 r.label) r
          ({ r with label := r.label ++ ['-'] ++ cs.1 } :: acc.1, cs.2))
        ([], { global := match rs.find? (fun r => r.idx = 0) with | some r => r.label | none => [] })).1.reverse := rfl

/-! ### `_get_term_invariants` -/

def mapTypeIri : MapType → Str
  | .constant => RML_CONSTANT
  | .template => RML_TEMPLATE
  | .reference => "http://w3id.org/rml/reference".toList
  | .execution => "http://w3id.org/rml/functionExecution".toList
  | .quoted => "http://w3id.org/rml/quotedTriplesMap".toList
  | .parentTM => RML_PARENT_TRIPLES_MAP

def ruleRow (r : Rule) : Gen.Part.PyPRule where
  subject_map_type := mapTypeIri r.subjectMapType
  subject_map_value := r.subjectMapValue
  predicate_map_type := mapTypeIri r.predicateMapType
  predicate_map_value := r.predicateMapValue
  object_map_type := mapTypeIri r.objectMapType
  object_map_value := r.objectMapValue
  graph_map_type := mapTypeIri r.graphMapType
  graph_map_value := r.graphMapValue

theorem mt_const (k : MapType) : (mapTypeIri k = RML_CONSTANT) ↔ k = .constant := by cases k <;> decide
theorem mt_tpl (k : MapType) : (mapTypeIri k = RML_TEMPLATE) ↔ k = .template := by cases k <;> decide
theorem mt_parent (k : MapType) : (mapTypeIri k = RML_PARENT_TRIPLES_MAP) ↔ k = .parentTM := by cases k <;> decide

/-- one term map's invariant as the translated loop computes it -/
theorem invOf_toOption (mt : MapType) (v : Str) :
    (invOf mt v).toOption = (match mt with
      | .template => Gen.Core.get_invariant_of_template v
      | .constant => some v
      | _ => some []) := by
  cases mt <;> simp [invOf, Except.toOption]
  rw [show Gen.Core.get_invariant_of_template v = getInvariantOfTemplate v from by
    unfold Gen.Core.get_invariant_of_template getInvariantOfTemplate
    rw [show auxString = Gen.Core.AUXILIAR_UNIQUE_REPLACING_STRING from by decide]
    simp only []
    split <;> simp_all]
  cases getInvariantOfTemplate v <;> rfl


theorem frag1 (k : MapType) (v : Str) :
    (if k = .template then (do let r ← Gen.Core.get_invariant_of_template v; pure r)
     else pure (if k = .constant then v else [])) = (invOf k v).toOption := by
  rw [invOf_toOption]; cases k <;> simp
theorem frag2 (k : MapType) (v : Str) :
    (if k = .constant then pure v else if k = .template then (do let r ← Gen.Core.get_invariant_of_template v; pure r)
     else pure []) = (invOf k v).toOption := by
  rw [invOf_toOption]; cases k <;> simp
theorem frag3 (ko kq : MapType) (vo vq : Str) :
    (if ko = .constant then pure vo else if ko = .template then (do let r ← Gen.Core.get_invariant_of_template vo; pure r)
     else if ko = .parentTM then
       (if kq = .constant then pure vq else if kq = .template then (do let r ← Gen.Core.get_invariant_of_template vq; pure r) else pure [])
     else pure []) = (match ko with | .parentTM => invOf kq vq | mt => invOf mt vo).toOption := by
  cases ko <;> simp only [reduceCtorEq, if_false, if_true, frag2] <;> try (first | rfl | (rw [invOf_toOption]))

/-- **the body of the `_get_term_invariants` loop as translated = the invariants of `Model.termInvariants`** (subject, predicate,
    object — through the parent's subject map for a referencing object map — and graph), `raise` = `none` -/
theorem term_invariants_step_eq (r parent : Rule) :
    Gen.Part.term_invariants_step (ruleRow r) (ruleRow parent) =
      (do let s ← (invOf r.subjectMapType r.subjectMapValue).toOption
          let p ← (invOf r.predicateMapType r.predicateMapValue).toOption
          let o ← (match r.objectMapType with
                    | .parentTM => invOf parent.subjectMapType parent.subjectMapValue
                    | mt => invOf mt r.objectMapValue).toOption
          let g ← (invOf r.graphMapType r.graphMapValue).toOption
          pure (s, p, o, g)) := by
  unfold Gen.Part.term_invariants_step ruleRow
  simp only [mt_const, mt_tpl, mt_parent, bind_pure]
  rw [frag1, frag2, frag3, frag2]


/-! ### sort keys, initial scalars, `enforce_invariant_non_subset` -/

/-- the cell of a column of the rule table (with auxiliary columns), by column name; outer `none` = unknown column -/
def cellByName (name : Str) (r : PRule) : Option (Option Str) :=
  if name = "mapping_partition".toList then some (some r.label)
  else if name = "subject_invariant".toList then some (some r.sInv)
  else if name = "predicate_invariant".toList then some (some r.pInv)
  else if name = "object_invariant".toList then some (some r.oInv)
  else if name = "graph_invariant".toList then some (some r.gInv)
  else if name = "object_termtype".toList then some (some (termTypeIri r.rule.objectTermtype))
  else if name = "literal_type".toList then some r.litType
  else none

/-- the column names of the model's sort keys -/
def keyNames : Pos → List Str
  | .S => ["subject_invariant".toList]
  | .P => ["predicate_invariant".toList]
  | .O => ["object_termtype".toList, "literal_type".toList, "object_invariant".toList]
  | .G => ["graph_invariant".toList]

theorem keyNames_cells (pos : Pos) (r : PRule) : (keyNames pos).map (cellByName · r) = (pos.keys r).map some := by
  cases pos <;> rfl

theorem label_cell (r : PRule) : cellByName "mapping_partition".toList r = some (some r.label) := rfl

/-- the sort before every PARTIAL-AGGREGATIONS loop is by the keys of the model's pass, in the same order; before every MAXIMAL loop
    by the label built so far followed by those keys -/
theorem sort_keys :
    Gen.Part.partial_S_sortKeys = keyNames .S ∧ Gen.Part.partial_P_sortKeys = keyNames .P ∧
    Gen.Part.partial_O_sortKeys = keyNames .O ∧ Gen.Part.partial_G_sortKeys = keyNames .G ∧
    Gen.Part.maximal_S_sortKeys = "mapping_partition".toList :: keyNames .S ∧
    Gen.Part.maximal_P_sortKeys = "mapping_partition".toList :: keyNames .P ∧
    Gen.Part.maximal_O_sortKeys = "mapping_partition".toList :: keyNames .O ∧
    Gen.Part.maximal_G_sortKeys = "mapping_partition".toList :: keyNames .G := by decide

/-- every scan starts from the model's initial state (`current_global_group` of a MAXIMAL pass starts as the label of the row with
    index 0: `Model.maximalPass`'s `init`) -/
theorem initial_scalars :
    Gen.Part.partial_S_init = (({} : Scan).group, ({} : Scan).inv) ∧
    Gen.Part.partial_P_init = (({} : Scan).group, ({} : Scan).inv) ∧
    Gen.Part.partial_O_init = (({} : Scan).group, ({} : Scan).inv, ({} : Scan).lit) ∧
    Gen.Part.partial_G_init = (({} : Scan).group, ({} : Scan).inv) ∧
    Gen.Part.maximal_S_init = (({} : Scan).group, ({} : Scan).inv) ∧
    Gen.Part.maximal_P_init = (({} : Scan).group, ({} : Scan).inv) ∧
    Gen.Part.maximal_O_init = (({} : Scan).group, ({} : Scan).inv, ({} : Scan).lit) ∧
    Gen.Part.maximal_G_init = (({} : Scan).group, ({} : Scan).inv) := by decide

/-- `enforce_invariant_non_subset` is computed for the predicate and the graph pass only, from the map-type column against RML_CONSTANT
    (`Model.enforceFor`) -/
theorem enforce_shapes :
    Gen.Part.partial_S_enforce = none ∧ Gen.Part.partial_O_enforce = none ∧ Gen.Part.maximal_S_enforce = none ∧ Gen.Part.maximal_O_enforce = none ∧
    Gen.Part.partial_P_enforce = some ("predicate_map_type".toList, mapTypeIri .constant) ∧
    Gen.Part.maximal_P_enforce = some ("predicate_map_type".toList, mapTypeIri .constant) ∧
    Gen.Part.partial_G_enforce = some ("graph_map_type".toList, mapTypeIri .constant) ∧
    Gen.Part.maximal_G_enforce = some ("graph_map_type".toList, mapTypeIri .constant) := by decide


/-! ### the passes as folds of the translated loop bodies -/

/-- the translated step of a PARTIAL-AGGREGATIONS loop, packaged over the model's `Scan` state -/
def genPartialStep (pos : Pos) (enforce : Bool) (st : Scan) (r : PRule) : Str × Scan :=
  match pos with
  | .S => let x := Gen.Part.partial_S st.group st.inv (pyPRuleOf r); (x.2.2, { st with group := x.1, inv := x.2.1 })
  | .P => let x := Gen.Part.partial_P st.group st.inv enforce (pyPRuleOf r); (x.2.2, { st with group := x.1, inv := x.2.1 })
  | .O => let x := Gen.Part.partial_O st.group st.inv st.lit (pyPRuleOf r); (x.2.2.2, { st with group := x.1, inv := x.2.1, lit := x.2.2.1 })
  | .G => let x := Gen.Part.partial_G st.group st.inv enforce (pyPRuleOf r); (x.2.2, { st with group := x.1, inv := x.2.1 })

theorem scan_frame (pos : Pos) (e : Bool) (st : Scan) (r : PRule) : (scanStep pos e st r).2.global = st.global := by
  unfold scanStep
  cases pos <;> simp only [] <;> (repeat' split) <;> rfl

theorem scan_frame_lit (pos : Pos) (hp : pos ≠ .O) (e : Bool) (st : Scan) (r : PRule) : (scanStep pos e st r).2.lit = st.lit := by
  unfold scanStep
  cases pos <;> simp only [] <;> first | exact absurd rfl hp | ((repeat' split) <;> rfl)

theorem Scan.ext' (a b : Scan) (h1 : a.group = b.group) (h2 : a.inv = b.inv) (h3 : a.lit = b.lit) (h4 : a.global = b.global) : a = b := by
  cases a; cases b; simp_all

/-- each translated PARTIAL-AGGREGATIONS loop body, as a function on the model's scan state, IS `Model.scanStep` -/
theorem genPartialStep_eq (pos : Pos) (e : Bool) (he : pos = .S ∨ pos = .O → e = false) (st : Scan) (r : PRule) :
    genPartialStep pos e st r = scanStep pos e st r := by
  cases pos
  · have := he (.inl rfl); subst this
    unfold genPartialStep
    simp only [partial_S_eq st.group st.inv st.lit st.global r]
    refine Prod.ext rfl (Scan.ext' _ _ rfl rfl ?_ ?_)
    · exact (scan_frame_lit .S (by decide) false st r).symm
    · exact (scan_frame .S false st r).symm
  · unfold genPartialStep
    simp only [partial_P_eq st.group st.inv st.lit st.global e r]
    refine Prod.ext rfl (Scan.ext' _ _ rfl rfl ?_ ?_)
    · exact (scan_frame_lit .P (by decide) e st r).symm
    · exact (scan_frame .P e st r).symm
  · have := he (.inr rfl); subst this
    unfold genPartialStep
    simp only [partial_O_eq st.group st.inv st.lit st.global r]
    refine Prod.ext rfl (Scan.ext' _ _ rfl rfl rfl ?_)
    exact (scan_frame .O false st r).symm
  · unfold genPartialStep
    simp only [partial_G_eq st.group st.inv st.lit st.global e r]
    refine Prod.ext rfl (Scan.ext' _ _ rfl rfl ?_ ?_)
    · exact (scan_frame_lit .G (by decide) e st r).symm
    · exact (scan_frame .G e st r).symm

theorem enforceFor_S_O (pos : Pos) (rs : List PRule) : pos = .S ∨ pos = .O → enforceFor pos rs = false := by
  rintro (rfl | rfl) <;> rfl

/-- **`Model.partialPass` is the fold of the translated loop body over the sorted rule table** — what
    `sort_values(by=<keys>)` followed by the `iterrows` loop computes, given that pandas sorts by the keys (`sort_keys`) -/
theorem partialPass_is_translated_loop (pos : Pos) (rs : List PRule) :
    partialPass pos rs =
      ((sortBy (fun a b => ltKeys (pos.keys a) (pos.keys b)) rs).foldl (fun (acc : List (Nat × Str) × Scan) r =>
        let cs := genPartialStep pos (enforceFor pos rs) acc.2 r
        ((r.idx, cs.1) :: acc.1, cs.2)) ([], {})).1 := by
  unfold partialPass
  simp only [genPartialStep_eq pos (enforceFor pos rs) (fun h => enforceFor_S_O pos rs h)]


/-- the translated step of a MAXIMAL loop over the model's `Scan` state: new label of the row and new state -/
def genMaximalStep (pos : Pos) (enforce : Bool) (st : Scan) (r : PRule) : Str × Scan :=
  match pos with
  | .S => let x := Gen.Part.maximal_S st.global st.group st.inv (pyPRuleOf r)
          (x.2.2.2, { st with global := x.1, group := x.2.1, inv := x.2.2.1 })
  | .P => let x := Gen.Part.maximal_P st.global st.group st.inv enforce (pyPRuleOf r)
          (x.2.2.2, { st with global := x.1, group := x.2.1, inv := x.2.2.1 })
  | .O => let x := Gen.Part.maximal_O st.global st.group st.inv st.lit (pyPRuleOf r)
          (x.2.2.2.2, { st with global := x.1, group := x.2.1, inv := x.2.2.1, lit := x.2.2.2.1 })
  | .G => let x := Gen.Part.maximal_G st.global st.group st.inv enforce (pyPRuleOf r)
          (x.2.2.2, { st with global := x.1, group := x.2.1, inv := x.2.2.1 })

theorem resetAt_lit (st : Scan) (l : Str) : (resetAt st l).lit = st.lit := by
  unfold resetAt; split <;> rfl

/-- each translated MAXIMAL loop body IS the model's reset followed by `scanStep`, the new label being the old one, a dash and the
    group component -/
theorem genMaximalStep_eq (pos : Pos) (e : Bool) (he : pos = .S ∨ pos = .O → e = false) (st : Scan) (r : PRule) :
    genMaximalStep pos e st r =
      (r.label ++ ['-'] ++ (scanStep pos e (resetAt st r.label) r).1, (scanStep pos e (resetAt st r.label) r).2) := by
  cases pos
  · have := he (.inl rfl); subst this
    unfold genMaximalStep
    simp only [maximal_S_eq st.group st.inv st.lit st.global r]
    refine Prod.ext rfl (Scan.ext' _ _ rfl rfl ?_ rfl)
    exact ((scan_frame_lit .S (by decide) false _ r).trans (resetAt_lit st r.label)).symm
  · unfold genMaximalStep
    simp only [maximal_P_eq st.group st.inv st.lit st.global e r]
    refine Prod.ext rfl (Scan.ext' _ _ rfl rfl ?_ rfl)
    exact ((scan_frame_lit .P (by decide) e _ r).trans (resetAt_lit st r.label)).symm
  · have := he (.inr rfl); subst this
    unfold genMaximalStep
    simp only [maximal_O_eq st.group st.inv st.lit st.global r]
  · unfold genMaximalStep
    simp only [maximal_G_eq st.group st.inv st.lit st.global e r]
    refine Prod.ext rfl (Scan.ext' _ _ rfl rfl ?_ rfl)
    exact ((scan_frame_lit .G (by decide) e _ r).trans (resetAt_lit st r.label)).symm

/-- **`Model.maximalPass` is the fold of the translated loop body over the rule table sorted by (label so far, keys)**, started with
    the label of the row with index 0 as `current_global_group` -/
theorem maximalPass_is_translated_loop (pos : Pos) (rs : List PRule) :
    maximalPass pos rs =
      ((sortBy (fun a b => ltKeys (some a.label :: pos.keys a) (some b.label :: pos.keys b)) rs).foldl
        (fun (acc : List PRule × Scan) r =>
          let cs := genMaximalStep pos (enforceFor pos rs) acc.2 r
          ({ r with label := cs.1 } :: acc.1, cs.2))
        ([], { global := match rs.find? (fun r => r.idx = 0) with | some r => r.label | none => [] })).1.reverse := by
  rw [maximalPass_eq]
  simp only [genMaximalStep_eq pos (enforceFor pos rs) (fun h => enforceFor_S_O pos rs h)]
  try rfl

end Props.PartFuncs
