/-
C01 — Output equals the R2RML/RML generation rules for every mapping and table.

`Model.evalAll env (Model.normalizeDoc doc)` is the engine (rule normalisation + materializer, transcribed from the
Python and validated against it by the correspondence checks I6/I7); `Spec.evalDoc` is the independent statement
of the generation rules.  The theorems below relate the two for every document of the stated fragment and every table.
-/
import MorphKgc.Model.Normalize
import MorphKgc.Lemmas.Str
import MorphKgc.Lemmas.Escape
import MorphKgc.Gen.Escape

namespace Props.C01
open Py Model Spec

/-! ### counter-witnesses on the unchanged code (see known_findings.json) -/

/-- C01_F1: the split/join loop searches the *unescaped* template for the first textual `{k}`; an escaped literal
    `\{k\}` in front of the real reference is taken for it: template `http://ex/\{k\}/{k}`, `k = x` -/
theorem C01_F1_escaped_literal_taken_for_reference :
    materializeTemplate {} .template "http://ex/\\{k\\}/{k}".toList (some .iri) [] [] (fun _ => some ['x'])
      = .ok "<http://ex/x/{k}>".toList := by decide +kernel

/-- what the generation rules prescribe for the same template and row -/
theorem C01_F1_spec :
    genTerm [] [] { kind := .template, tpl := ⟨"http://ex/{k}/".toList, [(['k'], [])]⟩, termType := .iri }
      [(['k'], .str ['x'])] = some "<http://ex/{k}/x>".toList := by decide +kernel

/-- C01_F3: a constant goes through the template machinery: `\{` in a constant is unescaped -/
theorem C01_F3_constant_unescaped :
    materializeTemplate {} .constant "a\\{b".toList (some .literal) [] [] (fun _ => none) = .ok "\"a{b\"".toList := by
  decide +kernel

/-- … and a brace pair in a constant is taken for a column reference (KeyError) -/
theorem C01_F3_constant_reference :
    materializeTemplate {} .constant "a{b}".toList (some .literal) [] [] (fun _ => none) = .error (.keyError ['b']) := by
  decide +kernel

/-- C01_F4: a rule whose four term maps are constants yields its statement even over an empty logical source -/
theorem C01_F4_all_constant_rule_ignores_rows :
    evalRule {} [] { subjectMapType := .constant, subjectMapValue := ['s'], predicateMapValue := ['p'], objectMapValue := ['o'],
                     graphMapValue := "http://w3id.org/rml/defaultGraph".toList } = .ok ["<s> <p> <o>".toList] := by
  decide +kernel

end Props.C01
