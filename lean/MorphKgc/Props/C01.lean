/-
C01 — Output equals the R2RML/RML generation rules for every mapping and table.

`Model.evalAll env (Model.normalizeDoc doc)` is the engine (rule normalisation + materializer, transcribed from the
Python and validated against it by the correspondence checks I6/I7); `Spec.evalDoc` is the independent statement
of the generation rules.  The theorems below relate the two for every document of the stated fragment and every table.
-/
import MorphKgc.Model.Normalize
import MorphKgc.Lemmas.Str
import MorphKgc.Lemmas.Escape
import MorphKgc.Lemmas.Template
import MorphKgc.Lemmas.EvalRule
import MorphKgc.Gen.Escape

namespace Props.C01
open Py Model Spec

/-! ### counter-witnesses on the unchanged code (see known_findings.json) -/

/-- C01_F1: the split/join loop searches the *unescaped* template for the first textual `{k}`; an escaped literal
    `\{k\}` in front of the real reference is taken for it: template `http://ex/\{k\}/{k}`, `k = x` -/
theorem C01_F1_escaped_literal_taken_for_reference :
    materializeTemplate {} .template "http://ex/\\{k\\}/{k}".toList (some .iri) [] [] (fun _ => some ['x'])
      = .ok "<http://ex/x/{k}>".toList := by decide +kernel

/-- what the generation rules prescribe for the same template and row -/
theorem C01_F1_spec :
    genTerm [] [] { kind := .template, tpl := ⟨"http://ex/{k}/".toList, [(['k'], [])]⟩, termType := .iri }
      [(['k'], .str ['x'])] = some "<http://ex/{k}/x>".toList := by decide +kernel

/-- C01_F3: a constant goes through the template machinery: `\{` in a constant is unescaped -/
theorem C01_F3_constant_unescaped :
    materializeTemplate {} .constant "a\\{b".toList (some .literal) [] [] (fun _ => none) = .ok "\"a{b\"".toList := by
  decide +kernel

/-- … and a brace pair in a constant is taken for a column reference (KeyError) -/
theorem C01_F3_constant_reference :
    materializeTemplate {} .constant "a{b}".toList (some .literal) [] [] (fun _ => none) = .error (.keyError ['b']) := by
  decide +kernel

/-- C01_F4: a rule whose four term maps are constants yields its statement even over an empty logical source -/
theorem C01_F4_all_constant_rule_ignores_rows :
    evalRule {} [] { subjectMapType := .constant, subjectMapValue := ['s'], predicateMapValue := ['p'], objectMapValue := ['o'],
                     graphMapValue := "http://w3id.org/rml/defaultGraph".toList } = .ok ["<s> <p> <o>".toList] := by
  decide +kernel

/-! ### the refinement theorems (core fragment; hypotheses = the complements of the findings' scopes) -/

/-- **Term maps (G1).** On an escape-free template (`WFTpl`: no backslash, brace or U+200B in literal text and
    column names — the complement of the scope of C01_F1) the split/join loop computes the substitution. -/
theorem C01_template_subst (cfg : TermCfg) (t : Spec.Tpl) (h : WFTpl t = true) (tt : Option TermType) (dt : Str)
    (row : Str → Option Str) (vals : List Str) (hv : t.parts.map (fun p => row p.1) = vals.map some) :
    materializeTemplate cfg .template t.render tt dt [] row
      = .ok (wrapTerm tt (t.pre ++ (t.parts.zip vals).flatMap fun pv => transformValue cfg true tt dt pv.2 ++ pv.1.2)) :=
  materializeTemplate_eq_subst cfg t h tt dt row vals hv

/-- non-vacuity -/
example : WFTpl ⟨"http://ex/".toList, [("id".toList, "/".toList), ("n".toList, [])]⟩ = true := by decide +kernel

/-- the escape chain translated from the source is the specification's ECHAR escaping, for every string -/
theorem C01_escape_chain (v : Str) : applyChain Gen.escapeChainTemplate v = escapeLit v := escapeChain_eq_escapeLit v

/-- **One rule (G3).** For every rule built from a subject map, predicate map, term-valued object map and graph map of
    the fragment (`RuleOK`), every table that has the referenced columns (`Complete`) and no raw null objects
    (`NoRawNulls`, complement of C06_F1), the engine does not raise and emits exactly the statements that the generation
    rules prescribe for that combination: none missing, no other.  `hF4` is the complement of the scope of C01_F4. -/
theorem C01_rule_refinement {env : Env} {senv : SEnv} (henv : EnvOK env senv) (doc : Doc) (rules : List Rule)
    (tm : TriplesMap) (pm om gm : TermMap) (hr : RuleOK senv.defaultGraph tm pm om gm)
    (hcomp : Complete (refsOfRule (ruleOf tm pm om (mapOf gm))) (senv.table tm) = true)
    (hnn : NoRawNulls (senv.table tm) = true)
    (hF4 : isAllConstant (ruleOf tm pm om (mapOf gm)) = true → senv.table tm ≠ []) :
    ∃ lines, evalRule env rules (ruleOf tm pm om (mapOf gm)) = .ok lines ∧
      ∀ line, line ∈ lines ↔ ∃ ρ ∈ senv.table tm, line ∈ stmtsFor senv doc tm ρ [gm] pm (.term om) :=
  rule_refinement henv doc rules tm pm om gm hr hcomp hnn hF4

/-! #### documents -/

/-- syntax of the fragment: every term map is escape-free (`SubjOK`/`PredOK`/`ObjOK`/`GraphOK`), no referencing object map -/
def FragmentOK (senv : SEnv) (doc : Doc) : Bool :=
  doc.tms.all fun tm =>
    SubjOK tm.subject && tm.classes.all PlainStr && tm.graphs.all (GraphOK senv.defaultGraph) &&
    tm.poms.all fun pom =>
      pom.predicates.all PredOK &&
      pom.objects.all (fun o => match o with | .term om => ObjOK om | .ref _ _ => false) &&
      pom.graphs.all (GraphOK senv.defaultGraph)

/-- reader guarantees: every table has the columns its rules reference and delivers no raw null objects -/
def TablesOK (senv : SEnv) (doc : Doc) : Bool :=
  doc.tms.all fun tm =>
    NoRawNulls (senv.table tm) && (rulesOfTm doc tm).all fun r => Complete (refsOfRule r) (senv.table tm)

/-- complement of the scope of C01_F4: no all-constant rule over an empty logical source -/
def NoF4 (senv : SEnv) (doc : Doc) : Bool :=
  doc.tms.all fun tm => (rulesOfTm doc tm).all fun r => !isAllConstant r || !(senv.table tm).isEmpty

theorem FragmentOK_noRef {senv : SEnv} {doc : Doc} (h : FragmentOK senv doc = true) : NoRefObj doc = true := by
  simp only [FragmentOK, List.all_eq_true, Bool.and_eq_true] at h
  simp only [NoRefObj, List.all_eq_true]
  intro tm htm pom hpom o ho
  have := (h tm htm).2 pom hpom |>.1.2 o ho
  cases o <;> simp_all

theorem plain_names : PlainStr rdfTypeIri = true ∧ PlainStr defaultGraphIri = true := by decide +kernel

theorem FragmentOK_ruleOK {senv : SEnv} {doc : Doc} (hn : NamesOK senv) (h : FragmentOK senv doc = true)
    {tm : TriplesMap} (htm : tm ∈ doc.tms) {pm om gm : TermMap} (hc : Combo senv tm pm om gm) :
    RuleOK senv.defaultGraph tm pm om gm := by
  simp only [FragmentOK, List.all_eq_true, Bool.and_eq_true] at h
  obtain ⟨⟨⟨hs, hcl⟩, hgs⟩, hpoms⟩ := h tm htm
  have hdef : GraphOK senv.defaultGraph (defaultGm senv) = true := by
    simp [GraphOK, defaultGm, WFTermMap, hn.dg, plain_names.2]
  have heff : ∀ gs : List TermMap, (∀ g ∈ gs, GraphOK senv.defaultGraph g = true) →
      ∀ g ∈ effGraphs senv gs, GraphOK senv.defaultGraph g = true := by
    intro gs hgs g hg
    unfold effGraphs at hg
    split at hg
    · simp only [List.mem_singleton] at hg; subst hg; exact hdef
    · exact hgs g hg
  rcases hc with ⟨c, hc, rfl, rfl, hgm⟩ | ⟨pom, hpom, hp, ho, hgm⟩
  · refine ⟨hs, ?_, ?_, heff _ hgs gm hgm⟩
    · simp [PredOK, classPred, WFTermMap, hn.ty, plain_names.1]
    · simp [ObjOK, classObjTm, WFTermMap, hcl c hc]
  · obtain ⟨⟨hps, hos⟩, hpg⟩ := hpoms pom hpom
    refine ⟨hs, hps pm hp, ?_, heff _ ?_ gm hgm⟩
    · simpa using hos _ ho
    · intro g hg
      rcases List.mem_append.mp hg with hg | hg
      · exact hgs g hg
      · exact hpg g hg

theorem objectMapType_rulesOfTm {doc : Doc} (hnr : NoRefObj doc = true) {tm : TriplesMap} (htm : tm ∈ doc.tms)
    {r : Rule} (hr : r ∈ rulesOfTm doc tm) : r.objectMapType ≠ .parentTM := by
  rw [rulesOfTm_eq] at hr
  split at hr
  · simp only [List.mem_singleton] at hr
    subst hr
    simp [baseRule_eq]
  · simp only [List.mem_append, List.mem_flatMap, List.mem_map] at hr
    rcases hr with ⟨c, _, g, _, rfl⟩ | ⟨pom, hpom, p, _, o, ho, g, _, rfl⟩
    · exact mapOf_ne_parentTM _
    · obtain ⟨om, rfl⟩ := NoRefObj_term hnr htm hpom ho
      exact mapOf_ne_parentTM _

/-- without referencing object maps, self-join elimination is the identity -/
theorem mem_normalizeDoc {doc : Doc} (hnr : NoRefObj doc = true) (r : Rule) :
    r ∈ normalizeDoc doc ↔ ∃ tm ∈ doc.tms, r ∈ rulesOfTm doc tm := by
  unfold normalizeDoc
  simp only
  have hid : ∀ r ∈ dedupFirst (doc.tms.flatMap (rulesOfTm doc)),
      eliminateSelfJoin (dedupFirst (doc.tms.flatMap (rulesOfTm doc))) r = r := by
    intro r hr
    rw [mem_dedupFirst, List.mem_flatMap] at hr
    obtain ⟨tm, htm, hr⟩ := hr
    have := objectMapType_rulesOfTm hnr htm hr
    simp [eliminateSelfJoin, this]
  rw [List.map_congr_left hid, List.map_id', mem_dedupFirst, List.mem_flatMap]

/-- `materialize_set`: the union over the asserted rules -/
theorem evalAll_spec (env : Env) (rules : List Rule)
    (h : ∀ r ∈ rules, r.asserted = true → ∃ lines, evalRule env rules r = .ok lines) :
    ∃ out, evalAll env rules = .ok out ∧
      ∀ line, line ∈ out ↔ ∃ r ∈ rules, r.asserted = true ∧ ∃ lines, evalRule env rules r = .ok lines ∧ line ∈ lines := by
  obtain ⟨parts, hparts⟩ := mapM_ok_of_forall_exists (evalRule env rules) (rules.filter (·.asserted))
    (fun r hr => by
      simp only [List.mem_filter] at hr
      exact h r hr.1 hr.2)
  refine ⟨dedupFirst parts.flatten, ?_, fun line => ?_⟩
  · unfold evalAll
    rw [hparts]
    rfl
  · rw [mem_dedupFirst, List.mem_flatten]
    constructor
    · rintro ⟨l, hl, hline⟩
      obtain ⟨r, hr, hrl⟩ := (mem_of_mapM_ok _ _ _ hparts l).mp hl
      simp only [List.mem_filter] at hr
      exact ⟨r, hr.1, hr.2, l, hrl, hline⟩
    · rintro ⟨r, hr, ha, l, hrl, hline⟩
      exact ⟨l, (mem_of_mapM_ok _ _ _ hparts l).mpr ⟨r, by simp [List.mem_filter, hr, ha], hrl⟩, hline⟩

/-- **C01 (partial).** For every document of the core fragment and all tables satisfying the reader guarantees, the engine
    (rule normalisation + materializer) does not raise and its output has exactly the statements of the generation rules. -/
theorem C01_refinement_partial {env : Env} {senv : SEnv} (henv : EnvOK env senv) (hn : NamesOK senv) (doc : Doc)
    (hfrag : FragmentOK senv doc = true) (htab : TablesOK senv doc = true) (hF4 : NoF4 senv doc = true) :
    ∃ out, evalAll env (normalizeDoc doc) = .ok out ∧ ∀ line, line ∈ out ↔ line ∈ evalDoc senv doc := by
  have hnr := FragmentOK_noRef hfrag
  simp only [TablesOK, List.all_eq_true, Bool.and_eq_true] at htab
  simp only [NoF4, List.all_eq_true, Bool.or_eq_true, Bool.not_eq_true', List.isEmpty_eq_false_iff] at hF4
  -- every combination's rule is refined
  have hrule : ∀ tm ∈ doc.tms, ∀ pm om gm, Combo senv tm pm om gm →
      ∃ lines, evalRule env (normalizeDoc doc) (ruleOf tm pm om (mapOf gm)) = .ok lines ∧
        ∀ line, line ∈ lines ↔ ∃ ρ ∈ senv.table tm, line ∈ stmtsFor senv doc tm ρ [gm] pm (.term om) := by
    intro tm htm pm om gm hc
    have hmem := ((mem_rulesOfTm hn doc hnr tm htm _).mpr ⟨pm, om, gm, hc, rfl⟩).1
    apply rule_refinement henv doc _ tm pm om gm (FragmentOK_ruleOK hn hfrag htm hc) ((htab tm htm).2 _ hmem) (htab tm htm).1
    intro hac
    rcases hF4 tm htm _ hmem with h | h
    · rw [hac] at h; cases h
    · exact h
  have hall : ∀ r ∈ normalizeDoc doc, r.asserted = true → ∃ lines, evalRule env (normalizeDoc doc) r = .ok lines := by
    intro r hr ha
    obtain ⟨tm, htm, hr⟩ := (mem_normalizeDoc hnr r).mp hr
    obtain ⟨pm, om, gm, hc, rfl⟩ := (mem_rulesOfTm hn doc hnr tm htm r).mp ⟨hr, ha⟩
    obtain ⟨lines, hl, _⟩ := hrule tm htm pm om gm hc
    exact ⟨lines, hl⟩
  obtain ⟨out, hout, hmem⟩ := evalAll_spec env (normalizeDoc doc) hall
  refine ⟨out, hout, fun line => ?_⟩
  rw [hmem, mem_evalDoc senv doc hnr]
  constructor
  · rintro ⟨r, hr, ha, lines, hl, hline⟩
    obtain ⟨tm, htm, hr⟩ := (mem_normalizeDoc hnr r).mp hr
    obtain ⟨pm, om, gm, hc, rfl⟩ := (mem_rulesOfTm hn doc hnr tm htm r).mp ⟨hr, ha⟩
    obtain ⟨lines', hl', hiff⟩ := hrule tm htm pm om gm hc
    rw [hl] at hl'
    cases hl'
    exact ⟨tm, htm, pm, om, gm, hc, (hiff line).mp hline⟩
  · rintro ⟨tm, htm, pm, om, gm, hc, hρ⟩
    obtain ⟨lines, hl, hiff⟩ := hrule tm htm pm om gm hc
    have hmemr := (mem_rulesOfTm hn doc hnr tm htm _).mpr ⟨pm, om, gm, hc, rfl⟩
    exact ⟨_, (mem_normalizeDoc hnr _).mpr ⟨tm, htm, hmemr.1⟩, hmemr.2, lines, hl, (hiff line).mpr hρ⟩

/-- the engine does not raise -/
theorem C01_no_raise {env : Env} {senv : SEnv} (henv : EnvOK env senv) (hn : NamesOK senv) (doc : Doc)
    (hfrag : FragmentOK senv doc = true) (htab : TablesOK senv doc = true) (hF4 : NoF4 senv doc = true) :
    ∃ out, evalAll env (normalizeDoc doc) = .ok out :=
  let ⟨out, h, _⟩ := C01_refinement_partial henv hn doc hfrag htab hF4
  ⟨out, h⟩

/-- no statement appears that the generation rules do not prescribe -/
theorem C01_no_extra {env : Env} {senv : SEnv} (henv : EnvOK env senv) (hn : NamesOK senv) (doc : Doc)
    (hfrag : FragmentOK senv doc = true) (htab : TablesOK senv doc = true) (hF4 : NoF4 senv doc = true) (line : Str)
    (h : line ∈ (evalAll env (normalizeDoc doc)).toOption.getD []) : line ∈ evalDoc senv doc := by
  obtain ⟨out, hout, hiff⟩ := C01_refinement_partial henv hn doc hfrag htab hF4
  rw [hout] at h
  exact (hiff line).mp h

/-- no statement that the generation rules prescribe is missing -/
theorem C01_no_missing {env : Env} {senv : SEnv} (henv : EnvOK env senv) (hn : NamesOK senv) (doc : Doc)
    (hfrag : FragmentOK senv doc = true) (htab : TablesOK senv doc = true) (hF4 : NoF4 senv doc = true) (line : Str)
    (h : line ∈ evalDoc senv doc) : line ∈ (evalAll env (normalizeDoc doc)).toOption.getD [] := by
  obtain ⟨out, hout, hiff⟩ := C01_refinement_partial henv hn doc hfrag htab hF4
  rw [hout]
  exact (hiff line).mpr h

/-! #### non-vacuity: a concrete document, table and environment satisfying every hypothesis -/

namespace Ex

def table : Table :=
  [ [("id".toList, .str "1".toList), ("name".toList, .str "Ann \"A\"".toList)],
    [("id".toList, .str "2".toList), ("name".toList, .str [])] ]   -- the empty string is an NA token

def tablesE : List ((Str × Str) × Table) := [(("src".toList, "t.csv".toList), table)]

def senv : SEnv := { fmt := .nquads, tables := tablesE }

def env : Env :=
  { cfg := { escapeChain := Gen.escapeChainTemplate }, fmt := .nquads, tables := tablesE }

def subj : TermMap := { kind := .template, tpl := ⟨"http://ex/".toList, [("id".toList, [])]⟩, termType := .iri }
def pName : TermMap := { kind := .constant, value := "http://ex/name".toList }
def oName : TermMap := { kind := .reference, value := "name".toList, termType := .literal, lang := some "en".toList }
def gTpl : TermMap := { kind := .template, tpl := ⟨"http://ex/g/".toList, [("id".toList, [])]⟩ }
def pLabel : TermMap := { kind := .constant, value := "http://ex/label".toList }
def oLabel : TermMap :=
  { kind := .template, tpl := ⟨[], [("name".toList, " (".toList), ("id".toList, ")".toList)]⟩, termType := .literal,
    datatype := some "http://ex/dt".toList }

def tm : TriplesMap :=
  { id := "#TM1".toList, sourceName := "src".toList, lsv := "t.csv".toList, subject := subj,
    classes := ["http://ex/C".toList], graphs := [],
    poms := [⟨[pName], [.term oName], [gTpl]⟩, ⟨[pLabel], [.term oLabel], []⟩] }

def doc : Doc := ⟨[tm]⟩

theorem envOK : EnvOK env senv := ⟨⟨rfl, rfl, fun _ _ => rfl, rfl⟩, rfl, rfl, rfl, rfl⟩
theorem namesOK : NamesOK senv := ⟨rfl, rfl⟩
theorem fragmentOK : FragmentOK senv doc = true := by decide +kernel
theorem tablesOK : TablesOK senv doc = true := by decide +kernel
theorem noF4 : NoF4 senv doc = true := by decide +kernel

/-- the hypotheses of the single-rule theorem hold for the first predicate-object map and its graph map -/
example : RuleOK senv.defaultGraph tm pName oName gTpl :=
  ⟨by decide +kernel, by decide +kernel, by decide +kernel, by decide +kernel⟩
example : Complete (refsOfRule (ruleOf tm pName oName (mapOf gTpl))) (senv.table tm) = true := by decide +kernel
example : NoRawNulls (senv.table tm) = true := by decide +kernel
example : isAllConstant (ruleOf tm pName oName (mapOf gTpl)) = false := by decide +kernel

/-- what the engine and the rules produce here (the second row has a null `name`) -/
example : evalAll env (normalizeDoc doc) = .ok
    [ "<http://ex/1> <http://www.w3.org/1999/02/22-rdf-syntax-ns#type> <http://ex/C> ".toList,
      "<http://ex/2> <http://www.w3.org/1999/02/22-rdf-syntax-ns#type> <http://ex/C> ".toList,
      "<http://ex/1> <http://ex/name> \"Ann \\\"A\\\"\"@en <http://ex/g/1>".toList,
      "<http://ex/1> <http://ex/label> \"Ann \\\"A\\\" (1)\"^^<http://ex/dt> ".toList ] := by decide +kernel

example : ∃ out, evalAll env (normalizeDoc doc) = .ok out ∧ ∀ line, line ∈ out ↔ line ∈ evalDoc senv doc :=
  C01_refinement_partial envOK namesOK doc fragmentOK tablesOK noF4

end Ex

/-! #### what the remaining hypotheses exclude (counter-witnesses on the unchanged model) -/

namespace Cw
def row1 : Table := [[("id".toList, .str "1".toList)]]
def senv : SEnv := { fmt := .nquads, tables := [(([], []), row1)] }
def env : Env := { cfg := { escapeChain := Gen.escapeChainTemplate }, fmt := .nquads, tables := [(([], []), row1)] }
def tm : TriplesMap :=
  { id := [], sourceName := [], lsv := [], classes := [], graphs := [], poms := [],
    subject := { kind := .template, tpl := ⟨"http://ex/".toList, [("id".toList, [])]⟩ } }
def p : TermMap := { kind := .constant, value := "http://ex/p".toList }
def o : TermMap := { kind := .constant, value := "http://ex/o".toList }

/-- third conjunct of `GraphOK`: `rowTriple` recognises the default graph by the *value* of the graph map alone, so a
    template-valued (or column-valued) graph map spelled `http://w3id.org/rml/defaultGraph` places the statement in the
    default graph; the generation rules name the graph `<http://w3id.org/rml/defaultGraph>` -/
def gLikeDefault : TermMap := { kind := .template, tpl := ⟨"http://w3id.org/rml/defaultGraph".toList, []⟩ }

theorem graph_spelled_default_engine :
    evalRule env [] (ruleOf tm p o (mapOf gLikeDefault)) = .ok ["<http://ex/1> <http://ex/p> <http://ex/o> ".toList] := by
  decide +kernel

theorem graph_spelled_default_spec :
    stmtsFor senv ⟨[]⟩ tm [("id".toList, .str "1".toList)] [gLikeDefault] p (.term o)
      = ["<http://ex/1> <http://ex/p> <http://ex/o> <http://w3id.org/rml/defaultGraph>".toList] := by
  decide +kernel

/-- `ObjOK`: a language tag on a non-literal object map (not a valid R2RML mapping, but not rejected) is appended to the IRI -/
theorem language_on_iri_engine :
    evalRule env [] (ruleOf tm p { o with lang := some "en".toList } (.constant, defaultGraphIri))
      = .ok ["<http://ex/1> <http://ex/p> <http://ex/o>@en ".toList] := by
  decide +kernel

/-- `WFTermMap` for literals (`NoEsc`): constant text of literal term maps is not escaped (this is C05_F5) -/
theorem constant_literal_not_escaped_engine :
    evalRule env [] (ruleOf tm p { kind := .constant, value := "a\"b".toList, termType := .literal } (.constant, defaultGraphIri))
      = .ok ["<http://ex/1> <http://ex/p> \"a\"b\" ".toList] := by
  decide +kernel

theorem constant_literal_spec :
    genTerm [] [] { kind := .constant, value := "a\"b".toList, termType := .literal } [] = some "\"a\\\"b\"".toList := by
  decide +kernel

end Cw

end Props.C01
