/-
C13 on the tree as it is now (after the `fix:` commit 73adf20: an all-constant quoted triples map keeps the frame it is handed /
reads its rows when it is reached through a join).  C13_F2 / C13_F3 (`_merge_data` called twice on one frame) remain open.
-/
import MorphKgc.Props.C13

namespace Props.C13
open Py Model Spec Model.Star Spec.Star

theorem C13_current_all_const : Gen.Star.allConstKeepsFrame = true := by decide

/-- C13_F1 repaired: on the witness of the finding the engine now returns what the RML-star rules prescribe -/
theorem C13_F1_current :
    evalRuleStar Ex.env ([Ex.constA, Ex.quotesConst].map toRule) (toRule Ex.quotesConst) =
      .ok ((Ex.senv.tableF Ex.quotesConst).flatMap (flatLines Ex.senv [Ex.constA, Ex.quotesConst] 2 Ex.quotesConst)) :=
  C13_F1_fixed C13_current_all_const

end Props.C13
