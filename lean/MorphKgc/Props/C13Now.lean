/-
C13 on the tree as it is now (after the `fix:` commit 73adf20: an all-constant quoted triples map keeps the frame it is handed /
reads its rows when it is reached through a join).  C13_F2 / C13_F3 (`_merge_data` called twice on one frame) remain open.
-/
import MorphKgc.Props.C13

namespace Props.C13
open Py Model Spec Model.Star Spec.Star

theorem C13_current_all_const : Gen.Star.allConstKeepsFrame = true := by decide

/-- C13_F1 repaired: on the witness of the finding the engine now returns what the RML-star rules prescribe -/
theorem C13_F1_current :
    evalRuleStar Ex.env ([Ex.constA, Ex.quotesConst].map toRule) (toRule Ex.quotesConst) =
      .ok ((Ex.senv.tableF Ex.quotesConst).flatMap (flatLines Ex.senv [Ex.constA, Ex.quotesConst] 2 Ex.quotesConst)) :=
  C13_F1_fixed C13_current_all_const

/-! ### C13_F4: a quoting rule that reads no reference at all

After 73adf20 the frame handed to an all-constant quoted rule is kept; a quoting rule whose own term maps are constants and whose
quoted triples maps are all constant-valued has NO reference, `_get_data` is asked for no column and returns a `(0, 0)` frame, and
the rule yields nothing although its logical source has rows.  The follow-up repair gives such a rule the one-row placeholder frame
(`Gen.Star.noRefPlaceholder`). -/

namespace Ex

/-- quotes the all-constant rule `constA` in subject AND object position, constant predicate: no reference anywhere -/
def quotesConstBoth : FlatRule :=
  { id := "#TM1".toList, sourceName := "DS".toList, lsv := "t0.csv".toList,
    subject := .quoted "#TM0".toList [], pred := iri "http://ex.org/q", object := .quoted "#TM0".toList [], graph := dflt }

def lineBoth : Str :=
  "<< <http://ex.org/s> <http://ex.org/p> <http://ex.org/o> >> <http://ex.org/q> << <http://ex.org/s> <http://ex.org/p> <http://ex.org/o> >> ".toList

end Ex

/-- C13_F4 (the shape before the follow-up repair): no statement at all -/
theorem C13_F4_no_reference_no_rows : Gen.Star.noRefPlaceholder = false →
    evalRuleStar Ex.env ([Ex.constA, Ex.quotesConstBoth].map toRule) (toRule Ex.quotesConstBoth) = .ok [] := by
  decide +kernel

/-- … with the repaired shape: the statement the rules prescribe -/
theorem C13_F4_fixed : Gen.Star.noRefPlaceholder = true →
    evalRuleStar Ex.env ([Ex.constA, Ex.quotesConstBoth].map toRule) (toRule Ex.quotesConstBoth) = .ok [Ex.lineBoth] := by
  decide +kernel

/-- what the generation rules prescribe: the statement once per row of the (non-empty) logical source, i.e. as a set `{lineBoth}` -/
theorem C13_F4_spec :
    dedupFirst ((Ex.senv.tableF Ex.quotesConstBoth).flatMap (flatLines Ex.senv [Ex.constA, Ex.quotesConstBoth] 2 Ex.quotesConstBoth))
      = [Ex.lineBoth] := by
  decide +kernel

theorem C13_current_no_ref_placeholder : Gen.Star.noRefPlaceholder = true := by decide

theorem C13_F4_current :
    evalRuleStar Ex.env ([Ex.constA, Ex.quotesConstBoth].map toRule) (toRule Ex.quotesConstBoth) = .ok [Ex.lineBoth] :=
  C13_F4_fixed C13_current_no_ref_placeholder

end Props.C13
