/-
C09 — The surface syntax of a mapping never changes its meaning.

`Model.normalizeSurface : SDoc → List Rule` is the rule table `mapping_parser` builds from a mapping document *as written*
(`Model/Surface.lean`): the vocabulary rewrites, then the structural normalisation steps in the order GENERATED from
`_parse_data_source_mapping_files` (`Gen.normalisationOrder`), then the cartesian product of `RML_PARSING_QUERY`, then
`_preprocess_mappings`.  The theorems say that each respelling the property lists leaves the rule table unchanged —

  * vocabulary (R2RML / legacy RML / RML):                    `C09_vocab`          (the same list)
  * constant shortcuts vs expanded term maps:                 `C09_shortcut`       (the same list)
  * `rr:class` vs explicit rdf:type predicate-object map:     `C09_class`          (the same list)
  * graph maps on the subject map vs on every POM:            `C09_subjGraph`      (the same list)
  * multi-valued vs split predicate-object maps:              `C09_pomFactor_partial` (the same list; outside finding `C09_F3`:
                                                              `C09_F3_referencing_object_map_dropped` is the counter-witness)
  * order of triples maps / predicate-object maps:            `C09_perm_tms`, `C09_perm_poms`   (a permutation)

— and that rule tables that are equal as sets evaluate to the same set of statements (`C09_eval_resp`), so that every spelling
yields the same `materialize_set` result (`C09_spelling_invariance`).

Everything that comes from a table or a call order in the Python source is used through the generated definitions, under decidable
side conditions proved in `Lemmas/VocabTables.lean` by `decide`:
  `r2rmlStepOK`, `legacyStepOK`  — the dicts of `_r2rml_to_rml` / `_rml_legacy_to_rml` rewrite every term of the R2RML / legacy
                                    vocabularies of `Spec/Vocab.lean` (written from the specifications) to its RML term and leave the
                                    RML terms alone  (`C09_vocab_total`, `C09_vocab_fixpoint`);
  `shortcutTableOK`              — `constant_shortcuts_dict` has the four term-map shortcuts and language / datatype;
  `OrderOK Gen.normalisationOrder` — the order of the steps is a linear extension of the precedence the steps need
                                    (`Lemmas/Surface.lean`: vocabulary < class → POM < shortcut expansion < graph propagation < default
                                    graph; shortcut expansion < term types; class → POM < triples-map typing).  All 30 such orders give the
                                    same result (`C09_order_irrelevant`); the precedences are necessary (`C09_order_*_matters`).

YARRRML: `Model/Yarrrml.lean` models `_template_to_rml` and `_add_template`; see the second half of this file.

Outside the theorems (covered by the correspondence and the direct oracle of tools/props/C09.py, named in the claim): rdflib's parsers
and SPARQL engine (serialisation, triple order, prefixes, base, blank-node labels), the rest of `yarrrml.py`.
-/
import MorphKgc.Lemmas.SurfaceEval
import MorphKgc.Lemmas.VocabTables
import MorphKgc.Lemmas.Yarrrml

namespace Props.C09
open Py Model Spec

/-! ### vocabulary -/

/-- **Vocabulary rewrite is total.** Every term of the R2RML vocabulary and of the legacy RML / FNML vocabulary that a processor
    has to read is rewritten, by the generated dict that applies to its role, to the RML term the specification gives it; and that
    term is one the parsing queries or the normalisation steps mention. -/
theorem C09_vocab_total :
    (∀ e ∈ r2rmlVocabulary, entryOK Gen.r2rmlToRmlPred Gen.r2rmlToRmlObj e = true) ∧
    (∀ e ∈ legacyVocabulary, entryOK Gen.legacyToRml [] e = true) ∧
    (∀ e ∈ r2rmlVocabulary ++ legacyVocabulary, e.role = .pred → e.new ∈ understoodTerms) := by
  have h1 := r2rmlStepOK_holds
  have h2 := legacyStepOK_holds
  have h3 := rewrittenUnderstood_holds
  simp only [r2rmlStepOK, legacyStepOK, rewrittenUnderstood, Bool.and_eq_true, List.all_eq_true] at h1 h2 h3
  refine ⟨h1.1, h2.1, fun e he hr => ?_⟩
  have := h3 e he
  simpa [hr] using this

/-- **RML documents are fixed points**, and the two rewrites do not disturb each other: the R2RML dicts leave every RML term and
    every legacy term unchanged, the legacy dict leaves every RML term and every R2RML term unchanged. -/
theorem C09_vocab_fixpoint :
    (∀ t ∈ rmlTerms ++ legacyVocabulary.map (·.old),
      rewriteChain Gen.r2rmlToRmlPred t = t ∧ rewriteChain Gen.r2rmlToRmlObj t = t) ∧
    (∀ t ∈ rmlTerms ++ (r2rmlVocabulary.filter (·.role ≠ .unread)).map (·.old), rewriteChain Gen.legacyToRml t = t) := by
  have h1 := r2rmlStepOK_holds
  have h2 := legacyStepOK_holds
  simp only [r2rmlStepOK, legacyStepOK, Bool.and_eq_true, List.all_eq_true, beq_iff_eq] at h1 h2
  exact ⟨h1.2, h2.2⟩

/-- the vocabulary rewrite is idempotent on the vocabularies: a rewritten term is not rewritten again -/
theorem C09_vocab_idempotent (e : VEntry) (he : e ∈ r2rmlVocabulary ++ legacyVocabulary) (hr : e.role ≠ .unread) :
    rewriteChain Gen.r2rmlToRmlPred e.new = e.new ∧ rewriteChain Gen.r2rmlToRmlObj e.new = e.new ∧
    rewriteChain Gen.legacyToRml e.new = e.new := by
  have hmem : e.new ∈ rmlTerms := by
    simp only [rmlTerms, List.mem_filterMap]
    exact ⟨e, he, by simp [hr]⟩
  exact ⟨(C09_vocab_fixpoint.1 e.new (by simp [hmem])).1, (C09_vocab_fixpoint.1 e.new (by simp [hmem])).2,
    C09_vocab_fixpoint.2 e.new (by simp [hmem])⟩

/-! ### the order of the steps -/

/-- **The step order.** The rows of the parsing query after the steps in the order of the source are the rows of the normal form:
    vocabulary resolved, every triples map normalised by class → POM, shortcut expansion, graph propagation, default graph, term types,
    triples-map typing. -/
theorem rawRules_eq (d : SDoc) : rawRules d = (normDoc d).tms.flatMap (extractTm (normDoc d)) := by
  unfold rawRules
  rw [runNormSteps_of_orderOK orderOK_holds, runNormSteps_canonical r2rmlStepOK_holds legacyStepOK_holds]
  simp [extract, normDoc, SDoc.resolved]

/-- every acceptable order of the steps (30 of them) computes the same normal form -/
theorem C09_order_irrelevant (order : List Step) (h : OrderOK order = true) (d : SDoc) :
    runNormSteps order d = normDoc d := by
  rw [runNormSteps_of_orderOK h, runNormSteps_canonical r2rmlStepOK_holds legacyStepOK_holds]

/-! ### respellings -/

/-- **Vocabulary.** The same document written with R2RML terms, with legacy RML terms, or with RML terms gives the same rule table. -/
theorem C09_vocab (r2rml legacy : Bool) (d : SDoc) : normalizeSurface (respell r2rml legacy d) = normalizeSurface d := by
  unfold normalizeSurface
  rw [rawRules_eq, rawRules_eq]
  rfl

/-- **Shortcuts.** Writing every constant shortcut as an expanded term map gives the same rule table. -/
theorem C09_shortcut (d : SDoc) : normalizeSurface (expandShortcuts d) = normalizeSurface d := by
  unfold normalizeSurface
  rw [rawRules_eq, rawRules_eq]
  have : normDoc (expandShortcuts d) = normDoc d := by
    simp only [normDoc, expandShortcuts, List.map_map, Function.comp_def, normTm_expandShortcuts shortcutTableOK_holds]
  rw [this]

/-- **Classes.** Writing `rr:class c` as the predicate-object map `rdf:type c` gives the same rule table. -/
theorem C09_class (d : SDoc) : normalizeSurface (classAsPom d) = normalizeSurface d := by
  unfold normalizeSurface
  rw [rawRules_eq, rawRules_eq]
  have : normDoc (classAsPom d) = normDoc d := by
    simp only [normDoc, classAsPom, List.map_map, Function.comp_def, normTm_classAsPom]
  rw [this]

/-- **Subject graph maps.** Repeating the graph slots of the subject map on every predicate-object map (the class declarations
    written as predicate-object maps, so that they get them too) gives the same rule table. -/
theorem C09_subjGraph (d : SDoc) : normalizeSurface (graphsOnPoms (classAsPom d)) = normalizeSurface d := by
  unfold normalizeSurface
  rw [rawRules_eq, rawRules_eq]
  have : normDoc (graphsOnPoms (classAsPom d)) = normDoc d := by
    simp only [normDoc, graphsOnPoms, classAsPom, List.map_map, Function.comp_def, normTm_graphsOnPoms shortcutTableOK_holds]
  rw [this]

/-- the same for documents without class declarations, as the property words it -/
theorem C09_subjGraph' (d : SDoc) (h : ∀ tm ∈ d.tms, tm.classes = []) : normalizeSurface (graphsOnPoms d) = normalizeSurface d := by
  have : classAsPom d = d := by
    cases d with
    | mk a b tms =>
      simp only [classAsPom, SDoc.mk.injEq, true_and]
      rw [List.map_congr_left (g := id)]
      · simp
      · intro tm htm
        have hc : tm.classes = [] := h tm htm
        cases tm
        simp_all [classAsPomTm]
  have e := C09_subjGraph d
  rw [this] at e
  exact e

/-- **Factoring (partial).** One predicate-object map per (predicate, object) pair gives the same rule table — for documents in which
    every predicate-object map has at least one predicate and one object (R2RML 6.3) and, because of finding `C09_F3`, no
    predicate-object map has both an object map and a referencing object map (`DocNoMix` is the negation of its scope). -/
theorem C09_pomFactor_partial (d : SDoc) (h : DocWF d) (hF3 : DocNoMix d) : normalizeSurface (splitPoms d) = normalizeSurface d := by
  unfold normalizeSurface
  rw [rawRules_eq, rawRules_eq, rows_splitPoms h hF3]

/-- the full statement holds for what the generation rules ask of the parsing query (every object map delivered): splitting never
    changes those rows -/
theorem C09_pomFactor_spec (d : SDoc) (b : Rule) (pom : SPom) : (splitPom pom).flatMap (pomRowsAll d b) = pomRowsAll d b pom :=
  splitPom_rowsAll d b pom

/-- **C09_F3 (counter-witness).** A predicate-object map with the object map `rml:reference "name"` and a referencing object map: the
    parsing query with two consecutive OPTIONAL blocks delivers the object map only (one row); split into two predicate-object maps
    both are delivered; the generation rules (and the query with the UNION of the proposed repair) ask for both. -/
theorem C09_F3_referencing_object_map_dropped :
    let o1 : SObj := .slot (.full { kind := .reference, value := "name".toList, termType := some .literal })
    let o2 : SObj := .ref "T2".toList [("id".toList, "id".toList)]
    let p : SSlot := .full { kind := .constant, value := "http://ex/p".toList }
    let pom : SPom := { predicates := [p], objects := [o1, o2], graphs := [] }
    effObjectsWith .consecutiveOptionals pom = [o1] ∧
    (splitPom pom).flatMap (effObjectsWith .consecutiveOptionals) = [o1, o2] ∧
    effObjectsWith .union pom = [o1, o2] ∧
    scopeF3 pom = true := by
  decide +kernel

/-! ### equal rule tables, equal results -/

/-- the ids of the triples maps of a document are pairwise different (they are nodes of one RDF graph) -/
def UniqueIds (d : SDoc) : Prop := (d.tms.map (·.id)).Nodup

/-- what a referencing rule reads from a rule of this triples map -/
def tmView (tm : STm) : ParentView :=
  match tm.subject with
  | .full sm => ⟨mapTypeOf sm.kind, sm.value, sm.termType.getD .iri, tm.sourceName, tm.lsType, tm.lsv, none⟩
  | .short _ _ => ⟨.template, [], .iri, [], none, [], none⟩

theorem mem_objRules_view {d : SDoc} {b : Rule} {p g : STermMap} {o : SObj} {r : Rule} (h : r ∈ objRules d b p g o) :
    r.tmId = b.tmId ∧ parentView r = parentView b := by
  cases o with
  | slot s =>
    cases s with
    | short v l => simp [objRules] at h
    | full tm => simp only [objRules, List.mem_singleton] at h; subst h; exact ⟨rfl, rfl⟩
  | ref parent conds => simp only [objRules, List.mem_singleton] at h; subst h; exact ⟨rfl, rfl⟩

theorem mem_extractTm_view {d : SDoc} {tm : STm} {r : Rule} (h : r ∈ extractTm d tm) :
    r.tmId = tm.id ∧ parentView r = tmView tm := by
  unfold extractTm at h
  cases hs : tm.subject with
  | short v l => simp [hs] at h
  | full sm =>
    simp only [hs] at h
    have hb : (sBaseRule tm sm).tmId = tm.id ∧ parentView (sBaseRule tm sm) = tmView tm := by
      simp [sBaseRule, parentView, tmView, hs]
    split at h
    · simp only [List.mem_singleton] at h; subst h; exact hb
    · simp only [pomRows, List.mem_flatMap] at h
      obtain ⟨pom, _, p, _, o, _, g, _, hr⟩ := h
      obtain ⟨h1, h2⟩ := mem_objRules_view hr
      exact ⟨h1.trans hb.1, h2.trans hb.2⟩

theorem normTm_id (tm : STm) : (normTm tm).id = tm.id := rfl

theorem eq_of_nodup_map {α β} (f : α → β) : ∀ {l : List α}, (l.map f).Nodup → ∀ x ∈ l, ∀ y ∈ l, f x = f y → x = y
  | [], _, x, hx, _, _, _ => by simp at hx
  | a :: t, h, x, hx, y, hy, e => by
    simp only [List.map_cons, List.nodup_cons, List.mem_map, not_exists, not_and] at h
    rcases List.mem_cons.mp hx with hxa | hxt <;> rcases List.mem_cons.mp hy with hya | hyt
    · rw [hxa, hya]
    · subst hxa; exact absurd e.symm (h.1 y hyt)
    · subst hya; exact absurd e (h.1 x hxt)
    · exact eq_of_nodup_map f h.2 x hxt y hyt e

/-- rules of the same triples map read the same subject map and logical source -/
theorem coherent_rawRules (d : SDoc) (h : UniqueIds d) : Coherent (rawRules d) := by
  intro r hr r' hr' e
  rw [rawRules_eq, List.mem_flatMap] at hr hr'
  obtain ⟨tm, htm, hrt⟩ := hr
  obtain ⟨tm', htm', hrt'⟩ := hr'
  obtain ⟨h1, h2⟩ := mem_extractTm_view hrt
  obtain ⟨h1', h2'⟩ := mem_extractTm_view hrt'
  simp only [normDoc, List.mem_map] at htm htm'
  obtain ⟨t0, ht0, rfl⟩ := htm
  obtain ⟨t0', ht0', rfl⟩ := htm'
  have : t0 = t0' := eq_of_nodup_map (fun t : STm => t.id) (by simpa [UniqueIds] using h) t0 ht0 t0' ht0' (by
    have := h1.symm.trans (e.trans h1')
    simpa [normTm_id] using this)
  subst this
  rw [h2, h2']

theorem coherent_normalizeSurface (d : SDoc) (h : UniqueIds d) : Coherent (normalizeSurface d) :=
  coherent_post (coherent_rawRules d h)

/-- **Equal rule tables, equal results.** Two rule tables that are equal as sets (whatever their order and multiplicities) evaluate
    alike: if one does not raise, neither does the other, and the results have the same members.  (`Coherent`: rules with the same
    triples-map id share subject map and logical source — true of every table `normalizeSurface` builds, `coherent_normalizeSurface`.) -/
theorem C09_eval_resp (env : Env) {rs rs' : List Rule} (h : RuleSetEq rs rs') (hc : Coherent rs) (out : List Str)
    (hout : evalAll env rs = .ok out) : ∃ out', evalAll env rs' = .ok out' ∧ ∀ line, line ∈ out ↔ line ∈ out' :=
  evalAll_resp env h hc out hout

/-- **C09, the model.** Two documents whose parsing-query rows are equal as sets — in particular a document and any of its
    respellings above, or any composition of them — have the same `materialize_set` result for every configuration and all data. -/
theorem C09_spelling_invariance (env : Env) (d d' : SDoc) (hid : UniqueIds d) (h : RuleSetEq (rawRules d) (rawRules d')) (out : List Str)
    (hout : evalAll env (normalizeSurface d) = .ok out) :
    ∃ out', evalAll env (normalizeSurface d') = .ok out' ∧ ∀ line, line ∈ out ↔ line ∈ out' :=
  evalAll_resp env (post_resp h (coherent_rawRules d hid)) (coherent_normalizeSurface d hid) out hout

/-- all the listed respellings at once: vocabulary, shortcuts, classes, subject graphs, factoring (outside the scope of `C09_F3`) -/
theorem C09_all_respellings (d : SDoc) (h : DocWF d) (hF3 : DocNoMix d) (r2rml legacy : Bool) :
    normalizeSurface (respell r2rml legacy (splitPoms (graphsOnPoms (classAsPom (expandShortcuts d))))) = normalizeSurface d := by
  rw [C09_vocab, C09_pomFactor_partial, C09_subjGraph, C09_shortcut]
  -- well-formedness of the respelled document
  · intro tm htm
    simp only [graphsOnPoms, classAsPom, expandShortcuts, List.map_map, List.mem_map, Function.comp_def] at htm
    obtain ⟨t0, ht0, rfl⟩ := htm
    intro pom hp
    simp only [graphsOnPomsTm, classAsPomTm, expandShortcutsTm, List.mem_map, List.mem_append] at hp
    obtain ⟨q, hq, rfl⟩ := hp
    rcases hq with ⟨c, _, rfl⟩ | ⟨q0, hq0, rfl⟩
    · exact ⟨by simp [classPom], by simp [classPom]⟩
    · obtain ⟨h1, h2⟩ := h t0 ht0 q0 hq0
      exact ⟨by simpa using h1, by simpa using h2⟩
  -- … and it mixes no object maps with referencing object maps either
  · intro tm htm
    simp only [graphsOnPoms, classAsPom, expandShortcuts, List.map_map, List.mem_map, Function.comp_def] at htm
    obtain ⟨t0, ht0, rfl⟩ := htm
    intro pom hp
    simp only [graphsOnPomsTm, classAsPomTm, expandShortcutsTm, List.mem_map, List.mem_append] at hp
    obtain ⟨q, hq, rfl⟩ := hp
    rcases hq with ⟨c, _, rfl⟩ | ⟨q0, hq0, rfl⟩
    · intro _; simp [scopeF3, classPom, SObj.isRef]
    · have := hF3 t0 ht0 q0 hq0
      simp only [PomNoMix, scopeF3, any_map_of_inv _ _ (expandObj_isSlot _ _), any_map_of_inv _ _ (expandObj_isRef _ _)]
      exact this

/-! ### the order of triples maps and of predicate-object maps -/

theorem find?_perm_unique {α β} [DecidableEq β] (f : α → β) {l l' : List α} (h : l.Perm l') (hn : (l.map f).Nodup) (p : β) :
    l.find? (fun x => f x = p) = l'.find? (fun x => f x = p) := by
  cases hl : l.find? (fun x => f x = p) with
  | none =>
    symm
    rw [List.find?_eq_none] at hl ⊢
    intro x hx
    exact hl x (h.mem_iff.mpr hx)
  | some x =>
    have hx := List.mem_of_find?_eq_some hl
    have hfx : f x = p := by simpa using List.find?_some hl
    cases hl' : l'.find? (fun x => f x = p) with
    | none =>
      rw [List.find?_eq_none] at hl'
      exact absurd (by simpa using hfx) (hl' x (h.mem_iff.mp hx))
    | some y =>
      have hy := h.mem_iff.mpr (List.mem_of_find?_eq_some hl')
      have hfy : f y = p := by simpa using List.find?_some hl'
      rw [eq_of_nodup_map f hn x hx y hy (hfx.trans hfy.symm)]

theorem extractTm_congr_parents {d d' : SDoc} (h : ∀ p, parentTermType d' p = parentTermType d p) (tm : STm) :
    extractTm d' tm = extractTm d tm := by
  have ho : ∀ b p g o, objRules d' b p g o = objRules d b p g o := by
    intro b p g o
    cases o with
    | slot s => cases s <;> rfl
    | ref parent conds => simp [objRules, h]
  unfold extractTm pomRows
  simp only [ho]

/-- **Order of the triples maps.** A document with its triples maps in another order has the same rows, in another order. -/
theorem C09_perm_tms (d d' : SDoc) (h : d.tms.Perm d'.tms) (hid : UniqueIds d) : (rawRules d).Perm (rawRules d') := by
  rw [rawRules_eq, rawRules_eq]
  have hp : (normDoc d).tms.Perm (normDoc d').tms := List.Perm.map normTm h
  have hn : ((normDoc d).tms.map (·.id)).Nodup := by
    simpa [normDoc, List.map_map, Function.comp_def, normTm_id, UniqueIds] using hid
  have hpar : ∀ p, parentTermType (normDoc d') p = parentTermType (normDoc d) p := by
    intro p
    unfold parentTermType
    rw [find?_perm_unique (fun t : STm => t.id) hp hn p]
  have hf : (normDoc d').tms.flatMap (extractTm (normDoc d')) = (normDoc d').tms.flatMap (extractTm (normDoc d)) :=
    flatMap_congr' fun tm _ => extractTm_congr_parents hpar tm
  rw [hf]
  exact List.Perm.flatMap_right _ hp

/-- two triples maps that differ only in the order of their predicate-object maps -/
def PomPerm (tm tm' : STm) : Prop := tm' = { tm with poms := tm'.poms } ∧ tm.poms.Perm tm'.poms

theorem PomPerm_step (s : Step) {tm tm' : STm} (h : PomPerm tm tm') : PomPerm (stepTm s tm) (stepTm s tm') := by
  obtain ⟨he, hp⟩ := h
  rw [he]
  cases s
  case classToPom => exact ⟨rfl, List.Perm.append_left _ hp⟩
  case expandShortcuts => exact ⟨rfl, List.Perm.map _ hp⟩
  case subjectGraphsToPom => exact ⟨rfl, List.Perm.map _ hp⟩
  case defaultGraph => exact ⟨rfl, List.Perm.map _ hp⟩
  case termtypes => exact ⟨rfl, List.Perm.map _ hp⟩
  case tmClass =>
    refine ⟨?_, hp⟩
    simp only [stepTm]
    rw [List.Perm.isEmpty_eq hp]
  all_goals exact ⟨rfl, hp⟩

theorem PomPerm_normTm {tm tm' : STm} (h : PomPerm tm tm') : PomPerm (normTm tm) (normTm tm') := by
  unfold normTm
  exact PomPerm_step _ (PomPerm_step _ (PomPerm_step _ (PomPerm_step _ (PomPerm_step _ (PomPerm_step _ h)))))

theorem extractTm_pomPerm (d : SDoc) {tm tm' : STm} (h : PomPerm tm tm') : (extractTm d tm).Perm (extractTm d tm') := by
  obtain ⟨he, hp⟩ := h
  rw [he]
  unfold extractTm
  cases tm.subject with
  | short v l => exact List.Perm.refl _
  | full sm =>
    simp only [sBaseRule]
    rw [List.Perm.isEmpty_eq hp]
    split
    · exact List.Perm.refl _
    · exact List.Perm.flatMap_right _ hp

/-- triples map by triples map -/
inductive PomPermList : List STm → List STm → Prop
  | nil : PomPermList [] []
  | cons {a b : STm} {l l' : List STm} : PomPerm a b → PomPermList l l' → PomPermList (a :: l) (b :: l')

theorem pomPermList_keys {l l' : List STm} (h : PomPermList l l') :
    (l'.map normTm).map parentKey = (l.map normTm).map parentKey := by
  induction h with
  | nil => rfl
  | cons hab _ ih =>
    simp only [List.map_cons, ih, List.cons.injEq, and_true]
    have := (PomPerm_normTm hab).1
    rw [this]
    rfl

theorem pomPermList_rows (nd : SDoc) {l l' : List STm} (h : PomPermList l l') :
    ((l.map normTm).flatMap (extractTm nd)).Perm ((l'.map normTm).flatMap (extractTm nd)) := by
  induction h with
  | nil => exact List.Perm.refl _
  | cons hab _ ih =>
    simp only [List.map_cons, List.flatMap_cons]
    exact List.Perm.append (extractTm_pomPerm _ (PomPerm_normTm hab)) ih

/-- **Order of the predicate-object maps.** Documents whose triples maps correspond one to one and differ only in the order of their
    predicate-object maps have the same rows, in another order. -/
theorem C09_perm_poms (d d' : SDoc) (h : PomPermList d.tms d'.tms) : (rawRules d).Perm (rawRules d') := by
  rw [rawRules_eq, rawRules_eq]
  have hkey : (normDoc d').tms.map parentKey = (normDoc d).tms.map parentKey := pomPermList_keys h
  have hf : (normDoc d').tms.flatMap (extractTm (normDoc d')) = (normDoc d').tms.flatMap (extractTm (normDoc d)) :=
    flatMap_congr' fun tm _ => extractTm_congr hkey tm
  rw [hf]
  exact pomPermList_rows _ h

/-! ### the precedences between the steps are needed (witnesses; vocabulary already RML, so only structural steps run) -/

namespace Witness

def subj : SSlot := .full { kind := .template, value := "http://ex/{id}".toList }

/-- a class and a `rr:graph` shortcut on the subject map, one predicate-object map -/
def tm1 : STm :=
  { id := "t".toList, subject := subj, classes := ["http://ex/C".toList], graphs := [.short "http://ex/g".toList false],
    poms := [{ predicates := [.short "http://ex/p".toList false], objects := [.slot (.short "lit".toList true)] }] }

/-- a triples map with a class and no predicate-object map -/
def tm2 : STm := { id := "u".toList, subject := subj, classes := ["http://ex/C".toList] }

def rows (order : List Step) (tm : STm) : List Rule := extractTm ⟨false, false, []⟩ (order.foldl (fun t s => stepTm s t) tm)

def good : List Step := [.classToPom, .expandShortcuts, .subjectGraphsToPom, .defaultGraph, .termtypes, .tmClass]

end Witness

open Witness in
/-- class expansion after graph propagation (hence after shortcut expansion): the class statement is lost -/
theorem C09_order_class_before_graphs_matters :
    rows [.expandShortcuts, .subjectGraphsToPom, .classToPom, .defaultGraph, .termtypes, .tmClass] tm1 ≠ rows good tm1 ∧
    (rows good tm1).length = 2 ∧
    (rows [.expandShortcuts, .subjectGraphsToPom, .classToPom, .defaultGraph, .termtypes, .tmClass] tm1).length = 1 := by
  decide +kernel

open Witness in
/-- shortcut expansion after graph propagation: the subject's `rr:graph` is not propagated, the statements land in the default graph -/
theorem C09_order_shortcuts_before_graphs_matters :
    rows [.classToPom, .subjectGraphsToPom, .expandShortcuts, .defaultGraph, .termtypes, .tmClass] tm1 ≠ rows good tm1 ∧
    (rows good tm1).all (fun r => r.graphMapValue = "http://ex/g".toList) = true ∧
    (rows [.classToPom, .subjectGraphsToPom, .expandShortcuts, .defaultGraph, .termtypes, .tmClass] tm1).all
      (fun r => r.graphMapValue = Gen.Iri.rmlDefaultGraph) = true := by
  decide +kernel

open Witness in
/-- triples-map typing before class expansion: a triples map that has only classes is taken for a non-asserted one -/
theorem C09_order_class_before_typing_matters :
    (rows good tm2).all (·.asserted) = true ∧
    (rows [.tmClass, .classToPom, .expandShortcuts, .subjectGraphsToPom, .defaultGraph, .termtypes] tm2).all (·.asserted) = false := by
  decide +kernel

open Witness in
/-- term-type completion before shortcut expansion: the literal constant of `rr:object "lit"` gets no term type -/
theorem C09_order_shortcuts_before_termtypes_matters :
    rows [.classToPom, .termtypes, .expandShortcuts, .subjectGraphsToPom, .defaultGraph, .tmClass] tm1 ≠ rows good tm1 := by
  decide +kernel

/-- a structural step before the vocabulary rewrite finds nothing to do: on an R2RML document, class expansion placed before
    `_r2rml_to_rml` leaves the classes where they are, and the parsing query never sees them -/
theorem C09_order_vocabulary_first_matters :
    let d : SDoc := { needsR2rml := true, tms := [Witness.tm2] }
    (extract (applyStep .expandShortcuts (applyStep .r2rmlToRml (applyStep .classToPom d)))).length = 1 ∧
    (extract (applyStep .expandShortcuts (applyStep .classToPom (applyStep .r2rmlToRml d)))).all (·.predicateMapValue = Gen.Iri.rdfType) = true ∧
    (extract (applyStep .expandShortcuts (applyStep .r2rmlToRml (applyStep .classToPom d)))).all (·.predicateMapValue = []) = true := by
  intro d
  have h1 : ∀ x : SDoc, applyStep .r2rmlToRml x = { x with needsR2rml := false } := by
    intro x; simp [applyStep, r2rmlStepOK_holds]
  simp only [h1]
  decide +kernel

/-! ### term types, delimiters -/

/-- R2RML 7.4 — the default term type: that of the constant for a constant-valued term map; literal for an object map that is
    column-valued or has a language tag or a datatype; IRI otherwise -/
def specDefaultTermType (pos : Position) (tm : STermMap) : TermType :=
  match tm.kind with
  | .constant => if tm.isLit then .literal else .iri
  | .reference => if pos = .object then .literal else .iri
  | .template => if pos = .object && (tm.lang.isSome || tm.datatype.isSome) then .literal else .iri

/-- **Term-type completion is the default of R2RML 7.4** (for a term map whose language / datatype shortcuts have been expanded, as
    they are when the completion runs) -/
theorem C09_termtype_default (pos : Position) (tm : STermMap) (hld : tm.ldExpanded = true)
    (hc : tm.kind = .constant → tm.lang = none ∧ tm.datatype = none) :
    defaultTermType (pos == .object) tm = specDefaultTermType pos tm := by
  unfold defaultTermType specDefaultTermType
  cases hk : tm.kind <;> cases hp : pos <;> cases hl : tm.isLit <;> simp_all

/-- term types left out and term types written as the default give the same completed term map -/
theorem C09_termtype_explicit_default (isObject : Bool) (tm : STermMap) :
    completeSlot isObject (.full { tm with termType := some (defaultTermType isObject tm) }) =
    completeSlot isObject (.full { tm with termType := none }) := by
  simp [completeSlot, defaultTermType]

/-- **Delimited identifiers.** `rr:column "\"name\""` is the column `name` -/
theorem C09_delim_reference (name : Str) (h : name ≠ []) : undelimIdent (['"'] ++ name ++ ['"']) = name := by
  unfold undelimIdent
  have hlen : (['"'] ++ name ++ ['"']).length > 2 := by
    cases name with
    | nil => exact absurd rfl h
    | cons c cs => simp
  have hlast : (['"'] ++ name ++ ['"']).getLast? = some '"' := by
    rw [List.getLast?_append]; simp
  have hhead : (['"'] ++ name ++ ['"']).head? = some '"' := by simp
  simp only [hlen, hlast, hhead, decide_true, beq_self_eq_true, Bool.and_self, if_true]
  simp

/-- an identifier that is not delimited is left alone -/
theorem C09_delim_plain (name : Str) (h : name.head? ≠ some '"') : undelimIdent name = name := by
  unfold undelimIdent
  simp [h]

/-! ### YARRRML term templates -/

/-- `C09_F1`: the template starts with its only reference and goes on with literal text -/
def scopeF1 (t : Tpl) : Bool :=
  t.pre.isEmpty && (match t.parts with | [(_, lit)] => !lit.isEmpty | _ => false)

/-- `C09_F2`: the literal text of the template contains a brace -/
def scopeF2 (t : Tpl) : Bool := (t.pre :: t.parts.map (·.2)).any fun s => s.contains '{' || s.contains '}'

/-- **`$(x)` ↦ `{x}` for every reference**, whatever their number (both shapes of `_template_to_rml`) -/
theorem C09_yarrrml_template (k : Gen.YTemplateKind) (t : Tpl) (h : YSafe t) :
    yTemplateToRml k t.renderY = yLit k t.pre ++ yPartsOut k t.parts :=
  yTemplateToRml_render k t h

theorem noBrace_of_scopeF2 {t : Tpl} (h : scopeF2 t = false) :
    ('{' ∉ t.pre ∧ '}' ∉ t.pre) ∧ ∀ p ∈ t.parts, '{' ∉ p.2 ∧ '}' ∉ p.2 := by
  simp only [scopeF2, List.any_cons, List.any_map, Bool.or_eq_false_iff, List.any_eq_false, List.contains_eq_mem,
    decide_eq_false_iff_not, Function.comp] at h
  exact ⟨⟨by simpa using h.1.1, by simpa using h.1.2⟩, fun p hp => by simpa using h.2 p hp⟩

/-- **YARRRML templates mean their RML templates** — for the shape of `_template_to_rml` the source has now: without condition when
    it escapes the braces of the literal text; when it copies the text as it is (`raw`), for templates outside the scope of `C09_F2` -/
theorem C09_yarrrml_template_partial (t : Tpl) (h : YSafe t) (hF2 : Gen.yTemplateKind = .raw → scopeF2 t = false) :
    yTemplateToRml Gen.yTemplateKind t.renderY = t.render := by
  rw [C09_yarrrml_template _ t h]
  cases hk : Gen.yTemplateKind with
  | escaped => simp [yLit, yPartsOut, Tpl.render]
  | raw =>
    obtain ⟨⟨h1, h2⟩, hp⟩ := noBrace_of_scopeF2 (hF2 hk)
    simp only [yLit, yPartsOut, Tpl.render, escBrace_of_no_brace h1 h2]
    congr 1
    apply flatMap_congr'
    intro p hpm
    rw [escBrace_of_no_brace (hp p hpm).1 (hp p hpm).2]

/-- `$(name)` alone is a reference (both shapes of `_add_template`) -/
theorem C09_yarrrml_reference (r : Str) (h1 : '$' ∉ r) (h2 : ')' ∉ r) :
    yAddTemplate Gen.yAddKind Gen.yTemplateKind (yOpen ++ r ++ yClose) = .reference r :=
  yAddTemplate_reference _ _ r h1 h2

/-- **a template with references is translated as a template** — for the shape of `_add_template` the source has now; when that is
    `startsCount`, outside the scope of `C09_F1` -/
theorem C09_yarrrml_term_partial (t : Tpl) (h : YSafe t) (hne : t.parts ≠ []) (hnotref : ¬ ∃ r, t = ⟨[], [(r, [])]⟩)
    (hF1 : Gen.yAddKind = .startsCount → scopeF1 t = false) :
    yAddTemplate Gen.yAddKind Gen.yTemplateKind t.renderY = .template (yTemplateToRml Gen.yTemplateKind t.renderY) := by
  by_cases hshape : t.pre = [] ∧ t.parts.length = 1
  · obtain ⟨hpre, hlen⟩ := hshape
    obtain ⟨pre, parts⟩ := t
    simp only at hpre hlen
    subst hpre
    match parts, hlen with
    | [(r, lit)], _ =>
      have hlit : lit ≠ [] := by
        intro e; subst e; exact hnotref ⟨r, rfl⟩
      have hs := h.2 (r, lit) (by simp)
      cases hk : Gen.yAddKind with
      | startsCount =>
        have := hF1 hk
        cases lit with
        | nil => exact absurd rfl hlit
        | cons c cs => simp [scopeF1] at this
      | wholeRef =>
        have e : (⟨[], [(r, lit)]⟩ : Tpl).renderY = yOpen ++ r ++ yClose ++ lit := by simp [Tpl.renderY]
        rw [e]
        exact yAddTemplate_wholeRef_trailing _ r lit hs.2.1 hs.1 hs.2.2 hlit
  · exact yAddTemplate_template _ _ t h hne hshape

/-- **C09_F1 (counter-witness).** `$(x)/a` — the template `{x}/a` — is read by the unchanged `_add_template` as a reference to a column
    named `x)/` -/
theorem C09_F1_trailing_text_taken_for_reference :
    yAddTemplate .startsCount .raw "$(x)/a".toList = .reference "x)/".toList ∧
    ∀ (k : Gen.YTemplateKind) (r lit : Str), '$' ∉ r → ')' ∉ r → '$' ∉ lit →
      yAddTemplate .startsCount k (yOpen ++ r ++ yClose ++ lit) = .reference ((r ++ yClose ++ lit).dropLast) :=
  ⟨by decide +kernel, fun k r lit h1 h2 h3 => yAddTemplate_startsCount_trailing k r lit h1 h2 h3⟩

/-- what `$(x)/a` means, and what the repaired shape makes of it -/
theorem C09_F1_spec :
    (⟨[], [("x".toList, "/a".toList)]⟩ : Tpl).renderY = "$(x)/a".toList ∧
    (⟨[], [("x".toList, "/a".toList)]⟩ : Tpl).render = "{x}/a".toList ∧
    yAddTemplate .wholeRef .raw "$(x)/a".toList = .template "{x}/a".toList ∧
    scopeF1 ⟨[], [("x".toList, "/a".toList)]⟩ = true := by
  decide +kernel

/-- **C09_F2 (counter-witness).** `a{b}$(x)` — the literal text `a{b}` followed by the reference `x` — becomes the RML template
    `a{b}{x}`, whose references are `b` and `x` -/
theorem C09_F2_literal_braces_become_references :
    yTemplateToRml .raw "a{b}$(x)".toList = "a{b}{x}".toList ∧
    getReferencesInTemplate (yTemplateToRml .raw "a{b}$(x)".toList) = ["b".toList, "x".toList] := by
  decide +kernel

/-- what `a{b}$(x)` means (`a\{b\}{x}`, one reference), and what the repaired shape makes of it -/
theorem C09_F2_spec :
    (⟨"a{b}".toList, [("x".toList, [])]⟩ : Tpl).renderY = "a{b}$(x)".toList ∧
    (⟨"a{b}".toList, [("x".toList, [])]⟩ : Tpl).render = "a\\{b\\}{x}".toList ∧
    getReferencesInTemplate (⟨"a{b}".toList, [("x".toList, [])]⟩ : Tpl).render = ["x".toList] ∧
    yTemplateToRml .escaped "a{b}$(x)".toList = "a\\{b\\}{x}".toList ∧
    scopeF2 ⟨"a{b}".toList, [("x".toList, [])]⟩ = true := by
  decide +kernel

/-! ### non-vacuity: a document that uses every spelling choice, and its respellings -/

namespace Example

def sm : SSlot := .full { kind := .template, value := "http://ex/emp/{id}".toList }
def tmA : STm :=
  { id := "A".toList, sourceName := "DS".toList, lsv := "t.csv".toList, subject := sm,
    classes := ["http://ex/C".toList], graphs := [.short "http://ex/g".toList false],
    poms := [{ predicates := [.short "http://ex/p".toList false, .short "http://ex/q".toList false],
               objects := [.slot (.full { kind := .reference, value := "name".toList, lang := some "en".toList }),
                           .slot (.short "lit".toList true)],
               graphs := [] }] }
def tmB : STm :=
  { id := "B".toList, sourceName := "DS".toList, lsv := "t.csv".toList,
    subject := .full { kind := .template, value := "http://ex/dept/{dept}".toList },
    poms := [{ predicates := [.full { kind := .constant, value := "http://ex/in".toList }],
               objects := [.ref "A".toList [("dept".toList, "dept".toList)]] }] }
def doc : SDoc := { needsR2rml := true, tms := [tmA, tmB] }

theorem docWF : DocWF doc := by
  intro tm htm pom hp
  simp only [doc, List.mem_cons, List.not_mem_nil, or_false] at htm
  rcases htm with rfl | rfl <;> simp only [tmA, tmB, List.mem_singleton] at hp <;> subst hp <;> exact ⟨by simp, by simp⟩

theorem uniqueIds : UniqueIds doc := by unfold UniqueIds; decide +kernel

/-- the rule table has the 2 (predicates) x 2 (objects) + 1 (class) rows of A, all in graph `http://ex/g`, and the join row of B -/
theorem rows : (normalizeSurface doc).length = 6 ∧
    ((normalizeSurface doc).filter (·.graphMapValue = "http://ex/g".toList)).length = 5 := by
  have e : normalizeSurface doc = post ((normDoc doc).tms.flatMap (extractTm (normDoc doc))) := by
    unfold normalizeSurface; rw [rawRules_eq]
  rw [e]
  decide +kernel

/-- the hypotheses of `C09_all_respellings` and `C09_spelling_invariance` hold for it -/
theorem docNoMix : DocNoMix doc := by
  intro tm htm pom hp
  simp only [doc, List.mem_cons, List.not_mem_nil, or_false] at htm
  rcases htm with rfl | rfl <;> simp only [tmA, tmB, List.mem_singleton] at hp <;> subst hp <;> intro _ <;>
    simp [scopeF3, SObj.isSlot, SObj.isRef]

example (r2rml legacy : Bool) :
    normalizeSurface (respell r2rml legacy (splitPoms (graphsOnPoms (classAsPom (expandShortcuts doc))))) = normalizeSurface doc :=
  C09_all_respellings doc docWF docNoMix r2rml legacy

example : Coherent (normalizeSurface doc) := coherent_normalizeSurface doc uniqueIds

/-- a template that satisfies `YSafe` and is outside both finding scopes, with two references -/
def tpl2 : Tpl := ⟨"e/".toList, [("a".toList, "/".toList), ("b c".toList, "#x".toList)]⟩
example : YSafe tpl2 := ⟨by decide +kernel, by intro p hp; simp [tpl2] at hp; rcases hp with rfl | rfl <;> decide +kernel⟩
example : scopeF1 tpl2 = false ∧ scopeF2 tpl2 = false := by decide +kernel
example : tpl2.renderY = "e/$(a)/$(b c)#x".toList ∧ tpl2.render = "e/{a}/{b c}#x".toList := by decide +kernel

end Example

end Props.C09
