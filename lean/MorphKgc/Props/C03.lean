/-
C03 — Mapping groups are pairwise disjoint, so the output has no duplicate statements.
(The separation theorems for the scan are in preparation in a separate file set; this file holds the
counter-witnesses of the unchanged code, which delimit what can be proved.)
-/
import MorphKgc.Model.Partition
import MorphKgc.Model.Eval

namespace Props.C03
open Py Model

def g1Rule : Rule :=
  { tmId := "#TM0".toList, subjectMapType := .template, subjectMapValue := "http://ex/s/{id}".toList,
    predicateMapValue := "http://ex/p".toList, objectMapValue := "http://ex/o".toList,
    graphMapValue := "http://ex/G1".toList }
def g2Rule : Rule := { g1Rule with tmId := "#TM1".toList, graphMapValue := "http://ex/G2".toList }

/-- C03_F1: two rules that differ only in their (constant) graph maps are put into different groups, yet with
    N-TRIPLES output they print the same line for the same row: every statement is written twice -/
theorem C03_F1_ntriples_graph_only :
    partitionLabels .partialAggregations [g1Rule, g2Rule] = .ok ["1-1-1-1".toList, "1-1-1-2".toList] ∧
    rowTriple { fmt := .ntriples } g1Rule .constant g1Rule.objectMapValue [] [(['i', 'd'], ['7'])]
      = rowTriple { fmt := .ntriples } g2Rule .constant g2Rule.objectMapValue [] [(['i', 'd'], ['7'])] ∧
    rowTriple { fmt := .nquads } g1Rule .constant g1Rule.objectMapValue [] [(['i', 'd'], ['7'])]
      ≠ rowTriple { fmt := .nquads } g2Rule .constant g2Rule.objectMapValue [] [(['i', 'd'], ['7'])] := by
  decide +kernel

def r1 : Rule :=
  { tmId := "#TM0".toList, subjectMapType := .reference, subjectMapValue := ['s'],
    predicateMapValue := "http://p/a".toList, objectMapType := .reference, objectMapValue := ['o'],
    graphMapValue := "http://w3id.org/rml/defaultGraph".toList }
def r2 : Rule := { r1 with tmId := "#TM1".toList, predicateMapValue := "http://p/b".toList }

/-- C03_F2: reference-valued IRIs are emitted verbatim, so data can forge the term boundaries: two rules separated
    by their constant predicates print the identical line from two different rows -/
theorem C03_F2_reference_iri_collision :
    partitionLabels .partialAggregations [r1, r2] = .ok ["1-1-1-1".toList, "1-2-1-1".toList] ∧
    rowTriple { fmt := .nquads } r1 .reference ['o'] [] [(['s'], "a> <http://p/b> <b".toList), (['o'], ['c'])]
      = rowTriple { fmt := .nquads } r2 .reference ['o'] [] [(['s'], ['a']), (['o'], "b> <http://p/a> <c".toList)] := by
  decide +kernel

end Props.C03
