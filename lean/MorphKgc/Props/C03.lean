/-
C03 — Mapping groups are pairwise disjoint.

Layer B2 (`C03_partial_separation`): two rules with different PARTIAL-AGGREGATIONS labels are *separated* at some
position, whatever the data.  Layers B3/B4 (`C03_disjoint_partial`): separated, token-safe rules never print the same
N-QUADS line.  Counter-witnesses: `C03_F1_ntriples_graph_only`, `C03_F3_literal_type_on_iri`.
-/
import MorphKgc.Model.Eval
import MorphKgc.Lemmas.PartialScan
import MorphKgc.Lemmas.MaximalScan
import MorphKgc.Lemmas.Render
import MorphKgc.Lemmas.Pct
import MorphKgc.Props.C02
import MorphKgc.Gen.GroupSet

namespace Props.C03
open Py Model

/-! ### B2: different labels ⟹ separated at some position -/

/-- subject position: a blank node against a non-blank node, or prefix-incomparable invariants -/
def SepS (a b : PRule) : Prop :=
  (a.rule.subjectTermtype = .bnode ∧ b.rule.subjectTermtype ≠ .bnode) ∨
  (a.rule.subjectTermtype ≠ .bnode ∧ b.rule.subjectTermtype = .bnode) ∨
  (a.rule.subjectTermtype ≠ .bnode ∧ b.rule.subjectTermtype ≠ .bnode ∧ Incomp a.sInv b.sInv)

/-- predicate position: prefix-incomparable invariants; only *different* invariants when all predicate maps are constants -/
def SepP (rs : List PRule) (a b : PRule) : Prop := Unrel (relOf (enforceFor .P rs)) a.pInv b.pInv

/-- graph position: as for predicates -/
def SepG (rs : List PRule) (a b : PRule) : Prop := Unrel (relOf (enforceFor .G rs)) a.gInv b.gInv

/-- object position: different term types, or two literals of different `literal_type`, or two IRIs (two quoted
    triples) with prefix-incomparable invariants -/
def SepO (a b : PRule) : Prop :=
  a.rule.objectTermtype ≠ b.rule.objectTermtype ∨
  (a.rule.objectTermtype = .literal ∧ b.rule.objectTermtype = .literal ∧ a.litType ≠ b.litType) ∨
  (a.rule.objectTermtype = b.rule.objectTermtype ∧ a.rule.objectTermtype ≠ .literal ∧
    a.rule.objectTermtype ≠ .bnode ∧ Incomp a.oInv b.oInv)

def Separated (rs : List PRule) (a b : PRule) : Prop := SepS a b ∨ SepP rs a b ∨ SepO a b ∨ SepG rs a b

/-- the label PARTIAL-AGGREGATIONS gives a row -/
theorem partial_label (rs : List PRule) (hnd : (rs.map (·.idx)).Nodup) (r : PRule) (hr : r ∈ rs) :
    componentOf (partialAggregations rs) r.idx =
      componentOf (partialPass .S rs) r.idx ++ ['-'] ++ componentOf (partialPass .P rs) r.idx ++ ['-'] ++
      componentOf (partialPass .O rs) r.idx ++ ['-'] ++ componentOf (partialPass .G rs) r.idx := by
  apply componentOf_eq
  · unfold partialAggregations; dsimp only; rw [List.map_map]; exact hnd
  · unfold partialAggregations; dsimp only
    exact List.mem_map.mpr ⟨r, hr, rfl⟩

/-- rows with different labels are separated (on the rows of `_get_term_invariants`) -/
theorem partial_rows_separated (rs : List PRule) (hnd : (rs.map (·.idx)).Nodup)
    (hO : ∀ r ∈ rs, r.rule.objectTermtype ≠ .literal → r.litType = none)
    (a b : PRule) (ha : a ∈ rs) (hb : b ∈ rs)
    (hne : componentOf (partialAggregations rs) a.idx ≠ componentOf (partialAggregations rs) b.idx) :
    Separated rs a b := by
  rw [partial_label rs hnd a ha, partial_label rs hnd b hb] at hne
  by_cases hS : componentOf (partialPass .S rs) a.idx = componentOf (partialPass .S rs) b.idx
  · by_cases hP : componentOf (partialPass .P rs) a.idx = componentOf (partialPass .P rs) b.idx
    · by_cases hOc : componentOf (partialPass .O rs) a.idx = componentOf (partialPass .O rs) b.idx
      · by_cases hG : componentOf (partialPass .G rs) a.idx = componentOf (partialPass .G rs) b.idx
        · exact absurd (by rw [hS, hP, hOc, hG]) hne
        · exact Or.inr (Or.inr (Or.inr
            (sepG rs _ (passPairs_mem .G rs hnd a ha) _ (passPairs_mem .G rs hnd b hb) hG)))
      · exact Or.inr (Or.inr (Or.inl
          (sepO rs hO _ (passPairs_mem .O rs hnd a ha) _ (passPairs_mem .O rs hnd b hb) hOc)))
    · exact Or.inr (Or.inl (sepP rs _ (passPairs_mem .P rs hnd a ha) _ (passPairs_mem .P rs hnd b hb) hP))
  · exact Or.inl (sepS rs _ (passPairs_mem .S rs hnd a ha) _ (passPairs_mem .S rs hnd b hb) hS)

theorem mem_zip_range {α} (l : List α) (i : Nat) (x : α) (h : (i, x) ∈ List.zip (List.range l.length) l) :
    ∃ hi : i < l.length, l[i] = x := by
  obtain ⟨k, hk, he⟩ := List.mem_iff_getElem.mp h
  simp only [List.length_zip, List.length_range, Nat.min_self] at hk
  simp only [List.getElem_zip, List.getElem_range, Prod.mk.injEq] at he
  obtain ⟨rfl, rfl⟩ := he
  exact ⟨hk, rfl⟩

/-- the row of the `i`-th rule -/
theorem row_of_index (rules : List Rule) (rs : List PRule) (h : termInvariants rules = .ok rs) (i : Nat)
    (hi : i < rules.length) : ∃ a ∈ rs, RowOf rules i rules[i] a := by
  obtain ⟨hidx, _, hrows⟩ := termInvariants_ok rules rs h
  have : i ∈ rs.map (·.idx) := by rw [hidx]; exact List.mem_range.mpr hi
  obtain ⟨a, ha, hai⟩ := List.mem_map.mp this
  obtain ⟨i', r, hz, hrow⟩ := hrows a ha
  have e : i' = i := hrow.idx.symm.trans hai
  subst e
  obtain ⟨_, hr⟩ := mem_zip_range rules i' r hz
  subst hr
  exact ⟨a, ha, hrow⟩

/-- **B2.** If PARTIAL-AGGREGATIONS gives the `i`-th and the `j`-th rule different labels, the two rules are separated
    at some position.  Hypothesis `hO` (language/datatype only on literal objects) is forced by the code: the object
    sort puts `literal_type` before the invariant for *all* term types (see `C03_F3_literal_type_on_iri`). -/
theorem C03_partial_separation (rules : List Rule) (ls : List Str)
    (hp : partitionLabels .partialAggregations rules = .ok ls)
    (hO : ∀ r ∈ rules, r.objectTermtype ≠ .literal → r.langDatatype = none)
    (i j : Nat) (hi : i < rules.length) (hj : j < rules.length) (hne : ls[i]? ≠ ls[j]?) :
    ∃ rs a b, termInvariants rules = .ok rs ∧ a ∈ rs ∧ b ∈ rs ∧
      RowOf rules i rules[i] a ∧ RowOf rules j rules[j] b ∧ Separated rs a b := by
  unfold partitionLabels at hp
  cases ht : termInvariants rules with
  | error e => simp [ht, bind, Except.bind] at hp
  | ok rs =>
    simp only [ht, bind, Except.bind, pure, Except.pure, Except.ok.injEq] at hp
    subst hp
    obtain ⟨hidx, hrule, hrows⟩ := termInvariants_ok rules rs ht
    obtain ⟨a, ha, hra⟩ := row_of_index rules rs ht i hi
    obtain ⟨b, hb, hrb⟩ := row_of_index rules rs ht j hj
    have hnd : (rs.map (·.idx)).Nodup := by rw [hidx]; exact List.nodup_range
    have hO' : ∀ r ∈ rs, r.rule.objectTermtype ≠ .literal → r.litType = none := by
      intro r hr hlit
      obtain ⟨i', q, hz, hrow⟩ := hrows r hr
      have hq : q ∈ rules := (List.of_mem_zip hz).2
      rw [hrow.rule] at hlit
      rw [hrow.lit]
      have := hO q hq hlit
      simp [litTypeOf, this]
    refine ⟨rs, a, b, rfl, ha, hb, hra, hrb, partial_rows_separated rs hnd hO' a b ha hb ?_⟩
    rw [hra.idx, hrb.idx]
    intro e
    apply hne
    simp [hi, hj, e]

/-- the `enforce` switch, in terms of the mapping -/
theorem enforceFor_P_rules (rules : List Rule) (rs : List PRule) (h : termInvariants rules = .ok rs) :
    enforceFor .P rs = rules.all fun r => r.predicateMapType = .constant := by
  have := (termInvariants_ok rules rs h).2.1
  rw [← this, List.all_map]; rfl

theorem enforceFor_G_rules (rules : List Rule) (rs : List PRule) (h : termInvariants rules = .ok rs) :
    enforceFor .G rs = rules.all fun r => r.graphMapType = .constant := by
  have := (termInvariants_ok rules rs h).2.1
  rw [← this, List.all_map]; rfl

/-! ### B4: lines -/

/-- what follows the object term: language tag or datatype -/
def LangSuffix (env : Env) (r : Rule) (row : Str → Option Str) (sfx : Str) : Prop :=
  match r.langDatatype, r.langDatatypeMapType with
  | some .languageMap, some mt => ∃ l, materializeTemplate env.cfg mt r.langDatatypeMapValue none [] [] row = .ok l ∧ sfx = ['@'] ++ l
  | some .datatypeMap, some mt => ∃ d, materializeTemplate env.cfg mt r.langDatatypeMapValue (some .iri) [] [] row = .ok d ∧ sfx = ['^', '^'] ++ d
  | _, _ => sfx = []

def GraphTerm (env : Env) (r : Rule) (row : Str → Option Str) (g : Str) : Prop :=
  if r.graphMapValue ≠ env.defaultGraph then materializeTemplate env.cfg r.graphMapType r.graphMapValue (some .iri) [] [] row = .ok g
  else g = []

theorem rowTriple_nquads (env : Env) (hf : env.fmt = .nquads) (r : Rule) (k : MapType) (v a : Str) (ρ : SRow) (line : Str)
    (h : rowTriple env r k v a ρ = .ok line) :
    ∃ s p o sfx g,
      materializeTemplate env.cfg r.subjectMapType r.subjectMapValue (some r.subjectTermtype) [] [] (fun c => lookup c ρ) = .ok s ∧
      materializeTemplate env.cfg r.predicateMapType r.predicateMapValue (some .iri) [] [] (fun c => lookup c ρ) = .ok p ∧
      materializeTemplate env.cfg k v (some r.objectTermtype) (litDatatype r) a (fun c => lookup c ρ) = .ok o ∧
      LangSuffix env r (fun c => lookup c ρ) sfx ∧ GraphTerm env r (fun c => lookup c ρ) g ∧
      line = s ++ [' '] ++ p ++ [' '] ++ (o ++ sfx) ++ [' '] ++ g := by
  unfold rowTriple at h
  simp only [hf] at h
  cases hs : materializeTemplate env.cfg r.subjectMapType r.subjectMapValue (some r.subjectTermtype) [] [] (fun c => lookup c ρ) with
  | error e => simp [hs, bind, Except.bind] at h
  | ok s =>
  cases hp : materializeTemplate env.cfg r.predicateMapType r.predicateMapValue (some .iri) [] [] (fun c => lookup c ρ) with
  | error e => simp [hs, hp, bind, Except.bind] at h
  | ok p =>
  cases ho : materializeTemplate env.cfg k v (some r.objectTermtype) (litDatatype r) a (fun c => lookup c ρ) with
  | error e => simp [hs, hp, ho, bind, Except.bind] at h
  | ok o =>
  simp only [hs, hp, ho, bind, Except.bind] at h
  have tail : ∀ t : Str, (if r.graphMapValue ≠ env.defaultGraph then
            Except.bind (materializeTemplate env.cfg r.graphMapType r.graphMapValue (some TermType.iri) [] [] fun c => lookup c ρ)
              (fun v_1 => (Except.ok (s ++ [' '] ++ p ++ [' '] ++ t ++ [' '] ++ v_1) : Except MatErr Str))
          else Except.ok (s ++ [' '] ++ p ++ [' '] ++ t ++ [' '])) = Except.ok line →
        ∃ g, GraphTerm env r (fun c => lookup c ρ) g ∧ line = s ++ [' '] ++ p ++ [' '] ++ t ++ [' '] ++ g := by
    intro t ht
    by_cases hg : r.graphMapValue ≠ env.defaultGraph
    · rw [if_pos hg] at ht
      cases hgm : materializeTemplate env.cfg r.graphMapType r.graphMapValue (some TermType.iri) [] [] fun c => lookup c ρ with
      | error e => simp [hgm, Except.bind] at ht
      | ok g =>
        simp only [hgm, Except.bind, Except.ok.injEq] at ht
        exact ⟨g, by unfold GraphTerm; rw [if_pos hg]; exact hgm, ht.symm⟩
    · rw [if_neg hg] at ht
      simp only [Except.ok.injEq] at ht
      exact ⟨[], by unfold GraphTerm; rw [if_neg hg], by rw [← ht]; simp⟩
  split at h
  · rename_i mt hld hmt
    cases hl : materializeTemplate env.cfg mt r.langDatatypeMapValue none [] [] fun c => lookup c ρ with
    | error e => simp [hl] at h
    | ok l =>
      simp only [hl, pure, Except.pure] at h
      obtain ⟨g, hg, hline⟩ := tail _ h
      refine ⟨s, p, o, ['@'] ++ l, g, rfl, rfl, rfl, ?_, hg, by rw [hline]; simp⟩
      unfold LangSuffix; rw [hld, hmt]; exact ⟨l, hl, rfl⟩
  · rename_i mt hld hmt
    cases hl : materializeTemplate env.cfg mt r.langDatatypeMapValue (some .iri) [] [] fun c => lookup c ρ with
    | error e => simp [hl] at h
    | ok l =>
      simp only [hl, pure, Except.pure] at h
      obtain ⟨g, hg, hline⟩ := tail _ h
      refine ⟨s, p, o, ['^', '^'] ++ l, g, rfl, rfl, rfl, ?_, hg, by rw [hline]; simp⟩
      unfold LangSuffix; rw [hld, hmt]; exact ⟨l, hl, rfl⟩
  · rename_i h1 h2
    simp only [pure, Except.pure] at h
    obtain ⟨g, hg, hline⟩ := tail _ h
    refine ⟨s, p, o, [], g, rfl, rfl, rfl, ?_, hg, by rw [hline]; simp⟩
    unfold LangSuffix
    split
    · rename_i mt' e1 e2; exact absurd e2 (h1 mt' e1)
    · rename_i mt' e1 e2; exact absurd e2 (h2 mt' e1)
    · rfl

/-- a string splits uniquely at the first occurrence of a character -/
theorem split_first {x₁ x₂ r₁ r₂ : Str} {c : Char} (h : x₁ ++ c :: r₁ = x₂ ++ c :: r₂) (h1 : c ∉ x₁) (h2 : c ∉ x₂) :
    x₁ = x₂ ∧ r₁ = r₂ := by
  induction x₁ generalizing x₂ with
  | nil =>
    cases x₂ with
    | nil => simpa using h
    | cons e x₂ =>
      simp only [List.nil_append, List.cons_append, List.cons.injEq] at h
      exact absurd (by rw [h.1]; simp) h2
  | cons d x₁ ih =>
    cases x₂ with
    | nil =>
      simp only [List.nil_append, List.cons_append, List.cons.injEq] at h
      exact absurd (by rw [← h.1]; simp) h1
    | cons e x₂ =>
      simp only [List.cons_append, List.cons.injEq] at h
      obtain ⟨e1, e2⟩ := ih h.2 (fun hm => h1 (List.mem_cons_of_mem _ hm)) (fun hm => h2 (List.mem_cons_of_mem _ hm))
      exact ⟨by rw [h.1, e1], e2⟩

/-- … and at the last occurrence -/
theorem split_last {x₁ x₂ g₁ g₂ : Str} {c : Char} (h : x₁ ++ c :: g₁ = x₂ ++ c :: g₂) (h1 : c ∉ g₁) (h2 : c ∉ g₂) :
    x₁ = x₂ ∧ g₁ = g₂ := by
  have hr := congrArg List.reverse h
  simp only [List.reverse_append, List.reverse_cons, List.append_assoc, List.singleton_append] at hr
  obtain ⟨e1, e2⟩ := split_first hr (by simpa using h1) (by simpa using h2)
  exact ⟨List.reverse_inj.mp e2, List.reverse_inj.mp e1⟩

/-- the term map that fills the object position: the rule's own object map, or the subject map of the join parent -/
def objMapOf (rules : List Rule) (r : Rule) : MapType × Str × Str :=
  if r.objectMapType = .parentTM then
    match findRule rules r.objectMapValue with
    | some parent => (parent.subjectMapType, parent.subjectMapValue, "parent_".toList)
    | none => (r.objectMapType, r.objectMapValue, [])
  else (r.objectMapType, r.objectMapValue, [])

theorem mapM_ok_mem {α β ε : Type} (f : α → Except ε β) (l : List α) (ys : List β) (h : l.mapM f = .ok ys) :
    ∀ y ∈ ys, ∃ x ∈ l, f x = .ok y := by
  induction l generalizing ys with
  | nil => rw [mapM_except_nil] at h; cases h; intro y hy; cases hy
  | cons a l ih =>
    rw [mapM_except_cons] at h
    cases ha : f a with
    | error e => simp [ha] at h
    | ok b =>
      cases hl : l.mapM f with
      | error e => simp [ha, hl] at h
      | ok zs =>
        simp only [ha, hl, Except.ok.injEq] at h
        subst h
        intro y hy
        rcases List.mem_cons.mp hy with rfl | hy
        · exact ⟨a, by simp, ha⟩
        · obtain ⟨x, hx, hfx⟩ := ih zs hl y hy
          exact ⟨x, List.mem_cons_of_mem _ hx, hfx⟩

/-- every statement of a rule is `rowTriple` of some row, with the effective object map -/
theorem evalRule_mem (env : Env) (rules : List Rule) (r : Rule) (out : List Str) (h : evalRule env rules r = .ok out) :
    ∀ x ∈ out, ∃ ρ, rowTriple env r (objMapOf rules r).1 (objMapOf rules r).2.1 (objMapOf rules r).2.2 ρ = .ok x := by
  unfold evalRule at h
  split at h
  · rename_i hc
    have hm : r.objectMapType = .constant := by
      simp only [isAllConstant, Bool.and_eq_true, decide_eq_true_eq] at hc; exact hc.1.2
    cases ht : rowTriple env r r.objectMapType r.objectMapValue [] [] with
    | error e => simp [ht, bind, Except.bind] at h
    | ok t =>
      simp only [ht, bind, Except.bind, pure, Except.pure, Except.ok.injEq] at h
      subst h
      intro x hx
      simp only [List.mem_singleton] at hx
      subst hx
      exact ⟨[], by simp only [objMapOf, hm, reduceCtorEq, ↓reduceIte]; rw [← hm]; exact ht⟩
  · split at h
    · rename_i hptm
      cases hf : findRule rules r.objectMapValue with
      | none => simp [hf] at h
      | some parent =>
        simp only [hf] at h
        cases hd : preprocess env.na (refsOfRule r) (env.table r) with
        | error e => simp [hd, bind, Except.bind] at h
        | ok data =>
          cases hpd : preprocess env.na (refsOfRule parent true ++ r.objectJoin.map (·.2)) (env.table parent) with
          | error e => simp [hd, hpd, bind, Except.bind] at h
          | ok pdata =>
            simp only [hd, hpd, bind, Except.bind] at h
            intro x hx
            obtain ⟨ρ, _, hρ⟩ := mapM_ok_mem _ _ _ h x hx
            exact ⟨ρ, by simp only [objMapOf, hptm, ↓reduceIte, hf]; exact hρ⟩
    · rename_i hptm
      cases hd : preprocess env.na (refsOfRule r) (env.table r) with
      | error e => simp [hd, bind, Except.bind] at h
      | ok data =>
        simp only [hd, bind, Except.bind] at h
        intro x hx
        obtain ⟨ρ, _, hρ⟩ := mapM_ok_mem _ _ _ h x hx
        exact ⟨ρ, by simp only [objMapOf, hptm, ↓reduceIte]; exact hρ⟩

/-- the partitioner's object invariant is the invariant of the effective object map -/
theorem objInv_objMapOf (rules : List Rule) (r : Rule) (o : Str) (h : objInv rules r = .ok o) :
    invOf (objMapOf rules r).1 (objMapOf rules r).2.1 = .ok o := by
  unfold objInv at h
  unfold objMapOf
  by_cases hm : r.objectMapType = .parentTM
  · simp only [hm, ↓reduceIte] at h ⊢
    change (match findRule rules r.objectMapValue with
      | some parent => invOf parent.subjectMapType parent.subjectMapValue
      | none => Except.error (PartErr.noParent r.objectMapValue)) = Except.ok o at h
    cases hf : findRule rules r.objectMapValue with
    | none => simp [hf] at h
    | some parent => simpa [hf] using h
  · simp only [hm, ↓reduceIte]
    cases hk : r.objectMapType <;> simp_all

/-- What the proof needs of a rule.  `clean*`: no escapes in constant/template maps (otherwise the rendered term need
    not start with the invariant, see `C01_F1`); `space*`: the rendered subject, predicate and graph contain no space
    (true for template-valued IRIs, false for reference-valued ones, `C05_F1`); `lang*`: language/datatype only on
    literals, well-formed, and rendered without a double quote. -/
structure TokenSafe (env : Env) (rules : List Rule) (r : Rule) : Prop where
  noStarS : r.subjectTermtype ≠ .star
  noStarO : r.objectTermtype ≠ .star
  cleanS : CleanMap r.subjectMapType r.subjectMapValue
  cleanP : CleanMap r.predicateMapType r.predicateMapValue
  cleanO : CleanMap (objMapOf rules r).1 (objMapOf rules r).2.1
  cleanG : CleanMap r.graphMapType r.graphMapValue
  spaceS : ∀ row t, materializeTemplate env.cfg r.subjectMapType r.subjectMapValue (some r.subjectTermtype) [] [] row = .ok t → ' ' ∉ t
  spaceP : ∀ row t, materializeTemplate env.cfg r.predicateMapType r.predicateMapValue (some .iri) [] [] row = .ok t → ' ' ∉ t
  spaceG : ∀ row t, materializeTemplate env.cfg r.graphMapType r.graphMapValue (some .iri) [] [] row = .ok t → ' ' ∉ t
  langOnLiteral : r.objectTermtype ≠ .literal → r.langDatatype = none
  langWF : r.langDatatype.isSome = r.langDatatypeMapType.isSome
  langClean : ∀ mt, r.langDatatypeMapType = some mt → mt ≠ .reference → mt ≠ .template →
    '\\' ∉ r.langDatatypeMapValue ∧ '{' ∉ r.langDatatypeMapValue
  langQuote : ∀ row sfx, LangSuffix env r row sfx → '"' ∉ sfx

/-- two IRI terms whose maps are separated by the predicate/graph scan differ, whatever the rows -/
theorem iriTerm_ne (cfg : TermCfg) (enf : Bool) (k₁ k₂ : MapType) (v₁ v₂ inv₁ inv₂ : Str)
    (c₁ : CleanMap k₁ v₁) (c₂ : CleanMap k₂ v₂) (hi₁ : invOf k₁ v₁ = .ok inv₁) (hi₂ : invOf k₂ v₂ = .ok inv₂)
    (hun : Unrel (relOf enf) inv₁ inv₂) (henf : enf = true → k₁ = .constant ∧ k₂ = .constant)
    (row₁ row₂ : Str → Option Str) (t₁ t₂ : Str)
    (h1 : materializeTemplate cfg k₁ v₁ (some .iri) [] [] row₁ = .ok t₁)
    (h2 : materializeTemplate cfg k₂ v₂ (some .iri) [] [] row₂ = .ok t₂) : t₁ ≠ t₂ := by
  cases enf with
  | false =>
    obtain ⟨r₁, e₁⟩ := render_prefix _ _ _ _ _ _ _ _ _ c₁ hi₁ h1
    obtain ⟨r₂, e₂⟩ := render_prefix _ _ _ _ _ _ _ _ _ c₂ hi₂ h2
    rw [e₁, e₂]
    exact wrapTerm_ne_of_incomp _ hun.1 hun.2
  | true =>
    obtain ⟨rfl, rfl⟩ := henf rfl
    rw [render_noref cfg .constant (by decide) v₁ _ _ _ _ (c₁.2 rfl).1 (c₁.2 rfl).2] at h1
    rw [render_noref cfg .constant (by decide) v₂ _ _ _ _ (c₂.2 rfl).1 (c₂.2 rfl).2] at h2
    simp only [Except.ok.injEq] at h1 h2
    simp only [invOf, Except.ok.injEq] at hi₁ hi₂
    subst hi₁ hi₂ h1 h2
    intro e
    exact (unrel_relOf_true.mp hun) (wrapTerm_injective _ e)

theorem subj_ne (env : Env) (rules : List Rule) (r₁ r₂ : Rule) (a b : PRule) (i j : Nat)
    (ha : RowOf rules i r₁ a) (hb : RowOf rules j r₂ b) (t₁ : TokenSafe env rules r₁) (t₂ : TokenSafe env rules r₂)
    (hsep : SepS a b) (row₁ row₂ : Str → Option Str) (s₁ s₂ : Str)
    (h1 : materializeTemplate env.cfg r₁.subjectMapType r₁.subjectMapValue (some r₁.subjectTermtype) [] [] row₁ = .ok s₁)
    (h2 : materializeTemplate env.cfg r₂.subjectMapType r₂.subjectMapValue (some r₂.subjectTermtype) [] [] row₂ = .ok s₂) :
    s₁ ≠ s₂ := by
  unfold SepS at hsep
  rw [ha.rule, hb.rule] at hsep
  obtain ⟨q₁, e₁⟩ := render_prefix _ _ _ _ _ _ _ _ _ t₁.cleanS ha.s h1
  obtain ⟨q₂, e₂⟩ := render_prefix _ _ _ _ _ _ _ _ _ t₂.cleanS hb.s h2
  rw [e₁, e₂]
  by_cases htt : r₁.subjectTermtype = r₂.subjectTermtype
  · rcases hsep with ⟨h, h'⟩ | ⟨h, h'⟩ | ⟨_, _, hinc⟩
    · exact absurd (htt ▸ h) h'
    · exact absurd (htt ▸ h') h
    · rw [htt]; exact wrapTerm_ne_of_incomp _ hinc.1 hinc.2
  · exact wrapTerm_ne_of_type htt t₁.noStarS t₂.noStarS _ _

theorem graphTerm_nospace (env : Env) (rules : List Rule) (r : Rule) (t : TokenSafe env rules r)
    (row : Str → Option Str) (g : Str) (h : GraphTerm env r row g) : ' ' ∉ g := by
  unfold GraphTerm at h
  split at h
  · exact t.spaceG _ _ h
  · subst h; simp

theorem graph_ne (env : Env) (rules : List Rule) (rs : List PRule) (r₁ r₂ : Rule) (a b : PRule) (i j : Nat)
    (ha : RowOf rules i r₁ a) (hb : RowOf rules j r₂ b) (t₁ : TokenSafe env rules r₁) (t₂ : TokenSafe env rules r₂)
    (hsep : SepG rs a b)
    (henf : enforceFor .G rs = true → r₁.graphMapType = .constant ∧ r₂.graphMapType = .constant)
    (row₁ row₂ : Str → Option Str) (g₁ g₂ : Str)
    (h1 : GraphTerm env r₁ row₁ g₁) (h2 : GraphTerm env r₂ row₂ g₂) : g₁ ≠ g₂ := by
  unfold GraphTerm at h1 h2
  unfold SepG at hsep
  by_cases d₁ : r₁.graphMapValue ≠ env.defaultGraph <;> by_cases d₂ : r₂.graphMapValue ≠ env.defaultGraph
  · rw [if_pos d₁] at h1; rw [if_pos d₂] at h2
    exact iriTerm_ne _ _ _ _ _ _ _ _ t₁.cleanG t₂.cleanG ha.g hb.g hsep henf _ _ _ _ h1 h2
  · rw [if_pos d₁] at h1; rw [if_neg d₂] at h2
    obtain ⟨u, _, rfl⟩ := materializeTemplate_ok h1
    subst h2; simp [wrapTerm]
  · rw [if_neg d₁] at h1; rw [if_pos d₂] at h2
    obtain ⟨u, _, rfl⟩ := materializeTemplate_ok h2
    subst h1; simp [wrapTerm]
  · -- both maps name the default graph: their invariants are prefixes of one string, hence related
    exfalso
    have e₁ : r₁.graphMapValue = env.defaultGraph := Decidable.not_not.mp d₁
    have e₂ : r₂.graphMapValue = env.defaultGraph := Decidable.not_not.mp d₂
    have p₁ := invOf_prefix t₁.cleanG ha.g
    have p₂ := invOf_prefix t₂.cleanG hb.g
    rw [e₁] at p₁; rw [e₂] at p₂
    cases hE : enforceFor .G rs with
    | false =>
      rw [hE] at hsep
      rcases List.prefix_or_prefix_of_prefix p₁ p₂ with p | p
      · have : startsWith b.gInv a.gInv = true := List.isPrefixOf_iff_prefix.mpr p
        have h' := hsep.2; simp only [relOf] at h'; rw [this] at h'; cases h'
      · have : startsWith a.gInv b.gInv = true := List.isPrefixOf_iff_prefix.mpr p
        have h' := hsep.1; simp only [relOf] at h'; rw [this] at h'; cases h'
    | true =>
      rw [hE] at hsep
      obtain ⟨k₁, k₂⟩ := henf hE
      have g₁' := ha.g; have g₂' := hb.g
      rw [k₁] at g₁'; rw [k₂] at g₂'
      simp only [invOf, Except.ok.injEq] at g₁' g₂'
      exact (unrel_relOf_true.mp hsep) (by rw [← g₁', ← g₂', e₁, e₂])

theorem langSuffix_cases (env : Env) (r : Rule) (row : Str → Option Str) (sfx : Str)
    (hwf : r.langDatatype.isSome = r.langDatatypeMapType.isSome) (h : LangSuffix env r row sfx) :
    (r.langDatatype = none ∧ sfx = []) ∨
    (r.langDatatype = some .languageMap ∧ ∃ mt l, r.langDatatypeMapType = some mt ∧
      materializeTemplate env.cfg mt r.langDatatypeMapValue none [] [] row = .ok l ∧ sfx = '@' :: l) ∨
    (r.langDatatype = some .datatypeMap ∧ ∃ mt d, r.langDatatypeMapType = some mt ∧
      materializeTemplate env.cfg mt r.langDatatypeMapValue (some .iri) [] [] row = .ok d ∧ sfx = '^' :: '^' :: d) := by
  unfold LangSuffix at h
  cases hld : r.langDatatype with
  | none => left; simp only [hld] at h; exact ⟨rfl, h⟩
  | some k =>
    cases hmt : r.langDatatypeMapType with
    | none => rw [hld, hmt] at hwf; cases hwf
    | some mt =>
      cases k with
      | languageMap =>
        right; left
        simp only [hld, hmt] at h
        obtain ⟨l, hl, rfl⟩ := h
        exact ⟨rfl, mt, l, rfl, hl, rfl⟩
      | datatypeMap =>
        right; right
        simp only [hld, hmt] at h
        obtain ⟨l, hl, rfl⟩ := h
        exact ⟨rfl, mt, l, rfl, hl, rfl⟩

theorem wrapTerm_append_ne_of_type {t₁ t₂ : TermType} (h : t₁ ≠ t₂) (hs₁ : t₁ ≠ .star) (hs₂ : t₂ ≠ .star)
    (x y u w : Str) : wrapTerm (some t₁) x ++ u ≠ wrapTerm (some t₂) y ++ w := by
  cases t₁ <;> cases t₂ <;> simp_all [wrapTerm]

theorem not_dynamic (rules : List Rule) (h : dynamicLit rules = false) (r : Rule) (hr : r ∈ rules) :
    r.langDatatypeMapType ≠ some .reference ∧ r.langDatatypeMapType ≠ some .template := by
  unfold dynamicLit at h
  rw [List.any_eq_false] at h
  have := h r hr
  simpa using this

/-- the language/datatype suffix of a rule with a non-dynamic map is the constant itself -/
theorem suffix_value (env : Env) (rules : List Rule) (r : Rule) (t : TokenSafe env rules r) (hr : r ∈ rules)
    (hd : dynamicLit rules = false) (mt : MapType) (hmt : r.langDatatypeMapType = some mt) (tt : Option TermType)
    (row : Str → Option Str) (l : Str)
    (h : materializeTemplate env.cfg mt r.langDatatypeMapValue tt [] [] row = .ok l) :
    l = wrapTerm tt r.langDatatypeMapValue := by
  obtain ⟨n1, n2⟩ := not_dynamic rules hd r hr
  have hk : mt ≠ .reference := by intro e; rw [hmt, e] at n1; exact n1 rfl
  have hk' : mt ≠ .template := by intro e; rw [hmt, e] at n2; exact n2 rfl
  obtain ⟨c1, c2⟩ := t.langClean mt hmt hk hk'
  rw [render_noref env.cfg mt hk _ _ _ _ _ c1 c2] at h
  simp only [Except.ok.injEq] at h
  exact h.symm

theorem obj_ne (env : Env) (rules : List Rule) (r₁ r₂ : Rule) (hr₁ : r₁ ∈ rules) (hr₂ : r₂ ∈ rules) (a b : PRule)
    (i j : Nat) (ha : RowOf rules i r₁ a) (hb : RowOf rules j r₂ b)
    (t₁ : TokenSafe env rules r₁) (t₂ : TokenSafe env rules r₂) (hsep : SepO a b)
    (row₁ row₂ : Str → Option Str) (dt₁ dt₂ o₁ o₂ sfx₁ sfx₂ : Str)
    (h1 : materializeTemplate env.cfg (objMapOf rules r₁).1 (objMapOf rules r₁).2.1 (some r₁.objectTermtype) dt₁
      (objMapOf rules r₁).2.2 row₁ = .ok o₁)
    (h2 : materializeTemplate env.cfg (objMapOf rules r₂).1 (objMapOf rules r₂).2.1 (some r₂.objectTermtype) dt₂
      (objMapOf rules r₂).2.2 row₂ = .ok o₂)
    (l1 : LangSuffix env r₁ row₁ sfx₁) (l2 : LangSuffix env r₂ row₂ sfx₂) : o₁ ++ sfx₁ ≠ o₂ ++ sfx₂ := by
  unfold SepO at hsep
  rw [ha.rule, hb.rule] at hsep
  rcases hsep with htt | ⟨hl₁, hl₂, hlit⟩ | ⟨htt, hnl, _, hinc⟩
  · obtain ⟨u₁, _, rfl⟩ := materializeTemplate_ok h1
    obtain ⟨u₂, _, rfl⟩ := materializeTemplate_ok h2
    exact wrapTerm_append_ne_of_type htt t₁.noStarO t₂.noStarO _ _ _ _
  · -- two literals of different `literal_type`
    obtain ⟨u₁, _, rfl⟩ := materializeTemplate_ok h1
    obtain ⟨u₂, _, rfl⟩ := materializeTemplate_ok h2
    rw [hl₁, hl₂]
    intro e
    have e' : ('"' :: u₁) ++ '"' :: sfx₁ = ('"' :: u₂) ++ '"' :: sfx₂ := by simpa [wrapTerm] using e
    obtain ⟨_, esfx⟩ := split_last e' (t₁.langQuote _ _ l1) (t₂.langQuote _ _ l2)
    apply hlit
    rw [ha.lit, hb.lit]
    unfold litTypeOf
    rcases langSuffix_cases env r₁ row₁ sfx₁ t₁.langWF l1 with ⟨k₁, s₁⟩ | ⟨k₁, mt₁, x₁, m₁, hx₁, s₁⟩ | ⟨k₁, mt₁, x₁, m₁, hx₁, s₁⟩ <;>
    rcases langSuffix_cases env r₂ row₂ sfx₂ t₂.langWF l2 with ⟨k₂, s₂⟩ | ⟨k₂, mt₂, x₂, m₂, hx₂, s₂⟩ | ⟨k₂, mt₂, x₂, m₂, hx₂, s₂⟩ <;>
    (subst s₁ s₂; simp at esfx)
    · simp [k₁, k₂]
    · cases hd : dynamicLit rules with
      | true => simp [k₁, k₂]
      | false =>
        have v₁ := suffix_value env rules r₁ t₁ hr₁ hd mt₁ m₁ _ _ _ hx₁
        have v₂ := suffix_value env rules r₂ t₂ hr₂ hd mt₂ m₂ _ _ _ hx₂
        have : r₁.langDatatypeMapValue = r₂.langDatatypeMapValue := by
          have := esfx; rw [v₁, v₂] at this; exact wrapTerm_injective _ (by simpa using this)
        simp [k₁, k₂, this]
    · cases hd : dynamicLit rules with
      | true => simp [k₁, k₂]
      | false =>
        have v₁ := suffix_value env rules r₁ t₁ hr₁ hd mt₁ m₁ _ _ _ hx₁
        have v₂ := suffix_value env rules r₂ t₂ hr₂ hd mt₂ m₂ _ _ _ hx₂
        have : r₁.langDatatypeMapValue = r₂.langDatatypeMapValue := by
          have := esfx; rw [v₁, v₂] at this; exact wrapTerm_injective _ (by simpa using this)
        simp [k₁, k₂, this]
  · -- same non-literal type: no suffix, prefix-incomparable invariants
    have n₁ := t₁.langOnLiteral hnl
    have n₂ := t₂.langOnLiteral (htt ▸ hnl)
    have s₁ : sfx₁ = [] := by
      rcases langSuffix_cases env r₁ row₁ sfx₁ t₁.langWF l1 with ⟨_, s⟩ | ⟨k, _⟩ | ⟨k, _⟩
      · exact s
      · rw [n₁] at k; cases k
      · rw [n₁] at k; cases k
    have s₂ : sfx₂ = [] := by
      rcases langSuffix_cases env r₂ row₂ sfx₂ t₂.langWF l2 with ⟨_, s⟩ | ⟨k, _⟩ | ⟨k, _⟩
      · exact s
      · rw [n₂] at k; cases k
      · rw [n₂] at k; cases k
    subst s₁ s₂
    obtain ⟨q₁, e₁⟩ := render_prefix _ _ _ _ _ _ _ _ _ t₁.cleanO (objInv_objMapOf rules r₁ _ ha.o) h1
    obtain ⟨q₂, e₂⟩ := render_prefix _ _ _ _ _ _ _ _ _ t₂.cleanO (objInv_objMapOf rules r₂ _ hb.o) h2
    rw [e₁, e₂, htt, List.append_nil, List.append_nil]
    exact wrapTerm_ne_of_incomp _ hinc.1 hinc.2

/-- separated, token-safe rules never print the same N-QUADS line, whatever the two rows -/
theorem lines_ne (env : Env) (hf : env.fmt = .nquads) (rules : List Rule) (rs : List PRule)
    (hrs : termInvariants rules = .ok rs) (r₁ r₂ : Rule) (hr₁ : r₁ ∈ rules) (hr₂ : r₂ ∈ rules) (a b : PRule) (i j : Nat)
    (ha : RowOf rules i r₁ a) (hb : RowOf rules j r₂ b) (t₁ : TokenSafe env rules r₁) (t₂ : TokenSafe env rules r₂)
    (hsep : Separated rs a b) (ρ₁ ρ₂ : SRow) (x y : Str)
    (h1 : rowTriple env r₁ (objMapOf rules r₁).1 (objMapOf rules r₁).2.1 (objMapOf rules r₁).2.2 ρ₁ = .ok x)
    (h2 : rowTriple env r₂ (objMapOf rules r₂).1 (objMapOf rules r₂).2.1 (objMapOf rules r₂).2.2 ρ₂ = .ok y) : x ≠ y := by
  obtain ⟨s₁, p₁, o₁, sfx₁, g₁, hs1, hp1, ho1, hl1, hg1, e1⟩ := rowTriple_nquads env hf _ _ _ _ _ _ h1
  obtain ⟨s₂, p₂, o₂, sfx₂, g₂, hs2, hp2, ho2, hl2, hg2, e2⟩ := rowTriple_nquads env hf _ _ _ _ _ _ h2
  intro exy
  have e : s₁ ++ ' ' :: (p₁ ++ ' ' :: ((o₁ ++ sfx₁) ++ ' ' :: g₁)) = s₂ ++ ' ' :: (p₂ ++ ' ' :: ((o₂ ++ sfx₂) ++ ' ' :: g₂)) := by
    have := e1.symm.trans (exy.trans e2)
    simpa using this
  obtain ⟨es, e'⟩ := split_first e (t₁.spaceS _ _ hs1) (t₂.spaceS _ _ hs2)
  obtain ⟨ep, e''⟩ := split_first e' (t₁.spaceP _ _ hp1) (t₂.spaceP _ _ hp2)
  obtain ⟨eo, eg⟩ := split_last e'' (graphTerm_nospace env rules r₁ t₁ _ _ hg1) (graphTerm_nospace env rules r₂ t₂ _ _ hg2)
  have hall : ∀ (P : Rule → Prop) [DecidablePred P], rules.all (fun r => decide (P r)) = true → P r₁ ∧ P r₂ := by
    intro P _ h
    rw [List.all_eq_true] at h
    exact ⟨by simpa using h r₁ hr₁, by simpa using h r₂ hr₂⟩
  rcases hsep with h | h | h | h
  · exact subj_ne env rules r₁ r₂ a b i j ha hb t₁ t₂ h _ _ _ _ hs1 hs2 es
  · refine iriTerm_ne _ _ _ _ _ _ _ _ t₁.cleanP t₂.cleanP ha.p hb.p h ?_ _ _ _ _ hp1 hp2 ep
    intro henf
    rw [enforceFor_P_rules rules rs hrs] at henf
    exact hall (fun r => r.predicateMapType = .constant) henf
  · exact obj_ne env rules r₁ r₂ hr₁ hr₂ a b i j ha hb t₁ t₂ h _ _ _ _ _ _ _ _ ho1 ho2 hl1 hl2 eo
  · refine graph_ne env rules rs r₁ r₂ a b i j ha hb t₁ t₂ h ?_ _ _ _ _ hg1 hg2 eg
    intro henf
    rw [enforceFor_G_rules rules rs hrs] at henf
    exact hall (fun r => r.graphMapType = .constant) henf

/-- **C03 (PARTIAL-AGGREGATIONS, N-QUADS).** Two token-safe rules that received different labels produce disjoint sets of
    statements — for every content of the data sources (`env` is arbitrary). -/
theorem C03_disjoint_partial (env : Env) (hf : env.fmt = .nquads) (rules : List Rule) (ls : List Str)
    (hp : partitionLabels .partialAggregations rules = .ok ls)
    (hsafe : ∀ r ∈ rules, TokenSafe env rules r)
    (i j : Nat) (hi : i < rules.length) (hj : j < rules.length) (hne : ls[i]? ≠ ls[j]?)
    (out₁ out₂ : List Str) (h₁ : evalRule env rules rules[i] = .ok out₁) (h₂ : evalRule env rules rules[j] = .ok out₂) :
    ∀ x ∈ out₁, x ∉ out₂ := by
  intro x hx hx'
  obtain ⟨rs, a, b, hrs, _, _, hra, hrb, hsep⟩ := C03_partial_separation rules ls hp
    (fun r hr => (hsafe r hr).langOnLiteral) i j hi hj hne
  obtain ⟨ρ₁, hρ₁⟩ := evalRule_mem env rules _ _ h₁ x hx
  obtain ⟨ρ₂, hρ₂⟩ := evalRule_mem env rules _ _ h₂ x hx'
  have m₁ : rules[i] ∈ rules := List.getElem_mem hi
  have m₂ : rules[j] ∈ rules := List.getElem_mem hj
  exact lines_ne env hf rules rs hrs _ _ m₁ m₂ a b i j hra hrb (hsafe _ m₁) (hsafe _ m₂) hsep ρ₁ ρ₂ x x hρ₁ hρ₂ rfl

/-! ### B6: MAXIMAL -/

theorem separated_of_sepAt (rs : List PRule) (pos : Pos) (a b : PRule)
    (h : SepAt (enforceFor .P rs) (enforceFor .G rs) pos a b) : Separated rs a b := by
  cases pos with
  | S => exact Or.inl h
  | P => exact Or.inr (Or.inl h)
  | O => exact Or.inr (Or.inr (Or.inl h))
  | G => exact Or.inr (Or.inr (Or.inr h))

/-- rows of `_get_term_invariants` to which MAXIMAL gives different labels are separated -/
theorem maximal_rows_separated (rs : List PRule) (hnd : (rs.map (·.idx)).Nodup) (hlab : ∀ r ∈ rs, r.label = [])
    (hO : ∀ r ∈ rs, r.rule.objectTermtype ≠ .literal → r.litType = none)
    (a b : PRule) (ha : a ∈ rs) (hb : b ∈ rs)
    (hne : componentOf (maximal rs) a.idx ≠ componentOf (maximal rs) b.idx) : Separated rs a b := by
  obtain ⟨o, _, hmax⟩ := maximal_eq rs
  have h0 : LabelsSeparate (enforceFor .P rs) (enforceFor .G rs) rs := by
    intro x hx y hy hxy
    exact absurd ((hlab x hx).trans (hlab y hy).symm) hxy
  obtain ⟨hsep, hcore⟩ := maximalFor_labelsSeparate o rs hO h0
  have hperm := (maximalFor_spec o rs 0 (fun _ _ => Nat.zero_le _)).1
  have hnd' : ((maximal rs).map (·.1)).Nodup := by
    rw [hmax, List.map_map]
    exact hperm.nodup_iff.mpr hnd
  -- the row of the winning run with a given index
  have row : ∀ r ∈ rs, ∃ r' ∈ maximalFor o rs, core r' = core r ∧ componentOf (maximal rs) r.idx = r'.label.drop 1 := by
    intro r hr
    have : r.idx ∈ (maximalFor o rs).map (·.idx) := hperm.mem_iff.mpr (List.mem_map.mpr ⟨r, hr, rfl⟩)
    obtain ⟨r', hr', hidx⟩ := List.mem_map.mp this
    obtain ⟨r0, hr0, e⟩ := hcore r' hr'
    have hidx0 : r0.idx = r.idx := by
      have : r'.idx = r0.idx := show (core r').idx = (core r0).idx from congrArg PRule.idx e
      rw [← this, hidx]
    have : r0 = r := by
      -- distinct indices
      have key : ∀ (l : List PRule), (l.map (·.idx)).Nodup → ∀ u ∈ l, ∀ v ∈ l, u.idx = v.idx → u = v := by
        intro l
        induction l with
        | nil => intro _ u hu; cases hu
        | cons w l ih =>
          intro hn u hu v hv huv
          rw [List.map_cons, List.nodup_cons] at hn
          rcases List.mem_cons.mp hu with hu' | hu' <;> rcases List.mem_cons.mp hv with hv' | hv'
          · rw [hu', hv']
          · exact absurd (List.mem_map.mpr ⟨v, hv', by rw [← huv, hu']⟩ : w.idx ∈ l.map (·.idx)) hn.1
          · exact absurd (List.mem_map.mpr ⟨u, hu', by rw [huv, hv']⟩ : w.idx ∈ l.map (·.idx)) hn.1
          · exact ih hn.2 u hu' v hv' huv
      exact key rs hnd r0 hr0 r hr hidx0
    subst this
    refine ⟨r', hr', e, ?_⟩
    apply componentOf_eq hnd'
    rw [hmax]
    exact List.mem_map.mpr ⟨r', hr', by rw [hidx]⟩
  obtain ⟨a', ha', ea, ca⟩ := row a ha
  obtain ⟨b', hb', eb, cb⟩ := row b hb
  rw [ca, cb] at hne
  have hl : a'.label ≠ b'.label := fun e => hne (by rw [e])
  obtain ⟨pos, hs⟩ := hsep a' ha' b' hb' hl
  apply separated_of_sepAt rs pos
  rw [← sepAt_core] at hs ⊢
  rw [ea, eb] at hs
  exact hs

/-- **B6.** The same separation for MAXIMAL (whatever the winning ordering). -/
theorem C03_maximal_separation (rules : List Rule) (ls : List Str)
    (hp : partitionLabels .maximal rules = .ok ls)
    (hO : ∀ r ∈ rules, r.objectTermtype ≠ .literal → r.langDatatype = none)
    (i j : Nat) (hi : i < rules.length) (hj : j < rules.length) (hne : ls[i]? ≠ ls[j]?) :
    ∃ rs a b, termInvariants rules = .ok rs ∧ a ∈ rs ∧ b ∈ rs ∧
      RowOf rules i rules[i] a ∧ RowOf rules j rules[j] b ∧ Separated rs a b := by
  unfold partitionLabels at hp
  cases ht : termInvariants rules with
  | error e => simp [ht, bind, Except.bind] at hp
  | ok rs =>
    simp only [ht, bind, Except.bind, pure, Except.pure, Except.ok.injEq] at hp
    subst hp
    obtain ⟨hidx, hrule, hrows⟩ := termInvariants_ok rules rs ht
    obtain ⟨a, ha, hra⟩ := row_of_index rules rs ht i hi
    obtain ⟨b, hb, hrb⟩ := row_of_index rules rs ht j hj
    have hnd : (rs.map (·.idx)).Nodup := by rw [hidx]; exact List.nodup_range
    have hO' : ∀ r ∈ rs, r.rule.objectTermtype ≠ .literal → r.litType = none := by
      intro r hr hlit
      obtain ⟨i', q, hz, hrow⟩ := hrows r hr
      have hq : q ∈ rules := (List.of_mem_zip hz).2
      rw [hrow.rule] at hlit
      rw [hrow.lit]
      have := hO q hq hlit
      simp [litTypeOf, this]
    have hlab : ∀ r ∈ rs, r.label = [] := by
      intro r hr
      obtain ⟨_, _, _, hrow⟩ := hrows r hr
      exact hrow.label
    refine ⟨rs, a, b, rfl, ha, hb, hra, hrb, maximal_rows_separated rs hnd hlab hO' a b ha hb ?_⟩
    rw [hra.idx, hrb.idx]
    intro e
    apply hne
    simp [hi, hj, e]

/-! ### syntactic conditions that imply `TokenSafe` -/

theorem pct_nospace (safe v : Str) (hs : ' ' ∉ safe) : ' ' ∉ pctEncode safe v := by
  intro h
  rcases pctEncode_alphabet safe v ' ' h with h | h | h | h
  · revert h; decide
  · exact hs (by simpa using h)
  · revert h; decide
  · revert h; decide

/-- a template-valued IRI without escapes and without a space in its fixed part contains no space: the values are
    percent-encoded -/
theorem iri_template_nospace (cfg : TermCfg) (value : Str) (hv : '\\' ∉ value) (hsp : ' ' ∉ value)
    (hsafe : ' ' ∉ cfg.safe) (dt alias : Str) (row : Str → Option Str) (t : Str)
    (h : materializeTemplate cfg .template value (some .iri) dt alias row = .ok t) : ' ' ∉ t := by
  obtain ⟨s, hs, rfl⟩ := materializeTemplate_ok h
  simp only [reduceCtorEq, ↓reduceIte, unescape_escapeFree hv] at hs
  have hc := loop_chars _ _ _ _ _ _ _ _ _ hs
  intro hmem
  simp only [wrapTerm, List.mem_append, List.mem_cons, List.mem_nil_iff, or_false, Char.reduceEq, false_or] at hmem
  rcases hc ' ' hmem with h | h | ⟨v, h⟩
  · cases h
  · exact hsp h
  · simp only [transformValue, decide_true, ↓reduceIte] at h
    exact pct_nospace _ _ hsafe h

theorem noref_nospace (cfg : TermCfg) (kind : MapType) (hk : kind ≠ .reference) (value : Str) (tt : TermType)
    (htt : tt ≠ .star) (h1 : '\\' ∉ value) (h2 : '{' ∉ value) (hsp : ' ' ∉ value)
    (dt alias : Str) (row : Str → Option Str) (t : Str)
    (h : materializeTemplate cfg kind value (some tt) dt alias row = .ok t) : ' ' ∉ t := by
  rw [render_noref cfg kind hk value _ _ _ _ h1 h2] at h
  simp only [Except.ok.injEq] at h
  subst h
  cases tt <;> simp_all [wrapTerm]

/-- a term map that can be shown token-safe from the mapping alone: a clean constant without space, or a clean
    template for an IRI without space in its fixed part -/
def SynMap (kind : MapType) (value : Str) (tt : TermType) : Prop :=
  (kind = .constant ∧ '\\' ∉ value ∧ '{' ∉ value ∧ ' ' ∉ value ∧ tt ≠ .star) ∨
  (kind = .template ∧ tt = .iri ∧ EscapeFree value ∧ ' ' ∉ value)

theorem SynMap.clean {kind : MapType} {value : Str} {tt : TermType} (h : SynMap kind value tt) : CleanMap kind value := by
  rcases h with ⟨rfl, a, b, _, _⟩ | ⟨rfl, _, a, _⟩
  · exact ⟨(by intro e; cases e), fun _ => ⟨a, b⟩⟩
  · exact ⟨fun _ => a, (by intro e; cases e)⟩

theorem SynMap.nospace {kind : MapType} {value : Str} {tt : TermType} (h : SynMap kind value tt) (cfg : TermCfg)
    (hsafe : ' ' ∉ cfg.safe) (dt alias : Str) (row : Str → Option Str) (t : Str)
    (hm : materializeTemplate cfg kind value (some tt) dt alias row = .ok t) : ' ' ∉ t := by
  rcases h with ⟨rfl, a, b, c, d⟩ | ⟨rfl, rfl, a, c⟩
  · exact noref_nospace cfg _ (by decide) value tt d a b c _ _ _ _ hm
  · exact iri_template_nospace cfg value a.1 c hsafe _ _ _ _ hm

/-- a rule that is token-safe by inspection of the mapping -/
structure SynSafe (env : Env) (rules : List Rule) (r : Rule) : Prop where
  safe : ' ' ∉ env.cfg.safe
  subj : SynMap r.subjectMapType r.subjectMapValue r.subjectTermtype
  pred : SynMap r.predicateMapType r.predicateMapValue .iri
  graph : SynMap r.graphMapType r.graphMapValue .iri
  obj : CleanMap (objMapOf rules r).1 (objMapOf rules r).2.1
  noStarO : r.objectTermtype ≠ .star
  /-- no language/datatype, or a constant one on a literal without quote, backslash or brace -/
  lang : (r.langDatatype = none ∧ r.langDatatypeMapType = none) ∨
    (r.objectTermtype = .literal ∧ r.langDatatype.isSome = true ∧ r.langDatatypeMapType = some .constant ∧
      '\\' ∉ r.langDatatypeMapValue ∧ '{' ∉ r.langDatatypeMapValue ∧ '"' ∉ r.langDatatypeMapValue)

theorem tokenSafe_of_synSafe (env : Env) (rules : List Rule) (r : Rule) (h : SynSafe env rules r) :
    TokenSafe env rules r where
  noStarS := by
    rcases h.subj with ⟨_, _, _, _, d⟩ | ⟨_, e, _⟩
    · exact d
    · rw [e]; decide
  noStarO := h.noStarO
  cleanS := h.subj.clean
  cleanP := h.pred.clean
  cleanO := h.obj
  cleanG := h.graph.clean
  spaceS := fun row t hm => h.subj.nospace env.cfg h.safe _ _ row t hm
  spaceP := fun row t hm => h.pred.nospace env.cfg h.safe _ _ row t hm
  spaceG := fun row t hm => h.graph.nospace env.cfg h.safe _ _ row t hm
  langOnLiteral := by
    intro hl
    rcases h.lang with ⟨a, _⟩ | ⟨a, _⟩
    · exact a
    · exact absurd a hl
  langWF := by
    rcases h.lang with ⟨a, b⟩ | ⟨_, a, b, _⟩
    · simp [a, b]
    · simp [a, b]
  langClean := by
    intro mt hmt _ _
    rcases h.lang with ⟨_, b⟩ | ⟨_, _, _, c, d, _⟩
    · rw [b] at hmt; cases hmt
    · exact ⟨c, d⟩
  langQuote := by
    intro row sfx hs
    rcases h.lang with ⟨a, b⟩ | ⟨_, a, b, c, d, e⟩
    · unfold LangSuffix at hs; rw [a, b] at hs; simp only at hs; subst hs; simp
    · unfold LangSuffix at hs
      cases hk : r.langDatatype with
      | none => rw [hk] at a; cases a
      | some k =>
        rw [hk, b] at hs
        cases k with
        | languageMap =>
          simp only at hs
          obtain ⟨l, hl, rfl⟩ := hs
          rw [render_noref env.cfg .constant (by decide) _ _ _ _ _ c d] at hl
          simp only [Except.ok.injEq] at hl
          subst hl
          simpa [wrapTerm] using e
        | datatypeMap =>
          simp only at hs
          obtain ⟨l, hl, rfl⟩ := hs
          rw [render_noref env.cfg .constant (by decide) _ _ _ _ _ c d] at hl
          simp only [Except.ok.injEq] at hl
          subst hl
          simpa [wrapTerm] using e

/-- **C03 with hypotheses that can be read off the mapping.** -/
theorem C03_disjoint_partial_syntactic (env : Env) (hf : env.fmt = .nquads) (rules : List Rule) (ls : List Str)
    (hp : partitionLabels .partialAggregations rules = .ok ls)
    (hsafe : ∀ r ∈ rules, SynSafe env rules r)
    (i j : Nat) (hi : i < rules.length) (hj : j < rules.length) (hne : ls[i]? ≠ ls[j]?)
    (out₁ out₂ : List Str) (h₁ : evalRule env rules rules[i] = .ok out₁) (h₂ : evalRule env rules rules[j] = .ok out₂) :
    ∀ x ∈ out₁, x ∉ out₂ :=
  C03_disjoint_partial env hf rules ls hp (fun r hr => tokenSafe_of_synSafe env rules r (hsafe r hr)) i j hi hj hne
    out₁ out₂ h₁ h₂

/-- **C03 (MAXIMAL, N-QUADS).** -/
theorem C03_disjoint_maximal (env : Env) (hf : env.fmt = .nquads) (rules : List Rule) (ls : List Str)
    (hp : partitionLabels .maximal rules = .ok ls)
    (hsafe : ∀ r ∈ rules, TokenSafe env rules r)
    (i j : Nat) (hi : i < rules.length) (hj : j < rules.length) (hne : ls[i]? ≠ ls[j]?)
    (out₁ out₂ : List Str) (h₁ : evalRule env rules rules[i] = .ok out₁) (h₂ : evalRule env rules rules[j] = .ok out₂) :
    ∀ x ∈ out₁, x ∉ out₂ := by
  intro x hx hx'
  obtain ⟨rs, a, b, hrs, _, _, hra, hrb, hsep⟩ := C03_maximal_separation rules ls hp
    (fun r hr => (hsafe r hr).langOnLiteral) i j hi hj hne
  obtain ⟨ρ₁, hρ₁⟩ := evalRule_mem env rules _ _ h₁ x hx
  obtain ⟨ρ₂, hρ₂⟩ := evalRule_mem env rules _ _ h₂ x hx'
  have m₁ : rules[i] ∈ rules := List.getElem_mem hi
  have m₂ : rules[j] ∈ rules := List.getElem_mem hj
  exact lines_ne env hf rules rs hrs _ _ m₁ m₂ a b i j hra hrb (hsafe _ m₁) (hsafe _ m₂) hsep ρ₁ ρ₂ x x hρ₁ hρ₂ rfl

/-- **C03**, both algorithms (with partitioning disabled there is one group and nothing to prove). -/
theorem C03_disjoint (env : Env) (hf : env.fmt = .nquads) (mode : PartMode) (rules : List Rule) (ls : List Str)
    (hp : partitionLabels mode rules = .ok ls)
    (hsafe : ∀ r ∈ rules, TokenSafe env rules r)
    (i j : Nat) (hi : i < rules.length) (hj : j < rules.length) (hne : ls[i]? ≠ ls[j]?)
    (out₁ out₂ : List Str) (h₁ : evalRule env rules rules[i] = .ok out₁) (h₂ : evalRule env rules rules[j] = .ok out₂) :
    ∀ x ∈ out₁, x ∉ out₂ := by
  cases mode with
  | none =>
    exfalso; apply hne
    simp only [partitionLabels, Except.ok.injEq] at hp
    subst hp
    simp [hi, hj]
  | partialAggregations => exact C03_disjoint_partial env hf rules ls hp hsafe i j hi hj hne out₁ out₂ h₁ h₂
  | maximal => exact C03_disjoint_maximal env hf rules ls hp hsafe i j hi hj hne out₁ out₂ h₁ h₂

/-! ### within a group: the accumulator is a Python set (regenerated from materializer.py on every run) -/

/-- what a group hands to its sink, as a function of the accumulator kind the translator found -/
def groupOut (acc : Gen.GroupAcc) (parts : List (List Str)) : List Str :=
  match acc with
  | .pySet => dedupFirst parts.flatten
  | .unknown => parts.flatten

/-- both sinks (`_materialize_mapping_group_to_set`, `_materialize_mapping_group_to_file`) accumulate into a set that is
    updated unconditionally; the file variant reports its cardinality -/
theorem C03_group_accumulator : Gen.groupAccToSet = .pySet ∧ Gen.groupAccToFile = .pySet ∧ Gen.groupSetTranslated = true := by
  decide

/-- hence, whatever the rules of a group produce (rows that collapse to one statement, rules that overlap), the group's
    output holds every statement exactly once, and `Model.evalGroup`'s `dedupFirst` is what the code does -/
theorem C03_group_no_duplicates (parts : List (List Str)) :
    (groupOut Gen.groupAccToFile parts).Nodup ∧ (groupOut Gen.groupAccToSet parts).Nodup ∧
    (∀ x, x ∈ groupOut Gen.groupAccToFile parts ↔ x ∈ parts.flatten) ∧
    groupOut Gen.groupAccToFile parts = dedupFirst parts.flatten := by
  have h := C03_group_accumulator
  rw [h.1, h.2.1]
  exact ⟨nodup_dedupFirst _, nodup_dedupFirst _, fun x => by simp [groupOut, mem_dedupFirst], rfl⟩

/-- counter-witness for any other accumulator: a list keeps the statement that two rows collapse to twice -/
theorem C03_group_list_counterwitness : ¬ (groupOut .unknown [[['a'], ['a']]]).Nodup := by decide

/-! ### the per-group outputs together have no duplicates -/

open Props.C02 in
theorem mem_withLabels_idx (rules : List Rule) (ls : List Str) (hl : ls.length = rules.length) (r' : Rule)
    (h : r' ∈ withLabels rules ls) :
    ∃ (i : Nat) (hi : i < rules.length) (hi' : i < ls.length), r' = relabel rules[i] ls[i] := by
  simp only [withLabels, List.mem_map] at h
  obtain ⟨p, hp, rfl⟩ := h
  obtain ⟨k, hk, he⟩ := List.mem_iff_getElem.mp hp
  simp only [List.length_zip] at hk
  refine ⟨k, by omega, by omega, ?_⟩
  rw [← he]; simp [relabel]

open Props.C02 in
/-- **C03_file_nodup.** Under N-QUADS, for token-safe rules that all evaluate, the lists of statements of the groups
    (each deduplicated, as `_materialize_mapping_group_to_set` returns it), concatenated in group order, contain no
    duplicate; so the result set is that concatenation and the sum of the per-group counts is its cardinality. -/
theorem C03_file_nodup (env : Env) (hf : env.fmt = .nquads) (mode : PartMode) (rules : List Rule) (ls : List Str)
    (hp : partitionLabels mode rules = .ok ls) (hsafe : ∀ r ∈ rules, TokenSafe env rules r)
    (hok : AllOk env rules) :
    ∃ groups, (dedupFirst (((withLabels rules ls).filter (·.asserted)).map (·.partition))).mapM
        (evalGroup env (withLabels rules ls)) = .ok groups ∧
      groups.flatten.Nodup ∧ evalGrouped env (withLabels rules ls) = .ok groups.flatten := by
  have hl := partitionLabels_length mode rules ls hp
  have hok' := (allOk_withLabels env rules ls hl).mpr hok
  have hg : ∀ l ∈ dedupFirst (((withLabels rules ls).filter (·.asserted)).map (·.partition)),
      ∃ g, evalGroup env (withLabels rules ls) l = .ok g :=
    fun l _ => let ⟨g, hg, _⟩ := evalGroup_ok env _ hok' l; ⟨g, hg⟩
  have hmap := mapM_ok_of_forall _ _ hg
  refine ⟨_, hmap, ?_⟩
  have hnd : (List.map (fun l => okVal (evalGroup env (withLabels rules ls) l))
      (dedupFirst (((withLabels rules ls).filter (·.asserted)).map (·.partition)))).flatten.Nodup := by
    unfold List.Nodup
    rw [List.pairwise_flatten]
    constructor
    · intro g hgm
      obtain ⟨l, _, rfl⟩ := List.mem_map.mp hgm
      unfold evalGroup
      have h' : ∀ r ∈ ((withLabels rules ls).filter (·.asserted)).filter (·.partition = l),
          ∃ out, evalRule env (withLabels rules ls) r = .ok out := fun r hr => hok' r (List.mem_filter.mp hr).1
      rw [mapM_ok_of_forall _ _ h']
      exact nodup_dedupFirst _
    · rw [List.pairwise_map]
      refine List.Pairwise.imp_of_mem (fun {l l'} _ _ hne => ?_) (nodup_dedupFirst _)
      intro x hx y hx' exy
      subst exy
      obtain ⟨g, hgl, hmem⟩ := evalGroup_ok env _ hok' l
      obtain ⟨g', hgl', hmem'⟩ := evalGroup_ok env _ hok' l'
      rw [hgl] at hx; rw [hgl'] at hx'
      obtain ⟨r₁, hr₁, hp₁, out₁, ho₁, hx₁⟩ := (hmem x).mp hx
      obtain ⟨r₂, hr₂, hp₂, out₂, ho₂, hx₂⟩ := (hmem' x).mp hx'
      obtain ⟨i, hi, hi', rfl⟩ := mem_withLabels_idx rules ls hl r₁ (List.mem_filter.mp hr₁).1
      obtain ⟨j, hj, hj', rfl⟩ := mem_withLabels_idx rules ls hl r₂ (List.mem_filter.mp hr₂).1
      rw [evalRule_relabel env rules ls hl] at ho₁ ho₂
      have hne' : ls[i]? ≠ ls[j]? := by
        have e₁ : ls[i] = l := hp₁
        have e₂ : ls[j] = l' := hp₂
        simp only [List.getElem?_eq_getElem hi', List.getElem?_eq_getElem hj', ne_eq, Option.some.injEq]
        rw [e₁, e₂]; exact hne
      exact C03_disjoint env hf mode rules ls hp hsafe i j hi hj hne' out₁ out₂ ho₁ ho₂ x hx₁ hx₂
  refine ⟨hnd, ?_⟩
  rw [evalGrouped_eq, hmap]
  show Except.ok (dedupFirst _) = Except.ok _
  rw [dedupFirst_of_nodup _ hnd]

/-! ### non-vacuity -/

instance (v : Str) : Decidable (EscapeFree v) := by unfold EscapeFree; exact inferInstance
instance (k : MapType) (v : Str) (t : TermType) : Decidable (SynMap k v t) := by unfold SynMap; exact inferInstance
instance (k : MapType) (v : Str) : Decidable (CleanMap k v) := by unfold CleanMap; exact inferInstance

/-- a literal-valued rule with a constant language tag, and a rule joining to it, in a named graph -/
def exRules : List Rule :=
  [{ tmId := "#A".toList, subjectMapValue := "http://ex/a/{id}".toList, predicateMapValue := "http://ex/p".toList,
     objectMapType := .reference, objectMapValue := "name".toList, objectTermtype := .literal,
     langDatatype := some .languageMap, langDatatypeMapType := some .constant, langDatatypeMapValue := "en".toList,
     graphMapValue := "http://w3id.org/rml/defaultGraph".toList, logicalSourceValue := "t".toList },
   { tmId := "#B".toList, subjectMapValue := "http://ex/b/{id}".toList, predicateMapValue := "http://ex/q".toList,
     objectMapType := .parentTM, objectMapValue := "#A".toList, objectJoin := [("id".toList, "id".toList)],
     graphMapValue := "http://ex/G".toList, logicalSourceValue := "t".toList }]

def exEnv : Env :=
  { fmt := .nquads, tables := [(([], "t".toList), [[("id".toList, .str "1".toList), ("name".toList, .str "a b".toList)]])] }

theorem exRules_synSafe : ∀ r ∈ exRules, SynSafe exEnv exRules r := by
  intro r hr
  simp only [exRules, List.mem_cons, List.mem_nil_iff, or_false] at hr
  rcases hr with rfl | rfl <;> constructor <;> decide +kernel

theorem exRules_labels : partitionLabels .partialAggregations exRules = .ok ["1-1-2-2".toList, "2-2-1-1".toList] := by
  decide +kernel

theorem exRules_out :
    evalRule exEnv exRules exRules[0] = .ok ["<http://ex/a/1> <http://ex/p> \"a b\"@en ".toList] ∧
    evalRule exEnv exRules exRules[1] = .ok ["<http://ex/b/1> <http://ex/q> <http://ex/a/1> <http://ex/G>".toList] := by
  decide +kernel

/-- all hypotheses of `C03_disjoint_partial_syntactic` hold for the example, with non-empty outputs -/
example : ∀ x ∈ ["<http://ex/a/1> <http://ex/p> \"a b\"@en ".toList],
    x ∉ ["<http://ex/b/1> <http://ex/q> <http://ex/a/1> <http://ex/G>".toList] :=
  C03_disjoint_partial_syntactic exEnv rfl exRules _ exRules_labels exRules_synSafe 0 1 (by decide) (by decide)
    (by decide) _ _ exRules_out.1 exRules_out.2

theorem exRules_labels_maximal : partitionLabels .maximal exRules = .ok ["1-1-1-1".toList, "2-1-1-1".toList] := by
  decide +kernel

/-- … and of `C03_disjoint` for MAXIMAL -/
example : ∀ x ∈ ["<http://ex/a/1> <http://ex/p> \"a b\"@en ".toList],
    x ∉ ["<http://ex/b/1> <http://ex/q> <http://ex/a/1> <http://ex/G>".toList] :=
  C03_disjoint exEnv rfl .maximal exRules _ exRules_labels_maximal
    (fun r hr => tokenSafe_of_synSafe _ _ r (exRules_synSafe r hr)) 0 1 (by decide) (by decide)
    (by decide) _ _ exRules_out.1 exRules_out.2

theorem exRules_allOk : Props.C02.AllOk exEnv exRules := by
  intro r hr
  have hr' : r ∈ exRules := (List.mem_filter.mp hr).1
  have : r = exRules[0] ∨ r = exRules[1] := by
    simp only [exRules, List.mem_cons, List.mem_nil_iff, or_false] at hr'
    exact hr'
  rcases this with rfl | rfl
  · exact ⟨_, exRules_out.1⟩
  · exact ⟨_, exRules_out.2⟩

/-- … and of `C03_file_nodup` -/
example : ∃ groups, (dedupFirst (((withLabels exRules ["1-1-2-2".toList, "2-2-1-1".toList]).filter (·.asserted)).map (·.partition))).mapM
      (Props.C02.evalGroup exEnv (withLabels exRules ["1-1-2-2".toList, "2-2-1-1".toList])) = .ok groups ∧
    groups.flatten.Nodup ∧
    evalGrouped exEnv (withLabels exRules ["1-1-2-2".toList, "2-2-1-1".toList]) = .ok groups.flatten :=
  C03_file_nodup exEnv rfl .partialAggregations exRules _ exRules_labels
    (fun r hr => tokenSafe_of_synSafe _ _ r (exRules_synSafe r hr)) exRules_allOk

/-- `C03_partial_separation`: the hypothesis holds and the labels differ -/
example : ∀ r ∈ exRules, r.objectTermtype ≠ .literal → r.langDatatype = none := by decide

/-! ### B5 and the other counter-witnesses -/

/-- two rules that differ only in their constant graph maps -/
def f1Rules : List Rule :=
  [{ tmId := "#A".toList, subjectMapValue := "http://ex/{id}".toList, predicateMapValue := "http://ex/p".toList,
     objectMapValue := "http://ex/o".toList, graphMapValue := "http://ex/G1".toList },
   { tmId := "#A".toList, subjectMapValue := "http://ex/{id}".toList, predicateMapValue := "http://ex/p".toList,
     objectMapValue := "http://ex/o".toList, graphMapValue := "http://ex/G2".toList }]

/-- **C03_F1.** The two rules fall into different groups (under both algorithms), yet with N-TRIPLES output they print
    the same line for the same row: the statement is written once per group. -/
theorem C03_F1_ntriples_graph_only :
    partitionLabels .partialAggregations f1Rules = .ok ["1-1-1-1".toList, "1-1-1-2".toList] ∧
    partitionLabels .maximal f1Rules = .ok ["1-1-1-1".toList, "1-1-1-2".toList] ∧
    rowTriple { fmt := .ntriples } f1Rules[0] .constant "http://ex/o".toList [] [("id".toList, "1".toList)]
      = .ok "<http://ex/1> <http://ex/p> <http://ex/o>".toList ∧
    rowTriple { fmt := .ntriples } f1Rules[1] .constant "http://ex/o".toList [] [("id".toList, "1".toList)]
      = .ok "<http://ex/1> <http://ex/p> <http://ex/o>".toList := by
  decide +kernel

/-- … whereas under N-QUADS the lines differ (an instance of `C03_disjoint_partial`) -/
theorem C03_F1_nquads_differ :
    rowTriple { fmt := .nquads } f1Rules[0] .constant "http://ex/o".toList [] [("id".toList, "1".toList)]
      = .ok "<http://ex/1> <http://ex/p> <http://ex/o> <http://ex/G1>".toList ∧
    rowTriple { fmt := .nquads } f1Rules[1] .constant "http://ex/o".toList [] [("id".toList, "1".toList)]
      = .ok "<http://ex/1> <http://ex/p> <http://ex/o> <http://ex/G2>".toList := by
  decide +kernel

/-- IRI objects carrying a (dangling) language: `literal_type` precedes the invariant in the object sort for every
    term type, so equal invariants need not be adjacent -/
def f3Rules : List Rule :=
  [{ tmId := "#A".toList, subjectMapValue := "http://ex/{id}".toList, predicateMapValue := "http://ex/p".toList,
     objectMapValue := "http://ex/a".toList, langDatatype := some .languageMap, langDatatypeMapValue := "x".toList,
     graphMapValue := "http://w3id.org/rml/defaultGraph".toList },
   { tmId := "#B".toList, subjectMapValue := "http://ex/{id}".toList, predicateMapValue := "http://ex/p".toList,
     objectMapValue := "http://ex/b".toList, langDatatype := some .languageMap, langDatatypeMapValue := "x".toList,
     graphMapValue := "http://w3id.org/rml/defaultGraph".toList },
   { tmId := "#C".toList, subjectMapValue := "http://ex/{id}".toList, predicateMapValue := "http://ex/p".toList,
     objectMapValue := "http://ex/a".toList, langDatatype := some .languageMap, langDatatypeMapValue := "y".toList,
     graphMapValue := "http://w3id.org/rml/defaultGraph".toList }]

/-- **C03_F3 (model-level).** Without the hypothesis "language/datatype only on literal objects" the separation theorem
    fails: the first and the third rule have the same object invariant and different labels, and print the same
    N-QUADS line. -/
theorem C03_F3_literal_type_on_iri :
    partitionLabels .partialAggregations f3Rules = .ok ["1-1-1-1".toList, "1-1-2-1".toList, "1-1-3-1".toList] ∧
    rowTriple { fmt := .nquads } f3Rules[0] .constant "http://ex/a".toList [] [("id".toList, "1".toList)]
      = rowTriple { fmt := .nquads } f3Rules[2] .constant "http://ex/a".toList [] [("id".toList, "1".toList)] ∧
    rowTriple { fmt := .nquads } f3Rules[0] .constant "http://ex/a".toList [] [("id".toList, "1".toList)]
      = .ok "<http://ex/1> <http://ex/p> <http://ex/a> ".toList := by
  decide +kernel

/-- two rules that differ only in their constant predicates, with reference-valued (hence unencoded) IRIs -/
def f2Rules : List Rule :=
  [{ tmId := "#A".toList, subjectMapType := .reference, subjectMapValue := "s".toList,
     predicateMapValue := "http://ex/p1".toList, objectMapType := .reference, objectMapValue := "o".toList,
     graphMapValue := "http://w3id.org/rml/defaultGraph".toList },
   { tmId := "#B".toList, subjectMapType := .reference, subjectMapValue := "s".toList,
     predicateMapValue := "http://ex/p2".toList, objectMapType := .reference, objectMapValue := "o".toList,
     graphMapValue := "http://w3id.org/rml/defaultGraph".toList }]

/-- **C03_F2 (model-level).** Outside `TokenSafe` the property fails: reference-valued IRIs are written verbatim
    (`C05_F1`), so crafted values make two rules of different groups print the same N-QUADS line. -/
theorem C03_F2_reference_iri_breaks_tokens :
    partitionLabels .partialAggregations f2Rules = .ok ["1-1-1-1".toList, "1-2-1-1".toList] ∧
    rowTriple { fmt := .nquads } f2Rules[0] .reference "o".toList []
        [("s".toList, "a".toList), ("o".toList, "x> <http://ex/p2> <y".toList)]
      = rowTriple { fmt := .nquads } f2Rules[1] .reference "o".toList []
        [("s".toList, "a> <http://ex/p1> <x".toList), ("o".toList, "y".toList)] ∧
    rowTriple { fmt := .nquads } f2Rules[0] .reference "o".toList []
        [("s".toList, "a".toList), ("o".toList, "x> <http://ex/p2> <y".toList)]
      = .ok "<a> <http://ex/p1> <x> <http://ex/p2> <y> ".toList := by
  decide +kernel

/-- why `EscapeFree` also excludes U+200B: a template that contains `AUXILIAR_UNIQUE_REPLACING_STRING` literally gets
    an invariant in which that text is replaced by `\\{` — the rendered term does not start with it (model-level note) -/
theorem C03_note_aux_string_in_template :
    getInvariantOfTemplate (auxString ++ "/{id}".toList) = some "\\{/".toList ∧
    materializeTemplate {} .template (auxString ++ "/{id}".toList) (some .iri) [] [] (fun _ => some ['1'])
      = .ok (['<'] ++ auxString ++ "/1>".toList) := by
  decide +kernel

end Props.C03
