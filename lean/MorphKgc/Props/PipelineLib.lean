/-
PipelineLib — the LIBRARY run end to end, composed from the property theorems.

configuration (several data-source sections × several mapping files)
   ─`parse_mappings`→ rule table ─any labelling (partitioning)→ mapping groups ─`materialize_set`→ set of statement strings
   ─`materialize` / `materialize_oxigraph`: `'.\n'.join(set) + '.'`, third-party N-Quads parser→ graph / store

Every arrow is one of the property theorems:
  C12 (sections and files; `…_current`: the duplicate check and the guarded rewriting as /repo has them now),
  C01 (the engine refines the generation rules), C02 (any labelling), C06 (NULLs; `…_current`), C08 (graphs),
  C15 (typed literals; bridged, see `canonNow` / `CanonFixed`), C05 (every string is a statement of the grammar),
  C18 (framing + loader).

Bridging lemmas proved here because the component theorems live in different environments:
  C12 ↔ C01  `closed_of_noRef`, `shape_rulesOfTm`, `mem_pre_fragment`, `rule_facts` (fragment ⇒ closed sections, stable renumbering;
             the rules of the returned table are the flat rules of the sections under fresh identifiers);
  C06 ↔ C01  `evalRuleG_of_noRawNulls` (`Model.evalRule` = `evalRuleG .strThenNa`, the tree is `.keepNullThenNa`: equal on tables
             without raw NULL objects);
  C15 ↔ C01  `evalRule_canonNow` (C01 has no canonicalisation; equal when the ladder fixes the cells read by typed object maps).
Headline: `lib_graph`; intermediate: `pipeline_current`, `sections_current`, `lib_set`, `lib_set_canon`, `nulls_rule`,
`lib_graphs_of_statement`, `loaders_of_bodies`; non-vacuity: namespace `Ex`; what the hypotheses exclude: `dup_raises`,
`typed_hypothesis_needed`.
-/
import MorphKgc.Props.C01
import MorphKgc.Props.C02
import MorphKgc.Props.C05
import MorphKgc.Props.C06
import MorphKgc.Props.C08
import MorphKgc.Props.C12
import MorphKgc.Props.C15
import MorphKgc.Props.C18

namespace Props.PipelineLib
open Py Model Spec Model.Sections Props.C01 Props.C02 Props.C05 Props.C06 Props.C08 Props.C12 Props.C18

/-! ### bridging lemmas, C12 ↔ C01: what the fragment of C01 gives to the hypotheses of C12 -/

/-- a document without referencing object maps is closed (it references no triples map at all) -/
theorem closed_of_noRef {d : Doc} (h : NoRefObj d = true) : Closed d := by
  intro tm htm p hp
  simp only [parentsOfTm, List.mem_flatMap, List.mem_filterMap] at hp
  obtain ⟨pom, hpom, o, ho, hr⟩ := hp
  obtain ⟨om, rfl⟩ := NoRefObj_term h htm hpom ho
  simp [refOfObj] at hr

theorem mapOf_ne_quoted (tm : TermMap) : (mapOf tm).1 ≠ .quoted := by
  unfold mapOf; cases tm.kind <;> simp

/-- no flat rule of an abstract mapping document has a quoted subject or object map, or a referencing subject map -/
theorem shape_rulesOfTm {d : Doc} {tm : TriplesMap} {r : Rule} (h : r ∈ rulesOfTm d tm) :
    r.subjectMapType ≠ .quoted ∧ r.subjectMapType ≠ .parentTM ∧ r.objectMapType ≠ .quoted := by
  have hf := fromTm_of_mem h
  refine ⟨by rw [hf.smt]; exact mapOf_ne_quoted _, by rw [hf.smt]; exact mapOf_ne_parentTM _, ?_⟩
  rcases mem_rulesOfTm_cases h with rfl | ⟨c, g, rfl⟩ | ⟨pom, _, p, o, _, g, rfl⟩
  · simp [baseRule_eq]
  · exact mapOf_ne_quoted _
  · cases o with
    | term om => exact mapOf_ne_quoted _
    | ref parent conds => simp [pomRule]

theorem mem_rawRules_tm {cfg : Config} {r : Rule} (h : r ∈ rawRules cfg) :
    ∃ s ∈ cfg, ∃ tm ∈ (secDoc s).tms, r ∈ rulesOfTm (secDoc s) tm := by
  simp only [rawRules, List.mem_flatMap] at h
  obtain ⟨s, hs, hr⟩ := h
  simp only [secRules, List.mem_flatMap] at hr
  obtain ⟨tm, htm, hr⟩ := hr
  exact ⟨s, hs, tm, htm, hr⟩

/-- **C12 on the tree as it is now** (`C12_dup_rejected_current`, `C12_stable_current` discharge the order of the duplicate check
    and the hypothesis `valueClash = false` of `C12_pipeline_partial`): for every configuration whose sections have different
    names, are closed and declare pairwise different identifiers, `parse_mappings` returns the rule table `pre … (rawRules cfg)`,
    and that table evaluates like the normalised document of all triples maps. -/
theorem pipeline_current (env : Env) (cfg : Config) (hnames : (cfg.map (·.name)).Nodup)
    (hclosed : ∀ s ∈ cfg, Closed (secDoc s)) (hF1 : hasDupId cfg = false) :
    parseNow cfg = .ok (pre Gen.expandStarGuarded (rawRules cfg)) ∧
    evalAll env (pre Gen.expandStarGuarded (rawRules cfg)) = evalAll env (normalizeDoc (cfgDoc cfg)) := by
  have hparts : ∀ d ∈ cfg.map secDoc, Closed d := by
    intro d hd
    obtain ⟨s, hs, rfl⟩ := List.mem_map.mp hd
    exact hclosed s hs
  have hraw : rawRules cfg = rawOf (cfgDoc cfg) := by
    rw [rawRules_eq, cfgDoc_eq, rawOf_joinDocs _ hparts (pairwise_disjoint hnames hF1)]
  have hcl : Closed (cfgDoc cfg) := by rw [cfgDoc_eq]; exact closed_joinDocs hparts
  refine ⟨(C12_dup_rejected_current cfg).2 hF1, ?_⟩
  rw [normalizeDoc_eq, ← hraw]
  unfold pre
  apply evalAll_renumber_elim
  · rw [hraw]; exact resolves_raw hcl
  · apply C12_stable_current
    intro r hr
    obtain ⟨s, _, tm, _, hr'⟩ := mem_rawRules_tm ((mem_dedupFirst _ _).mp hr)
    exact shape_rulesOfTm hr'
  · rw [hraw]; exact fun r hr => subjectMapType_ne_parentTM_of_raw hr

/-- … and its statements are those of the sections taken one by one (`C12_union_parts`) -/
theorem sections_current (env : Env) (cfg : Config) (hnames : (cfg.map (·.name)).Nodup)
    (hclosed : ∀ s ∈ cfg, Closed (secDoc s)) (hF1 : hasDupId cfg = false)
    (hok : ∀ s ∈ cfg, ∃ o, evalAll env (normalizeDoc (secDoc s)) = .ok o) :
    ∃ o, parseNow cfg = .ok (pre Gen.expandStarGuarded (rawRules cfg)) ∧
      evalAll env (pre Gen.expandStarGuarded (rawRules cfg)) = .ok o ∧
      ∀ l, l ∈ o ↔ ∃ s ∈ cfg, ∃ os, evalAll env (normalizeDoc (secDoc s)) = .ok os ∧ l ∈ os := by
  obtain ⟨hrs, he⟩ := pipeline_current env cfg hnames hclosed hF1
  have hparts : ∀ d ∈ cfg.map secDoc, Closed d := by
    intro d hd
    obtain ⟨s, hs, rfl⟩ := List.mem_map.mp hd
    exact hclosed s hs
  obtain ⟨o, ho, hm⟩ := C12_union_parts env (cfg.map secDoc) hparts (pairwise_disjoint hnames hF1) (by
    intro d hd
    obtain ⟨s, hs, rfl⟩ := List.mem_map.mp hd
    exact hok s hs)
  refine ⟨o, hrs, by rw [he, cfgDoc_eq, ho], fun l => ?_⟩
  rw [hm]
  constructor
  · rintro ⟨d, hd, od, hod, hl⟩
    obtain ⟨s, hs, rfl⟩ := List.mem_map.mp hd
    exact ⟨s, hs, od, hod, hl⟩
  · rintro ⟨s, hs, os, hos, hl⟩
    exact ⟨secDoc s, List.mem_map.mpr ⟨s, hs, rfl⟩, os, hos, hl⟩

/-! ### the rule table of a configuration of the fragment -/

/-- Without referencing object maps, every rule of the table `parse_mappings` returns is a flat rule `q` of a triples map of one
    of the sections, under its fresh identifier `#TM<k>` and otherwise unchanged (the guarded rewriting touches no plain value,
    self-join elimination has nothing to eliminate). -/
theorem mem_pre_fragment {cfg : Config} (hnr : ∀ s ∈ cfg, NoRefObj (secDoc s) = true) {r : Rule}
    (h : r ∈ pre Gen.expandStarGuarded (rawRules cfg)) :
    ∃ s ∈ cfg, ∃ tm ∈ (secDoc s).tms, ∃ q ∈ rulesOfTm (secDoc s) tm, ∃ k, r = { q with tmId := tmName k } := by
  unfold pre at h
  obtain ⟨a, ha, rfl⟩ := List.mem_map.mp h
  obtain ⟨k, _, q, hq, rfl⟩ := mem_renumberFrom ha
  have hq' : q ∈ dedupFirst (rawRules cfg) := List.mem_of_getElem? hq
  obtain ⟨s, hs, tm, htm, hqr⟩ := mem_rawRules_tm ((mem_dedupFirst _ _).mp hq')
  obtain ⟨h1, h2, h3⟩ := shape_rulesOfTm hqr
  have h4 := objectMapType_rulesOfTm (hnr s hs) htm hqr
  refine ⟨s, hs, tm, htm, q, hqr, k, ?_⟩
  have hren : renumberRule Gen.expandStarGuarded (dedupFirst (rawRules cfg)) k q = { q with tmId := tmName k } := by
    rw [C12_current_guard]
    simp [renumberRule, mapVal, h1, h2, h3, h4]
  rw [hren]
  simp [eliminateSelfJoin, h4]

/-- the reader guarantees of C01 (`TablesOK`, per section) read off the rules of the engine's table -/
theorem rule_facts {env : Env} {senv : SEnv} (henv : EnvOK env senv) (cfg : Config)
    (hfrag : ∀ s ∈ cfg, FragmentOK senv (secDoc s) = true) (htab : ∀ s ∈ cfg, TablesOK senv (secDoc s) = true)
    (r : Rule) (hr : r ∈ pre Gen.expandStarGuarded (rawRules cfg)) :
    r.objectMapType ≠ .parentTM ∧ Complete (refsOfRule r) (env.table r) = true ∧ NoRawNulls (env.table r) = true := by
  obtain ⟨s, hs, tm, htm, q, hq, k, rfl⟩ := mem_pre_fragment (fun s hs => FragmentOK_noRef (hfrag s hs)) hr
  have ht := htab s hs
  simp only [TablesOK, List.all_eq_true, Bool.and_eq_true] at ht
  have hf := fromTm_of_mem hq
  have htbl : env.table { q with tmId := tmName k } = senv.table tm := by
    unfold Env.table SEnv.table
    rw [henv.tables]
    show (match senv.tables.find? (fun p => p.1 = (q.sourceName, q.logicalSourceValue)) with | some p => p.2 | none => []) = _
    rw [hf.sourceName, hf.lsv]
    rfl
  refine ⟨(objectMapType_rulesOfTm (FragmentOK_noRef (hfrag s hs)) htm hq : q.objectMapType ≠ .parentTM), ?_, ?_⟩
  · rw [htbl]; exact (ht tm htm).2 q hq
  · rw [htbl]; exact (ht tm htm).1

/-! ### bridging lemmas, C06 ↔ C01

C01 / C02 / C12 speak about `Model.evalRule` (= `evalRuleG .strThenNa`), C06 about `evalRuleG Gen.preprocessKind` (which is
`.keepNullThenNa` on the tree as it is now, `C06_current_order`).  On tables without raw NULL objects (the reader guarantee
`NoRawNulls` of C01) the two orders of `_preprocess_data` are the same function. -/

theorem rawNullIn_of_noRawNulls {t : Table} (h : NoRawNulls t = true) (refs : List Str) {ρ : Row} (hρ : ρ ∈ t) :
    rawNullIn refs ρ = false := by
  simp only [NoRawNulls, List.all_eq_true] at h
  simp only [rawNullIn, List.any_eq_false]
  intro c _
  cases hl : lookup c ρ with
  | none => simp
  | some cell =>
    have := h ρ hρ _ (lookup_mem hl)
    cases cell <;> simp_all

theorem preprocessG_of_noRawNulls (k : PreKind) (na refs : List Str) (t : Table) (h : NoRawNulls t = true) :
    preprocessG k na refs t = preprocess na refs t := by
  cases k with
  | strThenNa => rfl
  | keepNullThenNa =>
    simp only [preprocessG]
    congr 1
    apply List.filter_eq_self.mpr
    intro ρ hρ
    simp [rawNullIn_of_noRawNulls h refs hρ]

theorem evalRuleG_of_noRawNulls (k : PreKind) (env : Env) (rules : List Rule) (r : Rule) (hp : r.objectMapType ≠ .parentTM)
    (h : NoRawNulls (env.table r) = true) : evalRuleG k env rules r = evalRule env rules r := by
  unfold evalRuleG evalRule
  simp only [hp, if_false, preprocessG_of_noRawNulls k env.na _ _ h]

/-- **NULLs, one rule** (C06 on the engine's rule, for any environment).  For a plain rule over a complete table without raw NULL
    objects which the engine evaluates to `lines`:
    the engine of the tree as it is now (`evalRuleG Gen.preprocessKind`) evaluates it to the same `lines`; these are the
    statements built (`rowTriple`, one each, none failing) from the rows `rows` that `_preprocess_data` hands over; every one of
    these rows consists of genuine non-NA strings of the data (`C06_never_a_term_current`: no term is built from a NULL); and a
    row is handed over iff it is the projection of a row none of whose referenced cells is NULL
    (`C06_row_survives_iff` + `C06_suppresses_exactly_partial`, whose scope hypothesis is discharged by `C06_current_order` +
    `scope_C06_F1_keepNull`). -/
theorem nulls_rule (env : Env) (rules : List Rule) (r : Rule) (hc : isAllConstant r = false)
    (hp : r.objectMapType ≠ .parentTM) (hcomp : Complete (refsOfRule r) (env.table r) = true)
    (hnn : NoRawNulls (env.table r) = true) (lines : List Str) (hl : evalRule env rules r = .ok lines) :
    evalRuleG Gen.preprocessKind env rules r = .ok lines ∧
    ∃ rows, preprocessG Gen.preprocessKind env.na (refsOfRule r) (env.table r) = .ok rows ∧
      rows.mapM (rowTriple env r r.objectMapType r.objectMapValue []) = .ok lines ∧
      (∀ line, line ∈ lines ↔ ∃ σ ∈ rows, rowTriple env r r.objectMapType r.objectMapValue [] σ = .ok line) ∧
      (∀ σ ∈ rows, ∃ line ∈ lines, rowTriple env r r.objectMapType r.objectMapValue [] σ = .ok line) ∧
      (∀ σ ∈ rows, GenuineValues env.na (refsOfRule r) (env.table r) σ) ∧
      (∀ σ, σ ∈ rows ↔ ∃ ρ ∈ env.table r, noNullRef env.na (refsOfRule r) ρ = true ∧
        σ = projRow (dedupFirst (refsOfRule r)) ρ) := by
  have hG : evalRuleG Gen.preprocessKind env rules r = .ok lines := by
    rw [evalRuleG_of_noRawNulls _ env rules r hp hnn]; exact hl
  refine ⟨hG, ?_⟩
  have hrows := preprocessG_eq Gen.preprocessKind env.na (refsOfRule r) (env.table r) hcomp
  have hm : (dataRows Gen.preprocessKind env r).mapM (rowTriple env r r.objectMapType r.objectMapValue []) = .ok lines := by
    rw [← C06_plain_rule_lines Gen.preprocessKind env rules r hc hp hcomp]; exact hG
  have hK : scope_C06_F1 Gen.preprocessKind env.na (refsOfRule r) (env.table r) = false := by
    rw [C06_current_order]; exact scope_C06_F1_keepNull _ _ _
  refine ⟨_, hrows, hm, mem_of_mapM_ok _ _ _ hm, fun σ hσ => ?_,
    C06_never_a_term_current env.na (refsOfRule r) (env.table r) hcomp _ hrows, fun σ => ?_⟩
  · obtain ⟨line, hline⟩ := Py.mapM_ok_forall _ _ _ hm σ hσ
    exact ⟨line, (mem_of_mapM_ok _ _ _ hm line).mpr ⟨σ, hσ, hline⟩, hline⟩
  · have := C06_row_survives_iff Gen.preprocessKind env.na (refsOfRule r) (env.table r) hcomp σ
    rw [hrows] at this
    constructor
    · intro hσ
      obtain ⟨ρ, hρ, hs, e⟩ := this.mp ⟨_, rfl, hσ⟩
      exact ⟨ρ, hρ, by rw [← C06_suppresses_exactly_partial _ _ _ _ hK ρ hρ]; exact hs, e⟩
    · rintro ⟨ρ, hρ, hs, e⟩
      obtain ⟨rows', hr', hσ⟩ := this.mpr ⟨ρ, hρ, by rw [C06_suppresses_exactly_partial _ _ _ _ hK ρ hρ]; exact hs, e⟩
      cases hr'
      exact hσ

/-! ### `materialize_set`: C12 + C01 + C02 -/

theorem allOk_of_evalAll {env : Env} {rules : List Rule} {o : List Str} (h : evalAll env rules = .ok o) :
    ∀ r ∈ rules, r.asserted = true → ∃ lines, evalRule env rules r = .ok lines := by
  intro r hr ha
  unfold evalAll at h
  cases hm : (rules.filter (·.asserted)).mapM (evalRule env rules) with
  | error e => simp [hm, bind, Except.bind] at h
  | ok parts => exact Py.mapM_ok_forall _ _ _ hm r (List.mem_filter.mpr ⟨hr, ha⟩)

/-- **The set returned by `materialize_set`.**  For every configuration of the fragment (sections with different names declaring
    pairwise different triples-map identifiers; per section: term maps of the core fragment, tables with the reader guarantees,
    no all-constant rule over an empty source) and every labelling `ls` of the rule table (in particular the one of every
    partitioning mode that returns):
      * `parse_mappings` returns a rule table `rs` (it is `pre … (rawRules cfg)`), the partitioner with partitioning disabled
        returns, and every mode that returns gives one label per rule;
      * `materialize_set` does not raise under any labelling, and the set it returns is, whatever the labelling, the union over
        the sections of the statements the generation rules prescribe for the section's document;
      * that set is the union of the results of the asserted rules of `rs`. -/
theorem lib_set {env : Env} {senv : SEnv} (henv : EnvOK env senv) (hn : NamesOK senv) (cfg : Config)
    (hnames : (cfg.map (·.name)).Nodup) (hF1 : hasDupId cfg = false)
    (hfrag : ∀ s ∈ cfg, FragmentOK senv (secDoc s) = true) (htab : ∀ s ∈ cfg, TablesOK senv (secDoc s) = true)
    (hF4 : ∀ s ∈ cfg, NoF4 senv (secDoc s) = true) :
    ∃ rs, parseNow cfg = .ok rs ∧ rs = pre Gen.expandStarGuarded (rawRules cfg) ∧
      (∃ ls, partitionLabels .none rs = .ok ls) ∧
      (∀ mode ls, partitionLabels mode rs = .ok ls → ls.length = rs.length) ∧
      (∀ r ∈ rs, r.asserted = true → ∃ lines, evalRule env rs r = .ok lines) ∧
      ∀ ls, ls.length = rs.length →
        ∃ out, evalGrouped env (withLabels rs ls) = .ok out ∧
          (∀ x, x ∈ out ↔ ∃ s ∈ cfg, x ∈ evalDoc senv (secDoc s)) ∧
          (∀ x, x ∈ out ↔ ∃ r ∈ rs, r.asserted = true ∧ ∃ lines, evalRule env rs r = .ok lines ∧ x ∈ lines) := by
  have hsec := fun s hs => C01_refinement_partial henv hn (secDoc s) (hfrag s hs) (htab s hs) (hF4 s hs)
  have hclosed : ∀ s ∈ cfg, Closed (secDoc s) := fun s hs => closed_of_noRef (FragmentOK_noRef (hfrag s hs))
  obtain ⟨o, hparse, ho, hm⟩ := sections_current env cfg hnames hclosed hF1
    (fun s hs => let ⟨o, h, _⟩ := hsec s hs; ⟨o, h⟩)
  have hmem : ∀ x, x ∈ o ↔ ∃ s ∈ cfg, x ∈ evalDoc senv (secDoc s) := by
    intro x
    rw [hm]
    constructor
    · rintro ⟨s, hs, os, hos, hx⟩
      obtain ⟨os', hos', hiff⟩ := hsec s hs
      rw [hos] at hos'; cases hos'
      exact ⟨s, hs, (hiff x).mp hx⟩
    · rintro ⟨s, hs, hx⟩
      obtain ⟨os, hos, hiff⟩ := hsec s hs
      exact ⟨s, hs, os, hos, (hiff x).mpr hx⟩
  have hall := allOk_of_evalAll ho
  obtain ⟨o', ho', hrules⟩ := evalAll_spec env _ hall
  rw [ho] at ho'; cases ho'
  refine ⟨_, hparse, rfl, (C02_partitioners_total _).1, fun mode ls h => partitionLabels_length mode _ ls h, hall,
    fun ls hl => ?_⟩
  have hsame := grouped_withLabels_sameOutcome_all env (pre Gen.expandStarGuarded (rawRules cfg)) ls hl
  rw [ho] at hsame
  cases hg : evalGrouped env (withLabels (pre Gen.expandStarGuarded (rawRules cfg)) ls) with
  | error e => rw [hg] at hsame; exact hsame.elim
  | ok out =>
    rw [hg] at hsame
    exact ⟨out, rfl, fun x => (hsame x).trans (hmem x), fun x => (hsame x).trans (hrules x)⟩

/-- how the triples maps of a section are spread over its mapping files does not enter (`C12_files`): two configurations with
    the same section names and, per section, the same triples maps in the same order have the same rule table -/
theorem lib_files (cfg cfg' : Config)
    (h : cfg.map (fun s => (s.name, s.files.flatten)) = cfg'.map (fun s => (s.name, s.files.flatten))) :
    parseNow cfg = parseNow cfg' := C12_files _ _ _ cfg cfg' h

/-! ### graphs (C08) -/

theorem pairsFor_graph {env : SEnv} {doc : Doc} {tm : TriplesMap} {ρ : Row} {gs : List TermMap} {p : TermMap} {o : ObjMap}
    {q : Str × Str} (hq : q ∈ pairsFor env doc tm ρ gs p o) : q.2 ∈ graphTerms env gs ρ := by
  unfold pairsFor at hq
  split at hq
  · simp only [List.mem_flatMap, List.mem_map] at hq
    obtain ⟨_, _, g, hg, rfl⟩ := hq
    exact hg
  · simp at hq

/-- **Graphs of the statements of the set** (`C08_projection_spec` + `C08_graph_terms`): every statement the rules prescribe for
    a section is the rendering of a (triple, graph term) pair of a triples map `tm` and a row `ρ` of its table; its graph term
    comes from the graph maps `gs` in force — those of the subject map (class statements, `C08_class_gets_subject_graphs`) or of
    the subject map and the predicate-object map — and is: the default graph iff there is no graph map or `rr:defaultGraph` is
    among them, the generated named graph for a graph map with a non-NULL value; a NULL graph value places nothing. -/
theorem lib_graphs_of_statement (senv : SEnv) (d : Doc) (x : Str) (hx : x ∈ evalDoc senv d) :
    ∃ q ∈ quadsOf senv d, x = renderPair senv.fmt q ∧
      ∃ tm ∈ d.tms, ∃ ρ ∈ senv.table tm, ∃ gs, (gs = tm.graphs ∨ ∃ pom ∈ tm.poms, gs = tm.graphs ++ pom.graphs) ∧
        ((gs = [] ∧ q.2 = []) ∨
         (∃ gm ∈ gs, isDefaultGraph senv.defaultGraph gm = true ∧ q.2 = []) ∨
         (∃ gm ∈ gs, isDefaultGraph senv.defaultGraph gm = false ∧ genTerm senv.safe senv.na gm ρ = some q.2)) := by
  have hproj := C08_projection_spec senv d senv.fmt
  have hx' : x ∈ (quadsOf senv d).map (renderPair senv.fmt) := by rw [← hproj]; exact hx
  obtain ⟨q, hq, rfl⟩ := List.mem_map.mp hx'
  refine ⟨q, hq, rfl, ?_⟩
  unfold quadsOf at hq
  simp only [List.mem_flatMap, List.mem_append] at hq
  obtain ⟨tm, htm, ρ, hρ, h⟩ := hq
  rcases h with ⟨c, _, hc⟩ | ⟨pom, hpom, p, _, o, _, hpo⟩
  · exact ⟨tm, htm, ρ, hρ, _, .inl rfl, (C08_graph_terms senv _ ρ q.2).mp (pairsFor_graph hc)⟩
  · exact ⟨tm, htm, ρ, hρ, _, .inr ⟨pom, hpom, rfl⟩, (C08_graph_terms senv _ ρ q.2).mp (pairsFor_graph hpo)⟩

/-! ### typed literals: bridging C15 ↔ C01

C01 is proved for a term configuration without canonicalisation (`CfgOK.canon : ∀ d v, cfg.canon d v = v`); C15 describes the
`datatype == XSD_…` ladder of `_materialize_template` as /repo has it now (`Gen.canonSiteTemplate`).  `canonNow` is that ladder as
a function (`C15_no_abort`: it is total), `withCanonNow env` the engine that applies it.  The two engines give the same result on
every rule table and tables for which the ladder changes no cell that a typed object map reads (`CanonFixed`, decidable;
`evalRule_canonNow`) — in particular when no literal datatype is a ladder key (`C15_identity`, `canonFixed_of_typedOutside`).
Without such a hypothesis the composition is false (`typed_hypothesis_needed`): the ladder rewrites `42.0` to `42` under
xsd:integer, `Spec.genTerm` does not. -/

/-- the ladder of `_materialize_template`, as generated -/
def canonNow (d v : Str) : Str :=
  match canonFor Gen.canonSiteTemplate.ladder d v with
  | .ok r => r
  | .error _ => v

theorem canonSiteTemplate_mem : Gen.canonSiteTemplate ∈ Gen.canonSites := by simp [Gen.canonSites]

/-- `canonNow` is the ladder, which never aborts (`C15_no_abort`) -/
theorem canonNow_spec (d v : Str) : canonFor Gen.canonSiteTemplate.ladder d v = .ok (canonNow d v) := by
  obtain ⟨r, hr⟩ := Props.C15.C15_no_abort _ canonSiteTemplate_mem d v
  simp [canonNow, hr]

/-- … and the identity outside xsd:boolean / xsd:dateTime / xsd:integer (`C15_identity`) -/
theorem canonNow_id {d : Str} (hb : d ≠ xsdBoolean) (hd : d ≠ xsdDateTime) (hi : d ≠ xsdInteger) (v : Str) :
    canonNow d v = v := by
  have := (Props.C15.C15_identity _ canonSiteTemplate_mem d v hb hd hi).1
  simp [canonNow, this]

/-- the engine with the canonicalisation ladder of the tree as it is now -/
def withCanonNow (env : Env) : Env := { env with cfg := { env.cfg with canon := canonNow } }

theorem templateLoop_canon_on (cfg : TermCfg) (hnp : cfg.nonPrintable = none) (c' : Str → Str → Str) (dt : Str)
    (isT : Bool) (tt : Option TermType) (row : Str → Option Str) : ∀ (refs : List Str) (tpl acc : Str),
    (∀ r ∈ refs, ∀ v, row r = some v → c' dt v = cfg.canon dt v) →
    templateLoop { cfg with canon := c' } isT tt dt row refs tpl acc = templateLoop cfg isT tt dt row refs tpl acc
  | [], _, _, _ => rfl
  | r :: refs, tpl, acc, h => by
    simp only [templateLoop]
    cases hr : row r with
    | none => rfl
    | some v =>
      have e : transformValue { cfg with canon := c' } isT tt dt v = transformValue cfg isT tt dt v := by
        simp only [transformValue, hnp, h r (by simp) v hr]
      simp only [e]
      exact templateLoop_canon_on cfg hnp c' dt isT tt row refs _ _ (fun r' hr' => h r' (List.mem_cons_of_mem _ hr'))

/-- the references the split/join loop of `_materialize_template` iterates over -/
def loopRefs (kind : MapType) (value : Str) : List Str :=
  getReferencesInTemplate (if kind = .reference then ['{'] ++ value ++ ['}'] else value)

/-- a term comes out the same with and without the ladder if the ladder fixes every value the loop reads -/
theorem materializeTemplate_canon_on (cfg : TermCfg) (hnp : cfg.nonPrintable = none) (c' : Str → Str → Str) (dt : Str)
    (kind : MapType) (value : Str) (tt : Option TermType) (al : Str) (row : Str → Option Str)
    (h : ∀ c ∈ loopRefs kind value, ∀ v, row (al ++ c) = some v → c' dt v = cfg.canon dt v) :
    materializeTemplate { cfg with canon := c' } kind value tt dt al row = materializeTemplate cfg kind value tt dt al row := by
  simp only [materializeTemplate]
  unfold loopRefs at h
  rw [templateLoop_canon_on cfg hnp c' dt _ tt (fun r => row (al ++ r)) _ _ _ h]

theorem materializeTemplate_canon (cfg : TermCfg) (hnp : cfg.nonPrintable = none) (c' : Str → Str → Str) (dt : Str)
    (h : ∀ v, c' dt v = cfg.canon dt v)
    (kind : MapType) (value : Str) (tt : Option TermType) (al : Str) (row : Str → Option Str) :
    materializeTemplate { cfg with canon := c' } kind value tt dt al row = materializeTemplate cfg kind value tt dt al row :=
  materializeTemplate_canon_on cfg hnp c' dt kind value tt al row (fun _ _ v _ => h v)

theorem rowTriple_canonNow (env : Env) (hnp : env.cfg.nonPrintable = none) (hid : ∀ d v, env.cfg.canon d v = v) (r : Rule)
    (k : MapType) (v a : Str) (σ : SRow)
    (hobj : ∀ c ∈ loopRefs k v, ∀ x, lookup (a ++ c) σ = some x → canonNow (litDatatype r) x = x) :
    rowTriple (withCanonNow env) r k v a σ = rowTriple env r k v a σ := by
  have h0 : ∀ v, canonNow [] v = env.cfg.canon [] v := fun v => by
    rw [hid, canonNow_id (by decide) (by decide) (by decide)]
  have e := materializeTemplate_canon_on env.cfg hnp canonNow (litDatatype r) k v (some r.objectTermtype) a
    (fun c => lookup c σ) (fun c hc x hx => by rw [hid]; exact hobj c hc x hx)
  simp only [rowTriple, withCanonNow, materializeTemplate_canon env.cfg hnp canonNow [] h0, e]

theorem mapM_congr_mem {α β ε} {f g : α → Except ε β} : ∀ (l : List α), (∀ x ∈ l, f x = g x) → l.mapM f = l.mapM g
  | [], _ => rfl
  | a :: l, h => by
    rw [List.mapM_cons, List.mapM_cons, h a (by simp), mapM_congr_mem l (fun x hx => h x (List.mem_cons_of_mem _ hx))]

/-- a plain rule evaluates the same with and without the ladder if the ladder fixes (`canonNow d v = v`) every cell its object
    map reads, `d` being the rule's literal datatype -/
theorem evalRule_canonNow (env : Env) (hnp : env.cfg.nonPrintable = none) (hid : ∀ d v, env.cfg.canon d v = v)
    (rules : List Rule) (r : Rule) (hp : r.objectMapType ≠ .parentTM)
    (hcomp : Complete (refsOfRule r) (env.table r) = true)
    (hfix : ∀ ρ ∈ env.table r, ∀ c ∈ loopRefs r.objectMapType r.objectMapValue,
      canonNow (litDatatype r) (cellStr ρ c) = cellStr ρ c) :
    evalRule (withCanonNow env) rules r = evalRule env rules r := by
  cases hc : isAllConstant r with
  | true =>
    have e := rowTriple_canonNow env hnp hid r r.objectMapType r.objectMapValue [] []
      (fun c _ x hx => by simp [lookup] at hx)
    unfold evalRule
    simp only [hc, if_true, e]
  | false =>
    rw [evalRule_plain_eq' (withCanonNow env) rules r hc hp hcomp, evalRule_plain_eq' env rules r hc hp hcomp]
    apply mapM_congr_mem
    intro σ hσ
    have hσ' : σ ∈ (env.table r).map (projRow (dedupFirst (refsOfRule r))) :=
      (List.mem_filter.mp ((mem_dedupFirst _ _).mp hσ)).1
    obtain ⟨ρ, hρ, rfl⟩ := List.mem_map.mp hσ'
    apply rowTriple_canonNow env hnp hid
    intro c hc' x hx
    rw [List.nil_append, lookup_projRow] at hx
    split at hx
    · cases hx; exact hfix ρ hρ c hc'
    · cases hx

theorem evalGrouped_congr_env (env env' : Env) (rules : List Rule)
    (h : ∀ r ∈ rules, evalRule env' rules r = evalRule env rules r) : evalGrouped env' rules = evalGrouped env rules := by
  unfold evalGrouped
  simp only
  congr 1
  apply mapM_congr_mem
  intro l _
  congr 1
  apply mapM_congr_mem
  intro r hr
  exact h r (List.mem_filter.mp (List.mem_filter.mp hr).1).1

/-- **hypothesis of the bridge** (decidable, on the rule table and the tables): the ladder changes no cell that a typed object
    map reads — e.g. the datatype is none of xsd:boolean / xsd:dateTime / xsd:integer (`canonFixed_of_typedOutside`), or the
    cells are canonical already (an integer without `.0`, a lower-case boolean, a dateTime with `T`: C15_integer (a),
    C15_boolean (3), C15_dateTime (2)) -/
def CanonFixed (env : Env) (rules : List Rule) : Bool :=
  rules.all fun r => (env.table r).all fun ρ => (loopRefs r.objectMapType r.objectMapValue).all fun c =>
    canonNow (litDatatype r) (cellStr ρ c) == cellStr ρ c

/-- sufficient condition on the mapping alone: no object map carries one of the three datatypes the ladder rewrites -/
def TypedOutsideLadder (d : Doc) : Bool :=
  d.tms.all fun tm => tm.poms.all fun pom => pom.objects.all fun o =>
    match o with
    | .term om => (langDt om).2.2 != xsdBoolean && (langDt om).2.2 != xsdDateTime && (langDt om).2.2 != xsdInteger
    | .ref _ _ => true

theorem litDatatype_rulesOfTm {d : Doc} (h : TypedOutsideLadder d = true) {tm : TriplesMap} (htm : tm ∈ d.tms) {q : Rule}
    (hq : q ∈ rulesOfTm d tm) :
    litDatatype q ≠ xsdBoolean ∧ litDatatype q ≠ xsdDateTime ∧ litDatatype q ≠ xsdInteger := by
  simp only [TypedOutsideLadder, List.all_eq_true] at h
  have hnil : ([] : Str) ≠ xsdBoolean ∧ ([] : Str) ≠ xsdDateTime ∧ ([] : Str) ≠ xsdInteger := by decide
  rcases mem_rulesOfTm_cases hq with rfl | ⟨c, g, rfl⟩ | ⟨pom, hpom, p, o, ho, g, rfl⟩
  · exact hnil
  · exact hnil
  · have := h tm htm pom hpom o ho
    cases o with
    | term om =>
      simp only [Bool.and_eq_true, bne_iff_ne, ne_eq] at this
      exact ⟨this.1.1, this.1.2, this.2⟩
    | ref parent conds => exact hnil

theorem canonFixed_of_typedOutside (env : Env) {cfg : Config} (hnr : ∀ s ∈ cfg, NoRefObj (secDoc s) = true)
    (htyped : ∀ s ∈ cfg, TypedOutsideLadder (secDoc s) = true) :
    CanonFixed env (pre Gen.expandStarGuarded (rawRules cfg)) = true := by
  simp only [CanonFixed, List.all_eq_true, beq_iff_eq]
  intro r hr ρ _ c _
  obtain ⟨s, hs, tm, htm, q, hq, k, rfl⟩ := mem_pre_fragment hnr hr
  obtain ⟨h1, h2, h3⟩ := litDatatype_rulesOfTm (htyped s hs) htm hq
  exact canonNow_id (d := litDatatype q) h1 h2 h3 _

/-! ### the loaders: C05 + C18 -/

theorem stmts_of_bodies (sh : NQ.Shape) : ∀ xs : List Str,
    (∀ x ∈ xs, ∃ st : NQ.Stmt, NQ.wfStmt st = true ∧ (sh = .triple → st.g = none) ∧ x = NQ.renderStmtBody sh st) →
    ∃ sts : List NQ.Stmt, (∀ st ∈ sts, NQ.wfStmt st = true ∧ (sh = .triple → st.g = none)) ∧
      xs = sts.map (NQ.renderStmtBody sh)
  | [], _ => ⟨[], by simp, rfl⟩
  | x :: xs, h => by
    obtain ⟨st, hw, hg, rfl⟩ := h x (by simp)
    obtain ⟨sts, hsts, rfl⟩ := stmts_of_bodies sh xs (fun y hy => h y (List.mem_cons_of_mem _ hy))
    refine ⟨st :: sts, ?_, rfl⟩
    intro st' hst'
    rcases List.mem_cons.mp hst' with rfl | h'
    · exact ⟨hw, hg⟩
    · exact hsts st' h'

/-- **The loaders on a list of emitted strings** (C18 applied to strings known to be renderings of well-formed statements, in
    any order, with or without repetitions, empty or not): there is a list `sts` of well-formed statements, one per string, of
    which the strings are the renderings and which the specification lexer reads back string by string; the framed text
    `'.\n'.join(xs) + '.'` is an N-Quads document denoting exactly `sts` (`C18_framing_parse_gen`); for every parser satisfying
    `ParserContract P N` neither loader raises and the graph / store holds exactly `sts.map N` (`C18_exact_upto`), hence exactly
    `sts` when `N` changes none of them (`C18_exact_partial`). -/
theorem loaders_of_bodies (P : Str → Str → Option (List NQ.Stmt)) (N : NQ.Stmt → NQ.Stmt) (hP : ParserContract P N)
    (sh : NQ.Shape) (xs : List Str)
    (h : ∀ x ∈ xs, ∃ st : NQ.Stmt, NQ.wfStmt st = true ∧ (sh = .triple → st.g = none) ∧ x = NQ.renderStmtBody sh st) :
    ∃ sts : List NQ.Stmt, (∀ st ∈ sts, NQ.wfStmt st = true) ∧ xs = sts.map (NQ.renderStmtBody sh) ∧
      xs.map (fun x => NQ.parseLine (x ++ ['.'])) = sts.map some ∧
      (xs ≠ [] → NQ.parseDoc (joinForLoader Gen.loaderRdflib.sep Gen.loaderRdflib.term xs) = some sts ∧
                 NQ.parseDoc (joinForLoader Gen.loaderOxigraph.sep Gen.loaderOxigraph.term xs) = some sts) ∧
      loaderResult P Gen.loaderRdflib xs = some (sts.map N) ∧
      loaderResult P Gen.loaderOxigraph xs = some (sts.map N) ∧
      ((∀ st ∈ sts, N st = st) →
        loaderResult P Gen.loaderRdflib xs = some sts ∧ loaderResult P Gen.loaderOxigraph xs = some sts) := by
  obtain ⟨sts, hsts, rfl⟩ := stmts_of_bodies sh xs h
  have hem : Emitted (sts.map fun st => (sh, st)) := by
    intro x hx
    obtain ⟨st, hst, rfl⟩ := List.mem_map.mp hx
    exact hsts st hst
  have hb : bodies (sts.map fun st => (sh, st)) = sts.map (NQ.renderStmtBody sh) := by
    simp [bodies, List.map_map, Function.comp_def]
  have h2 : (sts.map fun st => (sh, st)).map (·.2) = sts := by simp [List.map_map, Function.comp_def]
  have hN : ((sts.map fun st => (sh, st)).map fun x => N x.2) = sts.map N := by simp [List.map_map, Function.comp_def]
  have hex := C18_exact_upto P N hP _ hem
  rw [hb, hN] at hex
  refine ⟨sts, fun st hst => (hsts st hst).1, rfl, ?_, fun hne => ?_, hex.1, hex.2, fun hfix => ?_⟩
  · rw [List.map_map]
    apply List.map_congr_left
    intro st hst
    exact NQ.parseLine_body sh st (hsts st hst).1 (hsts st hst).2 (Or.inl rfl)
  · have := C18_framing_parse_gen (sts.map fun st => (sh, st)) (by simpa using hne) hem
    rw [hb, h2] at this
    exact this
  · have := C18_exact_partial P N hP _ hem (by
      intro x hx
      obtain ⟨st, hst, rfl⟩ := List.mem_map.mp hx
      exact hfix st hst)
    rw [hb, h2] at this
    exact this

/-! ### the library run -/

/-- **`materialize_set` on the engine with the canonicalisation ladder** (`lib_set` transported along the C15 bridge). -/
theorem lib_set_canon {env : Env} {senv : SEnv} (henv : EnvOK env senv) (hn : NamesOK senv) (cfg : Config)
    (hnames : (cfg.map (·.name)).Nodup) (hF1 : hasDupId cfg = false)
    (hfrag : ∀ s ∈ cfg, FragmentOK senv (secDoc s) = true) (htab : ∀ s ∈ cfg, TablesOK senv (secDoc s) = true)
    (hF4 : ∀ s ∈ cfg, NoF4 senv (secDoc s) = true)
    (hcanon : CanonFixed env (pre Gen.expandStarGuarded (rawRules cfg)) = true) :
    ∃ rs, parseNow cfg = .ok rs ∧ rs = pre Gen.expandStarGuarded (rawRules cfg) ∧
      (∃ ls, partitionLabels .none rs = .ok ls) ∧
      (∀ mode ls, partitionLabels mode rs = .ok ls → ls.length = rs.length) ∧
      (∀ r ∈ rs, r.asserted = true → ∃ lines, evalRule (withCanonNow env) rs r = .ok lines) ∧
      ∀ ls, ls.length = rs.length →
        ∃ out, evalGrouped (withCanonNow env) (withLabels rs ls) = .ok out ∧
          (∀ x, x ∈ out ↔ ∃ s ∈ cfg, x ∈ evalDoc senv (secDoc s)) ∧
          (∀ x, x ∈ out ↔ ∃ r ∈ rs, r.asserted = true ∧ ∃ lines, evalRule (withCanonNow env) rs r = .ok lines ∧ x ∈ lines) := by
  obtain ⟨rs, hparse, hrs, hnone, hlen, hall, hset⟩ := lib_set henv hn cfg hnames hF1 hfrag htab hF4
  subst hrs
  have hid := henv.cfg.canon
  have hnp := henv.cfg.np
  simp only [CanonFixed, List.all_eq_true, beq_iff_eq] at hcanon
  have hruleN : ∀ r ∈ pre Gen.expandStarGuarded (rawRules cfg),
      evalRule (withCanonNow env) (pre Gen.expandStarGuarded (rawRules cfg)) r =
        evalRule env (pre Gen.expandStarGuarded (rawRules cfg)) r := by
    intro r hr
    obtain ⟨f1, f2, _⟩ := rule_facts henv cfg hfrag htab r hr
    exact evalRule_canonNow env hnp hid _ r f1 f2 (hcanon r hr)
  refine ⟨_, hparse, rfl, hnone, hlen, fun r hr ha => by rw [hruleN r hr]; exact hall r hr ha, fun ls hl => ?_⟩
  obtain ⟨out, hout, h2, h3⟩ := hset ls hl
  refine ⟨out, ?_, h2, fun x => (h3 x).trans ?_⟩
  · rw [evalGrouped_congr_env env (withCanonNow env)]
    · exact hout
    · intro r' hr'
      obtain ⟨r, hr, l, rfl⟩ := mem_withLabels _ ls hl r' hr'
      rw [evalRule_relabel _ _ ls hl, evalRule_relabel _ _ ls hl]
      exact hruleN r hr
  · constructor
    · rintro ⟨r, hr, ha, lines, hl', hx⟩
      exact ⟨r, hr, ha, lines, by rw [hruleN r hr]; exact hl', hx⟩
    · rintro ⟨r, hr, ha, lines, hl', hx⟩
      exact ⟨r, hr, ha, lines, by rw [← hruleN r hr]; exact hl', hx⟩

/-- **The library run: `materialize` / `materialize_oxigraph` on a configuration with several data-source sections.**

    For every configuration `cfg` of the fragment —
      `hnames`, `hF1`: the sections have different names and declare pairwise different triples-map identifiers (the hypotheses
         of `C12_sections_partial`; the order of the duplicate check and `valueClash = false` are discharged by
         `C12_dup_rejected_current` / `C12_stable_current`, closedness by `FragmentOK`);
      `hfrag`, `htab`, `hF4`: per section, the hypotheses of `C01_refinement_partial` (term maps of the core fragment; tables
         with the referenced columns and without raw NULL objects; no all-constant rule over an empty source);
      `hok`: per section, the grammar scope of C05;  `hcanon`: the canonicalisation ladder changes no cell a typed object map
         reads (bridge to C15; implied by `TypedOutsideLadder`, see `canonFixed_of_typedOutside`; needed, see
         `typed_hypothesis_needed`) —
    every environment `env` matching the specification environment `senv` (`EnvOK`, `NamesOK`), every labelling `ls` of the
    rule table and every third-party parser + store satisfying `ParserContract P N`:

    (1) nothing raises: `parse_mappings` returns a table `rs`, the partitioner returns with partitioning disabled and every
        mode that returns gives one label per rule, `materialize_set` returns a set `out`, both loaders return;
    (2) `out` is the union over the sections of the rendered statements that the generation rules prescribe for the section's
        document — an expression in which neither the files (`lib_files`) nor the labelling occur; each of these statements lies
        in the graphs its graph maps name (C08);
    (3) `out` is the union of the results of the asserted rules of `rs`; for every such rule that references data, on the tree as
        it is now: its statements are built one by one from the rows `_preprocess_data` hands over, each of these rows consists
        of genuine non-NA strings (no statement is built from a NULL), and a row is handed over iff it is the projection of a
        row of the table none of whose referenced cells is NULL (a statement is present iff all cells it uses are non-NULL);
    (4) for every enumeration `xs` of the set: there is a list `sts` of well-formed statements of which `xs` are the renderings
        and which the specification lexer reads back string by string; the text handed to the parser denotes exactly `sts`; the
        graph returned by `materialize` and the store returned by `materialize_oxigraph` hold exactly `sts.map N`, and exactly
        `sts` if the store's normalisation changes none of them. -/
theorem lib_graph {env : Env} {senv : SEnv} (henv : EnvOK env senv) (hn : NamesOK senv) (cfg : Config)
    (hnames : (cfg.map (·.name)).Nodup) (hF1 : hasDupId cfg = false)
    (hfrag : ∀ s ∈ cfg, FragmentOK senv (secDoc s) = true) (htab : ∀ s ∈ cfg, TablesOK senv (secDoc s) = true)
    (hF4 : ∀ s ∈ cfg, NoF4 senv (secDoc s) = true) (hok : ∀ s ∈ cfg, GrammarOK senv (secDoc s) = true)
    (hcanon : CanonFixed env (pre Gen.expandStarGuarded (rawRules cfg)) = true)
    (P : Str → Str → Option (List NQ.Stmt)) (N : NQ.Stmt → NQ.Stmt) (hP : ParserContract P N) :
    ∃ rs, parseNow cfg = .ok rs ∧
      (∃ ls, partitionLabels .none rs = .ok ls) ∧
      (∀ mode ls, partitionLabels mode rs = .ok ls → ls.length = rs.length) ∧
      ∀ ls, ls.length = rs.length →
        ∃ out, evalGrouped (withCanonNow env) (withLabels rs ls) = .ok out ∧
          -- (2) the set
          (∀ x, x ∈ out ↔ ∃ s ∈ cfg, x ∈ evalDoc senv (secDoc s)) ∧
          -- (2, C08) the graphs
          (∀ x ∈ out, ∃ s ∈ cfg, ∃ q ∈ quadsOf senv (secDoc s), x = renderPair senv.fmt q ∧
            ∃ tm ∈ (secDoc s).tms, ∃ ρ ∈ senv.table tm, ∃ gs,
              (gs = tm.graphs ∨ ∃ pom ∈ tm.poms, gs = tm.graphs ++ pom.graphs) ∧
              ((gs = [] ∧ q.2 = []) ∨
               (∃ gm ∈ gs, isDefaultGraph senv.defaultGraph gm = true ∧ q.2 = []) ∨
               (∃ gm ∈ gs, isDefaultGraph senv.defaultGraph gm = false ∧ genTerm senv.safe senv.na gm ρ = some q.2))) ∧
          -- (3) the rules and the NULLs
          (∀ x, x ∈ out ↔
            ∃ r ∈ rs, r.asserted = true ∧ ∃ lines, evalRule (withCanonNow env) rs r = .ok lines ∧ x ∈ lines) ∧
          (∀ r ∈ rs, r.asserted = true → ∃ lines, evalRule (withCanonNow env) rs r = .ok lines ∧
            (isAllConstant r = false →
              evalRuleG Gen.preprocessKind (withCanonNow env) rs r = .ok lines ∧
              ∃ rows, preprocessG Gen.preprocessKind env.na (refsOfRule r) (env.table r) = .ok rows ∧
                rows.mapM (rowTriple (withCanonNow env) r r.objectMapType r.objectMapValue []) = .ok lines ∧
                (∀ line, line ∈ lines ↔
                  ∃ σ ∈ rows, rowTriple (withCanonNow env) r r.objectMapType r.objectMapValue [] σ = .ok line) ∧
                (∀ σ ∈ rows, ∃ line ∈ lines,
                  rowTriple (withCanonNow env) r r.objectMapType r.objectMapValue [] σ = .ok line) ∧
                (∀ σ ∈ rows, GenuineValues env.na (refsOfRule r) (env.table r) σ) ∧
                (∀ σ, σ ∈ rows ↔ ∃ ρ ∈ env.table r, noNullRef env.na (refsOfRule r) ρ = true ∧
                  σ = projRow (dedupFirst (refsOfRule r)) ρ))) ∧
          -- (4) the graph / the store
          ∀ xs : List Str, (∀ x, x ∈ xs ↔ x ∈ out) →
            ∃ sts : List NQ.Stmt, (∀ st ∈ sts, NQ.wfStmt st = true) ∧
              xs = sts.map (NQ.renderStmtBody (shapeOf senv.fmt)) ∧
              xs.map (fun x => NQ.parseLine (x ++ ['.'])) = sts.map some ∧
              (xs ≠ [] → NQ.parseDoc (joinForLoader Gen.loaderRdflib.sep Gen.loaderRdflib.term xs) = some sts ∧
                         NQ.parseDoc (joinForLoader Gen.loaderOxigraph.sep Gen.loaderOxigraph.term xs) = some sts) ∧
              loaderResult P Gen.loaderRdflib xs = some (sts.map N) ∧
              loaderResult P Gen.loaderOxigraph xs = some (sts.map N) ∧
              ((∀ st ∈ sts, N st = st) →
                loaderResult P Gen.loaderRdflib xs = some sts ∧ loaderResult P Gen.loaderOxigraph xs = some sts) := by
  obtain ⟨rs, hparse, hrs, hnone, hlen, hall, hset⟩ := lib_set_canon henv hn cfg hnames hF1 hfrag htab hF4 hcanon
  refine ⟨rs, hparse, hnone, hlen, fun ls hl => ?_⟩
  obtain ⟨out, hout, h2, h3⟩ := hset ls hl
  refine ⟨out, hout, h2, fun x hx => ?_, h3, fun r hr ha => ?_, fun xs hxs => ?_⟩
  · obtain ⟨s, hs, hxs⟩ := (h2 x).mp hx
    obtain ⟨q, hq, e, rest⟩ := lib_graphs_of_statement senv (secDoc s) x hxs
    exact ⟨s, hs, q, hq, e, rest⟩
  · obtain ⟨lines, hl'⟩ := hall r hr ha
    refine ⟨lines, hl', fun hc => ?_⟩
    obtain ⟨f1, f2, f3⟩ := rule_facts henv cfg hfrag htab r (hrs ▸ hr)
    exact nulls_rule (withCanonNow env) rs r hc f1 f2 f3 lines hl'
  · apply loaders_of_bodies P N hP (shapeOf senv.fmt) xs
    intro x hx
    obtain ⟨s, hs, hxs'⟩ := (h2 x).mp ((hxs x).mp hx)
    exact evalDoc_wf senv (secDoc s) (hok s hs) x hxs'

/-! ### non-vacuity: a two-section configuration with a class, graph maps, a NULL cell and a typed literal

Section `A` has two mapping files (people, cities), section `B` one (items).  `people.csv` has a row whose `name` is the empty
string (an NA token: the NULL of a CSV source); `age` is typed `xsd:integer` (a key of the canonicalisation ladder; the cells
are canonical), `price` `xsd:double`; the statements of `Person` go to the template graph
`http://ex/g/{id}`, those of the `price` predicate-object map of `Item` to a constant graph. -/

namespace Ex

def tpl (pre col : String) (tt : TermType := .iri) : TermMap :=
  { kind := .template, tpl := ⟨pre.toList, [(col.toList, [])]⟩, termType := tt }
def const (v : String) : TermMap := { kind := .constant, value := v.toList, termType := .iri }
def ref (col : String) : TermMap := { kind := .reference, value := col.toList, termType := .literal }

def person : TriplesMap :=
  { id := "http://ex/tm/Person".toList, sourceName := [], lsv := "people.csv".toList, subject := tpl "http://ex/person/" "id",
    classes := ["http://ex/Person".toList], graphs := [tpl "http://ex/g/" "id"],
    poms := [⟨[const "http://ex/name"], [.term { ref "name" with lang := some "en".toList }], []⟩,
             ⟨[const "http://ex/age"],
              [.term { ref "age" with datatype := some xsdInteger }], []⟩] }

def city : TriplesMap :=
  { id := "http://ex/tm/City".toList, sourceName := [], lsv := "cities.csv".toList, subject := tpl "http://ex/city/" "cid",
    classes := [], graphs := [],
    poms := [⟨[const "http://ex/label"], [.term (ref "label")], []⟩] }

def item : TriplesMap :=
  { id := "http://ex/tm/Item".toList, sourceName := [], lsv := "items.csv".toList, subject := tpl "http://ex/item/" "sku",
    classes := ["http://ex/Item".toList], graphs := [],
    poms := [⟨[const "http://ex/price"],
              [.term { ref "price" with datatype := some "http://www.w3.org/2001/XMLSchema#double".toList }],
              [const "http://ex/g/prices"]⟩] }

/-- two sections; the triples maps of `A` are spread over two mapping files -/
def cfg : Config := [⟨"A".toList, [[person], [city]]⟩, ⟨"B".toList, [[item]]⟩]

def row (kv : List (String × String)) : Row := kv.map fun p => (p.1.toList, Cell.str p.2.toList)

def tablesE : List ((Str × Str) × Table) :=
  [ (("A".toList, "people.csv".toList),
      [row [("id", "1"), ("name", "Ann \"A\""), ("age", "30")],
       row [("id", "2"), ("name", ""), ("age", "41")]]),          -- `name` is NULL in the second row
    (("A".toList, "cities.csv".toList), [row [("cid", "c1"), ("label", "Oslo")]]),
    (("B".toList, "items.csv".toList), [row [("sku", "x 1"), ("price", "9.99")]]) ]

def senv : SEnv := { fmt := .nquads, tables := tablesE }
def env : Env := { cfg := { escapeChain := Gen.escapeChainTemplate }, fmt := .nquads, tables := tablesE }

theorem envOK : EnvOK env senv := ⟨⟨rfl, rfl, fun _ _ => rfl, rfl⟩, rfl, rfl, rfl, rfl⟩
theorem namesOK : NamesOK senv := ⟨rfl, rfl⟩
theorem names : (cfg.map (·.name)).Nodup := by decide +kernel
theorem noDup : hasDupId cfg = false := by decide +kernel
theorem fragmentOK : ∀ s ∈ cfg, FragmentOK senv (secDoc s) = true := by decide +kernel
theorem tablesOK : ∀ s ∈ cfg, TablesOK senv (secDoc s) = true := by decide +kernel
theorem noF4 : ∀ s ∈ cfg, NoF4 senv (secDoc s) = true := by decide +kernel
theorem grammarOK : ∀ s ∈ cfg, GrammarOK senv (secDoc s) = true := by decide +kernel
theorem canonOK : CanonFixed env (pre Gen.expandStarGuarded (rawRules cfg)) = true := by decide +kernel
/-- section `B` alone (datatype `xsd:double`) satisfies the sufficient condition on the mapping -/
example : CanonFixed env (pre Gen.expandStarGuarded (rawRules [⟨"B".toList, [[item]]⟩])) = true :=
  canonFixed_of_typedOutside env (by decide +kernel) (by decide +kernel)

/-- every hypothesis of `lib_graph` is discharged; the parser contract by the specification parser itself (`N = id`) -/
example := lib_graph envOK namesOK cfg names noDup fragmentOK tablesOK noF4 grammarOK canonOK
  (fun _ doc => NQ.parseDoc doc) id C18_contract_inhabited

example := lib_set envOK namesOK cfg names noDup fragmentOK tablesOK noF4

/-- the rule table of the example: six rules; MAXIMAL and PARTIAL-AGGREGATIONS label them (two instances of "every labelling") -/
def rs : List Rule := pre Gen.expandStarGuarded (rawRules cfg)

theorem parsed : parseNow cfg = .ok rs := (C12_dup_rejected_current cfg).2 noDup

theorem labelsMax : partitionLabels .maximal rs =
    .ok ["3-3-1-1".toList, "3-2-1-1".toList, "3-1-1-1".toList, "1-1-1-1".toList, "2-2-1-1".toList, "2-1-1-1".toList] := by
  decide +kernel

theorem labelsPartial : partitionLabels .partialAggregations rs =
    .ok ["3-5-2-1".toList, "3-3-3-1".toList, "3-1-5-1".toList, "1-2-6-2".toList, "2-5-1-2".toList, "2-4-4-1".toList] := by
  decide +kernel

/-- what `materialize_set` returns here, recomputed directly on the model: person 2 has a class and an age statement but no
    name statement (its `name` cell is NULL); the typed literals keep their lexical forms; graphs as mapped -/
theorem result : evalGrouped (withCanonNow env) (withLabels rs
      ["3-3-1-1".toList, "3-2-1-1".toList, "3-1-1-1".toList, "1-1-1-1".toList, "2-2-1-1".toList, "2-1-1-1".toList]) = .ok
    [ "<http://ex/person/1> <http://www.w3.org/1999/02/22-rdf-syntax-ns#type> <http://ex/Person> <http://ex/g/1>".toList,
      "<http://ex/person/2> <http://www.w3.org/1999/02/22-rdf-syntax-ns#type> <http://ex/Person> <http://ex/g/2>".toList,
      "<http://ex/person/1> <http://ex/name> \"Ann \\\"A\\\"\"@en <http://ex/g/1>".toList,
      "<http://ex/person/1> <http://ex/age> \"30\"^^<http://www.w3.org/2001/XMLSchema#integer> <http://ex/g/1>".toList,
      "<http://ex/person/2> <http://ex/age> \"41\"^^<http://www.w3.org/2001/XMLSchema#integer> <http://ex/g/2>".toList,
      "<http://ex/city/c1> <http://ex/label> \"Oslo\" ".toList,
      "<http://ex/item/x%201> <http://www.w3.org/1999/02/22-rdf-syntax-ns#type> <http://ex/Item> ".toList,
      "<http://ex/item/x%201> <http://ex/price> \"9.99\"^^<http://www.w3.org/2001/XMLSchema#double> <http://ex/g/prices>".toList ] := by
  decide +kernel

/-- … and what the parser side of (4) reads back from one of them: the typed literal with its lexical form, in its graph -/
example : NQ.parseLine ("<http://ex/person/2> <http://ex/age> \"41\"^^<http://www.w3.org/2001/XMLSchema#integer> <http://ex/g/2>".toList ++ ['.']) =
    some ⟨.iri "http://ex/person/2".toList, .iri "http://ex/age".toList,
          .lit "41".toList (.typed "http://www.w3.org/2001/XMLSchema#integer".toList), some (.iri "http://ex/g/2".toList)⟩ := by
  decide +kernel

end Ex

/-! ### what the hypotheses exclude -/

/-- `hF1` is needed for (1): an identifier declared by two sections is rejected by `parse_mappings` (`C12_dup_rejected_current`) -/
theorem dup_raises : ∃ ids, parseNow [⟨"A".toList, [[Ex.city]]⟩, ⟨"B".toList, [[Ex.city]]⟩] = .error (.dupTriplesMap ids) :=
  (C12_dup_rejected_current _).1 (by decide +kernel)

/-- `hcanon` is needed for (2): with datatype `xsd:integer` the ladder rewrites the cell `42.0`
    to `42` (documented canonicalisation, `C15_integer`), while `Spec.genTerm` — the reading of the generation rules that C01
    refines — keeps the cell. -/
theorem typed_hypothesis_needed :
    materializeTemplate (withCanonNow Ex.env).cfg .reference "n".toList (some .literal) xsdInteger []
      (fun _ => some "42.0".toList) = .ok "\"42\"".toList ∧
    genTerm [] [] { kind := .reference, value := "n".toList, termType := .literal, datatype := some xsdInteger }
      [("n".toList, .str "42.0".toList)] = some "\"42.0\"^^<http://www.w3.org/2001/XMLSchema#integer>".toList := by
  decide +kernel

end Props.PipelineLib
