/-
C07 (document level) — mapping documents WITH referencing object maps refine the generation rules.

`Props/C01.lean` relates the engine model `Model.evalAll env (Model.normalizeDoc doc)` to the generation rules `Spec.evalDoc` for
documents without referencing object maps; `Props/C07.lean` relates ONE referencing rule to the relational inner equi-join and
proves the self-join elimination sound.  This file composes them: for every document of the C01 fragment extended with referencing
object maps (`rr:parentTriplesMap` with at least one join condition), all tables and both output formats, the engine — rule
normalisation INCLUDING the self-join elimination performed by `Model.normalizeDoc`, then the materializer — does not raise and its
output has exactly the statements of `Spec.evalDoc`, i.e. for every referencing object map the statements of the relational inner
equi-join of the child and the parent logical table.
-/
import MorphKgc.Props.C01
import MorphKgc.Props.C07Now

namespace Props.C07Doc
open Py Model Spec Props.C01 Props.C07

/-! ## 1. the combinations of a triples map, any object map -/

/-- the (predicate map, object map, graph map) combinations of a triples map; the object map may be a referencing one -/
def ComboO (senv : SEnv) (tm : TriplesMap) (pm : TermMap) (o : ObjMap) (gm : TermMap) : Prop :=
  (∃ c ∈ tm.classes, pm = classPred senv ∧ o = .term (classObjTm c) ∧ gm ∈ effGraphs senv tm.graphs) ∨
  (∃ pom ∈ tm.poms, pm ∈ pom.predicates ∧ o ∈ pom.objects ∧ gm ∈ effGraphs senv (tm.graphs ++ pom.graphs))

theorem mem_stmtsFor_graphsO (senv : SEnv) (doc : Doc) (tm : TriplesMap) (ρ : Row) (gs : List TermMap)
    (pm : TermMap) (o : ObjMap) (line : Str) :
    line ∈ stmtsFor senv doc tm ρ gs pm o ↔ ∃ gm ∈ effGraphs senv gs, line ∈ stmtsFor senv doc tm ρ [gm] pm o := by
  unfold stmtsFor
  split
  · simp only [List.mem_flatMap, List.mem_map, mem_graphTerms senv gs ρ]
    constructor
    · rintro ⟨ot, hot, g, ⟨gm, hgm, hg⟩, rfl⟩
      exact ⟨gm, hgm, ot, hot, g, hg, rfl⟩
    · rintro ⟨gm, hgm, ot, hot, g, hg, rfl⟩
      exact ⟨ot, hot, g, ⟨gm, hgm, hg⟩, rfl⟩
  · simp

/-- the statements of a document, by combination (referencing object maps included) -/
theorem mem_evalDocO (senv : SEnv) (doc : Doc) (line : Str) :
    line ∈ evalDoc senv doc ↔
      ∃ tm ∈ doc.tms, ∃ pm o gm, ComboO senv tm pm o gm ∧ ∃ ρ ∈ senv.table tm, line ∈ stmtsFor senv doc tm ρ [gm] pm o := by
  unfold evalDoc
  simp only [List.mem_flatMap, List.mem_append]
  constructor
  · rintro ⟨tm, htm, ρ, hρ, h⟩
    refine ⟨tm, htm, ?_⟩
    rcases h with ⟨c, hc, hl⟩ | ⟨pom, hpom, p, hp, o, ho, hl⟩
    · rw [classObj_eq, mem_stmtsFor_graphsO] at hl
      obtain ⟨gm, hgm, hl⟩ := hl
      exact ⟨_, _, gm, .inl ⟨c, hc, rfl, rfl, hgm⟩, ρ, hρ, hl⟩
    · rw [mem_stmtsFor_graphsO] at hl
      obtain ⟨gm, hgm, hl⟩ := hl
      exact ⟨p, o, gm, .inr ⟨pom, hpom, hp, ho, hgm⟩, ρ, hρ, hl⟩
  · rintro ⟨tm, htm, pm, o, gm, hcombo, ρ, hρ, hl⟩
    refine ⟨tm, htm, ρ, hρ, ?_⟩
    rcases hcombo with ⟨c, hc, rfl, rfl, hgm⟩ | ⟨pom, hpom, hp, ho, hgm⟩
    · exact .inl ⟨c, hc, by rw [classObj_eq, mem_stmtsFor_graphsO]; exact ⟨gm, hgm, hl⟩⟩
    · exact .inr ⟨pom, hpom, pm, hp, _, ho, by rw [mem_stmtsFor_graphsO]; exact ⟨gm, hgm, hl⟩⟩

theorem pomRule_asserted (doc : Doc) (tm : TriplesMap) (p : TermMap) (o : ObjMap) (g : MapType × Str) :
    (pomRule doc tm p o g).asserted = true := by
  cases o <;> rfl

/-- the asserted rules of a triples map are the rules of its combinations -/
theorem mem_rulesOfTmO {senv : SEnv} (hn : NamesOK senv) (doc : Doc) (tm : TriplesMap) (r : Rule) :
    (r ∈ rulesOfTm doc tm ∧ r.asserted = true) ↔
      ∃ pm o gm, ComboO senv tm pm o gm ∧ r = pomRule doc tm pm o (mapOf gm) := by
  have hcp : classPred senv = classPredTm := by simp [classPred, classPredTm, hn.ty]
  have hclass : ∀ r, r ∈ (tm.classes.flatMap fun c => (pomGraphs tm []).map fun g => ruleOf tm classPredTm (classObjTm c) g) ↔
      ∃ c ∈ tm.classes, ∃ gm ∈ effGraphs senv tm.graphs,
        r = pomRule doc tm (classPred senv) (.term (classObjTm c)) (mapOf gm) := by
    intro r
    simp only [List.mem_flatMap, List.mem_map, mem_pomGraphs hn, List.append_nil, hcp]
    constructor
    · rintro ⟨c, hc, g, ⟨gm, hgm, rfl⟩, rfl⟩
      exact ⟨c, hc, gm, hgm, rfl⟩
    · rintro ⟨c, hc, gm, hgm, rfl⟩
      exact ⟨c, hc, _, ⟨gm, hgm, rfl⟩, rfl⟩
  have hpomR : ∀ r, r ∈ (tm.poms.flatMap fun pom => pom.predicates.flatMap fun p => pom.objects.flatMap fun o =>
            (pomGraphs tm pom.graphs).map fun g => pomRule doc tm p o g) ↔
      ∃ pom ∈ tm.poms, ∃ p ∈ pom.predicates, ∃ o ∈ pom.objects,
        ∃ gm ∈ effGraphs senv (tm.graphs ++ pom.graphs), r = pomRule doc tm p o (mapOf gm) := by
    intro r
    simp only [List.mem_flatMap, List.mem_map, mem_pomGraphs hn]
    constructor
    · rintro ⟨pom, hpom, p, hp, o, ho, g, ⟨gm, hgm, rfl⟩, rfl⟩
      exact ⟨pom, hpom, p, hp, o, ho, gm, hgm, rfl⟩
    · rintro ⟨pom, hpom, p, hp, o, ho, gm, hgm, rfl⟩
      exact ⟨pom, hpom, p, hp, o, ho, _, ⟨gm, hgm, rfl⟩, rfl⟩
  rw [rulesOfTm_eq]
  split
  · rename_i hnil
    constructor
    · rintro ⟨hr, ha⟩
      simp only [List.mem_singleton] at hr
      subst hr
      simp at ha
    · rintro ⟨pm, o, gm, hcombo, rfl⟩
      exfalso
      have : pomRule doc tm pm o (mapOf gm) ∈ ([] : List Rule) := by
        rw [← hnil, List.mem_append]
        rcases hcombo with ⟨c, hc, rfl, rfl, hgm⟩ | ⟨pom, hpom, hp, ho, hgm⟩
        · exact .inl ((hclass _).mpr ⟨c, hc, gm, hgm, rfl⟩)
        · exact .inr ((hpomR _).mpr ⟨pom, hpom, pm, hp, o, ho, gm, hgm, rfl⟩)
      simp at this
  · rw [List.mem_append, hclass, hpomR]
    constructor
    · rintro ⟨h | h, _⟩
      · obtain ⟨c, hc, gm, hgm, rfl⟩ := h
        exact ⟨_, _, gm, .inl ⟨c, hc, rfl, rfl, hgm⟩, rfl⟩
      · obtain ⟨pom, hpom, p, hp, o, ho, gm, hgm, rfl⟩ := h
        exact ⟨p, o, gm, .inr ⟨pom, hpom, hp, ho, hgm⟩, rfl⟩
    · rintro ⟨pm, o, gm, hcombo, rfl⟩
      refine ⟨?_, pomRule_asserted _ _ _ _ _⟩
      rcases hcombo with ⟨c, hc, rfl, rfl, hgm⟩ | ⟨pom, hpom, hp, ho, hgm⟩
      · exact .inl ⟨c, hc, gm, hgm, rfl⟩
      · exact .inr ⟨pom, hpom, pm, hp, o, ho, gm, hgm, rfl⟩

/-! ## 2. the rule table: what every rule of a triples map carries, and what the self-join elimination leaves alone -/

/-- the fields of a rule that identify its triples map, logical source and subject map -/
structure SameHead (r r' : Rule) : Prop where
  tmId : r.tmId = r'.tmId
  sourceName : r.sourceName = r'.sourceName
  lsv : r.logicalSourceValue = r'.logicalSourceValue
  iterator : r.iterator = r'.iterator
  smt : r.subjectMapType = r'.subjectMapType
  smv : r.subjectMapValue = r'.subjectMapValue
  stt : r.subjectTermtype = r'.subjectTermtype

theorem SameHead.refl (r : Rule) : SameHead r r := ⟨rfl, rfl, rfl, rfl, rfl, rfl, rfl⟩

theorem SameHead.trans {a b c : Rule} (h1 : SameHead a b) (h2 : SameHead b c) : SameHead a c :=
  ⟨h1.tmId.trans h2.tmId, h1.sourceName.trans h2.sourceName, h1.lsv.trans h2.lsv, h1.iterator.trans h2.iterator,
   h1.smt.trans h2.smt, h1.smv.trans h2.smv, h1.stt.trans h2.stt⟩

theorem pomRule_head (doc : Doc) (tm : TriplesMap) (p : TermMap) (o : ObjMap) (g : MapType × Str) :
    SameHead (pomRule doc tm p o g) (baseRule tm) := by
  cases o <;> exact ⟨rfl, rfl, rfl, rfl, rfl, rfl, rfl⟩

/-- every rule of a triples map carries the triples map's id, logical source and subject map -/
theorem rulesOfTm_head {doc : Doc} {tm : TriplesMap} {r : Rule} (hr : r ∈ rulesOfTm doc tm) : SameHead r (baseRule tm) := by
  rw [rulesOfTm_eq] at hr
  split at hr
  · simp only [List.mem_singleton] at hr
    subst hr
    exact ⟨rfl, rfl, rfl, rfl, rfl, rfl, rfl⟩
  · simp only [List.mem_append, List.mem_flatMap, List.mem_map] at hr
    rcases hr with ⟨c, _, g, _, rfl⟩ | ⟨pom, _, p, _, o, _, g, _, rfl⟩
    · exact ⟨rfl, rfl, rfl, rfl, rfl, rfl, rfl⟩
    · exact pomRule_head _ _ _ _ _

theorem rulesOfTm_ne_nil (doc : Doc) (tm : TriplesMap) : rulesOfTm doc tm ≠ [] := by
  rw [rulesOfTm_eq]
  split
  · simp
  · assumption

/-- the rewriting of one referencing rule, given the parent rule found -/
def elimWith (r parent : Rule) : Rule :=
  if r.sourceName = parent.sourceName && r.logicalSourceValue = parent.logicalSourceValue && r.iterator = parent.iterator
      && r.objectJoin.all (fun cp => cp.1 = cp.2) && subjRefsAreJoinCols r parent then
    { r with objectMapType := parent.subjectMapType, objectMapValue := parent.subjectMapValue,
             objectTermtype := parent.subjectTermtype, objectJoin := [] }
  else r

theorem eliminateSelfJoin_ref {rules : List Rule} {r parent : Rule} (hpt : r.objectMapType = .parentTM)
    (hfind : rules.find? (fun p => p.tmId = r.objectMapValue) = some parent) :
    eliminateSelfJoin rules r = elimWith r parent := by
  unfold eliminateSelfJoin elimWith
  simp only [hpt, ↓reduceIte, hfind]

theorem eliminateSelfJoin_plain {rules : List Rule} {r : Rule} (hpt : r.objectMapType ≠ .parentTM) :
    eliminateSelfJoin rules r = r := by
  unfold eliminateSelfJoin
  simp only [hpt, ↓reduceIte]

/-- the rewriting looks at the parent rule only through its section, logical source, iterator and subject map -/
theorem elimWith_congr (r : Rule) {p p' : Rule} (h : SameHead p p') : elimWith r p = elimWith r p' := by
  unfold elimWith subjRefsAreJoinCols refsOfRule
  simp only [h.sourceName, h.lsv, h.iterator, h.smt, h.smv, h.stt, ↓reduceIte]

theorem elimWith_head (r parent : Rule) : SameHead (elimWith r parent) r ∧ (elimWith r parent).asserted = r.asserted := by
  unfold elimWith
  split
  · exact ⟨⟨rfl, rfl, rfl, rfl, rfl, rfl, rfl⟩, rfl⟩
  · exact ⟨SameHead.refl r, rfl⟩

/-- self-join elimination never touches id, logical source, subject map or the asserted flag -/
theorem eliminateSelfJoin_head (rules : List Rule) (r : Rule) :
    SameHead (eliminateSelfJoin rules r) r ∧ (eliminateSelfJoin rules r).asserted = r.asserted := by
  by_cases hpt : r.objectMapType = .parentTM
  · cases hf : rules.find? (fun p => p.tmId = r.objectMapValue) with
    | none =>
      have : eliminateSelfJoin rules r = r := by unfold eliminateSelfJoin; simp only [hpt, ↓reduceIte, hf]
      rw [this]; exact ⟨SameHead.refl r, rfl⟩
    | some parent => rw [eliminateSelfJoin_ref hpt hf]; exact elimWith_head r parent
  · rw [eliminateSelfJoin_plain hpt]; exact ⟨SameHead.refl r, rfl⟩

/-- the rule table before self-join elimination -/
def rules0 (doc : Doc) : List Rule := dedupFirst (doc.tms.flatMap (rulesOfTm doc))

theorem normalizeDoc_eq (doc : Doc) : normalizeDoc doc = (rules0 doc).map (eliminateSelfJoin (rules0 doc)) := rfl

theorem mem_rules0 (doc : Doc) (r : Rule) : r ∈ rules0 doc ↔ ∃ tm ∈ doc.tms, r ∈ rulesOfTm doc tm := by
  unfold rules0
  rw [mem_dedupFirst, List.mem_flatMap]

/-- looking a triples map up in the normalised table = looking it up before the elimination, then rewriting -/
theorem find_normalizeDoc (doc : Doc) (pid : Str) :
    (normalizeDoc doc).find? (fun p => p.tmId = pid) =
      ((rules0 doc).find? (fun p => p.tmId = pid)).map (eliminateSelfJoin (rules0 doc)) := by
  rw [normalizeDoc_eq, List.find?_map]
  congr 2
  funext p
  simp only [Function.comp, (eliminateSelfJoin_head (rules0 doc) p).1.tmId]

/-- the parent triples map of a referencing object map exists and no other triples map carries its identifier -/
def UniqueParent (doc : Doc) (pid : Str) (ptm : TriplesMap) : Prop :=
  doc.tms.find? (fun t => t.id = pid) = some ptm ∧ ∀ t ∈ doc.tms, t.id = pid → t = ptm

theorem UniqueParent.mem {doc : Doc} {pid : Str} {ptm : TriplesMap} (h : UniqueParent doc pid ptm) :
    ptm ∈ doc.tms ∧ ptm.id = pid := by
  refine ⟨List.mem_of_find?_eq_some h.1, ?_⟩
  simpa using List.find?_some h.1

/-- the rule that `findRule` returns for the parent in the normalised table carries the parent's head -/
theorem find_parent {doc : Doc} {pid : Str} {ptm : TriplesMap} (h : UniqueParent doc pid ptm) :
    ∃ p0, (rules0 doc).find? (fun p => p.tmId = pid) = some p0 ∧ SameHead p0 (baseRule ptm) ∧
      findRule (normalizeDoc doc) pid = some (eliminateSelfJoin (rules0 doc) p0) := by
  obtain ⟨hmem, hid⟩ := h.mem
  obtain ⟨q, hq⟩ := List.exists_mem_of_ne_nil _ (rulesOfTm_ne_nil doc ptm)
  have hq0 : q ∈ rules0 doc := (mem_rules0 doc q).mpr ⟨ptm, hmem, hq⟩
  have hqid : q.tmId = pid := by rw [(rulesOfTm_head hq).tmId]; exact hid
  cases hf : (rules0 doc).find? (fun p => p.tmId = pid) with
  | none =>
    have := List.find?_eq_none.mp hf q hq0
    simp [hqid] at this
  | some p0 =>
    refine ⟨p0, rfl, ?_, ?_⟩
    · obtain ⟨t, ht, hp0⟩ := (mem_rules0 doc p0).mp (List.mem_of_find?_eq_some hf)
      have hp0id : p0.tmId = pid := by simpa using List.find?_some hf
      have hh := rulesOfTm_head hp0
      have : t = ptm := h.2 t ht (by rw [← hp0id, hh.tmId]; rfl)
      rw [← this]; exact hh
    · unfold findRule
      rw [find_normalizeDoc, hf]
      rfl

theorem SameHead.symm {a b : Rule} (h : SameHead a b) : SameHead b a :=
  ⟨h.tmId.symm, h.sourceName.symm, h.lsv.symm, h.iterator.symm, h.smt.symm, h.smv.symm, h.stt.symm⟩

/-! ## 3. well-formedness of documents with referencing object maps -/

/-- a referencing object map of the fragment: at least one join condition; the parent triples map exists and is the only one with
    that identifier.  (Until the repair of C07_F5 a third condition was needed — a parent with the same logical source value belongs
    to the same source section —, which `_remove_self_joins_no_condition` took for granted when it compared `logical_source_value`
    only; it now compares `source_name` too, see `Cw.same_lsv_other_source_*`.) -/
def RefOK (doc : Doc) (_tm : TriplesMap) (pid : Str) (conds : List (Str × Str)) : Bool :=
  !conds.isEmpty &&
  match doc.tms.find? (fun t => t.id = pid) with
  | none => false
  | some ptm => doc.tms.all (fun t => t.id != pid || t == ptm)

/-- object maps of the fragment: term maps of the C01 fragment, or referencing object maps satisfying `RefOK` -/
def ObjMapOK (doc : Doc) (tm : TriplesMap) : ObjMap → Bool
  | .term om => ObjOK om
  | .ref pid conds => RefOK doc tm pid conds

/-- syntax of the fragment: every term map is escape-free (as in `Props.C01.FragmentOK`); object maps are term maps of the fragment
    or referencing object maps satisfying `RefOK` (the parent's subject map is a subject map of the fragment because the parent is a
    triples map of the document) -/
def FragmentRefOK (senv : SEnv) (doc : Doc) : Bool :=
  doc.tms.all fun tm =>
    SubjOK tm.subject && tm.classes.all PlainStr && tm.graphs.all (GraphOK senv.defaultGraph) &&
    tm.poms.all fun pom =>
      pom.predicates.all PredOK &&
      pom.objects.all (ObjMapOK doc tm) &&
      pom.graphs.all (GraphOK senv.defaultGraph)

/-- the columns the parent frame of a referencing rule is read with: parent subject references + parent join columns -/
def parentCols (ptm : TriplesMap) (r : Rule) : List Str := tmRefs ptm.subject ++ r.objectJoin.map (·.2)

/-- a condition on every referencing rule of the rule table together with its parent triples map -/
def forRefRules (doc : Doc) (P : TriplesMap → Rule → TriplesMap → Bool) : Bool :=
  doc.tms.all fun tm => (rulesOfTm doc tm).all fun r =>
    r.objectMapType != .parentTM ||
      match doc.tms.find? (fun t => t.id = r.objectMapValue) with
      | some ptm => P tm r ptm
      | none => true

/-- complement of the scope of C07_F3: no reference of a referencing rule is `parent_` + a column of its parent frame -/
def NoPrefixClash (doc : Doc) : Bool :=
  forRefRules doc fun _ r ptm => (refsOfRule r).all fun c => (parentCols ptm r).all fun k => c != "parent_".toList ++ k

/-- reader guarantee for the parent side: the parent's table has the parent subject references and the parent join columns -/
def ParentTablesOK (senv : SEnv) (doc : Doc) : Bool :=
  forRefRules doc fun _ r ptm => Complete (parentCols ptm r) (senv.table ptm)

theorem RefOK_spec {doc : Doc} (tm : TriplesMap) {pid : Str} {conds : List (Str × Str)} (h : RefOK doc tm pid conds = true) :
    conds ≠ [] ∧ ∃ ptm, UniqueParent doc pid ptm := by
  unfold RefOK at h
  simp only [Bool.and_eq_true, Bool.not_eq_true', List.isEmpty_eq_false_iff] at h
  refine ⟨h.1, ?_⟩
  have h2 := h.2
  split at h2
  · cases h2
  · rename_i ptm hf
    simp only [List.all_eq_true, Bool.or_eq_true, bne_iff_ne, ne_eq, beq_iff_eq] at h2
    refine ⟨ptm, ⟨hf, fun t ht hid => ?_⟩⟩
    rcases h2 t ht with h' | h'
    · exact absurd hid h'
    · exact h'

theorem forRefRules_spec {doc : Doc} {P : TriplesMap → Rule → TriplesMap → Bool} (h : forRefRules doc P = true)
    {tm : TriplesMap} (htm : tm ∈ doc.tms) {r : Rule} (hr : r ∈ rulesOfTm doc tm) (hpt : r.objectMapType = .parentTM)
    {ptm : TriplesMap} (hf : doc.tms.find? (fun t => t.id = r.objectMapValue) = some ptm) : P tm r ptm = true := by
  simp only [forRefRules, List.all_eq_true, Bool.or_eq_true, bne_iff_ne, ne_eq] at h
  rcases h tm htm r hr with h' | h'
  · exact absurd hpt h'
  · simpa only [hf] using h'

/-- what the fragment predicate says about one combination -/
theorem FragmentRefOK_combo {senv : SEnv} {doc : Doc} (hn : NamesOK senv) (h : FragmentRefOK senv doc = true)
    {tm : TriplesMap} (htm : tm ∈ doc.tms) {pm gm : TermMap} {o : ObjMap} (hc : ComboO senv tm pm o gm) :
    SubjOK tm.subject = true ∧ PredOK pm = true ∧ GraphOK senv.defaultGraph gm = true ∧
      ObjMapOK doc tm o = true := by
  simp only [FragmentRefOK, List.all_eq_true, Bool.and_eq_true] at h
  obtain ⟨⟨⟨hs, hcl⟩, hgs⟩, hpoms⟩ := h tm htm
  have hdef : GraphOK senv.defaultGraph (defaultGm senv) = true := by
    simp [GraphOK, defaultGm, WFTermMap, hn.dg, plain_names.2]
  have heff : ∀ gs : List TermMap, (∀ g ∈ gs, GraphOK senv.defaultGraph g = true) →
      ∀ g ∈ effGraphs senv gs, GraphOK senv.defaultGraph g = true := by
    intro gs hgs g hg
    unfold effGraphs at hg
    split at hg
    · simp only [List.mem_singleton] at hg; subst hg; exact hdef
    · exact hgs g hg
  rcases hc with ⟨c, hc, rfl, rfl, hgm⟩ | ⟨pom, hpom, hp, ho, hgm⟩
  · refine ⟨hs, ?_, heff _ hgs gm hgm, ?_⟩
    · simp [PredOK, classPred, WFTermMap, hn.ty, plain_names.1]
    · simp [ObjMapOK, ObjOK, classObjTm, WFTermMap, hcl c hc]
  · obtain ⟨⟨hps, hos⟩, hpg⟩ := hpoms pom hpom
    refine ⟨hs, hps pm hp, heff _ ?_ gm hgm, hos _ ho⟩
    intro g hg
    rcases List.mem_append.mp hg with hg | hg
    · exact hgs g hg
    · exact hpg g hg

theorem FragmentRefOK_subj {senv : SEnv} {doc : Doc} (h : FragmentRefOK senv doc = true) {tm : TriplesMap}
    (htm : tm ∈ doc.tms) : SubjOK tm.subject = true := by
  simp only [FragmentRefOK, List.all_eq_true, Bool.and_eq_true] at h
  exact (h tm htm).1.1.1

/-! ## 4. one combination: the rule the normaliser leaves in the table refines the generation rules -/

/-- term maps of the fragment look up exactly their references -/
theorem refsExact_mapOf (tm : TermMap) (h : WFTermMap tm = true) : RefsExact (mapOf tm) := by
  unfold WFTermMap at h
  unfold RefsExact loopRefs mapOf refsOfMap
  cases hk : tm.kind <;> simp only [hk, Bool.and_eq_true] at h ⊢
  · -- constant
    have hp : PartsOK [] := fun p hp => by simp at hp
    have := refs_of_plain_text hp tm.value h.1
    simpa [partsText] using this
  · simp
  · -- reference
    have hp : PartsOK [(tm.value, ([] : Str))] := by
      intro p hp
      simp only [List.mem_singleton] at hp
      subst hp
      exact ⟨h.1, by simpa using h.2, rfl⟩
    have := refs_of_plain_text hp [] rfl
    simpa [partsText] using this

theorem sameOutcome_refl (a : Except MatErr (List Str)) : SameOutcome a a :=
  ⟨fun l1 h => ⟨l1, h, fun _ => Iff.rfl⟩, fun l2 h => ⟨l2, h⟩⟩

theorem table_of_head {env : Env} {senv : SEnv} (henv : EnvOK env senv) {r : Rule} {tm : TriplesMap}
    (h : SameHead r (baseRule tm)) : env.table r = senv.table tm := by
  unfold Env.table SEnv.table
  rw [henv.tables, h.sourceName, h.lsv]
  rfl

/-- **A referencing object map.** The rule that `normalizeDoc` leaves in the table for a referencing object map of the fragment —
    the join rule itself, or the parent's subject map evaluated on the row when the self-join elimination fires — evaluated against
    the normalised table, does not raise and yields exactly the statements the generation rules prescribe (the pairs of the
    relational inner equi-join of the two logical tables). -/
theorem ref_combo_refines {env : Env} {senv : SEnv} (henv : EnvOK env senv) (hn : NamesOK senv) (doc : Doc)
    (hfrag : FragmentRefOK senv doc = true) (htab : TablesOK senv doc = true) (hptab : ParentTablesOK senv doc = true)
    (hclash : NoPrefixClash doc = true) {tm : TriplesMap} (htm : tm ∈ doc.tms) {pm gm : TermMap} {pid : Str}
    {conds : List (Str × Str)} (hc : ComboO senv tm pm (.ref pid conds) gm) :
    ∃ lines, evalRule env (normalizeDoc doc)
        (eliminateSelfJoin (rules0 doc) (pomRule doc tm pm (.ref pid conds) (mapOf gm))) = .ok lines ∧
      ∀ line, line ∈ lines ↔ ∃ ρ ∈ senv.table tm, line ∈ stmtsFor senv doc tm ρ [gm] pm (.ref pid conds) := by
  obtain ⟨hs, hp, hg, hro⟩ := FragmentRefOK_combo hn hfrag htm hc
  obtain ⟨hne, ptm, hU⟩ := RefOK_spec tm hro
  obtain ⟨hptm, hpid⟩ := hU.mem
  subst hpid
  have hps : SubjOK ptm.subject = true := FragmentRefOK_subj hfrag hptm
  have hR : RefRuleOK senv.defaultGraph tm ptm pm gm := ⟨hs, hp, hg, hps⟩
  have wps : WFTermMap ptm.subject = true := by simp only [SubjOK, Bool.and_eq_true] at hps; exact hps.1
  have ws : WFTermMap tm.subject = true := by simp only [SubjOK, Bool.and_eq_true] at hs; exact hs.1
  have wp : WFTermMap pm = true := by simp only [PredOK, Bool.and_eq_true] at hp; exact hp.1
  have wg : WFTermMap gm = true := by simp only [GraphOK, Bool.and_eq_true] at hg; exact hg.1.1
  obtain ⟨p0, hf0, hh0, hfindN⟩ := find_parent hU
  have hhp : SameHead (eliminateSelfJoin (rules0 doc) p0) (baseRule ptm) := (eliminateSelfJoin_head _ p0).1.trans hh0
  generalize hprule : eliminateSelfJoin (rules0 doc) p0 = prule at hhp hfindN
  have hl : ParentLink env senv doc (normalizeDoc doc) ptm prule :=
    ⟨hfindN, hU.1, hhp.smt, hhp.smv, table_of_head henv hhp⟩
  -- the rule before the elimination
  have hrdef : pomRule doc tm pm (.ref ptm.id conds) (mapOf gm) = refRuleOf doc tm pm ptm.id conds (mapOf gm) := rfl
  rw [hrdef]
  have hrmem : refRuleOf doc tm pm ptm.id conds (mapOf gm) ∈ rulesOfTm doc tm :=
    ((mem_rulesOfTmO hn doc tm _).mpr ⟨pm, _, gm, hc, rfl⟩).1
  generalize hr : refRuleOf doc tm pm ptm.id conds (mapOf gm) = r at hrmem
  have hpt : r.objectMapType = .parentTM := by rw [← hr]; rfl
  have hov : r.objectMapValue = ptm.id := by rw [← hr]; rfl
  have hoj : r.objectJoin = conds := by rw [← hr]; rfl
  have hfd : doc.tms.find? (fun t => t.id = r.objectMapValue) = some ptm := by rw [hov]; exact hU.1
  have hprefs : parentRefsOf r prule = parentCols ptm r := parentRefsOf_link hl wps r
  have hno : RuleNoClash r prule := by
    have := forRefRules_spec hclash htm hrmem hpt hfd
    simp only [List.all_eq_true, bne_iff_ne, ne_eq] at this
    intro c hcm k hk
    have hk' : k ∈ parentCols ptm r := by rw [← hprefs]; exact hk
    exact this c hcm k hk'
  simp only [TablesOK, List.all_eq_true, Bool.and_eq_true] at htab
  have hcomp : Complete (refsOfRule r) (senv.table tm) = true := (htab tm htm).2 r hrmem
  have hcompP : Complete (parentRefsOf r prule) (senv.table ptm) = true := by
    rw [hprefs]; exact forRefRules_spec hptab htm hrmem hpt hfd
  have htabr : env.table r = senv.table tm := by rw [← hr]; exact table_refRuleOf henv doc tm pm ptm.id conds (mapOf gm)
  -- the join rule against the normalised table: the generation rules (C07, rule level)
  obtain ⟨lines, hlines, hiff⟩ : ∃ lines, evalRule env (normalizeDoc doc) r = .ok lines ∧
      ∀ line, line ∈ lines ↔ ∃ ρ ∈ senv.table tm, line ∈ stmtsFor senv doc tm ρ [gm] pm (.ref ptm.id conds) := by
    have := C07_refobj_generation_rules henv doc (normalizeDoc doc) tm ptm pm gm conds prule hR hl
      (by rw [hr]; exact hno) (by rw [hr]; exact hcomp) (by rw [hr]; exact hcompP) (htab tm htm).1 (htab ptm hptm).1
    rw [hr] at this
    exact this
  -- the rule the normaliser leaves in the table: the elimination as the source performs it now, against the normalised table
  have hfindN' : findRule (normalizeDoc doc) r.objectMapValue = some prule := by rw [hov]; exact hfindN
  have helim : eliminateSelfJoin (rules0 doc) r = eliminateSelfJoinG Gen.elimShape (normalizeDoc doc) r := by
    rw [C07_shared_model_is_current, eliminateSelfJoin_ref hpt (by rw [hov]; exact hf0),
      eliminateSelfJoin_ref hpt (show (normalizeDoc doc).find? (fun p => p.tmId = r.objectMapValue) = some prule from hfindN')]
    apply elimWith_congr
    rw [← hprule]
    exact (eliminateSelfJoin_head _ p0).1.symm
  have hso : SameOutcome (evalRule env (normalizeDoc doc) (eliminateSelfJoinG Gen.elimShape (normalizeDoc doc) r))
      (evalRule env (normalizeDoc doc) r) := by
    by_cases ht : elimTests Gen.elimShape r prule = true
    · have ht' : elimTests ElimShape.current r prule = true := by rw [← C07_current_elim_shape]; exact ht
      rw [elimTests_current] at ht'
      simp only [Bool.and_eq_true, decide_eq_true_eq] at ht'
      obtain ⟨_, hsr⟩ := ht'
      have hjne : r.objectJoin ≠ [] := by rw [hoj]; exact hne
      -- the parent subject map is not a constant: it refers to the (at least one) join column
      have hnotc : prule.subjectMapType ≠ .constant := by
        intro hcst
        unfold subjRefsAreJoinCols at hsr
        have hie : r.objectJoin.isEmpty = false := by cases h : r.objectJoin <;> simp_all
        simp only [hie, Bool.false_or, Bool.and_eq_true, List.all_eq_true, List.contains_eq_mem, decide_eq_true_eq] at hsr
        obtain ⟨cp, rest, hcons⟩ := List.exists_cons_of_ne_nil hjne
        have := hsr.2.2 cp.2 (by rw [hcons]; simp)
        simp [refsOfRule, hcst, refsOfMap] at this
      apply C07_elimination_current env (normalizeDoc doc) r prule hpt hfindN' hjne
      · rw [← hr, refRuleOf_objectTermtype hU.1, hhp.stt]; rfl
      · simp [isAllConstant, eliminated, hnotc]
      · intro m hm
        have hown : ownMaps r = [mapOf tm.subject, mapOf pm, mapOf gm] := by rw [← hr]; rfl
        rw [hown] at hm
        simp only [List.mem_cons, List.not_mem_nil, or_false] at hm
        rcases hm with rfl | rfl | rfl
        · exact refsExact_mapOf _ ws
        · exact refsExact_mapOf _ wp
        · exact refsExact_mapOf _ wg
      · have : (prule.subjectMapType, prule.subjectMapValue) = mapOf ptm.subject := by
          rw [hhp.smt, hhp.smv]; rfl
        rw [this]; exact refsExact_mapOf _ wps
      · exact hno
      · rw [htabr]; exact hcomp
    · rw [C07_elim_result _ _ r prule hpt hfindN']
      simp only [ht, Bool.false_eq_true, ↓reduceIte]
      exact sameOutcome_refl _
  rw [helim]
  obtain ⟨l1, hl1⟩ := hso.2 lines hlines
  obtain ⟨l2, hl2, hmem⟩ := hso.1 l1 hl1
  rw [hlines] at hl2
  cases hl2
  exact ⟨l1, hl1, fun line => (hmem line).trans (hiff line)⟩

/-- **Any combination** (term-valued or referencing object map): the rule in the normalised table refines the generation rules. -/
theorem combo_refines {env : Env} {senv : SEnv} (henv : EnvOK env senv) (hn : NamesOK senv) (doc : Doc)
    (hfrag : FragmentRefOK senv doc = true) (htab : TablesOK senv doc = true) (hptab : ParentTablesOK senv doc = true)
    (hclash : NoPrefixClash doc = true) (hF4 : NoF4 senv doc = true) {tm : TriplesMap} (htm : tm ∈ doc.tms)
    {pm gm : TermMap} {o : ObjMap} (hc : ComboO senv tm pm o gm) :
    ∃ lines, evalRule env (normalizeDoc doc) (eliminateSelfJoin (rules0 doc) (pomRule doc tm pm o (mapOf gm))) = .ok lines ∧
      ∀ line, line ∈ lines ↔ ∃ ρ ∈ senv.table tm, line ∈ stmtsFor senv doc tm ρ [gm] pm o := by
  cases o with
  | ref pid conds => exact ref_combo_refines henv hn doc hfrag htab hptab hclash htm hc
  | term om =>
    obtain ⟨hs, hp, hg, ho⟩ := FragmentRefOK_combo hn hfrag htm hc
    have hmem := ((mem_rulesOfTmO hn doc tm _).mpr ⟨pm, _, gm, hc, rfl⟩).1
    show ∃ lines, evalRule env (normalizeDoc doc) (eliminateSelfJoin (rules0 doc) (ruleOf tm pm om (mapOf gm))) = .ok lines ∧ _
    rw [eliminateSelfJoin_plain (mapOf_ne_parentTM om)]
    simp only [TablesOK, List.all_eq_true, Bool.and_eq_true] at htab
    simp only [NoF4, List.all_eq_true, Bool.or_eq_true, Bool.not_eq_true', List.isEmpty_eq_false_iff] at hF4
    apply rule_refinement henv doc _ tm pm om gm ⟨hs, hp, ho, hg⟩ ((htab tm htm).2 _ hmem) (htab tm htm).1
    intro hac
    rcases hF4 tm htm _ hmem with h | h
    · rw [show pomRule doc tm pm (.term om) (mapOf gm) = ruleOf tm pm om (mapOf gm) from rfl, hac] at h; cases h
    · exact h

/-- the asserted rules of the normalised table are the (possibly rewritten) rules of the combinations of the document -/
theorem mem_normalizeDocO {senv : SEnv} (hn : NamesOK senv) (doc : Doc) (r' : Rule) :
    (r' ∈ normalizeDoc doc ∧ r'.asserted = true) ↔
      ∃ tm ∈ doc.tms, ∃ pm o gm, ComboO senv tm pm o gm ∧
        r' = eliminateSelfJoin (rules0 doc) (pomRule doc tm pm o (mapOf gm)) := by
  rw [normalizeDoc_eq, List.mem_map]
  constructor
  · rintro ⟨⟨r, hr, rfl⟩, ha⟩
    rw [(eliminateSelfJoin_head _ r).2] at ha
    obtain ⟨tm, htm, hrt⟩ := (mem_rules0 doc r).mp hr
    obtain ⟨pm, o, gm, hc, rfl⟩ := (mem_rulesOfTmO hn doc tm r).mp ⟨hrt, ha⟩
    exact ⟨tm, htm, pm, o, gm, hc, rfl⟩
  · rintro ⟨tm, htm, pm, o, gm, hc, rfl⟩
    have hm := (mem_rulesOfTmO hn doc tm _).mpr ⟨pm, o, gm, hc, rfl⟩
    exact ⟨⟨_, (mem_rules0 doc _).mpr ⟨tm, htm, hm.1⟩, rfl⟩, by rw [(eliminateSelfJoin_head _ _).2]; exact hm.2⟩

/-! ## 5. the document-level theorem -/

/-- **C07, document level.** For every mapping document of the C01 fragment extended with referencing object maps
    (`FragmentRefOK`: escape-free term maps; every referencing object map has at least one join condition, its parent triples map
    exists, is unique, and lies in the same source section when it has the same logical source value), all tables satisfying the
    reader guarantees (`TablesOK` for every rule's own references, `ParentTablesOK` for the parent subject references and parent
    join columns; no raw null objects), outside the scopes of C07_F3 (`NoPrefixClash`) and C01_F4 (`NoF4`), and both output formats
    (`env.fmt`, tied to `senv.fmt` by `EnvOK`): the engine model — rule normalisation including the self-join elimination, then the
    materializer with `_merge_data` — does not raise, and the set of its lines is the set of rendered statements of the generation
    rules `Spec.evalDoc`, whose referencing object maps are evaluated by the relational inner equi-join (`Spec.joinRows`). -/
theorem C07_doc_refinement {env : Env} {senv : SEnv} (henv : EnvOK env senv) (hn : NamesOK senv) (doc : Doc)
    (hfrag : FragmentRefOK senv doc = true) (htab : TablesOK senv doc = true) (hptab : ParentTablesOK senv doc = true)
    (hclash : NoPrefixClash doc = true) (hF4 : NoF4 senv doc = true) :
    ∃ out, evalAll env (normalizeDoc doc) = .ok out ∧ ∀ line, line ∈ out ↔ line ∈ evalDoc senv doc := by
  have hrule := fun (tm : TriplesMap) (htm : tm ∈ doc.tms) (pm : TermMap) (o : ObjMap) (gm : TermMap)
      (hc : ComboO senv tm pm o gm) => combo_refines henv hn doc hfrag htab hptab hclash hF4 htm hc
  have hall : ∀ r ∈ normalizeDoc doc, r.asserted = true → ∃ lines, evalRule env (normalizeDoc doc) r = .ok lines := by
    intro r hr ha
    obtain ⟨tm, htm, pm, o, gm, hc, rfl⟩ := (mem_normalizeDocO hn doc r).mp ⟨hr, ha⟩
    obtain ⟨lines, hl, _⟩ := hrule tm htm pm o gm hc
    exact ⟨lines, hl⟩
  obtain ⟨out, hout, hmem⟩ := evalAll_spec env (normalizeDoc doc) hall
  refine ⟨out, hout, fun line => ?_⟩
  rw [hmem, mem_evalDocO senv doc]
  constructor
  · rintro ⟨r, hr, ha, lines, hl, hline⟩
    obtain ⟨tm, htm, pm, o, gm, hc, rfl⟩ := (mem_normalizeDocO hn doc r).mp ⟨hr, ha⟩
    obtain ⟨lines', hl', hiff⟩ := hrule tm htm pm o gm hc
    rw [hl] at hl'
    cases hl'
    exact ⟨tm, htm, pm, o, gm, hc, (hiff line).mp hline⟩
  · rintro ⟨tm, htm, pm, o, gm, hc, hρ⟩
    obtain ⟨lines, hl, hiff⟩ := hrule tm htm pm o gm hc
    have hm := (mem_normalizeDocO hn doc _).mpr ⟨tm, htm, pm, o, gm, hc, rfl⟩
    exact ⟨_, hm.1, hm.2, lines, hl, (hiff line).mpr hρ⟩

/-- the engine does not raise -/
theorem C07_doc_no_raise {env : Env} {senv : SEnv} (henv : EnvOK env senv) (hn : NamesOK senv) (doc : Doc)
    (hfrag : FragmentRefOK senv doc = true) (htab : TablesOK senv doc = true) (hptab : ParentTablesOK senv doc = true)
    (hclash : NoPrefixClash doc = true) (hF4 : NoF4 senv doc = true) : ∃ out, evalAll env (normalizeDoc doc) = .ok out :=
  let ⟨out, h, _⟩ := C07_doc_refinement henv hn doc hfrag htab hptab hclash hF4
  ⟨out, h⟩

/-- no statement appears that the generation rules (with the relational join) do not prescribe -/
theorem C07_doc_no_extra {env : Env} {senv : SEnv} (henv : EnvOK env senv) (hn : NamesOK senv) (doc : Doc)
    (hfrag : FragmentRefOK senv doc = true) (htab : TablesOK senv doc = true) (hptab : ParentTablesOK senv doc = true)
    (hclash : NoPrefixClash doc = true) (hF4 : NoF4 senv doc = true) (line : Str)
    (h : line ∈ (evalAll env (normalizeDoc doc)).toOption.getD []) : line ∈ evalDoc senv doc := by
  obtain ⟨out, hout, hiff⟩ := C07_doc_refinement henv hn doc hfrag htab hptab hclash hF4
  rw [hout] at h
  exact (hiff line).mp h

/-- no statement the generation rules prescribe — in particular no pair of the join — is missing -/
theorem C07_doc_no_missing {env : Env} {senv : SEnv} (henv : EnvOK env senv) (hn : NamesOK senv) (doc : Doc)
    (hfrag : FragmentRefOK senv doc = true) (htab : TablesOK senv doc = true) (hptab : ParentTablesOK senv doc = true)
    (hclash : NoPrefixClash doc = true) (hF4 : NoF4 senv doc = true) (line : Str)
    (h : line ∈ evalDoc senv doc) : line ∈ (evalAll env (normalizeDoc doc)).toOption.getD [] := by
  obtain ⟨out, hout, hiff⟩ := C07_doc_refinement henv hn doc hfrag htab hptab hclash hF4
  rw [hout]
  exact (hiff line).mpr h

/-- on documents without referencing object maps the new hypotheses are those of `C01_refinement_partial` -/
theorem FragmentRefOK_of_FragmentOK {senv : SEnv} {doc : Doc} (h : FragmentOK senv doc = true) :
    FragmentRefOK senv doc = true ∧ ParentTablesOK senv doc = true ∧ NoPrefixClash doc = true := by
  have hnr := FragmentOK_noRef h
  refine ⟨?_, ?_, ?_⟩
  · simp only [FragmentOK, List.all_eq_true, Bool.and_eq_true] at h
    simp only [FragmentRefOK, List.all_eq_true, Bool.and_eq_true]
    intro tm htm
    obtain ⟨h1, h2⟩ := h tm htm
    refine ⟨h1, fun pom hpom => ?_⟩
    obtain ⟨⟨h3, h4⟩, h5⟩ := h2 pom hpom
    refine ⟨⟨h3, fun o ho => ?_⟩, h5⟩
    have := h4 o ho
    cases o <;> simp_all [ObjMapOK]
  · simp only [ParentTablesOK, forRefRules, List.all_eq_true, Bool.or_eq_true, bne_iff_ne, ne_eq]
    exact fun tm htm r hr => .inl (objectMapType_rulesOfTm hnr htm hr)
  · simp only [NoPrefixClash, forRefRules, List.all_eq_true, Bool.or_eq_true, bne_iff_ne, ne_eq]
    exact fun tm htm r hr => .inl (objectMapType_rulesOfTm hnr htm hr)

/-- `C01_refinement_partial` is the special case without referencing object maps -/
theorem C07_doc_refinement_extends_C01 {env : Env} {senv : SEnv} (henv : EnvOK env senv) (hn : NamesOK senv) (doc : Doc)
    (hfrag : FragmentOK senv doc = true) (htab : TablesOK senv doc = true) (hF4 : NoF4 senv doc = true) :
    ∃ out, evalAll env (normalizeDoc doc) = .ok out ∧ ∀ line, line ∈ out ↔ line ∈ evalDoc senv doc :=
  let ⟨h1, h2, h3⟩ := FragmentRefOK_of_FragmentOK hfrag
  C07_doc_refinement henv hn doc h1 htab h2 h3 hF4

/-! ## 6. non-vacuity: a concrete two-triples-map document, tables and environment satisfying every hypothesis -/

namespace Ex

/-- child table: `k` is not a key (rows 1 and 2 share `x`), row 3 has a NULL key (the empty string is an NA token), row 4 has no partner -/
def child : Table :=
  [ [("id".toList, .str "1".toList), ("k".toList, .str "x".toList)],
    [("id".toList, .str "2".toList), ("k".toList, .str "x".toList)],
    [("id".toList, .str "3".toList), ("k".toList, .str [])],
    [("id".toList, .str "4".toList), ("k".toList, .str "q".toList)] ]

/-- parent table: duplicate key `x` (rows 7 and 8), a NULL key (`nan` is an NA token) -/
def parent : Table :=
  [ [("id".toList, .str "7".toList), ("k".toList, .str "x".toList)],
    [("id".toList, .str "8".toList), ("k".toList, .str "x".toList)],
    [("id".toList, .str "9".toList), ("k".toList, .str "nan".toList)] ]

def tablesE : List ((Str × Str) × Table) := [(("DS".toList, "c.csv".toList), child), (("DS".toList, "p.csv".toList), parent)]
def senv : SEnv := { fmt := .nquads, tables := tablesE }
def env : Env := { cfg := { escapeChain := Gen.escapeChainTemplate }, fmt := .nquads, tables := tablesE }

def subjC : TermMap := { kind := .template, tpl := ⟨"http://ex/C/".toList, [("id".toList, [])]⟩ }
def subjP : TermMap := { kind := .template, tpl := ⟨"http://ex/P/".toList, [("id".toList, [])]⟩ }
def pRef : TermMap := { kind := .constant, value := "http://ex/p".toList }
def pSelf : TermMap := { kind := .constant, value := "http://ex/self".toList }
def pKey : TermMap := { kind := .constant, value := "http://ex/k".toList }
def oKey : TermMap := { kind := .reference, value := "k".toList, termType := .literal }
def gTpl : TermMap := { kind := .template, tpl := ⟨"http://ex/g/".toList, [("id".toList, [])]⟩ }

/-- the child triples map: a many-to-many join with the parent on the non-key column `k` (placed in a row-dependent graph), a
    self-join on `id` (which the normaliser eliminates: the parent subject map — its own — uses exactly `id`), and a term-valued
    object map -/
def tmC : TriplesMap :=
  { id := "#TM0".toList, sourceName := "DS".toList, lsv := "c.csv".toList, subject := subjC, classes := [], graphs := [],
    poms := [⟨[pRef], [.ref "#TM1".toList [("k".toList, "k".toList)]], [gTpl]⟩,
             ⟨[pSelf], [.ref "#TM0".toList [("id".toList, "id".toList)]], []⟩,
             ⟨[pKey], [.term oKey], []⟩] }

def tmP : TriplesMap :=
  { id := "#TM1".toList, sourceName := "DS".toList, lsv := "p.csv".toList, subject := subjP,
    classes := ["http://ex/Parent".toList], graphs := [], poms := [] }

def doc : Doc := ⟨[tmC, tmP]⟩

theorem envOK : EnvOK env senv := ⟨⟨rfl, rfl, fun _ _ => rfl, rfl⟩, rfl, rfl, rfl, rfl⟩
theorem namesOK : NamesOK senv := ⟨rfl, rfl⟩
theorem fragmentRefOK : FragmentRefOK senv doc = true := by decide +kernel
theorem tablesOK : TablesOK senv doc = true := by decide +kernel
theorem parentTablesOK : ParentTablesOK senv doc = true := by decide +kernel
theorem noPrefixClash : NoPrefixClash doc = true := by decide +kernel
theorem noF4 : NoF4 senv doc = true := by decide +kernel

/-- the normalised table: the join with `#TM1` stays a join, the self-join on `id` has been replaced by the subject map -/
example : (normalizeDoc doc).map (fun r => (r.objectMapType, r.objectMapValue, r.objectJoin)) =
    [ (.parentTM, "#TM1".toList, [("k".toList, "k".toList)]), (.template, "http://ex/C/{id}".toList, []),
      (.reference, "k".toList, []), (.constant, "http://ex/Parent".toList, []) ] := by decide +kernel

/-- what the engine model produces: the four pairs of the many-to-many join on `k = x` (each in the child row's graph), nothing
    for the NULL keys and for the row without partner; the self-join links every row with itself; then the plain rules -/
example : evalAll env (normalizeDoc doc) = .ok
    [ "<http://ex/C/1> <http://ex/p> <http://ex/P/7> <http://ex/g/1>".toList,
      "<http://ex/C/1> <http://ex/p> <http://ex/P/8> <http://ex/g/1>".toList,
      "<http://ex/C/2> <http://ex/p> <http://ex/P/7> <http://ex/g/2>".toList,
      "<http://ex/C/2> <http://ex/p> <http://ex/P/8> <http://ex/g/2>".toList,
      "<http://ex/C/1> <http://ex/self> <http://ex/C/1> ".toList, "<http://ex/C/2> <http://ex/self> <http://ex/C/2> ".toList,
      "<http://ex/C/3> <http://ex/self> <http://ex/C/3> ".toList, "<http://ex/C/4> <http://ex/self> <http://ex/C/4> ".toList,
      "<http://ex/C/1> <http://ex/k> \"x\" ".toList, "<http://ex/C/2> <http://ex/k> \"x\" ".toList,
      "<http://ex/C/4> <http://ex/k> \"q\" ".toList,
      "<http://ex/P/7> <http://www.w3.org/1999/02/22-rdf-syntax-ns#type> <http://ex/Parent> ".toList,
      "<http://ex/P/8> <http://www.w3.org/1999/02/22-rdf-syntax-ns#type> <http://ex/Parent> ".toList,
      "<http://ex/P/9> <http://www.w3.org/1999/02/22-rdf-syntax-ns#type> <http://ex/Parent> ".toList ] := by decide +kernel

example : ∃ out, evalAll env (normalizeDoc doc) = .ok out ∧ ∀ line, line ∈ out ↔ line ∈ evalDoc senv doc :=
  C07_doc_refinement envOK namesOK doc fragmentRefOK tablesOK parentTablesOK noPrefixClash noF4

/-- the same document in N-TRIPLES (the other output format) -/
def senvNT : SEnv := { fmt := .ntriples, tables := tablesE }
def envNT : Env := { cfg := { escapeChain := Gen.escapeChainTemplate }, fmt := .ntriples, tables := tablesE }

example : ∃ out, evalAll envNT (normalizeDoc doc) = .ok out ∧ ∀ line, line ∈ out ↔ line ∈ evalDoc senvNT doc :=
  C07_doc_refinement ⟨⟨rfl, rfl, fun _ _ => rfl, rfl⟩, rfl, rfl, rfl, rfl⟩ ⟨rfl, rfl⟩ doc (by decide +kernel) (by decide +kernel)
    (by decide +kernel) noPrefixClash (by decide +kernel)

end Ex

/-! ## 7. the repaired finding C07_F5 (old shape of the elimination test) and what the first condition of `RefOK` excludes
(counter-witnesses on the model) -/

namespace Cw

def tA : Table := [[("k".toList, .str "x".toList)], [("k".toList, .str "y".toList)]]
def tB : Table := [[("k".toList, .str "x".toList)]]

def subjK (pre : String) : TermMap := { kind := .template, tpl := ⟨pre.toList, [("k".toList, [])]⟩ }
def pred : TermMap := { kind := .constant, value := "http://ex/p".toList }

/-- child over source section `A`, parent over source section `B`, both with logical source value `t` -/
def docOf (conds : List (Str × Str)) (parentSource : String) : Doc :=
  ⟨[{ id := "#TM0".toList, sourceName := "A".toList, lsv := "t".toList, subject := subjK "http://ex/C/", classes := [], graphs := [],
      poms := [⟨[pred], [.ref "#TM1".toList conds], []⟩] },
    { id := "#TM1".toList, sourceName := parentSource.toList, lsv := "t".toList, subject := subjK "http://ex/P/", classes := [],
      graphs := [], poms := [] }]⟩

def tablesE : List ((Str × Str) × Table) := [(("A".toList, "t".toList), tA), (("B".toList, "t".toList), tB)]
def senv : SEnv := { tables := tablesE }
def env : Env := { cfg := { escapeChain := Gen.escapeChainTemplate }, tables := tablesE }

/-- **C07_F5 (counter-witness, shape of the elimination test before the repair): same logical source value, different source
    section.**  Until the repair the self-join elimination compared `logical_source_value` and the iterator only
    (`_remove_self_joins_no_condition`; `ElimShape.repaired` = the shape after the repair of C07_F1 only), not the source section: a
    join between two tables of the same name in two databases / directories was taken for a self-join and replaced by the row
    itself.  Table `t` of `A` has keys `x`, `y`; table `t` of `B` has `x` only: the join has one pair, the engine yielded two
    statements.  (Reproduced on the real engine: two configuration sections with their own SQLite `db_url`, `rr:tableName "t"` in
    both, join on `k`: `materialize_set` returned `C/y p P/y` although `B.t` has no row `y`.) -/
theorem same_lsv_other_source_engine :
    evalAll env (normalizeDocG ElimShape.repaired (docOf [("k".toList, "k".toList)] "B")) = .ok
      [ "<http://ex/C/x> <http://ex/p> <http://ex/P/x>".toList, "<http://ex/C/y> <http://ex/p> <http://ex/P/y>".toList ] := by
  decide +kernel

theorem same_lsv_other_source_spec :
    evalDoc senv (docOf [("k".toList, "k".toList)] "B") = [ "<http://ex/C/x> <http://ex/p> <http://ex/P/x>".toList ] := by
  decide +kernel

/-- every hypothesis of `C07_doc_refinement` holds for this document (before the repair `RefOK` had to exclude it) -/
theorem same_lsv_other_source_rest :
    TablesOK senv (docOf [("k".toList, "k".toList)] "B") = true ∧ ParentTablesOK senv (docOf [("k".toList, "k".toList)] "B") = true ∧
    NoPrefixClash (docOf [("k".toList, "k".toList)] "B") = true ∧ NoF4 senv (docOf [("k".toList, "k".toList)] "B") = true ∧
    FragmentRefOK senv (docOf [("k".toList, "k".toList)] "B") = true ∧ FragmentRefOK senv (docOf [("k".toList, "k".toList)] "A") = true := by
  decide +kernel

/-- **C07_F5 repaired**: with the test of the section (the shape the source has now, `Model.normalizeDoc`) the join between the two
    sections stays a join and the engine yields exactly the statement of the generation rules -/
theorem same_lsv_other_source_fixed :
    evalAll env (normalizeDoc (docOf [("k".toList, "k".toList)] "B")) = .ok (evalDoc senv (docOf [("k".toList, "k".toList)] "B")) ∧
    evalAll env (normalizeDocG ElimShape.current (docOf [("k".toList, "k".toList)] "B")) =
      .ok (evalDoc senv (docOf [("k".toList, "k".toList)] "B")) ∧
    (normalizeDoc (docOf [("k".toList, "k".toList)] "B")).any (fun r => r.objectMapType == .parentTM) = true ∧
    -- … while the same join inside one section is still replaced by the row itself
    (normalizeDoc (docOf [("k".toList, "k".toList)] "A")).all (fun r => r.objectMapType != .parentTM) = true := by
  decide +kernel

/-- … as an instance of the document-level theorem, which no longer excludes it -/
example : ∃ out, evalAll env (normalizeDoc (docOf [("k".toList, "k".toList)] "B")) = .ok out ∧
    ∀ line, line ∈ out ↔ line ∈ evalDoc senv (docOf [("k".toList, "k".toList)] "B") :=
  C07_doc_refinement ⟨⟨rfl, rfl, fun _ _ => rfl, rfl⟩, rfl, rfl, rfl, rfl⟩ ⟨rfl, rfl⟩ _ same_lsv_other_source_rest.2.2.2.2.1
    same_lsv_other_source_rest.1 same_lsv_other_source_rest.2.1 same_lsv_other_source_rest.2.2.1 same_lsv_other_source_rest.2.2.2.1

/-- **No join condition** (first conjunct of `RefOK`).  R2RML evaluates a referencing object map without join condition on the row
    itself; `Spec.joinRows` without conditions is the cross product; the model's normaliser rewrites it to the row itself when the
    logical source values agree (pandas' `merge` without keys raises otherwise).  Outside the fragment. -/
theorem no_condition_engine :
    evalAll env (normalizeDoc (docOf [] "A")) = .ok
      [ "<http://ex/C/x> <http://ex/p> <http://ex/P/x>".toList, "<http://ex/C/y> <http://ex/p> <http://ex/P/y>".toList ] := by
  decide +kernel

theorem no_condition_spec :
    evalDoc senv (docOf [] "A") =
      [ "<http://ex/C/x> <http://ex/p> <http://ex/P/x>".toList, "<http://ex/C/x> <http://ex/p> <http://ex/P/y>".toList,
        "<http://ex/C/y> <http://ex/p> <http://ex/P/x>".toList, "<http://ex/C/y> <http://ex/p> <http://ex/P/y>".toList ] := by
  decide +kernel

end Cw

end Props.C07Doc
