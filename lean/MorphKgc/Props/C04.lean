/-
C04 — Result is independent of process count and of worker scheduling.

The behaviour that comes from the Python source is mentioned through the generated definitions
`Gen.writerShape` (utils.triples_to_file), `Gen.mainShape` (__main__.py and the worker) and `Gen.libShape`
(__init__.materialize_set); their decidable side conditions are discharged by `decide`, so `lake build`
re-checks every theorem against what /repo says now.

Trusted (not provable here, see TRUSTED_BASE of tools/props/C04.py): one `write(2)` on a local regular file
opened with `O_APPEND` appends its payload atomically; `Pool.starmap` runs every task exactly once; the io
layers behave as `Model.Writer.rawWrites` (validated against strace on every run); the per-call `mp.Lock`
excludes nobody (so the schedule is arbitrary — which is exactly what `Interleaving` quantifies over).
-/
import MorphKgc.Gen.Writer
import MorphKgc.Lemmas.Writer

namespace Props.C04
open Py Model.Writer

abbrev NL : Char := '\n'

/-! ### the generated shapes satisfy the side conditions -/

theorem writerShape_ok : Gen.writerShape.ok = true := by decide
theorem mainShape_ok : Gen.mainShape.ok = true := by decide
theorem libShape_ok : Gen.libShape.ok = true := by decide
theorem translated : Gen.writerTranslated = true := by decide

/-! ### one `f.write` per statement, ending in the only newline -/

theorem renderCall_no_nl (t : Str) (ht : NL ∉ t) (ps : List Piece)
    (h : ps.all (fun p => match p with | .lit s' => !(s'.contains '\n') | .triple => true) = true) :
    NL ∉ renderCall t ps := by
  intro hm
  simp only [renderCall, List.mem_flatMap] at hm
  obtain ⟨p, hp, hx⟩ := hm
  have := List.all_eq_true.1 h p hp
  cases p with
  | lit s => simp_all
  | triple => exact ht hx

theorem lineFormat_isLine (ps : List Piece) (h : lineFormatOk ps = true) (t : Str) (ht : NL ∉ t) :
    IsLine NL (renderCall t ps) := by
  unfold lineFormatOk at h
  split at h
  · rename_i s hl
    simp only [Bool.and_eq_true, Bool.not_eq_true', beq_iff_eq] at h
    obtain ⟨⟨h1, h2⟩, h3⟩ := h
    obtain ⟨ys, rfl⟩ := List.getLast?_eq_some_iff.1 hl
    obtain ⟨zs, rfl⟩ := List.getLast?_eq_some_iff.1 h1
    simp only [List.dropLast_concat] at h2 h3
    refine ⟨renderCall t ys ++ zs, ?_, ?_⟩
    · intro hm
      rcases List.mem_append.1 hm with hm | hm
      · exact renderCall_no_nl t ht _ h3 hm
      · simp_all
    · simp [renderCall]
  · simp at h

theorem ok_calls (sh : WriterShape) (hs : sh.ok = true) : ∃ ps, sh.calls = [ps] ∧ lineFormatOk ps = true := by
  unfold WriterShape.ok at hs
  simp only [Bool.and_eq_true] at hs
  obtain ⟨⟨_, h⟩, _⟩ := hs
  split at h
  · rename_i ps hc; exact ⟨ps, hc, h⟩
  · simp at h

/-- under the side condition, one loop iteration is one `f.write` of one complete line -/
theorem callsOfTriple_line (sh : WriterShape) (hs : sh.ok = true) (t : Str) (ht : NL ∉ t) :
    callsOfTriple sh t = [renderLine sh t] ∧ IsLine NL (renderLine sh t) := by
  obtain ⟨ps, hc, h⟩ := ok_calls sh hs
  simp only [callsOfTriple, renderLine, hc, List.map_cons, List.map_nil, List.flatten_cons, List.flatten_nil,
    List.append_nil, true_and]
  exact lineFormat_isLine ps h t ht

theorem callsOf_lines (sh : WriterShape) (hs : sh.ok = true) (triples : List Str) (hn : ∀ t ∈ triples, NL ∉ t) :
    callsOf sh triples = triples.map (renderLine sh) := by
  induction triples with
  | nil => rfl
  | cons t ts ih =>
    have := (callsOfTriple_line sh hs t (hn t (by simp))).1
    simp only [callsOf, List.flatMap_cons, List.map_cons] at ih ⊢
    rw [this, ih (fun t' ht' => hn t' (by simp [ht'])) ]
    rfl

/-- generic form of `C04_chunks_whole_lines` for any writer shape that satisfies the side condition -/
theorem chunks_whole_lines (sh : WriterShape) (hs : sh.ok = true) (triples : List Str) (hn : ∀ t ∈ triples, NL ∉ t)
    (chunk buf : Nat) :
    (∀ c ∈ workerWrites sh chunk buf triples, WholeLines NL c) ∧
    (workerWrites sh chunk buf triples).flatten = (triples.map (renderLine sh)).flatten ∧
    (∀ t ∈ triples, IsLine NL (renderLine sh t)) := by
  have hl : ∀ t ∈ triples, IsLine NL (renderLine sh t) := fun t ht => (callsOfTriple_line sh hs t (hn t ht)).2
  refine ⟨?_, ?_, hl⟩
  · apply rawWrites_closed utf8w (wholeLines_closed NL)
    rw [callsOf_lines sh hs triples hn]
    intro d hd
    obtain ⟨t, ht, rfl⟩ := List.mem_map.1 hd
    exact wholeLines_of_isLine NL (hl t ht)
  · rw [workerWrites, rawWrites_flat, callsOf_lines sh hs triples hn]

/-- **C04, io layers.** For every list of statements (none containing a newline), every chunk size of the text
layer and every buffer size: every `write(2)` payload that `triples_to_file` (as it is in /repo now) produces is
a concatenation of complete lines, the payloads concatenate to exactly the rendered statements in order
(nothing lost, duplicated or reordered), and every rendered statement is one complete line. -/
theorem C04_chunks_whole_lines (triples : List Str) (hn : ∀ t ∈ triples, NL ∉ t) (chunk buf : Nat) :
    (∀ c ∈ workerWrites Gen.writerShape chunk buf triples, WholeLines NL c) ∧
    (workerWrites Gen.writerShape chunk buf triples).flatten = (triples.map (renderLine Gen.writerShape)).flatten ∧
    (∀ t ∈ triples, IsLine NL (renderLine Gen.writerShape t)) :=
  chunks_whole_lines Gen.writerShape writerShape_ok triples hn chunk buf

/-- the same, for *statements* instead of lines, without any hypothesis on the statements: every payload is a
concatenation of whole rendered statements (so even a statement containing a newline is never split) -/
theorem C04_chunks_whole_statements (triples : List Str) (chunk buf : Nat) :
    ∀ c ∈ workerWrites Gen.writerShape chunk buf triples,
      ∃ ts : List Str, c = (ts.map (renderLine Gen.writerShape)).flatten := by
  have hc : Closed (fun c : Str => ∃ ts : List Str, c = (ts.map (renderLine Gen.writerShape)).flatten) :=
    ⟨⟨[], rfl⟩, by rintro _ _ ⟨t1, rfl⟩ ⟨t2, rfl⟩; exact ⟨t1 ++ t2, by simp⟩⟩
  apply rawWrites_closed utf8w hc
  intro d hd
  simp only [callsOf, List.mem_flatMap] at hd
  obtain ⟨t, _, hd⟩ := hd
  have h1 : callsOfTriple Gen.writerShape t = [renderLine Gen.writerShape t] := by
    simp only [renderLine, callsOfTriple]
    obtain ⟨ps, hps, _⟩ := ok_calls _ writerShape_ok
    simp [hps]
  rw [h1] at hd
  exact ⟨[t], by simpa using hd⟩

/-- the payload sizes the correspondence compares with strace are those of the payloads of the theorem -/
theorem C04_rawLens_are_payload_sizes (triples : List Str) (chunk buf : Nat) :
    (workerWrites Gen.writerShape chunk buf triples).map (wlen utf8w)
      = rawLens chunk buf ((callsOf Gen.writerShape triples).map (wlen utf8w)) :=
  rawLens_spec chunk buf _

/-! ### how a change of the writer is caught: two `f.write` calls per statement -/

/-- `f.write(triple); f.write(' .\n')` -/
def twoCallShape : WriterShape := { Gen.writerShape with calls := [[.triple], [.lit [' ', '.', '\n']]] }

theorem twoCallShape_not_ok : twoCallShape.ok = false := by decide

/-- with two calls per statement there are statements and sizes for which a payload is not whole lines -/
theorem C04_two_calls_counterwitness :
    ∃ (triples : List Str) (chunk buf : Nat), (∀ t ∈ triples, NL ∉ t) ∧
      ∃ c ∈ workerWrites twoCallShape chunk buf triples, ¬ WholeLines NL c := by
  refine ⟨[['a', 'b'], ['c']], 4, 4, by decide, ['a', 'b'], by decide, ?_⟩
  intro h
  have := wholeLinesB_of_whole NL _ h
  revert this
  decide

/-! ### any schedule of atomic appends of whole-line payloads -/

/-- **C04, scheduling.** For every list of workers, each a list of payloads that are whole lines, and every
interleaving of their appends to one file: the lines of the file are a permutation of all workers' lines. -/
theorem C04_interleaving (ws : List (List Str)) (hL : ∀ w ∈ ws, ∀ c ∈ w, WholeLines NL c)
    (sched : List Str) (hs : Interleaving ws sched) :
    (lines NL (appendAll [] sched)).Perm (ws.flatten.flatMap (lines NL)) := by
  have hp := hs.perm
  have hw : ∀ c ∈ sched, WholeLines NL c := by
    intro c hc
    obtain ⟨w, hw, hcw⟩ := List.mem_flatten.1 (hp.mem_iff.1 hc)
    exact hL w hw c hcw
  rw [appendAll_eq, List.nil_append, lines_flatMap_of_whole NL sched hw]
  exact hp.flatMap_right _

/-- consequences spelled out: every line of the file is a complete line written by some worker (not truncated,
not mixed with another), and occurs exactly as often as the workers wrote it (not lost, not duplicated);
each worker's lines keep their order -/
theorem C04_interleaving_lines (ws : List (List Str)) (hL : ∀ w ∈ ws, ∀ c ∈ w, WholeLines NL c)
    (sched : List Str) (hs : Interleaving ws sched) :
    (∀ l, (lines NL (appendAll [] sched)).count l = (ws.flatten.flatMap (lines NL)).count l) ∧
    (∀ l ∈ lines NL (appendAll [] sched), IsLine NL l ∧ ∃ w ∈ ws, ∃ c ∈ w, l ∈ lines NL c) ∧
    (∀ w ∈ ws, (w.flatMap (lines NL)).Sublist (lines NL (appendAll [] sched))) := by
  have hp := C04_interleaving ws hL sched hs
  refine ⟨fun l => hp.count_eq l, ?_, ?_⟩
  · intro l hl
    obtain ⟨c, hc, hlc⟩ := List.mem_flatMap.1 (hp.mem_iff.1 hl)
    obtain ⟨w, hw, hcw⟩ := List.mem_flatten.1 hc
    exact ⟨lines_all_isLine_of_whole NL c (hL w hw c hcw) l hlc, w, hw, c, hcw, hlc⟩
  · intro w hw
    have hws : ∀ c ∈ sched, WholeLines NL c := by
      intro c hc
      obtain ⟨w', hw', hcw⟩ := List.mem_flatten.1 (hs.perm.mem_iff.1 hc)
      exact hL w' hw' c hcw
    rw [appendAll_eq, List.nil_append, lines_flatMap_of_whole NL sched hws]
    exact sublist_flatMap (lines NL) (hs.sublist w hw)

/-! ### the command line run, end to end in the model -/

theorem worker_lines (triples : List Str) (hn : ∀ t ∈ triples, NL ∉ t) (chunk buf : Nat) :
    (workerWrites Gen.writerShape chunk buf triples).flatMap (lines NL) = triples.map (renderLine Gen.writerShape) := by
  obtain ⟨h1, h2, h3⟩ := C04_chunks_whole_lines triples hn chunk buf
  rw [← lines_flatMap_of_whole NL _ h1, h2]
  apply lines_flatten
  intro l hl
  obtain ⟨t, ht, rfl⟩ := List.mem_map.1 hl
  exact h3 t ht

/-- **C04, command line.** Whatever the output file contained before, for every list of mapping groups (one
worker task = one `triples_to_file` call per group), every chunk and buffer size and EVERY interleaving of the
workers' raw writes — hence for every `number_of_processes`, which only restricts which interleavings can
occur — the lines of the output file are a permutation of the rendered statements of all groups. -/
theorem C04_cli_any_schedule (old : Str) (groups : List (List Str)) (hn : ∀ g ∈ groups, ∀ t ∈ g, NL ∉ t)
    (chunk buf : Nat) (sched : List Str)
    (hs : Interleaving (groups.map (workerWrites Gen.writerShape chunk buf)) sched) :
    (lines NL (cliFile Gen.mainShape old sched)).Perm (groups.flatten.map (renderLine Gen.writerShape)) := by
  have hprep : Gen.mainShape.prepareBeforeWorkers = true := by
    have := mainShape_ok
    simp only [MainShape.ok, Bool.and_eq_true] at this
    exact this.1.1.1
  have hL : ∀ w ∈ groups.map (workerWrites Gen.writerShape chunk buf), ∀ c ∈ w, WholeLines NL c := by
    intro w hw c hc
    obtain ⟨g, hg, rfl⟩ := List.mem_map.1 hw
    exact (C04_chunks_whole_lines g (hn g hg) chunk buf).1 c hc
  have h := C04_interleaving _ hL sched hs
  simp only [cliFile, hprep, if_true]
  refine h.trans (List.Perm.of_eq ?_)
  clear h hL hs
  induction groups with
  | nil => rfl
  | cons g gs ih =>
    simp only [List.map_cons, List.flatten_cons, List.flatMap_append, List.map_append]
    rw [worker_lines g (hn g (by simp)) chunk buf, ih (fun g' hg' => hn g' (by simp [hg']))]

/-- the multi-process file equals the single-process file as a multiset of lines: the single-process run is the
sequential schedule -/
theorem C04_cli_equals_single_process (old old' : Str) (groups : List (List Str)) (hn : ∀ g ∈ groups, ∀ t ∈ g, NL ∉ t)
    (chunk buf : Nat) (sched : List Str)
    (hs : Interleaving (groups.map (workerWrites Gen.writerShape chunk buf)) sched) :
    (lines NL (cliFile Gen.mainShape old sched)).Perm
      (lines NL (cliFile Gen.mainShape old' (groups.map (workerWrites Gen.writerShape chunk buf)).flatten)) :=
  (C04_cli_any_schedule old groups hn chunk buf sched hs).trans
    (C04_cli_any_schedule old' groups hn chunk buf _ (Interleaving.sequential _)).symm

/-! ### the library path -/

/-- **C04, library.** Any order of the per-group results gives the same set. -/
theorem C04_union_order {parts parts' : List (List Str)} (σ : parts.Perm parts') :
    ∀ x, x ∈ parts.flatten ↔ x ∈ parts'.flatten := by
  intro x
  simp only [List.mem_flatten]
  constructor
  · rintro ⟨p, hp, hx⟩; exact ⟨p, σ.mem_iff.1 hp, hx⟩
  · rintro ⟨p, hp, hx⟩; exact ⟨p, σ.mem_iff.2 hp, hx⟩

/-- any distribution of the groups over processes (each process returning its groups' results in any order)
gives the same set -/
theorem C04_union_grouping {parts : List (List Str)} (assign : List (List (List Str))) (h : assign.flatten.Perm parts) :
    ∀ x, x ∈ (assign.map List.flatten).flatten ↔ x ∈ parts.flatten := by
  intro x
  rw [← C04_union_order h x]
  simp only [List.mem_flatten, List.mem_map]
  constructor
  · rintro ⟨_, ⟨a, ha, rfl⟩, hx⟩
    obtain ⟨p, hp, hx⟩ := List.mem_flatten.1 hx
    exact ⟨p, ⟨a, ha, hp⟩, hx⟩
  · rintro ⟨p, ⟨a, ha, hp⟩, hx⟩
    exact ⟨a.flatten, ⟨a, ha, rfl⟩, List.mem_flatten.2 ⟨p, hp, hx⟩⟩

theorem mem_combine (k : Combine) (hk : (k == .unionStar || k == .updateLoop) = true) (parts : List (List Str)) (x : Str) :
    x ∈ combine k parts ↔ x ∈ parts.flatten := by
  cases k with
  | unionStar => simp [combine]
  | updateLoop =>
    have := appendAll_eq ([] : List Str) parts
    simp only [appendAll, List.nil_append] at this
    simp [combine, this]
  | unknown => simp at hk

/-- `materialize_set` as it is in /repo now: the multi-process combination of the per-group results, taken in
any order, has the same members as the single-process loop -/
theorem C04_library_nproc {parts parts' : List (List Str)} (σ : parts.Perm parts') :
    ∀ x, x ∈ combine Gen.libShape.pool parts' ↔ x ∈ combine Gen.libShape.seq parts := by
  have h := libShape_ok
  simp only [LibShape.ok, Bool.and_eq_true] at h
  intro x
  rw [mem_combine _ h.1, mem_combine _ h.2]
  exact (C04_union_order σ x).symm

/-! ### non-vacuity -/

/-- the generated format renders a statement as `<statement> .\n` -/
example : renderLine Gen.writerShape ['<', 'a', '>'] = ['<', 'a', '>', ' ', '.', '\n'] := by decide

/-- a concrete run of the io model: three 4-byte lines, chunk 8, buffer 4: the first two lines reach the chunk
size and go out as one direct write, the third at the final flush -/
example : workerWrites Gen.writerShape 8 4 [['a'], ['b'], ['c']]
    = [['a', ' ', '.', '\n', 'b', ' ', '.', '\n'], ['c', ' ', '.', '\n']] := by decide

/-- the same through the size-only function used by the correspondence -/
example : rawLens 8 4 [4, 4, 4] = [8, 4] := by decide
example : rawLens 8192 4096 [5000, 5000, 100, 9000, 10] = [5000, 5100, 9000, 10] := by decide

/-- hypotheses of `C04_chunks_whole_lines` are satisfiable with payloads that really are several lines -/
example : (∀ t ∈ [['a'], ['b'], ['c']], NL ∉ t) := by decide

/-- a schedule that is not sequential: worker 1, worker 2, worker 1 -/
example : Interleaving [[['x', '\n'], ['y', '\n']], [['z', '\n']]] [['x', '\n'], ['z', '\n'], ['y', '\n']] :=
  .step (pre := []) (.step (pre := [[['y', '\n']]]) (post := []) (.step (pre := []) (.done (by simp))))

example : WholeLines NL ['x', '\n', 'y', '\n'] :=
  ⟨[['x', '\n'], ['y', '\n']], by
    intro l hl
    simp only [List.mem_cons, List.not_mem_nil, or_false] at hl
    rcases hl with rfl | rfl
    · exact ⟨['x'], by decide, rfl⟩
    · exact ⟨['y'], by decide, rfl⟩, rfl⟩

/-- without whole-line payloads the conclusion of `C04_interleaving` fails: the hypothesis is needed -/
example : ¬ (lines NL (appendAll [] [['a'], ['b', '\n'], ['c', '\n']])).Perm
    (([[['a'], ['c', '\n']], [['b', '\n']]] : List (List Str)).flatten.flatMap (lines NL)) := by
  intro h
  have := h.length_eq
  revert this
  decide

example : lines NL ['a', '\n', 'b', 'c', '\n', 'd'] = [['a', '\n'], ['b', 'c', '\n'], ['d']] := by decide

end Props.C04
