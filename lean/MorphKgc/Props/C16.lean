/-
C16 — Materialization is a pure function of configuration, mappings and data.

"Repeated calls with the same arguments return identical results, a call is unaffected by any earlier calls made in
the same process, and the caller's in-memory sources, the data files and the mapping files are left unmodified."

`call` is `Model.Proc.callWith` at the shape the translator reads from /repo NOW (`Gen.procShape`): a change of
`load_udfs`, `get_ram_data`, `configure_logger` or `materialize_set` changes the generated shape and these theorems
are re-checked against it by `lake build`. The materialization logic is an arbitrary `Logic` (a parameter), the
histories are arbitrary lists of calls, the starting state `p0` is arbitrary (i.e. "after any earlier calls").
-/
import MorphKgc.Gen.Proc
import MorphKgc.Lemmas.Proc

namespace Props.C16
open Py Model.Proc

variable {ρ ε : Type}

/-- a library call / a history of library calls, as the code of /repo is now -/
def call (L : Logic ρ ε) (p : Proc) (a : Args) : Proc × ρ := callWith Gen.procShape L p a
def runHistory (L : Logic ρ ε) (p : Proc) (as : List Args) : Proc × List ρ := run Gen.procShape L p as

/-! ### side conditions on the generated facts -/

/-- the translator recognised every mechanism, and no mutable default argument is mutated -/
theorem C16_shape_recognised :
    Gen.procShape.recognised = true ∧ Gen.procTranslated = true ∧ Gen.procMutatedDefaults = [] ∧
    Gen.procShape.udfLoad = .freshPerUse := by decide

/-- every piece of process-global state / file effect found in the package is on the argued allow-list -/
theorem C16_state_listed : Gen.procUnlisted = [] := by decide

/-! ### the result does not depend on what earlier calls left behind -/

/-- General form: for any shape that loads UDFs afresh, the result is determined by the arguments, the named sources
    and the files the call reads — not by `udfModule`, `logger`, `clock`, other objects or other files. -/
theorem result_indep_views (sh : Shape) (hsh : sh.udfLoad = .freshPerUse) (L : Logic ρ ε) (hdet : L.entropyFree)
    (p p' : Proc) (a : Args) (hnd : a.nondet = false)
    (hheap : ∀ n ∈ a.sourceNames, look p.heap n = look p'.heap n)
    (hfiles : ∀ q ∈ reads a, look p.files q = look p'.files q) :
    (callWith sh L p a).2 = (callWith sh L p' a).2 := by
  have hs : viewSources p.heap a = viewSources p'.heap a := by
    unfold viewSources
    apply List.map_congr_left
    intro n hn; rw [hheap n hn]
  have hi : viewInputs p.files a = viewInputs p'.files a := by
    unfold viewInputs
    apply List.map_congr_left
    intro q hq; rw [hfiles q (by simp [reads, hq])]
  have hu : a.udfFile.bind (look p.files) = a.udfFile.bind (look p'.files) := by
    cases hf : a.udfFile with
    | none => rfl
    | some u => simp only [Option.bind_some]; exact hfiles u (by simp [reads, hf])
  have hd : (if a.usesUdf then loadUdfs sh.udfLoad p.udfModule (a.udfFile.bind (look p.files)) else (p.udfModule, none)).2
      = (if a.usesUdf then loadUdfs sh.udfLoad p'.udfModule (a.udfFile.bind (look p'.files)) else (p'.udfModule, none)).2 := by
    cases a.usesUdf with
    | false => rfl
    | true => simp only [if_true, hsh, loadUdfs_fresh, hu]
  show L.F a (viewSources p.heap a) (viewInputs p.files a) _ (L.E p.clock)
     = L.F a (viewSources p'.heap a) (viewInputs p'.files a) _ (L.E p'.clock)
  rw [hs, hi, hd]
  exact hdet a hnd _ _ _ _ _

/-- C16 (a): the result of a call depends only on its arguments, the heap and the files. -/
theorem C16_result_indep (L : Logic ρ ε) (hdet : L.entropyFree) (p p' : Proc) (a : Args) (hnd : a.nondet = false)
    (h : p.heap = p'.heap ∧ p.files = p'.files) : (call L p a).2 = (call L p' a).2 :=
  result_indep_views Gen.procShape C16_shape_recognised.2.2.2 L hdet p p' a hnd
    (fun _ _ => by rw [h.1]) (fun _ _ => by rw [h.2])

/-! ### the inputs are left unmodified -/

theorem heap_unmodified (sh : Shape) (L : Logic ρ ε) (p : Proc) (a : Args)
    (hk : sh.frameMutatesCaller = false ∨ scopeF1 p.heap a = false) : (callWith sh L p a).1.heap = p.heap := by
  show (if a.multiproc then p.heap else touchHeap sh a.sourceNames p.heap) = p.heap
  cases hm : a.multiproc with
  | true => rfl
  | false =>
    simp only [Bool.false_eq_true, if_false]
    apply touchHeap_id
    cases hk with
    | inl h => exact Or.inl h
    | inr h => right; simpa [scopeF1, hm] using h

theorem files_unmodified (sh : Shape) (L : Logic ρ ε) (p : Proc) (a : Args) (q : Str)
    (hq : q ∉ activeLog (callWith sh L p a).1.logger) : look (callWith sh L p a).1.files q = look p.files q :=
  lookup_writeLog _ _ q hq p.files

/-- C16 (b), for ANY shape (in particular the unfixed one), outside the scope of finding C16_F1: the heap is unchanged
    and every file other than the active logging file keeps its content. -/
theorem C16_inputs_unmodified_partial (sh : Shape) (L : Logic ρ ε) (p : Proc) (a : Args)
    (hK : ¬ scope_C16_F1 p a = true) :
    (callWith sh L p a).1.heap = p.heap ∧
    ∀ q, q ∉ activeLog (callWith sh L p a).1.logger → look (callWith sh L p a).1.files q = look p.files q :=
  ⟨heap_unmodified sh L p a (Or.inr (by simpa [scope_C16_F1] using hK)), fun q hq => files_unmodified sh L p a q hq⟩

/-- the shape of the code before the fix `get_ram_data: work on a copy` -/
def mutatingShape : Shape := { Gen.procShape with frameMutatesCaller := true }

def witnessHeap : Heap :=
  [(['d', 'f'], .frame [{ name := ['n'], objectDtype := true, cells := [.str ['x', '"', 'y'], .str ['p']] },
                        { name := ['k'], objectDtype := false, cells := [.other ['1'], .other ['2']] }])]
def witnessArgs : Args :=
  { config := [], sourceNames := [['d', 'f']], inputs := [], udfFile := none, usesUdf := false, multiproc := false,
    logging := { level := ['I', 'N', 'F', 'O'], file := none }, nondet := false }

/-- Counter-witness (finding C16_F1): with the mutating shape a frame cell `x"y` of the caller becomes `xy`. -/
theorem C16_F1_counter_witness (L : Logic ρ ε) :
    scope_C16_F1 (fresh witnessHeap []) witnessArgs = true ∧
    (callWith mutatingShape L (fresh witnessHeap []) witnessArgs).1.heap =
      [(['d', 'f'], .frame [{ name := ['n'], objectDtype := true, cells := [.str ['x', 'y'], .str ['p']] },
                            { name := ['k'], objectDtype := false, cells := [.other ['1'], .other ['2']] }])] ∧
    (callWith mutatingShape L (fresh witnessHeap []) witnessArgs).1.heap ≠ (fresh witnessHeap []).heap := by
  have h2 : (callWith mutatingShape L (fresh witnessHeap []) witnessArgs).1.heap =
      [(['d', 'f'], .frame [{ name := ['n'], objectDtype := true, cells := [.str ['x', 'y'], .str ['p']] },
                            { name := ['k'], objectDtype := false, cells := [.other ['1'], .other ['2']] }])] := by
    show touchHeap mutatingShape witnessArgs.sourceNames witnessHeap = _
    decide
  refine ⟨by decide, h2, ?_⟩
  rw [h2]
  decide

/-- C16 (b), full, for the code as it is now: no scope hypothesis. Needs `Gen.procShape.frameMutatesCaller = false`,
    i.e. the translator must find that `get_ram_data` works on a copy. -/
theorem C16_inputs_unmodified (L : Logic ρ ε) (p : Proc) (a : Args) :
    (call L p a).1.heap = p.heap ∧
    ∀ q, q ∉ activeLog (call L p a).1.logger → look (call L p a).1.files q = look p.files q :=
  ⟨heap_unmodified Gen.procShape L p a (Or.inl (by decide)), fun q hq => files_unmodified Gen.procShape L p a q hq⟩

/-! ### histories -/

/-- Invariant-style induction over an arbitrary history. `Wr` is any set of paths containing every file some call may
    write (the logging files); the calls read nothing in `Wr`. -/
theorem run_eq_fresh (sh : Shape) (hsh : sh.udfLoad = .freshPerUse) (L : Logic ρ ε) (hdet : L.entropyFree)
    (h0 : Heap) (f0 : Files) (Wr : List Str) :
    ∀ (as : List Args) (p : Proc),
      p.heap = h0 →
      (∀ q, q ∉ Wr → look p.files q = look f0 q) →
      (∀ q ∈ activeLog p.logger, q ∈ Wr) →
      (∀ a ∈ as, a.nondet = false ∧ (∀ q ∈ a.outputs, q ∈ Wr) ∧ (∀ q ∈ reads a, q ∉ Wr) ∧
                 (sh.frameMutatesCaller = false ∨ scopeF1 h0 a = false)) →
      (run sh L p as).2 = as.map fun a => (callWith sh L (fresh h0 f0) a).2 := by
  intro as
  induction as with
  | nil => intros; rfl
  | cons a as ih =>
    intro p hh hf hl hall
    obtain ⟨hnd, hout, hrd, hsc⟩ := hall a (by simp)
    show (callWith sh L p a).2 :: (run sh L (callWith sh L p a).1 as).2 = _
    rw [List.map_cons]
    congr 1
    · apply result_indep_views sh hsh L hdet p (fresh h0 f0) a hnd
      · intro n _; show look p.heap n = look h0 n; rw [hh]
      · intro q hq; exact hf q (hrd q hq)
    · have hlog : ∀ q ∈ activeLog (callWith sh L p a).1.logger, q ∈ Wr := by
        intro q hq
        cases activeLog_configure_sub sh.loggerFirstCallWins p.logger a.logging q hq with
        | inl h => exact hl q h
        | inr h => exact hout q h
      apply ih
      · rw [heap_unmodified sh L p a (by rw [hh]; exact hsc), hh]
      · intro q hq
        rw [files_unmodified sh L p a q (fun hmem => hq (hlog q hmem))]
        exact hf q hq
      · exact hlog
      · intro b hb; exact hall b (by simp [hb])

/-- the files any call of the history may write: the logging file already active, and every configured logging file -/
def writable (p0 : Proc) (as : List Args) : List Str := activeLog p0.logger ++ as.flatMap Args.outputs

/-- C16 (c): for EVERY history `as` started in ANY process state `p0`, the k-th result is the result of the same call
    in a fresh interpreter on the original objects and files.
    Hypotheses: no `uuid()` / minted blank nodes; no call reads a file that is a logging file of the history. -/
theorem C16_history (L : Logic ρ ε) (hdet : L.entropyFree) (p0 : Proc) (as : List Args)
    (hnd : ∀ a ∈ as, a.nondet = false)
    (hout : ∀ a ∈ as, ∀ q ∈ reads a, q ∉ writable p0 as) :
    (runHistory L p0 as).2 = as.map fun a => (call L (fresh p0.heap p0.files) a).2 := by
  apply run_eq_fresh Gen.procShape C16_shape_recognised.2.2.2 L hdet p0.heap p0.files (writable p0 as) as p0 rfl
  · intro q _; rfl
  · intro q hq; simp [writable, hq]
  · intro a ha
    refine ⟨hnd a ha, ?_, hout a ha, Or.inl (by decide)⟩
    intro q hq
    simp only [writable, List.mem_append, List.mem_flatMap]
    exact Or.inr ⟨a, ha, hq⟩

/-- the same for any shape that reloads UDFs (e.g. the unfixed `mutatingShape`), outside the scope of C16_F1 -/
theorem C16_history_partial (sh : Shape) (hsh : sh.udfLoad = .freshPerUse) (L : Logic ρ ε) (hdet : L.entropyFree)
    (p0 : Proc) (as : List Args)
    (hnd : ∀ a ∈ as, a.nondet = false)
    (hout : ∀ a ∈ as, ∀ q ∈ reads a, q ∉ writable p0 as)
    (hK : ∀ a ∈ as, ¬ scopeF1 p0.heap a = true) :
    (run sh L p0 as).2 = as.map fun a => (callWith sh L (fresh p0.heap p0.files) a).2 := by
  apply run_eq_fresh sh hsh L hdet p0.heap p0.files (writable p0 as) as p0 rfl
  · intro q _; rfl
  · intro q hq; simp [writable, hq]
  · intro a ha
    refine ⟨hnd a ha, ?_, hout a ha, Or.inr (by simpa using hK a ha)⟩
    intro q hq
    simp only [writable, List.mem_append, List.mem_flatMap]
    exact Or.inr ⟨a, ha, hq⟩

/-- C16 (d): repeated calls with the same arguments return identical results, wherever they stand in a history. -/
theorem C16_repeat (L : Logic ρ ε) (hdet : L.entropyFree) (p0 : Proc) (as : List Args)
    (hnd : ∀ a ∈ as, a.nondet = false)
    (hout : ∀ a ∈ as, ∀ q ∈ reads a, q ∉ writable p0 as)
    (i j : Nat) (hi : i < as.length) (hj : j < as.length) (heq : as[i] = as[j]) :
    (runHistory L p0 as).2[i]? = (runHistory L p0 as).2[j]? := by
  rw [C16_history L hdet p0 as hnd hout]
  simp [List.getElem?_map, List.getElem?_eq_getElem hi, List.getElem?_eq_getElem hj, heq]

/-! ### non-vacuity: a concrete logic and history satisfying every hypothesis, with non-trivial behaviour -/

/-- a logic that returns what it was given: the UDF dict in effect and the sources it saw -/
def L0 : Logic (Option Str × List (Str × Option Obj)) Nat :=
  { F := fun _ h _ d _ => (d, h), W := fun _ _ _ => ['l', 'o', 'g'], E := id }

theorem L0_entropyFree : L0.entropyFree := fun _ _ _ _ _ _ _ => rfl

def ua : Str := ['a', '.', 'p', 'y']
def ub : Str := ['b', '.', 'p', 'y']
def lg : Str := ['l', '.', 't', 'x', 't']
def files0 : Files := [(ua, ['A']), (ub, ['B'])]
def callA : Args := { witnessArgs with udfFile := some ua, usesUdf := true, logging := { level := ['I'], file := some lg } }
def callB : Args := { witnessArgs with udfFile := some ub, usesUdf := true }
def callB2 : Args := { callB with multiproc := true }
/-- a process in which an earlier call configured logging and loaded another UDF file -/
def used : Proc := { udfModule := some ['Z'], logger := some { level := ['E'], file := none }, heap := witnessHeap, files := files0, clock := 5 }

example : (∀ a ∈ [callA, callB, callB2, callA], a.nondet = false) ∧
    (∀ a ∈ [callA, callB, callB2, callA], ∀ q ∈ reads a, q ∉ writable used [callA, callB, callB2, callA]) := by decide

/-- the history really threads state: module B after A, the first logging configuration stays, the clock advances … -/
example : ((run mutatingShape L0 (fresh witnessHeap files0) [callA, callB]).1.udfModule,
           (run mutatingShape L0 (fresh witnessHeap files0) [callA, callB]).1.logger.map (·.file),
           (run mutatingShape L0 (fresh witnessHeap files0) [callA, callB]).1.clock,
           look (run mutatingShape L0 (fresh witnessHeap files0) [callA, callB]).1.files lg)
    = (some ['B'], some (some lg), 2, some ['l', 'o', 'g']) := by decide

/-- … and each result is the one of its own UDF file, not of the module left by the previous call -/
example : ((run mutatingShape L0 used [callA, callB, callB2, callA]).2.map (·.1)) = [some ['A'], some ['B'], some ['B'], some ['A']] := by
  decide

/-- a forked worker pool leaves the parent's module and heap alone -/
example : (callWith mutatingShape L0 used callB2).1.udfModule = some ['Z'] ∧
          (callWith mutatingShape L0 used callB2).1.heap = witnessHeap := by decide

/-- Were `load_udfs` a cache (`reuseIfLoaded`, not the code of /repo), the same history would leak: the model
    distinguishes the two shapes, so C16_result_indep is not true by construction. -/
def reuseShape : Shape := { mutatingShape with udfLoad := .reuseIfLoaded }
example : ((run reuseShape L0 (fresh witnessHeap files0) [callA, callB]).2.map (·.1)) = [some ['A'], some ['A']] := by decide
example : ∃ p p' : Proc, p.heap = p'.heap ∧ p.files = p'.files ∧
    (callWith reuseShape L0 p callB).2 ≠ (callWith reuseShape L0 p' callB).2 :=
  ⟨fresh witnessHeap files0, { fresh witnessHeap files0 with udfModule := some ['A'] }, rfl, rfl, by decide⟩

/-- the scope predicate is not vacuous in either direction -/
example : scope_C16_F1 (fresh witnessHeap []) witnessArgs = true ∧
          scope_C16_F1 (fresh witnessHeap []) { witnessArgs with multiproc := true } = false ∧
          scope_C16_F1 (fresh witnessHeap []) { witnessArgs with sourceNames := [['o']] } = false := by decide

end Props.C16
