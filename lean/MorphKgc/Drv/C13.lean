import MorphKgc.Drv.Core
import MorphKgc.Drv.SpecD
import MorphKgc.Model.StarNormalize
import MorphKgc.Spec.Star

namespace Drv.C13
open Lean Py Model Drv Spec Spec.Star Model.Star

def parsePos (j : Json) : R Pos :=
  match j.getObjValAs? String "quoted" with
  | .ok q => pure (.quoted q.toList (gPairsD j "join"))
  | .error _ => do let tm ← Drv.SpecD.parseTermMap j; pure (.term tm)

def parseSPom (j : Json) : R SPom := do
  let ps ← Drv.SpecD.parseTermMaps j "predicates"
  let os ← (← gArr j "objects").mapM parsePos
  let gs ← Drv.SpecD.parseTermMaps j "graphs"
  pure { predicates := ps, objects := os, graphs := gs }

def parseSTm (j : Json) : R STm := do
  let sj ← j.getObjVal? "subject"
  let s ← parsePos sj
  let classes ← match gStrs sj "classes" with | .ok l => pure l | .error _ => pure []
  let gs ← Drv.SpecD.parseTermMaps sj "graphs"
  let poms ← (← gArr j "poms").mapM parseSPom
  pure { id := gStrD j "id", sourceName := gStrD j "source_name" "DS".toList, lsv := gStrD j "source",
         asserted := gBoolD j "asserted" true, subject := s, classes := classes, graphs := gs, poms := poms }

def parseSDoc (j : Json) : R SDoc := do
  let d ← j.getObjVal? "doc"
  let tms ← (← gArr d "tms").mapM parseSTm
  pure { tms := tms }

def errJson : Err → Json
  | .keyError c => jobj [("err", Json.str "keyerror"), ("col", jstr c)]
  | .overlap cs => jobj [("err", Json.str "overlap"), ("cols", jstrs cs)]
  | .ambiguous c => jobj [("err", Json.str "ambiguous"), ("col", jstr c)]
  | .noRule t => jobj [("err", Json.str "norule"), ("tm", jstr t)]
  | .fuel => jobj [("err", Json.str "fuel")]

def linesJson : Except Err (List Str) → Json
  | .ok ls => jobj [("ok", jstrs ls)]
  | .error e => errJson e

def rulesJson : Except Err (Option (List Rule)) → Json
  | .ok (some rs) => jobj [("ok", jarr (rs.map ruleToJson))]
  | .ok none => jobj [("err", Json.str "nonterminating")]
  | .error e => errJson e

def handle (op : String) (j : Json) : Option (R Json) :=
  match op with
  | "c13_eval" => some do
      let env ← Drv.Core.parseEnv j
      let rules ← (← gArr j "rules").mapM parseRule
      pure (linesJson (if gBoolD j "grouped" false then evalGroupedStar env rules else evalAllStar env rules))
  | "c13_eval_rule" => some do
      let env ← Drv.Core.parseEnv j
      let rules ← (← gArr j "rules").mapM parseRule
      match rules[gNatD j "index" 0]? with
      | none => throw "index"
      | some r => pure (linesJson (evalRuleStar env rules r))
  | "c13_rules_of_doc" => some do
      let doc ← parseSDoc j
      pure (jarr ((rulesOfDoc doc).map ruleToJson))
  | "c13_expand" => some do
      let rules ← (← gArr j "rules").mapM parseRule
      match expandStep rules with
      | .ok rs => pure (jobj [("ok", jarr (rs.map ruleToJson))])
      | .error e => pure (errJson e)
  | "c13_echo" => some do
      let rules ← (← gArr j "rules").mapM parseRule
      pure (jarr (rules.map ruleToJson))
  | "c13_normalize_rules" => some do
      let rules ← (← gArr j "rules").mapM parseRule
      pure (rulesJson (normalizeStar rules))
  | "c13_normalize" => some do
      let doc ← parseSDoc j
      pure (rulesJson (normalizeDocStar doc))
  | "c13_model_doc" => some do
      let env ← Drv.Core.parseEnv j
      let doc ← parseSDoc j
      match normalizeDocStar doc with
      | .ok (some rs) => pure (linesJson (evalAllStar env rs))
      | .ok none => pure (jobj [("err", Json.str "nonterminating")])
      | .error e => pure (errJson e)
  | "c13_spec" => some do
      let env ← Drv.SpecD.parseSEnv j
      let doc ← parseSDoc j
      let d := gNatD j "depth" (doc.tms.length + 1)
      pure (jstrs (dedupFirst (Spec.Star.evalDoc env doc d)))
  | "c13_acyclic" => some do
      let doc ← parseSDoc j
      pure (jbool (AcyclicQuoting doc))
  | _ => none

end Drv.C13
