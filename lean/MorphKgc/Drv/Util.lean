/- JSON helpers for the line-protocol driver (executable only; nothing here is used in proofs). -/
import Lean.Data.Json
import MorphKgc.Model.Rule

namespace Drv
open Lean Py Model

abbrev R := Except String

def jstr (s : Str) : Json := Json.str (String.ofList s)
def jopt (o : Option Str) : Json := match o with | some s => jstr s | none => Json.null
def jstrs (l : List Str) : Json := Json.arr (l.map jstr).toArray
def jbool (b : Bool) : Json := Json.bool b
def jnat (n : Nat) : Json := Json.num (JsonNumber.fromNat n)
def jint (n : Int) : Json := Json.num (JsonNumber.fromInt n)
def jarr (l : List Json) : Json := Json.arr l.toArray
def jobj (l : List (String × Json)) : Json := Json.mkObj l

def gStr (j : Json) (k : String) : R Str := do
  let s ← j.getObjValAs? String k
  pure s.toList

def gStrD (j : Json) (k : String) (d : Str := []) : Str :=
  match j.getObjValAs? String k with | .ok s => s.toList | .error _ => d

def gOptStr (j : Json) (k : String) : Option Str :=
  match j.getObjVal? k with
  | .ok (Json.str s) => some s.toList
  | _ => none

def gBoolD (j : Json) (k : String) (d : Bool) : Bool :=
  match j.getObjValAs? Bool k with | .ok b => b | .error _ => d

def gNatD (j : Json) (k : String) (d : Nat) : Nat :=
  match j.getObjValAs? Nat k with | .ok b => b | .error _ => d

def gArr (j : Json) (k : String) : R (List Json) := do
  let a ← j.getObjVal? k
  match a with
  | Json.arr xs => pure xs.toList
  | _ => throw s!"{k}: not an array"

def asStr (j : Json) : R Str :=
  match j with | Json.str s => pure s.toList | _ => throw "not a string"

def asOptStr (j : Json) : R (Option Str) :=
  match j with | Json.str s => pure (some s.toList) | Json.null => pure none | _ => throw "not a string/null"

def asArr (j : Json) : R (List Json) :=
  match j with | Json.arr xs => pure xs.toList | _ => throw "not an array"

def gStrs (j : Json) (k : String) : R (List Str) := do
  let a ← gArr j k
  a.mapM asStr

def asPair (j : Json) : R (Str × Str) := do
  match j with
  | Json.arr #[Json.str a, Json.str b] => pure (a.toList, b.toList)
  | _ => throw "not a pair of strings"

def gPairs (j : Json) (k : String) : R (List (Str × Str)) := do
  let a ← gArr j k
  a.mapM asPair

def gPairsD (j : Json) (k : String) : List (Str × Str) :=
  match gPairs j k with | .ok l => l | .error _ => []

def parseMapType (s : String) : R MapType :=
  match s with
  | "constant" => pure .constant | "template" => pure .template | "reference" => pure .reference
  | "execution" => pure .execution | "quoted" => pure .quoted | "parentTM" => pure .parentTM
  | _ => throw s!"bad map type {s}"

def parseTermType (s : String) : R TermType :=
  match s with
  | "iri" => pure .iri | "bnode" => pure .bnode | "literal" => pure .literal | "star" => pure .star
  | _ => throw s!"bad term type {s}"

def gMapTypeD (j : Json) (k : String) (d : MapType) : R MapType :=
  match j.getObjValAs? String k with | .ok s => parseMapType s | .error _ => pure d

def gTermTypeD (j : Json) (k : String) (d : TermType) : R TermType :=
  match j.getObjValAs? String k with | .ok s => parseTermType s | .error _ => pure d

/-- a rule as sent by the harness; absent keys take the defaults of `Model.Rule` -/
def parseRule (j : Json) : R Rule := do
  let smt ← gMapTypeD j "subject_map_type" .template
  let pmt ← gMapTypeD j "predicate_map_type" .constant
  let omt ← gMapTypeD j "object_map_type" .constant
  let gmt ← gMapTypeD j "graph_map_type" .constant
  let stt ← gTermTypeD j "subject_termtype" .iri
  let ott ← gTermTypeD j "object_termtype" .iri
  let ld : Option LangDt ← match j.getObjValAs? String "lang_datatype" with
    | .ok "languageMap" => pure (some LangDt.languageMap)
    | .ok "datatypeMap" => pure (some LangDt.datatypeMap)
    | .ok s => throw s!"bad lang_datatype {s}"
    | .error _ => pure none
  let ldmt : Option MapType ← match j.getObjValAs? String "lang_datatype_map_type" with
    | .ok s => do let m ← parseMapType s; pure (some m)
    | .error _ => pure none
  let st : SourceType ← match j.getObjValAs? String "source_type" with
    | .ok "rdb" => pure SourceType.rdb | .ok "memory" => pure SourceType.memory | _ => pure SourceType.file
  let lst : Option LogicalSourceType ← match j.getObjValAs? String "logical_source_type" with
    | .ok "tableName" => pure (some LogicalSourceType.tableName) | .ok "query" => pure (some LogicalSourceType.query)
    | .ok "source" => pure (some LogicalSourceType.source) | _ => pure none
  pure {
    sourceName := gStrD j "source_name", tmId := gStrD j "triples_map_id", asserted := gBoolD j "asserted" true,
    sourceType := st, logicalSourceType := lst, logicalSourceValue := gStrD j "logical_source_value",
    iterator := gOptStr j "iterator",
    subjectMapType := smt, subjectMapValue := gStrD j "subject_map_value", subjectTermtype := stt,
    predicateMapType := pmt, predicateMapValue := gStrD j "predicate_map_value",
    objectMapType := omt, objectMapValue := gStrD j "object_map_value", objectTermtype := ott,
    langDatatype := ld, langDatatypeMapType := ldmt, langDatatypeMapValue := gStrD j "lang_datatype_map_value",
    graphMapType := gmt, graphMapValue := gStrD j "graph_map_value",
    subjectJoin := gPairsD j "subject_join", objectJoin := gPairsD j "object_join",
    partition := gStrD j "mapping_partition" }

def mapTypeName : MapType → String
  | .constant => "constant" | .template => "template" | .reference => "reference"
  | .execution => "execution" | .quoted => "quoted" | .parentTM => "parentTM"

def termTypeName : TermType → String
  | .iri => "iri" | .bnode => "bnode" | .literal => "literal" | .star => "star"

def ruleToJson (r : Rule) : Json :=
  jobj [
    ("source_name", jstr r.sourceName), ("triples_map_id", jstr r.tmId), ("asserted", jbool r.asserted),
    ("logical_source_value", jstr r.logicalSourceValue), ("iterator", jopt r.iterator),
    ("subject_map_type", Json.str (mapTypeName r.subjectMapType)), ("subject_map_value", jstr r.subjectMapValue),
    ("subject_termtype", Json.str (termTypeName r.subjectTermtype)),
    ("predicate_map_type", Json.str (mapTypeName r.predicateMapType)), ("predicate_map_value", jstr r.predicateMapValue),
    ("object_map_type", Json.str (mapTypeName r.objectMapType)), ("object_map_value", jstr r.objectMapValue),
    ("object_termtype", Json.str (termTypeName r.objectTermtype)),
    ("lang_datatype", match r.langDatatype with
        | some .languageMap => Json.str "languageMap" | some .datatypeMap => Json.str "datatypeMap" | none => Json.null),
    ("lang_datatype_map_type", match r.langDatatypeMapType with | some m => Json.str (mapTypeName m) | none => Json.null),
    ("lang_datatype_map_value", jstr r.langDatatypeMapValue),
    ("graph_map_type", Json.str (mapTypeName r.graphMapType)), ("graph_map_value", jstr r.graphMapValue),
    ("subject_join", jarr (r.subjectJoin.map fun p => jarr [jstr p.1, jstr p.2])),
    ("object_join", jarr (r.objectJoin.map fun p => jarr [jstr p.1, jstr p.2])),
    ("mapping_partition", jstr r.partition)]

end Drv
