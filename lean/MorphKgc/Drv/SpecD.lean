import MorphKgc.Drv.Core
import MorphKgc.Model.Normalize
import MorphKgc.Props.C08

namespace Drv.SpecD
open Lean Py Model Drv Spec

def parseTpl (j : Json) : R Tpl := do
  let parts ← gPairs j "parts"
  pure { pre := gStrD j "pre", parts := parts }

def parseTermMap (j : Json) : R TermMap := do
  let kind ← match j.getObjValAs? String "kind" with
    | .ok "constant" => pure TMKind.constant | .ok "template" => pure TMKind.template | .ok "reference" => pure TMKind.reference
    | _ => throw "termmap kind"
  let tt ← gTermTypeD j "termtype" .iri
  let tpl ← match j.getObjVal? "tpl" with
    | .ok t => parseTpl t
    | .error _ => pure ⟨[], []⟩
  pure { kind := kind, value := gStrD j "value", tpl := tpl, termType := tt, lang := gOptStr j "lang", datatype := gOptStr j "datatype" }

def parseTermMaps (j : Json) (k : String) : R (List TermMap) :=
  match gArr j k with
  | .ok a => a.mapM parseTermMap
  | .error _ => pure []

def parseObj (j : Json) : R ObjMap :=
  match j.getObjValAs? String "parent" with
  | .ok p => pure (.ref p.toList (gPairsD j "join"))
  | .error _ => do let tm ← parseTermMap j; pure (.term tm)

def parsePom (j : Json) : R Pom := do
  let ps ← parseTermMaps j "predicates"
  let os ← (← gArr j "objects").mapM parseObj
  let gs ← parseTermMaps j "graphs"
  pure { predicates := ps, objects := os, graphs := gs }

def parseTm (j : Json) : R TriplesMap := do
  let sj ← j.getObjVal? "subject"
  let s ← parseTermMap sj
  let classes ← match gStrs sj "classes" with | .ok l => pure l | .error _ => pure []
  let gs ← parseTermMaps sj "graphs"
  let poms ← (← gArr j "poms").mapM parsePom
  pure { id := gStrD j "id", sourceName := gStrD j "source_name" "DS".toList, lsv := gStrD j "source", subject := s,
         classes := classes, graphs := gs, poms := poms }

def parseDoc (j : Json) : R Doc := do
  let d ← j.getObjVal? "doc"
  let tms ← (← gArr d "tms").mapM parseTm
  pure { tms := tms }

def parseSEnv (j : Json) : R SEnv := do
  let tables ← Drv.Core.parseTables j
  let na ← match gStrs j "na" with | .ok l => pure l | .error _ => pure [[], "nan".toList]
  pure { safe := gStrD j "safe", na := na, fmt := if gStrD j "fmt" == "N-QUADS".toList then .nquads else .ntriples,
         tables := tables }

def handle (op : String) (j : Json) : Option (R Json) :=
  match op with
  | "spec_eval" => some do
      let env ← parseSEnv j
      let doc ← parseDoc j
      pure (jstrs (dedupFirst (evalDoc env doc)))
  | "normalize" => some do
      let doc ← parseDoc j
      pure (jarr ((normalizeDoc doc).map ruleToJson))
  | "model_eval_doc" => some do
      let env ← Drv.Core.parseEnv j
      let doc ← parseDoc j
      match evalAll env (normalizeDoc doc) with
      | .ok ls => pure (jobj [("ok", jstrs ls)])
      | .error e => pure (Drv.Core.errJson e)
  | "quads" => some do
      let env ← parseSEnv j
      let doc ← parseDoc j
      pure (jarr ((Props.C08.quadsOf env doc).map fun q => jarr [jstr q.1, jstr q.2]))
  | "render_tpl" => some do
      let t ← parseTpl (← j.getObjVal? "tpl")
      pure (jstr t.render)
  | _ => none

end Drv.SpecD
