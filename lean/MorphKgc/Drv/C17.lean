import MorphKgc.Drv.Util
import MorphKgc.Model.FS

namespace Drv.C17
open Lean Py Model Drv

def errName : PyErr → String
  | .valueError => "ValueError" | .typeError => "TypeError" | .keyError => "KeyError"

def runErrName : RunErr → String
  | .py e => errName e | .fileNotFound => "FileNotFoundError"

def jexc {α} (f : α → Json) : Except PyErr α → Json
  | .ok a => jobj [("ok", f a)]
  | .error e => jobj [("exc", Json.str (errName e))]

def jpath (p : PurePath) : Json := jobj [("root", jstr p.root), ("parts", jstrs p.parts), ("str", jstr (pathStr p)),
  ("name", jstr p.name), ("suffix", jstr (splitSuffix p.name).2), ("parent", jstr (pathStr p.parent))]

def gOptStrs (j : Json) (k : String) : R (List (Option Str)) := do
  let a ← gArr j k
  a.mapM asOptStr

def parseGroups (j : Json) : R (List (Str × List Str)) := do
  let a ← gArr j "groups"
  a.mapM fun g => do
    match g with
    | Json.arr #[Json.str l, Json.arr ts] => do
        let ts ← ts.toList.mapM asStr
        pure (l.toList, ts)
    | _ => throw "group: not [label, [triples]]"

def parseRun (j : Json) : R RunCfg := do
  let fmt ← gStr j "format"
  let gs ← parseGroups j
  let og := match gStrs j "other_groups" with | .ok l => l | .error _ => []
  pure { format := fmt, outputDir := gOptStr j "output_dir", outputFile := gOptStr j "output_file", groups := gs, otherGroups := og }

def parseFS (j : Json) : R (List (Str × List Str) × List Str) := do
  let fa ← gArr j "files"
  let files ← fa.mapM fun f => do
    match f with
    | Json.arr #[Json.str p, Json.arr ls] => do
        let ls ← ls.toList.mapM asStr
        pure (p.toList, ls)
    | _ => throw "file: not [path, [lines]]"
  let dirs ← gStrs j "dirs"
  pure (files, dirs)

def okPaths (l : List (Except PyErr Str)) : List Str :=
  l.filterMap fun e => match e with | .ok p => some p | .error _ => none

/-- every path a run can touch (files) -/
def candFiles (r : RunCfg) : List Str :=
  okPaths (r.path none :: (r.groups.map (fun g => r.path (some g.1)) ++ r.otherGroups.map (fun g => r.path (some g))))

def candDirs (r : RunCfg) : List Str :=
  ancestorsOrSelf (parsePath r.dir) ++
  (candFiles r).flatMap fun p => ancestorsOrSelf (parsePath (dirname p)) ++ ancestorsOrSelf (parsePath (dirname (pyStrip p)))

def snapshot (fs : FS) (cf cd : List Str) : List (String × Json) :=
  [("files", jarr ((cf.filterMap fun p => (fs.files p).map fun ls => jarr [jstr p, jstrs ls]))),
   ("dirs", jstrs (cd.filter fun d => fs.dirs d))]

def handle (op : String) (j : Json) : Option (R Json) :=
  match op with
  | "path_ops" => some do
      let segs ← gOptStrs j "segs"
      let suffix ← gStr j "suffix"
      let p := mkPath segs
      pure (jobj [("path", jexc jpath p),
                  ("with_suffix", jexc (fun q => jstr (pathStr q)) (p >>= (withSuffix · suffix)))])
  | "str_ops" => some do
      let s ← gStr j "s"
      pure (jobj [("dirname", jstr (dirname s)), ("strip", jstr (pyStrip s))])
  | "output_path" => some do
      let fmt ← gStr j "format"
      let r : RunCfg := { format := fmt, outputDir := gOptStr j "output_dir", outputFile := gOptStr j "output_file", groups := [] }
      pure (jexc jstr (r.path (gOptStr j "group")))
  | "cli_history" => some do
      let (files, dirs) ← parseFS (← j.getObjVal? "fs0")
      let runsJ ← gArr j "runs"
      let runs ← runsJ.mapM parseRun
      let probes := match gStrs j "probes" with | .ok l => l | .error _ => []
      let cf := Py.dedup (files.map (·.1) ++ probes ++ runs.flatMap candFiles)
      let cd := Py.dedup (dirs ++ probes ++ runs.flatMap candDirs)
      let fs0 := FS.ofLists files dirs
      let step := fun (acc : FS × List Json) (r : RunCfg) =>
        let o := cliRun acc.1 r
        (o.fs, acc.2 ++ [jobj ([("err", match o.err with | some e => Json.str (runErrName e) | none => Json.null),
                                 ("targets", jstrs (Py.dedup (targets r))),
                                 ("expected", jarr ((Py.dedup (targets r)).map fun p => jarr [jstr p, jstrs (stmtsFor r p)]))]
                                ++ snapshot o.fs cf cd)])
      let res := runs.foldl step (fs0, [])
      pure (jarr res.2)
  | "c17_shape" => some (pure (jobj [
      ("prepare_before_write", jbool Gen.prepareBeforeWrite),
      ("open_mode", Json.str (match Gen.openMode with | .append => "a" | .write => "w")),
      ("line_suffix", jstr Gen.lineSuffix)]))
  | _ => none

end Drv.C17
