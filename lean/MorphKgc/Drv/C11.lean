import MorphKgc.Drv.Util
import MorphKgc.Drv.Core
import MorphKgc.Drv.C06
import MorphKgc.Model.RowIndep

namespace Drv.C11
open Lean Py Model Drv Drv.Core

/-- typed cells: string → `str`, `null` → `None`, boolean → `bool`, `{"i": "<decimal>"}` → `int`, `{"f": "<repr>"}` → `float`, `{"nan": true}` → `nan` -/
def parseTCell (j : Json) : R TCell :=
  match j with
  | Json.str s => pure (.str s.toList)
  | Json.null => pure .none
  | Json.bool b => pure (.bool b)
  | _ =>
    match j.getObjValAs? String "i" with
    | .ok s => match s.toInt? with
      | some i => pure (.int i)
      | none => throw "bad int"
    | .error _ =>
      match j.getObjValAs? String "f" with
      | .ok s => pure (.float s.toList)
      | .error _ =>
        match j.getObjVal? "nan" with
        | .ok _ => pure .nan
        | .error _ => throw "bad typed cell"

/-- rows arrive as arrays of `[key, cell]` pairs (key order kept, absent keys possible) -/
def parseTRow (j : Json) : R TRow := do
  let a ← asArr j
  a.mapM fun p => match p with
    | Json.arr #[Json.str k, v] => do let c ← parseTCell v; pure (k.toList, c)
    | _ => throw "bad typed pair"

def parseTTable (j : Json) (k : String) : R TTable := do
  let rows ← gArr j k
  rows.mapM parseTRow

def dtypeName : Dtype → String
  | .int64 => "int64" | .float64 => "float64" | .bool => "bool" | .object => "object"

def parseDtype (s : String) : Dtype :=
  match s with
  | "int64" => .int64 | "float64" => .float64 | "bool" => .bool | _ => .object

def parseDtypes (j : Json) : List (Str × Dtype) :=
  match j.getObjVal? "dtypes" with
  | .ok (Json.obj kvs) => kvs.toList.filterMap fun ⟨k, v⟩ => match v with | Json.str s => some (k.toList, parseDtype s) | _ => none
  | _ => []

def parseFrameStrip (j : Json) : FrameStrip :=
  match j.getObjValAs? String "frame_strip" with
  | .ok "applyInfers" => .applyInfers | .ok "keepsObject" => .keepsObject | _ => Gen.frameStripDtype

def frameStripName : FrameStrip → String
  | .applyInfers => "applyInfers" | .keepsObject => "keepsObject" | .unrecognised => "unrecognised"

def deliver (kind : String) (j : Json) (refs : List Str) (tt : TTable) : R Table :=
  match kind with
  | "sqlquery" => pure (sqlQueryDeliverT tt)
  | "sqltable" => pure (sqlTableDeliverT refs tt)
  | "pylist" => pure (listDeliverT refs tt)
  | "columnar" => pure (columnarDeliverT refs tt)
  | "jsonfile" => pure (jsonFlatDeliverT Gen.jsonFileShape refs tt)
  | "jsonmem" => pure (jsonFlatDeliverT Gen.jsonMemShape refs tt)
  | "frame" => pure (frameDeliverT (parseFrameStrip j) (parseDtypes j) refs tt)
  | "text" => pure (textDeliverT Gen.csvReadShape tt)
  | "alone" => pure (aloneTable tt)
  | _ => throw s!"unknown typed source kind {kind}"

def handle (op : String) (j : Json) : Option (R Json) :=
  match op with
  | "c11_facts" => some (pure (jobj [
      ("kind", Json.str (Drv.C06.kindName Gen.preprocessKind)),
      ("translated", jbool Gen.rowIndepTranslated),
      ("dedup_all_columns", jbool (Gen.dedupShape.present && (Gen.dedupShape.subset == .allColumns || Gen.dedupShape.subset == .references))),
      ("sql_coerce_float_false", jbool Gen.sqlReadShape.coerceFloatFalse),
      ("frame_strip", Json.str (frameStripName Gen.frameStripDtype)),
      ("csv_dtype_str", jbool (Gen.csvReadShape.dtypeStr && !Gen.csvReadShape.naFilter)),
      ("elementwise", jbool (Gen.auditTemplate.recognised && Gen.auditFnml.recognised && Gen.auditRuleTerms.recognised && Gen.ruleBodyShape.rowPreserving))]))
  | "c11_coerce_column" => some do
      let cells ← (← gArr j "cells").mapM parseTCell
      pure (jobj [("dtype", Json.str (dtypeName (inferDtype cells))), ("cells", jarr ((coerceColumn cells).map Drv.C06.cellJson))])
  | "c11_deliver" => some do
      let refs ← gStrs j "refs"
      let tt ← parseTTable j "rows"
      let t ← deliver (String.ofList (gStrD j "src")) j refs tt
      pure (Drv.C06.tableJson t)
  | "c11_scope" => some do
      let refs ← gStrs j "refs"
      let tt ← parseTTable j "rows"
      if gStrD j "src" == "frame".toList then
        pure (jbool (scope_C11_F2 (Drv.C06.parseKind j) (parseFrameStrip j) (parseDtypes j) refs tt))
      else
        pure (jbool (scope_C11_F1 (Drv.C06.parseKind j) refs tt))
  | "c11_eval_typed" => some do
      let na ← match gStrs j "na" with | .ok l => pure l | .error _ => pure [[], "nan".toList]
      let env : Env := { cfg := termCfg j, fmt := if gStrD j "fmt" == "N-QUADS".toList then .nquads else .ntriples, na := na }
      let rules ← (← gArr j "rules").mapM parseRule
      let tt ← parseTTable j "rows"
      match rules[gNatD j "index" 0]? with
      | none => throw "index"
      | some r =>
        let t ← deliver (String.ofList (gStrD j "src")) j (dedupFirst (refsOfRule r)) tt
        pure (Drv.C06.exJson jstrs (evalRuleG (Drv.C06.parseKind j) (env.withTable (keyOf r) t) rules r))
  | _ => none

end Drv.C11
