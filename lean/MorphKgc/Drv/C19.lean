import MorphKgc.Drv.Util
import MorphKgc.Model.ConfigEngine
import MorphKgc.Spec.ConfigDoc

namespace Drv.C19
open Lean Py Model Model.Config Drv

def errJson : CfgErr → Json
  | .valueError o => jobj [("kind", Json.str "ValueError"), ("option", jstr o)]
  | .noOption o => jobj [("kind", Json.str "NoOptionError"), ("option", jstr o)]
  | .fileNotFound p => jobj [("kind", Json.str "FileNotFoundError"), ("path", jstr p)]

def getterJson (c : Cfg) (g : String × GetterKind × Str) : Json :=
  let (m, k, o) := g
  let res : Json :=
    match k with
    | .get => match cfgGet c o with
      | some v => jobj [("ok", jstr v)]
      | none => jobj [("err", Json.str "NoOptionError")]
    | .getboolean => match getBool Gen.Config.booleanStates c o with
      | .ok b => jobj [("ok", jbool b)]
      | .error (.valueError _) => jobj [("err", Json.str "ValueError")]
      | .error _ => jobj [("err", Json.str "NoOptionError")]
    | .getint => match getInt c o with
      | .ok n => jobj [("ok", jint n)]
      | .error (.valueError _) => jobj [("err", Json.str "ValueError")]
      | .error _ => jobj [("err", Json.str "NoOptionError")]
    | .naList => match cfgGet c o with
      | some v => jobj [("ok", jstrs (naValues v))]
      | none => jobj [("err", Json.str "NoOptionError")]
  jobj [("method", Json.str m), ("result", res)]

def docDefaultJson : Spec.ConfigDoc.DocDefault → Json
  | .value s => jobj [("value", Json.str s)]
  | .twiceCpuCount => jobj [("twice_cpu_count", jbool true)]

def parseFs (j : Json) : Str → PathKind :=
  let files := match gStrs j "files" with | .ok l => l | .error _ => []
  let dirs : List (Str × List (Str × Bool)) :=
    match gArr j "dirs" with
    | .ok l => l.filterMap fun d =>
        match d.getObjValAs? String "path", d.getObjVal? "entries" with
        | .ok p, .ok (Json.arr es) =>
          some (p.toList, es.toList.filterMap fun e =>
            match e with
            | Json.arr #[Json.str n, Json.bool b] => some (n.toList, b)
            | _ => none)
        | _, _ => none
    | .error _ => []
  fun p => if files.contains p then .file
    else match dirs.find? (fun d => d.1 = p) with
      | some d => .dir d.2
      | none => .missing

def handle (op : String) (j : Json) : Option (R Json) :=
  match op with
  | "config_eval" => some do
      let raw ← gPairs j "options"
      let cpu := gNatD j "cpu" 1
      let loader := gStrD j "loader" "string".toList
      let c := cfgOfRaw raw
      let r := if loader = "file".toList then loadFromFile cpu c
        else if loader = "cli".toList then loadFromCli cpu c else loadFromString cpu c
      match r with
      | .error e => pure (jobj [("accepted", jbool false), ("error", errJson e)])
      | .ok c' => pure (jobj [
          ("accepted", jbool true),
          ("items", jarr (c'.map fun kv => jarr [jstr kv.1, jstr kv.2])),
          ("getters", jarr (Gen.Config.getters.map (getterJson c'))),
          ("output_file_path", jopt (outputFilePath c')),
          ("output_extension", jopt (outputExtension c'))])
  | "config_spec" => some (pure (jobj [
      ("options", jarr (Spec.ConfigDoc.options.map fun d =>
          jobj [("name", Json.str d.name), ("default", docDefaultJson d.default), ("source", Json.str d.source),
                ("empty_takes_default", jbool (Spec.ConfigDoc.emptyTakesDefault d.name.toList))])),
      ("enum", jarr (Spec.ConfigDoc.enumOptions.map fun o => jobj [("option", jstr o), ("values", jstrs (Spec.ConfigDoc.documentedValues o))])),
      ("boolean_options", jstrs Spec.ConfigDoc.booleanOptions),
      ("true", jstrs (Spec.ConfigDoc.truthTable true)), ("false", jstrs (Spec.ConfigDoc.truthTable false)),
      ("na_separator", jstr Spec.ConfigDoc.naSeparator),
      ("extensions", jarr (Spec.ConfigDoc.documentedValues "output_format".toList |>.map fun f =>
          jarr [jstr f, jopt (Spec.ConfigDoc.extensionOf f)]))]))
  | "config_mappings" => some do
      let v ← gStr j "value"
      match mappingsFiles (parseFs j) Gen.Config.mappingsSep v with
      | .ok l => pure (jobj [("ok", jstrs l)])
      | .error e => pure (jobj [("error", errJson e)])
  | "config_na" => some do
      let v ← gStr j "value"
      let cell ← gStr j "cell"
      pure (jbool (isNaCell Gen.Config.naShape v cell))
  | _ => none

end Drv.C19
