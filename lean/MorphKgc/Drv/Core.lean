import MorphKgc.Drv.Util
import MorphKgc.Gen.Escape
import MorphKgc.Gen.Canon
import MorphKgc.Model.Eval
import MorphKgc.Spec.NTerm

namespace Drv.Core
open Lean Py Model Drv

def parseCell (j : Json) : R Cell :=
  match j with
  | Json.str s => pure (.str s.toList)
  | Json.null => pure (.null "None".toList)
  | _ => match j.getObjValAs? String "n" with
    | .ok r => pure (.null r.toList)
    | .error _ => throw "bad cell"

def parseRow (j : Json) : R Row :=
  match j with
  | Json.obj kvs => kvs.toList.mapM fun ⟨k, v⟩ => do let c ← parseCell v; pure (k.toList, c)
  | _ => throw "row: not an object"

def parseTables (j : Json) : R (List ((Str × Str) × Table)) := do
  let ts ← gArr j "tables"
  ts.mapM fun t => do
    let rows ← gArr t "rows"
    let rows ← rows.mapM parseRow
    pure ((gStrD t "source_name", gStrD t "lsv"), rows)

def termCfg (j : Json) : TermCfg :=
  let np := gStrD j "nonprintable"
  { safe := gStrD j "safe",
    nonPrintable := if gBoolD j "only_printable" false then some (fun c => np.contains c) else none,
    escapeChain := Gen.escapeChainTemplate,
    canon := fun dt v => match canonFor Gen.canonSiteTemplate.ladder dt v with | .ok r => r | .error _ => v }

def parseEnv (j : Json) : R Env := do
  let tables ← parseTables j
  let na ← match gStrs j "na" with | .ok l => pure l | .error _ => pure [[], "nan".toList]
  pure { cfg := termCfg j, fmt := if gStrD j "fmt" == "N-QUADS".toList then .nquads else .ntriples,
         na := na, tables := tables }

def errJson : MatErr → Json
  | .keyError c => jobj [("keyerror", jstr c)]

def optTermType (j : Json) : R (Option TermType) :=
  match j.getObjValAs? String "termtype" with
  | .ok "" => pure none
  | .ok s => do let t ← parseTermType s; pure (some t)
  | .error _ => pure none

def handle (op : String) (j : Json) : Option (R Json) :=
  match op with
  | "refs" => some do pure (jstrs (getReferencesInTemplate (← gStr j "template")))
  | "invariant" => some do pure (jopt (getInvariantOfTemplate (← gStr j "template")))
  | "pct" => some do pure (jstr (pctEncode (gStrD j "safe") (← gStr j "value")))
  | "escape" => some do
      let chain := if gStrD j "site" == "fnml".toList then Gen.escapeChainFnml else Gen.escapeChainTemplate
      pure (jstr (applyChain chain (← gStr j "value")))
  | "lex_body" => some do pure (jopt (Spec.lexBody (← gStr j "s")))
  | "pct_decode" => some do pure (jopt (Spec.pctDecode (← gStr j "s")))
  | "is_iri_body" => some do pure (jbool (Spec.IsIriBody (← gStr j "s")))
  | "template" => some do
      let kind ← parseMapType (String.ofList (← gStr j "kind"))
      let tt ← optTermType j
      let rowj ← j.getObjVal? "row"
      let row ← match rowj with
        | Json.obj kvs => kvs.toList.mapM fun ⟨k, v⟩ => do let s ← asStr v; pure (k.toList, s)
        | _ => throw "row"
      match materializeTemplate (termCfg j) kind (← gStr j "value") tt (gStrD j "datatype") (gStrD j "alias")
          (fun c => lookup c row) with
      | .ok s => pure (jobj [("ok", jstr s)])
      | .error e => pure (errJson e)
  | "eval" => some do
      let env ← parseEnv j
      let rules ← (← gArr j "rules").mapM parseRule
      let res := if gBoolD j "grouped" false then evalGrouped env rules else evalAll env rules
      match res with
      | .ok ls => pure (jobj [("ok", jstrs ls)])
      | .error e => pure (errJson e)
  | "eval_rule" => some do
      let env ← parseEnv j
      let rules ← (← gArr j "rules").mapM parseRule
      let i := gNatD j "index" 0
      match rules[i]? with
      | none => throw "index"
      | some r => match evalRule env rules r with
        | .ok ls => pure (jobj [("ok", jstrs ls)])
        | .error e => pure (errJson e)
  | _ => none

end Drv.Core
