import MorphKgc.Drv.Util
import MorphKgc.Gen.Canon
import MorphKgc.Spec.Lexical

namespace Drv.C15
open Lean Py Model Drv

def siteOf (j : Json) : R CanonSite :=
  match j.getObjValAs? String "site" with
  | .ok "fnml" => pure Gen.canonSiteFnml
  | .ok "template" => pure Gen.canonSiteTemplate
  | .ok s => throw s!"bad site {s}"
  | .error _ => pure Gen.canonSiteTemplate

def resJson : Except Abort Str → Json
  | .ok v => jobj [("ok", jstr v)]
  | .error .unsupportedShape => jobj [("unsupported", jbool true)]
  | .error .valueError => jobj [("abort", Json.str "ValueError")]
  | .error .overflowError => jobj [("abort", Json.str "OverflowError")]

def shapeName : CanonShape → String
  | .none => "none" | .lowerAll => "lowerAll" | .viaFloatInt => "viaFloatInt" | .stripDotZero => "stripDotZero"
  | .unrecognised => "unrecognised"
  | .replaceAll a b => "replaceAll " ++ String.ofList a ++ "|" ++ String.ofList b

def handle (op : String) (j : Json) : Option (R Json) :=
  match op with
  | "canon" => some do
      let s ← siteOf j
      pure (resJson (canonFor s.ladder (← gStr j "datatype") (← gStr j "value")))
  | "literal_lex" => some do
      let s ← siteOf j
      pure (resJson (literalLex s (← gStr j "datatype") (← gStr j "value")))
  | "canon_shape" => some do
      let s ← siteOf j
      pure (Json.str (shapeName (shapeOf s.ladder (← gStr j "datatype"))))
  | "c15_spec" => some do
      let v ← gStr j "value"
      let lv := asciiLower v
      pure (jobj [
        ("integerLexical", jbool (Spec.isIntegerLexical v)),
        ("integerDotZero", jbool (Spec.isIntegerDotZero v)),
        ("intValue", match Spec.intValue v with | some i => Json.str (toString i) | none => Json.null),
        ("booleanLexicalLower", jbool (Spec.boolValue lv).isSome),
        ("boolValueLower", match Spec.boolValue lv with | some b => jbool b | none => Json.null),
        ("dateTimeLexical", jbool (Spec.isDateTimeLexical v))])
  | _ => none

end Drv.C15
