import MorphKgc.Drv.Util
import MorphKgc.Drv.Core
import MorphKgc.Model.NullSources

namespace Drv.C06
open Lean Py Model Drv Drv.Core

def cellJson : Cell → Json
  | .str s => jstr s
  | .null r => jobj [("n", jstr r)]

def rowJson (ρ : Row) : Json := jarr (ρ.map fun kv => jarr [jstr kv.1, cellJson kv.2])
def tableJson (t : Table) : Json := jarr (t.map rowJson)
def srowJson (ρ : SRow) : Json := jarr (ρ.map fun kv => jarr [jstr kv.1, jstr kv.2])

def parseRows (j : Json) (k : String) : R Table := do
  let rows ← gArr j k
  rows.mapM parseRow

def parseOptStrObj (j : Json) : R (List (Str × Option Str)) :=
  match j with
  | Json.obj kvs => kvs.toList.mapM fun ⟨k, v⟩ => do let s ← asOptStr v; pure (k.toList, s)
  | _ => throw "not an object of strings/nulls"

def parseStrObj (j : Json) : R (List (Str × Str)) :=
  match j with
  | Json.obj kvs => kvs.toList.mapM fun ⟨k, v⟩ => do let s ← asStr v; pure (k.toList, s)
  | Json.null => pure []
  | _ => throw "not an object of strings"

/-- records arrive as arrays of `[key, value]` pairs so that the key order of the Python dict is kept -/
def parsePairsOpt (j : Json) : R (List (Str × Option Str)) := do
  let a ← asArr j
  a.mapM fun p => match p with
    | Json.arr #[Json.str k, v] => do let s ← asOptStr v; pure (k.toList, s)
    | _ => throw "bad pair"

def parseJField (j : Json) : R JField :=
  match j with
  | Json.str s => pure (.scalar (some s.toList))
  | Json.null => pure (.scalar none)
  | Json.arr xs => match xs.toList with
    | [Json.str "obj", v] => do pure (.obj (← parsePairsOpt v))
    | [Json.str "arr", v] => do let a ← asArr v; pure (.arr (← a.mapM asOptStr))
    | _ => throw "bad field"
  | _ => throw "bad field"

def parseJRecord (j : Json) : R JRecord := do
  let a ← asArr j
  a.mapM fun p => match p with
    | Json.arr #[Json.str k, v] => do let f ← parseJField v; pure (k.toList, f)
    | _ => throw "bad record pair"

def parseXChild (j : Json) : R XChild := do
  let attrs ← match j.getObjVal? "attrs" with | .ok a => parseStrObj a | .error _ => pure []
  let text ← match j.getObjVal? "text" with | .ok t => asOptStr t | .error _ => pure none
  pure { tag := gStrD j "tag", attrs := attrs, text := text }

def parseXElem (j : Json) : R XElem := do
  let attrs ← match j.getObjVal? "attrs" with | .ok a => parseStrObj a | .error _ => pure []
  let cs ← match gArr j "children" with | .ok l => l.mapM parseXChild | .error _ => pure []
  pure { attrs := attrs, children := cs }

def parseLst (j : Json) : Option LogicalSourceType :=
  match j.getObjValAs? String "lst" with
  | .ok "tableName" => some .tableName | .ok "query" => some .query | .ok "source" => some .source | _ => none

def kindName : PreKind → String
  | .strThenNa => "strThenNa" | .keepNullThenNa => "keepNullThenNa"

def parseKind (j : Json) : PreKind :=
  match j.getObjValAs? String "kind" with
  | .ok "strThenNa" => .strThenNa | .ok "keepNullThenNa" => .keepNullThenNa | _ => Gen.preprocessKind

def subsetName : DropSubset → String
  | .references => "references" | .allColumns => "allColumns" | .noDrop => "noDrop"

def exJson {α} (f : α → Json) : Except MatErr α → Json
  | .ok v => jobj [("ok", f v)]
  | .error e => errJson e

def handle (op : String) (j : Json) : Option (R Json) :=
  match op with
  | "c06_facts" => some (pure (jobj [
      ("kind", Json.str (kindName Gen.preprocessKind)),
      ("kind_recomputed", match preKindOf Gen.preprocessSteps with | some k => Json.str (kindName k) | none => Json.null),
      ("translated", jbool Gen.nullTranslated),
      ("default_na", jstrs defaultNa),
      ("json_file_subset", Json.str (subsetName Gen.jsonFileShape.dropSubset)),
      ("json_mem_subset", Json.str (subsetName Gen.jsonMemShape.dropSubset)),
      ("xml_self_attr", Json.str (match Gen.xmlShape.selfAttr with | .subscript => "subscript" | .get => "get")),
      ("xml_drop_before_explode", jbool Gen.xmlShape.dropBeforeExplode)]))
  | "c06_na_values" => some do pure (jstrs (naValuesOf (← gStr j "raw")))
  | "c06_preprocess" => some do
      let na ← gStrs j "na"
      let refs ← gStrs j "refs"
      let t ← parseRows j "rows"
      pure (exJson (fun rows => jarr (rows.map srowJson)) (preprocessG (parseKind j) na refs t))
  | "c06_eval_rule" => some do
      let env ← parseEnv j
      let rules ← (← gArr j "rules").mapM parseRule
      let i := gNatD j "index" 0
      match rules[i]? with
      | none => throw "index"
      | some r => pure (exJson jstrs (evalRuleG (parseKind j) env rules r))
  | "c06_refs" => some do
      let rules ← (← gArr j "rules").mapM parseRule
      match rules[gNatD j "index" 0]? with
      | none => throw "index"
      | some r => pure (jstrs (dedupFirst (refsOfRule r)))
  | "c06_sql_query" => some do
      pure (jopt (buildSqlQuery Gen.sqlShape (parseLst j) (← gStr j "lsv") (← gStrs j "refs")))
  | "c06_sql_render" => some do
      let refs ← gStrs j "refs"
      pure (jstr (SelectAst.render ⟨refs, ← gStr j "lsv", refs⟩))
  | "c06_sql_deliver" => some do
      pure (tableJson (sqlDeliver (parseLst j) (gStrD j "lsv") (← gStrs j "refs") (← parseRows j "rows")))
  | "c06_csv" => some do
      let rows ← (← gArr j "rows").mapM parseStrObj
      pure (tableJson (csvDeliver Gen.csvShape rows))
  | "c06_json" => some do
      let sh := if gBoolD j "mem" false then Gen.jsonMemShape else Gen.jsonFileShape
      let recs ← (← gArr j "records").mapM parseJRecord
      pure (tableJson (readJson sh (← gStrs j "refs") recs))
  | "c06_xml" => some do
      let elems ← (← gArr j "elems").mapM parseXElem
      pure (exJson tableJson (readXml Gen.xmlShape (← gStrs j "refs") elems))
  | "c06_frame" => some do
      pure (exJson tableJson (frameDeliver (← gStrs j "refs") (← parseRows j "rows")))
  | "c06_list" => some do
      let recs ← (← gArr j "records").mapM parsePairsOpt
      pure (tableJson (listDeliver (← gStrs j "refs") recs))
  | _ => none

end Drv.C06
