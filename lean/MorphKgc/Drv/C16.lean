import MorphKgc.Drv.Util
import MorphKgc.Gen.Proc

namespace Drv.C16
open Lean Py Model.Proc Drv

def cellToJson : Cell → Json
  | .str s => jarr [Json.str "s", jstr s]
  | .other r => jarr [Json.str "o", jstr r]

def objToJson : Obj → Json
  | .frame cols => jobj [("kind", Json.str "frame"),
      ("cols", jarr (cols.map fun c => jobj [("name", jstr c.name), ("object", jbool c.objectDtype), ("cells", jarr (c.cells.map cellToJson))]))]
  | .rows j => jobj [("kind", Json.str "rows"), ("json", jstr j)]
  | .tuple j => jobj [("kind", Json.str "tuple"), ("json", jstr j)]
  | .dict j => jobj [("kind", Json.str "dict"), ("json", jstr j)]
  | .jsonStr j => jobj [("kind", Json.str "json"), ("json", jstr j)]

def parseCell (j : Json) : R Cell := do
  match j with
  | Json.arr #[Json.str "s", Json.str s] => pure (.str s.toList)
  | Json.arr #[Json.str "o", Json.str s] => pure (.other s.toList)
  | _ => throw "bad cell"

def parseObj (j : Json) : R Obj := do
  let k ← j.getObjValAs? String "kind"
  match k with
  | "frame" =>
    let cols ← gArr j "cols"
    let cs ← cols.mapM fun c => do
      let cells ← gArr c "cells"
      let cells ← cells.mapM parseCell
      pure ({ name := ← gStr c "name", objectDtype := gBoolD c "object" false, cells := cells } : Column)
    pure (.frame cs)
  | "rows" => pure (.rows (← gStr j "json"))
  | "tuple" => pure (.tuple (← gStr j "json"))
  | "dict" => pure (.dict (← gStr j "json"))
  | "json" => pure (.jsonStr (← gStr j "json"))
  | _ => throw s!"bad object kind {k}"

def parseArgs (j : Json) : R Args := do
  pure { config := gStrD j "config", sourceNames := ← gStrs j "sources", inputs := ← gStrs j "inputs",
         udfFile := gOptStr j "udf", usesUdf := gBoolD j "uses_udf" false, multiproc := gBoolD j "multiproc" false,
         logging := { level := gStrD j "log_level", file := gOptStr j "log_file" }, nondet := false }

def logToJson : Option LogCfg → Json
  | none => Json.null
  | some c => jobj [("level", jstr c.level), ("file", jopt c.file)]

def shapeToJson (s : Shape) : Json :=
  jobj [("udfLoad", Json.str (match s.udfLoad with | .freshPerUse => "freshPerUse" | .reuseIfLoaded => "reuseIfLoaded")),
        ("udfOnlyIfNotBuiltin", jbool s.udfOnlyIfNotBuiltin), ("frameMutatesCaller", jbool s.frameMutatesCaller),
        ("frameReturnsCopy", jbool s.frameReturnsCopy), ("othersReadOnly", jbool s.othersReadOnly),
        ("loggerFirstCallWins", jbool s.loggerFirstCallWins), ("loggingWriteOnly", jbool s.loggingWriteOnly),
        ("configRebuiltPerCall", jbool s.configRebuiltPerCall), ("recognised", jbool s.recognised)]

/-- the logic used for the correspondence: the result is the UDF dict in effect -/
def Ld : Logic (Option Str) Nat := { F := fun _ _ _ d _ => d, W := fun _ _ _ => [], E := id }

def steps (sh : Shape) : Proc → List Args → List Json
  | _, [] => []
  | p, a :: as =>
    let s := callWith sh Ld p a
    jobj [("udf", jopt s.1.udfModule), ("dict", jopt s.2), ("logger", logToJson s.1.logger),
          ("heap", jarr (s.1.heap.map fun no => jarr [jstr no.1, objToJson no.2])),
          ("scope_f1", jbool (scope_C16_F1 p a))] :: steps sh s.1 as

def handle (op : String) (j : Json) : Option (R Json) :=
  match op with
  | "proc_shape" => some (pure (jobj [("shape", shapeToJson Gen.procShape),
        ("state", jarr (Gen.procState.map Json.str)), ("unlisted", jarr (Gen.procUnlisted.map Json.str)),
        ("mutated_defaults", jarr (Gen.procMutatedDefaults.map Json.str)), ("translated", jbool Gen.procTranslated)]))
  | "proc_history" => some do
      let heapJ ← gArr j "heap"
      let heap ← heapJ.mapM fun e => do
        match e with
        | Json.arr #[Json.str n, o] => do pure (n.toList, ← parseObj o)
        | _ => throw "bad heap entry"
      let files := gPairsD j "files"
      let callsJ ← gArr j "calls"
      let calls ← callsJ.mapM parseArgs
      let sh : Shape := match j.getObjValAs? Bool "frame_mutates" with
        | .ok b => { Gen.procShape with frameMutatesCaller := b }
        | .error _ => Gen.procShape
      pure (jarr (steps sh (fresh heap files) calls))
  | _ => none

end Drv.C16
