import MorphKgc.Drv.Util
import MorphKgc.Gen.Loader
import MorphKgc.Model.Loader
import MorphKgc.Spec.NQuads

namespace Drv.C18
open Lean Py Model Drv Spec.NQ

def termToJson : Spec.NQ.Term → Json
  | .iri v => jobj [("k", Json.str "iri"), ("v", jstr v)]
  | .bnode l => jobj [("k", Json.str "bnode"), ("v", jstr l)]
  | .lit lex .plain => jobj [("k", Json.str "lit"), ("v", jstr lex), ("lang", Json.null), ("dt", Json.null)]
  | .lit lex (.lang t) => jobj [("k", Json.str "lit"), ("v", jstr lex), ("lang", jstr t), ("dt", Json.null)]
  | .lit lex (.typed d) => jobj [("k", Json.str "lit"), ("v", jstr lex), ("lang", Json.null), ("dt", jstr d)]
  | .quoted s p o => jobj [("k", Json.str "quoted"), ("s", termToJson s), ("p", termToJson p), ("o", termToJson o)]

def stmtToJson (st : Spec.NQ.Stmt) : Json :=
  jobj [("s", termToJson st.s), ("p", termToJson st.p), ("o", termToJson st.o),
        ("g", match st.g with | some g => termToJson g | none => Json.null)]

def shapeOf (j : Json) : R LoaderShape :=
  match j.getObjValAs? String "loader" with
  | .ok "rdflib" => pure Gen.loaderRdflib
  | .ok "oxigraph" => pure Gen.loaderOxigraph
  | _ => throw "loader: rdflib|oxigraph expected"

def shapeToJson (sh : LoaderShape) : Json :=
  jobj [("sep", jstr sh.sep), ("term", jstr sh.term),
        ("guard", Json.str (match sh.guard with | .truthy => "truthy" | .always => "always")),
        ("format", jstr sh.format), ("same_args", jbool sh.sameArgs), ("target", jstr sh.target)]

def handle (op : String) (j : Json) : Option (R Json) :=
  match op with
  | "loader_shapes" => some (pure (jobj [("rdflib", shapeToJson Gen.loaderRdflib), ("oxigraph", shapeToJson Gen.loaderOxigraph),
        ("translated", jbool Gen.loaderTranslated)]))
  | "frame" => some do
      -- the text the entry point hands to the parser (null = the parser is not called)
      let sh ← shapeOf j
      let ls ← gStrs j "lines"
      pure (match loaderAction sh ls with
        | .skip => Json.null
        | .parse text fmt => jobj [("text", jstr text), ("format", jstr fmt)])
  | "parse_doc" => some do
      let text ← gStr j "text"
      pure (match parseDoc text with
        | none => Json.null
        | some sts => jarr (sts.map stmtToJson))
  | "parse_line" => some do
      let text ← gStr j "text"
      pure (match parseLine text with
        | none => Json.null
        | some st => stmtToJson st)
  | _ => none

end Drv.C18
