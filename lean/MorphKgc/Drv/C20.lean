import MorphKgc.Drv.Util
import MorphKgc.Gen.SqlTypes
import MorphKgc.Model.Infer
import MorphKgc.Spec.SqlTypes

namespace Drv.C20
open Lean Py Model Drv

def handle (op : String) (j : Json) : Option (R Json) :=
  match op with
  | "sql_lookup" => some do
      let ty ← gStr j "type"
      pure (jopt (sqlLookupWith Gen.sqlLookupKind Gen.sqlRdfDatatype ty))
  | "c20_spec" => some (pure (jarr ((Spec.naturalMapping ++ Spec.dbmsCatalogNames ++ Spec.characterTypes.map (fun n => (n, none))).map
        fun (p : String × Option Str) => jarr [Json.str p.1, jopt p.2])))
  | "sql_lookup_kind" => some (pure (Json.str (match Gen.sqlLookupKind with
        | .firstSubstring => "firstSubstring" | .longestWord => "longestWord")))
  | "infer_rule" => some do
      let r ← parseRule (← j.getObjVal? "rule")
      let dt := gOptStr j "catalogue_type"
      let infer := gBoolD j "infer" true
      let lk : Rule → Option Str := fun _ => dt.bind (sqlLookupWith Gen.sqlLookupKind Gen.sqlRdfDatatype)
      pure (ruleToJson (inferRule infer lk r))
  | _ => none

end Drv.C20
