import MorphKgc.Drv.Core
import MorphKgc.Model.Yarrrml
import MorphKgc.Lemmas.Surface

namespace Drv.C09
open Lean Py Model Drv Spec

def parseSTermMap (j : Json) : R STermMap := do
  let kind ← match j.getObjValAs? String "kind" with
    | .ok "constant" => pure TMKind.constant | .ok "template" => pure TMKind.template | .ok "reference" => pure TMKind.reference
    | _ => throw "termmap kind"
  let tt ← match j.getObjValAs? String "termtype" with
    | .ok s => do let t ← parseTermType s; pure (some t)
    | .error _ => pure none
  pure { kind := kind, value := gStrD j "value", isLit := gBoolD j "is_lit" false, termType := tt, lang := gOptStr j "lang",
         datatype := gOptStr j "datatype", ldExpanded := gBoolD j "ld_expanded" false }

def parseSlot (j : Json) : R SSlot :=
  match j.getObjValAs? String "short" with
  | .ok v => pure (.short v.toList (gBoolD j "is_lit" false))
  | .error _ => do let tm ← parseSTermMap j; pure (.full tm)

def parseSlots (j : Json) (k : String) : R (List SSlot) :=
  match gArr j k with
  | .ok a => a.mapM parseSlot
  | .error _ => pure []

def parseSObj (j : Json) : R SObj :=
  match j.getObjValAs? String "parent" with
  | .ok p => pure (.ref p.toList (gPairsD j "join"))
  | .error _ => do let s ← parseSlot j; pure (.slot s)

def parseSPom (j : Json) : R SPom := do
  let ps ← parseSlots j "predicates"
  let os ← (← gArr j "objects").mapM parseSObj
  let gs ← parseSlots j "graphs"
  pure { predicates := ps, objects := os, graphs := gs }

def parseSTm (j : Json) : R STm := do
  let s ← parseSlot (← j.getObjVal? "subject")
  let classes ← match gStrs j "classes" with | .ok l => pure l | .error _ => pure []
  let gs ← parseSlots j "graphs"
  let poms ← (← gArr j "poms").mapM parseSPom
  let lst : Option LogicalSourceType := match j.getObjValAs? String "ls_type" with
    | .ok "tableName" => some .tableName | .ok "query" => some .query | _ => some .source
  pure { id := gStrD j "id", sourceName := gStrD j "source_name" "DS".toList, lsv := gStrD j "source", lsType := lst, subject := s,
         classes := classes, graphs := gs, poms := poms, asserted := true }

def parseSDoc (j : Json) : R SDoc := do
  let d ← j.getObjVal? "sdoc"
  let tms ← (← gArr d "tms").mapM parseSTm
  pure { needsR2rml := gBoolD d "needs_r2rml" false, needsLegacy := gBoolD d "needs_legacy" false, tms := tms }

def stepName : Step → String
  | .r2rmlToRml => "r2rmlToRml" | .legacyToRml => "legacyToRml" | .classToPom => "classToPom" | .expandShortcuts => "expandShortcuts"
  | .subjectGraphsToPom => "subjectGraphsToPom" | .defaultGraph => "defaultGraph" | .termtypes => "termtypes" | .tmClass => "tmClass"
  | .validate => "validate"

def yTermJson : YTerm → Json
  | .reference n => jobj [("reference", jstr n)]
  | .template t => jobj [("template", jstr t)]
  | .rdfType => jobj [("rdftype", Json.null)]
  | .constIri v => jobj [("iri", jstr v)]
  | .constLit v => jobj [("literal", jstr v)]

def handle (op : String) (j : Json) : Option (R Json) :=
  match op with
  | "normalize_surface" => some do
      let d ← parseSDoc j
      pure (jarr ((normalizeSurface d).map ruleToJson))
  | "surface_eval" => some do
      let env ← Drv.Core.parseEnv j
      let d ← parseSDoc j
      match evalAll env (normalizeSurface d) with
      | .ok ls => pure (jobj [("ok", jstrs ls)])
      | .error e => pure (Drv.Core.errJson e)
  | "rewrite_pred" => some do
      let x ← gStr j "term"
      pure (jstr (rewriteChain Gen.legacyToRml (rewriteChain Gen.r2rmlToRmlPred x)))
  | "rewrite_obj" => some do
      let x ← gStr j "term"
      pure (jstr (rewriteChain Gen.r2rmlToRmlObj x))
  | "spec_vocabulary" => some (pure (jarr ((r2rmlVocabulary.map fun e => (e, "r2rml")) ++ (legacyVocabulary.map fun e => (e, "legacy")) |>.map
        fun (p : VEntry × String) => jobj [("old", jstr p.1.old), ("new", jstr p.1.new), ("vocab", Json.str p.2),
          ("role", Json.str (match p.1.role with | .pred => "pred" | .obj => "obj" | .unread => "unread"))])))
  | "norm_order" => some (pure (jobj [("order", jarr (Gen.normalisationOrder.map fun s => Json.str (stepName s))),
        ("ok", jbool (OrderOK Gen.normalisationOrder))]))
  | "y_template" => some do
      pure (jstr (yTemplateToRml Gen.yTemplateKind (← gStr j "template")))
  | "y_add_template" => some do
      pure (yTermJson (yAddTemplate Gen.yAddKind Gen.yTemplateKind (← gStr j "template")))
  | "y_kinds" => some (pure (jobj [("template", Json.str (match Gen.yTemplateKind with | .raw => "raw" | .escaped => "escaped")),
        ("add", Json.str (match Gen.yAddKind with | .startsCount => "startsCount" | .wholeRef => "wholeRef")),
        ("delivery", Json.str (match Gen.objectDelivery with | .consecutiveOptionals => "consecutiveOptionals" | .union => "union"))]))
  | "undelim" => some do
      let s ← gStr j "s"
      pure (jobj [("ident", jstr (undelimIdent s)), ("template", jstr (undelimTemplate s))])
  | _ => none

end Drv.C09
