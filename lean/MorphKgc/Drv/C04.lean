import MorphKgc.Drv.Util
import MorphKgc.Gen.Writer

namespace Drv.C04
open Lean Py Model.Writer Drv

def gNats (j : Json) (k : String) : R (List Nat) := do
  let a ← gArr j k
  a.mapM fun x => match x.getNat? with | .ok n => pure n | .error e => throw e

def pieceJson : Piece → Json
  | .lit s => jarr [Json.str "lit", jstr s]
  | .triple => jarr [Json.str "triple"]

/-- byte lengths of the `f.write` arguments of one loop iteration for a statement of `n` bytes -/
def callLens (sh : WriterShape) (n : Nat) : List Nat :=
  sh.calls.map fun ps => (ps.map fun p => match p with | .lit s => wlen utf8w s | .triple => n).sum

def handle (op : String) (j : Json) : Option (R Json) :=
  match op with
  | "writer_shape" => some (pure (jobj [
      ("append", jbool Gen.writerShape.append),
      ("calls", jarr (Gen.writerShape.calls.map fun c => jarr (c.map pieceJson))),
      ("flush", jbool Gen.writerShape.flush), ("fsync", jbool Gen.writerShape.fsync), ("close", jbool Gen.writerShape.close),
      ("writer_ok", jbool Gen.writerShape.ok), ("main_ok", jbool Gen.mainShape.ok), ("lib_ok", jbool Gen.libShape.ok),
      ("translated", jbool Gen.writerTranslated)]))
  -- payload lengths of one triples_to_file call, from the byte lengths of the statements (generated writer shape)
  | "raw_writes" => some do
      let ns ← gNats j "lens"
      let c := gNatD j "chunk" 8192
      let b := gNatD j "buf" 8192
      pure (jarr ((rawLens c b (ns.flatMap (callLens Gen.writerShape))).map jnat))
  -- payload lengths for an arbitrary sequence of write-call byte lengths (io layers only)
  | "raw_writes_calls" => some do
      let ns ← gNats j "calls"
      let c := gNatD j "chunk" 8192
      let b := gNatD j "buf" 8192
      pure (jarr ((rawLens c b ns).map jnat))
  -- the very function of the theorems, on text: payloads, their byte lengths, whole-line flags
  | "raw_writes_text" => some do
      let ts ← gStrs j "triples"
      let c := gNatD j "chunk" 8192
      let b := gNatD j "buf" 8192
      let ws := workerWrites Gen.writerShape c b ts
      pure (jobj [("payloads", jstrs ws), ("lens", jarr (ws.map fun p => jnat (wlen utf8w p))),
                  ("whole", jarr (ws.map fun p => jbool (wholeLinesB '\n' p)))])
  | "whole_lines" => some do
      let s ← gStr j "text"
      pure (jbool (wholeLinesB '\n' s))
  -- lines of the abstract file after appending the payloads in the given order
  | "file_lines" => some do
      let sched ← gStrs j "sched"
      let old := gStrD j "old"
      pure (jstrs (lines '\n' (cliFile Gen.mainShape old sched)))
  | _ => none

end Drv.C04
